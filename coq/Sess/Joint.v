(* C11: a client session and a server session of Sess/Model.v joined by two message queues refine
   the abstract protocol of Sess/Proto.v, so its safety and agreement theorems hold for them. *)
From Coq Require Import ZArith NArith List Bool Lia.
From Coq.Strings Require Import Byte.
From SV Require Import Base.Bytes Base.Py Gen.Generated Asn1.Model Msg.Types Msg.Encode Msg.Decode
  Sess.Model Sess.Basic Sess.Send Sess.Drain Sess.Proto.
Import ListNotations.
Local Open Scope Z_scope.

Record joint := mkJ { cl : sess; sv : sess; qcs : list msg; qsc : list msg }.

Definition jinit : joint := mkJ (init Client) (init Server) [] [].

(* what the protocol sees of a message *)
Definition view (m : msg) : amsg :=
  if is_notice (m_op m) then ANotice
  else match m_op m with
       | BindRequest _ _ _ => AReq RBind (m_id m)
       | SearchRequest _ _ _ _ _ _ _ _ => AReq RSearch (m_id m)
       | ExtendedRequest _ _ => AReq RExt (m_id m)
       | BindResponse res _ => AResp (PBind (r_code res =? rc_sasl)) (m_id m)
       | SearchResultEntry _ _ => AResp PEntry (m_id m)
       | SearchResultReference _ => AResp PRef (m_id m)
       | SearchResultDone _ => AResp PDone (m_id m)
       | ExtendedResponse _ _ _ => AResp PExt (m_id m)
       | UnbindRequest => AUnbind
       end.

Definition abs_ep (s : sess) : ep := mkEp (s_state s) (s_outstanding s) (s_searches s).
Definition abs (j : joint) : js :=
  mkJs (abs_ep (cl j)) (s_counter (cl j)) (abs_ep (sv j)) (map view (qcs j)) (map view (qsc j)).

Definition client_call (c : call) : bool :=
  match c with CBind _ _ _ | CExtended _ _ _ | CSearch _ _ _ _ _ _ _ _ _ | Unbind => true | _ => false end.
Definition server_call (c : call) : bool :=
  match c with
  | SBindResponse _ _ _ _ _ _ | SExtendedResponse _ _ _ _ _ _ _ | SEntry _ _ _ _ | SReference _ _ _ | SDone _ _ _ _ _
  | Unbind => true
  | _ => false
  end.

(* "answers requests with responses of the matching kind": search responses go to search ids,
   bind / extended responses to other ids, a bind response only while a bind is being processed *)
Definition matching_call (s : sess) (c : call) : Prop :=
  match c with
  | SEntry id _ _ _ | SReference id _ _ | SDone id _ _ _ _ => In id (s_searches s)
  | SBindResponse id _ _ _ _ _ => ~ In id (s_searches s) /\ s_state s = BINDING
  | SExtendedResponse id name _ _ _ _ _ => is_notice_name name = true \/ ~ In id (s_searches s)
  | _ => True
  end.

(* how receive treats the outcome of processing one message *)
Definition after (s' : sess) (r : option pfail) : sess :=
  match r with
  | None => s'
  | Some (PF _ _) => close s'
  | Some (PCrash _) => s'
  end.

Inductive jstep (d : nat) : joint -> joint -> Prop :=
| J_client j c cl' o m :
    client_call c = true -> step d (cl j) c = (cl', o) -> accepted o = true -> msg_of_call (cl j) c = Some m ->
    jstep d j (mkJ cl' (sv j) (qcs j ++ [m]) (qsc j))
| J_server j c sv' o m :
    server_call c = true -> matching_call (sv j) c ->
    step d (sv j) c = (sv', o) -> accepted o = true -> msg_of_call (sv j) c = Some m ->
    jstep d j (mkJ (cl j) sv' (qcs j) (qsc j ++ [m]))
| J_dcs j m q sv' r :
    qcs j = m :: q -> s_state (sv j) <> CLOSED -> process_all (sv j) [m] = (sv', r) ->
    jstep d j (mkJ (cl j) (after sv' r) q (qsc j))
| J_dsc j m q cl' r :
    qsc j = m :: q -> s_state (cl j) <> CLOSED -> process_all (cl j) [m] = (cl', r) ->
    jstep d j (mkJ (after cl' r) (sv j) (qcs j) q)
| J_dropcs j m q : qcs j = m :: q -> s_state (sv j) = CLOSED -> jstep d j (mkJ (cl j) (sv j) q (qsc j))
| J_dropsc j m q : qsc j = m :: q -> s_state (cl j) = CLOSED -> jstep d j (mkJ (cl j) (sv j) (qcs j) q).

Inductive jreach (d : nat) : joint -> Prop :=
| jreach_init : jreach d jinit
| jreach_step j j' : jreach d j -> jstep d j j' -> jreach d j'.

Definition roles_ok (j : joint) : Prop := s_role (cl j) = Client /\ s_role (sv j) = Server.

(* ---- effect of the API calls, in protocol terms *)
Lemma opened_from_opened s : opened_from s = opened s.
Proof. reflexivity. Qed.

Lemma client_request_effect s o cs s' id :
  client_send s o cs = (s', Some id) -> is_unbind o = false ->
  s_state s <> CLOSED /\ id = s_counter s /\
  s_state s' = opened (s_state s) /\ s_counter s' = s_counter s + 1 /\
  s_outstanding s' = zadd (s_counter s) (s_outstanding s) /\ s_searches s' = s_searches s /\ s_role s' = s_role s /\
  (s_state s = BINDING -> match kind_of o with KBindReq | KBindResp | KUnbind | KExtResp => True | _ => False end).
Proof.
  intros H U. pose proof H as H0. apply client_send_some in H. rewrite U in H.
  destruct H as (H1 & -> & H3 & H4 & H5 & H6 & H7 & H8 & H9). repeat split; auto.
  intros B. unfold client_send in H0. destruct o; try discriminate U; try exact Logic.I;
    unfold base_send in H0; rewrite B in H0; cbn in H0; discriminate H0.
Qed.

Lemma client_step_sim d s c s' o m :
  s_role s = Client -> client_call c = true -> step d s c = (s', o) -> accepted o = true ->
  msg_of_call s c = Some m ->
  s_role s' = Client /\
  ((exists k, view m = AReq k (s_counter s) /\
      s_state s <> CLOSED /\ (s_state s = BINDING -> k = RBind) /\ (k = RBind -> s_outstanding s = []) /\
      abs_ep s' = mkEp (match k with RBind => BINDING | _ => opened (s_state s) end)
                       (zadd (s_counter s) (s_outstanding s))
                       (match k with RSearch => zadd (s_counter s) (s_searches s) | _ => s_searches s end) /\
      s_counter s' = s_counter s + 1)
   \/ (view m = AUnbind /\ s_state s <> CLOSED /\ abs_ep s' = closed (abs_ep s) /\ s_counter s' = s_counter s)).
Proof.
  intros R C S A M. unfold step in S. rewrite R in S. destruct c; try discriminate C; cbn [msg_of_call] in M; injection M as <-.
  - (* bind *)
    destruct (s_outstanding s) eqn:O; [|injection S as <- <-; discriminate A].
    destruct (client_send s _ controls) as [s1 [i|]] eqn:E; injection S as <- <-; [|discriminate A].
    apply client_request_effect in E; [|reflexivity]. destruct E as (E1 & -> & E3 & E4 & E5 & E6 & E7 & E8).
    split; [cbn; congruence|]. left. exists RBind. cbn. repeat split; auto.
    unfold abs_ep. cbn. now rewrite E5, E6, O.
  - (* extended *)
    unfold ret in S. destruct (client_send s _ controls) as [s1 [i|]] eqn:E; injection S as <- <-; [|discriminate A].
    apply client_request_effect in E; [|reflexivity]. destruct E as (E1 & -> & E3 & E4 & E5 & E6 & E7 & E8).
    split; [congruence|]. left. exists RExt. cbn. repeat split; auto; try discriminate.
    + intros B. destruct (E8 B).
    + unfold abs_ep. now rewrite E3, E5, E6.
  - (* search *)
    destruct (enum_member scope search_scopes); [|injection S as <- <-; discriminate A].
    destruct (enum_member deref deref_policies); [|injection S as <- <-; discriminate A].
    destruct (client_send s _ controls) as [s1 [i|]] eqn:E; injection S as <- <-; [|discriminate A].
    apply client_request_effect in E; [|reflexivity]. destruct E as (E1 & -> & E3 & E4 & E5 & E6 & E7 & E8).
    split; [cbn; congruence|]. left. exists RSearch. cbn. repeat split; auto; try discriminate.
    + intros B. destruct (E8 B).
    + unfold abs_ep. cbn. now rewrite E3, E5, E6.
  - (* unbind *)
    destruct (client_send s UnbindRequest []) as [s1 [i|]] eqn:E; injection S as <- <-; [|discriminate A].
    apply client_send_some in E. cbn in E. destruct E as (E1 & _ & E3 & E4 & E5 & E6 & E7 & E8 & E9).
    split; [cbn; congruence|]. right. cbn. repeat split; auto.
    unfold abs_ep, closed. cbn. now rewrite E7.
Qed.

From SV Require Import Sess.Lifecycle.

Lemma server_step_sim d s c s' o m :
  s_role s = Server -> server_call c = true -> matching_call s c -> step d s c = (s', o) -> accepted o = true ->
  msg_of_call s c = Some m ->
  s_role s' = Server /\ s_counter s' = s_counter s /\
  ((exists k i, view m = AResp k i /\ s_state s <> CLOSED /\ In i (s_outstanding s) /\
      (s_state s = BINDING -> is_bind_resp k = true) /\ matching (abs_ep s) k i /\
      abs_ep s' = mkEp (match k with PBind false => OPENED | _ => opened (s_state s) end)
                       (if is_final k then zdel i (s_outstanding s) else s_outstanding s)
                       (match k with PDone => zdel i (s_searches s) | _ => s_searches s end))
   \/ (exists i, view m = ANotice /\ s_state s <> CLOSED /\ In i (s_outstanding s) /\
         abs_ep s' = mkEp CLOSED (zdel i (s_outstanding s)) (s_searches s))
   \/ (view m = AUnbind /\ s_state s <> CLOSED /\ abs_ep s' = closed (abs_ep s))).
Proof.
  intros R C Mt S A M. unfold step in S. rewrite R in S. destruct c; try discriminate C; cbn [msg_of_call] in M; injection M as <-.
  - (* bind response *)
    destruct Mt as [Mt1 Mt2].
    destruct (server_send s _) as [s1 [i|]] eqn:E; [|injection S as <- <-; discriminate A].
    apply server_send_some in E. cbn in E. destruct E as (-> & E1 & E2 & E3 & E4 & E5 & E6 & E7 & E8 & E9).
    unfold view. cbn [m_op m_id is_notice r_code server_result].
    destruct (code =? rc_sasl) eqn:Ec; injection S as <- <-; cbn [s_role s_counter set_state].
    + split; [congruence|]. split; [congruence|]. left. exists (PBind true), id. cbn [is_bind_resp is_final].
      repeat split; auto.
      all: try (now apply E4).
      all: try (intros H; discriminate H).
      all: try (intros H; exfalso; exact (Mt1 H)).
      unfold abs_ep. now rewrite E3, E5, E6.
    + split; [congruence|]. split; [congruence|]. left. exists (PBind false), id. cbn [is_bind_resp is_final].
      repeat split; auto.
      all: try (now apply E4).
      all: try (intros H; discriminate H).
      all: try (intros H; exfalso; exact (Mt1 H)).
      unfold abs_ep. cbn. now rewrite E5, E6.
  - (* extended response *)
    destruct (server_send s _) as [s1 [i|]] eqn:E; [|injection S as <- <-; discriminate A].
    pose proof E as E0. apply server_send_some in E. cbn in E. destruct E as (-> & E1 & E2 & E3 & E4 & E5 & E6 & E7 & E8 & E9).
    assert (Hr : s_role s' = Server /\ s_counter s' = s_counter s).
    { destruct (is_notice_name name); injection S as <- <-; cbn; split; congruence. }
    split; [apply Hr|]. split; [apply Hr|].
    unfold view. cbn [m_op m_id is_notice]. destruct (is_notice_name name) eqn:Nn.
    + right. left. exists id. repeat split; auto.
      * now apply E4.
      * injection S as <- <-. unfold abs_ep. cbn. now rewrite E5, E6.
    + left. exists PExt, id. repeat split; auto.
      * now apply E4.
      * intros B. apply (server_send_binding _ _ _ _ B) in E0. unfold bind_traffic in E0. cbn in E0. rewrite Nn in E0. discriminate.
      * intros H. discriminate.
      * intros H. exfalso. destruct Mt as [Mt|Mt]; [congruence|exact (Mt H)].
      * intros H. discriminate.
      * injection S as <- <-. unfold abs_ep. cbn. now rewrite E3, E5, E6.
  - (* entry *)
    unfold ret in S. destruct (server_send s _) as [s1 [i|]] eqn:E; injection S as <- <-; [|discriminate A].
    pose proof E as E0. apply server_send_some in E. cbn in E. destruct E as (-> & E1 & E2 & E3 & E4 & E5 & E6 & E7 & E8 & E9).
    split; [congruence|]. split; [congruence|]. left. exists PEntry, id. cbn. repeat split; auto.
    + now apply E4.
    + intros B. apply (server_send_binding _ _ _ _ B) in E0. discriminate.
    + intros H. discriminate.
    + unfold abs_ep. now rewrite E3, E5, E6.
  - (* reference *)
    unfold ret in S. destruct (server_send s _) as [s1 [i|]] eqn:E; injection S as <- <-; [|discriminate A].
    pose proof E as E0. apply server_send_some in E. cbn in E. destruct E as (-> & E1 & E2 & E3 & E4 & E5 & E6 & E7 & E8 & E9).
    split; [congruence|]. split; [congruence|]. left. exists PRef, id. cbn. repeat split; auto.
    + now apply E4.
    + intros B. apply (server_send_binding _ _ _ _ B) in E0. discriminate.
    + intros H. discriminate.
    + unfold abs_ep. now rewrite E3, E5, E6.
  - (* done *)
    destruct (server_send s _) as [s1 [i|]] eqn:E; injection S as <- <-; [|discriminate A].
    pose proof E as E0. apply server_send_some in E. cbn in E. destruct E as (-> & E1 & E2 & E3 & E4 & E5 & E6 & E7 & E8 & E9).
    split; [cbn; congruence|]. split; [cbn; congruence|]. left. exists PDone, id. cbn. repeat split; auto.
    + now apply E4.
    + intros B. apply (server_send_binding _ _ _ _ B) in E0. discriminate.
    + intros H. discriminate.
    + unfold abs_ep. cbn. now rewrite E3, E5, E6.
  - (* unbind *)
    destruct (server_send s _) as [s1 [i|]] eqn:E; injection S as <- <-; [|discriminate A].
    apply server_send_some in E. cbn in E. destruct E as (_ & E1 & E2 & E3 & E4 & E5 & E6 & E7 & E8 & E9).
    split; [cbn; congruence|]. split; [cbn; congruence|]. right. right. cbn. repeat split; auto.
    unfold abs_ep, closed. cbn. now rewrite E6.
Qed.

(* ---- deliveries *)
Lemma abs_close s : abs_ep (close s) = closed (abs_ep s).
Proof. reflexivity. Qed.

Lemma server_delivery_sim s m s' r :
  s_role s = Server -> process_all s [m] = (s', r) ->
  match a_process_server (abs_ep s) (view m) with
  | (v', DOk) => r = None /\ abs_ep s' = v'
  | (v', DTerm) => (exists w n, r = Some (PF w n)) /\ abs_ep s' = v'
  | (_, DErr) => True
  end.
Proof.
  intros R. cbn [process_all]. unfold view. destruct (is_notice (m_op m)) eqn:Nt.
  - intros H. injection H as <- <-. cbn. split; eauto.
  - rewrite R. unfold process_server.
    destruct (m_op m) eqn:O; cbn [kind_of is_request negb a_process_server].
    + (* bind request *)
      unfold abs_ep at 1. cbn [out]. destruct (s_outstanding s) eqn:Os; [|exact (fun _ => Logic.I)].
      intros H. injection H as <- <-. split; [reflexivity|]. unfold abs_ep. cbn. now rewrite Os.
    + exact (fun _ => Logic.I).
    + intros H. injection H as <- <-. split; eauto.
    + intros H. injection H as <- <-. split; [reflexivity|]. unfold abs_ep, opened. cbn.
      destruct (state_eqb (s_state s) BEFORE_OPEN); reflexivity.
    + exact (fun _ => Logic.I).
    + exact (fun _ => Logic.I).
    + exact (fun _ => Logic.I).
    + intros H. injection H as <- <-. split; [reflexivity|]. unfold abs_ep, opened. cbn.
      destruct (state_eqb (s_state s) BEFORE_OPEN); reflexivity.
    + exact (fun _ => Logic.I).
Qed.

Lemma client_delivery_sim s m s' r :
  s_role s = Client -> process_all s [m] = (s', r) ->
  match a_process_client (abs_ep s) (view m) with
  | (c', DOk) => r = None /\ abs_ep s' = c'
  | (c', DTerm) => (exists w n, r = Some (PF w n)) /\ abs_ep s' = c'
  | (_, DErr) => True
  end.
Proof.
  intros R. cbn [process_all]. unfold view. destruct (is_notice (m_op m)) eqn:Nt.
  - intros H. injection H as <- <-. cbn. split; eauto.
  - rewrite R. unfold process_client.
    destruct (m_op m) eqn:O; cbn [kind_of is_response is_request negb a_process_client];
      try exact (fun _ => Logic.I); try (intros H; injection H as <- <-; split; eauto; fail).
    all: unfold abs_ep; cbn [out srch st].
    all: destruct (zmem (m_id m) (s_searches s)) eqn:Zs; destruct (zmem (m_id m) (s_outstanding s)) eqn:Zo;
      cbn [negb andb orb]; try exact (fun _ => Logic.I).
    all: try (destruct (r_code res =? rc_sasl) eqn:Ec).
    all: cbn [s_outstanding s_searches s_state set_searches set_state set_outstanding]; rewrite ?Zo; cbn [negb andb orb].
    all: try exact (fun _ => Logic.I).
    all: intros H; injection H as <- <-; split; [reflexivity|cbn; reflexivity].
Qed.

(* ---- the refinement *)
Lemma same_out_role a b : same_out a b -> s_role b = s_role a /\ s_counter b = s_counter a.
Proof. unfold same_out. tauto. Qed.

Lemma after_same s r : s_role (after s r) = s_role s /\ s_counter (after s r) = s_counter s.
Proof. destruct r as [[w n|k]|]; cbn; auto. Qed.

Theorem jstep_refines d j j' :
  roles_ok j -> inv (abs j) -> jstep d j j' -> astep (abs j) (abs j') /\ roles_ok j'.
Proof.
  intros [Rc Rv] I S.
  destruct S as [j c cl' o m C S A M|j c sv' o m C Mt S A M|j m q sv' r Eq Hv P|j m q cl' r Eq Ho P|j m q Eq Hv|j m q Eq Hc].
  - destruct (client_step_sim d _ _ _ _ _ Rc C S A M) as (R' & [(k & Vm & H1 & H2 & H3 & H4 & H5)|(Vm & H1 & H2 & H3)]).
    + split; [|split; assumption].
      unfold abs at 2. cbn [cl sv qcs qsc]. rewrite map_app. cbn [map]. rewrite Vm, H4, H5.
      exact (a_creq (abs j) k H1 H2 H3).
    + split; [|split; assumption].
      unfold abs at 2. cbn [cl sv qcs qsc]. rewrite map_app. cbn [map]. rewrite Vm, H2, H3.
      exact (a_cunbind (abs j) H1).
  - destruct (server_step_sim d _ _ _ _ _ Rv C Mt S A M) as (R' & Cn & [(k & i & Vm & H1 & H2 & H3 & H4 & H5)|[(i & Vm & H1 & H2 & H3)|(Vm & H1 & H2)]]).
    + split; [|split; assumption].
      unfold abs at 2. cbn [cl sv qcs qsc]. rewrite map_app. cbn [map]. rewrite Vm, H5.
      exact (a_sresp (abs j) k i H1 H2 H3 H4).
    + split; [|split; assumption].
      unfold abs at 2. cbn [cl sv qcs qsc]. rewrite map_app. cbn [map]. rewrite Vm, H3.
      exact (a_snotice (abs j) i H1 H2).
    + split; [|split; assumption].
      unfold abs at 2. cbn [cl sv qcs qsc]. rewrite map_app. cbn [map]. rewrite Vm, H2.
      exact (a_sunbind (abs j) H1).
  - pose proof (server_delivery_sim _ _ _ _ Rv P) as D.
    destruct (a_process_server (abs_ep (sv j)) (view m)) as [v' dr] eqn:PS.
    assert (Eq' : jqc (abs j) = view m :: map view q) by (cbn; now rewrite Eq).
    destruct (inv_server_never_rejects (abs j) _ _ _ _ I Eq' Hv PS) as [->|[-> _]].
    + destruct D as [-> D]. split.
      * unfold abs at 2. cbn [cl sv qcs qsc after]. rewrite D.
        exact (a_dcs (abs j) (view m) (map view q) v' DOk Eq' Hv PS).
      * split; [assumption|]. cbn. apply process_all_same in P. destruct P as (_ & _ & P). congruence.
    + destruct D as [(w & n & ->) D]. split.
      * unfold abs at 2. cbn [cl sv qcs qsc after]. rewrite abs_close, D.
        exact (a_dcs (abs j) (view m) (map view q) v' DTerm Eq' Hv PS).
      * split; [assumption|]. cbn. apply process_all_same in P. destruct P as (_ & _ & P). congruence.
  - pose proof (client_delivery_sim _ _ _ _ Rc P) as D.
    destruct (a_process_client (abs_ep (cl j)) (view m)) as [c' dr] eqn:PS.
    assert (Eq' : jqs (abs j) = view m :: map view q) by (cbn; now rewrite Eq).
    pose proof (process_all_same _ _ _ _ P) as (_ & Pc & Pr).
    destruct (inv_client_never_rejects (abs j) _ _ _ _ I Eq' Ho PS) as [->|[-> _]].
    + destruct D as [-> D]. split.
      * unfold abs at 2. cbn [cl sv qcs qsc after]. rewrite D, Pc.
        exact (a_dsc (abs j) (view m) (map view q) c' DOk Eq' Ho PS).
      * split; [cbn; congruence|assumption].
    + destruct D as [(w & n & ->) D]. split.
      * unfold abs at 2. cbn [cl sv qcs qsc after]. rewrite abs_close, D.
        change (s_counter (close cl')) with (s_counter cl'). rewrite Pc.
        exact (a_dsc (abs j) (view m) (map view q) c' DTerm Eq' Ho PS).
      * split; [cbn; congruence|assumption].
  - split; [|split; assumption].
    apply (a_dropcs (abs j) (view m) (map view q)); [cbn; now rewrite Eq|assumption].
  - split; [|split; assumption].
    apply (a_dropsc (abs j) (view m) (map view q)); [cbn; now rewrite Eq|assumption].
Qed.

Theorem jreach_abs d j : jreach d j -> areach (abs j) /\ roles_ok j.
Proof.
  induction 1 as [|j j' _ [IH R] S].
  - split; [apply areach_init|split; reflexivity].
  - destruct (jstep_refines d j j' R (reachable_inv _ IH) S) as [A R']. split; [|assumption].
    exact (areach_step _ _ IH A).
Qed.

(* ---- C11 for the session model *)
(* every message that reaches an open endpoint is accepted, or it is the designed termination *)
Theorem no_spurious_error_at_server d j m q sv' r :
  jreach d j -> qcs j = m :: q -> s_state (sv j) <> CLOSED -> process_all (sv j) [m] = (sv', r) ->
  r = None \/ (m_op m = UnbindRequest /\ exists w n, r = Some (PF w n)).
Proof.
  intros R Eq Hv P. destruct (jreach_abs d j R) as [A [Rc Rv]].
  pose proof (server_delivery_sim _ _ _ _ Rv P) as D.
  destruct (a_process_server (abs_ep (sv j)) (view m)) as [v' dr] eqn:PS.
  assert (Eq' : jqc (abs j) = view m :: map view q) by (cbn; now rewrite Eq).
  destruct (server_never_rejects (abs j) _ _ _ _ A Eq' Hv PS) as [->|[-> Vm]].
  - left. tauto.
  - right. split; [|tauto]. unfold view in Vm. destruct (is_notice (m_op m)); [discriminate|].
    destruct (m_op m); try discriminate. reflexivity.
Qed.

Theorem no_spurious_error_at_client d j m q cl' r :
  jreach d j -> qsc j = m :: q -> s_state (cl j) <> CLOSED -> process_all (cl j) [m] = (cl', r) ->
  r = None \/ ((m_op m = UnbindRequest \/ is_notice (m_op m) = true) /\ exists w n, r = Some (PF w n)).
Proof.
  intros R Eq Ho P. destruct (jreach_abs d j R) as [A [Rc Rv]].
  pose proof (client_delivery_sim _ _ _ _ Rc P) as D.
  destruct (a_process_client (abs_ep (cl j)) (view m)) as [c' dr] eqn:PS.
  assert (Eq' : jqs (abs j) = view m :: map view q) by (cbn; now rewrite Eq).
  destruct (client_never_rejects (abs j) _ _ _ _ A Eq' Ho PS) as [->|[-> Vm]].
  - left. tauto.
  - right. split; [|tauto]. unfold view in Vm. destruct (is_notice (m_op m)); [now right|].
    left. destruct (m_op m); destruct Vm; try discriminate. reflexivity.
Qed.

(* whenever everything sent has been delivered, both sides agree on the state (not-yet-opened and
   opened alike) and on the operations in progress *)
Theorem agreement_when_delivered d j :
  jreach d j -> qcs j = [] -> qsc j = [] ->
  same_state (s_state (cl j)) (s_state (sv j)) /\
  (s_state (cl j) <> CLOSED ->
   (forall i, In i (s_outstanding (cl j)) <-> In i (s_outstanding (sv j))) /\
   (forall i, In i (s_searches (cl j)) <-> In i (s_searches (sv j)))).
Proof.
  intros R Ec Es. destruct (jreach_abs d j R) as [A _].
  apply (quiescent_agreement (abs j) A); cbn; [now rewrite Ec|now rewrite Es].
Qed.

(* ---- the byte pipes carry exactly the message queues *)
From SV Require Import Msg.RoundTrip Sess.Chunk.

Lemma enc_msg_nonempty m rest : enc_msg m ++ rest <> [].
Proof. unfold enc_msg, tlv. change (pack_identifier (t_cls u_seq) (t_cons u_seq) (t_num u_seq)) with [x30]. discriminate. Qed.

(* the octets of any sequence of messages parse back to exactly those messages, in order, each once *)
Theorem parse_encodings d ms :
  Forall (wf_msg d) ms -> parse d (concat (map enc_msg ms)) = Ok (map norm_msg ms, []).
Proof.
  induction 1 as [|m ms W _ IH]; [reflexivity|].
  cbn [map concat]. rewrite parse_step by apply enc_msg_nonempty.
  rewrite (msg_rt d m _ W). rewrite IH. reflexivity.
Qed.

(* a receiver that is handed, in arbitrary chunks, the octets the sender queued for messages [ms]
   and raises nothing, has received exactly [ms], in order, as equal values *)
Theorem delivered_exactly_once_in_order d s ms chunks s' got :
  Forall (wf_msg d) ms -> s_state s <> CLOSED -> s_in s = [] -> chunks <> [] ->
  concat chunks = concat (map enc_msg ms) ->
  receive d s (concat chunks) = (s', ORetMsgs got) ->
  got = map norm_msg ms /\ receive_chunks d s chunks = Some (s', got) /\ s_in s' = [].
Proof.
  intros W NC Si Hne Ec Rc. pose proof Rc as Rc0.
  apply (receive_ok d s _ _ _ NC) in Rc. destruct Rc as (rest & P & PA).
  rewrite Si in P. cbn [app] in P. rewrite Ec, (parse_encodings d ms W) in P. injection P as <- <-.
  split; [reflexivity|]. split; [now apply chunk_independent|].
  apply Frame.process_all_in in PA. rewrite PA. reflexivity.
Qed.

(* processing a batch = processing its messages one at a time (the J_dcs / J_dsc steps) *)
Lemma process_all_cons s m ms :
  process_all s (m :: ms) =
  match process_all s [m] with (s1, None) => process_all s1 ms | (s1, Some p) => (s1, Some p) end.
Proof. exact (process_all_app [m] s ms). Qed.
