(* C08: the visible state follows the documented state machine; CLOSED is final. *)
From Coq Require Import ZArith NArith List Bool Lia.
From Coq.Strings Require Import Byte.
From SV Require Import Base.Bytes Base.Py Gen.Generated Asn1.Model Msg.Types Msg.Encode Msg.Decode
  Sess.Model Sess.Basic Sess.Send Sess.Drain Sess.Wire.
Import ListNotations.
Local Open Scope Z_scope.

Definition rejected (o : outcome) : Prop :=
  match o with OLdapErr | OProtoErr _ | OOther _ => True | _ => False end.

(* ---- CLOSED is absorbing: nothing but draining already queued bytes has any effect *)
Theorem closed_is_final d s c s' o :
  s_state s = CLOSED -> step d s c = (s', o) ->
  s_state s' = CLOSED /\ s_in s' = s_in s /\ s_outstanding s' = s_outstanding s /\
  match c with
  | Drain a => s_out s' = snd (py_cut a (s_out s)) /\ o = ORetBytes (fst (py_cut a (s_out s)))
  | Receive _ => s' = s /\ exists p, o = OProtoErr p
  | _ => s' = s /\ (o = OLdapErr \/ exists e, o = OOther e)
  end.
Proof.
  intros C.
  assert (CS : forall o cs, client_send s o cs = (s, None)).
  { intros o0 cs. unfold client_send. rewrite !base_send_closed by (simpl; exact C). now destruct o0. }
  assert (SS : forall m, server_send s m = (s, None)).
  { intros m. unfold server_send. now rewrite base_send_closed by exact C. }
  assert (RC : receive d s (match c with Receive data => data | _ => [] end)
               = (s, OProtoErr (attach (s_role s) None false))) by (unfold receive; now rewrite C).
  destruct c; try (intros H; apply drain_only_cuts in H; decompose [and] H; repeat split; congruence).
  all: unfold step, ret; destruct (s_role s) eqn:R; rewrite ?CS, ?SS, ?RC.
  all: repeat match goal with
              | |- context [match ?x with _ => _ end] => destruct x eqn:?
              end.
  all: intros H; inversion H; subst; repeat split; eauto; congruence.
Qed.

Corollary closed_forever d cs : forall s, s_state s = CLOSED -> s_state (fst (run d s cs)) = CLOSED.
Proof.
  induction cs as [|c cs IH]; intros s C; cbn [run]; [exact C|].
  destruct (step d s c) as [s1 o] eqn:E. destruct (closed_is_final d s c s1 o C E) as (C1 & _).
  specialize (IH s1 C1). destruct (run d s1 cs). exact IH.
Qed.

(* ---- state changes caused by processing received messages *)
Lemma process_client_state s m s' r :
  process_client s m = (s', r) ->
  s_state s' = s_state s \/
  (s_state s' = OPENED /\ exists res sasl, m_op m = BindResponse res sasl /\ r_code res <> rc_sasl).
Proof.
  unfold process_client.
  destruct (negb (is_response _)); [intros H; inversion H; auto|].
  destruct (negb _ && negb _); [intros H; inversion H; auto|].
  destruct (m_op m) eqn:O;
    try (split_all; intros H; inversion H; subst; simpl; left; split_all; reflexivity).
  destruct (Z.eqb_spec (r_code res) rc_sasl).
  - split_all; intros H; inversion H; subst; simpl; left; split_all; reflexivity.
  - split_all; intros H; inversion H; subst; simpl; right; (split; [split_all; reflexivity|eauto]).
Qed.

Lemma process_server_state s m s' r :
  process_server s m = (s', r) ->
  s_state s' = s_state s \/
  (s_state s' = BINDING /\ kind_of (m_op m) = KBindReq /\ r = None) \/
  (s_state s = BEFORE_OPEN /\ s_state s' = OPENED /\ r = None).
Proof.
  unfold process_server.
  destruct (negb (is_request _)); [intros H; inversion H; auto|].
  destruct (kind_of (m_op m)) eqn:K;
    try (destruct (s_outstanding s); intros H; inversion H; subst; simpl; auto; fail);
    destruct (s_state s) eqn:S; simpl; intros H; inversion H; subst; simpl; auto.
Qed.

Definition has_bind_request (ms : list msg) : Prop := exists m, In m ms /\ kind_of (m_op m) = KBindReq.
Definition has_final_bind_response (ms : list msg) : Prop :=
  exists m res sasl, In m ms /\ m_op m = BindResponse res sasl /\ r_code res <> rc_sasl.

Lemma process_all_state ms : forall s s' r,
  process_all s ms = (s', r) ->
  s_state s' = s_state s \/
  (s_role s = Client /\ s_state s' = OPENED /\ has_final_bind_response ms) \/
  (s_role s = Server /\ s_state s' = BINDING /\ has_bind_request ms) \/
  (s_role s = Server /\ s_state s = BEFORE_OPEN /\ s_state s' = OPENED /\ ms <> []).
Proof.
  induction ms as [|m ms IH]; intros s s' r; cbn [process_all].
  - intros H; inversion H; auto.
  - destruct (is_notice (m_op m)); [intros H; inversion H; auto|].
    assert (G : forall p, (match s_role s with Client => process_client s m | Server => process_server s m end) = p ->
                match p with (s1, None) => process_all s1 ms | (s1, Some q) => (s1, Some q) end = (s', r) ->
                s_state s' = s_state s \/
                (s_role s = Client /\ s_state s' = OPENED /\ has_final_bind_response (m :: ms)) \/
                (s_role s = Server /\ s_state s' = BINDING /\ has_bind_request (m :: ms)) \/
                (s_role s = Server /\ s_state s = BEFORE_OPEN /\ s_state s' = OPENED /\ m :: ms <> [])).
    { intros [s1 q] P. destruct (s_role s) eqn:R.
      - pose proof (process_client_same _ _ _ _ P) as (_ & _ & R1).
        apply process_client_state in P.
        destruct q as [q|]; intros H.
        + inversion H; subst. destruct P as [P|(P & res & sasl & O & C)]; [auto|].
          right; left. repeat split; auto. exists m, res, sasl. simpl; auto.
        + apply IH in H. rewrite R1, R in H.
          destruct H as [H|[(_ & H & (m' & res & sasl & I & O & C))|[(H & _)|(H & _)]]]; try discriminate.
          * rewrite H. destruct P as [P|(P & res & sasl & O & C)]; [auto|].
            right; left. repeat split; auto. exists m, res, sasl. simpl; auto.
          * right; left. repeat split; auto. exists m', res, sasl. simpl; auto.
      - pose proof (process_server_same _ _ _ _ P) as (_ & _ & R1).
        apply process_server_state in P.
        destruct q as [q|]; intros H.
        + inversion H; subst. destruct P as [P|[(P & K & Q)|(P1 & P2 & Q)]]; [auto|discriminate|discriminate].
        + apply IH in H. rewrite R1, R in H.
          destruct H as [H|[(H & _)|[(_ & H & (m' & I & K))|(_ & H0 & H & _)]]]; try discriminate.
          * rewrite H. destruct P as [P|[(P & K & Q)|(P1 & P2 & Q)]]; [auto| |].
            -- right; right; left. repeat split; auto. exists m. simpl; auto.
            -- right; right; right. repeat split; auto. discriminate.
          * right; right; left. repeat split; auto. exists m'. simpl; auto.
          * destruct P as [P|[(P & K & Q)|(P1 & P2 & Q)]]; try congruence.
            right; right; right. repeat split; auto; try congruence; try discriminate. }
    destruct (kind_of (m_op m)) eqn:K; try (intros H; inversion H; auto; fail); apply G; reflexivity.
Qed.

(* ---- receive: what can happen to the state *)
Lemma receive_state d s data s' o :
  s_state s <> CLOSED -> receive d s data = (s', o) ->
  (exists ms, o = ORetMsgs ms /\
     (s_state s' = s_state s \/
      (s_role s = Client /\ s_state s' = OPENED /\ has_final_bind_response ms) \/
      (s_role s = Server /\ s_state s' = BINDING /\ has_bind_request ms) \/
      (s_role s = Server /\ s_state s = BEFORE_OPEN /\ s_state s' = OPENED /\ ms <> []))) \/
  (exists p, o = OProtoErr p /\ s_state s' = CLOSED /\ s_outstanding s' = []) \/
  (exists k, o = OOther (Crash k)).
Proof.
  intros NC. unfold receive. destruct (s_state s) eqn:S; [| | |congruence].
  all: set (buffered := match s_in s with [] => false | _ => true end);
       set (input := if buffered then s_in s ++ data else data);
       set (s0 := if buffered then set_in s input else s);
       assert (E0 : s_state s0 = s_state s /\ s_role s0 = s_role s) by (unfold s0; destruct buffered; split; reflexivity);
       destruct (parse_loop _ d input []) as [[ms rest]|e].
  all: try (destruct e as [| | |k]; try destruct k; intros H; inversion H; subst; simpl; eauto 8).
  all: set (s1 := if buffered then set_in s0 rest else match rest with [] => s0 | _ => set_in s0 rest end);
       assert (E1 : s_state s1 = s_state s /\ s_role s1 = s_role s)
         by (unfold s1; destruct buffered; [|destruct rest]; simpl; exact E0);
       destruct (process_all s1 ms) as [s2 [p|]] eqn:P.
  all: try (destruct p; intros H; inversion H; subst; simpl; eauto 8).
  all: intros H; inversion H; subst; left; exists ms; split; [reflexivity|];
       apply process_all_state in P; destruct E1 as [E1 E2]; rewrite E1, E2 in P; rewrite S in P; exact P.
Qed.

Definition is_bind_call (c : call) : bool := match c with CBind _ _ _ => true | _ => false end.
Definition is_notice_call (c : call) : bool :=
  match c with SExtendedResponse _ n _ _ _ _ _ => is_notice_name n | _ => false end.
Definition final_bind_response_call (c : call) : bool :=
  match c with SBindResponse _ _ code _ _ _ => negb (code =? rc_sasl) | _ => false end.

(* the documented transition relation, as a predicate on one observed step *)
Definition documented (r : role) (st : state) (c : call) (o : outcome) (st' : state) : Prop :=
  st' = st \/
  match st' with
  | BEFORE_OPEN => False
  | BINDING =>
      (r = Client /\ is_bind_call c = true /\ accepted o = true) \/
      (r = Server /\ exists data ms, c = Receive data /\ o = ORetMsgs ms /\ has_bind_request ms)
  | OPENED =>
      match st with
      | BINDING =>
          (r = Client /\ exists data ms, c = Receive data /\ o = ORetMsgs ms /\ has_final_bind_response ms) \/
          (r = Server /\ final_bind_response_call c = true /\ accepted o = true)
      | _ =>
          (is_send_call c = true /\ accepted o = true) \/
          (exists data ms, c = Receive data /\ o = ORetMsgs ms /\ ms <> [])
      end
  | CLOSED =>
      (c = Unbind /\ o = ORetNone) \/
      (exists data p, c = Receive data /\ o = OProtoErr p) \/
      (r = Server /\ is_notice_call c = true /\ accepted o = true)
  end.

(* the one deviation the test-suite pins: a server response refused for an unknown id on a
   BEFORE_OPEN session still flips the state to OPENED *)
Definition pinned_deviation (r : role) (st : state) (c : call) (o : outcome) (st' : state) : Prop :=
  r = Server /\ st = BEFORE_OPEN /\ st' = OPENED /\ o = OLdapErr /\ response_id c <> None.

Ltac leaf := solve [repeat split; first [reflexivity | congruence | discriminate | assumption | eauto]].
Ltac branch := first [ leaf | (left; branch) | (right; branch) ].

Ltac send_cases :=
  repeat match goal with
         | |- context [client_send ?s ?o ?cs] =>
             let E := fresh "E" in destruct (client_send s o cs) as [? [?|]] eqn:E;
             [apply client_send_some in E; simpl in E; decompose [and] E; clear E
             |apply client_send_none in E; subst]
         | |- context [server_send ?s ?m] =>
             let E := fresh "E" in destruct (server_send s m) as [? [?|]] eqn:E;
             [apply server_send_some in E; simpl in E; decompose [and] E; clear E
             |apply server_send_none in E; decompose [and] E; clear E]
         end.

Theorem lifecycle_step d s c s' o :
  s_state s <> CLOSED -> step d s c = (s', o) ->
  documented (s_role s) (s_state s) c o (s_state s') \/
  pinned_deviation (s_role s) (s_state s) c o (s_state s') \/
  (exists k, o = OOther (Crash k)).
Proof.
  intros NC. destruct c.
  11: { intros H. apply drain_only_cuts in H. decompose [and] H. left. left. assumption. }
  10: { unfold step. intros H.
        assert (H' : receive d s data = (s', o)) by (destruct (s_role s); exact H). clear H.
        destruct (receive_state d s data s' o NC H') as [(ms & -> & Q)|[(p & -> & Q & _)|(k & ->)]]; [| |eauto].
        - left. unfold documented.
          destruct Q as [Q|[(R & Q & B)|[(R & Q & B)|(R & S & Q & B)]]]; [left; auto| | |]; right; rewrite Q.
          + assert (NE : ms <> []) by (destruct B as (m & ? & ? & I & _); intros ->; destruct I).
            destruct (s_state s) eqn:S; try congruence.
            * right. exists data, ms. auto.
            * left. split; [assumption|]. exists data, ms. auto.
            * right. exists data, ms. auto.
          + right. split; [assumption|]. exists data, ms. auto.
          + rewrite S. right. exists data, ms. auto.
        - left. right. rewrite Q. right. left. eauto. }
  all: destruct s as [r st out os ss cnt inb]; simpl in *.
  all: unfold step, ret, client_send, server_send, base_send; simpl.
  all: destruct r, st; try congruence; simpl.
  all: repeat match goal with
              | |- context [if ?b then _ else _] => destruct b eqn:?
              | |- context [match ?x with _ => _ end] => destruct x eqn:?
              end; intros HH; inversion HH; subst; clear HH; simpl.
  all: unfold documented, pinned_deviation, final_bind_response_call, is_notice_call; simpl.
  all: repeat match goal with H : ?b = _ |- context [?b] => rewrite H end; simpl.
  all: branch.
Qed.

Ltac brute :=
  match goal with s : sess |- _ => destruct s as [r st out os ss cnt inb] end; simpl in *;
  unfold step, ret, client_send, server_send, base_send; simpl;
  repeat match goal with
         | |- context [if ?b then _ else _] => destruct b eqn:?
         | |- context [match ?x with _ => _ end] => destruct x eqn:?
         end.

(* a bind cannot start while other operations are outstanding *)
Theorem bind_needs_nothing_outstanding d s n a cs s' id :
  step d s (CBind n a cs) = (s', ORetId id) -> s_role s = Client -> s_outstanding s = [] /\ s_state s' = BINDING.
Proof.
  unfold step. intros H R. rewrite R in H. destruct (s_outstanding s); [|discriminate].
  destruct (client_send s _ cs) as [s1 [i|]]; inversion H; subst. split; reflexivity.
Qed.

(* while BINDING nothing but bind traffic or a termination can be sent *)
Lemma base_send_binding s m s' id :
  s_state s = BINDING -> base_send s m = (s', Some id) ->
  (match kind_of (m_op m) with KUnbind | KBindReq | KBindResp => true | _ => false end) || is_notice (m_op m) = true.
Proof.
  unfold base_send. intros ->. simpl.
  destruct (match kind_of (m_op m) with KUnbind | KBindReq | KBindResp => true | _ => false end); [reflexivity|].
  simpl. destruct (is_notice (m_op m)); [reflexivity|]. simpl. discriminate.
Qed.

Lemma receive_not_accepted d s data s' o : receive d s data = (s', o) -> accepted o = false.
Proof.
  unfold receive. destruct (s_state s); try (intros H; inversion H; reflexivity);
    destruct (parse_loop _ d _ []) as [[ms rest]|e];
    try (destruct e as [| | |k]; try destruct k; intros H; inversion H; reflexivity);
    destruct (process_all _ ms) as [s2 [p|]]; try destruct p; intros H; inversion H; reflexivity.
Qed.

Definition bind_traffic (o : op) : bool :=
  (match kind_of o with KUnbind | KBindReq | KBindResp => true | _ => false end) || is_notice o.

Lemma client_send_binding s o cs s' id :
  s_state s = BINDING -> client_send s o cs = (s', Some id) -> bind_traffic o = true.
Proof.
  intros B. unfold client_send.
  destruct o; cbv zeta;
    match goal with
    | |- context [base_send s ?m] =>
        destruct (base_send s m) as [s1 [i|]] eqn:E; intros H; try discriminate H;
        apply (base_send_binding s m s1 i B) in E; exact E
    end.
Qed.

Lemma server_send_binding s m s' id :
  s_state s = BINDING -> server_send s m = (s', Some id) -> bind_traffic (m_op m) = true.
Proof.
  intros B. unfold server_send. destruct (base_send s m) as [s1 [i|]] eqn:E; [|discriminate].
  intros _. apply (base_send_binding s m s1 i B) in E. exact E.
Qed.

Theorem binding_gate d s c s' o :
  s_state s = BINDING -> step d s c = (s', o) -> accepted o = true ->
  match c with
  | CBind _ _ _ | SBindResponse _ _ _ _ _ _ | Unbind => True
  | SExtendedResponse _ n _ _ _ _ _ => is_notice_name n = true
  | _ => False
  end.
Proof.
  intros B. unfold step, ret.
  destruct c; try exact (fun _ _ => I); destruct (s_role s) eqn:R; cbv beta iota.
  all: try (intros H A; inversion H; subst; discriminate A).
  all: try (destruct (py_cut amount (s_out s)); intros H A; inversion H; subst; discriminate A).
  all: try (intros H A; apply receive_not_accepted in H; rewrite H in A; discriminate A).
  all: repeat match goal with
              | |- context [match enum_member ?a ?b with _ => _ end] => destruct (enum_member a b)
              end; try (intros H A; inversion H; subst; discriminate A).
  all: match goal with
       | |- context [client_send ?s0 ?o0 ?cs0] =>
           destruct (client_send s0 o0 cs0) as [s1 [i|]] eqn:E;
           [apply (client_send_binding _ _ _ _ _ B) in E; discriminate E|intros H A; inversion H; subst; discriminate A]
       | |- context [server_send ?s0 ?m0] =>
           destruct (server_send s0 m0) as [s1 [i|]] eqn:E;
           [apply (server_send_binding _ _ _ _ B) in E; unfold bind_traffic in E; simpl in E
           |intros H A; inversion H; subst; discriminate A]
       end.
  all: try discriminate E.
  intros _ _. exact E.
Qed.

(* mandatory effects *)
Theorem unbind_closes d s s' : step d s Unbind = (s', ORetNone) -> s_state s' = CLOSED /\ s_outstanding s' = [].
Proof.
  unfold step. destruct (s_role s);
    [destruct (client_send s UnbindRequest []) as [s1 [i|]]|destruct (server_send s _) as [s1 [i|]]];
    intros H; inversion H; subst; split; reflexivity.
Qed.

Theorem protocol_error_closes d s data s' p :
  step d s (Receive data) = (s', OProtoErr p) -> s_state s' = CLOSED.
Proof.
  unfold step. intros H.
  assert (H' : receive d s data = (s', OProtoErr p)) by (destruct (s_role s); exact H). clear H.
  assert (G : s_state s <> CLOSED -> s_state s' = CLOSED).
  { intros NC. destruct (receive_state d s data s' _ NC H') as [(ms & E & _)|[(q & E & Q & _)|(k & E)]];
      try discriminate; exact Q. }
  destruct (s_state s) eqn:S; try (apply G; discriminate).
  unfold receive in H'. rewrite S in H'. inversion H'; subst. exact S.
Qed.

(* the strict reading (no pinned deviation) is false of the faithful model: a refused response
   opens a fresh server session.  This is the known finding recorded for C08. *)
Theorem strict_lifecycle_refuted :
  exists d s c s' o, step d s c = (s', o) /\ s_state s <> CLOSED /\
    ~ documented (s_role s) (s_state s) c o (s_state s') /\ ~ (exists k, o = OOther (Crash k)).
Proof.
  exists 1%nat, (init Server), (SBindResponse 1 None 0 [] [] []).
  eexists; eexists. split; [vm_compute; reflexivity|]. split; [discriminate|]. split.
  - unfold documented. simpl. intros [H|[[_ H]|(data & ms & H & _)]]; discriminate.
  - intros (k & H); discriminate.
Qed.
