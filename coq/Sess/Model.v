(* Model of _session.py: LDAPSession / LDAPClient / LDAPServer as a value + step function.
   A Python object becomes a record; a method call becomes [step : sess -> call -> sess * outcome]. *)
From Coq Require Import ZArith NArith List Bool.
From Coq.Strings Require Import Byte.
From SV Require Import Base.Bytes Base.Py Gen.Generated Asn1.Model Msg.Types Msg.Encode Msg.Decode.
Import ListNotations.
Local Open Scope Z_scope.

Inductive role := Client | Server.
Inductive state := BEFORE_OPEN | BINDING | OPENED | CLOSED.

Definition state_eqb (a b : state) : bool :=
  match a, b with
  | BEFORE_OPEN, BEFORE_OPEN | BINDING, BINDING | OPENED, OPENED | CLOSED, CLOSED => true
  | _, _ => false
  end.

(* Python set of ints as a duplicate-free list *)
Definition zmem (x : Z) (l : list Z) : bool := existsb (Z.eqb x) l.
Definition zadd (x : Z) (l : list Z) : list Z := if zmem x l then l else l ++ [x].
Definition zdel (x : Z) (l : list Z) : list Z := List.filter (fun y => negb (Z.eqb x y)) l.

Record sess := mkSess {
  s_role : role;
  s_state : state;
  s_out : list byte;            (* _outgoing_buffer *)
  s_outstanding : list Z;       (* _outstanding_requests *)
  s_searches : list Z;          (* _search_requests *)
  s_counter : Z;                (* LDAPClient._message_counter *)
  s_in : list byte }.           (* _incoming_buffer *)

Definition init (r : role) : sess := mkSess r BEFORE_OPEN [] [] [] 1 [].

Definition set_state (s : sess) (st : state) : sess :=
  mkSess (s_role s) st (s_out s) (s_outstanding s) (s_searches s) (s_counter s) (s_in s).
Definition set_out (s : sess) (o : list byte) : sess :=
  mkSess (s_role s) (s_state s) o (s_outstanding s) (s_searches s) (s_counter s) (s_in s).
Definition set_outstanding (s : sess) (l : list Z) : sess :=
  mkSess (s_role s) (s_state s) (s_out s) l (s_searches s) (s_counter s) (s_in s).
Definition set_searches (s : sess) (l : list Z) : sess :=
  mkSess (s_role s) (s_state s) (s_out s) (s_outstanding s) l (s_counter s) (s_in s).
Definition set_counter (s : sess) (c : Z) : sess :=
  mkSess (s_role s) (s_state s) (s_out s) (s_outstanding s) (s_searches s) c (s_in s).
Definition set_in (s : sess) (i : list byte) : sess :=
  mkSess (s_role s) (s_state s) (s_out s) (s_outstanding s) (s_searches s) (s_counter s) i.

(* what the ProtocolError carries in .response *)
Inductive presp := PNone | PUnbind | PNotice.

Inductive outcome :=
| ORetId (id : Z)                 (* a send call returned the message id *)
| ORetNone                        (* unbind() *)
| ORetBytes (b : list byte)       (* data_to_send *)
| ORetMsgs (ms : list msg)        (* receive *)
| OLdapErr                        (* LDAPError that is not a ProtocolError *)
| OProtoErr (r : presp)           (* ProtocolError *)
| OOther (e : err).               (* anything else escaping the call *)

Inductive call :=
(* client *)
| CBind (name : str) (auth : cred) (controls : list control)
| CExtended (name : str) (value : option octets) (controls : list control)
| CSearch (base : str) (scope deref size_limit time_limit : Z) (types_only : bool) (f : filter)
          (attrs : list str) (controls : list control)
(* server *)
| SBindResponse (id : Z) (sasl : option octets) (code : Z) (matched diag : str) (controls : list control)
| SExtendedResponse (id : Z) (name : option str) (value : option octets) (code : Z) (matched diag : str)
                    (controls : list control)
| SEntry (id : Z) (name : str) (attrs : list partial_attr) (controls : list control)
| SReference (id : Z) (uris : list str) (controls : list control)
| SDone (id : Z) (code : Z) (matched diag : str) (controls : list control)
(* both *)
| Unbind
| Receive (data : list byte)
| Drain (amount : option Z).

Definition is_notice_name (n : option str) : bool :=
  match n with Some s => bytes_eqb s oid_notice_of_disconnection | None => false end.

Definition is_notice (o : op) : bool :=
  match o with ExtendedResponse _ n _ => is_notice_name n | _ => false end.

Definition rc_sasl : Z := Z.of_N rc_sasl_bind_in_progress.

(* ---- LDAPSession._send: the gate, then queue the bytes *)
Definition base_send (s : sess) (m : msg) : sess * option Z :=
  match s_state s with
  | CLOSED => (s, None)
  | st =>
      let k := kind_of (m_op m) in
      let bind_traffic := match k with KUnbind | KBindReq | KBindResp => true | _ => false end in
      if state_eqb st BINDING && negb bind_traffic && negb (is_notice (m_op m)) then (s, None)
      else
        let s := if state_eqb st BEFORE_OPEN then set_state s OPENED else s in
        (set_out s (s_out s ++ enc_msg m), Some (m_id m))
  end.

(* ---- LDAPClient._send *)
Definition client_send (s : sess) (o : op) (cs : list control) : sess * option Z :=
  match o with
  | UnbindRequest => base_send s (mkMsg 0 o cs)
  | _ =>
      let id := s_counter s in
      match base_send s (mkMsg id o cs) with
      | (s', Some _) => (set_outstanding (set_counter s' (id + 1)) (zadd id (s_outstanding s')), Some id)
      | (s', None) => (s', None)
      end
  end.

(* ---- LDAPServer._send *)
Definition server_send (s : sess) (m : msg) : sess * option Z :=
  let mark := s_out s in
  match base_send s m with
  | (s', None) => (s', None)
  | (s', Some id) =>
      match kind_of (m_op m) with
      | KUnbind => (s', Some id)
      | k =>
          if zmem id (s_outstanding s') then
            match k with
            | KEntry | KRef => (s', Some id)
            | _ => (set_outstanding s' (zdel id (s_outstanding s')), Some id)
            end
          else (set_out s' mark, None)      (* roll the rejected response back *)
      end
  end.

Definition server_result (code : Z) (matched diag : str) : ldap_result :=
  mkResult code matched diag (Some []).

Definition ret (r : sess * option Z) : sess * outcome :=
  match r with (s, Some id) => (s, ORetId id) | (s, None) => (s, OLdapErr) end.

(* ---- data_to_send: buf[:amount], buf[amount:] with Python slice semantics *)
Definition py_cut (amount : option Z) (buf : list byte) : list byte * list byte :=
  match amount with
  | None => (buf, [])
  | Some a =>
      let n := Z.of_nat (length buf) in
      let k := if a <? 0 then Z.max 0 (n + a) else Z.min a n in
      (firstn (Z.to_nat k) buf, skipn (Z.to_nat k) buf)
  end.

(* ---- receive *)
(* the "while reader: unpack_ldap_message" loop; [buffered] selects the code path *)
Fixpoint parse_loop (fuel : nat) (d : nat) (r : reader) (acc : list msg) : res (list msg * reader) :=
  match r with
  | [] => Ok (acc, [])
  | _ =>
      match fuel with
      | O => Raise (Crash OutOfFuel)
      | S f =>
          match unpack_message d r with
          | Ok (m, r') => parse_loop f d r' (acc ++ [m])
          | Raise NeedMore => Ok (acc, r)
          | Raise e => Raise e
          end
      end
  end.

(* per-message processing; None = accepted, Some p = ProtocolError whose .request is
   [with_request] *)
Inductive pfail := PF (with_request : option kind) (notice : bool) | PCrash (k : crash).

Definition process_client (s : sess) (m : msg) : sess * option pfail :=
  let k := kind_of (m_op m) in
  let id := m_id m in
  if negb (is_response k) then (s, Some (PF None false))
  else
    let in_search := zmem id (s_searches s) in
    let is_done := match k with KDone => true | _ => false end in
    if negb in_search && negb (zmem id (s_outstanding s)) then (s, Some (PF None false))
    else
      let s := if in_search && is_done then set_searches s (zdel id (s_searches s)) else s in
      let remove_id := negb in_search || is_done in
      let s := match m_op m with
               | BindResponse res _ => if Z.eqb (r_code res) rc_sasl then s else set_state s OPENED
               | _ => s
               end in
      if remove_id then
        if zmem id (s_outstanding s) then (set_outstanding s (zdel id (s_outstanding s)), None)
        else (s, Some (PCrash KeyErr))        (* set.remove of a missing id *)
      else (s, None).

Definition process_server (s : sess) (m : msg) : sess * option pfail :=
  let k := kind_of (m_op m) in
  if negb (is_request k) then (s, Some (PF None false))
  else
    match k with
    | KBindReq =>
        match s_outstanding s with
        | _ :: _ => (s, Some (PF None false))
        | [] => let s := set_state s BINDING in
                (set_outstanding s (zadd (m_id m) (s_outstanding s)), None)
        end
    | _ =>
        let s := if state_eqb (s_state s) BEFORE_OPEN then set_state s OPENED else s in
        let s := match k with KSearchReq => set_searches s (zadd (m_id m) (s_searches s)) | _ => s end in
        (set_outstanding s (zadd (m_id m) (s_outstanding s)), None)
    end.

Fixpoint process_all (s : sess) (ms : list msg) : sess * option pfail :=
  match ms with
  | [] => (s, None)
  | m :: rest =>
      if is_notice (m_op m) then (s, Some (PF (Some KExtResp) true))
      else match kind_of (m_op m) with
           | KUnbind => (s, Some (PF (Some KUnbind) false))
           | _ =>
               match (match s_role s with Client => process_client s m | Server => process_server s m end) with
               | (s', None) => process_all s' rest
               | (s', Some p) => (s', Some p)
               end
           end
  end.

(* what the role-specific receive() wrapper attaches to the ProtocolError *)
Definition attach (r : role) (with_request : option kind) (notice : bool) : presp :=
  match r with
  | Client =>
      match with_request with
      | None => PUnbind
      | Some KUnbind => PNone
      | Some _ => if notice then PNone else PUnbind
      end
  | Server =>
      match with_request with
      | Some KUnbind => PNone
      | _ => PNotice
      end
  end.

Definition close (s : sess) : sess := set_outstanding (set_state s CLOSED) [].

Definition receive (d : nat) (s : sess) (data : list byte) : sess * outcome :=
  match s_state s with
  | CLOSED => (s, OProtoErr (attach (s_role s) None false))
  | _ =>
      let buffered := match s_in s with [] => false | _ => true end in
      let input := if buffered then s_in s ++ data else data in
      let s0 := if buffered then set_in s input else s in
      match parse_loop (S (length input)) d input [] with
      | Raise (Crash k) =>
          match k with
          | RecursionErr => (close s0, OProtoErr (attach (s_role s) None false))
          | _ => (s0, OOther (Crash k))
          end
      | Raise _ => (close s0, OProtoErr (attach (s_role s) None false))
      | Ok (ms, rest) =>
          (* buffered path always stores the remainder; direct path only when it stopped on
             NotEnougData, which is exactly when the remainder is non-empty *)
          let s1 := if buffered then set_in s0 rest
                    else match rest with [] => s0 | _ => set_in s0 rest end in
          match process_all s1 ms with
          | (s2, None) => (s2, ORetMsgs ms)
          | (s2, Some (PF wr nt)) => (close s2, OProtoErr (attach (s_role s) wr nt))
          | (s2, Some (PCrash k)) => (s2, OOther (Crash k))
          end
      end
  end.

Definition version3 : Z := session_ldap_version.

(* ---- one API call *)
Definition step (d : nat) (s : sess) (c : call) : sess * outcome :=
  match s_role s, c with
  | _, Drain amount =>
      let '(head, tail) := py_cut amount (s_out s) in (set_out s tail, ORetBytes head)
  | _, Receive data => receive d s data
  | r, Unbind =>
      let m := mkMsg 0 UnbindRequest [] in
      match (match r with Client => client_send s UnbindRequest [] | Server => server_send s m end) with
      | (s', Some _) => (set_state (set_outstanding s' []) CLOSED, ORetNone)
      | (s', None) => (s', OLdapErr)
      end
  | Client, CBind name auth cs =>
      match s_outstanding s with
      | _ :: _ => (s, OLdapErr)
      | [] =>
          match client_send s (BindRequest version3 name auth) cs with
          | (s', Some id) => (set_state s' BINDING, ORetId id)
          | (s', None) => (s', OLdapErr)
          end
      end
  | Client, CExtended name value cs => ret (client_send s (ExtendedRequest name value) cs)
  | Client, CSearch base scope deref size time types_only f attrs cs =>
      (* SearchScope(scope) / DereferencingPolicy(deref) *)
      match enum_member scope search_scopes, enum_member deref deref_policies with
      | Ok _, Ok _ =>
          match client_send s (SearchRequest base scope deref size time types_only f attrs) cs with
          | (s', Some id) => (set_searches s' (zadd id (s_searches s')), ORetId id)
          | (s', None) => (s', OLdapErr)
          end
      | _, _ => (s, OOther ValueErr)
      end
  | Server, SBindResponse id sasl code matched diag cs =>
      match server_send s (mkMsg id (BindResponse (server_result code matched diag) sasl) cs) with
      | (s', Some id) => ((if Z.eqb code rc_sasl then s' else set_state s' OPENED), ORetId id)
      | (s', None) => (s', OLdapErr)
      end
  | Server, SExtendedResponse id name value code matched diag cs =>
      match server_send s (mkMsg id (ExtendedResponse (server_result code matched diag) name value) cs) with
      | (s', Some id) => ((if is_notice_name name then set_state s' CLOSED else s'), ORetId id)
      | (s', None) => (s', OLdapErr)
      end
  | Server, SEntry id name attrs cs => ret (server_send s (mkMsg id (SearchResultEntry name attrs) cs))
  | Server, SReference id uris cs => ret (server_send s (mkMsg id (SearchResultReference uris) cs))
  | Server, SDone id code matched diag cs =>
      match server_send s (mkMsg id (SearchResultDone (server_result code matched diag)) cs) with
      | (s', Some id) => (set_searches s' (zdel id (s_searches s')), ORetId id)
      | (s', None) => (s', OLdapErr)
      end
  (* a client method on a server object (or vice versa) does not exist: AttributeError *)
  | _, _ => (s, OOther (Crash TypeErr))
  end.

(* a whole history *)
Fixpoint run (d : nat) (s : sess) (cs : list call) : sess * list outcome :=
  match cs with
  | [] => (s, [])
  | c :: rest =>
      let '(s', o) := step d s c in
      let '(s'', os) := run d s' rest in
      (s'', o :: os)
  end.
