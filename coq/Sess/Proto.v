(* C11: the client/server protocol at the level of messages.  Two endpoints (state, outstanding ids,
   search ids; the client also has its id counter) joined by two FIFO queues of abstract messages.
   The endpoint functions below are the message-level content of Sess/Model.v (process_client,
   process_server, the three _send layers and the API calls on top of them); Sess/Joint.v proves
   that the concrete model refines this one. *)
From Coq Require Import ZArith List Bool Lia.
From SV Require Import Sess.Model Sess.Basic.
Import ListNotations.
Local Open Scope Z_scope.

Inductive rk := RBind | RSearch | RExt.
Inductive pk := PBind (sasl : bool) | PEntry | PRef | PDone | PExt.
Inductive amsg := AReq (k : rk) (i : Z) | AResp (k : pk) (i : Z) | AUnbind | ANotice.

Record ep := mkEp { st : state; out : list Z; srch : list Z }.

Definition opened (s : state) : state := if state_eqb s BEFORE_OPEN then OPENED else s.
Definition is_final (k : pk) : bool := match k with PEntry | PRef => false | _ => true end.
Definition is_srch_resp (k : pk) : bool := match k with PEntry | PRef | PDone => true | _ => false end.
Definition is_bind_resp (k : pk) : bool := match k with PBind _ => true | _ => false end.

Inductive dres := DOk | DTerm | DErr.

(* LDAPServer._process_incoming_message (+ the termination checks of receive) *)
Definition a_process_server (s : ep) (m : amsg) : ep * dres :=
  match m with
  | AReq RBind i =>
      match out s with
      | [] => (mkEp BINDING (zadd i []) (srch s), DOk)
      | _ => (s, DErr)
      end
  | AReq k i =>
      (mkEp (opened (st s)) (zadd i (out s)) (match k with RSearch => zadd i (srch s) | _ => srch s end), DOk)
  | AResp _ _ => (s, DErr)
  | AUnbind | ANotice => (s, DTerm)
  end.

(* LDAPClient._process_incoming_message *)
Definition a_process_client (c : ep) (m : amsg) : ep * dres :=
  match m with
  | AResp k i =>
      let in_search := zmem i (srch c) in
      let is_done := match k with PDone => true | _ => false end in
      if negb in_search && negb (zmem i (out c)) then (c, DErr)
      else
        let srch' := if in_search && is_done then zdel i (srch c) else srch c in
        let st' := match k with PBind false => OPENED | _ => st c end in
        if negb in_search || is_done then
          if zmem i (out c) then (mkEp st' (zdel i (out c)) srch', DOk) else (c, DErr)
        else (mkEp st' (out c) srch', DOk)
  | AReq _ _ => (c, DErr)
  | AUnbind | ANotice => (c, DTerm)
  end.

Definition closed (e : ep) : ep := mkEp CLOSED [] (srch e).

Record js := mkJs { jc : ep; jn : Z; jv : ep; jqc : list amsg; jqs : list amsg }.

Definition js_init : js := mkJs (mkEp BEFORE_OPEN [] []) 1 (mkEp BEFORE_OPEN [] []) [] [].

(* what "answers requests with responses of the matching kind" means for the server application *)
Definition matching (s : ep) (k : pk) (i : Z) : Prop :=
  (is_srch_resp k = true <-> In i (srch s)) /\ (is_bind_resp k = true -> st s = BINDING).

Inductive astep : js -> js -> Prop :=
(* an accepted client request: bind needs nothing outstanding; in BINDING only a bind passes the gate *)
| a_creq j k :
    st (jc j) <> CLOSED ->
    (st (jc j) = BINDING -> k = RBind) ->
    (k = RBind -> out (jc j) = []) ->
    astep j (mkJs (mkEp (match k with RBind => BINDING | _ => opened (st (jc j)) end)
                        (zadd (jn j) (out (jc j)))
                        (match k with RSearch => zadd (jn j) (srch (jc j)) | _ => srch (jc j) end))
                  (jn j + 1) (jv j) (jqc j ++ [AReq k (jn j)]) (jqs j))
| a_cunbind j :
    st (jc j) <> CLOSED ->
    astep j (mkJs (closed (jc j)) (jn j) (jv j) (jqc j ++ [AUnbind]) (jqs j))
(* an accepted server response *)
| a_sresp j k i :
    st (jv j) <> CLOSED -> In i (out (jv j)) ->
    (st (jv j) = BINDING -> is_bind_resp k = true) ->
    matching (jv j) k i ->
    astep j (mkJs (jc j) (jn j)
                  (mkEp (match k with PBind false => OPENED | _ => opened (st (jv j)) end)
                        (if is_final k then zdel i (out (jv j)) else out (jv j))
                        (match k with PDone => zdel i (srch (jv j)) | _ => srch (jv j) end))
                  (jqc j) (jqs j ++ [AResp k i]))
| a_snotice j i :
    st (jv j) <> CLOSED -> In i (out (jv j)) ->
    astep j (mkJs (jc j) (jn j) (mkEp CLOSED (zdel i (out (jv j))) (srch (jv j))) (jqc j) (jqs j ++ [ANotice]))
| a_sunbind j :
    st (jv j) <> CLOSED ->
    astep j (mkJs (jc j) (jn j) (closed (jv j)) (jqc j) (jqs j ++ [AUnbind]))
(* deliveries *)
| a_dcs j m q v' r :
    jqc j = m :: q -> st (jv j) <> CLOSED -> a_process_server (jv j) m = (v', r) ->
    astep j (mkJs (jc j) (jn j) (match r with DOk => v' | _ => closed v' end) q (jqs j))
| a_dsc j m q c' r :
    jqs j = m :: q -> st (jc j) <> CLOSED -> a_process_client (jc j) m = (c', r) ->
    astep j (mkJs (match r with DOk => c' | _ => closed c' end) (jn j) (jv j) (jqc j) q)
(* bytes reaching a closed endpoint are refused *)
| a_dropcs j m q : jqc j = m :: q -> st (jv j) = CLOSED -> astep j (mkJs (jc j) (jn j) (jv j) q (jqs j))
| a_dropsc j m q : jqs j = m :: q -> st (jc j) = CLOSED -> astep j (mkJs (jc j) (jn j) (jv j) (jqc j) q).

Inductive areach : js -> Prop :=
| areach_init : areach js_init
| areach_step j j' : areach j -> astep j j' -> areach j'.

(* ------------------------------------------------------------------ the invariant *)
Definition is_open (e : ep) : Prop := st e <> CLOSED.
Definition is_creq_msg (m : amsg) : Prop := match m with AReq _ _ | AUnbind => True | _ => False end.
Definition is_sresp_msg (m : amsg) : Prop := match m with AResp _ _ | AUnbind | ANotice => True | _ => False end.
Definition req_ids (q : list amsg) : list Z := flat_map (fun m => match m with AReq _ i => [i] | _ => [] end) q.
Definition has_term (q : list amsg) : Prop := In AUnbind q \/ In ANotice q.

Inductive phase (j : js) : Prop :=
| PhA : st (jc j) <> BINDING -> st (jv j) <> BINDING ->
        (forall i, ~ In (AReq RBind i) (jqc j)) -> (forall b i, ~ In (AResp (PBind b) i) (jqs j)) -> phase j
| PhB b : st (jc j) = BINDING -> jqc j = [AReq RBind b] -> out (jc j) = [b] -> out (jv j) = [] -> jqs j = [] -> phase j
| PhC b : st (jc j) = BINDING -> st (jv j) = BINDING -> jqc j = [] -> jqs j = [] ->
          out (jc j) = [b] -> out (jv j) = [b] -> phase j
| PhD b : st (jc j) = BINDING -> st (jv j) = BINDING -> jqc j = [] -> jqs j = [AResp (PBind true) b] ->
          out (jc j) = [b] -> out (jv j) = [] -> phase j
| PhE : st (jc j) = BINDING -> st (jv j) = BINDING -> jqc j = [] -> jqs j = [] ->
        out (jc j) = [] -> out (jv j) = [] -> phase j
| PhF b : st (jc j) = BINDING -> st (jv j) <> BINDING -> jqc j = [] -> jqs j = [AResp (PBind false) b] ->
          out (jc j) = [b] -> out (jv j) = [] -> phase j.

Record inv (j : js) : Prop := mkInv {
  K1 : Forall is_creq_msg (jqc j);
  K2 : Forall is_sresp_msg (jqs j);
  N1a : forall i, In i (out (jc j)) \/ In i (out (jv j)) \/ In i (srch (jc j)) \/ In i (srch (jv j)) -> i < jn j;
  N1b : forall k i, In (AReq k i) (jqc j) -> i < jn j;
  N1c : forall k i, In (AResp k i) (jqs j) -> i < jn j;
  S0c : is_open (jc j) -> forall i, In i (srch (jc j)) -> In i (out (jc j));
  S0v : is_open (jv j) -> forall i, In i (srch (jv j)) -> In i (out (jv j));
  U1a : NoDup (req_ids (jqc j));
  U1b : forall k i, In (AReq k i) (jqc j) -> ~ In i (out (jv j));
  U2 : forall k i k', In (AReq k i) (jqc j) -> ~ In (AResp k' i) (jqs j);
  U3 : forall i k, In i (out (jv j)) -> is_final k = true -> ~ In (AResp k i) (jqs j);
  U4 : forall pre k i post, jqs j = pre ++ AResp k i :: post -> is_final k = true -> forall k', ~ In (AResp k' i) post;
  B2 : match jqc j with
       | [] => True
       | m :: q => (forall i, m = AReq RBind i -> out (jv j) = []) /\ forall i, ~ In (AReq RBind i) q
       end;
  C3 : is_open (jc j) -> forall k i, In (AReq k i) (jqc j) -> In i (out (jc j)) /\ (k = RSearch <-> In i (srch (jc j)));
  C4 : is_open (jc j) -> forall i, In i (out (jv j)) -> In i (out (jc j)) /\ (In i (srch (jv j)) <-> In i (srch (jc j)));
  C5 : is_open (jc j) -> ~ In AUnbind (jqc j);
  C6 : is_open (jc j) -> forall k i, In (AResp k i) (jqs j) ->
       In i (out (jc j)) /\ (is_srch_resp k = true <-> In i (srch (jc j)));
  Q9 : is_open (jc j) -> is_open (jv j) -> forall i, In i (out (jc j)) ->
       (exists k, In (AReq k i) (jqc j)) \/ In i (out (jv j)) \/ (exists k, is_final k = true /\ In (AResp k i) (jqs j));
  PH : is_open (jc j) -> is_open (jv j) -> phase j;
  T2 : has_term (jqs j) -> st (jv j) = CLOSED;
  T3 : st (jc j) = CLOSED -> st (jv j) = CLOSED \/ In AUnbind (jqc j);
  T4 : st (jv j) = CLOSED -> st (jc j) = CLOSED \/ has_term (jqs j) }.

(* ---- small facts *)
Lemma in_req_ids i q : In i (req_ids q) <-> exists k, In (AReq k i) q.
Proof.
  unfold req_ids. rewrite in_flat_map. split.
  - intros (m & Hm & Hi). destruct m as [k i0|k i0| |]; cbn in Hi; try tauto. destruct Hi as [<-|[]]. eauto.
  - intros (k & H). exists (AReq k i). split; [assumption|now left].
Qed.

Lemma req_ids_app a b : req_ids (a ++ b) = req_ids a ++ req_ids b.
Proof. unfold req_ids. apply flat_map_app. Qed.

Lemma zadd_nil i : zadd i [] = [i].
Proof. reflexivity. Qed.
Lemma zdel_single i : zdel i [i] = [].
Proof. unfold zdel. cbn. now rewrite Z.eqb_refl. Qed.
Lemma zdel_nil i : zdel i [] = [].
Proof. reflexivity. Qed.

Lemma opened_not_closed s : s <> CLOSED -> opened s <> CLOSED.
Proof. destruct s; cbn; congruence. Qed.
Lemma opened_binding s : opened s = BINDING <-> s = BINDING.
Proof. destruct s; cbn; split; congruence. Qed.

Lemma inv_init : inv js_init.
Proof.
  constructor; cbn; intros; try tauto; try (now constructor).
  all: try match goal with H : [] = ?p ++ _ :: _ |- _ => destruct p; discriminate H end.
  all: try match goal with H : has_term [] |- _ => destruct H as [[]|[]] end.
  all: try discriminate.
Qed.

Lemma NoDup_snoc {A} (l : list A) x : NoDup l -> ~ In x l -> NoDup (l ++ [x]).
Proof.
  induction l as [|y l IH]; intros N H; cbn [app]; [constructor; [tauto|constructor]|].
  inversion N as [|? ? Hy Nl]; subst. constructor.
  - rewrite in_app_iff. cbn. intros [H1|[->|[]]]; [tauto|]. apply H. now left.
  - apply IH; [assumption|]. intros H1. apply H. now right.
Qed.

Lemma no_elements {A} (l : list A) : (forall x, ~ In x l) -> l = [].
Proof. destruct l as [|x l]; [reflexivity|]. intros H. exfalso. apply (H x). now left. Qed.

Ltac inapp :=
  repeat match goal with
         | H : In _ (_ ++ _) |- _ => apply in_app_or in H; destruct H as [H|H]
         | H : In _ [_] |- _ => destruct H as [H|[]]
         | H : In _ (zadd _ _) |- _ => apply zadd_in in H; destruct H as [H|H]
         | H : In _ (zdel _ _) |- _ => apply zdel_in in H; destruct H as [H ?]
         end.

(* with nothing outstanding at an open client, nothing is in flight in either direction *)
Lemma quiet_qc j : inv j -> is_open (jc j) -> out (jc j) = [] -> jqc j = [].
Proof.
  intros I Ho He. apply no_elements. intros m Hm.
  pose proof (K1 j I) as K. rewrite Forall_forall in K. specialize (K m Hm).
  destruct m as [k i|k i| |]; cbn in K; try tauto.
  - destruct (C3 j I Ho k i Hm) as [H _]. rewrite He in H. destruct H.
  - exact (C5 j I Ho Hm).
Qed.

Lemma quiet_qs j : inv j -> is_open (jc j) -> is_open (jv j) -> out (jc j) = [] -> jqs j = [].
Proof.
  intros I Ho Hv He. apply no_elements. intros m Hm.
  pose proof (K2 j I) as K. rewrite Forall_forall in K. specialize (K m Hm).
  destruct m as [k i|k i| |]; cbn in K; try tauto.
  - destruct (C6 j I Ho k i Hm) as [H _]. rewrite He in H. destruct H.
  - apply Hv. apply (T2 j I). now left.
  - apply Hv. apply (T2 j I). now right.
Qed.

Lemma quiet_v j : inv j -> is_open (jc j) -> out (jc j) = [] -> out (jv j) = [].
Proof.
  intros I Ho He. apply no_elements. intros i Hi. destruct (C4 j I Ho i Hi) as [H _]. rewrite He in H. destruct H.
Qed.

Lemma inv_creq j k :
  inv j -> st (jc j) <> CLOSED -> (st (jc j) = BINDING -> k = RBind) -> (k = RBind -> out (jc j) = []) ->
  inv (mkJs (mkEp (match k with RBind => BINDING | _ => opened (st (jc j)) end)
                  (zadd (jn j) (out (jc j)))
                  (match k with RSearch => zadd (jn j) (srch (jc j)) | _ => srch (jc j) end))
            (jn j + 1) (jv j) (jqc j ++ [AReq k (jn j)]) (jqs j)).
Proof.
  intros I Ho Hg Hb. pose proof I as I0.
  assert (Hsr : forall i, In i (match k with RSearch => zadd (jn j) (srch (jc j)) | _ => srch (jc j) end) ->
                     In i (srch (jc j)) \/ (i = jn j /\ k = RSearch)).
  { intros i H. destruct k; auto. apply zadd_in in H. tauto. }
  constructor; cbn [jc jn jv jqc jqs st out srch]; unfold is_open; cbn [st out srch].
  - apply Forall_app. split; [exact (K1 j I)|]. repeat constructor.
  - exact (K2 j I).
  - intros i [H|[H|[H|H]]].
    + inapp; [|lia]. assert (i < jn j) by (apply (N1a j I); tauto); lia.
    + assert (i < jn j) by (apply (N1a j I); tauto); lia.
    + apply Hsr in H. destruct H as [H|[-> _]]; [|lia]. assert (i < jn j) by (apply (N1a j I); tauto); lia.
    + assert (i < jn j) by (apply (N1a j I); tauto); lia.
  - intros k0 i H. inapp.
    + specialize ((N1b j I) k0 i H). lia.
    + injection H as <- <-. lia.
  - intros k0 i H. specialize ((N1c j I) k0 i H). lia.
  - intros _ i H. apply zadd_in. apply Hsr in H. destruct H as [H|[-> _]]; [left; now apply (S0c j I Ho)|now right].
  - exact (S0v j I).
  - rewrite req_ids_app. cbn. apply NoDup_snoc; [exact (U1a j I)|].
    intros H. apply in_req_ids in H. destruct H as (k0 & H). specialize ((N1b j I) _ _ H). lia.
  - intros k0 i H. inapp; [now apply (U1b j I k0)|]. injection H as <- <-.
    intros H. assert (jn j < jn j) by (apply (N1a j I); tauto); lia.
  - intros k0 i k' H. inapp; [now apply (U2 j I k0)|]. injection H as <- <-.
    intros H. specialize ((N1c j I) _ _ H). lia.
  - exact (U3 j I).
  - exact (U4 j I).
  - pose proof (B2 j I) as B3. destruct (jqc j) as [|m q] eqn:Eq; cbn [app].
    + split; [|intros i []]. intros i H. injection H as -> _. apply (quiet_v j I0 Ho (Hb eq_refl)).
    + destruct B3 as [B2a B2b]. split; [assumption|].
      intros i H. inapp; [now apply (B2b i)|]. injection H as -> _.
      pose proof (quiet_qc j I0 Ho (Hb eq_refl)) as E. congruence.
  - intros _ k0 i H. inapp.
    + destruct (C3 j I Ho k0 i H) as [H1 H2]. split; [apply zadd_in; now left|].
      rewrite H2. split; intros H3.
      * destruct k; auto. apply zadd_in. now left.
      * apply Hsr in H3. destruct H3 as [H3|[-> _]]; [assumption|]. specialize ((N1b j I) _ _ H). lia.
    + injection H as <- <-. split; [apply zadd_in; now right|]. split.
      * intros ->. apply zadd_in. now right.
      * intros H. apply Hsr in H. destruct H as [H|[_ H]]; [|assumption]. assert (jn j < jn j) by (apply (N1a j I); tauto); lia.
  - intros _ i H. destruct (C4 j I Ho i H) as [H1 H2]. split; [apply zadd_in; now left|].
    rewrite H2. split; intros H3.
    + destruct k; auto. apply zadd_in. now left.
    + apply Hsr in H3. destruct H3 as [H3|[-> _]]; [assumption|]. assert (jn j < jn j) by (apply (N1a j I); tauto); lia.
  - intros _ H. inapp; [now apply (C5 j I Ho)|discriminate].
  - intros _ k0 i H. destruct (C6 j I Ho k0 i H) as [H1 H2]. split; [apply zadd_in; now left|].
    rewrite H2. split; intros H3.
    + destruct k; auto. apply zadd_in. now left.
    + apply Hsr in H3. destruct H3 as [H3|[-> _]]; [assumption|]. specialize ((N1c j I) _ _ H). lia.
  - intros _ Hv i H. inapp.
    + destruct (Q9 j I Ho Hv i H) as [(k0 & H1)|[H1|H1]]; [left; exists k0; apply in_or_app; now left|auto|auto].
    + subst i. left. exists k. apply in_or_app. right. now left.
  - intros _ Hv. destruct (PH j I Ho Hv) as [P1 P2 P3 P4|b P1 P2 P3 P4 P5|b P1 P2 P3 P4 P5 P6|b P1 P2 P3 P4 P5 P6|P1 P2 P3 P4 P5 P6|b P1 P2 P3 P4 P5 P6].
    + destruct k.
      * pose proof (Hb eq_refl) as He.
        apply (PhB _ (jn j)); cbn [jc jn jv jqc jqs st out srch]; auto.
        -- now rewrite (quiet_qc j I0 Ho He).
        -- now rewrite He.
        -- apply (quiet_v j I0 Ho He).
        -- apply (quiet_qs j I0 Ho Hv He).
      * apply PhA; cbn [jc jn jv jqc jqs st out srch]; auto.
        -- rewrite opened_binding. assumption.
        -- intros i H. inapp; [now apply (P3 i)|discriminate].
      * apply PhA; cbn [jc jn jv jqc jqs st out srch]; auto.
        -- rewrite opened_binding. assumption.
        -- intros i H. inapp; [now apply (P3 i)|discriminate].
    + specialize (Hb (Hg P1)). congruence.
    + specialize (Hb (Hg P1)). congruence.
    + specialize (Hb (Hg P1)). congruence.
    + rewrite (Hg P1). apply (PhB _ (jn j)); cbn [jc jn jv jqc jqs st out srch]; auto.
      * now rewrite P3.
      * now rewrite P5.
    + specialize (Hb (Hg P1)). congruence.
  - exact (T2 j I).
  - intros H. exfalso. destruct k; try discriminate; now apply (opened_not_closed _ Ho).
  - intros H. destruct (T4 j I H) as [H1|H1]; [congruence|now right].
Qed.

Lemma inv_cunbind j :
  inv j -> st (jc j) <> CLOSED -> inv (mkJs (closed (jc j)) (jn j) (jv j) (jqc j ++ [AUnbind]) (jqs j)).
Proof.
  intros I Ho.
  constructor; cbn [jc jn jv jqc jqs st out srch closed]; unfold is_open; cbn [st out srch closed]; try congruence.
  - apply Forall_app. split; [exact (K1 j I)|]. repeat constructor.
  - exact (K2 j I).
  - intros i [[]|H]. apply (N1a j I). tauto.
  - intros k i H. inapp; [exact (N1b j I k i H)|discriminate].
  - exact (N1c j I).
  - exact (S0v j I).
  - rewrite req_ids_app. cbn. rewrite app_nil_r. exact (U1a j I).
  - intros k i H. inapp; [exact (U1b j I k i H)|discriminate].
  - intros k i k' H. inapp; [exact (U2 j I k i k' H)|discriminate].
  - exact (U3 j I).
  - exact (U4 j I).
  - pose proof (B2 j I) as B. destruct (jqc j) as [|m q]; cbn [app].
    + split; [intros i H; discriminate|intros i []].
    + destruct B as [Ba Bb]. split; [assumption|]. intros i H. inapp; [now apply (Bb i)|discriminate].
  - exact (T2 j I).
  - intros _. right. apply in_or_app. right. now left.
  - intros _. now left.
Qed.

Lemma snoc_decomp {A} (l : list A) a pre b post :
  l ++ [a] = pre ++ b :: post ->
  (post = [] /\ l = pre /\ a = b) \/ (exists post0, post = post0 ++ [a] /\ l = pre ++ b :: post0).
Proof.
  intros H. destruct post as [|y post'] using rev_ind.
  - left. apply app_inj_tail in H. tauto.
  - clear IHpost'. right. exists post'.
    change (pre ++ b :: post' ++ [y]) with (pre ++ (b :: post') ++ [y]) in H.
    rewrite app_assoc in H. apply app_inj_tail in H. destruct H as [-> ->]. tauto.
Qed.

Lemma inv_sresp j k i :
  inv j -> st (jv j) <> CLOSED -> In i (out (jv j)) ->
  (st (jv j) = BINDING -> is_bind_resp k = true) -> matching (jv j) k i ->
  inv (mkJs (jc j) (jn j)
            (mkEp (match k with PBind false => OPENED | _ => opened (st (jv j)) end)
                  (if is_final k then zdel i (out (jv j)) else out (jv j))
                  (match k with PDone => zdel i (srch (jv j)) | _ => srch (jv j) end))
            (jqc j) (jqs j ++ [AResp k i])).
Proof.
  intros I Hv Hi Hg [M1 M2].
  assert (Ho' : forall x, In x (if is_final k then zdel i (out (jv j)) else out (jv j)) -> In x (out (jv j))).
  { intros x H. destruct (is_final k); [apply zdel_in in H; tauto|assumption]. }
  assert (Hs' : forall x, In x (match k with PDone => zdel i (srch (jv j)) | _ => srch (jv j) end) -> In x (srch (jv j))).
  { intros x H. destruct k; try assumption. apply zdel_in in H. tauto. }
  assert (Hst : match k with PBind false => OPENED | _ => opened (st (jv j)) end <> CLOSED).
  { destruct k as [[|]| | | |]; try discriminate; now apply opened_not_closed. }
  constructor; cbn [jc jn jv jqc jqs st out srch]; unfold is_open; cbn [st out srch].
  - exact (K1 j I).
  - apply Forall_app. split; [exact (K2 j I)|]. repeat constructor.
  - intros x [H|[H|[H|H]]]; apply (N1a j I); auto.
  - exact (N1b j I).
  - intros k0 x H. inapp; [exact (N1c j I k0 x H)|]. injection H as <- <-. apply (N1a j I). auto.
  - exact (S0c j I).
  - intros _ x H. pose proof (S0v j I Hv x (Hs' x H)) as Hx.
    destruct (is_final k) eqn:F; [|assumption]. apply zdel_in. split; [assumption|].
    intros ->. destruct k as [b| | | |]; try discriminate.
    + apply M1 in H. discriminate.
    + apply zdel_in in H. tauto.
    + apply M1 in H. discriminate.
  - exact (U1a j I).
  - intros k0 x H Hx. exact (U1b j I k0 x H (Ho' x Hx)).
  - intros k0 x k' H Hx. inapp; [exact (U2 j I k0 x k' H Hx)|]. injection Hx as <- <-. exact (U1b j I k0 i H Hi).
  - intros x k' Hx F H. inapp; [exact (U3 j I x k' (Ho' x Hx) F H)|]. injection H as <- <-.
    rewrite F in Hx. apply zdel_in in Hx. tauto.
  - intros pre k0 x post E F k' H.
    apply snoc_decomp in E. destruct E as [(-> & _ & _)|(post0 & -> & E)]; [destruct H|].
    inapp; [exact (U4 j I pre k0 x post0 E F k' H)|]. injection H as <- <-.
    apply (U3 j I i k0 Hi F). rewrite E. apply in_or_app. right. now left.
  - pose proof (B2 j I) as B. destruct (jqc j) as [|m q]; [exact B|]. destruct B as [Ba Bb]. split; [|assumption].
    intros i0 E. rewrite (Ba i0 E) in Hi. destruct Hi.
  - exact (C3 j I).
  - intros Ho x Hx. destruct (C4 j I Ho x (Ho' x Hx)) as [H1 H2]. split; [assumption|]. rewrite <- H2.
    destruct k; try tauto. cbn in Hx. apply zdel_in in Hx. rewrite zdel_in. tauto.
  - exact (C5 j I).
  - intros Ho k0 x H. inapp; [exact (C6 j I Ho k0 x H)|]. injection H as <- <-.
    destruct (C4 j I Ho i Hi) as [H1 H2]. split; [assumption|]. rewrite M1. exact H2.
  - intros Ho _ x Hx. destruct (Q9 j I Ho Hv x Hx) as [H|[H|(k0 & F & H)]].
    + now left.
    + destruct (Z.eq_dec x i) as [->|Ne].
      * destruct (is_final k) eqn:F; [|right; now left]. right. right. exists k. split; [assumption|].
        apply in_or_app. right. now left.
      * right. left. destruct (is_final k); [apply zdel_in; tauto|assumption].
    + right. right. exists k0. split; [assumption|]. apply in_or_app. now left.
  - intros Ho _. destruct (PH j I Ho Hv) as [P1 P2 P3 P4|b P1 P2 P3 P4 P5|b P1 P2 P3 P4 P5 P6|b P1 P2 P3 P4 P5 P6|P1 P2 P3 P4 P5 P6|b P1 P2 P3 P4 P5 P6];
      try (rewrite P4 in Hi; destruct Hi; fail); try (rewrite P6 in Hi; destruct Hi; fail).
    + assert (NB : is_bind_resp k = false) by (destruct k; try reflexivity; exfalso; apply P2; apply M2; reflexivity).
      apply PhA; cbn [jc jn jv jqc jqs st out srch]; auto.
      * destruct k as [b| | | |]; try discriminate; now rewrite opened_binding.
      * intros b x H. inapp; [exact (P4 b x H)|]. injection H as E _. rewrite E in NB. discriminate.
    + rewrite P6 in Hi. destruct Hi as [<-|[]]. specialize (Hg P2). destruct k as [[|]| | | |]; try discriminate.
      * apply (PhD _ b); cbn [jc jn jv jqc jqs st out srch is_final]; auto.
        -- now rewrite P2.
        -- now rewrite P4.
        -- rewrite P6. apply zdel_single.
      * apply (PhF _ b); cbn [jc jn jv jqc jqs st out srch is_final]; auto.
        -- discriminate.
        -- now rewrite P4.
        -- rewrite P6. apply zdel_single.
  - intros [H|H]; inapp; try discriminate; exfalso; apply Hv; apply (T2 j I); [now left|now right].
  - intros H. destruct (T3 j I H) as [H1|H1]; [congruence|now right].
  - intros H. congruence.
Qed.

(* the server terminates the session: notice of disconnection or unbind *)
Ltac nr :=
  exfalso;
  match goal with
  | Hn : forall k x, AResp k x <> ?t, H : AResp _ _ = ?t |- _ => exact (Hn _ _ H)
  | Hn : forall k x, AResp k x <> ?t, H : ?t = AResp _ _ |- _ => exact (Hn _ _ (eq_sym H))
  end.

Lemma inv_sclose j out' t :
  inv j -> (forall x, In x out' -> In x (out (jv j))) -> (out (jv j) = [] -> out' = []) ->
  t = AUnbind \/ t = ANotice ->
  inv (mkJs (jc j) (jn j) (mkEp CLOSED out' (srch (jv j))) (jqc j) (jqs j ++ [t])).
Proof.
  intros I Hsub He Ht.
  assert (Hnr : forall k x, AResp k x <> t) by (intros k x E; destruct Ht; congruence).
  pose (nrt := fun (k : pk) (x : Z) (E : AResp k x = t) => Hnr k x E).
  constructor; cbn [jc jn jv jqc jqs st out srch]; unfold is_open; cbn [st out srch]; try congruence.
  - exact (K1 j I).
  - apply Forall_app. split; [exact (K2 j I)|]. destruct Ht as [-> | ->]; repeat constructor.
  - intros x [H|[H|[H|H]]]; apply (N1a j I); auto.
  - exact (N1b j I).
  - intros k x H. inapp; [exact (N1c j I k x H)|]. nr.
  - exact (S0c j I).
  - exact (U1a j I).
  - intros k x H Hx. exact (U1b j I k x H (Hsub x Hx)).
  - intros k x k' H Hx. inapp; [exact (U2 j I k x k' H Hx)|]. nr.
  - intros x k Hx F H. inapp; [exact (U3 j I x k (Hsub x Hx) F H)|]. nr.
  - intros pre k x post E F k' H.
    apply snoc_decomp in E. destruct E as [(_ & _ & E)|(post0 & -> & E)]; [nr|].
    inapp; [exact (U4 j I pre k x post0 E F k' H)|]. nr.
  - pose proof (B2 j I) as B. destruct (jqc j) as [|m q]; [exact B|]. destruct B as [Ba Bb]. split; [|assumption].
    intros i0 E. apply He. exact (Ba i0 E).
  - exact (C3 j I).
  - intros Ho x Hx. exact (C4 j I Ho x (Hsub x Hx)).
  - exact (C5 j I).
  - intros Ho k x H. inapp; [exact (C6 j I Ho k x H)|]. nr.
  - intros _. now left.
  - intros _. right. destruct Ht as [-> | ->]; [left|right]; apply in_or_app; right; now left.
Qed.

(* a request is delivered to the server *)
Lemma inv_dcs_req j k i q :
  inv j -> jqc j = AReq k i :: q -> st (jv j) <> CLOSED ->
  inv (mkJs (jc j) (jn j)
            (mkEp (match k with RBind => BINDING | _ => opened (st (jv j)) end)
                  (zadd i (out (jv j)))
                  (match k with RSearch => zadd i (srch (jv j)) | _ => srch (jv j) end))
            q (jqs j)).
Proof.
  intros I Eq Hv.
  assert (Hhd : In (AReq k i) (jqc j)) by (rewrite Eq; now left).
  assert (Htl : forall m, In m q -> In m (jqc j)) by (intros m H; rewrite Eq; now right).
  pose proof (U1a j I) as ND. rewrite Eq in ND. cbn in ND. inversion ND as [|? ? Hni NDq]; subst.
  assert (Hni' : forall k0, ~ In (AReq k0 i) q) by (intros k0 H; apply Hni; apply in_req_ids; eauto).
  assert (Hsr : forall x, In x (match k with RSearch => zadd i (srch (jv j)) | _ => srch (jv j) end) ->
                     In x (srch (jv j)) \/ (x = i /\ k = RSearch)).
  { intros x H. destruct k; auto. apply zadd_in in H. tauto. }
  assert (Hst : match k with RBind => BINDING | _ => opened (st (jv j)) end <> CLOSED).
  { destruct k; try discriminate; now apply opened_not_closed. }
  constructor; cbn [jc jn jv jqc jqs st out srch]; unfold is_open; cbn [st out srch].
  - pose proof (K1 j I) as K. rewrite Eq in K. now inversion K.
  - exact (K2 j I).
  - intros x [H|[H|[H|H]]].
    + apply (N1a j I); auto.
    + inapp; [apply (N1a j I); auto|]. subst x. exact (N1b j I k i Hhd).
    + apply (N1a j I); auto.
    + apply Hsr in H. destruct H as [H|[-> _]]; [apply (N1a j I); auto|exact (N1b j I k i Hhd)].
  - intros k0 x H. exact (N1b j I k0 x (Htl _ H)).
  - exact (N1c j I).
  - exact (S0c j I).
  - intros _ x H. apply zadd_in. apply Hsr in H. destruct H as [H|[-> _]]; [left; exact (S0v j I Hv x H)|now right].
  - exact NDq.
  - intros k0 x H Hx. inapp; [exact (U1b j I k0 x (Htl _ H) Hx)|]. subst x. exact (Hni' k0 H).
  - intros k0 x k' H. exact (U2 j I k0 x k' (Htl _ H)).
  - intros x k' Hx F H. inapp; [exact (U3 j I x k' Hx F H)|]. subst x. exact (U2 j I k i k' Hhd H).
  - exact (U4 j I).
  - pose proof (B2 j I) as B. rewrite Eq in B. destruct B as [_ Bb].
    destruct q as [|m' q']; [exact Logic.I|]. split.
    + intros i0 ->. exfalso. apply (Bb i0). now left.
    + intros i0 H. apply (Bb i0). now right.
  - intros Ho k0 x H. exact (C3 j I Ho k0 x (Htl _ H)).
  - intros Ho x Hx. destruct (C3 j I Ho k i Hhd) as [Hc1 Hc2]. inapp.
    + destruct (C4 j I Ho x Hx) as [H1 H2]. split; [assumption|]. rewrite <- H2.
      assert (Ne : x <> i) by (intros ->; exact (U1b j I k i Hhd Hx)).
      destruct k; try tauto. rewrite zadd_in. tauto.
    + subst x. split; [assumption|]. rewrite <- Hc2. split.
      * intros H. apply Hsr in H. destruct H as [H|[_ H]]; [|assumption].
        exfalso. exact (U1b j I k i Hhd (S0v j I Hv i H)).
      * intros ->. apply zadd_in. now right.
  - intros Ho H. exact (C5 j I Ho (Htl _ H)).
  - exact (C6 j I).
  - intros Ho _ x Hx. destruct (Q9 j I Ho Hv x Hx) as [(k0 & H)|[H|H]].
    + rewrite Eq in H. destruct H as [H|H].
      * injection H as <- <-. right. left. apply zadd_in. now right.
      * left. eauto.
    + right. left. apply zadd_in. now left.
    + right. now right.
  - intros Ho _. destruct (PH j I Ho Hv) as [P1 P2 P3 P4|b P1 P2 P3 P4 P5|b P1 P2 P3 P4 P5 P6|b P1 P2 P3 P4 P5 P6|P1 P2 P3 P4 P5 P6|b P1 P2 P3 P4 P5 P6];
      try congruence.
    + assert (Nb : k <> RBind) by (intros ->; exact (P3 i Hhd)).
      apply PhA; cbn [jc jn jv jqc jqs st out srch]; auto.
      * destruct k; try congruence; now rewrite opened_binding.
      * intros i0 H. exact (P3 i0 (Htl _ H)).
    + rewrite Eq in P2. injection P2 as -> -> ->.
      apply (PhC _ b); cbn [jc jn jv jqc jqs st out srch]; auto. now rewrite P4.
  - intros H. exfalso. apply Hv. exact (T2 j I H).
  - intros H. destruct (T3 j I H) as [H1|H1]; [congruence|]. right. rewrite Eq in H1. destruct H1 as [H1|H1]; [discriminate|assumption].
  - intros H. congruence.
Qed.

(* the client's unbind reaches the server *)
Lemma inv_dcs_unbind j q :
  inv j -> jqc j = AUnbind :: q -> inv (mkJs (jc j) (jn j) (closed (jv j)) q (jqs j)).
Proof.
  intros I Eq.
  assert (Hhd : In AUnbind (jqc j)) by (rewrite Eq; now left).
  assert (Htl : forall m, In m q -> In m (jqc j)) by (intros m H; rewrite Eq; now right).
  assert (Hc : st (jc j) = CLOSED).
  { destruct (st (jc j)) eqn:E; try reflexivity; exfalso; apply (C5 j I); try assumption; unfold is_open; congruence. }
  constructor; cbn [jc jn jv jqc jqs st out srch closed]; unfold is_open; cbn [st out srch closed]; try congruence.
  - pose proof (K1 j I) as K. rewrite Eq in K. now inversion K.
  - exact (K2 j I).
  - intros x [H|[[]|[H|H]]]; apply (N1a j I); auto.
  - intros k0 x H. exact (N1b j I k0 x (Htl _ H)).
  - exact (N1c j I).
  - pose proof (U1a j I) as ND. rewrite Eq in ND. exact ND.
  - intros k0 x H [].
  - intros k0 x k' H. exact (U2 j I k0 x k' (Htl _ H)).
  - intros x k' [].
  - exact (U4 j I).
  - pose proof (B2 j I) as B. rewrite Eq in B. destruct B as [_ Bb].
    destruct q as [|m' q']; [exact Logic.I|]. split; [reflexivity|]. intros i0 H. apply (Bb i0). now right.
  - intros _. now left.
  - intros _. now left.
Qed.

(* a response the client has an operation in progress for *)
Lemma a_process_client_ok c k i :
  In i (out c) -> (is_srch_resp k = true <-> In i (srch c)) ->
  a_process_client c (AResp k i) =
  (mkEp (match k with PBind false => OPENED | _ => st c end)
        (if is_final k then zdel i (out c) else out c)
        (match k with PDone => zdel i (srch c) | _ => srch c end), DOk).
Proof.
  intros Ho Hs. unfold a_process_client.
  assert (Zo : zmem i (out c) = true) by now apply zmem_in.
  assert (Zs : zmem i (srch c) = is_srch_resp k).
  { destruct (is_srch_resp k) eqn:E.
    - apply zmem_in. now apply Hs.
    - destruct (zmem i (srch c)) eqn:Z; [|reflexivity]. apply zmem_in in Z. apply Hs in Z. discriminate. }
  rewrite Zo, Zs. destruct k as [[|]| | | |]; cbn; reflexivity.
Qed.

Lemma inv_dsc_resp j k i q :
  inv j -> jqs j = AResp k i :: q -> st (jc j) <> CLOSED ->
  inv (mkJs (mkEp (match k with PBind false => OPENED | _ => st (jc j) end)
                  (if is_final k then zdel i (out (jc j)) else out (jc j))
                  (match k with PDone => zdel i (srch (jc j)) | _ => srch (jc j) end))
            (jn j) (jv j) (jqc j) q).
Proof.
  intros I Eq Ho.
  assert (Hhd : In (AResp k i) (jqs j)) by (rewrite Eq; now left).
  assert (Htl : forall m, In m q -> In m (jqs j)) by (intros m H; rewrite Eq; now right).
  destruct (C6 j I Ho k i Hhd) as [Hio His].
  assert (Hfin : is_final k = true -> forall k', ~ In (AResp k' i) q).
  { intros F. exact (U4 j I [] k i q Eq F). }
  assert (Ho' : forall x, In x (if is_final k then zdel i (out (jc j)) else out (jc j)) -> In x (out (jc j))).
  { intros x H. destruct (is_final k); [apply zdel_in in H; tauto|assumption]. }
  assert (Hs' : forall x, In x (match k with PDone => zdel i (srch (jc j)) | _ => srch (jc j) end) -> In x (srch (jc j))).
  { intros x H. destruct k; try assumption. apply zdel_in in H. tauto. }
  assert (Hkeep : forall x, x <> i -> In x (out (jc j)) -> In x (if is_final k then zdel i (out (jc j)) else out (jc j))).
  { intros x Ne H. destruct (is_final k); [apply zdel_in; tauto|assumption]. }
  assert (Hkeeps : forall x, x <> i -> (In x (match k with PDone => zdel i (srch (jc j)) | _ => srch (jc j) end) <-> In x (srch (jc j)))).
  { intros x Ne. destruct k; try tauto. rewrite zdel_in. tauto. }
  assert (Hst : match k with PBind false => OPENED | _ => st (jc j) end <> CLOSED).
  { destruct k as [[|]| | | |]; try discriminate; assumption. }
  constructor; cbn [jc jn jv jqc jqs st out srch]; unfold is_open; cbn [st out srch].
  - exact (K1 j I).
  - pose proof (K2 j I) as K. rewrite Eq in K. now inversion K.
  - intros x [H|[H|[H|H]]]; apply (N1a j I); auto 6.
  - exact (N1b j I).
  - intros k0 x H. exact (N1c j I k0 x (Htl _ H)).
  - intros _ x H. pose proof (S0c j I Ho x (Hs' x H)) as Hx.
    destruct (Z.eq_dec x i) as [->|Ne]; [|now apply Hkeep].
    destruct k as [b| | | |]; cbn [is_final]; try assumption.
    + apply His in H. discriminate.
    + apply zdel_in in H. tauto.
    + apply His in H. discriminate.
  - exact (S0v j I).
  - exact (U1a j I).
  - exact (U1b j I).
  - intros k0 x k' H Hx. exact (U2 j I k0 x k' H (Htl _ Hx)).
  - intros x k' Hx F H. exact (U3 j I x k' Hx F (Htl _ H)).
  - intros pre k0 x post E F. apply (U4 j I (AResp k i :: pre) k0 x post); [|assumption]. rewrite Eq, E. reflexivity.
  - exact (B2 j I).
  - intros _ k0 x H. destruct (C3 j I Ho k0 x H) as [H1 H2].
    assert (Ne : x <> i) by (intros ->; exact (U2 j I k0 i k H Hhd)).
    split; [now apply Hkeep|]. rewrite H2. symmetry. now apply Hkeeps.
  - intros _ x Hx. destruct (C4 j I Ho x Hx) as [H1 H2].
    destruct (is_final k) eqn:F.
    + assert (Ne : x <> i) by (intros ->; exact (U3 j I i k Hx F Hhd)).
      split; [apply zdel_in; tauto|]. rewrite H2. symmetry. now apply Hkeeps.
    + split; [assumption|]. rewrite H2. destruct k; try tauto; discriminate.
  - intros _. exact (C5 j I Ho).
  - intros _ k0 x H. destruct (C6 j I Ho k0 x (Htl _ H)) as [H1 H2].
    destruct (is_final k) eqn:F.
    + assert (Ne : x <> i) by (intros ->; exact (Hfin eq_refl k0 H)).
      split; [apply zdel_in; tauto|]. rewrite H2. symmetry. now apply Hkeeps.
    + split; [assumption|]. rewrite H2. destruct k; try tauto; discriminate.
  - intros _ Hv x Hx. destruct (Q9 j I Ho Hv x (Ho' x Hx)) as [H|[H|(k0 & F & H)]]; [now left|right; now left|].
    rewrite Eq in H. destruct H as [H|H].
    + injection H as <- <-. rewrite F in Hx. apply zdel_in in Hx. tauto.
    + right. right. eauto.
  - intros _ Hv. destruct (PH j I Ho Hv) as [P1 P2 P3 P4|b P1 P2 P3 P4 P5|b P1 P2 P3 P4 P5 P6|b P1 P2 P3 P4 P5 P6|P1 P2 P3 P4 P5 P6|b P1 P2 P3 P4 P5 P6];
      try congruence.
    + apply PhA; cbn [jc jn jv jqc jqs st out srch]; auto.
      * destruct k as [[|]| | | |]; try assumption. exfalso. exact (P4 false i Hhd).
      * intros b x H. exact (P4 b x (Htl _ H)).
    + rewrite Eq in P4. injection P4 as -> -> ->.
      apply PhE; cbn [jc jn jv jqc jqs st out srch is_final]; auto. rewrite P5. apply zdel_single.
    + rewrite Eq in P4. injection P4 as -> -> ->.
      apply PhA; cbn [jc jn jv jqc jqs st out srch is_final]; auto.
      all: try discriminate.
      all: try (intros x; rewrite P3; intros []).
      all: try (intros b0 x []).
  - intros [H|H]; apply (T2 j I); [left|right]; now apply Htl.
  - intros H. congruence.
  - intros H. destruct (T4 j I H) as [H1|[H1|H1]]; [congruence| |].
    + rewrite Eq in H1. destruct H1 as [H1|H1]; [discriminate|]. right. now left.
    + rewrite Eq in H1. destruct H1 as [H1|H1]; [discriminate|]. right. now right.
Qed.

(* a termination message (notice of disconnection / unbind) reaches the client *)
Lemma inv_dsc_term j t q :
  inv j -> jqs j = t :: q -> t = AUnbind \/ t = ANotice -> inv (mkJs (closed (jc j)) (jn j) (jv j) (jqc j) q).
Proof.
  intros I Eq Ht.
  assert (Htl : forall m, In m q -> In m (jqs j)) by (intros m H; rewrite Eq; now right).
  assert (Hv : st (jv j) = CLOSED).
  { apply (T2 j I). rewrite Eq. destruct Ht as [-> | ->]; [left|right]; now left. }
  constructor; cbn [jc jn jv jqc jqs st out srch closed]; unfold is_open; cbn [st out srch closed]; try congruence.
  - exact (K1 j I).
  - pose proof (K2 j I) as K. rewrite Eq in K. now inversion K.
  - intros x [[]|H]. apply (N1a j I). tauto.
  - exact (N1b j I).
  - intros k0 x H. exact (N1c j I k0 x (Htl _ H)).
  - exact (U1a j I).
  - exact (U1b j I).
  - intros k0 x k' H Hx. exact (U2 j I k0 x k' H (Htl _ Hx)).
  - intros x k' Hx F H. exact (U3 j I x k' Hx F (Htl _ H)).
  - intros pre k0 x post E F. apply (U4 j I (t :: pre) k0 x post); [|assumption]. rewrite Eq, E. reflexivity.
  - exact (B2 j I).
  - intros _. now left.
  - intros _. now left.
Qed.

Lemma NoDup_app_r {A} (a b : list A) : NoDup (a ++ b) -> NoDup b.
Proof. induction a as [|x a IH]; cbn [app]; [auto|]. intros H. inversion H; auto. Qed.

(* octets reaching an endpoint that has already closed are refused *)
Lemma inv_dropcs j m q : inv j -> jqc j = m :: q -> st (jv j) = CLOSED -> inv (mkJs (jc j) (jn j) (jv j) q (jqs j)).
Proof.
  intros I Eq Hv.
  assert (Htl : forall m, In m q -> In m (jqc j)) by (intros m0 H; rewrite Eq; now right).
  constructor; cbn [jc jn jv jqc jqs]; unfold is_open; try congruence.
  - pose proof (K1 j I) as K. rewrite Eq in K. now inversion K.
  - exact (K2 j I).
  - exact (N1a j I).
  - intros k0 x H. exact (N1b j I k0 x (Htl _ H)).
  - exact (N1c j I).
  - exact (S0c j I).
  - pose proof (U1a j I) as ND. rewrite Eq in ND. change (m :: q) with ([m] ++ q) in ND. rewrite req_ids_app in ND.
    now apply NoDup_app_r in ND.
  - intros k0 x H. exact (U1b j I k0 x (Htl _ H)).
  - intros k0 x k' H. exact (U2 j I k0 x k' (Htl _ H)).
  - exact (U3 j I).
  - exact (U4 j I).
  - pose proof (B2 j I) as B. rewrite Eq in B. destruct B as [_ Bb].
    destruct q as [|m' q']; [exact Logic.I|]. split.
    + intros i0 ->. exfalso. apply (Bb i0). now left.
    + intros i0 H. apply (Bb i0). now right.
  - intros Ho k0 x H. exact (C3 j I Ho k0 x (Htl _ H)).
  - exact (C4 j I).
  - intros Ho H. exact (C5 j I Ho (Htl _ H)).
  - exact (C6 j I).
  - intros _. now left.
  - exact (T4 j I).
Qed.

Lemma inv_dropsc j m q : inv j -> jqs j = m :: q -> st (jc j) = CLOSED -> inv (mkJs (jc j) (jn j) (jv j) (jqc j) q).
Proof.
  intros I Eq Hc.
  assert (Htl : forall m, In m q -> In m (jqs j)) by (intros m0 H; rewrite Eq; now right).
  constructor; cbn [jc jn jv jqc jqs]; unfold is_open; try congruence.
  - exact (K1 j I).
  - pose proof (K2 j I) as K. rewrite Eq in K. now inversion K.
  - exact (N1a j I).
  - exact (N1b j I).
  - intros k0 x H. exact (N1c j I k0 x (Htl _ H)).
  - exact (S0v j I).
  - exact (U1a j I).
  - exact (U1b j I).
  - intros k0 x k' H Hx. exact (U2 j I k0 x k' H (Htl _ Hx)).
  - intros x k' Hx F H. exact (U3 j I x k' Hx F (Htl _ H)).
  - intros pre k0 x post E F. apply (U4 j I (m :: pre) k0 x post); [|assumption]. rewrite Eq, E. reflexivity.
  - exact (B2 j I).
  - intros [H|H]; apply (T2 j I); [left|right]; now apply Htl.
  - exact (T3 j I).
  - intros _. now left.
Qed.

(* ------------------------------------------------------------------ the theorems *)
Lemma astep_inv j j' : inv j -> astep j j' -> inv j'.
Proof.
  intros I S. destruct S as [j k Ho Hg Hb|j Ho|j k i Hv Hi Hg M|j i Hv Hi|j Hv|j m q v' r Eq Hv P|j m q c' r Eq Ho P|j m q Eq Hv|j m q Eq Hc].
  - now apply inv_creq.
  - now apply inv_cunbind.
  - now apply inv_sresp.
  - apply (inv_sclose j (zdel i (out (jv j))) ANotice I); [intros x H; apply zdel_in in H; tauto| |now right].
    intros E. now rewrite E.
  - apply (inv_sclose j [] AUnbind I); [intros x []|reflexivity|now left].
  - pose proof (K1 j I) as K. rewrite Eq in K. inversion K as [|? ? Km _]; subst.
    destruct m as [k i|k i| |]; cbn in Km; try tauto.
    + pose proof (B2 j I) as B. rewrite Eq in B. destruct B as [Ba _].
      destruct k; cbn in P.
      * rewrite (Ba i eq_refl) in P. injection P as <- <-. cbn [closed].
        pose proof (inv_dcs_req j RBind i q I Eq Hv) as R. rewrite (Ba i eq_refl) in R. exact R.
      * injection P as <- <-. exact (inv_dcs_req j RSearch i q I Eq Hv).
      * injection P as <- <-. exact (inv_dcs_req j RExt i q I Eq Hv).
    + cbn in P. injection P as <- <-. now apply inv_dcs_unbind.
  - pose proof (K2 j I) as K. rewrite Eq in K. inversion K as [|? ? Km _]; subst.
    destruct m as [k i|k i| |]; cbn in Km; try tauto.
    + assert (Hhd : In (AResp k i) (jqs j)) by (rewrite Eq; now left).
      destruct (C6 j I Ho k i Hhd) as [H1 H2]. rewrite (a_process_client_ok _ _ _ H1 H2) in P.
      injection P as <- <-. now apply inv_dsc_resp.
    + cbn in P. injection P as <- <-. apply (inv_dsc_term j AUnbind q I Eq). now left.
    + cbn in P. injection P as <- <-. apply (inv_dsc_term j ANotice q I Eq). now right.
  - now apply (inv_dropcs j m q).
  - now apply (inv_dropsc j m q).
Qed.

Theorem reachable_inv j : areach j -> inv j.
Proof. induction 1 as [|j j' _ IH S]; [apply inv_init|exact (astep_inv j j' IH S)]. Qed.

(* every message that arrives at an open endpoint is accepted, or is a designed termination *)
Lemma inv_server_never_rejects j m q v' r :
  inv j -> jqc j = m :: q -> st (jv j) <> CLOSED -> a_process_server (jv j) m = (v', r) ->
  r = DOk \/ (r = DTerm /\ m = AUnbind).
Proof.
  intros I Eq Hv P.
  pose proof (K1 j I) as K. rewrite Eq in K. inversion K as [|? ? Km _]; subst.
  destruct m as [k i|k i| |]; cbn in Km; try tauto.
  - pose proof (B2 j I) as B. rewrite Eq in B. destruct B as [Ba _].
    destruct k; cbn in P; [rewrite (Ba i eq_refl) in P|..]; injection P as _ <-; now left.
  - cbn in P. injection P as _ <-. right. split; reflexivity.
Qed.

Theorem server_never_rejects j m q v' r :
  areach j -> jqc j = m :: q -> st (jv j) <> CLOSED -> a_process_server (jv j) m = (v', r) ->
  r = DOk \/ (r = DTerm /\ m = AUnbind).
Proof. intros R. apply inv_server_never_rejects. now apply reachable_inv. Qed.

Lemma inv_client_never_rejects j m q c' r :
  inv j -> jqs j = m :: q -> st (jc j) <> CLOSED -> a_process_client (jc j) m = (c', r) ->
  r = DOk \/ (r = DTerm /\ (m = AUnbind \/ m = ANotice)).
Proof.
  intros I Eq Ho P.
  pose proof (K2 j I) as K. rewrite Eq in K. inversion K as [|? ? Km _]; subst.
  destruct m as [k i|k i| |]; cbn in Km; try tauto.
  - assert (Hhd : In (AResp k i) (jqs j)) by (rewrite Eq; now left).
    destruct (C6 j I Ho k i Hhd) as [H1 H2]. rewrite (a_process_client_ok _ _ _ H1 H2) in P.
    injection P as _ <-. now left.
  - cbn in P. injection P as _ <-. right. split; [reflexivity|now left].
  - cbn in P. injection P as _ <-. right. split; [reflexivity|now right].
Qed.

Theorem client_never_rejects j m q c' r :
  areach j -> jqs j = m :: q -> st (jc j) <> CLOSED -> a_process_client (jc j) m = (c', r) ->
  r = DOk \/ (r = DTerm /\ (m = AUnbind \/ m = ANotice)).
Proof. intros R. apply inv_client_never_rejects. now apply reachable_inv. Qed.

(* whenever everything sent has been delivered the two sides agree *)
Definition same_state (a b : state) : Prop :=
  match a, b with
  | CLOSED, CLOSED | BINDING, BINDING => True
  | (BEFORE_OPEN | OPENED), (BEFORE_OPEN | OPENED) => True
  | _, _ => False
  end.

Lemma inv_quiescent_agreement j :
  inv j -> jqc j = [] -> jqs j = [] ->
  same_state (st (jc j)) (st (jv j)) /\
  (st (jc j) <> CLOSED ->
   (forall i, In i (out (jc j)) <-> In i (out (jv j))) /\ (forall i, In i (srch (jc j)) <-> In i (srch (jv j)))).
Proof.
  intros I Ec Es.
  assert (Hcv : st (jc j) = CLOSED <-> st (jv j) = CLOSED).
  { split; intros H.
    - destruct (T3 j I H) as [H1|H1]; [assumption|]. rewrite Ec in H1. destruct H1.
    - destruct (T4 j I H) as [H1|[H1|H1]]; [assumption| |]; rewrite Es in H1; destruct H1. }
  split.
  - destruct (st (jc j)) eqn:Sc; [| | |rewrite (proj1 Hcv eq_refl); exact Logic.I].
    all: assert (Ho : is_open (jc j)) by (unfold is_open; congruence).
    all: assert (Hv : is_open (jv j)) by (unfold is_open; intros H; apply Hcv in H; congruence).
    all: destruct (PH j I Ho Hv) as [P1 P2 P3 P4|b P1 P2 P3 P4 P5|b P1 P2 P3 P4 P5 P6|b P1 P2 P3 P4 P5 P6|P1 P2 P3 P4 P5 P6|b P1 P2 P3 P4 P5 P6];
      try congruence.
    all: try (rewrite P2; exact Logic.I).
    all: destruct (st (jv j)) eqn:Sv; try exact Logic.I; try congruence; exfalso; apply Hv; assumption.
  - intros Ho.
    assert (Hv : is_open (jv j)) by (unfold is_open; intros H; apply Hcv in H; congruence).
    assert (Hout : forall i, In i (out (jc j)) <-> In i (out (jv j))).
    { intros i. split; intros H.
      - destruct (Q9 j I Ho Hv i H) as [(k & H1)|[H1|(k & _ & H1)]]; [rewrite Ec in H1; destruct H1|assumption|rewrite Es in H1; destruct H1].
      - exact (proj1 (C4 j I Ho i H)). }
    split; [exact Hout|]. intros i. split; intros H.
    + pose proof (S0c j I Ho i H) as H1. apply Hout in H1. now apply (C4 j I Ho i H1).
    + pose proof (S0v j I Hv i H) as H1. now apply (C4 j I Ho i H1).
Qed.

Theorem quiescent_agreement j :
  areach j -> jqc j = [] -> jqs j = [] ->
  same_state (st (jc j)) (st (jv j)) /\
  (st (jc j) <> CLOSED ->
   (forall i, In i (out (jc j)) <-> In i (out (jv j))) /\ (forall i, In i (srch (jc j)) <-> In i (srch (jv j)))).
Proof. intros R. apply inv_quiescent_agreement. now apply reachable_inv. Qed.
