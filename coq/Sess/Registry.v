(* C19, the registration clause: the per-session lists of known control / filter / credential types
   (PackingOptions.*.choices).  register_* appends a type unless its id is already in the list (built-in ids are
   there from the start); decoding dispatches on the first entry with the id.  Definitions only: this file is in
   the cone of the extracted driver. *)
From Coq Require Import NArith List Bool.
From Coq.Strings Require Import Byte.
From SV Require Import Base.Bytes Base.Py Gen.Generated.
Import ListNotations.
Local Open Scope N_scope.

Inductive rkind := RControl | RFilter | RAuth.
Definition rkind_eqb (a b : rkind) : bool :=
  match a, b with RControl, RControl | RFilter, RFilter | RAuth, RAuth => true | _, _ => false end.

(* an id is the control OID's octets, or the one-element list holding the filter / credential choice number *)
Definition rid := list N.
Fixpoint rid_eqb (a b : rid) : bool :=
  match a, b with
  | [], [] => true
  | x :: a', y :: b' => (x =? y) && rid_eqb a' b'
  | _, _ => false
  end.

(* class name: [] stands for a built-in class *)
Record rentry := mkR { r_kind : rkind; r_id : rid; r_class : list N }.
Definition registry := list rentry.

Definition bytes_id (b : list byte) : rid := map (fun x => N.of_nat (Byte.to_nat x)) b.
Definition control_oid (i : N) : rid :=
  match i with 0 => bytes_id oid_paged | 1 => bytes_id oid_show_deleted | _ => bytes_id oid_show_deactivated end.

(* a fresh session: the default choices, in the order the library lists them *)
Definition reg_init : registry :=
  map (fun i => mkR RControl (control_oid i) []) default_control_choices ++
  map (fun i => mkR RFilter [i] []) default_filter_choices ++
  map (fun i => mkR RAuth [i] []) default_auth_choices.

Definition matches_entry (k : rkind) (i : rid) (e : rentry) : bool := rkind_eqb k (r_kind e) && rid_eqb i (r_id e).

(* next((c for c in choices if c.id == id), None) *)
Definition reg_find (k : rkind) (i : rid) (r : registry) : option rentry := find (matches_entry k i) r.

(* register_control / register_filter / register_auth_credential *)
Definition reg_add (k : rkind) (i : rid) (cls : list N) (r : registry) : res registry :=
  match reg_find k i r with
  | Some _ => Raise ValueErr
  | None => Ok (r ++ [mkR k i cls])
  end.

(* a history of registrations; the outcome of each and the final registry *)
Fixpoint reg_run (ops : list (rkind * rid * list N)) (r : registry) : list bool * registry :=
  match ops with
  | [] => ([], r)
  | (k, i, cls) :: rest =>
      match reg_add k i cls r with
      | Ok r' => let '(os, rf) := reg_run rest r' in (true :: os, rf)
      | Raise _ => let '(os, rf) := reg_run rest r in (false :: os, rf)
      end
  end.

(* which class decodes an id: None = unknown type (generic control / protocol error for filters and credentials) *)
Definition reg_decodes (k : rkind) (i : rid) (r : registry) : option (list N) :=
  match reg_find k i r with Some e => Some (r_class e) | None => None end.
