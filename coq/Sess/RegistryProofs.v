(* C19, the registration clause: theorems about the registry model. *)
From Coq Require Import NArith List Bool Lia.
From SV Require Import Base.Bytes Base.Py Gen.Generated Sess.Registry.
Import ListNotations.
Local Open Scope N_scope.

Lemma rkind_eqb_eq a b : rkind_eqb a b = true <-> a = b.
Proof. destruct a, b; cbn; split; intros H; try reflexivity; try discriminate. Qed.
Lemma rid_eqb_eq : forall a b, rid_eqb a b = true <-> a = b.
Proof.
  induction a as [|x a IH]; intros [|y b]; cbn; split; intros H; try reflexivity; try discriminate.
  - apply andb_true_iff in H. destruct H as [H1 H2]. apply N.eqb_eq in H1. apply IH in H2. congruence.
  - injection H as -> ->. rewrite N.eqb_refl. now apply IH.
Qed.
Lemma matches_entry_iff k i e : matches_entry k i e = true <-> (k = r_kind e /\ i = r_id e).
Proof. unfold matches_entry. rewrite andb_true_iff, rkind_eqb_eq, rid_eqb_eq. tauto. Qed.

Lemma find_app {A} (f : A -> bool) l1 l2 : find f (l1 ++ l2) = match find f l1 with Some x => Some x | None => find f l2 end.
Proof. induction l1 as [|x l1 IH]; [reflexivity|]. cbn. destruct (f x); [reflexivity|exact IH]. Qed.

(* a successful registration makes exactly that session decode the type with the registered class ... *)
Theorem reg_add_effect k i cls r r' :
  reg_add k i cls r = Ok r' ->
  reg_decodes k i r' = Some cls /\
  (forall k2 i2, (k2, i2) <> (k, i) -> reg_decodes k2 i2 r' = reg_decodes k2 i2 r).
Proof.
  unfold reg_add, reg_decodes, reg_find. destruct (find (matches_entry k i) r) eqn:E; [discriminate|]. intros H. injection H as <-. split.
  - rewrite find_app, E. cbn. unfold matches_entry. cbn [r_kind r_id].
    assert (K : rkind_eqb k k = true) by now apply rkind_eqb_eq. assert (I : rid_eqb i i = true) by now apply rid_eqb_eq. rewrite K, I. reflexivity.
  - intros k2 i2 Hne. rewrite find_app. destruct (find (matches_entry k2 i2) r); [reflexivity|]. cbn.
    destruct (matches_entry k2 i2 (mkR k i cls)) eqn:M; [|reflexivity]. apply matches_entry_iff in M. cbn in M. destruct M as [-> ->]. congruence.
Qed.

(* ... a second registration of the same id (by the same or another class) is rejected and changes nothing,
   and so is the registration of an id a built-in type has *)
Theorem reg_add_taken k i cls r :
  reg_decodes k i r <> None -> reg_add k i cls r = Raise ValueErr.
Proof. unfold reg_decodes, reg_add. destruct (reg_find k i r); [reflexivity|congruence]. Qed.

Theorem reg_add_twice k i cls cls2 r r' : reg_add k i cls r = Ok r' -> reg_add k i cls2 r' = Raise ValueErr.
Proof. intros H. apply reg_add_taken. destruct (reg_add_effect _ _ _ _ _ H) as [E _]. rewrite E. discriminate. Qed.

(* the class registered first is the one that keeps decoding, whatever is attempted later *)
Theorem reg_first_wins : forall ops k i cls r,
  reg_decodes k i r = Some cls -> reg_decodes k i (snd (reg_run ops r)) = Some cls.
Proof.
  induction ops as [|[[k0 i0] c0] ops IH]; intros k i cls r H; [exact H|]. cbn [reg_run].
  destruct (reg_add k0 i0 c0 r) as [r'|e] eqn:E.
  - destruct (reg_run ops r') as [os rf] eqn:R. cbn [snd]. replace rf with (snd (reg_run ops r')) by now rewrite R.
    apply IH. destruct (reg_add_effect _ _ _ _ _ E) as [E1 E2].
    destruct (rkind_eqb k k0 && rid_eqb i i0) eqn:Q.
    + apply andb_true_iff in Q. destruct Q as [Q1 Q2]. apply rkind_eqb_eq in Q1. apply rid_eqb_eq in Q2. subst.
      exfalso. assert (reg_add k0 i0 c0 r = Raise ValueErr) by (apply reg_add_taken; rewrite H; discriminate). congruence.
    + rewrite E2; [exact H|]. intros J. injection J as -> ->.
      assert (K : rkind_eqb k0 k0 = true) by now apply rkind_eqb_eq. assert (I : rid_eqb i0 i0 = true) by now apply rid_eqb_eq. rewrite K, I in Q. discriminate.
  - destruct (reg_run ops r) as [os rf] eqn:R. cbn [snd]. replace rf with (snd (reg_run ops r)) by now rewrite R. now apply IH.
Qed.

(* a session that never registered an id (and for which it is not built in) does not know the type,
   whatever it registered otherwise *)
Theorem reg_unknown_stays_unknown : forall ops k i r,
  reg_decodes k i r = None -> (forall c, ~ In (k, i, c) ops) -> reg_decodes k i (snd (reg_run ops r)) = None.
Proof.
  induction ops as [|[[k0 i0] c0] ops IH]; intros k i r H Hn; [exact H|]. cbn [reg_run].
  assert (Hne : (k, i) <> (k0, i0)) by (intros J; injection J as -> ->; apply (Hn c0); now left).
  assert (Hn' : forall c, ~ In (k, i, c) ops) by (intros c J; apply (Hn c); now right).
  destruct (reg_add k0 i0 c0 r) as [r'|e] eqn:E.
  - destruct (reg_run ops r') as [os rf] eqn:R. cbn [snd]. replace rf with (snd (reg_run ops r')) by now rewrite R.
    apply IH; [|exact Hn']. destruct (reg_add_effect _ _ _ _ _ E) as [_ E2]. rewrite E2; assumption.
  - destruct (reg_run ops r) as [os rf] eqn:R. cbn [snd]. replace rf with (snd (reg_run ops r)) by now rewrite R. now apply IH.
Qed.

(* the built-in ids are taken in a fresh session *)
Example builtin_taken :
  reg_add RControl (bytes_id oid_paged) [67] reg_init = Raise ValueErr /\ reg_add RFilter [7] [70] reg_init = Raise ValueErr /\
  reg_add RAuth [0] [65] reg_init = Raise ValueErr /\ exists r, reg_add RFilter [1024] [70] reg_init = Ok r.
Proof. repeat split; try reflexivity. eexists. reflexivity. Qed.
