(* Characterisation of the three send layers and of receive's effect on the outgoing side. *)
From Coq Require Import ZArith NArith List Bool Lia.
From Coq.Strings Require Import Byte.
From SV Require Import Base.Bytes Base.Py Gen.Generated Asn1.Model Msg.Types Msg.Encode Msg.Decode Sess.Model Sess.Basic.
Import ListNotations.
Local Open Scope Z_scope.

Definition opened_from (st : state) : state := if state_eqb st BEFORE_OPEN then OPENED else st.

Definition is_unbind (o : op) : bool := match o with UnbindRequest => true | _ => false end.

Lemma client_send_none s o cs s' : client_send s o cs = (s', None) -> s' = s.
Proof.
  unfold client_send. destruct o; try (destruct (base_send s _) as [s1 [i|]] eqn:B; intros H; inversion H; subst;
    now apply base_send_none in B).
Qed.

Lemma client_send_some s o cs s' id :
  client_send s o cs = (s', Some id) ->
  s_state s <> CLOSED /\
  id = (if is_unbind o then 0 else s_counter s) /\
  s_out s' = s_out s ++ enc_msg (mkMsg id o cs) /\
  s_state s' = opened_from (s_state s) /\
  s_counter s' = (if is_unbind o then s_counter s else s_counter s + 1) /\
  s_outstanding s' = (if is_unbind o then s_outstanding s else zadd id (s_outstanding s)) /\
  s_searches s' = s_searches s /\ s_in s' = s_in s /\ s_role s' = s_role s.
Proof.
  assert (G : forall o, is_unbind o = false ->
            (let id0 := s_counter s in
             match base_send s (mkMsg id0 o cs) with
             | (s1, Some _) => (set_outstanding (set_counter s1 (id0 + 1)) (zadd id0 (s_outstanding s1)), Some id0)
             | (s1, None) => (s1, None)
             end) = (s', Some id) ->
            s_state s <> CLOSED /\ id = s_counter s /\
            s_out s' = s_out s ++ enc_msg (mkMsg id o cs) /\
            s_state s' = opened_from (s_state s) /\
            s_counter s' = s_counter s + 1 /\
            s_outstanding s' = zadd id (s_outstanding s) /\
            s_searches s' = s_searches s /\ s_in s' = s_in s /\ s_role s' = s_role s).
  { intros o0 _. cbv zeta. destruct (base_send s _) as [s1 [i|]] eqn:B; [|discriminate].
    intros H. inversion H. subst. clear H.
    apply base_send_some in B. simpl in B.
    destruct B as (_ & Hc & Ho & Hs & Hos & Hss & Hcn & Hi & Hr).
    simpl. rewrite Hos. repeat split; auto. }
  destruct o; simpl is_unbind; try (intros H; apply G in H; [exact H|reflexivity]).
  unfold client_send. intros B. apply base_send_some in B. simpl in B.
  destruct B as (-> & Hc & Ho & Hs & Hos & Hss & Hcn & Hi & Hr). repeat split; auto.
Qed.

Definition is_final_kind (k : kind) : bool := match k with KEntry | KRef | KUnbind => false | _ => true end.

Lemma server_send_none s m s' :
  server_send s m = (s', None) ->
  s_out s' = s_out s /\ s_outstanding s' = s_outstanding s /\ s_searches s' = s_searches s /\
  s_counter s' = s_counter s /\ s_in s' = s_in s /\ s_role s' = s_role s /\
  (s_state s' = s_state s \/ (s_state s = BEFORE_OPEN /\ s_state s' = OPENED)) /\
  (s_state s = CLOSED -> s' = s).
Proof.
  unfold server_send. destruct (base_send s m) as [s1 [i|]] eqn:B.
  - apply base_send_some in B. destruct B as (-> & Hc & Ho & Hs & Hos & Hss & Hcn & Hi & Hr).
    destruct (kind_of (m_op m)); try discriminate;
      (destruct (zmem (m_id m) (s_outstanding s1)); [discriminate || (destruct s1; discriminate) | ]);
      intros H; inversion H; subst; simpl; repeat split; auto;
      try (rewrite Hs; unfold opened_from; destruct (s_state s); simpl; auto; fail);
      try (intros Hcl; congruence).
    all: try (rewrite Hs; destruct (s_state s); simpl; auto).
  - apply base_send_none in B. subst s1. intros H. inversion H. subst. repeat split; auto.
Qed.

Lemma server_send_some s m s' id :
  server_send s m = (s', Some id) ->
  id = m_id m /\ s_state s <> CLOSED /\
  s_out s' = s_out s ++ enc_msg m /\
  s_state s' = opened_from (s_state s) /\
  (kind_of (m_op m) <> KUnbind -> In id (s_outstanding s)) /\
  s_outstanding s' = (if is_final_kind (kind_of (m_op m)) then zdel id (s_outstanding s) else s_outstanding s) /\
  s_searches s' = s_searches s /\ s_counter s' = s_counter s /\ s_in s' = s_in s /\ s_role s' = s_role s.
Proof.
  unfold server_send. destruct (base_send s m) as [s1 [i|]] eqn:B; [|discriminate].
  apply base_send_some in B. destruct B as (-> & Hc & Ho & Hs & Hos & Hss & Hcn & Hi & Hr).
  destruct (kind_of (m_op m)) eqn:K; simpl is_final_kind;
    try (intros H; inversion H; subst; repeat split; auto; congruence);
    (destruct (zmem (m_id m) (s_outstanding s1)) eqn:Z; [|discriminate]);
    apply zmem_in in Z; rewrite Hos in Z;
    intros H; inversion H; subst; simpl; rewrite ?Hos; repeat split; auto.
Qed.

(* ---- receive never touches the outgoing buffer, the counter or the role *)
Definition same_out (a b : sess) : Prop :=
  s_out b = s_out a /\ s_counter b = s_counter a /\ s_role b = s_role a.

Lemma same_out_refl a : same_out a a. Proof. repeat split. Qed.
Lemma same_out_trans a b c : same_out a b -> same_out b c -> same_out a c.
Proof. unfold same_out. intuition congruence. Qed.

Ltac split_all :=
  repeat match goal with
         | |- context [if ?b then _ else _] => destruct b
         | |- context [match ?x with _ => _ end] => destruct x
         end.

Lemma process_client_same s m s' r : process_client s m = (s', r) -> same_out s s'.
Proof.
  unfold process_client, same_out. split_all; intros H; inversion H; subst; simpl; repeat split.
Qed.

Lemma process_server_same s m s' r : process_server s m = (s', r) -> same_out s s'.
Proof.
  unfold process_server, same_out. split_all; intros H; inversion H; subst; simpl; repeat split.
Qed.

Lemma process_all_same ms : forall s s' r, process_all s ms = (s', r) -> same_out s s'.
Proof.
  induction ms as [|m ms IH]; intros s s' r; cbn [process_all].
  - intros H; inversion H; apply same_out_refl.
  - destruct (is_notice (m_op m)); [intros H; inversion H; apply same_out_refl|].
    destruct (kind_of (m_op m)) eqn:K; try (intros H; inversion H; apply same_out_refl);
      (destruct (s_role s);
       [destruct (process_client s m) as [s1 [p|]] eqn:P; [intros H; inversion H; subst; eapply process_client_same; eauto|];
        intros H; eapply same_out_trans; [eapply process_client_same; eauto|eapply IH; eauto]
       |destruct (process_server s m) as [s1 [p|]] eqn:P; [intros H; inversion H; subst; eapply process_server_same; eauto|];
        intros H; eapply same_out_trans; [eapply process_server_same; eauto|eapply IH; eauto]]).
Qed.

Lemma receive_same d s data s' o : receive d s data = (s', o) -> same_out s s'.
Proof.
  unfold receive. destruct (s_state s); try (intros H; inversion H; apply same_out_refl);
  (set (buffered := match s_in s with [] => false | _ => true end);
   set (input := if buffered then s_in s ++ data else data);
   set (s0 := if buffered then set_in s input else s);
   assert (H0 : same_out s s0) by (unfold s0; destruct buffered; repeat split);
   destruct (parse_loop _ d input []) as [[ms rest]|e];
   [ set (s1 := if buffered then set_in s0 rest else match rest with [] => s0 | _ => set_in s0 rest end);
     assert (H1 : same_out s0 s1) by (unfold s1; destruct buffered; [|destruct rest]; repeat split);
     destruct (process_all s1 ms) as [s2 [p|]] eqn:P;
     [destruct p|]; intros H; inversion H; subst;
     (eapply same_out_trans; [exact H0|]; eapply same_out_trans; [exact H1|]);
     (eapply same_out_trans; [eapply process_all_same; eauto|]); repeat split
   | destruct e as [| | |k]; try destruct k; intros H; inversion H; subst;
     (eapply same_out_trans; [exact H0|]); repeat split ]).
Qed.
