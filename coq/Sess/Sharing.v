(* C19, the object graph behind the type registries.

   In Python the lists of known control / filter / credential types are objects; whether two sessions see the same
   list is a question of how the lists are created, not of what is done with them.  Here the lists live in a store
   and a session holds the location of its list.  [new_session fresh] is the one place where sharing is decided:
   with [fresh = true] every session gets a new list (what `dataclasses.field(default_factory=lambda: [...])` and the
   constructor calls in LDAPSession.__init__ do), with [fresh = false] every session gets the list at location 0
   (what a class attribute or a shared default object would do).  Gen/Sharing.v -- regenerated from the source by
   tools/audit.py on every run -- says which of the two the current tree is ([choice_lists_fresh]).

   Proved: with fresh lists, in ANY interleaving of registrations and look-ups by any number of sessions every
   session observes exactly what it observes when it runs alone on a fresh session; with the shared list this is
   false (witness).  Definitions and proofs; not in the cone of the extracted driver. *)
From Coq Require Import NArith List Bool Lia PeanoNat.
From SV Require Import Base.Bytes Base.Py Gen.Generated Gen.Sharing Sess.Registry Sess.RegistryProofs.
Import ListNotations.

Definition store := list registry.

Fixpoint upd {A} (n : nat) (x : A) (l : list A) : list A :=
  match l, n with
  | [], _ => []
  | _ :: t, O => x :: t
  | h :: t, S n' => h :: upd n' x t
  end.

Lemma upd_length {A} n (x : A) l : length (upd n x l) = length l.
Proof. revert n; induction l as [|h t IH]; intros [|n]; cbn; auto. Qed.
Lemma nth_upd_same {A} n (x : A) l : n < length l -> nth_error (upd n x l) n = Some x.
Proof. revert n; induction l as [|h t IH]; intros [|n] H; cbn in *; try lia; auto. apply IH. lia. Qed.
Lemma nth_upd_other {A} n m (x : A) l : n <> m -> nth_error (upd n x l) m = nth_error l m.
Proof. revert n m; induction l as [|h t IH]; intros [|n] [|m] H; cbn; auto; try congruence. Qed.

(* creating a session *)
Definition new_session (fresh : bool) (st : store) : store * nat :=
  if fresh then (st ++ [reg_init], length st)
  else match st with [] => ([reg_init], 0) | _ => (st, 0) end.

Fixpoint new_sessions (fresh : bool) (n : nat) (st : store) : store * list nat :=
  match n with
  | O => (st, [])
  | S n' => let '(st1, l) := new_session fresh st in
            let '(st2, ls) := new_sessions fresh n' st1 in (st2, l :: ls)
  end.

(* what a session does with its list, and what it observes *)
Inductive rop :=
| Register (k : rkind) (i : rid) (cls : list N)
| Lookup (k : rkind) (i : rid).

Inductive robs :=
| Registered | Refused
| Decodes (c : option (list N)).

Definition step_reg (o : rop) (r : registry) : registry * robs :=
  match o with
  | Register k i cls => match reg_add k i cls r with Ok r' => (r', Registered) | Raise _ => (r, Refused) end
  | Lookup k i => (r, Decodes (reg_decodes k i r))
  end.

(* one session alone *)
Fixpoint run_alone (ops : list rop) (r : registry) : list robs :=
  match ops with
  | [] => []
  | o :: rest => let '(r', ob) := step_reg o r in ob :: run_alone rest r'
  end.

(* any number of sessions: a schedule names, for every step, the session (by index) and its operation *)
Definition step_store (l : nat) (o : rop) (st : store) : store * robs :=
  match nth_error st l with
  | Some r => let '(r', ob) := step_reg o r in (upd l r' st, ob)
  | None => (st, Refused)
  end.

Fixpoint run_store (locs : list nat) (sched : list (nat * rop)) (st : store) : list (nat * robs) :=
  match sched with
  | [] => []
  | (who, o) :: rest =>
      match nth_error locs who with
      | Some l => let '(st', ob) := step_store l o st in (who, ob) :: run_store locs rest st'
      | None => run_store locs rest st
      end
  end.

Definition mine {A} (who : nat) (l : list (nat * A)) : list A :=
  map snd (filter (fun p => Nat.eqb (fst p) who) l).

(* ---- fresh lists ---- *)
Lemma new_sessions_fresh : forall n st st' ls,
  new_sessions true n st = (st', ls) ->
  ls = seq (length st) n /\ st' = st ++ repeat reg_init n.
Proof.
  induction n as [|n IH]; intros st st' ls H; cbn [new_sessions new_session] in H.
  - inversion H; subst. cbn. now rewrite app_nil_r.
  - destruct (new_sessions true n (st ++ [reg_init])) as [st2 ls2] eqn:E. inversion H; subst.
    apply IH in E. destruct E as [-> ->]. rewrite app_length. cbn [length]. split.
    + cbn [seq]. f_equal. f_equal. lia.
    + rewrite <- app_assoc. reflexivity.
Qed.

(* the invariant of a run: session number w's list is at location base + w and holds what w alone would hold *)
Definition tracks (base n : nat) (st : store) (regs : list registry) : Prop :=
  length regs = n /\ length st = base + n /\
  forall w r, nth_error regs w = Some r -> nth_error st (base + w) = Some r.

Lemma nth_seq_some base n w : w < n -> nth_error (seq base n) w = Some (base + w).
Proof.
  revert base w; induction n as [|n IH]; intros base [|w] H; cbn; try lia.
  - f_equal. lia.
  - rewrite IH by lia. f_equal. lia.
Qed.
Lemma nth_seq_none base n w : n <= w -> nth_error (seq base n) w = None.
Proof. intros H. apply nth_error_None. now rewrite seq_length. Qed.

(* the registries every session would have, each running alone on its own part of the schedule *)
Fixpoint regs_after (sched : list (nat * rop)) (regs : list registry) : list registry :=
  match sched with
  | [] => regs
  | (who, o) :: rest =>
      match nth_error regs who with
      | Some r => regs_after rest (upd who (fst (step_reg o r)) regs)
      | None => regs_after rest regs
      end
  end.

Lemma mine_cons_same {A} who (x : A) l : mine who ((who, x) :: l) = x :: mine who l.
Proof. unfold mine. cbn. now rewrite Nat.eqb_refl. Qed.
Lemma mine_cons_other {A} who w (x : A) l : w <> who -> mine who ((w, x) :: l) = mine who l.
Proof. intros H. unfold mine. cbn. destruct (Nat.eqb_spec w who); [contradiction|reflexivity]. Qed.

Lemma run_alone_mine_cons_same who o rest r :
  run_alone (mine who ((who, o) :: rest)) r = snd (step_reg o r) :: run_alone (mine who rest) (fst (step_reg o r)).
Proof. rewrite mine_cons_same. cbn. destruct (step_reg o r); reflexivity. Qed.

Theorem fresh_sessions_are_isolated_gen : forall sched base n st regs who r,
  tracks base n st regs -> nth_error regs who = Some r ->
  mine who (run_store (seq base n) sched st) = run_alone (mine who sched) r.
Proof.
  induction sched as [|[w o] rest IH]; intros base n st regs who r T Hr; [reflexivity|].
  destruct T as (Hl & Hs & Hn). cbn [run_store].
  destruct (Nat.lt_ge_cases w n) as [Hw|Hw].
  - rewrite (nth_seq_some base n w Hw). unfold step_store.
    destruct (nth_error regs w) as [rw|] eqn:Ew; [|apply nth_error_None in Ew; lia].
    rewrite (Hn _ _ Ew). destruct (step_reg o rw) as [rw' ob] eqn:Es.
    assert (T' : tracks base n (upd (base + w) rw' st) (upd w rw' regs)).
    { split; [now rewrite upd_length|]. split; [now rewrite upd_length|]. intros w2 r2 H2.
      destruct (Nat.eq_dec w w2) as [<-|Hne].
      - rewrite nth_upd_same in H2 by lia. injection H2 as <-. apply nth_upd_same. lia.
      - rewrite nth_upd_other in H2 by exact Hne. rewrite nth_upd_other by lia. now apply Hn. }
    destruct (Nat.eq_dec w who) as [->|Hne].
    + rewrite mine_cons_same. assert (rw = r) by congruence. subst rw.
      rewrite run_alone_mine_cons_same, Es. cbn [fst snd]. f_equal.
      apply (IH base n _ _ who rw' T'). apply nth_upd_same. apply nth_error_Some. congruence.
    + rewrite mine_cons_other by exact Hne. rewrite (mine_cons_other who w o rest Hne).
      apply (IH base n _ _ who r T'). now rewrite nth_upd_other.
  - rewrite (nth_seq_none base n w Hw).
    assert (w <> who). { intros ->. assert (who < length regs) by (apply nth_error_Some; congruence). lia. }
    rewrite (mine_cons_other who w o rest H). apply (IH base n st regs who r); [now repeat split|exact Hr].
Qed.

Lemma nth_repeat {A} (x : A) n w : w < n -> nth_error (repeat x n) w = Some x.
Proof. revert w; induction n as [|n IH]; intros [|w] H; cbn; try lia; auto. apply IH. lia. Qed.

(* n sessions created one after the other, then any schedule: session [who] sees what it sees alone *)
Theorem fresh_sessions_are_isolated : forall n sched st ls who,
  new_sessions true n [] = (st, ls) -> who < n ->
  mine who (run_store ls sched st) = run_alone (mine who sched) reg_init.
Proof.
  intros n sched st ls who H Hw. apply new_sessions_fresh in H. destruct H as [-> ->]. cbn [length app].
  apply (fresh_sessions_are_isolated_gen sched 0 n (repeat reg_init n) (repeat reg_init n) who reg_init).
  - split; [apply repeat_length|]. split; [now rewrite repeat_length|]. intros w r Hr. exact Hr.
  - now apply nth_repeat.
Qed.

(* what the current source does, as read by the audit *)
Theorem current_sessions_are_isolated : forall n sched st ls who,
  new_sessions choice_lists_fresh n [] = (st, ls) -> who < n ->
  mine who (run_store ls sched st) = run_alone (mine who sched) reg_init.
Proof. exact fresh_sessions_are_isolated. Qed.

(* ---- the shared list: isolation fails ---- *)
Definition probe_id : rid := [1024%N].
Theorem shared_list_is_not_isolated :
  exists sched st ls,
    new_sessions false 2 [] = (st, ls) /\
    mine 1 (run_store ls sched st) <> run_alone (mine 1 sched) reg_init.
Proof.
  exists [(0, Register RFilter probe_id [70%N]); (1, Lookup RFilter probe_id)].
  eexists. eexists. split; [reflexivity|]. vm_compute. discriminate.
Qed.
