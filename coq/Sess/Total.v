(* C05: receive is total -- it returns messages or raises the protocol error, for every state the
   session can reach, every byte string and every recursion budget. *)
From Coq Require Import ZArith NArith List Bool Lia.
From Coq.Strings Require Import Byte.
From SV Require Import Base.Bytes Base.Py Gen.Generated Asn1.Model Asn1.Progress Msg.Types Msg.Encode Msg.Decode
  Msg.Progress Sess.Model Sess.Basic Sess.Send Sess.Drain Sess.Wire Sess.Lifecycle Sess.Ids.
Import ListNotations.
Local Open Scope Z_scope.

(* the stream parser never exhausts its fuel; the only crash it can report is the recursion limit *)
Lemma parse_loop_benign d : forall fuel r acc k,
  (length r < fuel)%nat -> parse_loop fuel d r acc = Raise (Crash k) -> k = RecursionErr.
Proof.
  induction fuel as [|f IH]; intros r acc k Hl; [lia|].
  cbn [parse_loop]. destruct r as [|b r0] eqn:Er; [discriminate|]. rewrite <- Er in *.
  assert (Hne : r <> []) by (rewrite Er; discriminate).
  destruct (unpack_message d r) as [[m r']|e] eqn:U.
  - apply IH. apply unpack_message_progress in U; [lia|assumption].
  - destruct e as [| | |c]; try discriminate.
    intros H; injection H as <-. exact (unpack_message_nofuel d r c U).
Qed.

(* searches are a subset of the outstanding ids *)
Definition sub_inv (s : sess) : Prop := forall i, In i (s_searches s) -> In i (s_outstanding s).

Lemma process_client_sub s m s' : sub_inv s -> process_client s m = (s', None) -> sub_inv s'.
Proof.
  unfold sub_inv, process_client. intros I.
  destruct (negb (is_response _)); [discriminate|].
  destruct (zmem (m_id m) (s_searches s)) eqn:S1; simpl.
  - destruct (match kind_of (m_op m) with KDone => true | _ => false end); simpl.
    + set (s1 := set_searches s _).
      set (s2 := match m_op m with BindResponse res _ => _ | _ => s1 end).
      assert (G : s_outstanding s2 = s_outstanding s /\ s_searches s2 = zdel (m_id m) (s_searches s))
        by (unfold s2; destruct (m_op m); try (split; reflexivity); destruct (_ =? _); split; reflexivity).
      destruct G as [G1 G2]. destruct (zmem (m_id m) (s_outstanding s2)); intros H; inversion H; subst; simpl.
      rewrite G1, G2. intros i Hi. apply zdel_in in Hi. destruct Hi as [Hi Hn]. apply zdel_in. split; auto.
    + set (s2 := match m_op m with BindResponse res _ => _ | _ => s end).
      assert (G : s_outstanding s2 = s_outstanding s /\ s_searches s2 = s_searches s)
        by (unfold s2; destruct (m_op m); try (split; reflexivity); destruct (_ =? _); split; reflexivity).
      destruct G as [G1 G2]. intros H; inversion H; subst. rewrite G1, G2. exact I.
  - destruct (negb (zmem (m_id m) (s_outstanding s))); [discriminate|]. simpl.
    set (s2 := match m_op m with BindResponse res _ => _ | _ => s end).
    assert (G : s_outstanding s2 = s_outstanding s /\ s_searches s2 = s_searches s)
      by (unfold s2; destruct (m_op m); try (split; reflexivity); destruct (_ =? _); split; reflexivity).
    destruct G as [G1 G2]. destruct (zmem (m_id m) (s_outstanding s2)); intros H; inversion H; subst; simpl.
    rewrite G1, G2. intros i Hi. apply zdel_in. split; [auto|].
    intros ->. apply zmem_in in Hi. congruence.
Qed.

Lemma process_client_no_crash s m s' k : sub_inv s -> process_client s m <> (s', Some (PCrash k)).
Proof.
  unfold sub_inv, process_client. intros I.
  destruct (negb (is_response _)); [discriminate|].
  destruct (zmem (m_id m) (s_searches s)) eqn:S1; simpl.
  - assert (S2 : zmem (m_id m) (s_outstanding s) = true) by (apply zmem_in, I; now apply zmem_in).
    destruct (match kind_of (m_op m) with KDone => true | _ => false end); simpl.
    + set (s1 := set_searches s _).
      set (s2 := match m_op m with BindResponse res _ => _ | _ => s1 end).
      assert (G : s_outstanding s2 = s_outstanding s)
        by (unfold s2; destruct (m_op m); try reflexivity; destruct (_ =? _); reflexivity).
      rewrite G, S2. discriminate.
    + discriminate.
  - destruct (negb (zmem (m_id m) (s_outstanding s))) eqn:S2; [discriminate|]. simpl.
    set (s2 := match m_op m with BindResponse res _ => _ | _ => s end).
    assert (G : s_outstanding s2 = s_outstanding s)
      by (unfold s2; destruct (m_op m); try reflexivity; destruct (_ =? _); reflexivity).
    rewrite G. apply negb_false_iff in S2. rewrite S2. discriminate.
Qed.

Lemma process_server_no_crash s m s' k : process_server s m <> (s', Some (PCrash k)).
Proof.
  unfold process_server. destruct (negb _); [discriminate|].
  destruct (kind_of (m_op m)); try (destruct (s_outstanding s); discriminate); cbv zeta; intros H; inversion H.
Qed.

Lemma process_all_no_crash ms : forall s s' k,
  (s_role s = Client -> sub_inv s) -> process_all s ms <> (s', Some (PCrash k)).
Proof.
  induction ms as [|m ms IH]; intros s s' k I; cbn [process_all]; [discriminate|].
  destruct (is_notice (m_op m)); [discriminate|].
  destruct (kind_of (m_op m)) eqn:K; try discriminate;
    (destruct (s_role s) eqn:R;
     [ destruct (process_client s m) as [s1 [p|]] eqn:P;
       [ intros H; inversion H; subst; eapply process_client_no_crash; eauto
       | apply IH; intros R1; eapply process_client_sub; eauto ]
     | destruct (process_server s m) as [s1 [p|]] eqn:P;
       [ intros H; inversion H; subst; eapply process_server_no_crash; eauto
       | apply IH; intros R1; pose proof (process_server_same _ _ _ _ P) as (_ & _ & R2); congruence ] ]).
Qed.

Lemma process_all_sub ms : forall s s', sub_inv s -> s_role s = Client -> process_all s ms = (s', None) -> sub_inv s'.
Proof.
  induction ms as [|m ms IH]; intros s s' I R; cbn [process_all]; [intros H; inversion H; subst; exact I|].
  destruct (is_notice (m_op m)); [discriminate|].
  rewrite R.
  destruct (kind_of (m_op m)) eqn:K; try discriminate;
    (destruct (process_client s m) as [s1 [p|]] eqn:P; [discriminate|];
     apply IH; [eapply process_client_sub; eauto|];
     pose proof (process_client_same _ _ _ _ P) as (_ & _ & R2); congruence).
Qed.

Definition good (s : sess) : Prop := s_state s <> CLOSED -> s_role s = Client -> sub_inv s.

Theorem receive_total d s data s' o :
  good s -> receive d s data = (s', o) -> (exists ms, o = ORetMsgs ms) \/ (exists p, o = OProtoErr p).
Proof.
  intros G. unfold receive.
  destruct (s_state s) eqn:S; try (intros H; inversion H; eauto; fail).
  all: set (buffered := match s_in s with [] => false | _ => true end);
       set (input := if buffered then s_in s ++ data else data);
       set (s0 := if buffered then set_in s input else s);
       destruct (parse_loop (Datatypes.S (length input)) d input []) as [[ms rest]|e] eqn:PL.
  all: try (destruct e as [| | |k]; try (intros H; inversion H; eauto; fail);
            apply parse_loop_benign in PL; [|lia]; subst k; intros H; inversion H; eauto).
  all: set (s1 := if buffered then set_in s0 rest else match rest with [] => s0 | _ => set_in s0 rest end);
       assert (E1 : s_role s1 = s_role s /\ s_outstanding s1 = s_outstanding s /\ s_searches s1 = s_searches s)
         by (unfold s1, s0; destruct buffered; [|destruct rest]; repeat split; reflexivity);
       destruct E1 as (E1 & E2 & E3);
       destruct (process_all s1 ms) as [s2 [p|]] eqn:P; [destruct p as [wr nt|k]|];
       try (intros H; inversion H; eauto; fail).
  all: exfalso; eapply process_all_no_crash; [|exact P];
       intros R; unfold sub_inv; rewrite E2, E3; apply G; [rewrite S; discriminate|congruence].
Qed.

(* fail closed: after a protocol error the session is CLOSED and every later delivery is refused
   without any effect *)
Theorem fail_closed d s data s' p :
  step d s (Receive data) = (s', OProtoErr p) ->
  s_state s' = CLOSED /\
  forall data2 s2 o2, step d s' (Receive data2) = (s2, o2) -> s2 = s' /\ exists q, o2 = OProtoErr q.
Proof.
  intros H. pose proof (protocol_error_closes _ _ _ _ _ H) as C. split; [exact C|].
  intros data2 s2 o2 H2. destruct (closed_is_final d s' (Receive data2) s2 o2 C H2) as (_ & _ & _ & Q). exact Q.
Qed.

(* ---- the invariant holds in every state a session can reach *)
Lemma good_init r : good (init r).
Proof. intros _ _ i H. destruct H. Qed.

Lemma good_receive d s data s' o : good s -> receive d s data = (s', o) -> good s'.
Proof.
  intros G. unfold receive.
  destruct (s_state s) eqn:S; try (intros H; inversion H; subst; exact G).
  all: assert (NC : s_state s <> CLOSED) by (rewrite S; discriminate).
  all: set (buffered := match s_in s with [] => false | _ => true end);
       set (input := if buffered then s_in s ++ data else data);
       set (s0 := if buffered then set_in s input else s);
       destruct (parse_loop (Datatypes.S (length input)) d input []) as [[ms rest]|e].
  all: try (destruct e as [| | |k]; try destruct k; intros HH; inversion HH; subst;
            intros N R; try (simpl in N; congruence);
            intros i Hi; unfold s0 in *; destruct buffered; simpl in *; apply G; auto).
  all: set (s1 := if buffered then set_in s0 rest else match rest with [] => s0 | _ => set_in s0 rest end);
       assert (E1 : s_role s1 = s_role s /\ s_outstanding s1 = s_outstanding s /\ s_searches s1 = s_searches s)
         by (unfold s1, s0; destruct buffered; [|destruct rest]; repeat split; reflexivity);
       destruct E1 as (E1 & E2 & E3);
       destruct (process_all s1 ms) as [s2 [p|]] eqn:P; [destruct p as [wr nt|k]|];
       intros HH; inversion HH; subst; intros N R.
  all: try (simpl in N; congruence).
  all: pose proof (process_all_same _ _ _ _ P) as (_ & _ & R2).
  all: try (exfalso; eapply process_all_no_crash; [|exact P]; intros _; unfold sub_inv; rewrite E2, E3; apply G; congruence).
  all: eapply process_all_sub; [| |exact P]; [unfold sub_inv; rewrite E2, E3; apply G; congruence|congruence].
Qed.

Lemma good_step d s c s' o : good s -> step d s c = (s', o) -> good s'.
Proof.
  intros G H.
  destruct (s_state s) eqn:S.
  4: { destruct (closed_is_final d s c s' o S H) as (C & _). intros NC. congruence. }
  all: assert (NC : s_state s <> CLOSED) by (rewrite S; discriminate).
  all: destruct c.
  all: try (apply drain_only_cuts in H; destruct H as (H1 & H2 & H3 & H4 & H5 & H6 & _);
            intros N R i; rewrite H3, H2; apply G; congruence).
  all: try (eapply good_receive; [exact G|]; revert H; unfold step; destruct (s_role s); exact (fun x => x)).
  all: revert G H NC; clear S.
  all: destruct s as [r st out os ss cnt inb]; unfold good, sub_inv; simpl.
  all: unfold step, ret, client_send, server_send, base_send; simpl.
  all: destruct r, st; simpl; intros G H NC; try congruence.
  all: revert H;
       repeat match goal with
              | |- context [if ?b then _ else _] => destruct b eqn:?
              | |- context [match ?x with _ => _ end] => destruct x eqn:?
              end; intros HH; inversion HH; subst; clear HH; simpl.
  all: intros N R i Hi; try discriminate; try congruence.
  all: try (apply zadd_in in Hi; destruct Hi as [Hi| ->]).
  all: try (apply zadd_in; auto; fail).
  all: try (apply zadd_in; left; apply G; auto; discriminate).
  all: try (apply G; auto; discriminate).
  all: try (destruct (G ltac:(discriminate) eq_refl i Hi); fail).
Qed.

Theorem good_reachable d r cs : good (fst (run d (init r) cs)).
Proof.
  assert (Gen : forall cs s, good s -> good (fst (run d s cs))).
  { induction cs0 as [|c cs0 IH]; intros s G; cbn [run]; [exact G|].
    destruct (step d s c) as [s1 o] eqn:E. specialize (IH s1 (good_step _ _ _ _ _ G E)).
    destruct (run d s1 cs0). exact IH. }
  apply Gen. apply good_init.
Qed.

(* the totality statement for every reachable state *)
Corollary receive_total_reachable d r cs data s' o :
  receive d (fst (run d (init r) cs)) data = (s', o) ->
  (exists ms, o = ORetMsgs ms) \/ (exists p, o = OProtoErr p).
Proof. apply receive_total. apply good_reachable. Qed.
