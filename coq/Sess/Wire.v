(* C10: refused calls have no wire effect; a server answers only outstanding requests. *)
From Coq Require Import ZArith NArith List Bool Lia.
From Coq.Strings Require Import Byte.
From SV Require Import Base.Bytes Base.Py Gen.Generated Asn1.Model Msg.Types Msg.Encode Msg.Decode
  Sess.Model Sess.Basic Sess.Send Sess.Drain.
Import ListNotations.
Local Open Scope Z_scope.

Definition is_send_call (c : call) : bool :=
  match c with Receive _ | Drain _ => false | _ => true end.

(* a call of the right class for the session's role, with enum arguments the API accepts *)
Definition call_fits (r : role) (c : call) : bool :=
  match r, c with
  | Client, (CBind _ _ _ | CExtended _ _ _) => true
  | Client, CSearch _ sc de _ _ _ _ _ _ => is_ok (enum_member sc search_scopes) && is_ok (enum_member de deref_policies)
  | Server, (SBindResponse _ _ _ _ _ _ | SExtendedResponse _ _ _ _ _ _ _ | SEntry _ _ _ _ | SReference _ _ _ | SDone _ _ _ _ _) => true
  | _, Unbind => true
  | _, _ => false
  end.

Theorem refused_call_leaves_stream d s c s' :
  step d s c = (s', OLdapErr) -> s_out s' = s_out s.
Proof.
  intros H. apply step_stream in H. unfold sent_of in H. simpl in H.
  destruct (msg_of_call s c); simpl in H; now rewrite app_nil_r in H.
Qed.

Theorem send_call_outcomes d s c s' o :
  call_fits (s_role s) c = true -> step d s c = (s', o) ->
  match o with ORetId _ | ORetNone | OLdapErr => True | _ => False end.
Proof.
  unfold step. destruct (s_role s) eqn:R; destruct c; simpl; try discriminate; intros F.
  all: try (apply andb_true_iff in F as [F1 F2];
            destruct (enum_member scope search_scopes); [|discriminate];
            destruct (enum_member deref deref_policies); [|discriminate]).
  all: unfold ret;
    repeat match goal with
           | |- context [match ?x with _ => _ end] => destruct x
           | |- context [if ?b then _ else _] => destruct b
           end; intros H; inversion H; exact I.
Qed.

Definition response_id (c : call) : option Z :=
  match c with
  | SBindResponse id _ _ _ _ _ | SExtendedResponse id _ _ _ _ _ _ | SEntry id _ _ _ | SReference id _ _ | SDone id _ _ _ _ => Some id
  | _ => None
  end.
Definition is_final_response (c : call) : bool :=
  match c with SEntry _ _ _ _ | SReference _ _ _ => false | _ => true end.

Theorem server_answers_only_outstanding d s c s' i id :
  s_role s = Server -> response_id c = Some id -> step d s c = (s', ORetId i) ->
  i = id /\ In id (s_outstanding s) /\
  (is_final_response c = true -> ~ In id (s_outstanding s')) /\
  (is_final_response c = false -> In id (s_outstanding s')).
Proof.
  intros R RI. unfold step. rewrite R. destruct c; simpl in RI; try discriminate; injection RI as <-.
  all: unfold ret; destruct (server_send s _) as [s1 [j|]] eqn:E; intros H; inversion H; subst; clear H;
    apply server_send_some in E; simpl in E; decompose [and] E; clear E; subst.
  all: match goal with Hin : _ <> KUnbind -> In _ _ |- _ => specialize (Hin ltac:(discriminate)) end.
  all: repeat split; auto; simpl; try discriminate; intros _.
  all: try (destruct (_ =? _)); try (destruct (is_notice_name _)); simpl;
       match goal with Ho : s_outstanding _ = _ |- _ => rewrite Ho end;
       try (intros C; apply zdel_in in C; destruct C as [_ C]; congruence); assumption.
Qed.

Lemma server_send_not_outstanding s m :
  kind_of (m_op m) <> KUnbind -> ~ In (m_id m) (s_outstanding s) -> snd (server_send s m) = None.
Proof.
  intros K NI. unfold server_send. destruct (base_send s m) as [s1 [i|]] eqn:B; [|reflexivity].
  apply base_send_some in B. destruct B as (-> & _ & _ & _ & Hos & _).
  destruct (zmem (m_id m) (s_outstanding s1)) eqn:Z.
  - apply zmem_in in Z. rewrite Hos in Z. contradiction.
  - destruct (kind_of (m_op m)); try reflexivity. congruence.
Qed.

(* hence a second response after a final one (or any response to an unknown id) is refused *)
Theorem response_to_non_outstanding_refused d s c id s' o :
  s_role s = Server -> response_id c = Some id -> ~ In id (s_outstanding s) ->
  step d s c = (s', o) -> o = OLdapErr /\ s_out s' = s_out s.
Proof.
  intros R RI NI H. assert (o = OLdapErr).
  { revert H. unfold step. rewrite R. destruct c; simpl in RI; try discriminate; injection RI as <-.
    all: unfold ret;
      match goal with |- context [server_send ?s0 ?m] =>
        pose proof (server_send_not_outstanding s0 m ltac:(simpl; discriminate) NI) as Q;
        destruct (server_send s0 m) as [s1 [j|]]; simpl in Q; [discriminate|] end;
      intros H; now inversion H. }
  subst. split; [reflexivity|]. eapply refused_call_leaves_stream; eauto.
Qed.
