
(** val xorb : bool -> bool -> bool **)

let xorb b1 b2 =
  if b1 then if b2 then false else true else b2

(** val negb : bool -> bool **)

let negb = function
| true -> false
| false -> true

type nat =
| O
| S of nat

(** val option_map : ('a1 -> 'a2) -> 'a1 option -> 'a2 option **)

let option_map f = function
| Some a -> Some (f a)
| None -> None

type ('a, 'b) sum =
| Inl of 'a
| Inr of 'b

(** val fst : ('a1 * 'a2) -> 'a1 **)

let fst = function
| (x, _) -> x

(** val snd : ('a1 * 'a2) -> 'a2 **)

let snd = function
| (_, y) -> y

(** val length : 'a1 list -> nat **)

let rec length = function
| [] -> O
| _ :: l' -> S (length l')

(** val app : 'a1 list -> 'a1 list -> 'a1 list **)

let rec app l m =
  match l with
  | [] -> m
  | a :: l1 -> a :: (app l1 m)

type comparison =
| Eq
| Lt
| Gt

(** val compOpp : comparison -> comparison **)

let compOpp = function
| Eq -> Eq
| Lt -> Gt
| Gt -> Lt

module Coq__1 = struct
 (** val add : nat -> nat -> nat **)
 let rec add n0 m =
   match n0 with
   | O -> m
   | S p -> S (add p m)
end
include Coq__1

(** val mul : nat -> nat -> nat **)

let rec mul n0 m =
  match n0 with
  | O -> O
  | S p -> add m (mul p m)

(** val sub : nat -> nat -> nat **)

let rec sub n0 m =
  match n0 with
  | O -> n0
  | S k -> (match m with
            | O -> n0
            | S l -> sub k l)

type byte =
| X00
| X01
| X02
| X03
| X04
| X05
| X06
| X07
| X08
| X09
| X0a
| X0b
| X0c
| X0d
| X0e
| X0f
| X10
| X11
| X12
| X13
| X14
| X15
| X16
| X17
| X18
| X19
| X1a
| X1b
| X1c
| X1d
| X1e
| X1f
| X20
| X21
| X22
| X23
| X24
| X25
| X26
| X27
| X28
| X29
| X2a
| X2b
| X2c
| X2d
| X2e
| X2f
| X30
| X31
| X32
| X33
| X34
| X35
| X36
| X37
| X38
| X39
| X3a
| X3b
| X3c
| X3d
| X3e
| X3f
| X40
| X41
| X42
| X43
| X44
| X45
| X46
| X47
| X48
| X49
| X4a
| X4b
| X4c
| X4d
| X4e
| X4f
| X50
| X51
| X52
| X53
| X54
| X55
| X56
| X57
| X58
| X59
| X5a
| X5b
| X5c
| X5d
| X5e
| X5f
| X60
| X61
| X62
| X63
| X64
| X65
| X66
| X67
| X68
| X69
| X6a
| X6b
| X6c
| X6d
| X6e
| X6f
| X70
| X71
| X72
| X73
| X74
| X75
| X76
| X77
| X78
| X79
| X7a
| X7b
| X7c
| X7d
| X7e
| X7f
| X80
| X81
| X82
| X83
| X84
| X85
| X86
| X87
| X88
| X89
| X8a
| X8b
| X8c
| X8d
| X8e
| X8f
| X90
| X91
| X92
| X93
| X94
| X95
| X96
| X97
| X98
| X99
| X9a
| X9b
| X9c
| X9d
| X9e
| X9f
| Xa0
| Xa1
| Xa2
| Xa3
| Xa4
| Xa5
| Xa6
| Xa7
| Xa8
| Xa9
| Xaa
| Xab
| Xac
| Xad
| Xae
| Xaf
| Xb0
| Xb1
| Xb2
| Xb3
| Xb4
| Xb5
| Xb6
| Xb7
| Xb8
| Xb9
| Xba
| Xbb
| Xbc
| Xbd
| Xbe
| Xbf
| Xc0
| Xc1
| Xc2
| Xc3
| Xc4
| Xc5
| Xc6
| Xc7
| Xc8
| Xc9
| Xca
| Xcb
| Xcc
| Xcd
| Xce
| Xcf
| Xd0
| Xd1
| Xd2
| Xd3
| Xd4
| Xd5
| Xd6
| Xd7
| Xd8
| Xd9
| Xda
| Xdb
| Xdc
| Xdd
| Xde
| Xdf
| Xe0
| Xe1
| Xe2
| Xe3
| Xe4
| Xe5
| Xe6
| Xe7
| Xe8
| Xe9
| Xea
| Xeb
| Xec
| Xed
| Xee
| Xef
| Xf0
| Xf1
| Xf2
| Xf3
| Xf4
| Xf5
| Xf6
| Xf7
| Xf8
| Xf9
| Xfa
| Xfb
| Xfc
| Xfd
| Xfe
| Xff

(** val to_bits :
    byte -> bool * (bool * (bool * (bool * (bool * (bool * (bool * bool)))))) **)

let to_bits = function
| X00 -> (false, (false, (false, (false, (false, (false, (false, false)))))))
| X01 -> (true, (false, (false, (false, (false, (false, (false, false)))))))
| X02 -> (false, (true, (false, (false, (false, (false, (false, false)))))))
| X03 -> (true, (true, (false, (false, (false, (false, (false, false)))))))
| X04 -> (false, (false, (true, (false, (false, (false, (false, false)))))))
| X05 -> (true, (false, (true, (false, (false, (false, (false, false)))))))
| X06 -> (false, (true, (true, (false, (false, (false, (false, false)))))))
| X07 -> (true, (true, (true, (false, (false, (false, (false, false)))))))
| X08 -> (false, (false, (false, (true, (false, (false, (false, false)))))))
| X09 -> (true, (false, (false, (true, (false, (false, (false, false)))))))
| X0a -> (false, (true, (false, (true, (false, (false, (false, false)))))))
| X0b -> (true, (true, (false, (true, (false, (false, (false, false)))))))
| X0c -> (false, (false, (true, (true, (false, (false, (false, false)))))))
| X0d -> (true, (false, (true, (true, (false, (false, (false, false)))))))
| X0e -> (false, (true, (true, (true, (false, (false, (false, false)))))))
| X0f -> (true, (true, (true, (true, (false, (false, (false, false)))))))
| X10 -> (false, (false, (false, (false, (true, (false, (false, false)))))))
| X11 -> (true, (false, (false, (false, (true, (false, (false, false)))))))
| X12 -> (false, (true, (false, (false, (true, (false, (false, false)))))))
| X13 -> (true, (true, (false, (false, (true, (false, (false, false)))))))
| X14 -> (false, (false, (true, (false, (true, (false, (false, false)))))))
| X15 -> (true, (false, (true, (false, (true, (false, (false, false)))))))
| X16 -> (false, (true, (true, (false, (true, (false, (false, false)))))))
| X17 -> (true, (true, (true, (false, (true, (false, (false, false)))))))
| X18 -> (false, (false, (false, (true, (true, (false, (false, false)))))))
| X19 -> (true, (false, (false, (true, (true, (false, (false, false)))))))
| X1a -> (false, (true, (false, (true, (true, (false, (false, false)))))))
| X1b -> (true, (true, (false, (true, (true, (false, (false, false)))))))
| X1c -> (false, (false, (true, (true, (true, (false, (false, false)))))))
| X1d -> (true, (false, (true, (true, (true, (false, (false, false)))))))
| X1e -> (false, (true, (true, (true, (true, (false, (false, false)))))))
| X1f -> (true, (true, (true, (true, (true, (false, (false, false)))))))
| X20 -> (false, (false, (false, (false, (false, (true, (false, false)))))))
| X21 -> (true, (false, (false, (false, (false, (true, (false, false)))))))
| X22 -> (false, (true, (false, (false, (false, (true, (false, false)))))))
| X23 -> (true, (true, (false, (false, (false, (true, (false, false)))))))
| X24 -> (false, (false, (true, (false, (false, (true, (false, false)))))))
| X25 -> (true, (false, (true, (false, (false, (true, (false, false)))))))
| X26 -> (false, (true, (true, (false, (false, (true, (false, false)))))))
| X27 -> (true, (true, (true, (false, (false, (true, (false, false)))))))
| X28 -> (false, (false, (false, (true, (false, (true, (false, false)))))))
| X29 -> (true, (false, (false, (true, (false, (true, (false, false)))))))
| X2a -> (false, (true, (false, (true, (false, (true, (false, false)))))))
| X2b -> (true, (true, (false, (true, (false, (true, (false, false)))))))
| X2c -> (false, (false, (true, (true, (false, (true, (false, false)))))))
| X2d -> (true, (false, (true, (true, (false, (true, (false, false)))))))
| X2e -> (false, (true, (true, (true, (false, (true, (false, false)))))))
| X2f -> (true, (true, (true, (true, (false, (true, (false, false)))))))
| X30 -> (false, (false, (false, (false, (true, (true, (false, false)))))))
| X31 -> (true, (false, (false, (false, (true, (true, (false, false)))))))
| X32 -> (false, (true, (false, (false, (true, (true, (false, false)))))))
| X33 -> (true, (true, (false, (false, (true, (true, (false, false)))))))
| X34 -> (false, (false, (true, (false, (true, (true, (false, false)))))))
| X35 -> (true, (false, (true, (false, (true, (true, (false, false)))))))
| X36 -> (false, (true, (true, (false, (true, (true, (false, false)))))))
| X37 -> (true, (true, (true, (false, (true, (true, (false, false)))))))
| X38 -> (false, (false, (false, (true, (true, (true, (false, false)))))))
| X39 -> (true, (false, (false, (true, (true, (true, (false, false)))))))
| X3a -> (false, (true, (false, (true, (true, (true, (false, false)))))))
| X3b -> (true, (true, (false, (true, (true, (true, (false, false)))))))
| X3c -> (false, (false, (true, (true, (true, (true, (false, false)))))))
| X3d -> (true, (false, (true, (true, (true, (true, (false, false)))))))
| X3e -> (false, (true, (true, (true, (true, (true, (false, false)))))))
| X3f -> (true, (true, (true, (true, (true, (true, (false, false)))))))
| X40 -> (false, (false, (false, (false, (false, (false, (true, false)))))))
| X41 -> (true, (false, (false, (false, (false, (false, (true, false)))))))
| X42 -> (false, (true, (false, (false, (false, (false, (true, false)))))))
| X43 -> (true, (true, (false, (false, (false, (false, (true, false)))))))
| X44 -> (false, (false, (true, (false, (false, (false, (true, false)))))))
| X45 -> (true, (false, (true, (false, (false, (false, (true, false)))))))
| X46 -> (false, (true, (true, (false, (false, (false, (true, false)))))))
| X47 -> (true, (true, (true, (false, (false, (false, (true, false)))))))
| X48 -> (false, (false, (false, (true, (false, (false, (true, false)))))))
| X49 -> (true, (false, (false, (true, (false, (false, (true, false)))))))
| X4a -> (false, (true, (false, (true, (false, (false, (true, false)))))))
| X4b -> (true, (true, (false, (true, (false, (false, (true, false)))))))
| X4c -> (false, (false, (true, (true, (false, (false, (true, false)))))))
| X4d -> (true, (false, (true, (true, (false, (false, (true, false)))))))
| X4e -> (false, (true, (true, (true, (false, (false, (true, false)))))))
| X4f -> (true, (true, (true, (true, (false, (false, (true, false)))))))
| X50 -> (false, (false, (false, (false, (true, (false, (true, false)))))))
| X51 -> (true, (false, (false, (false, (true, (false, (true, false)))))))
| X52 -> (false, (true, (false, (false, (true, (false, (true, false)))))))
| X53 -> (true, (true, (false, (false, (true, (false, (true, false)))))))
| X54 -> (false, (false, (true, (false, (true, (false, (true, false)))))))
| X55 -> (true, (false, (true, (false, (true, (false, (true, false)))))))
| X56 -> (false, (true, (true, (false, (true, (false, (true, false)))))))
| X57 -> (true, (true, (true, (false, (true, (false, (true, false)))))))
| X58 -> (false, (false, (false, (true, (true, (false, (true, false)))))))
| X59 -> (true, (false, (false, (true, (true, (false, (true, false)))))))
| X5a -> (false, (true, (false, (true, (true, (false, (true, false)))))))
| X5b -> (true, (true, (false, (true, (true, (false, (true, false)))))))
| X5c -> (false, (false, (true, (true, (true, (false, (true, false)))))))
| X5d -> (true, (false, (true, (true, (true, (false, (true, false)))))))
| X5e -> (false, (true, (true, (true, (true, (false, (true, false)))))))
| X5f -> (true, (true, (true, (true, (true, (false, (true, false)))))))
| X60 -> (false, (false, (false, (false, (false, (true, (true, false)))))))
| X61 -> (true, (false, (false, (false, (false, (true, (true, false)))))))
| X62 -> (false, (true, (false, (false, (false, (true, (true, false)))))))
| X63 -> (true, (true, (false, (false, (false, (true, (true, false)))))))
| X64 -> (false, (false, (true, (false, (false, (true, (true, false)))))))
| X65 -> (true, (false, (true, (false, (false, (true, (true, false)))))))
| X66 -> (false, (true, (true, (false, (false, (true, (true, false)))))))
| X67 -> (true, (true, (true, (false, (false, (true, (true, false)))))))
| X68 -> (false, (false, (false, (true, (false, (true, (true, false)))))))
| X69 -> (true, (false, (false, (true, (false, (true, (true, false)))))))
| X6a -> (false, (true, (false, (true, (false, (true, (true, false)))))))
| X6b -> (true, (true, (false, (true, (false, (true, (true, false)))))))
| X6c -> (false, (false, (true, (true, (false, (true, (true, false)))))))
| X6d -> (true, (false, (true, (true, (false, (true, (true, false)))))))
| X6e -> (false, (true, (true, (true, (false, (true, (true, false)))))))
| X6f -> (true, (true, (true, (true, (false, (true, (true, false)))))))
| X70 -> (false, (false, (false, (false, (true, (true, (true, false)))))))
| X71 -> (true, (false, (false, (false, (true, (true, (true, false)))))))
| X72 -> (false, (true, (false, (false, (true, (true, (true, false)))))))
| X73 -> (true, (true, (false, (false, (true, (true, (true, false)))))))
| X74 -> (false, (false, (true, (false, (true, (true, (true, false)))))))
| X75 -> (true, (false, (true, (false, (true, (true, (true, false)))))))
| X76 -> (false, (true, (true, (false, (true, (true, (true, false)))))))
| X77 -> (true, (true, (true, (false, (true, (true, (true, false)))))))
| X78 -> (false, (false, (false, (true, (true, (true, (true, false)))))))
| X79 -> (true, (false, (false, (true, (true, (true, (true, false)))))))
| X7a -> (false, (true, (false, (true, (true, (true, (true, false)))))))
| X7b -> (true, (true, (false, (true, (true, (true, (true, false)))))))
| X7c -> (false, (false, (true, (true, (true, (true, (true, false)))))))
| X7d -> (true, (false, (true, (true, (true, (true, (true, false)))))))
| X7e -> (false, (true, (true, (true, (true, (true, (true, false)))))))
| X7f -> (true, (true, (true, (true, (true, (true, (true, false)))))))
| X80 -> (false, (false, (false, (false, (false, (false, (false, true)))))))
| X81 -> (true, (false, (false, (false, (false, (false, (false, true)))))))
| X82 -> (false, (true, (false, (false, (false, (false, (false, true)))))))
| X83 -> (true, (true, (false, (false, (false, (false, (false, true)))))))
| X84 -> (false, (false, (true, (false, (false, (false, (false, true)))))))
| X85 -> (true, (false, (true, (false, (false, (false, (false, true)))))))
| X86 -> (false, (true, (true, (false, (false, (false, (false, true)))))))
| X87 -> (true, (true, (true, (false, (false, (false, (false, true)))))))
| X88 -> (false, (false, (false, (true, (false, (false, (false, true)))))))
| X89 -> (true, (false, (false, (true, (false, (false, (false, true)))))))
| X8a -> (false, (true, (false, (true, (false, (false, (false, true)))))))
| X8b -> (true, (true, (false, (true, (false, (false, (false, true)))))))
| X8c -> (false, (false, (true, (true, (false, (false, (false, true)))))))
| X8d -> (true, (false, (true, (true, (false, (false, (false, true)))))))
| X8e -> (false, (true, (true, (true, (false, (false, (false, true)))))))
| X8f -> (true, (true, (true, (true, (false, (false, (false, true)))))))
| X90 -> (false, (false, (false, (false, (true, (false, (false, true)))))))
| X91 -> (true, (false, (false, (false, (true, (false, (false, true)))))))
| X92 -> (false, (true, (false, (false, (true, (false, (false, true)))))))
| X93 -> (true, (true, (false, (false, (true, (false, (false, true)))))))
| X94 -> (false, (false, (true, (false, (true, (false, (false, true)))))))
| X95 -> (true, (false, (true, (false, (true, (false, (false, true)))))))
| X96 -> (false, (true, (true, (false, (true, (false, (false, true)))))))
| X97 -> (true, (true, (true, (false, (true, (false, (false, true)))))))
| X98 -> (false, (false, (false, (true, (true, (false, (false, true)))))))
| X99 -> (true, (false, (false, (true, (true, (false, (false, true)))))))
| X9a -> (false, (true, (false, (true, (true, (false, (false, true)))))))
| X9b -> (true, (true, (false, (true, (true, (false, (false, true)))))))
| X9c -> (false, (false, (true, (true, (true, (false, (false, true)))))))
| X9d -> (true, (false, (true, (true, (true, (false, (false, true)))))))
| X9e -> (false, (true, (true, (true, (true, (false, (false, true)))))))
| X9f -> (true, (true, (true, (true, (true, (false, (false, true)))))))
| Xa0 -> (false, (false, (false, (false, (false, (true, (false, true)))))))
| Xa1 -> (true, (false, (false, (false, (false, (true, (false, true)))))))
| Xa2 -> (false, (true, (false, (false, (false, (true, (false, true)))))))
| Xa3 -> (true, (true, (false, (false, (false, (true, (false, true)))))))
| Xa4 -> (false, (false, (true, (false, (false, (true, (false, true)))))))
| Xa5 -> (true, (false, (true, (false, (false, (true, (false, true)))))))
| Xa6 -> (false, (true, (true, (false, (false, (true, (false, true)))))))
| Xa7 -> (true, (true, (true, (false, (false, (true, (false, true)))))))
| Xa8 -> (false, (false, (false, (true, (false, (true, (false, true)))))))
| Xa9 -> (true, (false, (false, (true, (false, (true, (false, true)))))))
| Xaa -> (false, (true, (false, (true, (false, (true, (false, true)))))))
| Xab -> (true, (true, (false, (true, (false, (true, (false, true)))))))
| Xac -> (false, (false, (true, (true, (false, (true, (false, true)))))))
| Xad -> (true, (false, (true, (true, (false, (true, (false, true)))))))
| Xae -> (false, (true, (true, (true, (false, (true, (false, true)))))))
| Xaf -> (true, (true, (true, (true, (false, (true, (false, true)))))))
| Xb0 -> (false, (false, (false, (false, (true, (true, (false, true)))))))
| Xb1 -> (true, (false, (false, (false, (true, (true, (false, true)))))))
| Xb2 -> (false, (true, (false, (false, (true, (true, (false, true)))))))
| Xb3 -> (true, (true, (false, (false, (true, (true, (false, true)))))))
| Xb4 -> (false, (false, (true, (false, (true, (true, (false, true)))))))
| Xb5 -> (true, (false, (true, (false, (true, (true, (false, true)))))))
| Xb6 -> (false, (true, (true, (false, (true, (true, (false, true)))))))
| Xb7 -> (true, (true, (true, (false, (true, (true, (false, true)))))))
| Xb8 -> (false, (false, (false, (true, (true, (true, (false, true)))))))
| Xb9 -> (true, (false, (false, (true, (true, (true, (false, true)))))))
| Xba -> (false, (true, (false, (true, (true, (true, (false, true)))))))
| Xbb -> (true, (true, (false, (true, (true, (true, (false, true)))))))
| Xbc -> (false, (false, (true, (true, (true, (true, (false, true)))))))
| Xbd -> (true, (false, (true, (true, (true, (true, (false, true)))))))
| Xbe -> (false, (true, (true, (true, (true, (true, (false, true)))))))
| Xbf -> (true, (true, (true, (true, (true, (true, (false, true)))))))
| Xc0 -> (false, (false, (false, (false, (false, (false, (true, true)))))))
| Xc1 -> (true, (false, (false, (false, (false, (false, (true, true)))))))
| Xc2 -> (false, (true, (false, (false, (false, (false, (true, true)))))))
| Xc3 -> (true, (true, (false, (false, (false, (false, (true, true)))))))
| Xc4 -> (false, (false, (true, (false, (false, (false, (true, true)))))))
| Xc5 -> (true, (false, (true, (false, (false, (false, (true, true)))))))
| Xc6 -> (false, (true, (true, (false, (false, (false, (true, true)))))))
| Xc7 -> (true, (true, (true, (false, (false, (false, (true, true)))))))
| Xc8 -> (false, (false, (false, (true, (false, (false, (true, true)))))))
| Xc9 -> (true, (false, (false, (true, (false, (false, (true, true)))))))
| Xca -> (false, (true, (false, (true, (false, (false, (true, true)))))))
| Xcb -> (true, (true, (false, (true, (false, (false, (true, true)))))))
| Xcc -> (false, (false, (true, (true, (false, (false, (true, true)))))))
| Xcd -> (true, (false, (true, (true, (false, (false, (true, true)))))))
| Xce -> (false, (true, (true, (true, (false, (false, (true, true)))))))
| Xcf -> (true, (true, (true, (true, (false, (false, (true, true)))))))
| Xd0 -> (false, (false, (false, (false, (true, (false, (true, true)))))))
| Xd1 -> (true, (false, (false, (false, (true, (false, (true, true)))))))
| Xd2 -> (false, (true, (false, (false, (true, (false, (true, true)))))))
| Xd3 -> (true, (true, (false, (false, (true, (false, (true, true)))))))
| Xd4 -> (false, (false, (true, (false, (true, (false, (true, true)))))))
| Xd5 -> (true, (false, (true, (false, (true, (false, (true, true)))))))
| Xd6 -> (false, (true, (true, (false, (true, (false, (true, true)))))))
| Xd7 -> (true, (true, (true, (false, (true, (false, (true, true)))))))
| Xd8 -> (false, (false, (false, (true, (true, (false, (true, true)))))))
| Xd9 -> (true, (false, (false, (true, (true, (false, (true, true)))))))
| Xda -> (false, (true, (false, (true, (true, (false, (true, true)))))))
| Xdb -> (true, (true, (false, (true, (true, (false, (true, true)))))))
| Xdc -> (false, (false, (true, (true, (true, (false, (true, true)))))))
| Xdd -> (true, (false, (true, (true, (true, (false, (true, true)))))))
| Xde -> (false, (true, (true, (true, (true, (false, (true, true)))))))
| Xdf -> (true, (true, (true, (true, (true, (false, (true, true)))))))
| Xe0 -> (false, (false, (false, (false, (false, (true, (true, true)))))))
| Xe1 -> (true, (false, (false, (false, (false, (true, (true, true)))))))
| Xe2 -> (false, (true, (false, (false, (false, (true, (true, true)))))))
| Xe3 -> (true, (true, (false, (false, (false, (true, (true, true)))))))
| Xe4 -> (false, (false, (true, (false, (false, (true, (true, true)))))))
| Xe5 -> (true, (false, (true, (false, (false, (true, (true, true)))))))
| Xe6 -> (false, (true, (true, (false, (false, (true, (true, true)))))))
| Xe7 -> (true, (true, (true, (false, (false, (true, (true, true)))))))
| Xe8 -> (false, (false, (false, (true, (false, (true, (true, true)))))))
| Xe9 -> (true, (false, (false, (true, (false, (true, (true, true)))))))
| Xea -> (false, (true, (false, (true, (false, (true, (true, true)))))))
| Xeb -> (true, (true, (false, (true, (false, (true, (true, true)))))))
| Xec -> (false, (false, (true, (true, (false, (true, (true, true)))))))
| Xed -> (true, (false, (true, (true, (false, (true, (true, true)))))))
| Xee -> (false, (true, (true, (true, (false, (true, (true, true)))))))
| Xef -> (true, (true, (true, (true, (false, (true, (true, true)))))))
| Xf0 -> (false, (false, (false, (false, (true, (true, (true, true)))))))
| Xf1 -> (true, (false, (false, (false, (true, (true, (true, true)))))))
| Xf2 -> (false, (true, (false, (false, (true, (true, (true, true)))))))
| Xf3 -> (true, (true, (false, (false, (true, (true, (true, true)))))))
| Xf4 -> (false, (false, (true, (false, (true, (true, (true, true)))))))
| Xf5 -> (true, (false, (true, (false, (true, (true, (true, true)))))))
| Xf6 -> (false, (true, (true, (false, (true, (true, (true, true)))))))
| Xf7 -> (true, (true, (true, (false, (true, (true, (true, true)))))))
| Xf8 -> (false, (false, (false, (true, (true, (true, (true, true)))))))
| Xf9 -> (true, (false, (false, (true, (true, (true, (true, true)))))))
| Xfa -> (false, (true, (false, (true, (true, (true, (true, true)))))))
| Xfb -> (true, (true, (false, (true, (true, (true, (true, true)))))))
| Xfc -> (false, (false, (true, (true, (true, (true, (true, true)))))))
| Xfd -> (true, (false, (true, (true, (true, (true, (true, true)))))))
| Xfe -> (false, (true, (true, (true, (true, (true, (true, true)))))))
| Xff -> (true, (true, (true, (true, (true, (true, (true, true)))))))

type positive =
| XI of positive
| XO of positive
| XH

type n =
| N0
| Npos of positive

type z =
| Z0
| Zpos of positive
| Zneg of positive

(** val eqb : bool -> bool -> bool **)

let eqb b1 b2 =
  if b1 then b2 else if b2 then false else true

module Nat =
 struct
  (** val eqb : nat -> nat -> bool **)

  let rec eqb n0 m =
    match n0 with
    | O -> (match m with
            | O -> true
            | S _ -> false)
    | S n' -> (match m with
               | O -> false
               | S m' -> eqb n' m')
 end

module Pos =
 struct
  type mask =
  | IsNul
  | IsPos of positive
  | IsNeg
 end

module Coq_Pos =
 struct
  (** val succ : positive -> positive **)

  let rec succ = function
  | XI p -> XO (succ p)
  | XO p -> XI p
  | XH -> XO XH

  (** val add : positive -> positive -> positive **)

  let rec add x y =
    match x with
    | XI p ->
      (match y with
       | XI q -> XO (add_carry p q)
       | XO q -> XI (add p q)
       | XH -> XO (succ p))
    | XO p ->
      (match y with
       | XI q -> XI (add p q)
       | XO q -> XO (add p q)
       | XH -> XI p)
    | XH -> (match y with
             | XI q -> XO (succ q)
             | XO q -> XI q
             | XH -> XO XH)

  (** val add_carry : positive -> positive -> positive **)

  and add_carry x y =
    match x with
    | XI p ->
      (match y with
       | XI q -> XI (add_carry p q)
       | XO q -> XO (add_carry p q)
       | XH -> XI (succ p))
    | XO p ->
      (match y with
       | XI q -> XO (add_carry p q)
       | XO q -> XI (add p q)
       | XH -> XO (succ p))
    | XH ->
      (match y with
       | XI q -> XI (succ q)
       | XO q -> XO (succ q)
       | XH -> XI XH)

  (** val pred_double : positive -> positive **)

  let rec pred_double = function
  | XI p -> XI (XO p)
  | XO p -> XI (pred_double p)
  | XH -> XH

  type mask = Pos.mask =
  | IsNul
  | IsPos of positive
  | IsNeg

  (** val succ_double_mask : mask -> mask **)

  let succ_double_mask = function
  | IsNul -> IsPos XH
  | IsPos p -> IsPos (XI p)
  | IsNeg -> IsNeg

  (** val double_mask : mask -> mask **)

  let double_mask = function
  | IsPos p -> IsPos (XO p)
  | x0 -> x0

  (** val double_pred_mask : positive -> mask **)

  let double_pred_mask = function
  | XI p -> IsPos (XO (XO p))
  | XO p -> IsPos (XO (pred_double p))
  | XH -> IsNul

  (** val sub_mask : positive -> positive -> mask **)

  let rec sub_mask x y =
    match x with
    | XI p ->
      (match y with
       | XI q -> double_mask (sub_mask p q)
       | XO q -> succ_double_mask (sub_mask p q)
       | XH -> IsPos (XO p))
    | XO p ->
      (match y with
       | XI q -> succ_double_mask (sub_mask_carry p q)
       | XO q -> double_mask (sub_mask p q)
       | XH -> IsPos (pred_double p))
    | XH -> (match y with
             | XH -> IsNul
             | _ -> IsNeg)

  (** val sub_mask_carry : positive -> positive -> mask **)

  and sub_mask_carry x y =
    match x with
    | XI p ->
      (match y with
       | XI q -> succ_double_mask (sub_mask_carry p q)
       | XO q -> double_mask (sub_mask p q)
       | XH -> IsPos (pred_double p))
    | XO p ->
      (match y with
       | XI q -> double_mask (sub_mask_carry p q)
       | XO q -> succ_double_mask (sub_mask_carry p q)
       | XH -> double_pred_mask p)
    | XH -> IsNeg

  (** val mul : positive -> positive -> positive **)

  let rec mul x y =
    match x with
    | XI p -> add y (XO (mul p y))
    | XO p -> XO (mul p y)
    | XH -> y

  (** val iter : ('a1 -> 'a1) -> 'a1 -> positive -> 'a1 **)

  let rec iter f x = function
  | XI n' -> f (iter f (iter f x n') n')
  | XO n' -> iter f (iter f x n') n'
  | XH -> f x

  (** val size : positive -> positive **)

  let rec size = function
  | XI p0 -> succ (size p0)
  | XO p0 -> succ (size p0)
  | XH -> XH

  (** val compare_cont : comparison -> positive -> positive -> comparison **)

  let rec compare_cont r x y =
    match x with
    | XI p ->
      (match y with
       | XI q -> compare_cont r p q
       | XO q -> compare_cont Gt p q
       | XH -> Gt)
    | XO p ->
      (match y with
       | XI q -> compare_cont Lt p q
       | XO q -> compare_cont r p q
       | XH -> Gt)
    | XH -> (match y with
             | XH -> r
             | _ -> Lt)

  (** val compare : positive -> positive -> comparison **)

  let compare =
    compare_cont Eq

  (** val eqb : positive -> positive -> bool **)

  let rec eqb p q =
    match p with
    | XI p0 -> (match q with
                | XI q0 -> eqb p0 q0
                | _ -> false)
    | XO p0 -> (match q with
                | XO q0 -> eqb p0 q0
                | _ -> false)
    | XH -> (match q with
             | XH -> true
             | _ -> false)

  (** val iter_op : ('a1 -> 'a1 -> 'a1) -> positive -> 'a1 -> 'a1 **)

  let rec iter_op op0 p a =
    match p with
    | XI p0 -> op0 a (iter_op op0 p0 (op0 a a))
    | XO p0 -> iter_op op0 p0 (op0 a a)
    | XH -> a

  (** val to_nat : positive -> nat **)

  let to_nat x =
    iter_op Coq__1.add x (S O)

  (** val of_succ_nat : nat -> positive **)

  let rec of_succ_nat = function
  | O -> XH
  | S x -> succ (of_succ_nat x)
 end

module N =
 struct
  (** val succ_double : n -> n **)

  let succ_double = function
  | N0 -> Npos XH
  | Npos p -> Npos (XI p)

  (** val double : n -> n **)

  let double = function
  | N0 -> N0
  | Npos p -> Npos (XO p)

  (** val add : n -> n -> n **)

  let add n0 m =
    match n0 with
    | N0 -> m
    | Npos p -> (match m with
                 | N0 -> n0
                 | Npos q -> Npos (Coq_Pos.add p q))

  (** val sub : n -> n -> n **)

  let sub n0 m =
    match n0 with
    | N0 -> N0
    | Npos n' ->
      (match m with
       | N0 -> n0
       | Npos m' ->
         (match Coq_Pos.sub_mask n' m' with
          | Coq_Pos.IsPos p -> Npos p
          | _ -> N0))

  (** val mul : n -> n -> n **)

  let mul n0 m =
    match n0 with
    | N0 -> N0
    | Npos p -> (match m with
                 | N0 -> N0
                 | Npos q -> Npos (Coq_Pos.mul p q))

  (** val compare : n -> n -> comparison **)

  let compare n0 m =
    match n0 with
    | N0 -> (match m with
             | N0 -> Eq
             | Npos _ -> Lt)
    | Npos n' -> (match m with
                  | N0 -> Gt
                  | Npos m' -> Coq_Pos.compare n' m')

  (** val eqb : n -> n -> bool **)

  let eqb n0 m =
    match n0 with
    | N0 -> (match m with
             | N0 -> true
             | Npos _ -> false)
    | Npos p -> (match m with
                 | N0 -> false
                 | Npos q -> Coq_Pos.eqb p q)

  (** val leb : n -> n -> bool **)

  let leb x y =
    match compare x y with
    | Gt -> false
    | _ -> true

  (** val ltb : n -> n -> bool **)

  let ltb x y =
    match compare x y with
    | Lt -> true
    | _ -> false

  (** val log2 : n -> n **)

  let log2 = function
  | N0 -> N0
  | Npos p0 ->
    (match p0 with
     | XI p -> Npos (Coq_Pos.size p)
     | XO p -> Npos (Coq_Pos.size p)
     | XH -> N0)

  (** val pos_div_eucl : positive -> n -> n * n **)

  let rec pos_div_eucl a b =
    match a with
    | XI a' ->
      let (q, r) = pos_div_eucl a' b in
      let r' = succ_double r in
      if leb b r' then ((succ_double q), (sub r' b)) else ((double q), r')
    | XO a' ->
      let (q, r) = pos_div_eucl a' b in
      let r' = double r in
      if leb b r' then ((succ_double q), (sub r' b)) else ((double q), r')
    | XH ->
      (match b with
       | N0 -> (N0, (Npos XH))
       | Npos p -> (match p with
                    | XH -> ((Npos XH), N0)
                    | _ -> (N0, (Npos XH))))

  (** val div_eucl : n -> n -> n * n **)

  let div_eucl a b =
    match a with
    | N0 -> (N0, N0)
    | Npos na -> (match b with
                  | N0 -> (N0, a)
                  | Npos _ -> pos_div_eucl na b)

  (** val div : n -> n -> n **)

  let div a b =
    fst (div_eucl a b)

  (** val modulo : n -> n -> n **)

  let modulo a b =
    snd (div_eucl a b)

  (** val to_nat : n -> nat **)

  let to_nat = function
  | N0 -> O
  | Npos p -> Coq_Pos.to_nat p

  (** val of_nat : nat -> n **)

  let of_nat = function
  | O -> N0
  | S n' -> Npos (Coq_Pos.of_succ_nat n')
 end

module Z =
 struct
  (** val double : z -> z **)

  let double = function
  | Z0 -> Z0
  | Zpos p -> Zpos (XO p)
  | Zneg p -> Zneg (XO p)

  (** val succ_double : z -> z **)

  let succ_double = function
  | Z0 -> Zpos XH
  | Zpos p -> Zpos (XI p)
  | Zneg p -> Zneg (Coq_Pos.pred_double p)

  (** val pred_double : z -> z **)

  let pred_double = function
  | Z0 -> Zneg XH
  | Zpos p -> Zpos (Coq_Pos.pred_double p)
  | Zneg p -> Zneg (XI p)

  (** val pos_sub : positive -> positive -> z **)

  let rec pos_sub x y =
    match x with
    | XI p ->
      (match y with
       | XI q -> double (pos_sub p q)
       | XO q -> succ_double (pos_sub p q)
       | XH -> Zpos (XO p))
    | XO p ->
      (match y with
       | XI q -> pred_double (pos_sub p q)
       | XO q -> double (pos_sub p q)
       | XH -> Zpos (Coq_Pos.pred_double p))
    | XH ->
      (match y with
       | XI q -> Zneg (XO q)
       | XO q -> Zneg (Coq_Pos.pred_double q)
       | XH -> Z0)

  (** val add : z -> z -> z **)

  let add x y =
    match x with
    | Z0 -> y
    | Zpos x' ->
      (match y with
       | Z0 -> x
       | Zpos y' -> Zpos (Coq_Pos.add x' y')
       | Zneg y' -> pos_sub x' y')
    | Zneg x' ->
      (match y with
       | Z0 -> x
       | Zpos y' -> pos_sub y' x'
       | Zneg y' -> Zneg (Coq_Pos.add x' y'))

  (** val opp : z -> z **)

  let opp = function
  | Z0 -> Z0
  | Zpos x0 -> Zneg x0
  | Zneg x0 -> Zpos x0

  (** val sub : z -> z -> z **)

  let sub m n0 =
    add m (opp n0)

  (** val mul : z -> z -> z **)

  let mul x y =
    match x with
    | Z0 -> Z0
    | Zpos x' ->
      (match y with
       | Z0 -> Z0
       | Zpos y' -> Zpos (Coq_Pos.mul x' y')
       | Zneg y' -> Zneg (Coq_Pos.mul x' y'))
    | Zneg x' ->
      (match y with
       | Z0 -> Z0
       | Zpos y' -> Zneg (Coq_Pos.mul x' y')
       | Zneg y' -> Zpos (Coq_Pos.mul x' y'))

  (** val pow_pos : z -> positive -> z **)

  let pow_pos z0 =
    Coq_Pos.iter (mul z0) (Zpos XH)

  (** val pow : z -> z -> z **)

  let pow x = function
  | Z0 -> Zpos XH
  | Zpos p -> pow_pos x p
  | Zneg _ -> Z0

  (** val compare : z -> z -> comparison **)

  let compare x y =
    match x with
    | Z0 -> (match y with
             | Z0 -> Eq
             | Zpos _ -> Lt
             | Zneg _ -> Gt)
    | Zpos x' -> (match y with
                  | Zpos y' -> Coq_Pos.compare x' y'
                  | _ -> Gt)
    | Zneg x' ->
      (match y with
       | Zneg y' -> compOpp (Coq_Pos.compare x' y')
       | _ -> Lt)

  (** val leb : z -> z -> bool **)

  let leb x y =
    match compare x y with
    | Gt -> false
    | _ -> true

  (** val ltb : z -> z -> bool **)

  let ltb x y =
    match compare x y with
    | Lt -> true
    | _ -> false

  (** val eqb : z -> z -> bool **)

  let eqb x y =
    match x with
    | Z0 -> (match y with
             | Z0 -> true
             | _ -> false)
    | Zpos p -> (match y with
                 | Zpos q -> Coq_Pos.eqb p q
                 | _ -> false)
    | Zneg p -> (match y with
                 | Zneg q -> Coq_Pos.eqb p q
                 | _ -> false)

  (** val max : z -> z -> z **)

  let max n0 m =
    match compare n0 m with
    | Lt -> m
    | _ -> n0

  (** val min : z -> z -> z **)

  let min n0 m =
    match compare n0 m with
    | Gt -> m
    | _ -> n0

  (** val to_nat : z -> nat **)

  let to_nat = function
  | Zpos p -> Coq_Pos.to_nat p
  | _ -> O

  (** val to_N : z -> n **)

  let to_N = function
  | Zpos p -> Npos p
  | _ -> N0

  (** val of_nat : nat -> z **)

  let of_nat = function
  | O -> Z0
  | S n1 -> Zpos (Coq_Pos.of_succ_nat n1)

  (** val of_N : n -> z **)

  let of_N = function
  | N0 -> Z0
  | Npos p -> Zpos p

  (** val pos_div_eucl : positive -> z -> z * z **)

  let rec pos_div_eucl a b =
    match a with
    | XI a' ->
      let (q, r) = pos_div_eucl a' b in
      let r' = add (mul (Zpos (XO XH)) r) (Zpos XH) in
      if ltb r' b
      then ((mul (Zpos (XO XH)) q), r')
      else ((add (mul (Zpos (XO XH)) q) (Zpos XH)), (sub r' b))
    | XO a' ->
      let (q, r) = pos_div_eucl a' b in
      let r' = mul (Zpos (XO XH)) r in
      if ltb r' b
      then ((mul (Zpos (XO XH)) q), r')
      else ((add (mul (Zpos (XO XH)) q) (Zpos XH)), (sub r' b))
    | XH -> if leb (Zpos (XO XH)) b then (Z0, (Zpos XH)) else ((Zpos XH), Z0)

  (** val div_eucl : z -> z -> z * z **)

  let div_eucl a b =
    match a with
    | Z0 -> (Z0, Z0)
    | Zpos a' ->
      (match b with
       | Z0 -> (Z0, a)
       | Zpos _ -> pos_div_eucl a' b
       | Zneg b' ->
         let (q, r) = pos_div_eucl a' (Zpos b') in
         (match r with
          | Z0 -> ((opp q), Z0)
          | _ -> ((opp (add q (Zpos XH))), (add b r))))
    | Zneg a' ->
      (match b with
       | Z0 -> (Z0, a)
       | Zpos _ ->
         let (q, r) = pos_div_eucl a' b in
         (match r with
          | Z0 -> ((opp q), Z0)
          | _ -> ((opp (add q (Zpos XH))), (sub b r)))
       | Zneg b' -> let (q, r) = pos_div_eucl a' (Zpos b') in (q, (opp r)))

  (** val div : z -> z -> z **)

  let div a b =
    let (q, _) = div_eucl a b in q

  (** val modulo : z -> z -> z **)

  let modulo a b =
    let (_, r) = div_eucl a b in r

  (** val log2 : z -> z **)

  let log2 = function
  | Zpos p0 ->
    (match p0 with
     | XI p -> Zpos (Coq_Pos.size p)
     | XO p -> Zpos (Coq_Pos.size p)
     | XH -> Z0)
  | _ -> Z0
 end

(** val tl : 'a1 list -> 'a1 list **)

let tl = function
| [] -> []
| _ :: m -> m

(** val nth : nat -> 'a1 list -> 'a1 -> 'a1 **)

let rec nth n0 l default =
  match n0 with
  | O -> (match l with
          | [] -> default
          | x :: _ -> x)
  | S m -> (match l with
            | [] -> default
            | _ :: t -> nth m t default)

(** val last : 'a1 list -> 'a1 -> 'a1 **)

let rec last l d =
  match l with
  | [] -> d
  | a :: l0 -> (match l0 with
                | [] -> a
                | _ :: _ -> last l0 d)

(** val rev : 'a1 list -> 'a1 list **)

let rec rev = function
| [] -> []
| x :: l' -> app (rev l') (x :: [])

(** val concat : 'a1 list list -> 'a1 list **)

let rec concat = function
| [] -> []
| x :: l0 -> app x (concat l0)

(** val map : ('a1 -> 'a2) -> 'a1 list -> 'a2 list **)

let rec map f = function
| [] -> []
| a :: t -> (f a) :: (map f t)

(** val flat_map : ('a1 -> 'a2 list) -> 'a1 list -> 'a2 list **)

let rec flat_map f = function
| [] -> []
| x :: t -> app (f x) (flat_map f t)

(** val fold_left : ('a1 -> 'a2 -> 'a1) -> 'a2 list -> 'a1 -> 'a1 **)

let rec fold_left f l a0 =
  match l with
  | [] -> a0
  | b :: t -> fold_left f t (f a0 b)

(** val fold_right : ('a2 -> 'a1 -> 'a1) -> 'a1 -> 'a2 list -> 'a1 **)

let rec fold_right f a0 = function
| [] -> a0
| b :: t -> f b (fold_right f a0 t)

(** val existsb : ('a1 -> bool) -> 'a1 list -> bool **)

let rec existsb f = function
| [] -> false
| a :: l0 -> (||) (f a) (existsb f l0)

(** val forallb : ('a1 -> bool) -> 'a1 list -> bool **)

let rec forallb f = function
| [] -> true
| a :: l0 -> (&&) (f a) (forallb f l0)

(** val filter : ('a1 -> bool) -> 'a1 list -> 'a1 list **)

let rec filter f = function
| [] -> []
| x :: l0 -> if f x then x :: (filter f l0) else filter f l0

(** val find : ('a1 -> bool) -> 'a1 list -> 'a1 option **)

let rec find f = function
| [] -> None
| x :: tl0 -> if f x then Some x else find f tl0

(** val firstn : nat -> 'a1 list -> 'a1 list **)

let rec firstn n0 l =
  match n0 with
  | O -> []
  | S n1 -> (match l with
             | [] -> []
             | a :: l0 -> a :: (firstn n1 l0))

(** val skipn : nat -> 'a1 list -> 'a1 list **)

let rec skipn n0 l =
  match n0 with
  | O -> l
  | S n1 -> (match l with
             | [] -> []
             | _ :: l0 -> skipn n1 l0)

(** val seq : nat -> nat -> nat list **)

let rec seq start = function
| O -> []
| S len0 -> start :: (seq (S start) len0)

(** val repeat : 'a1 -> nat -> 'a1 list **)

let rec repeat x = function
| O -> []
| S k -> x :: (repeat x k)

(** val eqb0 : byte -> byte -> bool **)

let eqb0 a b =
  let (a0, p) = to_bits a in
  let (a1, p0) = p in
  let (a2, p1) = p0 in
  let (a3, p2) = p1 in
  let (a4, p3) = p2 in
  let (a5, p4) = p3 in
  let (a6, a7) = p4 in
  let (b0, p5) = to_bits b in
  let (b1, p6) = p5 in
  let (b2, p7) = p6 in
  let (b3, p8) = p7 in
  let (b14, p9) = p8 in
  let (b15, p10) = p9 in
  let (b16, b17) = p10 in
  (&&)
    ((&&)
      ((&&)
        ((&&)
          ((&&) ((&&) ((&&) (eqb a0 b0) (eqb a1 b1)) (eqb a2 b2)) (eqb a3 b3))
          (eqb a4 b14)) (eqb a5 b15)) (eqb a6 b16)) (eqb a7 b17)

(** val to_nat0 : byte -> nat **)

let to_nat0 = function
| X00 -> O
| X01 -> S O
| X02 -> S (S O)
| X03 -> S (S (S O))
| X04 -> S (S (S (S O)))
| X05 -> S (S (S (S (S O))))
| X06 -> S (S (S (S (S (S O)))))
| X07 -> S (S (S (S (S (S (S O))))))
| X08 -> S (S (S (S (S (S (S (S O)))))))
| X09 -> S (S (S (S (S (S (S (S (S O))))))))
| X0a -> S (S (S (S (S (S (S (S (S (S O)))))))))
| X0b -> S (S (S (S (S (S (S (S (S (S (S O))))))))))
| X0c -> S (S (S (S (S (S (S (S (S (S (S (S O)))))))))))
| X0d -> S (S (S (S (S (S (S (S (S (S (S (S (S O))))))))))))
| X0e -> S (S (S (S (S (S (S (S (S (S (S (S (S (S O)))))))))))))
| X0f -> S (S (S (S (S (S (S (S (S (S (S (S (S (S (S O))))))))))))))
| X10 -> S (S (S (S (S (S (S (S (S (S (S (S (S (S (S (S O)))))))))))))))
| X11 -> S (S (S (S (S (S (S (S (S (S (S (S (S (S (S (S (S O))))))))))))))))
| X12 ->
  S (S (S (S (S (S (S (S (S (S (S (S (S (S (S (S (S (S O)))))))))))))))))
| X13 ->
  S (S (S (S (S (S (S (S (S (S (S (S (S (S (S (S (S (S (S O))))))))))))))))))
| X14 ->
  S (S (S (S (S (S (S (S (S (S (S (S (S (S (S (S (S (S (S (S
    O)))))))))))))))))))
| X15 ->
  S (S (S (S (S (S (S (S (S (S (S (S (S (S (S (S (S (S (S (S (S
    O))))))))))))))))))))
| X16 ->
  S (S (S (S (S (S (S (S (S (S (S (S (S (S (S (S (S (S (S (S (S (S
    O)))))))))))))))))))))
| X17 ->
  S (S (S (S (S (S (S (S (S (S (S (S (S (S (S (S (S (S (S (S (S (S (S
    O))))))))))))))))))))))
| X18 ->
  S (S (S (S (S (S (S (S (S (S (S (S (S (S (S (S (S (S (S (S (S (S (S (S
    O)))))))))))))))))))))))
| X19 ->
  S (S (S (S (S (S (S (S (S (S (S (S (S (S (S (S (S (S (S (S (S (S (S (S (S
    O))))))))))))))))))))))))
| X1a ->
  S (S (S (S (S (S (S (S (S (S (S (S (S (S (S (S (S (S (S (S (S (S (S (S (S
    (S O)))))))))))))))))))))))))
| X1b ->
  S (S (S (S (S (S (S (S (S (S (S (S (S (S (S (S (S (S (S (S (S (S (S (S (S
    (S (S O))))))))))))))))))))))))))
| X1c ->
  S (S (S (S (S (S (S (S (S (S (S (S (S (S (S (S (S (S (S (S (S (S (S (S (S
    (S (S (S O)))))))))))))))))))))))))))
| X1d ->
  S (S (S (S (S (S (S (S (S (S (S (S (S (S (S (S (S (S (S (S (S (S (S (S (S
    (S (S (S (S O))))))))))))))))))))))))))))
| X1e ->
  S (S (S (S (S (S (S (S (S (S (S (S (S (S (S (S (S (S (S (S (S (S (S (S (S
    (S (S (S (S (S O)))))))))))))))))))))))))))))
| X1f ->
  S (S (S (S (S (S (S (S (S (S (S (S (S (S (S (S (S (S (S (S (S (S (S (S (S
    (S (S (S (S (S (S O))))))))))))))))))))))))))))))
| X20 ->
  S (S (S (S (S (S (S (S (S (S (S (S (S (S (S (S (S (S (S (S (S (S (S (S (S
    (S (S (S (S (S (S (S O)))))))))))))))))))))))))))))))
| X21 ->
  S (S (S (S (S (S (S (S (S (S (S (S (S (S (S (S (S (S (S (S (S (S (S (S (S
    (S (S (S (S (S (S (S (S O))))))))))))))))))))))))))))))))
| X22 ->
  S (S (S (S (S (S (S (S (S (S (S (S (S (S (S (S (S (S (S (S (S (S (S (S (S
    (S (S (S (S (S (S (S (S (S O)))))))))))))))))))))))))))))))))
| X23 ->
  S (S (S (S (S (S (S (S (S (S (S (S (S (S (S (S (S (S (S (S (S (S (S (S (S
    (S (S (S (S (S (S (S (S (S (S O))))))))))))))))))))))))))))))))))
| X24 ->
  S (S (S (S (S (S (S (S (S (S (S (S (S (S (S (S (S (S (S (S (S (S (S (S (S
    (S (S (S (S (S (S (S (S (S (S (S O)))))))))))))))))))))))))))))))))))
| X25 ->
  S (S (S (S (S (S (S (S (S (S (S (S (S (S (S (S (S (S (S (S (S (S (S (S (S
    (S (S (S (S (S (S (S (S (S (S (S (S O))))))))))))))))))))))))))))))))))))
| X26 ->
  S (S (S (S (S (S (S (S (S (S (S (S (S (S (S (S (S (S (S (S (S (S (S (S (S
    (S (S (S (S (S (S (S (S (S (S (S (S (S
    O)))))))))))))))))))))))))))))))))))))
| X27 ->
  S (S (S (S (S (S (S (S (S (S (S (S (S (S (S (S (S (S (S (S (S (S (S (S (S
    (S (S (S (S (S (S (S (S (S (S (S (S (S (S
    O))))))))))))))))))))))))))))))))))))))
| X28 ->
  S (S (S (S (S (S (S (S (S (S (S (S (S (S (S (S (S (S (S (S (S (S (S (S (S
    (S (S (S (S (S (S (S (S (S (S (S (S (S (S (S
    O)))))))))))))))))))))))))))))))))))))))
| X29 ->
  S (S (S (S (S (S (S (S (S (S (S (S (S (S (S (S (S (S (S (S (S (S (S (S (S
    (S (S (S (S (S (S (S (S (S (S (S (S (S (S (S (S
    O))))))))))))))))))))))))))))))))))))))))
| X2a ->
  S (S (S (S (S (S (S (S (S (S (S (S (S (S (S (S (S (S (S (S (S (S (S (S (S
    (S (S (S (S (S (S (S (S (S (S (S (S (S (S (S (S (S
    O)))))))))))))))))))))))))))))))))))))))))
| X2b ->
  S (S (S (S (S (S (S (S (S (S (S (S (S (S (S (S (S (S (S (S (S (S (S (S (S
    (S (S (S (S (S (S (S (S (S (S (S (S (S (S (S (S (S (S
    O))))))))))))))))))))))))))))))))))))))))))
| X2c ->
  S (S (S (S (S (S (S (S (S (S (S (S (S (S (S (S (S (S (S (S (S (S (S (S (S
    (S (S (S (S (S (S (S (S (S (S (S (S (S (S (S (S (S (S (S
    O)))))))))))))))))))))))))))))))))))))))))))
| X2d ->
  S (S (S (S (S (S (S (S (S (S (S (S (S (S (S (S (S (S (S (S (S (S (S (S (S
    (S (S (S (S (S (S (S (S (S (S (S (S (S (S (S (S (S (S (S (S
    O))))))))))))))))))))))))))))))))))))))))))))
| X2e ->
  S (S (S (S (S (S (S (S (S (S (S (S (S (S (S (S (S (S (S (S (S (S (S (S (S
    (S (S (S (S (S (S (S (S (S (S (S (S (S (S (S (S (S (S (S (S (S
    O)))))))))))))))))))))))))))))))))))))))))))))
| X2f ->
  S (S (S (S (S (S (S (S (S (S (S (S (S (S (S (S (S (S (S (S (S (S (S (S (S
    (S (S (S (S (S (S (S (S (S (S (S (S (S (S (S (S (S (S (S (S (S (S
    O))))))))))))))))))))))))))))))))))))))))))))))
| X30 ->
  S (S (S (S (S (S (S (S (S (S (S (S (S (S (S (S (S (S (S (S (S (S (S (S (S
    (S (S (S (S (S (S (S (S (S (S (S (S (S (S (S (S (S (S (S (S (S (S (S
    O)))))))))))))))))))))))))))))))))))))))))))))))
| X31 ->
  S (S (S (S (S (S (S (S (S (S (S (S (S (S (S (S (S (S (S (S (S (S (S (S (S
    (S (S (S (S (S (S (S (S (S (S (S (S (S (S (S (S (S (S (S (S (S (S (S (S
    O))))))))))))))))))))))))))))))))))))))))))))))))
| X32 ->
  S (S (S (S (S (S (S (S (S (S (S (S (S (S (S (S (S (S (S (S (S (S (S (S (S
    (S (S (S (S (S (S (S (S (S (S (S (S (S (S (S (S (S (S (S (S (S (S (S (S
    (S O)))))))))))))))))))))))))))))))))))))))))))))))))
| X33 ->
  S (S (S (S (S (S (S (S (S (S (S (S (S (S (S (S (S (S (S (S (S (S (S (S (S
    (S (S (S (S (S (S (S (S (S (S (S (S (S (S (S (S (S (S (S (S (S (S (S (S
    (S (S O))))))))))))))))))))))))))))))))))))))))))))))))))
| X34 ->
  S (S (S (S (S (S (S (S (S (S (S (S (S (S (S (S (S (S (S (S (S (S (S (S (S
    (S (S (S (S (S (S (S (S (S (S (S (S (S (S (S (S (S (S (S (S (S (S (S (S
    (S (S (S O)))))))))))))))))))))))))))))))))))))))))))))))))))
| X35 ->
  S (S (S (S (S (S (S (S (S (S (S (S (S (S (S (S (S (S (S (S (S (S (S (S (S
    (S (S (S (S (S (S (S (S (S (S (S (S (S (S (S (S (S (S (S (S (S (S (S (S
    (S (S (S (S O))))))))))))))))))))))))))))))))))))))))))))))))))))
| X36 ->
  S (S (S (S (S (S (S (S (S (S (S (S (S (S (S (S (S (S (S (S (S (S (S (S (S
    (S (S (S (S (S (S (S (S (S (S (S (S (S (S (S (S (S (S (S (S (S (S (S (S
    (S (S (S (S (S O)))))))))))))))))))))))))))))))))))))))))))))))))))))
| X37 ->
  S (S (S (S (S (S (S (S (S (S (S (S (S (S (S (S (S (S (S (S (S (S (S (S (S
    (S (S (S (S (S (S (S (S (S (S (S (S (S (S (S (S (S (S (S (S (S (S (S (S
    (S (S (S (S (S (S O))))))))))))))))))))))))))))))))))))))))))))))))))))))
| X38 ->
  S (S (S (S (S (S (S (S (S (S (S (S (S (S (S (S (S (S (S (S (S (S (S (S (S
    (S (S (S (S (S (S (S (S (S (S (S (S (S (S (S (S (S (S (S (S (S (S (S (S
    (S (S (S (S (S (S (S
    O)))))))))))))))))))))))))))))))))))))))))))))))))))))))
| X39 ->
  S (S (S (S (S (S (S (S (S (S (S (S (S (S (S (S (S (S (S (S (S (S (S (S (S
    (S (S (S (S (S (S (S (S (S (S (S (S (S (S (S (S (S (S (S (S (S (S (S (S
    (S (S (S (S (S (S (S (S
    O))))))))))))))))))))))))))))))))))))))))))))))))))))))))
| X3a ->
  S (S (S (S (S (S (S (S (S (S (S (S (S (S (S (S (S (S (S (S (S (S (S (S (S
    (S (S (S (S (S (S (S (S (S (S (S (S (S (S (S (S (S (S (S (S (S (S (S (S
    (S (S (S (S (S (S (S (S (S
    O)))))))))))))))))))))))))))))))))))))))))))))))))))))))))
| X3b ->
  S (S (S (S (S (S (S (S (S (S (S (S (S (S (S (S (S (S (S (S (S (S (S (S (S
    (S (S (S (S (S (S (S (S (S (S (S (S (S (S (S (S (S (S (S (S (S (S (S (S
    (S (S (S (S (S (S (S (S (S (S
    O))))))))))))))))))))))))))))))))))))))))))))))))))))))))))
| X3c ->
  S (S (S (S (S (S (S (S (S (S (S (S (S (S (S (S (S (S (S (S (S (S (S (S (S
    (S (S (S (S (S (S (S (S (S (S (S (S (S (S (S (S (S (S (S (S (S (S (S (S
    (S (S (S (S (S (S (S (S (S (S (S
    O)))))))))))))))))))))))))))))))))))))))))))))))))))))))))))
| X3d ->
  S (S (S (S (S (S (S (S (S (S (S (S (S (S (S (S (S (S (S (S (S (S (S (S (S
    (S (S (S (S (S (S (S (S (S (S (S (S (S (S (S (S (S (S (S (S (S (S (S (S
    (S (S (S (S (S (S (S (S (S (S (S (S
    O))))))))))))))))))))))))))))))))))))))))))))))))))))))))))))
| X3e ->
  S (S (S (S (S (S (S (S (S (S (S (S (S (S (S (S (S (S (S (S (S (S (S (S (S
    (S (S (S (S (S (S (S (S (S (S (S (S (S (S (S (S (S (S (S (S (S (S (S (S
    (S (S (S (S (S (S (S (S (S (S (S (S (S
    O)))))))))))))))))))))))))))))))))))))))))))))))))))))))))))))
| X3f ->
  S (S (S (S (S (S (S (S (S (S (S (S (S (S (S (S (S (S (S (S (S (S (S (S (S
    (S (S (S (S (S (S (S (S (S (S (S (S (S (S (S (S (S (S (S (S (S (S (S (S
    (S (S (S (S (S (S (S (S (S (S (S (S (S (S
    O))))))))))))))))))))))))))))))))))))))))))))))))))))))))))))))
| X40 ->
  S (S (S (S (S (S (S (S (S (S (S (S (S (S (S (S (S (S (S (S (S (S (S (S (S
    (S (S (S (S (S (S (S (S (S (S (S (S (S (S (S (S (S (S (S (S (S (S (S (S
    (S (S (S (S (S (S (S (S (S (S (S (S (S (S (S
    O)))))))))))))))))))))))))))))))))))))))))))))))))))))))))))))))
| X41 ->
  S (S (S (S (S (S (S (S (S (S (S (S (S (S (S (S (S (S (S (S (S (S (S (S (S
    (S (S (S (S (S (S (S (S (S (S (S (S (S (S (S (S (S (S (S (S (S (S (S (S
    (S (S (S (S (S (S (S (S (S (S (S (S (S (S (S (S
    O))))))))))))))))))))))))))))))))))))))))))))))))))))))))))))))))
| X42 ->
  S (S (S (S (S (S (S (S (S (S (S (S (S (S (S (S (S (S (S (S (S (S (S (S (S
    (S (S (S (S (S (S (S (S (S (S (S (S (S (S (S (S (S (S (S (S (S (S (S (S
    (S (S (S (S (S (S (S (S (S (S (S (S (S (S (S (S (S
    O)))))))))))))))))))))))))))))))))))))))))))))))))))))))))))))))))
| X43 ->
  S (S (S (S (S (S (S (S (S (S (S (S (S (S (S (S (S (S (S (S (S (S (S (S (S
    (S (S (S (S (S (S (S (S (S (S (S (S (S (S (S (S (S (S (S (S (S (S (S (S
    (S (S (S (S (S (S (S (S (S (S (S (S (S (S (S (S (S (S
    O))))))))))))))))))))))))))))))))))))))))))))))))))))))))))))))))))
| X44 ->
  S (S (S (S (S (S (S (S (S (S (S (S (S (S (S (S (S (S (S (S (S (S (S (S (S
    (S (S (S (S (S (S (S (S (S (S (S (S (S (S (S (S (S (S (S (S (S (S (S (S
    (S (S (S (S (S (S (S (S (S (S (S (S (S (S (S (S (S (S (S
    O)))))))))))))))))))))))))))))))))))))))))))))))))))))))))))))))))))
| X45 ->
  S (S (S (S (S (S (S (S (S (S (S (S (S (S (S (S (S (S (S (S (S (S (S (S (S
    (S (S (S (S (S (S (S (S (S (S (S (S (S (S (S (S (S (S (S (S (S (S (S (S
    (S (S (S (S (S (S (S (S (S (S (S (S (S (S (S (S (S (S (S (S
    O))))))))))))))))))))))))))))))))))))))))))))))))))))))))))))))))))))
| X46 ->
  S (S (S (S (S (S (S (S (S (S (S (S (S (S (S (S (S (S (S (S (S (S (S (S (S
    (S (S (S (S (S (S (S (S (S (S (S (S (S (S (S (S (S (S (S (S (S (S (S (S
    (S (S (S (S (S (S (S (S (S (S (S (S (S (S (S (S (S (S (S (S (S
    O)))))))))))))))))))))))))))))))))))))))))))))))))))))))))))))))))))))
| X47 ->
  S (S (S (S (S (S (S (S (S (S (S (S (S (S (S (S (S (S (S (S (S (S (S (S (S
    (S (S (S (S (S (S (S (S (S (S (S (S (S (S (S (S (S (S (S (S (S (S (S (S
    (S (S (S (S (S (S (S (S (S (S (S (S (S (S (S (S (S (S (S (S (S (S
    O))))))))))))))))))))))))))))))))))))))))))))))))))))))))))))))))))))))
| X48 ->
  S (S (S (S (S (S (S (S (S (S (S (S (S (S (S (S (S (S (S (S (S (S (S (S (S
    (S (S (S (S (S (S (S (S (S (S (S (S (S (S (S (S (S (S (S (S (S (S (S (S
    (S (S (S (S (S (S (S (S (S (S (S (S (S (S (S (S (S (S (S (S (S (S (S
    O)))))))))))))))))))))))))))))))))))))))))))))))))))))))))))))))))))))))
| X49 ->
  S (S (S (S (S (S (S (S (S (S (S (S (S (S (S (S (S (S (S (S (S (S (S (S (S
    (S (S (S (S (S (S (S (S (S (S (S (S (S (S (S (S (S (S (S (S (S (S (S (S
    (S (S (S (S (S (S (S (S (S (S (S (S (S (S (S (S (S (S (S (S (S (S (S (S
    O))))))))))))))))))))))))))))))))))))))))))))))))))))))))))))))))))))))))
| X4a ->
  S (S (S (S (S (S (S (S (S (S (S (S (S (S (S (S (S (S (S (S (S (S (S (S (S
    (S (S (S (S (S (S (S (S (S (S (S (S (S (S (S (S (S (S (S (S (S (S (S (S
    (S (S (S (S (S (S (S (S (S (S (S (S (S (S (S (S (S (S (S (S (S (S (S (S
    (S
    O)))))))))))))))))))))))))))))))))))))))))))))))))))))))))))))))))))))))))
| X4b ->
  S (S (S (S (S (S (S (S (S (S (S (S (S (S (S (S (S (S (S (S (S (S (S (S (S
    (S (S (S (S (S (S (S (S (S (S (S (S (S (S (S (S (S (S (S (S (S (S (S (S
    (S (S (S (S (S (S (S (S (S (S (S (S (S (S (S (S (S (S (S (S (S (S (S (S
    (S (S
    O))))))))))))))))))))))))))))))))))))))))))))))))))))))))))))))))))))))))))
| X4c ->
  S (S (S (S (S (S (S (S (S (S (S (S (S (S (S (S (S (S (S (S (S (S (S (S (S
    (S (S (S (S (S (S (S (S (S (S (S (S (S (S (S (S (S (S (S (S (S (S (S (S
    (S (S (S (S (S (S (S (S (S (S (S (S (S (S (S (S (S (S (S (S (S (S (S (S
    (S (S (S
    O)))))))))))))))))))))))))))))))))))))))))))))))))))))))))))))))))))))))))))
| X4d ->
  S (S (S (S (S (S (S (S (S (S (S (S (S (S (S (S (S (S (S (S (S (S (S (S (S
    (S (S (S (S (S (S (S (S (S (S (S (S (S (S (S (S (S (S (S (S (S (S (S (S
    (S (S (S (S (S (S (S (S (S (S (S (S (S (S (S (S (S (S (S (S (S (S (S (S
    (S (S (S (S
    O))))))))))))))))))))))))))))))))))))))))))))))))))))))))))))))))))))))))))))
| X4e ->
  S (S (S (S (S (S (S (S (S (S (S (S (S (S (S (S (S (S (S (S (S (S (S (S (S
    (S (S (S (S (S (S (S (S (S (S (S (S (S (S (S (S (S (S (S (S (S (S (S (S
    (S (S (S (S (S (S (S (S (S (S (S (S (S (S (S (S (S (S (S (S (S (S (S (S
    (S (S (S (S (S
    O)))))))))))))))))))))))))))))))))))))))))))))))))))))))))))))))))))))))))))))
| X4f ->
  S (S (S (S (S (S (S (S (S (S (S (S (S (S (S (S (S (S (S (S (S (S (S (S (S
    (S (S (S (S (S (S (S (S (S (S (S (S (S (S (S (S (S (S (S (S (S (S (S (S
    (S (S (S (S (S (S (S (S (S (S (S (S (S (S (S (S (S (S (S (S (S (S (S (S
    (S (S (S (S (S (S
    O))))))))))))))))))))))))))))))))))))))))))))))))))))))))))))))))))))))))))))))
| X50 ->
  S (S (S (S (S (S (S (S (S (S (S (S (S (S (S (S (S (S (S (S (S (S (S (S (S
    (S (S (S (S (S (S (S (S (S (S (S (S (S (S (S (S (S (S (S (S (S (S (S (S
    (S (S (S (S (S (S (S (S (S (S (S (S (S (S (S (S (S (S (S (S (S (S (S (S
    (S (S (S (S (S (S (S
    O)))))))))))))))))))))))))))))))))))))))))))))))))))))))))))))))))))))))))))))))
| X51 ->
  S (S (S (S (S (S (S (S (S (S (S (S (S (S (S (S (S (S (S (S (S (S (S (S (S
    (S (S (S (S (S (S (S (S (S (S (S (S (S (S (S (S (S (S (S (S (S (S (S (S
    (S (S (S (S (S (S (S (S (S (S (S (S (S (S (S (S (S (S (S (S (S (S (S (S
    (S (S (S (S (S (S (S (S
    O))))))))))))))))))))))))))))))))))))))))))))))))))))))))))))))))))))))))))))))))
| X52 ->
  S (S (S (S (S (S (S (S (S (S (S (S (S (S (S (S (S (S (S (S (S (S (S (S (S
    (S (S (S (S (S (S (S (S (S (S (S (S (S (S (S (S (S (S (S (S (S (S (S (S
    (S (S (S (S (S (S (S (S (S (S (S (S (S (S (S (S (S (S (S (S (S (S (S (S
    (S (S (S (S (S (S (S (S (S
    O)))))))))))))))))))))))))))))))))))))))))))))))))))))))))))))))))))))))))))))))))
| X53 ->
  S (S (S (S (S (S (S (S (S (S (S (S (S (S (S (S (S (S (S (S (S (S (S (S (S
    (S (S (S (S (S (S (S (S (S (S (S (S (S (S (S (S (S (S (S (S (S (S (S (S
    (S (S (S (S (S (S (S (S (S (S (S (S (S (S (S (S (S (S (S (S (S (S (S (S
    (S (S (S (S (S (S (S (S (S (S
    O))))))))))))))))))))))))))))))))))))))))))))))))))))))))))))))))))))))))))))))))))
| X54 ->
  S (S (S (S (S (S (S (S (S (S (S (S (S (S (S (S (S (S (S (S (S (S (S (S (S
    (S (S (S (S (S (S (S (S (S (S (S (S (S (S (S (S (S (S (S (S (S (S (S (S
    (S (S (S (S (S (S (S (S (S (S (S (S (S (S (S (S (S (S (S (S (S (S (S (S
    (S (S (S (S (S (S (S (S (S (S (S
    O)))))))))))))))))))))))))))))))))))))))))))))))))))))))))))))))))))))))))))))))))))
| X55 ->
  S (S (S (S (S (S (S (S (S (S (S (S (S (S (S (S (S (S (S (S (S (S (S (S (S
    (S (S (S (S (S (S (S (S (S (S (S (S (S (S (S (S (S (S (S (S (S (S (S (S
    (S (S (S (S (S (S (S (S (S (S (S (S (S (S (S (S (S (S (S (S (S (S (S (S
    (S (S (S (S (S (S (S (S (S (S (S (S
    O))))))))))))))))))))))))))))))))))))))))))))))))))))))))))))))))))))))))))))))))))))
| X56 ->
  S (S (S (S (S (S (S (S (S (S (S (S (S (S (S (S (S (S (S (S (S (S (S (S (S
    (S (S (S (S (S (S (S (S (S (S (S (S (S (S (S (S (S (S (S (S (S (S (S (S
    (S (S (S (S (S (S (S (S (S (S (S (S (S (S (S (S (S (S (S (S (S (S (S (S
    (S (S (S (S (S (S (S (S (S (S (S (S (S
    O)))))))))))))))))))))))))))))))))))))))))))))))))))))))))))))))))))))))))))))))))))))
| X57 ->
  S (S (S (S (S (S (S (S (S (S (S (S (S (S (S (S (S (S (S (S (S (S (S (S (S
    (S (S (S (S (S (S (S (S (S (S (S (S (S (S (S (S (S (S (S (S (S (S (S (S
    (S (S (S (S (S (S (S (S (S (S (S (S (S (S (S (S (S (S (S (S (S (S (S (S
    (S (S (S (S (S (S (S (S (S (S (S (S (S (S
    O))))))))))))))))))))))))))))))))))))))))))))))))))))))))))))))))))))))))))))))))))))))
| X58 ->
  S (S (S (S (S (S (S (S (S (S (S (S (S (S (S (S (S (S (S (S (S (S (S (S (S
    (S (S (S (S (S (S (S (S (S (S (S (S (S (S (S (S (S (S (S (S (S (S (S (S
    (S (S (S (S (S (S (S (S (S (S (S (S (S (S (S (S (S (S (S (S (S (S (S (S
    (S (S (S (S (S (S (S (S (S (S (S (S (S (S (S
    O)))))))))))))))))))))))))))))))))))))))))))))))))))))))))))))))))))))))))))))))))))))))
| X59 ->
  S (S (S (S (S (S (S (S (S (S (S (S (S (S (S (S (S (S (S (S (S (S (S (S (S
    (S (S (S (S (S (S (S (S (S (S (S (S (S (S (S (S (S (S (S (S (S (S (S (S
    (S (S (S (S (S (S (S (S (S (S (S (S (S (S (S (S (S (S (S (S (S (S (S (S
    (S (S (S (S (S (S (S (S (S (S (S (S (S (S (S (S
    O))))))))))))))))))))))))))))))))))))))))))))))))))))))))))))))))))))))))))))))))))))))))
| X5a ->
  S (S (S (S (S (S (S (S (S (S (S (S (S (S (S (S (S (S (S (S (S (S (S (S (S
    (S (S (S (S (S (S (S (S (S (S (S (S (S (S (S (S (S (S (S (S (S (S (S (S
    (S (S (S (S (S (S (S (S (S (S (S (S (S (S (S (S (S (S (S (S (S (S (S (S
    (S (S (S (S (S (S (S (S (S (S (S (S (S (S (S (S (S
    O)))))))))))))))))))))))))))))))))))))))))))))))))))))))))))))))))))))))))))))))))))))))))
| X5b ->
  S (S (S (S (S (S (S (S (S (S (S (S (S (S (S (S (S (S (S (S (S (S (S (S (S
    (S (S (S (S (S (S (S (S (S (S (S (S (S (S (S (S (S (S (S (S (S (S (S (S
    (S (S (S (S (S (S (S (S (S (S (S (S (S (S (S (S (S (S (S (S (S (S (S (S
    (S (S (S (S (S (S (S (S (S (S (S (S (S (S (S (S (S (S
    O))))))))))))))))))))))))))))))))))))))))))))))))))))))))))))))))))))))))))))))))))))))))))
| X5c ->
  S (S (S (S (S (S (S (S (S (S (S (S (S (S (S (S (S (S (S (S (S (S (S (S (S
    (S (S (S (S (S (S (S (S (S (S (S (S (S (S (S (S (S (S (S (S (S (S (S (S
    (S (S (S (S (S (S (S (S (S (S (S (S (S (S (S (S (S (S (S (S (S (S (S (S
    (S (S (S (S (S (S (S (S (S (S (S (S (S (S (S (S (S (S (S
    O)))))))))))))))))))))))))))))))))))))))))))))))))))))))))))))))))))))))))))))))))))))))))))
| X5d ->
  S (S (S (S (S (S (S (S (S (S (S (S (S (S (S (S (S (S (S (S (S (S (S (S (S
    (S (S (S (S (S (S (S (S (S (S (S (S (S (S (S (S (S (S (S (S (S (S (S (S
    (S (S (S (S (S (S (S (S (S (S (S (S (S (S (S (S (S (S (S (S (S (S (S (S
    (S (S (S (S (S (S (S (S (S (S (S (S (S (S (S (S (S (S (S (S
    O))))))))))))))))))))))))))))))))))))))))))))))))))))))))))))))))))))))))))))))))))))))))))))
| X5e ->
  S (S (S (S (S (S (S (S (S (S (S (S (S (S (S (S (S (S (S (S (S (S (S (S (S
    (S (S (S (S (S (S (S (S (S (S (S (S (S (S (S (S (S (S (S (S (S (S (S (S
    (S (S (S (S (S (S (S (S (S (S (S (S (S (S (S (S (S (S (S (S (S (S (S (S
    (S (S (S (S (S (S (S (S (S (S (S (S (S (S (S (S (S (S (S (S (S
    O)))))))))))))))))))))))))))))))))))))))))))))))))))))))))))))))))))))))))))))))))))))))))))))
| X5f ->
  S (S (S (S (S (S (S (S (S (S (S (S (S (S (S (S (S (S (S (S (S (S (S (S (S
    (S (S (S (S (S (S (S (S (S (S (S (S (S (S (S (S (S (S (S (S (S (S (S (S
    (S (S (S (S (S (S (S (S (S (S (S (S (S (S (S (S (S (S (S (S (S (S (S (S
    (S (S (S (S (S (S (S (S (S (S (S (S (S (S (S (S (S (S (S (S (S (S
    O))))))))))))))))))))))))))))))))))))))))))))))))))))))))))))))))))))))))))))))))))))))))))))))
| X60 ->
  S (S (S (S (S (S (S (S (S (S (S (S (S (S (S (S (S (S (S (S (S (S (S (S (S
    (S (S (S (S (S (S (S (S (S (S (S (S (S (S (S (S (S (S (S (S (S (S (S (S
    (S (S (S (S (S (S (S (S (S (S (S (S (S (S (S (S (S (S (S (S (S (S (S (S
    (S (S (S (S (S (S (S (S (S (S (S (S (S (S (S (S (S (S (S (S (S (S (S
    O)))))))))))))))))))))))))))))))))))))))))))))))))))))))))))))))))))))))))))))))))))))))))))))))
| X61 ->
  S (S (S (S (S (S (S (S (S (S (S (S (S (S (S (S (S (S (S (S (S (S (S (S (S
    (S (S (S (S (S (S (S (S (S (S (S (S (S (S (S (S (S (S (S (S (S (S (S (S
    (S (S (S (S (S (S (S (S (S (S (S (S (S (S (S (S (S (S (S (S (S (S (S (S
    (S (S (S (S (S (S (S (S (S (S (S (S (S (S (S (S (S (S (S (S (S (S (S (S
    O))))))))))))))))))))))))))))))))))))))))))))))))))))))))))))))))))))))))))))))))))))))))))))))))
| X62 ->
  S (S (S (S (S (S (S (S (S (S (S (S (S (S (S (S (S (S (S (S (S (S (S (S (S
    (S (S (S (S (S (S (S (S (S (S (S (S (S (S (S (S (S (S (S (S (S (S (S (S
    (S (S (S (S (S (S (S (S (S (S (S (S (S (S (S (S (S (S (S (S (S (S (S (S
    (S (S (S (S (S (S (S (S (S (S (S (S (S (S (S (S (S (S (S (S (S (S (S (S
    (S
    O)))))))))))))))))))))))))))))))))))))))))))))))))))))))))))))))))))))))))))))))))))))))))))))))))
| X63 ->
  S (S (S (S (S (S (S (S (S (S (S (S (S (S (S (S (S (S (S (S (S (S (S (S (S
    (S (S (S (S (S (S (S (S (S (S (S (S (S (S (S (S (S (S (S (S (S (S (S (S
    (S (S (S (S (S (S (S (S (S (S (S (S (S (S (S (S (S (S (S (S (S (S (S (S
    (S (S (S (S (S (S (S (S (S (S (S (S (S (S (S (S (S (S (S (S (S (S (S (S
    (S (S
    O))))))))))))))))))))))))))))))))))))))))))))))))))))))))))))))))))))))))))))))))))))))))))))))))))
| X64 ->
  S (S (S (S (S (S (S (S (S (S (S (S (S (S (S (S (S (S (S (S (S (S (S (S (S
    (S (S (S (S (S (S (S (S (S (S (S (S (S (S (S (S (S (S (S (S (S (S (S (S
    (S (S (S (S (S (S (S (S (S (S (S (S (S (S (S (S (S (S (S (S (S (S (S (S
    (S (S (S (S (S (S (S (S (S (S (S (S (S (S (S (S (S (S (S (S (S (S (S (S
    (S (S (S
    O)))))))))))))))))))))))))))))))))))))))))))))))))))))))))))))))))))))))))))))))))))))))))))))))))))
| X65 ->
  S (S (S (S (S (S (S (S (S (S (S (S (S (S (S (S (S (S (S (S (S (S (S (S (S
    (S (S (S (S (S (S (S (S (S (S (S (S (S (S (S (S (S (S (S (S (S (S (S (S
    (S (S (S (S (S (S (S (S (S (S (S (S (S (S (S (S (S (S (S (S (S (S (S (S
    (S (S (S (S (S (S (S (S (S (S (S (S (S (S (S (S (S (S (S (S (S (S (S (S
    (S (S (S (S
    O))))))))))))))))))))))))))))))))))))))))))))))))))))))))))))))))))))))))))))))))))))))))))))))))))))
| X66 ->
  S (S (S (S (S (S (S (S (S (S (S (S (S (S (S (S (S (S (S (S (S (S (S (S (S
    (S (S (S (S (S (S (S (S (S (S (S (S (S (S (S (S (S (S (S (S (S (S (S (S
    (S (S (S (S (S (S (S (S (S (S (S (S (S (S (S (S (S (S (S (S (S (S (S (S
    (S (S (S (S (S (S (S (S (S (S (S (S (S (S (S (S (S (S (S (S (S (S (S (S
    (S (S (S (S (S
    O)))))))))))))))))))))))))))))))))))))))))))))))))))))))))))))))))))))))))))))))))))))))))))))))))))))
| X67 ->
  S (S (S (S (S (S (S (S (S (S (S (S (S (S (S (S (S (S (S (S (S (S (S (S (S
    (S (S (S (S (S (S (S (S (S (S (S (S (S (S (S (S (S (S (S (S (S (S (S (S
    (S (S (S (S (S (S (S (S (S (S (S (S (S (S (S (S (S (S (S (S (S (S (S (S
    (S (S (S (S (S (S (S (S (S (S (S (S (S (S (S (S (S (S (S (S (S (S (S (S
    (S (S (S (S (S (S
    O))))))))))))))))))))))))))))))))))))))))))))))))))))))))))))))))))))))))))))))))))))))))))))))))))))))
| X68 ->
  S (S (S (S (S (S (S (S (S (S (S (S (S (S (S (S (S (S (S (S (S (S (S (S (S
    (S (S (S (S (S (S (S (S (S (S (S (S (S (S (S (S (S (S (S (S (S (S (S (S
    (S (S (S (S (S (S (S (S (S (S (S (S (S (S (S (S (S (S (S (S (S (S (S (S
    (S (S (S (S (S (S (S (S (S (S (S (S (S (S (S (S (S (S (S (S (S (S (S (S
    (S (S (S (S (S (S (S
    O)))))))))))))))))))))))))))))))))))))))))))))))))))))))))))))))))))))))))))))))))))))))))))))))))))))))
| X69 ->
  S (S (S (S (S (S (S (S (S (S (S (S (S (S (S (S (S (S (S (S (S (S (S (S (S
    (S (S (S (S (S (S (S (S (S (S (S (S (S (S (S (S (S (S (S (S (S (S (S (S
    (S (S (S (S (S (S (S (S (S (S (S (S (S (S (S (S (S (S (S (S (S (S (S (S
    (S (S (S (S (S (S (S (S (S (S (S (S (S (S (S (S (S (S (S (S (S (S (S (S
    (S (S (S (S (S (S (S (S
    O))))))))))))))))))))))))))))))))))))))))))))))))))))))))))))))))))))))))))))))))))))))))))))))))))))))))
| X6a ->
  S (S (S (S (S (S (S (S (S (S (S (S (S (S (S (S (S (S (S (S (S (S (S (S (S
    (S (S (S (S (S (S (S (S (S (S (S (S (S (S (S (S (S (S (S (S (S (S (S (S
    (S (S (S (S (S (S (S (S (S (S (S (S (S (S (S (S (S (S (S (S (S (S (S (S
    (S (S (S (S (S (S (S (S (S (S (S (S (S (S (S (S (S (S (S (S (S (S (S (S
    (S (S (S (S (S (S (S (S (S
    O)))))))))))))))))))))))))))))))))))))))))))))))))))))))))))))))))))))))))))))))))))))))))))))))))))))))))
| X6b ->
  S (S (S (S (S (S (S (S (S (S (S (S (S (S (S (S (S (S (S (S (S (S (S (S (S
    (S (S (S (S (S (S (S (S (S (S (S (S (S (S (S (S (S (S (S (S (S (S (S (S
    (S (S (S (S (S (S (S (S (S (S (S (S (S (S (S (S (S (S (S (S (S (S (S (S
    (S (S (S (S (S (S (S (S (S (S (S (S (S (S (S (S (S (S (S (S (S (S (S (S
    (S (S (S (S (S (S (S (S (S (S
    O))))))))))))))))))))))))))))))))))))))))))))))))))))))))))))))))))))))))))))))))))))))))))))))))))))))))))
| X6c ->
  S (S (S (S (S (S (S (S (S (S (S (S (S (S (S (S (S (S (S (S (S (S (S (S (S
    (S (S (S (S (S (S (S (S (S (S (S (S (S (S (S (S (S (S (S (S (S (S (S (S
    (S (S (S (S (S (S (S (S (S (S (S (S (S (S (S (S (S (S (S (S (S (S (S (S
    (S (S (S (S (S (S (S (S (S (S (S (S (S (S (S (S (S (S (S (S (S (S (S (S
    (S (S (S (S (S (S (S (S (S (S (S
    O)))))))))))))))))))))))))))))))))))))))))))))))))))))))))))))))))))))))))))))))))))))))))))))))))))))))))))
| X6d ->
  S (S (S (S (S (S (S (S (S (S (S (S (S (S (S (S (S (S (S (S (S (S (S (S (S
    (S (S (S (S (S (S (S (S (S (S (S (S (S (S (S (S (S (S (S (S (S (S (S (S
    (S (S (S (S (S (S (S (S (S (S (S (S (S (S (S (S (S (S (S (S (S (S (S (S
    (S (S (S (S (S (S (S (S (S (S (S (S (S (S (S (S (S (S (S (S (S (S (S (S
    (S (S (S (S (S (S (S (S (S (S (S (S
    O))))))))))))))))))))))))))))))))))))))))))))))))))))))))))))))))))))))))))))))))))))))))))))))))))))))))))))
| X6e ->
  S (S (S (S (S (S (S (S (S (S (S (S (S (S (S (S (S (S (S (S (S (S (S (S (S
    (S (S (S (S (S (S (S (S (S (S (S (S (S (S (S (S (S (S (S (S (S (S (S (S
    (S (S (S (S (S (S (S (S (S (S (S (S (S (S (S (S (S (S (S (S (S (S (S (S
    (S (S (S (S (S (S (S (S (S (S (S (S (S (S (S (S (S (S (S (S (S (S (S (S
    (S (S (S (S (S (S (S (S (S (S (S (S (S
    O)))))))))))))))))))))))))))))))))))))))))))))))))))))))))))))))))))))))))))))))))))))))))))))))))))))))))))))
| X6f ->
  S (S (S (S (S (S (S (S (S (S (S (S (S (S (S (S (S (S (S (S (S (S (S (S (S
    (S (S (S (S (S (S (S (S (S (S (S (S (S (S (S (S (S (S (S (S (S (S (S (S
    (S (S (S (S (S (S (S (S (S (S (S (S (S (S (S (S (S (S (S (S (S (S (S (S
    (S (S (S (S (S (S (S (S (S (S (S (S (S (S (S (S (S (S (S (S (S (S (S (S
    (S (S (S (S (S (S (S (S (S (S (S (S (S (S
    O))))))))))))))))))))))))))))))))))))))))))))))))))))))))))))))))))))))))))))))))))))))))))))))))))))))))))))))
| X70 ->
  S (S (S (S (S (S (S (S (S (S (S (S (S (S (S (S (S (S (S (S (S (S (S (S (S
    (S (S (S (S (S (S (S (S (S (S (S (S (S (S (S (S (S (S (S (S (S (S (S (S
    (S (S (S (S (S (S (S (S (S (S (S (S (S (S (S (S (S (S (S (S (S (S (S (S
    (S (S (S (S (S (S (S (S (S (S (S (S (S (S (S (S (S (S (S (S (S (S (S (S
    (S (S (S (S (S (S (S (S (S (S (S (S (S (S (S
    O)))))))))))))))))))))))))))))))))))))))))))))))))))))))))))))))))))))))))))))))))))))))))))))))))))))))))))))))
| X71 ->
  S (S (S (S (S (S (S (S (S (S (S (S (S (S (S (S (S (S (S (S (S (S (S (S (S
    (S (S (S (S (S (S (S (S (S (S (S (S (S (S (S (S (S (S (S (S (S (S (S (S
    (S (S (S (S (S (S (S (S (S (S (S (S (S (S (S (S (S (S (S (S (S (S (S (S
    (S (S (S (S (S (S (S (S (S (S (S (S (S (S (S (S (S (S (S (S (S (S (S (S
    (S (S (S (S (S (S (S (S (S (S (S (S (S (S (S (S
    O))))))))))))))))))))))))))))))))))))))))))))))))))))))))))))))))))))))))))))))))))))))))))))))))))))))))))))))))
| X72 ->
  S (S (S (S (S (S (S (S (S (S (S (S (S (S (S (S (S (S (S (S (S (S (S (S (S
    (S (S (S (S (S (S (S (S (S (S (S (S (S (S (S (S (S (S (S (S (S (S (S (S
    (S (S (S (S (S (S (S (S (S (S (S (S (S (S (S (S (S (S (S (S (S (S (S (S
    (S (S (S (S (S (S (S (S (S (S (S (S (S (S (S (S (S (S (S (S (S (S (S (S
    (S (S (S (S (S (S (S (S (S (S (S (S (S (S (S (S (S
    O)))))))))))))))))))))))))))))))))))))))))))))))))))))))))))))))))))))))))))))))))))))))))))))))))))))))))))))))))
| X73 ->
  S (S (S (S (S (S (S (S (S (S (S (S (S (S (S (S (S (S (S (S (S (S (S (S (S
    (S (S (S (S (S (S (S (S (S (S (S (S (S (S (S (S (S (S (S (S (S (S (S (S
    (S (S (S (S (S (S (S (S (S (S (S (S (S (S (S (S (S (S (S (S (S (S (S (S
    (S (S (S (S (S (S (S (S (S (S (S (S (S (S (S (S (S (S (S (S (S (S (S (S
    (S (S (S (S (S (S (S (S (S (S (S (S (S (S (S (S (S (S
    O))))))))))))))))))))))))))))))))))))))))))))))))))))))))))))))))))))))))))))))))))))))))))))))))))))))))))))))))))
| X74 ->
  S (S (S (S (S (S (S (S (S (S (S (S (S (S (S (S (S (S (S (S (S (S (S (S (S
    (S (S (S (S (S (S (S (S (S (S (S (S (S (S (S (S (S (S (S (S (S (S (S (S
    (S (S (S (S (S (S (S (S (S (S (S (S (S (S (S (S (S (S (S (S (S (S (S (S
    (S (S (S (S (S (S (S (S (S (S (S (S (S (S (S (S (S (S (S (S (S (S (S (S
    (S (S (S (S (S (S (S (S (S (S (S (S (S (S (S (S (S (S (S
    O)))))))))))))))))))))))))))))))))))))))))))))))))))))))))))))))))))))))))))))))))))))))))))))))))))))))))))))))))))
| X75 ->
  S (S (S (S (S (S (S (S (S (S (S (S (S (S (S (S (S (S (S (S (S (S (S (S (S
    (S (S (S (S (S (S (S (S (S (S (S (S (S (S (S (S (S (S (S (S (S (S (S (S
    (S (S (S (S (S (S (S (S (S (S (S (S (S (S (S (S (S (S (S (S (S (S (S (S
    (S (S (S (S (S (S (S (S (S (S (S (S (S (S (S (S (S (S (S (S (S (S (S (S
    (S (S (S (S (S (S (S (S (S (S (S (S (S (S (S (S (S (S (S (S
    O))))))))))))))))))))))))))))))))))))))))))))))))))))))))))))))))))))))))))))))))))))))))))))))))))))))))))))))))))))
| X76 ->
  S (S (S (S (S (S (S (S (S (S (S (S (S (S (S (S (S (S (S (S (S (S (S (S (S
    (S (S (S (S (S (S (S (S (S (S (S (S (S (S (S (S (S (S (S (S (S (S (S (S
    (S (S (S (S (S (S (S (S (S (S (S (S (S (S (S (S (S (S (S (S (S (S (S (S
    (S (S (S (S (S (S (S (S (S (S (S (S (S (S (S (S (S (S (S (S (S (S (S (S
    (S (S (S (S (S (S (S (S (S (S (S (S (S (S (S (S (S (S (S (S (S
    O)))))))))))))))))))))))))))))))))))))))))))))))))))))))))))))))))))))))))))))))))))))))))))))))))))))))))))))))))))))
| X77 ->
  S (S (S (S (S (S (S (S (S (S (S (S (S (S (S (S (S (S (S (S (S (S (S (S (S
    (S (S (S (S (S (S (S (S (S (S (S (S (S (S (S (S (S (S (S (S (S (S (S (S
    (S (S (S (S (S (S (S (S (S (S (S (S (S (S (S (S (S (S (S (S (S (S (S (S
    (S (S (S (S (S (S (S (S (S (S (S (S (S (S (S (S (S (S (S (S (S (S (S (S
    (S (S (S (S (S (S (S (S (S (S (S (S (S (S (S (S (S (S (S (S (S (S
    O))))))))))))))))))))))))))))))))))))))))))))))))))))))))))))))))))))))))))))))))))))))))))))))))))))))))))))))))))))))
| X78 ->
  S (S (S (S (S (S (S (S (S (S (S (S (S (S (S (S (S (S (S (S (S (S (S (S (S
    (S (S (S (S (S (S (S (S (S (S (S (S (S (S (S (S (S (S (S (S (S (S (S (S
    (S (S (S (S (S (S (S (S (S (S (S (S (S (S (S (S (S (S (S (S (S (S (S (S
    (S (S (S (S (S (S (S (S (S (S (S (S (S (S (S (S (S (S (S (S (S (S (S (S
    (S (S (S (S (S (S (S (S (S (S (S (S (S (S (S (S (S (S (S (S (S (S (S
    O)))))))))))))))))))))))))))))))))))))))))))))))))))))))))))))))))))))))))))))))))))))))))))))))))))))))))))))))))))))))
| X79 ->
  S (S (S (S (S (S (S (S (S (S (S (S (S (S (S (S (S (S (S (S (S (S (S (S (S
    (S (S (S (S (S (S (S (S (S (S (S (S (S (S (S (S (S (S (S (S (S (S (S (S
    (S (S (S (S (S (S (S (S (S (S (S (S (S (S (S (S (S (S (S (S (S (S (S (S
    (S (S (S (S (S (S (S (S (S (S (S (S (S (S (S (S (S (S (S (S (S (S (S (S
    (S (S (S (S (S (S (S (S (S (S (S (S (S (S (S (S (S (S (S (S (S (S (S (S
    O))))))))))))))))))))))))))))))))))))))))))))))))))))))))))))))))))))))))))))))))))))))))))))))))))))))))))))))))))))))))
| X7a ->
  S (S (S (S (S (S (S (S (S (S (S (S (S (S (S (S (S (S (S (S (S (S (S (S (S
    (S (S (S (S (S (S (S (S (S (S (S (S (S (S (S (S (S (S (S (S (S (S (S (S
    (S (S (S (S (S (S (S (S (S (S (S (S (S (S (S (S (S (S (S (S (S (S (S (S
    (S (S (S (S (S (S (S (S (S (S (S (S (S (S (S (S (S (S (S (S (S (S (S (S
    (S (S (S (S (S (S (S (S (S (S (S (S (S (S (S (S (S (S (S (S (S (S (S (S
    (S
    O)))))))))))))))))))))))))))))))))))))))))))))))))))))))))))))))))))))))))))))))))))))))))))))))))))))))))))))))))))))))))
| X7b ->
  S (S (S (S (S (S (S (S (S (S (S (S (S (S (S (S (S (S (S (S (S (S (S (S (S
    (S (S (S (S (S (S (S (S (S (S (S (S (S (S (S (S (S (S (S (S (S (S (S (S
    (S (S (S (S (S (S (S (S (S (S (S (S (S (S (S (S (S (S (S (S (S (S (S (S
    (S (S (S (S (S (S (S (S (S (S (S (S (S (S (S (S (S (S (S (S (S (S (S (S
    (S (S (S (S (S (S (S (S (S (S (S (S (S (S (S (S (S (S (S (S (S (S (S (S
    (S (S
    O))))))))))))))))))))))))))))))))))))))))))))))))))))))))))))))))))))))))))))))))))))))))))))))))))))))))))))))))))))))))))
| X7c ->
  S (S (S (S (S (S (S (S (S (S (S (S (S (S (S (S (S (S (S (S (S (S (S (S (S
    (S (S (S (S (S (S (S (S (S (S (S (S (S (S (S (S (S (S (S (S (S (S (S (S
    (S (S (S (S (S (S (S (S (S (S (S (S (S (S (S (S (S (S (S (S (S (S (S (S
    (S (S (S (S (S (S (S (S (S (S (S (S (S (S (S (S (S (S (S (S (S (S (S (S
    (S (S (S (S (S (S (S (S (S (S (S (S (S (S (S (S (S (S (S (S (S (S (S (S
    (S (S (S
    O)))))))))))))))))))))))))))))))))))))))))))))))))))))))))))))))))))))))))))))))))))))))))))))))))))))))))))))))))))))))))))
| X7d ->
  S (S (S (S (S (S (S (S (S (S (S (S (S (S (S (S (S (S (S (S (S (S (S (S (S
    (S (S (S (S (S (S (S (S (S (S (S (S (S (S (S (S (S (S (S (S (S (S (S (S
    (S (S (S (S (S (S (S (S (S (S (S (S (S (S (S (S (S (S (S (S (S (S (S (S
    (S (S (S (S (S (S (S (S (S (S (S (S (S (S (S (S (S (S (S (S (S (S (S (S
    (S (S (S (S (S (S (S (S (S (S (S (S (S (S (S (S (S (S (S (S (S (S (S (S
    (S (S (S (S
    O))))))))))))))))))))))))))))))))))))))))))))))))))))))))))))))))))))))))))))))))))))))))))))))))))))))))))))))))))))))))))))
| X7e ->
  S (S (S (S (S (S (S (S (S (S (S (S (S (S (S (S (S (S (S (S (S (S (S (S (S
    (S (S (S (S (S (S (S (S (S (S (S (S (S (S (S (S (S (S (S (S (S (S (S (S
    (S (S (S (S (S (S (S (S (S (S (S (S (S (S (S (S (S (S (S (S (S (S (S (S
    (S (S (S (S (S (S (S (S (S (S (S (S (S (S (S (S (S (S (S (S (S (S (S (S
    (S (S (S (S (S (S (S (S (S (S (S (S (S (S (S (S (S (S (S (S (S (S (S (S
    (S (S (S (S (S
    O)))))))))))))))))))))))))))))))))))))))))))))))))))))))))))))))))))))))))))))))))))))))))))))))))))))))))))))))))))))))))))))
| X7f ->
  S (S (S (S (S (S (S (S (S (S (S (S (S (S (S (S (S (S (S (S (S (S (S (S (S
    (S (S (S (S (S (S (S (S (S (S (S (S (S (S (S (S (S (S (S (S (S (S (S (S
    (S (S (S (S (S (S (S (S (S (S (S (S (S (S (S (S (S (S (S (S (S (S (S (S
    (S (S (S (S (S (S (S (S (S (S (S (S (S (S (S (S (S (S (S (S (S (S (S (S
    (S (S (S (S (S (S (S (S (S (S (S (S (S (S (S (S (S (S (S (S (S (S (S (S
    (S (S (S (S (S (S
    O))))))))))))))))))))))))))))))))))))))))))))))))))))))))))))))))))))))))))))))))))))))))))))))))))))))))))))))))))))))))))))))
| X80 ->
  S (S (S (S (S (S (S (S (S (S (S (S (S (S (S (S (S (S (S (S (S (S (S (S (S
    (S (S (S (S (S (S (S (S (S (S (S (S (S (S (S (S (S (S (S (S (S (S (S (S
    (S (S (S (S (S (S (S (S (S (S (S (S (S (S (S (S (S (S (S (S (S (S (S (S
    (S (S (S (S (S (S (S (S (S (S (S (S (S (S (S (S (S (S (S (S (S (S (S (S
    (S (S (S (S (S (S (S (S (S (S (S (S (S (S (S (S (S (S (S (S (S (S (S (S
    (S (S (S (S (S (S (S
    O)))))))))))))))))))))))))))))))))))))))))))))))))))))))))))))))))))))))))))))))))))))))))))))))))))))))))))))))))))))))))))))))
| X81 ->
  S (S (S (S (S (S (S (S (S (S (S (S (S (S (S (S (S (S (S (S (S (S (S (S (S
    (S (S (S (S (S (S (S (S (S (S (S (S (S (S (S (S (S (S (S (S (S (S (S (S
    (S (S (S (S (S (S (S (S (S (S (S (S (S (S (S (S (S (S (S (S (S (S (S (S
    (S (S (S (S (S (S (S (S (S (S (S (S (S (S (S (S (S (S (S (S (S (S (S (S
    (S (S (S (S (S (S (S (S (S (S (S (S (S (S (S (S (S (S (S (S (S (S (S (S
    (S (S (S (S (S (S (S (S
    O))))))))))))))))))))))))))))))))))))))))))))))))))))))))))))))))))))))))))))))))))))))))))))))))))))))))))))))))))))))))))))))))
| X82 ->
  S (S (S (S (S (S (S (S (S (S (S (S (S (S (S (S (S (S (S (S (S (S (S (S (S
    (S (S (S (S (S (S (S (S (S (S (S (S (S (S (S (S (S (S (S (S (S (S (S (S
    (S (S (S (S (S (S (S (S (S (S (S (S (S (S (S (S (S (S (S (S (S (S (S (S
    (S (S (S (S (S (S (S (S (S (S (S (S (S (S (S (S (S (S (S (S (S (S (S (S
    (S (S (S (S (S (S (S (S (S (S (S (S (S (S (S (S (S (S (S (S (S (S (S (S
    (S (S (S (S (S (S (S (S (S
    O)))))))))))))))))))))))))))))))))))))))))))))))))))))))))))))))))))))))))))))))))))))))))))))))))))))))))))))))))))))))))))))))))
| X83 ->
  S (S (S (S (S (S (S (S (S (S (S (S (S (S (S (S (S (S (S (S (S (S (S (S (S
    (S (S (S (S (S (S (S (S (S (S (S (S (S (S (S (S (S (S (S (S (S (S (S (S
    (S (S (S (S (S (S (S (S (S (S (S (S (S (S (S (S (S (S (S (S (S (S (S (S
    (S (S (S (S (S (S (S (S (S (S (S (S (S (S (S (S (S (S (S (S (S (S (S (S
    (S (S (S (S (S (S (S (S (S (S (S (S (S (S (S (S (S (S (S (S (S (S (S (S
    (S (S (S (S (S (S (S (S (S (S
    O))))))))))))))))))))))))))))))))))))))))))))))))))))))))))))))))))))))))))))))))))))))))))))))))))))))))))))))))))))))))))))))))))
| X84 ->
  S (S (S (S (S (S (S (S (S (S (S (S (S (S (S (S (S (S (S (S (S (S (S (S (S
    (S (S (S (S (S (S (S (S (S (S (S (S (S (S (S (S (S (S (S (S (S (S (S (S
    (S (S (S (S (S (S (S (S (S (S (S (S (S (S (S (S (S (S (S (S (S (S (S (S
    (S (S (S (S (S (S (S (S (S (S (S (S (S (S (S (S (S (S (S (S (S (S (S (S
    (S (S (S (S (S (S (S (S (S (S (S (S (S (S (S (S (S (S (S (S (S (S (S (S
    (S (S (S (S (S (S (S (S (S (S (S
    O)))))))))))))))))))))))))))))))))))))))))))))))))))))))))))))))))))))))))))))))))))))))))))))))))))))))))))))))))))))))))))))))))))
| X85 ->
  S (S (S (S (S (S (S (S (S (S (S (S (S (S (S (S (S (S (S (S (S (S (S (S (S
    (S (S (S (S (S (S (S (S (S (S (S (S (S (S (S (S (S (S (S (S (S (S (S (S
    (S (S (S (S (S (S (S (S (S (S (S (S (S (S (S (S (S (S (S (S (S (S (S (S
    (S (S (S (S (S (S (S (S (S (S (S (S (S (S (S (S (S (S (S (S (S (S (S (S
    (S (S (S (S (S (S (S (S (S (S (S (S (S (S (S (S (S (S (S (S (S (S (S (S
    (S (S (S (S (S (S (S (S (S (S (S (S
    O))))))))))))))))))))))))))))))))))))))))))))))))))))))))))))))))))))))))))))))))))))))))))))))))))))))))))))))))))))))))))))))))))))
| X86 ->
  S (S (S (S (S (S (S (S (S (S (S (S (S (S (S (S (S (S (S (S (S (S (S (S (S
    (S (S (S (S (S (S (S (S (S (S (S (S (S (S (S (S (S (S (S (S (S (S (S (S
    (S (S (S (S (S (S (S (S (S (S (S (S (S (S (S (S (S (S (S (S (S (S (S (S
    (S (S (S (S (S (S (S (S (S (S (S (S (S (S (S (S (S (S (S (S (S (S (S (S
    (S (S (S (S (S (S (S (S (S (S (S (S (S (S (S (S (S (S (S (S (S (S (S (S
    (S (S (S (S (S (S (S (S (S (S (S (S (S
    O)))))))))))))))))))))))))))))))))))))))))))))))))))))))))))))))))))))))))))))))))))))))))))))))))))))))))))))))))))))))))))))))))))))
| X87 ->
  S (S (S (S (S (S (S (S (S (S (S (S (S (S (S (S (S (S (S (S (S (S (S (S (S
    (S (S (S (S (S (S (S (S (S (S (S (S (S (S (S (S (S (S (S (S (S (S (S (S
    (S (S (S (S (S (S (S (S (S (S (S (S (S (S (S (S (S (S (S (S (S (S (S (S
    (S (S (S (S (S (S (S (S (S (S (S (S (S (S (S (S (S (S (S (S (S (S (S (S
    (S (S (S (S (S (S (S (S (S (S (S (S (S (S (S (S (S (S (S (S (S (S (S (S
    (S (S (S (S (S (S (S (S (S (S (S (S (S (S
    O))))))))))))))))))))))))))))))))))))))))))))))))))))))))))))))))))))))))))))))))))))))))))))))))))))))))))))))))))))))))))))))))))))))
| X88 ->
  S (S (S (S (S (S (S (S (S (S (S (S (S (S (S (S (S (S (S (S (S (S (S (S (S
    (S (S (S (S (S (S (S (S (S (S (S (S (S (S (S (S (S (S (S (S (S (S (S (S
    (S (S (S (S (S (S (S (S (S (S (S (S (S (S (S (S (S (S (S (S (S (S (S (S
    (S (S (S (S (S (S (S (S (S (S (S (S (S (S (S (S (S (S (S (S (S (S (S (S
    (S (S (S (S (S (S (S (S (S (S (S (S (S (S (S (S (S (S (S (S (S (S (S (S
    (S (S (S (S (S (S (S (S (S (S (S (S (S (S (S
    O)))))))))))))))))))))))))))))))))))))))))))))))))))))))))))))))))))))))))))))))))))))))))))))))))))))))))))))))))))))))))))))))))))))))
| X89 ->
  S (S (S (S (S (S (S (S (S (S (S (S (S (S (S (S (S (S (S (S (S (S (S (S (S
    (S (S (S (S (S (S (S (S (S (S (S (S (S (S (S (S (S (S (S (S (S (S (S (S
    (S (S (S (S (S (S (S (S (S (S (S (S (S (S (S (S (S (S (S (S (S (S (S (S
    (S (S (S (S (S (S (S (S (S (S (S (S (S (S (S (S (S (S (S (S (S (S (S (S
    (S (S (S (S (S (S (S (S (S (S (S (S (S (S (S (S (S (S (S (S (S (S (S (S
    (S (S (S (S (S (S (S (S (S (S (S (S (S (S (S (S
    O))))))))))))))))))))))))))))))))))))))))))))))))))))))))))))))))))))))))))))))))))))))))))))))))))))))))))))))))))))))))))))))))))))))))
| X8a ->
  S (S (S (S (S (S (S (S (S (S (S (S (S (S (S (S (S (S (S (S (S (S (S (S (S
    (S (S (S (S (S (S (S (S (S (S (S (S (S (S (S (S (S (S (S (S (S (S (S (S
    (S (S (S (S (S (S (S (S (S (S (S (S (S (S (S (S (S (S (S (S (S (S (S (S
    (S (S (S (S (S (S (S (S (S (S (S (S (S (S (S (S (S (S (S (S (S (S (S (S
    (S (S (S (S (S (S (S (S (S (S (S (S (S (S (S (S (S (S (S (S (S (S (S (S
    (S (S (S (S (S (S (S (S (S (S (S (S (S (S (S (S (S
    O)))))))))))))))))))))))))))))))))))))))))))))))))))))))))))))))))))))))))))))))))))))))))))))))))))))))))))))))))))))))))))))))))))))))))
| X8b ->
  S (S (S (S (S (S (S (S (S (S (S (S (S (S (S (S (S (S (S (S (S (S (S (S (S
    (S (S (S (S (S (S (S (S (S (S (S (S (S (S (S (S (S (S (S (S (S (S (S (S
    (S (S (S (S (S (S (S (S (S (S (S (S (S (S (S (S (S (S (S (S (S (S (S (S
    (S (S (S (S (S (S (S (S (S (S (S (S (S (S (S (S (S (S (S (S (S (S (S (S
    (S (S (S (S (S (S (S (S (S (S (S (S (S (S (S (S (S (S (S (S (S (S (S (S
    (S (S (S (S (S (S (S (S (S (S (S (S (S (S (S (S (S (S
    O))))))))))))))))))))))))))))))))))))))))))))))))))))))))))))))))))))))))))))))))))))))))))))))))))))))))))))))))))))))))))))))))))))))))))
| X8c ->
  S (S (S (S (S (S (S (S (S (S (S (S (S (S (S (S (S (S (S (S (S (S (S (S (S
    (S (S (S (S (S (S (S (S (S (S (S (S (S (S (S (S (S (S (S (S (S (S (S (S
    (S (S (S (S (S (S (S (S (S (S (S (S (S (S (S (S (S (S (S (S (S (S (S (S
    (S (S (S (S (S (S (S (S (S (S (S (S (S (S (S (S (S (S (S (S (S (S (S (S
    (S (S (S (S (S (S (S (S (S (S (S (S (S (S (S (S (S (S (S (S (S (S (S (S
    (S (S (S (S (S (S (S (S (S (S (S (S (S (S (S (S (S (S (S
    O)))))))))))))))))))))))))))))))))))))))))))))))))))))))))))))))))))))))))))))))))))))))))))))))))))))))))))))))))))))))))))))))))))))))))))
| X8d ->
  S (S (S (S (S (S (S (S (S (S (S (S (S (S (S (S (S (S (S (S (S (S (S (S (S
    (S (S (S (S (S (S (S (S (S (S (S (S (S (S (S (S (S (S (S (S (S (S (S (S
    (S (S (S (S (S (S (S (S (S (S (S (S (S (S (S (S (S (S (S (S (S (S (S (S
    (S (S (S (S (S (S (S (S (S (S (S (S (S (S (S (S (S (S (S (S (S (S (S (S
    (S (S (S (S (S (S (S (S (S (S (S (S (S (S (S (S (S (S (S (S (S (S (S (S
    (S (S (S (S (S (S (S (S (S (S (S (S (S (S (S (S (S (S (S (S
    O))))))))))))))))))))))))))))))))))))))))))))))))))))))))))))))))))))))))))))))))))))))))))))))))))))))))))))))))))))))))))))))))))))))))))))
| X8e ->
  S (S (S (S (S (S (S (S (S (S (S (S (S (S (S (S (S (S (S (S (S (S (S (S (S
    (S (S (S (S (S (S (S (S (S (S (S (S (S (S (S (S (S (S (S (S (S (S (S (S
    (S (S (S (S (S (S (S (S (S (S (S (S (S (S (S (S (S (S (S (S (S (S (S (S
    (S (S (S (S (S (S (S (S (S (S (S (S (S (S (S (S (S (S (S (S (S (S (S (S
    (S (S (S (S (S (S (S (S (S (S (S (S (S (S (S (S (S (S (S (S (S (S (S (S
    (S (S (S (S (S (S (S (S (S (S (S (S (S (S (S (S (S (S (S (S (S
    O)))))))))))))))))))))))))))))))))))))))))))))))))))))))))))))))))))))))))))))))))))))))))))))))))))))))))))))))))))))))))))))))))))))))))))))
| X8f ->
  S (S (S (S (S (S (S (S (S (S (S (S (S (S (S (S (S (S (S (S (S (S (S (S (S
    (S (S (S (S (S (S (S (S (S (S (S (S (S (S (S (S (S (S (S (S (S (S (S (S
    (S (S (S (S (S (S (S (S (S (S (S (S (S (S (S (S (S (S (S (S (S (S (S (S
    (S (S (S (S (S (S (S (S (S (S (S (S (S (S (S (S (S (S (S (S (S (S (S (S
    (S (S (S (S (S (S (S (S (S (S (S (S (S (S (S (S (S (S (S (S (S (S (S (S
    (S (S (S (S (S (S (S (S (S (S (S (S (S (S (S (S (S (S (S (S (S (S
    O))))))))))))))))))))))))))))))))))))))))))))))))))))))))))))))))))))))))))))))))))))))))))))))))))))))))))))))))))))))))))))))))))))))))))))))
| X90 ->
  S (S (S (S (S (S (S (S (S (S (S (S (S (S (S (S (S (S (S (S (S (S (S (S (S
    (S (S (S (S (S (S (S (S (S (S (S (S (S (S (S (S (S (S (S (S (S (S (S (S
    (S (S (S (S (S (S (S (S (S (S (S (S (S (S (S (S (S (S (S (S (S (S (S (S
    (S (S (S (S (S (S (S (S (S (S (S (S (S (S (S (S (S (S (S (S (S (S (S (S
    (S (S (S (S (S (S (S (S (S (S (S (S (S (S (S (S (S (S (S (S (S (S (S (S
    (S (S (S (S (S (S (S (S (S (S (S (S (S (S (S (S (S (S (S (S (S (S (S
    O)))))))))))))))))))))))))))))))))))))))))))))))))))))))))))))))))))))))))))))))))))))))))))))))))))))))))))))))))))))))))))))))))))))))))))))))
| X91 ->
  S (S (S (S (S (S (S (S (S (S (S (S (S (S (S (S (S (S (S (S (S (S (S (S (S
    (S (S (S (S (S (S (S (S (S (S (S (S (S (S (S (S (S (S (S (S (S (S (S (S
    (S (S (S (S (S (S (S (S (S (S (S (S (S (S (S (S (S (S (S (S (S (S (S (S
    (S (S (S (S (S (S (S (S (S (S (S (S (S (S (S (S (S (S (S (S (S (S (S (S
    (S (S (S (S (S (S (S (S (S (S (S (S (S (S (S (S (S (S (S (S (S (S (S (S
    (S (S (S (S (S (S (S (S (S (S (S (S (S (S (S (S (S (S (S (S (S (S (S (S
    O))))))))))))))))))))))))))))))))))))))))))))))))))))))))))))))))))))))))))))))))))))))))))))))))))))))))))))))))))))))))))))))))))))))))))))))))
| X92 ->
  S (S (S (S (S (S (S (S (S (S (S (S (S (S (S (S (S (S (S (S (S (S (S (S (S
    (S (S (S (S (S (S (S (S (S (S (S (S (S (S (S (S (S (S (S (S (S (S (S (S
    (S (S (S (S (S (S (S (S (S (S (S (S (S (S (S (S (S (S (S (S (S (S (S (S
    (S (S (S (S (S (S (S (S (S (S (S (S (S (S (S (S (S (S (S (S (S (S (S (S
    (S (S (S (S (S (S (S (S (S (S (S (S (S (S (S (S (S (S (S (S (S (S (S (S
    (S (S (S (S (S (S (S (S (S (S (S (S (S (S (S (S (S (S (S (S (S (S (S (S
    (S
    O)))))))))))))))))))))))))))))))))))))))))))))))))))))))))))))))))))))))))))))))))))))))))))))))))))))))))))))))))))))))))))))))))))))))))))))))))
| X93 ->
  S (S (S (S (S (S (S (S (S (S (S (S (S (S (S (S (S (S (S (S (S (S (S (S (S
    (S (S (S (S (S (S (S (S (S (S (S (S (S (S (S (S (S (S (S (S (S (S (S (S
    (S (S (S (S (S (S (S (S (S (S (S (S (S (S (S (S (S (S (S (S (S (S (S (S
    (S (S (S (S (S (S (S (S (S (S (S (S (S (S (S (S (S (S (S (S (S (S (S (S
    (S (S (S (S (S (S (S (S (S (S (S (S (S (S (S (S (S (S (S (S (S (S (S (S
    (S (S (S (S (S (S (S (S (S (S (S (S (S (S (S (S (S (S (S (S (S (S (S (S
    (S (S
    O))))))))))))))))))))))))))))))))))))))))))))))))))))))))))))))))))))))))))))))))))))))))))))))))))))))))))))))))))))))))))))))))))))))))))))))))))
| X94 ->
  S (S (S (S (S (S (S (S (S (S (S (S (S (S (S (S (S (S (S (S (S (S (S (S (S
    (S (S (S (S (S (S (S (S (S (S (S (S (S (S (S (S (S (S (S (S (S (S (S (S
    (S (S (S (S (S (S (S (S (S (S (S (S (S (S (S (S (S (S (S (S (S (S (S (S
    (S (S (S (S (S (S (S (S (S (S (S (S (S (S (S (S (S (S (S (S (S (S (S (S
    (S (S (S (S (S (S (S (S (S (S (S (S (S (S (S (S (S (S (S (S (S (S (S (S
    (S (S (S (S (S (S (S (S (S (S (S (S (S (S (S (S (S (S (S (S (S (S (S (S
    (S (S (S
    O)))))))))))))))))))))))))))))))))))))))))))))))))))))))))))))))))))))))))))))))))))))))))))))))))))))))))))))))))))))))))))))))))))))))))))))))))))
| X95 ->
  S (S (S (S (S (S (S (S (S (S (S (S (S (S (S (S (S (S (S (S (S (S (S (S (S
    (S (S (S (S (S (S (S (S (S (S (S (S (S (S (S (S (S (S (S (S (S (S (S (S
    (S (S (S (S (S (S (S (S (S (S (S (S (S (S (S (S (S (S (S (S (S (S (S (S
    (S (S (S (S (S (S (S (S (S (S (S (S (S (S (S (S (S (S (S (S (S (S (S (S
    (S (S (S (S (S (S (S (S (S (S (S (S (S (S (S (S (S (S (S (S (S (S (S (S
    (S (S (S (S (S (S (S (S (S (S (S (S (S (S (S (S (S (S (S (S (S (S (S (S
    (S (S (S (S
    O))))))))))))))))))))))))))))))))))))))))))))))))))))))))))))))))))))))))))))))))))))))))))))))))))))))))))))))))))))))))))))))))))))))))))))))))))))
| X96 ->
  S (S (S (S (S (S (S (S (S (S (S (S (S (S (S (S (S (S (S (S (S (S (S (S (S
    (S (S (S (S (S (S (S (S (S (S (S (S (S (S (S (S (S (S (S (S (S (S (S (S
    (S (S (S (S (S (S (S (S (S (S (S (S (S (S (S (S (S (S (S (S (S (S (S (S
    (S (S (S (S (S (S (S (S (S (S (S (S (S (S (S (S (S (S (S (S (S (S (S (S
    (S (S (S (S (S (S (S (S (S (S (S (S (S (S (S (S (S (S (S (S (S (S (S (S
    (S (S (S (S (S (S (S (S (S (S (S (S (S (S (S (S (S (S (S (S (S (S (S (S
    (S (S (S (S (S
    O)))))))))))))))))))))))))))))))))))))))))))))))))))))))))))))))))))))))))))))))))))))))))))))))))))))))))))))))))))))))))))))))))))))))))))))))))))))
| X97 ->
  S (S (S (S (S (S (S (S (S (S (S (S (S (S (S (S (S (S (S (S (S (S (S (S (S
    (S (S (S (S (S (S (S (S (S (S (S (S (S (S (S (S (S (S (S (S (S (S (S (S
    (S (S (S (S (S (S (S (S (S (S (S (S (S (S (S (S (S (S (S (S (S (S (S (S
    (S (S (S (S (S (S (S (S (S (S (S (S (S (S (S (S (S (S (S (S (S (S (S (S
    (S (S (S (S (S (S (S (S (S (S (S (S (S (S (S (S (S (S (S (S (S (S (S (S
    (S (S (S (S (S (S (S (S (S (S (S (S (S (S (S (S (S (S (S (S (S (S (S (S
    (S (S (S (S (S (S
    O))))))))))))))))))))))))))))))))))))))))))))))))))))))))))))))))))))))))))))))))))))))))))))))))))))))))))))))))))))))))))))))))))))))))))))))))))))))
| X98 ->
  S (S (S (S (S (S (S (S (S (S (S (S (S (S (S (S (S (S (S (S (S (S (S (S (S
    (S (S (S (S (S (S (S (S (S (S (S (S (S (S (S (S (S (S (S (S (S (S (S (S
    (S (S (S (S (S (S (S (S (S (S (S (S (S (S (S (S (S (S (S (S (S (S (S (S
    (S (S (S (S (S (S (S (S (S (S (S (S (S (S (S (S (S (S (S (S (S (S (S (S
    (S (S (S (S (S (S (S (S (S (S (S (S (S (S (S (S (S (S (S (S (S (S (S (S
    (S (S (S (S (S (S (S (S (S (S (S (S (S (S (S (S (S (S (S (S (S (S (S (S
    (S (S (S (S (S (S (S
    O)))))))))))))))))))))))))))))))))))))))))))))))))))))))))))))))))))))))))))))))))))))))))))))))))))))))))))))))))))))))))))))))))))))))))))))))))))))))
| X99 ->
  S (S (S (S (S (S (S (S (S (S (S (S (S (S (S (S (S (S (S (S (S (S (S (S (S
    (S (S (S (S (S (S (S (S (S (S (S (S (S (S (S (S (S (S (S (S (S (S (S (S
    (S (S (S (S (S (S (S (S (S (S (S (S (S (S (S (S (S (S (S (S (S (S (S (S
    (S (S (S (S (S (S (S (S (S (S (S (S (S (S (S (S (S (S (S (S (S (S (S (S
    (S (S (S (S (S (S (S (S (S (S (S (S (S (S (S (S (S (S (S (S (S (S (S (S
    (S (S (S (S (S (S (S (S (S (S (S (S (S (S (S (S (S (S (S (S (S (S (S (S
    (S (S (S (S (S (S (S (S
    O))))))))))))))))))))))))))))))))))))))))))))))))))))))))))))))))))))))))))))))))))))))))))))))))))))))))))))))))))))))))))))))))))))))))))))))))))))))))
| X9a ->
  S (S (S (S (S (S (S (S (S (S (S (S (S (S (S (S (S (S (S (S (S (S (S (S (S
    (S (S (S (S (S (S (S (S (S (S (S (S (S (S (S (S (S (S (S (S (S (S (S (S
    (S (S (S (S (S (S (S (S (S (S (S (S (S (S (S (S (S (S (S (S (S (S (S (S
    (S (S (S (S (S (S (S (S (S (S (S (S (S (S (S (S (S (S (S (S (S (S (S (S
    (S (S (S (S (S (S (S (S (S (S (S (S (S (S (S (S (S (S (S (S (S (S (S (S
    (S (S (S (S (S (S (S (S (S (S (S (S (S (S (S (S (S (S (S (S (S (S (S (S
    (S (S (S (S (S (S (S (S (S
    O)))))))))))))))))))))))))))))))))))))))))))))))))))))))))))))))))))))))))))))))))))))))))))))))))))))))))))))))))))))))))))))))))))))))))))))))))))))))))
| X9b ->
  S (S (S (S (S (S (S (S (S (S (S (S (S (S (S (S (S (S (S (S (S (S (S (S (S
    (S (S (S (S (S (S (S (S (S (S (S (S (S (S (S (S (S (S (S (S (S (S (S (S
    (S (S (S (S (S (S (S (S (S (S (S (S (S (S (S (S (S (S (S (S (S (S (S (S
    (S (S (S (S (S (S (S (S (S (S (S (S (S (S (S (S (S (S (S (S (S (S (S (S
    (S (S (S (S (S (S (S (S (S (S (S (S (S (S (S (S (S (S (S (S (S (S (S (S
    (S (S (S (S (S (S (S (S (S (S (S (S (S (S (S (S (S (S (S (S (S (S (S (S
    (S (S (S (S (S (S (S (S (S (S
    O))))))))))))))))))))))))))))))))))))))))))))))))))))))))))))))))))))))))))))))))))))))))))))))))))))))))))))))))))))))))))))))))))))))))))))))))))))))))))
| X9c ->
  S (S (S (S (S (S (S (S (S (S (S (S (S (S (S (S (S (S (S (S (S (S (S (S (S
    (S (S (S (S (S (S (S (S (S (S (S (S (S (S (S (S (S (S (S (S (S (S (S (S
    (S (S (S (S (S (S (S (S (S (S (S (S (S (S (S (S (S (S (S (S (S (S (S (S
    (S (S (S (S (S (S (S (S (S (S (S (S (S (S (S (S (S (S (S (S (S (S (S (S
    (S (S (S (S (S (S (S (S (S (S (S (S (S (S (S (S (S (S (S (S (S (S (S (S
    (S (S (S (S (S (S (S (S (S (S (S (S (S (S (S (S (S (S (S (S (S (S (S (S
    (S (S (S (S (S (S (S (S (S (S (S
    O)))))))))))))))))))))))))))))))))))))))))))))))))))))))))))))))))))))))))))))))))))))))))))))))))))))))))))))))))))))))))))))))))))))))))))))))))))))))))))
| X9d ->
  S (S (S (S (S (S (S (S (S (S (S (S (S (S (S (S (S (S (S (S (S (S (S (S (S
    (S (S (S (S (S (S (S (S (S (S (S (S (S (S (S (S (S (S (S (S (S (S (S (S
    (S (S (S (S (S (S (S (S (S (S (S (S (S (S (S (S (S (S (S (S (S (S (S (S
    (S (S (S (S (S (S (S (S (S (S (S (S (S (S (S (S (S (S (S (S (S (S (S (S
    (S (S (S (S (S (S (S (S (S (S (S (S (S (S (S (S (S (S (S (S (S (S (S (S
    (S (S (S (S (S (S (S (S (S (S (S (S (S (S (S (S (S (S (S (S (S (S (S (S
    (S (S (S (S (S (S (S (S (S (S (S (S
    O))))))))))))))))))))))))))))))))))))))))))))))))))))))))))))))))))))))))))))))))))))))))))))))))))))))))))))))))))))))))))))))))))))))))))))))))))))))))))))
| X9e ->
  S (S (S (S (S (S (S (S (S (S (S (S (S (S (S (S (S (S (S (S (S (S (S (S (S
    (S (S (S (S (S (S (S (S (S (S (S (S (S (S (S (S (S (S (S (S (S (S (S (S
    (S (S (S (S (S (S (S (S (S (S (S (S (S (S (S (S (S (S (S (S (S (S (S (S
    (S (S (S (S (S (S (S (S (S (S (S (S (S (S (S (S (S (S (S (S (S (S (S (S
    (S (S (S (S (S (S (S (S (S (S (S (S (S (S (S (S (S (S (S (S (S (S (S (S
    (S (S (S (S (S (S (S (S (S (S (S (S (S (S (S (S (S (S (S (S (S (S (S (S
    (S (S (S (S (S (S (S (S (S (S (S (S (S
    O)))))))))))))))))))))))))))))))))))))))))))))))))))))))))))))))))))))))))))))))))))))))))))))))))))))))))))))))))))))))))))))))))))))))))))))))))))))))))))))
| X9f ->
  S (S (S (S (S (S (S (S (S (S (S (S (S (S (S (S (S (S (S (S (S (S (S (S (S
    (S (S (S (S (S (S (S (S (S (S (S (S (S (S (S (S (S (S (S (S (S (S (S (S
    (S (S (S (S (S (S (S (S (S (S (S (S (S (S (S (S (S (S (S (S (S (S (S (S
    (S (S (S (S (S (S (S (S (S (S (S (S (S (S (S (S (S (S (S (S (S (S (S (S
    (S (S (S (S (S (S (S (S (S (S (S (S (S (S (S (S (S (S (S (S (S (S (S (S
    (S (S (S (S (S (S (S (S (S (S (S (S (S (S (S (S (S (S (S (S (S (S (S (S
    (S (S (S (S (S (S (S (S (S (S (S (S (S (S
    O))))))))))))))))))))))))))))))))))))))))))))))))))))))))))))))))))))))))))))))))))))))))))))))))))))))))))))))))))))))))))))))))))))))))))))))))))))))))))))))
| Xa0 ->
  S (S (S (S (S (S (S (S (S (S (S (S (S (S (S (S (S (S (S (S (S (S (S (S (S
    (S (S (S (S (S (S (S (S (S (S (S (S (S (S (S (S (S (S (S (S (S (S (S (S
    (S (S (S (S (S (S (S (S (S (S (S (S (S (S (S (S (S (S (S (S (S (S (S (S
    (S (S (S (S (S (S (S (S (S (S (S (S (S (S (S (S (S (S (S (S (S (S (S (S
    (S (S (S (S (S (S (S (S (S (S (S (S (S (S (S (S (S (S (S (S (S (S (S (S
    (S (S (S (S (S (S (S (S (S (S (S (S (S (S (S (S (S (S (S (S (S (S (S (S
    (S (S (S (S (S (S (S (S (S (S (S (S (S (S (S
    O)))))))))))))))))))))))))))))))))))))))))))))))))))))))))))))))))))))))))))))))))))))))))))))))))))))))))))))))))))))))))))))))))))))))))))))))))))))))))))))))
| Xa1 ->
  S (S (S (S (S (S (S (S (S (S (S (S (S (S (S (S (S (S (S (S (S (S (S (S (S
    (S (S (S (S (S (S (S (S (S (S (S (S (S (S (S (S (S (S (S (S (S (S (S (S
    (S (S (S (S (S (S (S (S (S (S (S (S (S (S (S (S (S (S (S (S (S (S (S (S
    (S (S (S (S (S (S (S (S (S (S (S (S (S (S (S (S (S (S (S (S (S (S (S (S
    (S (S (S (S (S (S (S (S (S (S (S (S (S (S (S (S (S (S (S (S (S (S (S (S
    (S (S (S (S (S (S (S (S (S (S (S (S (S (S (S (S (S (S (S (S (S (S (S (S
    (S (S (S (S (S (S (S (S (S (S (S (S (S (S (S (S
    O))))))))))))))))))))))))))))))))))))))))))))))))))))))))))))))))))))))))))))))))))))))))))))))))))))))))))))))))))))))))))))))))))))))))))))))))))))))))))))))))
| Xa2 ->
  S (S (S (S (S (S (S (S (S (S (S (S (S (S (S (S (S (S (S (S (S (S (S (S (S
    (S (S (S (S (S (S (S (S (S (S (S (S (S (S (S (S (S (S (S (S (S (S (S (S
    (S (S (S (S (S (S (S (S (S (S (S (S (S (S (S (S (S (S (S (S (S (S (S (S
    (S (S (S (S (S (S (S (S (S (S (S (S (S (S (S (S (S (S (S (S (S (S (S (S
    (S (S (S (S (S (S (S (S (S (S (S (S (S (S (S (S (S (S (S (S (S (S (S (S
    (S (S (S (S (S (S (S (S (S (S (S (S (S (S (S (S (S (S (S (S (S (S (S (S
    (S (S (S (S (S (S (S (S (S (S (S (S (S (S (S (S (S
    O)))))))))))))))))))))))))))))))))))))))))))))))))))))))))))))))))))))))))))))))))))))))))))))))))))))))))))))))))))))))))))))))))))))))))))))))))))))))))))))))))
| Xa3 ->
  S (S (S (S (S (S (S (S (S (S (S (S (S (S (S (S (S (S (S (S (S (S (S (S (S
    (S (S (S (S (S (S (S (S (S (S (S (S (S (S (S (S (S (S (S (S (S (S (S (S
    (S (S (S (S (S (S (S (S (S (S (S (S (S (S (S (S (S (S (S (S (S (S (S (S
    (S (S (S (S (S (S (S (S (S (S (S (S (S (S (S (S (S (S (S (S (S (S (S (S
    (S (S (S (S (S (S (S (S (S (S (S (S (S (S (S (S (S (S (S (S (S (S (S (S
    (S (S (S (S (S (S (S (S (S (S (S (S (S (S (S (S (S (S (S (S (S (S (S (S
    (S (S (S (S (S (S (S (S (S (S (S (S (S (S (S (S (S (S
    O))))))))))))))))))))))))))))))))))))))))))))))))))))))))))))))))))))))))))))))))))))))))))))))))))))))))))))))))))))))))))))))))))))))))))))))))))))))))))))))))))
| Xa4 ->
  S (S (S (S (S (S (S (S (S (S (S (S (S (S (S (S (S (S (S (S (S (S (S (S (S
    (S (S (S (S (S (S (S (S (S (S (S (S (S (S (S (S (S (S (S (S (S (S (S (S
    (S (S (S (S (S (S (S (S (S (S (S (S (S (S (S (S (S (S (S (S (S (S (S (S
    (S (S (S (S (S (S (S (S (S (S (S (S (S (S (S (S (S (S (S (S (S (S (S (S
    (S (S (S (S (S (S (S (S (S (S (S (S (S (S (S (S (S (S (S (S (S (S (S (S
    (S (S (S (S (S (S (S (S (S (S (S (S (S (S (S (S (S (S (S (S (S (S (S (S
    (S (S (S (S (S (S (S (S (S (S (S (S (S (S (S (S (S (S (S
    O)))))))))))))))))))))))))))))))))))))))))))))))))))))))))))))))))))))))))))))))))))))))))))))))))))))))))))))))))))))))))))))))))))))))))))))))))))))))))))))))))))
| Xa5 ->
  S (S (S (S (S (S (S (S (S (S (S (S (S (S (S (S (S (S (S (S (S (S (S (S (S
    (S (S (S (S (S (S (S (S (S (S (S (S (S (S (S (S (S (S (S (S (S (S (S (S
    (S (S (S (S (S (S (S (S (S (S (S (S (S (S (S (S (S (S (S (S (S (S (S (S
    (S (S (S (S (S (S (S (S (S (S (S (S (S (S (S (S (S (S (S (S (S (S (S (S
    (S (S (S (S (S (S (S (S (S (S (S (S (S (S (S (S (S (S (S (S (S (S (S (S
    (S (S (S (S (S (S (S (S (S (S (S (S (S (S (S (S (S (S (S (S (S (S (S (S
    (S (S (S (S (S (S (S (S (S (S (S (S (S (S (S (S (S (S (S (S
    O))))))))))))))))))))))))))))))))))))))))))))))))))))))))))))))))))))))))))))))))))))))))))))))))))))))))))))))))))))))))))))))))))))))))))))))))))))))))))))))))))))
| Xa6 ->
  S (S (S (S (S (S (S (S (S (S (S (S (S (S (S (S (S (S (S (S (S (S (S (S (S
    (S (S (S (S (S (S (S (S (S (S (S (S (S (S (S (S (S (S (S (S (S (S (S (S
    (S (S (S (S (S (S (S (S (S (S (S (S (S (S (S (S (S (S (S (S (S (S (S (S
    (S (S (S (S (S (S (S (S (S (S (S (S (S (S (S (S (S (S (S (S (S (S (S (S
    (S (S (S (S (S (S (S (S (S (S (S (S (S (S (S (S (S (S (S (S (S (S (S (S
    (S (S (S (S (S (S (S (S (S (S (S (S (S (S (S (S (S (S (S (S (S (S (S (S
    (S (S (S (S (S (S (S (S (S (S (S (S (S (S (S (S (S (S (S (S (S
    O)))))))))))))))))))))))))))))))))))))))))))))))))))))))))))))))))))))))))))))))))))))))))))))))))))))))))))))))))))))))))))))))))))))))))))))))))))))))))))))))))))))
| Xa7 ->
  S (S (S (S (S (S (S (S (S (S (S (S (S (S (S (S (S (S (S (S (S (S (S (S (S
    (S (S (S (S (S (S (S (S (S (S (S (S (S (S (S (S (S (S (S (S (S (S (S (S
    (S (S (S (S (S (S (S (S (S (S (S (S (S (S (S (S (S (S (S (S (S (S (S (S
    (S (S (S (S (S (S (S (S (S (S (S (S (S (S (S (S (S (S (S (S (S (S (S (S
    (S (S (S (S (S (S (S (S (S (S (S (S (S (S (S (S (S (S (S (S (S (S (S (S
    (S (S (S (S (S (S (S (S (S (S (S (S (S (S (S (S (S (S (S (S (S (S (S (S
    (S (S (S (S (S (S (S (S (S (S (S (S (S (S (S (S (S (S (S (S (S (S
    O))))))))))))))))))))))))))))))))))))))))))))))))))))))))))))))))))))))))))))))))))))))))))))))))))))))))))))))))))))))))))))))))))))))))))))))))))))))))))))))))))))))
| Xa8 ->
  S (S (S (S (S (S (S (S (S (S (S (S (S (S (S (S (S (S (S (S (S (S (S (S (S
    (S (S (S (S (S (S (S (S (S (S (S (S (S (S (S (S (S (S (S (S (S (S (S (S
    (S (S (S (S (S (S (S (S (S (S (S (S (S (S (S (S (S (S (S (S (S (S (S (S
    (S (S (S (S (S (S (S (S (S (S (S (S (S (S (S (S (S (S (S (S (S (S (S (S
    (S (S (S (S (S (S (S (S (S (S (S (S (S (S (S (S (S (S (S (S (S (S (S (S
    (S (S (S (S (S (S (S (S (S (S (S (S (S (S (S (S (S (S (S (S (S (S (S (S
    (S (S (S (S (S (S (S (S (S (S (S (S (S (S (S (S (S (S (S (S (S (S (S
    O)))))))))))))))))))))))))))))))))))))))))))))))))))))))))))))))))))))))))))))))))))))))))))))))))))))))))))))))))))))))))))))))))))))))))))))))))))))))))))))))))))))))
| Xa9 ->
  S (S (S (S (S (S (S (S (S (S (S (S (S (S (S (S (S (S (S (S (S (S (S (S (S
    (S (S (S (S (S (S (S (S (S (S (S (S (S (S (S (S (S (S (S (S (S (S (S (S
    (S (S (S (S (S (S (S (S (S (S (S (S (S (S (S (S (S (S (S (S (S (S (S (S
    (S (S (S (S (S (S (S (S (S (S (S (S (S (S (S (S (S (S (S (S (S (S (S (S
    (S (S (S (S (S (S (S (S (S (S (S (S (S (S (S (S (S (S (S (S (S (S (S (S
    (S (S (S (S (S (S (S (S (S (S (S (S (S (S (S (S (S (S (S (S (S (S (S (S
    (S (S (S (S (S (S (S (S (S (S (S (S (S (S (S (S (S (S (S (S (S (S (S (S
    O))))))))))))))))))))))))))))))))))))))))))))))))))))))))))))))))))))))))))))))))))))))))))))))))))))))))))))))))))))))))))))))))))))))))))))))))))))))))))))))))))))))))
| Xaa ->
  S (S (S (S (S (S (S (S (S (S (S (S (S (S (S (S (S (S (S (S (S (S (S (S (S
    (S (S (S (S (S (S (S (S (S (S (S (S (S (S (S (S (S (S (S (S (S (S (S (S
    (S (S (S (S (S (S (S (S (S (S (S (S (S (S (S (S (S (S (S (S (S (S (S (S
    (S (S (S (S (S (S (S (S (S (S (S (S (S (S (S (S (S (S (S (S (S (S (S (S
    (S (S (S (S (S (S (S (S (S (S (S (S (S (S (S (S (S (S (S (S (S (S (S (S
    (S (S (S (S (S (S (S (S (S (S (S (S (S (S (S (S (S (S (S (S (S (S (S (S
    (S (S (S (S (S (S (S (S (S (S (S (S (S (S (S (S (S (S (S (S (S (S (S (S
    (S
    O)))))))))))))))))))))))))))))))))))))))))))))))))))))))))))))))))))))))))))))))))))))))))))))))))))))))))))))))))))))))))))))))))))))))))))))))))))))))))))))))))))))))))
| Xab ->
  S (S (S (S (S (S (S (S (S (S (S (S (S (S (S (S (S (S (S (S (S (S (S (S (S
    (S (S (S (S (S (S (S (S (S (S (S (S (S (S (S (S (S (S (S (S (S (S (S (S
    (S (S (S (S (S (S (S (S (S (S (S (S (S (S (S (S (S (S (S (S (S (S (S (S
    (S (S (S (S (S (S (S (S (S (S (S (S (S (S (S (S (S (S (S (S (S (S (S (S
    (S (S (S (S (S (S (S (S (S (S (S (S (S (S (S (S (S (S (S (S (S (S (S (S
    (S (S (S (S (S (S (S (S (S (S (S (S (S (S (S (S (S (S (S (S (S (S (S (S
    (S (S (S (S (S (S (S (S (S (S (S (S (S (S (S (S (S (S (S (S (S (S (S (S
    (S (S
    O))))))))))))))))))))))))))))))))))))))))))))))))))))))))))))))))))))))))))))))))))))))))))))))))))))))))))))))))))))))))))))))))))))))))))))))))))))))))))))))))))))))))))
| Xac ->
  S (S (S (S (S (S (S (S (S (S (S (S (S (S (S (S (S (S (S (S (S (S (S (S (S
    (S (S (S (S (S (S (S (S (S (S (S (S (S (S (S (S (S (S (S (S (S (S (S (S
    (S (S (S (S (S (S (S (S (S (S (S (S (S (S (S (S (S (S (S (S (S (S (S (S
    (S (S (S (S (S (S (S (S (S (S (S (S (S (S (S (S (S (S (S (S (S (S (S (S
    (S (S (S (S (S (S (S (S (S (S (S (S (S (S (S (S (S (S (S (S (S (S (S (S
    (S (S (S (S (S (S (S (S (S (S (S (S (S (S (S (S (S (S (S (S (S (S (S (S
    (S (S (S (S (S (S (S (S (S (S (S (S (S (S (S (S (S (S (S (S (S (S (S (S
    (S (S (S
    O)))))))))))))))))))))))))))))))))))))))))))))))))))))))))))))))))))))))))))))))))))))))))))))))))))))))))))))))))))))))))))))))))))))))))))))))))))))))))))))))))))))))))))
| Xad ->
  S (S (S (S (S (S (S (S (S (S (S (S (S (S (S (S (S (S (S (S (S (S (S (S (S
    (S (S (S (S (S (S (S (S (S (S (S (S (S (S (S (S (S (S (S (S (S (S (S (S
    (S (S (S (S (S (S (S (S (S (S (S (S (S (S (S (S (S (S (S (S (S (S (S (S
    (S (S (S (S (S (S (S (S (S (S (S (S (S (S (S (S (S (S (S (S (S (S (S (S
    (S (S (S (S (S (S (S (S (S (S (S (S (S (S (S (S (S (S (S (S (S (S (S (S
    (S (S (S (S (S (S (S (S (S (S (S (S (S (S (S (S (S (S (S (S (S (S (S (S
    (S (S (S (S (S (S (S (S (S (S (S (S (S (S (S (S (S (S (S (S (S (S (S (S
    (S (S (S (S
    O))))))))))))))))))))))))))))))))))))))))))))))))))))))))))))))))))))))))))))))))))))))))))))))))))))))))))))))))))))))))))))))))))))))))))))))))))))))))))))))))))))))))))))
| Xae ->
  S (S (S (S (S (S (S (S (S (S (S (S (S (S (S (S (S (S (S (S (S (S (S (S (S
    (S (S (S (S (S (S (S (S (S (S (S (S (S (S (S (S (S (S (S (S (S (S (S (S
    (S (S (S (S (S (S (S (S (S (S (S (S (S (S (S (S (S (S (S (S (S (S (S (S
    (S (S (S (S (S (S (S (S (S (S (S (S (S (S (S (S (S (S (S (S (S (S (S (S
    (S (S (S (S (S (S (S (S (S (S (S (S (S (S (S (S (S (S (S (S (S (S (S (S
    (S (S (S (S (S (S (S (S (S (S (S (S (S (S (S (S (S (S (S (S (S (S (S (S
    (S (S (S (S (S (S (S (S (S (S (S (S (S (S (S (S (S (S (S (S (S (S (S (S
    (S (S (S (S (S
    O)))))))))))))))))))))))))))))))))))))))))))))))))))))))))))))))))))))))))))))))))))))))))))))))))))))))))))))))))))))))))))))))))))))))))))))))))))))))))))))))))))))))))))))
| Xaf ->
  S (S (S (S (S (S (S (S (S (S (S (S (S (S (S (S (S (S (S (S (S (S (S (S (S
    (S (S (S (S (S (S (S (S (S (S (S (S (S (S (S (S (S (S (S (S (S (S (S (S
    (S (S (S (S (S (S (S (S (S (S (S (S (S (S (S (S (S (S (S (S (S (S (S (S
    (S (S (S (S (S (S (S (S (S (S (S (S (S (S (S (S (S (S (S (S (S (S (S (S
    (S (S (S (S (S (S (S (S (S (S (S (S (S (S (S (S (S (S (S (S (S (S (S (S
    (S (S (S (S (S (S (S (S (S (S (S (S (S (S (S (S (S (S (S (S (S (S (S (S
    (S (S (S (S (S (S (S (S (S (S (S (S (S (S (S (S (S (S (S (S (S (S (S (S
    (S (S (S (S (S (S
    O))))))))))))))))))))))))))))))))))))))))))))))))))))))))))))))))))))))))))))))))))))))))))))))))))))))))))))))))))))))))))))))))))))))))))))))))))))))))))))))))))))))))))))))
| Xb0 ->
  S (S (S (S (S (S (S (S (S (S (S (S (S (S (S (S (S (S (S (S (S (S (S (S (S
    (S (S (S (S (S (S (S (S (S (S (S (S (S (S (S (S (S (S (S (S (S (S (S (S
    (S (S (S (S (S (S (S (S (S (S (S (S (S (S (S (S (S (S (S (S (S (S (S (S
    (S (S (S (S (S (S (S (S (S (S (S (S (S (S (S (S (S (S (S (S (S (S (S (S
    (S (S (S (S (S (S (S (S (S (S (S (S (S (S (S (S (S (S (S (S (S (S (S (S
    (S (S (S (S (S (S (S (S (S (S (S (S (S (S (S (S (S (S (S (S (S (S (S (S
    (S (S (S (S (S (S (S (S (S (S (S (S (S (S (S (S (S (S (S (S (S (S (S (S
    (S (S (S (S (S (S (S
    O)))))))))))))))))))))))))))))))))))))))))))))))))))))))))))))))))))))))))))))))))))))))))))))))))))))))))))))))))))))))))))))))))))))))))))))))))))))))))))))))))))))))))))))))
| Xb1 ->
  S (S (S (S (S (S (S (S (S (S (S (S (S (S (S (S (S (S (S (S (S (S (S (S (S
    (S (S (S (S (S (S (S (S (S (S (S (S (S (S (S (S (S (S (S (S (S (S (S (S
    (S (S (S (S (S (S (S (S (S (S (S (S (S (S (S (S (S (S (S (S (S (S (S (S
    (S (S (S (S (S (S (S (S (S (S (S (S (S (S (S (S (S (S (S (S (S (S (S (S
    (S (S (S (S (S (S (S (S (S (S (S (S (S (S (S (S (S (S (S (S (S (S (S (S
    (S (S (S (S (S (S (S (S (S (S (S (S (S (S (S (S (S (S (S (S (S (S (S (S
    (S (S (S (S (S (S (S (S (S (S (S (S (S (S (S (S (S (S (S (S (S (S (S (S
    (S (S (S (S (S (S (S (S
    O))))))))))))))))))))))))))))))))))))))))))))))))))))))))))))))))))))))))))))))))))))))))))))))))))))))))))))))))))))))))))))))))))))))))))))))))))))))))))))))))))))))))))))))))
| Xb2 ->
  S (S (S (S (S (S (S (S (S (S (S (S (S (S (S (S (S (S (S (S (S (S (S (S (S
    (S (S (S (S (S (S (S (S (S (S (S (S (S (S (S (S (S (S (S (S (S (S (S (S
    (S (S (S (S (S (S (S (S (S (S (S (S (S (S (S (S (S (S (S (S (S (S (S (S
    (S (S (S (S (S (S (S (S (S (S (S (S (S (S (S (S (S (S (S (S (S (S (S (S
    (S (S (S (S (S (S (S (S (S (S (S (S (S (S (S (S (S (S (S (S (S (S (S (S
    (S (S (S (S (S (S (S (S (S (S (S (S (S (S (S (S (S (S (S (S (S (S (S (S
    (S (S (S (S (S (S (S (S (S (S (S (S (S (S (S (S (S (S (S (S (S (S (S (S
    (S (S (S (S (S (S (S (S (S
    O)))))))))))))))))))))))))))))))))))))))))))))))))))))))))))))))))))))))))))))))))))))))))))))))))))))))))))))))))))))))))))))))))))))))))))))))))))))))))))))))))))))))))))))))))
| Xb3 ->
  S (S (S (S (S (S (S (S (S (S (S (S (S (S (S (S (S (S (S (S (S (S (S (S (S
    (S (S (S (S (S (S (S (S (S (S (S (S (S (S (S (S (S (S (S (S (S (S (S (S
    (S (S (S (S (S (S (S (S (S (S (S (S (S (S (S (S (S (S (S (S (S (S (S (S
    (S (S (S (S (S (S (S (S (S (S (S (S (S (S (S (S (S (S (S (S (S (S (S (S
    (S (S (S (S (S (S (S (S (S (S (S (S (S (S (S (S (S (S (S (S (S (S (S (S
    (S (S (S (S (S (S (S (S (S (S (S (S (S (S (S (S (S (S (S (S (S (S (S (S
    (S (S (S (S (S (S (S (S (S (S (S (S (S (S (S (S (S (S (S (S (S (S (S (S
    (S (S (S (S (S (S (S (S (S (S
    O))))))))))))))))))))))))))))))))))))))))))))))))))))))))))))))))))))))))))))))))))))))))))))))))))))))))))))))))))))))))))))))))))))))))))))))))))))))))))))))))))))))))))))))))))
| Xb4 ->
  S (S (S (S (S (S (S (S (S (S (S (S (S (S (S (S (S (S (S (S (S (S (S (S (S
    (S (S (S (S (S (S (S (S (S (S (S (S (S (S (S (S (S (S (S (S (S (S (S (S
    (S (S (S (S (S (S (S (S (S (S (S (S (S (S (S (S (S (S (S (S (S (S (S (S
    (S (S (S (S (S (S (S (S (S (S (S (S (S (S (S (S (S (S (S (S (S (S (S (S
    (S (S (S (S (S (S (S (S (S (S (S (S (S (S (S (S (S (S (S (S (S (S (S (S
    (S (S (S (S (S (S (S (S (S (S (S (S (S (S (S (S (S (S (S (S (S (S (S (S
    (S (S (S (S (S (S (S (S (S (S (S (S (S (S (S (S (S (S (S (S (S (S (S (S
    (S (S (S (S (S (S (S (S (S (S (S
    O)))))))))))))))))))))))))))))))))))))))))))))))))))))))))))))))))))))))))))))))))))))))))))))))))))))))))))))))))))))))))))))))))))))))))))))))))))))))))))))))))))))))))))))))))))
| Xb5 ->
  S (S (S (S (S (S (S (S (S (S (S (S (S (S (S (S (S (S (S (S (S (S (S (S (S
    (S (S (S (S (S (S (S (S (S (S (S (S (S (S (S (S (S (S (S (S (S (S (S (S
    (S (S (S (S (S (S (S (S (S (S (S (S (S (S (S (S (S (S (S (S (S (S (S (S
    (S (S (S (S (S (S (S (S (S (S (S (S (S (S (S (S (S (S (S (S (S (S (S (S
    (S (S (S (S (S (S (S (S (S (S (S (S (S (S (S (S (S (S (S (S (S (S (S (S
    (S (S (S (S (S (S (S (S (S (S (S (S (S (S (S (S (S (S (S (S (S (S (S (S
    (S (S (S (S (S (S (S (S (S (S (S (S (S (S (S (S (S (S (S (S (S (S (S (S
    (S (S (S (S (S (S (S (S (S (S (S (S
    O))))))))))))))))))))))))))))))))))))))))))))))))))))))))))))))))))))))))))))))))))))))))))))))))))))))))))))))))))))))))))))))))))))))))))))))))))))))))))))))))))))))))))))))))))))
| Xb6 ->
  S (S (S (S (S (S (S (S (S (S (S (S (S (S (S (S (S (S (S (S (S (S (S (S (S
    (S (S (S (S (S (S (S (S (S (S (S (S (S (S (S (S (S (S (S (S (S (S (S (S
    (S (S (S (S (S (S (S (S (S (S (S (S (S (S (S (S (S (S (S (S (S (S (S (S
    (S (S (S (S (S (S (S (S (S (S (S (S (S (S (S (S (S (S (S (S (S (S (S (S
    (S (S (S (S (S (S (S (S (S (S (S (S (S (S (S (S (S (S (S (S (S (S (S (S
    (S (S (S (S (S (S (S (S (S (S (S (S (S (S (S (S (S (S (S (S (S (S (S (S
    (S (S (S (S (S (S (S (S (S (S (S (S (S (S (S (S (S (S (S (S (S (S (S (S
    (S (S (S (S (S (S (S (S (S (S (S (S (S
    O)))))))))))))))))))))))))))))))))))))))))))))))))))))))))))))))))))))))))))))))))))))))))))))))))))))))))))))))))))))))))))))))))))))))))))))))))))))))))))))))))))))))))))))))))))))
| Xb7 ->
  S (S (S (S (S (S (S (S (S (S (S (S (S (S (S (S (S (S (S (S (S (S (S (S (S
    (S (S (S (S (S (S (S (S (S (S (S (S (S (S (S (S (S (S (S (S (S (S (S (S
    (S (S (S (S (S (S (S (S (S (S (S (S (S (S (S (S (S (S (S (S (S (S (S (S
    (S (S (S (S (S (S (S (S (S (S (S (S (S (S (S (S (S (S (S (S (S (S (S (S
    (S (S (S (S (S (S (S (S (S (S (S (S (S (S (S (S (S (S (S (S (S (S (S (S
    (S (S (S (S (S (S (S (S (S (S (S (S (S (S (S (S (S (S (S (S (S (S (S (S
    (S (S (S (S (S (S (S (S (S (S (S (S (S (S (S (S (S (S (S (S (S (S (S (S
    (S (S (S (S (S (S (S (S (S (S (S (S (S (S
    O))))))))))))))))))))))))))))))))))))))))))))))))))))))))))))))))))))))))))))))))))))))))))))))))))))))))))))))))))))))))))))))))))))))))))))))))))))))))))))))))))))))))))))))))))))))
| Xb8 ->
  S (S (S (S (S (S (S (S (S (S (S (S (S (S (S (S (S (S (S (S (S (S (S (S (S
    (S (S (S (S (S (S (S (S (S (S (S (S (S (S (S (S (S (S (S (S (S (S (S (S
    (S (S (S (S (S (S (S (S (S (S (S (S (S (S (S (S (S (S (S (S (S (S (S (S
    (S (S (S (S (S (S (S (S (S (S (S (S (S (S (S (S (S (S (S (S (S (S (S (S
    (S (S (S (S (S (S (S (S (S (S (S (S (S (S (S (S (S (S (S (S (S (S (S (S
    (S (S (S (S (S (S (S (S (S (S (S (S (S (S (S (S (S (S (S (S (S (S (S (S
    (S (S (S (S (S (S (S (S (S (S (S (S (S (S (S (S (S (S (S (S (S (S (S (S
    (S (S (S (S (S (S (S (S (S (S (S (S (S (S (S
    O)))))))))))))))))))))))))))))))))))))))))))))))))))))))))))))))))))))))))))))))))))))))))))))))))))))))))))))))))))))))))))))))))))))))))))))))))))))))))))))))))))))))))))))))))))))))
| Xb9 ->
  S (S (S (S (S (S (S (S (S (S (S (S (S (S (S (S (S (S (S (S (S (S (S (S (S
    (S (S (S (S (S (S (S (S (S (S (S (S (S (S (S (S (S (S (S (S (S (S (S (S
    (S (S (S (S (S (S (S (S (S (S (S (S (S (S (S (S (S (S (S (S (S (S (S (S
    (S (S (S (S (S (S (S (S (S (S (S (S (S (S (S (S (S (S (S (S (S (S (S (S
    (S (S (S (S (S (S (S (S (S (S (S (S (S (S (S (S (S (S (S (S (S (S (S (S
    (S (S (S (S (S (S (S (S (S (S (S (S (S (S (S (S (S (S (S (S (S (S (S (S
    (S (S (S (S (S (S (S (S (S (S (S (S (S (S (S (S (S (S (S (S (S (S (S (S
    (S (S (S (S (S (S (S (S (S (S (S (S (S (S (S (S
    O))))))))))))))))))))))))))))))))))))))))))))))))))))))))))))))))))))))))))))))))))))))))))))))))))))))))))))))))))))))))))))))))))))))))))))))))))))))))))))))))))))))))))))))))))))))))
| Xba ->
  S (S (S (S (S (S (S (S (S (S (S (S (S (S (S (S (S (S (S (S (S (S (S (S (S
    (S (S (S (S (S (S (S (S (S (S (S (S (S (S (S (S (S (S (S (S (S (S (S (S
    (S (S (S (S (S (S (S (S (S (S (S (S (S (S (S (S (S (S (S (S (S (S (S (S
    (S (S (S (S (S (S (S (S (S (S (S (S (S (S (S (S (S (S (S (S (S (S (S (S
    (S (S (S (S (S (S (S (S (S (S (S (S (S (S (S (S (S (S (S (S (S (S (S (S
    (S (S (S (S (S (S (S (S (S (S (S (S (S (S (S (S (S (S (S (S (S (S (S (S
    (S (S (S (S (S (S (S (S (S (S (S (S (S (S (S (S (S (S (S (S (S (S (S (S
    (S (S (S (S (S (S (S (S (S (S (S (S (S (S (S (S (S
    O)))))))))))))))))))))))))))))))))))))))))))))))))))))))))))))))))))))))))))))))))))))))))))))))))))))))))))))))))))))))))))))))))))))))))))))))))))))))))))))))))))))))))))))))))))))))))
| Xbb ->
  S (S (S (S (S (S (S (S (S (S (S (S (S (S (S (S (S (S (S (S (S (S (S (S (S
    (S (S (S (S (S (S (S (S (S (S (S (S (S (S (S (S (S (S (S (S (S (S (S (S
    (S (S (S (S (S (S (S (S (S (S (S (S (S (S (S (S (S (S (S (S (S (S (S (S
    (S (S (S (S (S (S (S (S (S (S (S (S (S (S (S (S (S (S (S (S (S (S (S (S
    (S (S (S (S (S (S (S (S (S (S (S (S (S (S (S (S (S (S (S (S (S (S (S (S
    (S (S (S (S (S (S (S (S (S (S (S (S (S (S (S (S (S (S (S (S (S (S (S (S
    (S (S (S (S (S (S (S (S (S (S (S (S (S (S (S (S (S (S (S (S (S (S (S (S
    (S (S (S (S (S (S (S (S (S (S (S (S (S (S (S (S (S (S
    O))))))))))))))))))))))))))))))))))))))))))))))))))))))))))))))))))))))))))))))))))))))))))))))))))))))))))))))))))))))))))))))))))))))))))))))))))))))))))))))))))))))))))))))))))))))))))
| Xbc ->
  S (S (S (S (S (S (S (S (S (S (S (S (S (S (S (S (S (S (S (S (S (S (S (S (S
    (S (S (S (S (S (S (S (S (S (S (S (S (S (S (S (S (S (S (S (S (S (S (S (S
    (S (S (S (S (S (S (S (S (S (S (S (S (S (S (S (S (S (S (S (S (S (S (S (S
    (S (S (S (S (S (S (S (S (S (S (S (S (S (S (S (S (S (S (S (S (S (S (S (S
    (S (S (S (S (S (S (S (S (S (S (S (S (S (S (S (S (S (S (S (S (S (S (S (S
    (S (S (S (S (S (S (S (S (S (S (S (S (S (S (S (S (S (S (S (S (S (S (S (S
    (S (S (S (S (S (S (S (S (S (S (S (S (S (S (S (S (S (S (S (S (S (S (S (S
    (S (S (S (S (S (S (S (S (S (S (S (S (S (S (S (S (S (S (S
    O)))))))))))))))))))))))))))))))))))))))))))))))))))))))))))))))))))))))))))))))))))))))))))))))))))))))))))))))))))))))))))))))))))))))))))))))))))))))))))))))))))))))))))))))))))))))))))
| Xbd ->
  S (S (S (S (S (S (S (S (S (S (S (S (S (S (S (S (S (S (S (S (S (S (S (S (S
    (S (S (S (S (S (S (S (S (S (S (S (S (S (S (S (S (S (S (S (S (S (S (S (S
    (S (S (S (S (S (S (S (S (S (S (S (S (S (S (S (S (S (S (S (S (S (S (S (S
    (S (S (S (S (S (S (S (S (S (S (S (S (S (S (S (S (S (S (S (S (S (S (S (S
    (S (S (S (S (S (S (S (S (S (S (S (S (S (S (S (S (S (S (S (S (S (S (S (S
    (S (S (S (S (S (S (S (S (S (S (S (S (S (S (S (S (S (S (S (S (S (S (S (S
    (S (S (S (S (S (S (S (S (S (S (S (S (S (S (S (S (S (S (S (S (S (S (S (S
    (S (S (S (S (S (S (S (S (S (S (S (S (S (S (S (S (S (S (S (S
    O))))))))))))))))))))))))))))))))))))))))))))))))))))))))))))))))))))))))))))))))))))))))))))))))))))))))))))))))))))))))))))))))))))))))))))))))))))))))))))))))))))))))))))))))))))))))))))
| Xbe ->
  S (S (S (S (S (S (S (S (S (S (S (S (S (S (S (S (S (S (S (S (S (S (S (S (S
    (S (S (S (S (S (S (S (S (S (S (S (S (S (S (S (S (S (S (S (S (S (S (S (S
    (S (S (S (S (S (S (S (S (S (S (S (S (S (S (S (S (S (S (S (S (S (S (S (S
    (S (S (S (S (S (S (S (S (S (S (S (S (S (S (S (S (S (S (S (S (S (S (S (S
    (S (S (S (S (S (S (S (S (S (S (S (S (S (S (S (S (S (S (S (S (S (S (S (S
    (S (S (S (S (S (S (S (S (S (S (S (S (S (S (S (S (S (S (S (S (S (S (S (S
    (S (S (S (S (S (S (S (S (S (S (S (S (S (S (S (S (S (S (S (S (S (S (S (S
    (S (S (S (S (S (S (S (S (S (S (S (S (S (S (S (S (S (S (S (S (S
    O)))))))))))))))))))))))))))))))))))))))))))))))))))))))))))))))))))))))))))))))))))))))))))))))))))))))))))))))))))))))))))))))))))))))))))))))))))))))))))))))))))))))))))))))))))))))))))))
| Xbf ->
  S (S (S (S (S (S (S (S (S (S (S (S (S (S (S (S (S (S (S (S (S (S (S (S (S
    (S (S (S (S (S (S (S (S (S (S (S (S (S (S (S (S (S (S (S (S (S (S (S (S
    (S (S (S (S (S (S (S (S (S (S (S (S (S (S (S (S (S (S (S (S (S (S (S (S
    (S (S (S (S (S (S (S (S (S (S (S (S (S (S (S (S (S (S (S (S (S (S (S (S
    (S (S (S (S (S (S (S (S (S (S (S (S (S (S (S (S (S (S (S (S (S (S (S (S
    (S (S (S (S (S (S (S (S (S (S (S (S (S (S (S (S (S (S (S (S (S (S (S (S
    (S (S (S (S (S (S (S (S (S (S (S (S (S (S (S (S (S (S (S (S (S (S (S (S
    (S (S (S (S (S (S (S (S (S (S (S (S (S (S (S (S (S (S (S (S (S (S
    O))))))))))))))))))))))))))))))))))))))))))))))))))))))))))))))))))))))))))))))))))))))))))))))))))))))))))))))))))))))))))))))))))))))))))))))))))))))))))))))))))))))))))))))))))))))))))))))
| Xc0 ->
  S (S (S (S (S (S (S (S (S (S (S (S (S (S (S (S (S (S (S (S (S (S (S (S (S
    (S (S (S (S (S (S (S (S (S (S (S (S (S (S (S (S (S (S (S (S (S (S (S (S
    (S (S (S (S (S (S (S (S (S (S (S (S (S (S (S (S (S (S (S (S (S (S (S (S
    (S (S (S (S (S (S (S (S (S (S (S (S (S (S (S (S (S (S (S (S (S (S (S (S
    (S (S (S (S (S (S (S (S (S (S (S (S (S (S (S (S (S (S (S (S (S (S (S (S
    (S (S (S (S (S (S (S (S (S (S (S (S (S (S (S (S (S (S (S (S (S (S (S (S
    (S (S (S (S (S (S (S (S (S (S (S (S (S (S (S (S (S (S (S (S (S (S (S (S
    (S (S (S (S (S (S (S (S (S (S (S (S (S (S (S (S (S (S (S (S (S (S (S
    O)))))))))))))))))))))))))))))))))))))))))))))))))))))))))))))))))))))))))))))))))))))))))))))))))))))))))))))))))))))))))))))))))))))))))))))))))))))))))))))))))))))))))))))))))))))))))))))))
| Xc1 ->
  S (S (S (S (S (S (S (S (S (S (S (S (S (S (S (S (S (S (S (S (S (S (S (S (S
    (S (S (S (S (S (S (S (S (S (S (S (S (S (S (S (S (S (S (S (S (S (S (S (S
    (S (S (S (S (S (S (S (S (S (S (S (S (S (S (S (S (S (S (S (S (S (S (S (S
    (S (S (S (S (S (S (S (S (S (S (S (S (S (S (S (S (S (S (S (S (S (S (S (S
    (S (S (S (S (S (S (S (S (S (S (S (S (S (S (S (S (S (S (S (S (S (S (S (S
    (S (S (S (S (S (S (S (S (S (S (S (S (S (S (S (S (S (S (S (S (S (S (S (S
    (S (S (S (S (S (S (S (S (S (S (S (S (S (S (S (S (S (S (S (S (S (S (S (S
    (S (S (S (S (S (S (S (S (S (S (S (S (S (S (S (S (S (S (S (S (S (S (S (S
    O))))))))))))))))))))))))))))))))))))))))))))))))))))))))))))))))))))))))))))))))))))))))))))))))))))))))))))))))))))))))))))))))))))))))))))))))))))))))))))))))))))))))))))))))))))))))))))))))
| Xc2 ->
  S (S (S (S (S (S (S (S (S (S (S (S (S (S (S (S (S (S (S (S (S (S (S (S (S
    (S (S (S (S (S (S (S (S (S (S (S (S (S (S (S (S (S (S (S (S (S (S (S (S
    (S (S (S (S (S (S (S (S (S (S (S (S (S (S (S (S (S (S (S (S (S (S (S (S
    (S (S (S (S (S (S (S (S (S (S (S (S (S (S (S (S (S (S (S (S (S (S (S (S
    (S (S (S (S (S (S (S (S (S (S (S (S (S (S (S (S (S (S (S (S (S (S (S (S
    (S (S (S (S (S (S (S (S (S (S (S (S (S (S (S (S (S (S (S (S (S (S (S (S
    (S (S (S (S (S (S (S (S (S (S (S (S (S (S (S (S (S (S (S (S (S (S (S (S
    (S (S (S (S (S (S (S (S (S (S (S (S (S (S (S (S (S (S (S (S (S (S (S (S
    (S
    O)))))))))))))))))))))))))))))))))))))))))))))))))))))))))))))))))))))))))))))))))))))))))))))))))))))))))))))))))))))))))))))))))))))))))))))))))))))))))))))))))))))))))))))))))))))))))))))))))
| Xc3 ->
  S (S (S (S (S (S (S (S (S (S (S (S (S (S (S (S (S (S (S (S (S (S (S (S (S
    (S (S (S (S (S (S (S (S (S (S (S (S (S (S (S (S (S (S (S (S (S (S (S (S
    (S (S (S (S (S (S (S (S (S (S (S (S (S (S (S (S (S (S (S (S (S (S (S (S
    (S (S (S (S (S (S (S (S (S (S (S (S (S (S (S (S (S (S (S (S (S (S (S (S
    (S (S (S (S (S (S (S (S (S (S (S (S (S (S (S (S (S (S (S (S (S (S (S (S
    (S (S (S (S (S (S (S (S (S (S (S (S (S (S (S (S (S (S (S (S (S (S (S (S
    (S (S (S (S (S (S (S (S (S (S (S (S (S (S (S (S (S (S (S (S (S (S (S (S
    (S (S (S (S (S (S (S (S (S (S (S (S (S (S (S (S (S (S (S (S (S (S (S (S
    (S (S
    O))))))))))))))))))))))))))))))))))))))))))))))))))))))))))))))))))))))))))))))))))))))))))))))))))))))))))))))))))))))))))))))))))))))))))))))))))))))))))))))))))))))))))))))))))))))))))))))))))
| Xc4 ->
  S (S (S (S (S (S (S (S (S (S (S (S (S (S (S (S (S (S (S (S (S (S (S (S (S
    (S (S (S (S (S (S (S (S (S (S (S (S (S (S (S (S (S (S (S (S (S (S (S (S
    (S (S (S (S (S (S (S (S (S (S (S (S (S (S (S (S (S (S (S (S (S (S (S (S
    (S (S (S (S (S (S (S (S (S (S (S (S (S (S (S (S (S (S (S (S (S (S (S (S
    (S (S (S (S (S (S (S (S (S (S (S (S (S (S (S (S (S (S (S (S (S (S (S (S
    (S (S (S (S (S (S (S (S (S (S (S (S (S (S (S (S (S (S (S (S (S (S (S (S
    (S (S (S (S (S (S (S (S (S (S (S (S (S (S (S (S (S (S (S (S (S (S (S (S
    (S (S (S (S (S (S (S (S (S (S (S (S (S (S (S (S (S (S (S (S (S (S (S (S
    (S (S (S
    O)))))))))))))))))))))))))))))))))))))))))))))))))))))))))))))))))))))))))))))))))))))))))))))))))))))))))))))))))))))))))))))))))))))))))))))))))))))))))))))))))))))))))))))))))))))))))))))))))))
| Xc5 ->
  S (S (S (S (S (S (S (S (S (S (S (S (S (S (S (S (S (S (S (S (S (S (S (S (S
    (S (S (S (S (S (S (S (S (S (S (S (S (S (S (S (S (S (S (S (S (S (S (S (S
    (S (S (S (S (S (S (S (S (S (S (S (S (S (S (S (S (S (S (S (S (S (S (S (S
    (S (S (S (S (S (S (S (S (S (S (S (S (S (S (S (S (S (S (S (S (S (S (S (S
    (S (S (S (S (S (S (S (S (S (S (S (S (S (S (S (S (S (S (S (S (S (S (S (S
    (S (S (S (S (S (S (S (S (S (S (S (S (S (S (S (S (S (S (S (S (S (S (S (S
    (S (S (S (S (S (S (S (S (S (S (S (S (S (S (S (S (S (S (S (S (S (S (S (S
    (S (S (S (S (S (S (S (S (S (S (S (S (S (S (S (S (S (S (S (S (S (S (S (S
    (S (S (S (S
    O))))))))))))))))))))))))))))))))))))))))))))))))))))))))))))))))))))))))))))))))))))))))))))))))))))))))))))))))))))))))))))))))))))))))))))))))))))))))))))))))))))))))))))))))))))))))))))))))))))
| Xc6 ->
  S (S (S (S (S (S (S (S (S (S (S (S (S (S (S (S (S (S (S (S (S (S (S (S (S
    (S (S (S (S (S (S (S (S (S (S (S (S (S (S (S (S (S (S (S (S (S (S (S (S
    (S (S (S (S (S (S (S (S (S (S (S (S (S (S (S (S (S (S (S (S (S (S (S (S
    (S (S (S (S (S (S (S (S (S (S (S (S (S (S (S (S (S (S (S (S (S (S (S (S
    (S (S (S (S (S (S (S (S (S (S (S (S (S (S (S (S (S (S (S (S (S (S (S (S
    (S (S (S (S (S (S (S (S (S (S (S (S (S (S (S (S (S (S (S (S (S (S (S (S
    (S (S (S (S (S (S (S (S (S (S (S (S (S (S (S (S (S (S (S (S (S (S (S (S
    (S (S (S (S (S (S (S (S (S (S (S (S (S (S (S (S (S (S (S (S (S (S (S (S
    (S (S (S (S (S
    O)))))))))))))))))))))))))))))))))))))))))))))))))))))))))))))))))))))))))))))))))))))))))))))))))))))))))))))))))))))))))))))))))))))))))))))))))))))))))))))))))))))))))))))))))))))))))))))))))))))
| Xc7 ->
  S (S (S (S (S (S (S (S (S (S (S (S (S (S (S (S (S (S (S (S (S (S (S (S (S
    (S (S (S (S (S (S (S (S (S (S (S (S (S (S (S (S (S (S (S (S (S (S (S (S
    (S (S (S (S (S (S (S (S (S (S (S (S (S (S (S (S (S (S (S (S (S (S (S (S
    (S (S (S (S (S (S (S (S (S (S (S (S (S (S (S (S (S (S (S (S (S (S (S (S
    (S (S (S (S (S (S (S (S (S (S (S (S (S (S (S (S (S (S (S (S (S (S (S (S
    (S (S (S (S (S (S (S (S (S (S (S (S (S (S (S (S (S (S (S (S (S (S (S (S
    (S (S (S (S (S (S (S (S (S (S (S (S (S (S (S (S (S (S (S (S (S (S (S (S
    (S (S (S (S (S (S (S (S (S (S (S (S (S (S (S (S (S (S (S (S (S (S (S (S
    (S (S (S (S (S (S
    O))))))))))))))))))))))))))))))))))))))))))))))))))))))))))))))))))))))))))))))))))))))))))))))))))))))))))))))))))))))))))))))))))))))))))))))))))))))))))))))))))))))))))))))))))))))))))))))))))))))
| Xc8 ->
  S (S (S (S (S (S (S (S (S (S (S (S (S (S (S (S (S (S (S (S (S (S (S (S (S
    (S (S (S (S (S (S (S (S (S (S (S (S (S (S (S (S (S (S (S (S (S (S (S (S
    (S (S (S (S (S (S (S (S (S (S (S (S (S (S (S (S (S (S (S (S (S (S (S (S
    (S (S (S (S (S (S (S (S (S (S (S (S (S (S (S (S (S (S (S (S (S (S (S (S
    (S (S (S (S (S (S (S (S (S (S (S (S (S (S (S (S (S (S (S (S (S (S (S (S
    (S (S (S (S (S (S (S (S (S (S (S (S (S (S (S (S (S (S (S (S (S (S (S (S
    (S (S (S (S (S (S (S (S (S (S (S (S (S (S (S (S (S (S (S (S (S (S (S (S
    (S (S (S (S (S (S (S (S (S (S (S (S (S (S (S (S (S (S (S (S (S (S (S (S
    (S (S (S (S (S (S (S
    O)))))))))))))))))))))))))))))))))))))))))))))))))))))))))))))))))))))))))))))))))))))))))))))))))))))))))))))))))))))))))))))))))))))))))))))))))))))))))))))))))))))))))))))))))))))))))))))))))))))))
| Xc9 ->
  S (S (S (S (S (S (S (S (S (S (S (S (S (S (S (S (S (S (S (S (S (S (S (S (S
    (S (S (S (S (S (S (S (S (S (S (S (S (S (S (S (S (S (S (S (S (S (S (S (S
    (S (S (S (S (S (S (S (S (S (S (S (S (S (S (S (S (S (S (S (S (S (S (S (S
    (S (S (S (S (S (S (S (S (S (S (S (S (S (S (S (S (S (S (S (S (S (S (S (S
    (S (S (S (S (S (S (S (S (S (S (S (S (S (S (S (S (S (S (S (S (S (S (S (S
    (S (S (S (S (S (S (S (S (S (S (S (S (S (S (S (S (S (S (S (S (S (S (S (S
    (S (S (S (S (S (S (S (S (S (S (S (S (S (S (S (S (S (S (S (S (S (S (S (S
    (S (S (S (S (S (S (S (S (S (S (S (S (S (S (S (S (S (S (S (S (S (S (S (S
    (S (S (S (S (S (S (S (S
    O))))))))))))))))))))))))))))))))))))))))))))))))))))))))))))))))))))))))))))))))))))))))))))))))))))))))))))))))))))))))))))))))))))))))))))))))))))))))))))))))))))))))))))))))))))))))))))))))))))))))
| Xca ->
  S (S (S (S (S (S (S (S (S (S (S (S (S (S (S (S (S (S (S (S (S (S (S (S (S
    (S (S (S (S (S (S (S (S (S (S (S (S (S (S (S (S (S (S (S (S (S (S (S (S
    (S (S (S (S (S (S (S (S (S (S (S (S (S (S (S (S (S (S (S (S (S (S (S (S
    (S (S (S (S (S (S (S (S (S (S (S (S (S (S (S (S (S (S (S (S (S (S (S (S
    (S (S (S (S (S (S (S (S (S (S (S (S (S (S (S (S (S (S (S (S (S (S (S (S
    (S (S (S (S (S (S (S (S (S (S (S (S (S (S (S (S (S (S (S (S (S (S (S (S
    (S (S (S (S (S (S (S (S (S (S (S (S (S (S (S (S (S (S (S (S (S (S (S (S
    (S (S (S (S (S (S (S (S (S (S (S (S (S (S (S (S (S (S (S (S (S (S (S (S
    (S (S (S (S (S (S (S (S (S
    O)))))))))))))))))))))))))))))))))))))))))))))))))))))))))))))))))))))))))))))))))))))))))))))))))))))))))))))))))))))))))))))))))))))))))))))))))))))))))))))))))))))))))))))))))))))))))))))))))))))))))
| Xcb ->
  S (S (S (S (S (S (S (S (S (S (S (S (S (S (S (S (S (S (S (S (S (S (S (S (S
    (S (S (S (S (S (S (S (S (S (S (S (S (S (S (S (S (S (S (S (S (S (S (S (S
    (S (S (S (S (S (S (S (S (S (S (S (S (S (S (S (S (S (S (S (S (S (S (S (S
    (S (S (S (S (S (S (S (S (S (S (S (S (S (S (S (S (S (S (S (S (S (S (S (S
    (S (S (S (S (S (S (S (S (S (S (S (S (S (S (S (S (S (S (S (S (S (S (S (S
    (S (S (S (S (S (S (S (S (S (S (S (S (S (S (S (S (S (S (S (S (S (S (S (S
    (S (S (S (S (S (S (S (S (S (S (S (S (S (S (S (S (S (S (S (S (S (S (S (S
    (S (S (S (S (S (S (S (S (S (S (S (S (S (S (S (S (S (S (S (S (S (S (S (S
    (S (S (S (S (S (S (S (S (S (S
    O))))))))))))))))))))))))))))))))))))))))))))))))))))))))))))))))))))))))))))))))))))))))))))))))))))))))))))))))))))))))))))))))))))))))))))))))))))))))))))))))))))))))))))))))))))))))))))))))))))))))))
| Xcc ->
  S (S (S (S (S (S (S (S (S (S (S (S (S (S (S (S (S (S (S (S (S (S (S (S (S
    (S (S (S (S (S (S (S (S (S (S (S (S (S (S (S (S (S (S (S (S (S (S (S (S
    (S (S (S (S (S (S (S (S (S (S (S (S (S (S (S (S (S (S (S (S (S (S (S (S
    (S (S (S (S (S (S (S (S (S (S (S (S (S (S (S (S (S (S (S (S (S (S (S (S
    (S (S (S (S (S (S (S (S (S (S (S (S (S (S (S (S (S (S (S (S (S (S (S (S
    (S (S (S (S (S (S (S (S (S (S (S (S (S (S (S (S (S (S (S (S (S (S (S (S
    (S (S (S (S (S (S (S (S (S (S (S (S (S (S (S (S (S (S (S (S (S (S (S (S
    (S (S (S (S (S (S (S (S (S (S (S (S (S (S (S (S (S (S (S (S (S (S (S (S
    (S (S (S (S (S (S (S (S (S (S (S
    O)))))))))))))))))))))))))))))))))))))))))))))))))))))))))))))))))))))))))))))))))))))))))))))))))))))))))))))))))))))))))))))))))))))))))))))))))))))))))))))))))))))))))))))))))))))))))))))))))))))))))))
| Xcd ->
  S (S (S (S (S (S (S (S (S (S (S (S (S (S (S (S (S (S (S (S (S (S (S (S (S
    (S (S (S (S (S (S (S (S (S (S (S (S (S (S (S (S (S (S (S (S (S (S (S (S
    (S (S (S (S (S (S (S (S (S (S (S (S (S (S (S (S (S (S (S (S (S (S (S (S
    (S (S (S (S (S (S (S (S (S (S (S (S (S (S (S (S (S (S (S (S (S (S (S (S
    (S (S (S (S (S (S (S (S (S (S (S (S (S (S (S (S (S (S (S (S (S (S (S (S
    (S (S (S (S (S (S (S (S (S (S (S (S (S (S (S (S (S (S (S (S (S (S (S (S
    (S (S (S (S (S (S (S (S (S (S (S (S (S (S (S (S (S (S (S (S (S (S (S (S
    (S (S (S (S (S (S (S (S (S (S (S (S (S (S (S (S (S (S (S (S (S (S (S (S
    (S (S (S (S (S (S (S (S (S (S (S (S
    O))))))))))))))))))))))))))))))))))))))))))))))))))))))))))))))))))))))))))))))))))))))))))))))))))))))))))))))))))))))))))))))))))))))))))))))))))))))))))))))))))))))))))))))))))))))))))))))))))))))))))))
| Xce ->
  S (S (S (S (S (S (S (S (S (S (S (S (S (S (S (S (S (S (S (S (S (S (S (S (S
    (S (S (S (S (S (S (S (S (S (S (S (S (S (S (S (S (S (S (S (S (S (S (S (S
    (S (S (S (S (S (S (S (S (S (S (S (S (S (S (S (S (S (S (S (S (S (S (S (S
    (S (S (S (S (S (S (S (S (S (S (S (S (S (S (S (S (S (S (S (S (S (S (S (S
    (S (S (S (S (S (S (S (S (S (S (S (S (S (S (S (S (S (S (S (S (S (S (S (S
    (S (S (S (S (S (S (S (S (S (S (S (S (S (S (S (S (S (S (S (S (S (S (S (S
    (S (S (S (S (S (S (S (S (S (S (S (S (S (S (S (S (S (S (S (S (S (S (S (S
    (S (S (S (S (S (S (S (S (S (S (S (S (S (S (S (S (S (S (S (S (S (S (S (S
    (S (S (S (S (S (S (S (S (S (S (S (S (S
    O)))))))))))))))))))))))))))))))))))))))))))))))))))))))))))))))))))))))))))))))))))))))))))))))))))))))))))))))))))))))))))))))))))))))))))))))))))))))))))))))))))))))))))))))))))))))))))))))))))))))))))))
| Xcf ->
  S (S (S (S (S (S (S (S (S (S (S (S (S (S (S (S (S (S (S (S (S (S (S (S (S
    (S (S (S (S (S (S (S (S (S (S (S (S (S (S (S (S (S (S (S (S (S (S (S (S
    (S (S (S (S (S (S (S (S (S (S (S (S (S (S (S (S (S (S (S (S (S (S (S (S
    (S (S (S (S (S (S (S (S (S (S (S (S (S (S (S (S (S (S (S (S (S (S (S (S
    (S (S (S (S (S (S (S (S (S (S (S (S (S (S (S (S (S (S (S (S (S (S (S (S
    (S (S (S (S (S (S (S (S (S (S (S (S (S (S (S (S (S (S (S (S (S (S (S (S
    (S (S (S (S (S (S (S (S (S (S (S (S (S (S (S (S (S (S (S (S (S (S (S (S
    (S (S (S (S (S (S (S (S (S (S (S (S (S (S (S (S (S (S (S (S (S (S (S (S
    (S (S (S (S (S (S (S (S (S (S (S (S (S (S
    O))))))))))))))))))))))))))))))))))))))))))))))))))))))))))))))))))))))))))))))))))))))))))))))))))))))))))))))))))))))))))))))))))))))))))))))))))))))))))))))))))))))))))))))))))))))))))))))))))))))))))))))
| Xd0 ->
  S (S (S (S (S (S (S (S (S (S (S (S (S (S (S (S (S (S (S (S (S (S (S (S (S
    (S (S (S (S (S (S (S (S (S (S (S (S (S (S (S (S (S (S (S (S (S (S (S (S
    (S (S (S (S (S (S (S (S (S (S (S (S (S (S (S (S (S (S (S (S (S (S (S (S
    (S (S (S (S (S (S (S (S (S (S (S (S (S (S (S (S (S (S (S (S (S (S (S (S
    (S (S (S (S (S (S (S (S (S (S (S (S (S (S (S (S (S (S (S (S (S (S (S (S
    (S (S (S (S (S (S (S (S (S (S (S (S (S (S (S (S (S (S (S (S (S (S (S (S
    (S (S (S (S (S (S (S (S (S (S (S (S (S (S (S (S (S (S (S (S (S (S (S (S
    (S (S (S (S (S (S (S (S (S (S (S (S (S (S (S (S (S (S (S (S (S (S (S (S
    (S (S (S (S (S (S (S (S (S (S (S (S (S (S (S
    O)))))))))))))))))))))))))))))))))))))))))))))))))))))))))))))))))))))))))))))))))))))))))))))))))))))))))))))))))))))))))))))))))))))))))))))))))))))))))))))))))))))))))))))))))))))))))))))))))))))))))))))))
| Xd1 ->
  S (S (S (S (S (S (S (S (S (S (S (S (S (S (S (S (S (S (S (S (S (S (S (S (S
    (S (S (S (S (S (S (S (S (S (S (S (S (S (S (S (S (S (S (S (S (S (S (S (S
    (S (S (S (S (S (S (S (S (S (S (S (S (S (S (S (S (S (S (S (S (S (S (S (S
    (S (S (S (S (S (S (S (S (S (S (S (S (S (S (S (S (S (S (S (S (S (S (S (S
    (S (S (S (S (S (S (S (S (S (S (S (S (S (S (S (S (S (S (S (S (S (S (S (S
    (S (S (S (S (S (S (S (S (S (S (S (S (S (S (S (S (S (S (S (S (S (S (S (S
    (S (S (S (S (S (S (S (S (S (S (S (S (S (S (S (S (S (S (S (S (S (S (S (S
    (S (S (S (S (S (S (S (S (S (S (S (S (S (S (S (S (S (S (S (S (S (S (S (S
    (S (S (S (S (S (S (S (S (S (S (S (S (S (S (S (S
    O))))))))))))))))))))))))))))))))))))))))))))))))))))))))))))))))))))))))))))))))))))))))))))))))))))))))))))))))))))))))))))))))))))))))))))))))))))))))))))))))))))))))))))))))))))))))))))))))))))))))))))))))
| Xd2 ->
  S (S (S (S (S (S (S (S (S (S (S (S (S (S (S (S (S (S (S (S (S (S (S (S (S
    (S (S (S (S (S (S (S (S (S (S (S (S (S (S (S (S (S (S (S (S (S (S (S (S
    (S (S (S (S (S (S (S (S (S (S (S (S (S (S (S (S (S (S (S (S (S (S (S (S
    (S (S (S (S (S (S (S (S (S (S (S (S (S (S (S (S (S (S (S (S (S (S (S (S
    (S (S (S (S (S (S (S (S (S (S (S (S (S (S (S (S (S (S (S (S (S (S (S (S
    (S (S (S (S (S (S (S (S (S (S (S (S (S (S (S (S (S (S (S (S (S (S (S (S
    (S (S (S (S (S (S (S (S (S (S (S (S (S (S (S (S (S (S (S (S (S (S (S (S
    (S (S (S (S (S (S (S (S (S (S (S (S (S (S (S (S (S (S (S (S (S (S (S (S
    (S (S (S (S (S (S (S (S (S (S (S (S (S (S (S (S (S
    O)))))))))))))))))))))))))))))))))))))))))))))))))))))))))))))))))))))))))))))))))))))))))))))))))))))))))))))))))))))))))))))))))))))))))))))))))))))))))))))))))))))))))))))))))))))))))))))))))))))))))))))))))
| Xd3 ->
  S (S (S (S (S (S (S (S (S (S (S (S (S (S (S (S (S (S (S (S (S (S (S (S (S
    (S (S (S (S (S (S (S (S (S (S (S (S (S (S (S (S (S (S (S (S (S (S (S (S
    (S (S (S (S (S (S (S (S (S (S (S (S (S (S (S (S (S (S (S (S (S (S (S (S
    (S (S (S (S (S (S (S (S (S (S (S (S (S (S (S (S (S (S (S (S (S (S (S (S
    (S (S (S (S (S (S (S (S (S (S (S (S (S (S (S (S (S (S (S (S (S (S (S (S
    (S (S (S (S (S (S (S (S (S (S (S (S (S (S (S (S (S (S (S (S (S (S (S (S
    (S (S (S (S (S (S (S (S (S (S (S (S (S (S (S (S (S (S (S (S (S (S (S (S
    (S (S (S (S (S (S (S (S (S (S (S (S (S (S (S (S (S (S (S (S (S (S (S (S
    (S (S (S (S (S (S (S (S (S (S (S (S (S (S (S (S (S (S
    O))))))))))))))))))))))))))))))))))))))))))))))))))))))))))))))))))))))))))))))))))))))))))))))))))))))))))))))))))))))))))))))))))))))))))))))))))))))))))))))))))))))))))))))))))))))))))))))))))))))))))))))))))
| Xd4 ->
  S (S (S (S (S (S (S (S (S (S (S (S (S (S (S (S (S (S (S (S (S (S (S (S (S
    (S (S (S (S (S (S (S (S (S (S (S (S (S (S (S (S (S (S (S (S (S (S (S (S
    (S (S (S (S (S (S (S (S (S (S (S (S (S (S (S (S (S (S (S (S (S (S (S (S
    (S (S (S (S (S (S (S (S (S (S (S (S (S (S (S (S (S (S (S (S (S (S (S (S
    (S (S (S (S (S (S (S (S (S (S (S (S (S (S (S (S (S (S (S (S (S (S (S (S
    (S (S (S (S (S (S (S (S (S (S (S (S (S (S (S (S (S (S (S (S (S (S (S (S
    (S (S (S (S (S (S (S (S (S (S (S (S (S (S (S (S (S (S (S (S (S (S (S (S
    (S (S (S (S (S (S (S (S (S (S (S (S (S (S (S (S (S (S (S (S (S (S (S (S
    (S (S (S (S (S (S (S (S (S (S (S (S (S (S (S (S (S (S (S
    O)))))))))))))))))))))))))))))))))))))))))))))))))))))))))))))))))))))))))))))))))))))))))))))))))))))))))))))))))))))))))))))))))))))))))))))))))))))))))))))))))))))))))))))))))))))))))))))))))))))))))))))))))))
| Xd5 ->
  S (S (S (S (S (S (S (S (S (S (S (S (S (S (S (S (S (S (S (S (S (S (S (S (S
    (S (S (S (S (S (S (S (S (S (S (S (S (S (S (S (S (S (S (S (S (S (S (S (S
    (S (S (S (S (S (S (S (S (S (S (S (S (S (S (S (S (S (S (S (S (S (S (S (S
    (S (S (S (S (S (S (S (S (S (S (S (S (S (S (S (S (S (S (S (S (S (S (S (S
    (S (S (S (S (S (S (S (S (S (S (S (S (S (S (S (S (S (S (S (S (S (S (S (S
    (S (S (S (S (S (S (S (S (S (S (S (S (S (S (S (S (S (S (S (S (S (S (S (S
    (S (S (S (S (S (S (S (S (S (S (S (S (S (S (S (S (S (S (S (S (S (S (S (S
    (S (S (S (S (S (S (S (S (S (S (S (S (S (S (S (S (S (S (S (S (S (S (S (S
    (S (S (S (S (S (S (S (S (S (S (S (S (S (S (S (S (S (S (S (S
    O))))))))))))))))))))))))))))))))))))))))))))))))))))))))))))))))))))))))))))))))))))))))))))))))))))))))))))))))))))))))))))))))))))))))))))))))))))))))))))))))))))))))))))))))))))))))))))))))))))))))))))))))))))
| Xd6 ->
  S (S (S (S (S (S (S (S (S (S (S (S (S (S (S (S (S (S (S (S (S (S (S (S (S
    (S (S (S (S (S (S (S (S (S (S (S (S (S (S (S (S (S (S (S (S (S (S (S (S
    (S (S (S (S (S (S (S (S (S (S (S (S (S (S (S (S (S (S (S (S (S (S (S (S
    (S (S (S (S (S (S (S (S (S (S (S (S (S (S (S (S (S (S (S (S (S (S (S (S
    (S (S (S (S (S (S (S (S (S (S (S (S (S (S (S (S (S (S (S (S (S (S (S (S
    (S (S (S (S (S (S (S (S (S (S (S (S (S (S (S (S (S (S (S (S (S (S (S (S
    (S (S (S (S (S (S (S (S (S (S (S (S (S (S (S (S (S (S (S (S (S (S (S (S
    (S (S (S (S (S (S (S (S (S (S (S (S (S (S (S (S (S (S (S (S (S (S (S (S
    (S (S (S (S (S (S (S (S (S (S (S (S (S (S (S (S (S (S (S (S (S
    O)))))))))))))))))))))))))))))))))))))))))))))))))))))))))))))))))))))))))))))))))))))))))))))))))))))))))))))))))))))))))))))))))))))))))))))))))))))))))))))))))))))))))))))))))))))))))))))))))))))))))))))))))))))
| Xd7 ->
  S (S (S (S (S (S (S (S (S (S (S (S (S (S (S (S (S (S (S (S (S (S (S (S (S
    (S (S (S (S (S (S (S (S (S (S (S (S (S (S (S (S (S (S (S (S (S (S (S (S
    (S (S (S (S (S (S (S (S (S (S (S (S (S (S (S (S (S (S (S (S (S (S (S (S
    (S (S (S (S (S (S (S (S (S (S (S (S (S (S (S (S (S (S (S (S (S (S (S (S
    (S (S (S (S (S (S (S (S (S (S (S (S (S (S (S (S (S (S (S (S (S (S (S (S
    (S (S (S (S (S (S (S (S (S (S (S (S (S (S (S (S (S (S (S (S (S (S (S (S
    (S (S (S (S (S (S (S (S (S (S (S (S (S (S (S (S (S (S (S (S (S (S (S (S
    (S (S (S (S (S (S (S (S (S (S (S (S (S (S (S (S (S (S (S (S (S (S (S (S
    (S (S (S (S (S (S (S (S (S (S (S (S (S (S (S (S (S (S (S (S (S (S
    O))))))))))))))))))))))))))))))))))))))))))))))))))))))))))))))))))))))))))))))))))))))))))))))))))))))))))))))))))))))))))))))))))))))))))))))))))))))))))))))))))))))))))))))))))))))))))))))))))))))))))))))))))))))
| Xd8 ->
  S (S (S (S (S (S (S (S (S (S (S (S (S (S (S (S (S (S (S (S (S (S (S (S (S
    (S (S (S (S (S (S (S (S (S (S (S (S (S (S (S (S (S (S (S (S (S (S (S (S
    (S (S (S (S (S (S (S (S (S (S (S (S (S (S (S (S (S (S (S (S (S (S (S (S
    (S (S (S (S (S (S (S (S (S (S (S (S (S (S (S (S (S (S (S (S (S (S (S (S
    (S (S (S (S (S (S (S (S (S (S (S (S (S (S (S (S (S (S (S (S (S (S (S (S
    (S (S (S (S (S (S (S (S (S (S (S (S (S (S (S (S (S (S (S (S (S (S (S (S
    (S (S (S (S (S (S (S (S (S (S (S (S (S (S (S (S (S (S (S (S (S (S (S (S
    (S (S (S (S (S (S (S (S (S (S (S (S (S (S (S (S (S (S (S (S (S (S (S (S
    (S (S (S (S (S (S (S (S (S (S (S (S (S (S (S (S (S (S (S (S (S (S (S
    O)))))))))))))))))))))))))))))))))))))))))))))))))))))))))))))))))))))))))))))))))))))))))))))))))))))))))))))))))))))))))))))))))))))))))))))))))))))))))))))))))))))))))))))))))))))))))))))))))))))))))))))))))))))))
| Xd9 ->
  S (S (S (S (S (S (S (S (S (S (S (S (S (S (S (S (S (S (S (S (S (S (S (S (S
    (S (S (S (S (S (S (S (S (S (S (S (S (S (S (S (S (S (S (S (S (S (S (S (S
    (S (S (S (S (S (S (S (S (S (S (S (S (S (S (S (S (S (S (S (S (S (S (S (S
    (S (S (S (S (S (S (S (S (S (S (S (S (S (S (S (S (S (S (S (S (S (S (S (S
    (S (S (S (S (S (S (S (S (S (S (S (S (S (S (S (S (S (S (S (S (S (S (S (S
    (S (S (S (S (S (S (S (S (S (S (S (S (S (S (S (S (S (S (S (S (S (S (S (S
    (S (S (S (S (S (S (S (S (S (S (S (S (S (S (S (S (S (S (S (S (S (S (S (S
    (S (S (S (S (S (S (S (S (S (S (S (S (S (S (S (S (S (S (S (S (S (S (S (S
    (S (S (S (S (S (S (S (S (S (S (S (S (S (S (S (S (S (S (S (S (S (S (S (S
    O))))))))))))))))))))))))))))))))))))))))))))))))))))))))))))))))))))))))))))))))))))))))))))))))))))))))))))))))))))))))))))))))))))))))))))))))))))))))))))))))))))))))))))))))))))))))))))))))))))))))))))))))))))))))
| Xda ->
  S (S (S (S (S (S (S (S (S (S (S (S (S (S (S (S (S (S (S (S (S (S (S (S (S
    (S (S (S (S (S (S (S (S (S (S (S (S (S (S (S (S (S (S (S (S (S (S (S (S
    (S (S (S (S (S (S (S (S (S (S (S (S (S (S (S (S (S (S (S (S (S (S (S (S
    (S (S (S (S (S (S (S (S (S (S (S (S (S (S (S (S (S (S (S (S (S (S (S (S
    (S (S (S (S (S (S (S (S (S (S (S (S (S (S (S (S (S (S (S (S (S (S (S (S
    (S (S (S (S (S (S (S (S (S (S (S (S (S (S (S (S (S (S (S (S (S (S (S (S
    (S (S (S (S (S (S (S (S (S (S (S (S (S (S (S (S (S (S (S (S (S (S (S (S
    (S (S (S (S (S (S (S (S (S (S (S (S (S (S (S (S (S (S (S (S (S (S (S (S
    (S (S (S (S (S (S (S (S (S (S (S (S (S (S (S (S (S (S (S (S (S (S (S (S
    (S
    O)))))))))))))))))))))))))))))))))))))))))))))))))))))))))))))))))))))))))))))))))))))))))))))))))))))))))))))))))))))))))))))))))))))))))))))))))))))))))))))))))))))))))))))))))))))))))))))))))))))))))))))))))))))))))
| Xdb ->
  S (S (S (S (S (S (S (S (S (S (S (S (S (S (S (S (S (S (S (S (S (S (S (S (S
    (S (S (S (S (S (S (S (S (S (S (S (S (S (S (S (S (S (S (S (S (S (S (S (S
    (S (S (S (S (S (S (S (S (S (S (S (S (S (S (S (S (S (S (S (S (S (S (S (S
    (S (S (S (S (S (S (S (S (S (S (S (S (S (S (S (S (S (S (S (S (S (S (S (S
    (S (S (S (S (S (S (S (S (S (S (S (S (S (S (S (S (S (S (S (S (S (S (S (S
    (S (S (S (S (S (S (S (S (S (S (S (S (S (S (S (S (S (S (S (S (S (S (S (S
    (S (S (S (S (S (S (S (S (S (S (S (S (S (S (S (S (S (S (S (S (S (S (S (S
    (S (S (S (S (S (S (S (S (S (S (S (S (S (S (S (S (S (S (S (S (S (S (S (S
    (S (S (S (S (S (S (S (S (S (S (S (S (S (S (S (S (S (S (S (S (S (S (S (S
    (S (S
    O))))))))))))))))))))))))))))))))))))))))))))))))))))))))))))))))))))))))))))))))))))))))))))))))))))))))))))))))))))))))))))))))))))))))))))))))))))))))))))))))))))))))))))))))))))))))))))))))))))))))))))))))))))))))))
| Xdc ->
  S (S (S (S (S (S (S (S (S (S (S (S (S (S (S (S (S (S (S (S (S (S (S (S (S
    (S (S (S (S (S (S (S (S (S (S (S (S (S (S (S (S (S (S (S (S (S (S (S (S
    (S (S (S (S (S (S (S (S (S (S (S (S (S (S (S (S (S (S (S (S (S (S (S (S
    (S (S (S (S (S (S (S (S (S (S (S (S (S (S (S (S (S (S (S (S (S (S (S (S
    (S (S (S (S (S (S (S (S (S (S (S (S (S (S (S (S (S (S (S (S (S (S (S (S
    (S (S (S (S (S (S (S (S (S (S (S (S (S (S (S (S (S (S (S (S (S (S (S (S
    (S (S (S (S (S (S (S (S (S (S (S (S (S (S (S (S (S (S (S (S (S (S (S (S
    (S (S (S (S (S (S (S (S (S (S (S (S (S (S (S (S (S (S (S (S (S (S (S (S
    (S (S (S (S (S (S (S (S (S (S (S (S (S (S (S (S (S (S (S (S (S (S (S (S
    (S (S (S
    O)))))))))))))))))))))))))))))))))))))))))))))))))))))))))))))))))))))))))))))))))))))))))))))))))))))))))))))))))))))))))))))))))))))))))))))))))))))))))))))))))))))))))))))))))))))))))))))))))))))))))))))))))))))))))))
| Xdd ->
  S (S (S (S (S (S (S (S (S (S (S (S (S (S (S (S (S (S (S (S (S (S (S (S (S
    (S (S (S (S (S (S (S (S (S (S (S (S (S (S (S (S (S (S (S (S (S (S (S (S
    (S (S (S (S (S (S (S (S (S (S (S (S (S (S (S (S (S (S (S (S (S (S (S (S
    (S (S (S (S (S (S (S (S (S (S (S (S (S (S (S (S (S (S (S (S (S (S (S (S
    (S (S (S (S (S (S (S (S (S (S (S (S (S (S (S (S (S (S (S (S (S (S (S (S
    (S (S (S (S (S (S (S (S (S (S (S (S (S (S (S (S (S (S (S (S (S (S (S (S
    (S (S (S (S (S (S (S (S (S (S (S (S (S (S (S (S (S (S (S (S (S (S (S (S
    (S (S (S (S (S (S (S (S (S (S (S (S (S (S (S (S (S (S (S (S (S (S (S (S
    (S (S (S (S (S (S (S (S (S (S (S (S (S (S (S (S (S (S (S (S (S (S (S (S
    (S (S (S (S
    O))))))))))))))))))))))))))))))))))))))))))))))))))))))))))))))))))))))))))))))))))))))))))))))))))))))))))))))))))))))))))))))))))))))))))))))))))))))))))))))))))))))))))))))))))))))))))))))))))))))))))))))))))))))))))))
| Xde ->
  S (S (S (S (S (S (S (S (S (S (S (S (S (S (S (S (S (S (S (S (S (S (S (S (S
    (S (S (S (S (S (S (S (S (S (S (S (S (S (S (S (S (S (S (S (S (S (S (S (S
    (S (S (S (S (S (S (S (S (S (S (S (S (S (S (S (S (S (S (S (S (S (S (S (S
    (S (S (S (S (S (S (S (S (S (S (S (S (S (S (S (S (S (S (S (S (S (S (S (S
    (S (S (S (S (S (S (S (S (S (S (S (S (S (S (S (S (S (S (S (S (S (S (S (S
    (S (S (S (S (S (S (S (S (S (S (S (S (S (S (S (S (S (S (S (S (S (S (S (S
    (S (S (S (S (S (S (S (S (S (S (S (S (S (S (S (S (S (S (S (S (S (S (S (S
    (S (S (S (S (S (S (S (S (S (S (S (S (S (S (S (S (S (S (S (S (S (S (S (S
    (S (S (S (S (S (S (S (S (S (S (S (S (S (S (S (S (S (S (S (S (S (S (S (S
    (S (S (S (S (S
    O)))))))))))))))))))))))))))))))))))))))))))))))))))))))))))))))))))))))))))))))))))))))))))))))))))))))))))))))))))))))))))))))))))))))))))))))))))))))))))))))))))))))))))))))))))))))))))))))))))))))))))))))))))))))))))))
| Xdf ->
  S (S (S (S (S (S (S (S (S (S (S (S (S (S (S (S (S (S (S (S (S (S (S (S (S
    (S (S (S (S (S (S (S (S (S (S (S (S (S (S (S (S (S (S (S (S (S (S (S (S
    (S (S (S (S (S (S (S (S (S (S (S (S (S (S (S (S (S (S (S (S (S (S (S (S
    (S (S (S (S (S (S (S (S (S (S (S (S (S (S (S (S (S (S (S (S (S (S (S (S
    (S (S (S (S (S (S (S (S (S (S (S (S (S (S (S (S (S (S (S (S (S (S (S (S
    (S (S (S (S (S (S (S (S (S (S (S (S (S (S (S (S (S (S (S (S (S (S (S (S
    (S (S (S (S (S (S (S (S (S (S (S (S (S (S (S (S (S (S (S (S (S (S (S (S
    (S (S (S (S (S (S (S (S (S (S (S (S (S (S (S (S (S (S (S (S (S (S (S (S
    (S (S (S (S (S (S (S (S (S (S (S (S (S (S (S (S (S (S (S (S (S (S (S (S
    (S (S (S (S (S (S
    O))))))))))))))))))))))))))))))))))))))))))))))))))))))))))))))))))))))))))))))))))))))))))))))))))))))))))))))))))))))))))))))))))))))))))))))))))))))))))))))))))))))))))))))))))))))))))))))))))))))))))))))))))))))))))))))
| Xe0 ->
  S (S (S (S (S (S (S (S (S (S (S (S (S (S (S (S (S (S (S (S (S (S (S (S (S
    (S (S (S (S (S (S (S (S (S (S (S (S (S (S (S (S (S (S (S (S (S (S (S (S
    (S (S (S (S (S (S (S (S (S (S (S (S (S (S (S (S (S (S (S (S (S (S (S (S
    (S (S (S (S (S (S (S (S (S (S (S (S (S (S (S (S (S (S (S (S (S (S (S (S
    (S (S (S (S (S (S (S (S (S (S (S (S (S (S (S (S (S (S (S (S (S (S (S (S
    (S (S (S (S (S (S (S (S (S (S (S (S (S (S (S (S (S (S (S (S (S (S (S (S
    (S (S (S (S (S (S (S (S (S (S (S (S (S (S (S (S (S (S (S (S (S (S (S (S
    (S (S (S (S (S (S (S (S (S (S (S (S (S (S (S (S (S (S (S (S (S (S (S (S
    (S (S (S (S (S (S (S (S (S (S (S (S (S (S (S (S (S (S (S (S (S (S (S (S
    (S (S (S (S (S (S (S
    O)))))))))))))))))))))))))))))))))))))))))))))))))))))))))))))))))))))))))))))))))))))))))))))))))))))))))))))))))))))))))))))))))))))))))))))))))))))))))))))))))))))))))))))))))))))))))))))))))))))))))))))))))))))))))))))))
| Xe1 ->
  S (S (S (S (S (S (S (S (S (S (S (S (S (S (S (S (S (S (S (S (S (S (S (S (S
    (S (S (S (S (S (S (S (S (S (S (S (S (S (S (S (S (S (S (S (S (S (S (S (S
    (S (S (S (S (S (S (S (S (S (S (S (S (S (S (S (S (S (S (S (S (S (S (S (S
    (S (S (S (S (S (S (S (S (S (S (S (S (S (S (S (S (S (S (S (S (S (S (S (S
    (S (S (S (S (S (S (S (S (S (S (S (S (S (S (S (S (S (S (S (S (S (S (S (S
    (S (S (S (S (S (S (S (S (S (S (S (S (S (S (S (S (S (S (S (S (S (S (S (S
    (S (S (S (S (S (S (S (S (S (S (S (S (S (S (S (S (S (S (S (S (S (S (S (S
    (S (S (S (S (S (S (S (S (S (S (S (S (S (S (S (S (S (S (S (S (S (S (S (S
    (S (S (S (S (S (S (S (S (S (S (S (S (S (S (S (S (S (S (S (S (S (S (S (S
    (S (S (S (S (S (S (S (S
    O))))))))))))))))))))))))))))))))))))))))))))))))))))))))))))))))))))))))))))))))))))))))))))))))))))))))))))))))))))))))))))))))))))))))))))))))))))))))))))))))))))))))))))))))))))))))))))))))))))))))))))))))))))))))))))))))
| Xe2 ->
  S (S (S (S (S (S (S (S (S (S (S (S (S (S (S (S (S (S (S (S (S (S (S (S (S
    (S (S (S (S (S (S (S (S (S (S (S (S (S (S (S (S (S (S (S (S (S (S (S (S
    (S (S (S (S (S (S (S (S (S (S (S (S (S (S (S (S (S (S (S (S (S (S (S (S
    (S (S (S (S (S (S (S (S (S (S (S (S (S (S (S (S (S (S (S (S (S (S (S (S
    (S (S (S (S (S (S (S (S (S (S (S (S (S (S (S (S (S (S (S (S (S (S (S (S
    (S (S (S (S (S (S (S (S (S (S (S (S (S (S (S (S (S (S (S (S (S (S (S (S
    (S (S (S (S (S (S (S (S (S (S (S (S (S (S (S (S (S (S (S (S (S (S (S (S
    (S (S (S (S (S (S (S (S (S (S (S (S (S (S (S (S (S (S (S (S (S (S (S (S
    (S (S (S (S (S (S (S (S (S (S (S (S (S (S (S (S (S (S (S (S (S (S (S (S
    (S (S (S (S (S (S (S (S (S
    O)))))))))))))))))))))))))))))))))))))))))))))))))))))))))))))))))))))))))))))))))))))))))))))))))))))))))))))))))))))))))))))))))))))))))))))))))))))))))))))))))))))))))))))))))))))))))))))))))))))))))))))))))))))))))))))))))
| Xe3 ->
  S (S (S (S (S (S (S (S (S (S (S (S (S (S (S (S (S (S (S (S (S (S (S (S (S
    (S (S (S (S (S (S (S (S (S (S (S (S (S (S (S (S (S (S (S (S (S (S (S (S
    (S (S (S (S (S (S (S (S (S (S (S (S (S (S (S (S (S (S (S (S (S (S (S (S
    (S (S (S (S (S (S (S (S (S (S (S (S (S (S (S (S (S (S (S (S (S (S (S (S
    (S (S (S (S (S (S (S (S (S (S (S (S (S (S (S (S (S (S (S (S (S (S (S (S
    (S (S (S (S (S (S (S (S (S (S (S (S (S (S (S (S (S (S (S (S (S (S (S (S
    (S (S (S (S (S (S (S (S (S (S (S (S (S (S (S (S (S (S (S (S (S (S (S (S
    (S (S (S (S (S (S (S (S (S (S (S (S (S (S (S (S (S (S (S (S (S (S (S (S
    (S (S (S (S (S (S (S (S (S (S (S (S (S (S (S (S (S (S (S (S (S (S (S (S
    (S (S (S (S (S (S (S (S (S (S
    O))))))))))))))))))))))))))))))))))))))))))))))))))))))))))))))))))))))))))))))))))))))))))))))))))))))))))))))))))))))))))))))))))))))))))))))))))))))))))))))))))))))))))))))))))))))))))))))))))))))))))))))))))))))))))))))))))
| Xe4 ->
  S (S (S (S (S (S (S (S (S (S (S (S (S (S (S (S (S (S (S (S (S (S (S (S (S
    (S (S (S (S (S (S (S (S (S (S (S (S (S (S (S (S (S (S (S (S (S (S (S (S
    (S (S (S (S (S (S (S (S (S (S (S (S (S (S (S (S (S (S (S (S (S (S (S (S
    (S (S (S (S (S (S (S (S (S (S (S (S (S (S (S (S (S (S (S (S (S (S (S (S
    (S (S (S (S (S (S (S (S (S (S (S (S (S (S (S (S (S (S (S (S (S (S (S (S
    (S (S (S (S (S (S (S (S (S (S (S (S (S (S (S (S (S (S (S (S (S (S (S (S
    (S (S (S (S (S (S (S (S (S (S (S (S (S (S (S (S (S (S (S (S (S (S (S (S
    (S (S (S (S (S (S (S (S (S (S (S (S (S (S (S (S (S (S (S (S (S (S (S (S
    (S (S (S (S (S (S (S (S (S (S (S (S (S (S (S (S (S (S (S (S (S (S (S (S
    (S (S (S (S (S (S (S (S (S (S (S
    O)))))))))))))))))))))))))))))))))))))))))))))))))))))))))))))))))))))))))))))))))))))))))))))))))))))))))))))))))))))))))))))))))))))))))))))))))))))))))))))))))))))))))))))))))))))))))))))))))))))))))))))))))))))))))))))))))))
| Xe5 ->
  S (S (S (S (S (S (S (S (S (S (S (S (S (S (S (S (S (S (S (S (S (S (S (S (S
    (S (S (S (S (S (S (S (S (S (S (S (S (S (S (S (S (S (S (S (S (S (S (S (S
    (S (S (S (S (S (S (S (S (S (S (S (S (S (S (S (S (S (S (S (S (S (S (S (S
    (S (S (S (S (S (S (S (S (S (S (S (S (S (S (S (S (S (S (S (S (S (S (S (S
    (S (S (S (S (S (S (S (S (S (S (S (S (S (S (S (S (S (S (S (S (S (S (S (S
    (S (S (S (S (S (S (S (S (S (S (S (S (S (S (S (S (S (S (S (S (S (S (S (S
    (S (S (S (S (S (S (S (S (S (S (S (S (S (S (S (S (S (S (S (S (S (S (S (S
    (S (S (S (S (S (S (S (S (S (S (S (S (S (S (S (S (S (S (S (S (S (S (S (S
    (S (S (S (S (S (S (S (S (S (S (S (S (S (S (S (S (S (S (S (S (S (S (S (S
    (S (S (S (S (S (S (S (S (S (S (S (S
    O))))))))))))))))))))))))))))))))))))))))))))))))))))))))))))))))))))))))))))))))))))))))))))))))))))))))))))))))))))))))))))))))))))))))))))))))))))))))))))))))))))))))))))))))))))))))))))))))))))))))))))))))))))))))))))))))))))
| Xe6 ->
  S (S (S (S (S (S (S (S (S (S (S (S (S (S (S (S (S (S (S (S (S (S (S (S (S
    (S (S (S (S (S (S (S (S (S (S (S (S (S (S (S (S (S (S (S (S (S (S (S (S
    (S (S (S (S (S (S (S (S (S (S (S (S (S (S (S (S (S (S (S (S (S (S (S (S
    (S (S (S (S (S (S (S (S (S (S (S (S (S (S (S (S (S (S (S (S (S (S (S (S
    (S (S (S (S (S (S (S (S (S (S (S (S (S (S (S (S (S (S (S (S (S (S (S (S
    (S (S (S (S (S (S (S (S (S (S (S (S (S (S (S (S (S (S (S (S (S (S (S (S
    (S (S (S (S (S (S (S (S (S (S (S (S (S (S (S (S (S (S (S (S (S (S (S (S
    (S (S (S (S (S (S (S (S (S (S (S (S (S (S (S (S (S (S (S (S (S (S (S (S
    (S (S (S (S (S (S (S (S (S (S (S (S (S (S (S (S (S (S (S (S (S (S (S (S
    (S (S (S (S (S (S (S (S (S (S (S (S (S
    O)))))))))))))))))))))))))))))))))))))))))))))))))))))))))))))))))))))))))))))))))))))))))))))))))))))))))))))))))))))))))))))))))))))))))))))))))))))))))))))))))))))))))))))))))))))))))))))))))))))))))))))))))))))))))))))))))))))
| Xe7 ->
  S (S (S (S (S (S (S (S (S (S (S (S (S (S (S (S (S (S (S (S (S (S (S (S (S
    (S (S (S (S (S (S (S (S (S (S (S (S (S (S (S (S (S (S (S (S (S (S (S (S
    (S (S (S (S (S (S (S (S (S (S (S (S (S (S (S (S (S (S (S (S (S (S (S (S
    (S (S (S (S (S (S (S (S (S (S (S (S (S (S (S (S (S (S (S (S (S (S (S (S
    (S (S (S (S (S (S (S (S (S (S (S (S (S (S (S (S (S (S (S (S (S (S (S (S
    (S (S (S (S (S (S (S (S (S (S (S (S (S (S (S (S (S (S (S (S (S (S (S (S
    (S (S (S (S (S (S (S (S (S (S (S (S (S (S (S (S (S (S (S (S (S (S (S (S
    (S (S (S (S (S (S (S (S (S (S (S (S (S (S (S (S (S (S (S (S (S (S (S (S
    (S (S (S (S (S (S (S (S (S (S (S (S (S (S (S (S (S (S (S (S (S (S (S (S
    (S (S (S (S (S (S (S (S (S (S (S (S (S (S
    O))))))))))))))))))))))))))))))))))))))))))))))))))))))))))))))))))))))))))))))))))))))))))))))))))))))))))))))))))))))))))))))))))))))))))))))))))))))))))))))))))))))))))))))))))))))))))))))))))))))))))))))))))))))))))))))))))))))
| Xe8 ->
  S (S (S (S (S (S (S (S (S (S (S (S (S (S (S (S (S (S (S (S (S (S (S (S (S
    (S (S (S (S (S (S (S (S (S (S (S (S (S (S (S (S (S (S (S (S (S (S (S (S
    (S (S (S (S (S (S (S (S (S (S (S (S (S (S (S (S (S (S (S (S (S (S (S (S
    (S (S (S (S (S (S (S (S (S (S (S (S (S (S (S (S (S (S (S (S (S (S (S (S
    (S (S (S (S (S (S (S (S (S (S (S (S (S (S (S (S (S (S (S (S (S (S (S (S
    (S (S (S (S (S (S (S (S (S (S (S (S (S (S (S (S (S (S (S (S (S (S (S (S
    (S (S (S (S (S (S (S (S (S (S (S (S (S (S (S (S (S (S (S (S (S (S (S (S
    (S (S (S (S (S (S (S (S (S (S (S (S (S (S (S (S (S (S (S (S (S (S (S (S
    (S (S (S (S (S (S (S (S (S (S (S (S (S (S (S (S (S (S (S (S (S (S (S (S
    (S (S (S (S (S (S (S (S (S (S (S (S (S (S (S
    O)))))))))))))))))))))))))))))))))))))))))))))))))))))))))))))))))))))))))))))))))))))))))))))))))))))))))))))))))))))))))))))))))))))))))))))))))))))))))))))))))))))))))))))))))))))))))))))))))))))))))))))))))))))))))))))))))))))))
| Xe9 ->
  S (S (S (S (S (S (S (S (S (S (S (S (S (S (S (S (S (S (S (S (S (S (S (S (S
    (S (S (S (S (S (S (S (S (S (S (S (S (S (S (S (S (S (S (S (S (S (S (S (S
    (S (S (S (S (S (S (S (S (S (S (S (S (S (S (S (S (S (S (S (S (S (S (S (S
    (S (S (S (S (S (S (S (S (S (S (S (S (S (S (S (S (S (S (S (S (S (S (S (S
    (S (S (S (S (S (S (S (S (S (S (S (S (S (S (S (S (S (S (S (S (S (S (S (S
    (S (S (S (S (S (S (S (S (S (S (S (S (S (S (S (S (S (S (S (S (S (S (S (S
    (S (S (S (S (S (S (S (S (S (S (S (S (S (S (S (S (S (S (S (S (S (S (S (S
    (S (S (S (S (S (S (S (S (S (S (S (S (S (S (S (S (S (S (S (S (S (S (S (S
    (S (S (S (S (S (S (S (S (S (S (S (S (S (S (S (S (S (S (S (S (S (S (S (S
    (S (S (S (S (S (S (S (S (S (S (S (S (S (S (S (S
    O))))))))))))))))))))))))))))))))))))))))))))))))))))))))))))))))))))))))))))))))))))))))))))))))))))))))))))))))))))))))))))))))))))))))))))))))))))))))))))))))))))))))))))))))))))))))))))))))))))))))))))))))))))))))))))))))))))))))
| Xea ->
  S (S (S (S (S (S (S (S (S (S (S (S (S (S (S (S (S (S (S (S (S (S (S (S (S
    (S (S (S (S (S (S (S (S (S (S (S (S (S (S (S (S (S (S (S (S (S (S (S (S
    (S (S (S (S (S (S (S (S (S (S (S (S (S (S (S (S (S (S (S (S (S (S (S (S
    (S (S (S (S (S (S (S (S (S (S (S (S (S (S (S (S (S (S (S (S (S (S (S (S
    (S (S (S (S (S (S (S (S (S (S (S (S (S (S (S (S (S (S (S (S (S (S (S (S
    (S (S (S (S (S (S (S (S (S (S (S (S (S (S (S (S (S (S (S (S (S (S (S (S
    (S (S (S (S (S (S (S (S (S (S (S (S (S (S (S (S (S (S (S (S (S (S (S (S
    (S (S (S (S (S (S (S (S (S (S (S (S (S (S (S (S (S (S (S (S (S (S (S (S
    (S (S (S (S (S (S (S (S (S (S (S (S (S (S (S (S (S (S (S (S (S (S (S (S
    (S (S (S (S (S (S (S (S (S (S (S (S (S (S (S (S (S
    O)))))))))))))))))))))))))))))))))))))))))))))))))))))))))))))))))))))))))))))))))))))))))))))))))))))))))))))))))))))))))))))))))))))))))))))))))))))))))))))))))))))))))))))))))))))))))))))))))))))))))))))))))))))))))))))))))))))))))
| Xeb ->
  S (S (S (S (S (S (S (S (S (S (S (S (S (S (S (S (S (S (S (S (S (S (S (S (S
    (S (S (S (S (S (S (S (S (S (S (S (S (S (S (S (S (S (S (S (S (S (S (S (S
    (S (S (S (S (S (S (S (S (S (S (S (S (S (S (S (S (S (S (S (S (S (S (S (S
    (S (S (S (S (S (S (S (S (S (S (S (S (S (S (S (S (S (S (S (S (S (S (S (S
    (S (S (S (S (S (S (S (S (S (S (S (S (S (S (S (S (S (S (S (S (S (S (S (S
    (S (S (S (S (S (S (S (S (S (S (S (S (S (S (S (S (S (S (S (S (S (S (S (S
    (S (S (S (S (S (S (S (S (S (S (S (S (S (S (S (S (S (S (S (S (S (S (S (S
    (S (S (S (S (S (S (S (S (S (S (S (S (S (S (S (S (S (S (S (S (S (S (S (S
    (S (S (S (S (S (S (S (S (S (S (S (S (S (S (S (S (S (S (S (S (S (S (S (S
    (S (S (S (S (S (S (S (S (S (S (S (S (S (S (S (S (S (S
    O))))))))))))))))))))))))))))))))))))))))))))))))))))))))))))))))))))))))))))))))))))))))))))))))))))))))))))))))))))))))))))))))))))))))))))))))))))))))))))))))))))))))))))))))))))))))))))))))))))))))))))))))))))))))))))))))))))))))))
| Xec ->
  S (S (S (S (S (S (S (S (S (S (S (S (S (S (S (S (S (S (S (S (S (S (S (S (S
    (S (S (S (S (S (S (S (S (S (S (S (S (S (S (S (S (S (S (S (S (S (S (S (S
    (S (S (S (S (S (S (S (S (S (S (S (S (S (S (S (S (S (S (S (S (S (S (S (S
    (S (S (S (S (S (S (S (S (S (S (S (S (S (S (S (S (S (S (S (S (S (S (S (S
    (S (S (S (S (S (S (S (S (S (S (S (S (S (S (S (S (S (S (S (S (S (S (S (S
    (S (S (S (S (S (S (S (S (S (S (S (S (S (S (S (S (S (S (S (S (S (S (S (S
    (S (S (S (S (S (S (S (S (S (S (S (S (S (S (S (S (S (S (S (S (S (S (S (S
    (S (S (S (S (S (S (S (S (S (S (S (S (S (S (S (S (S (S (S (S (S (S (S (S
    (S (S (S (S (S (S (S (S (S (S (S (S (S (S (S (S (S (S (S (S (S (S (S (S
    (S (S (S (S (S (S (S (S (S (S (S (S (S (S (S (S (S (S (S
    O)))))))))))))))))))))))))))))))))))))))))))))))))))))))))))))))))))))))))))))))))))))))))))))))))))))))))))))))))))))))))))))))))))))))))))))))))))))))))))))))))))))))))))))))))))))))))))))))))))))))))))))))))))))))))))))))))))))))))))
| Xed ->
  S (S (S (S (S (S (S (S (S (S (S (S (S (S (S (S (S (S (S (S (S (S (S (S (S
    (S (S (S (S (S (S (S (S (S (S (S (S (S (S (S (S (S (S (S (S (S (S (S (S
    (S (S (S (S (S (S (S (S (S (S (S (S (S (S (S (S (S (S (S (S (S (S (S (S
    (S (S (S (S (S (S (S (S (S (S (S (S (S (S (S (S (S (S (S (S (S (S (S (S
    (S (S (S (S (S (S (S (S (S (S (S (S (S (S (S (S (S (S (S (S (S (S (S (S
    (S (S (S (S (S (S (S (S (S (S (S (S (S (S (S (S (S (S (S (S (S (S (S (S
    (S (S (S (S (S (S (S (S (S (S (S (S (S (S (S (S (S (S (S (S (S (S (S (S
    (S (S (S (S (S (S (S (S (S (S (S (S (S (S (S (S (S (S (S (S (S (S (S (S
    (S (S (S (S (S (S (S (S (S (S (S (S (S (S (S (S (S (S (S (S (S (S (S (S
    (S (S (S (S (S (S (S (S (S (S (S (S (S (S (S (S (S (S (S (S
    O))))))))))))))))))))))))))))))))))))))))))))))))))))))))))))))))))))))))))))))))))))))))))))))))))))))))))))))))))))))))))))))))))))))))))))))))))))))))))))))))))))))))))))))))))))))))))))))))))))))))))))))))))))))))))))))))))))))))))))
| Xee ->
  S (S (S (S (S (S (S (S (S (S (S (S (S (S (S (S (S (S (S (S (S (S (S (S (S
    (S (S (S (S (S (S (S (S (S (S (S (S (S (S (S (S (S (S (S (S (S (S (S (S
    (S (S (S (S (S (S (S (S (S (S (S (S (S (S (S (S (S (S (S (S (S (S (S (S
    (S (S (S (S (S (S (S (S (S (S (S (S (S (S (S (S (S (S (S (S (S (S (S (S
    (S (S (S (S (S (S (S (S (S (S (S (S (S (S (S (S (S (S (S (S (S (S (S (S
    (S (S (S (S (S (S (S (S (S (S (S (S (S (S (S (S (S (S (S (S (S (S (S (S
    (S (S (S (S (S (S (S (S (S (S (S (S (S (S (S (S (S (S (S (S (S (S (S (S
    (S (S (S (S (S (S (S (S (S (S (S (S (S (S (S (S (S (S (S (S (S (S (S (S
    (S (S (S (S (S (S (S (S (S (S (S (S (S (S (S (S (S (S (S (S (S (S (S (S
    (S (S (S (S (S (S (S (S (S (S (S (S (S (S (S (S (S (S (S (S (S
    O)))))))))))))))))))))))))))))))))))))))))))))))))))))))))))))))))))))))))))))))))))))))))))))))))))))))))))))))))))))))))))))))))))))))))))))))))))))))))))))))))))))))))))))))))))))))))))))))))))))))))))))))))))))))))))))))))))))))))))))
| Xef ->
  S (S (S (S (S (S (S (S (S (S (S (S (S (S (S (S (S (S (S (S (S (S (S (S (S
    (S (S (S (S (S (S (S (S (S (S (S (S (S (S (S (S (S (S (S (S (S (S (S (S
    (S (S (S (S (S (S (S (S (S (S (S (S (S (S (S (S (S (S (S (S (S (S (S (S
    (S (S (S (S (S (S (S (S (S (S (S (S (S (S (S (S (S (S (S (S (S (S (S (S
    (S (S (S (S (S (S (S (S (S (S (S (S (S (S (S (S (S (S (S (S (S (S (S (S
    (S (S (S (S (S (S (S (S (S (S (S (S (S (S (S (S (S (S (S (S (S (S (S (S
    (S (S (S (S (S (S (S (S (S (S (S (S (S (S (S (S (S (S (S (S (S (S (S (S
    (S (S (S (S (S (S (S (S (S (S (S (S (S (S (S (S (S (S (S (S (S (S (S (S
    (S (S (S (S (S (S (S (S (S (S (S (S (S (S (S (S (S (S (S (S (S (S (S (S
    (S (S (S (S (S (S (S (S (S (S (S (S (S (S (S (S (S (S (S (S (S (S
    O))))))))))))))))))))))))))))))))))))))))))))))))))))))))))))))))))))))))))))))))))))))))))))))))))))))))))))))))))))))))))))))))))))))))))))))))))))))))))))))))))))))))))))))))))))))))))))))))))))))))))))))))))))))))))))))))))))))))))))))
| Xf0 ->
  S (S (S (S (S (S (S (S (S (S (S (S (S (S (S (S (S (S (S (S (S (S (S (S (S
    (S (S (S (S (S (S (S (S (S (S (S (S (S (S (S (S (S (S (S (S (S (S (S (S
    (S (S (S (S (S (S (S (S (S (S (S (S (S (S (S (S (S (S (S (S (S (S (S (S
    (S (S (S (S (S (S (S (S (S (S (S (S (S (S (S (S (S (S (S (S (S (S (S (S
    (S (S (S (S (S (S (S (S (S (S (S (S (S (S (S (S (S (S (S (S (S (S (S (S
    (S (S (S (S (S (S (S (S (S (S (S (S (S (S (S (S (S (S (S (S (S (S (S (S
    (S (S (S (S (S (S (S (S (S (S (S (S (S (S (S (S (S (S (S (S (S (S (S (S
    (S (S (S (S (S (S (S (S (S (S (S (S (S (S (S (S (S (S (S (S (S (S (S (S
    (S (S (S (S (S (S (S (S (S (S (S (S (S (S (S (S (S (S (S (S (S (S (S (S
    (S (S (S (S (S (S (S (S (S (S (S (S (S (S (S (S (S (S (S (S (S (S (S
    O)))))))))))))))))))))))))))))))))))))))))))))))))))))))))))))))))))))))))))))))))))))))))))))))))))))))))))))))))))))))))))))))))))))))))))))))))))))))))))))))))))))))))))))))))))))))))))))))))))))))))))))))))))))))))))))))))))))))))))))))
| Xf1 ->
  S (S (S (S (S (S (S (S (S (S (S (S (S (S (S (S (S (S (S (S (S (S (S (S (S
    (S (S (S (S (S (S (S (S (S (S (S (S (S (S (S (S (S (S (S (S (S (S (S (S
    (S (S (S (S (S (S (S (S (S (S (S (S (S (S (S (S (S (S (S (S (S (S (S (S
    (S (S (S (S (S (S (S (S (S (S (S (S (S (S (S (S (S (S (S (S (S (S (S (S
    (S (S (S (S (S (S (S (S (S (S (S (S (S (S (S (S (S (S (S (S (S (S (S (S
    (S (S (S (S (S (S (S (S (S (S (S (S (S (S (S (S (S (S (S (S (S (S (S (S
    (S (S (S (S (S (S (S (S (S (S (S (S (S (S (S (S (S (S (S (S (S (S (S (S
    (S (S (S (S (S (S (S (S (S (S (S (S (S (S (S (S (S (S (S (S (S (S (S (S
    (S (S (S (S (S (S (S (S (S (S (S (S (S (S (S (S (S (S (S (S (S (S (S (S
    (S (S (S (S (S (S (S (S (S (S (S (S (S (S (S (S (S (S (S (S (S (S (S (S
    O))))))))))))))))))))))))))))))))))))))))))))))))))))))))))))))))))))))))))))))))))))))))))))))))))))))))))))))))))))))))))))))))))))))))))))))))))))))))))))))))))))))))))))))))))))))))))))))))))))))))))))))))))))))))))))))))))))))))))))))))
| Xf2 ->
  S (S (S (S (S (S (S (S (S (S (S (S (S (S (S (S (S (S (S (S (S (S (S (S (S
    (S (S (S (S (S (S (S (S (S (S (S (S (S (S (S (S (S (S (S (S (S (S (S (S
    (S (S (S (S (S (S (S (S (S (S (S (S (S (S (S (S (S (S (S (S (S (S (S (S
    (S (S (S (S (S (S (S (S (S (S (S (S (S (S (S (S (S (S (S (S (S (S (S (S
    (S (S (S (S (S (S (S (S (S (S (S (S (S (S (S (S (S (S (S (S (S (S (S (S
    (S (S (S (S (S (S (S (S (S (S (S (S (S (S (S (S (S (S (S (S (S (S (S (S
    (S (S (S (S (S (S (S (S (S (S (S (S (S (S (S (S (S (S (S (S (S (S (S (S
    (S (S (S (S (S (S (S (S (S (S (S (S (S (S (S (S (S (S (S (S (S (S (S (S
    (S (S (S (S (S (S (S (S (S (S (S (S (S (S (S (S (S (S (S (S (S (S (S (S
    (S (S (S (S (S (S (S (S (S (S (S (S (S (S (S (S (S (S (S (S (S (S (S (S
    (S
    O)))))))))))))))))))))))))))))))))))))))))))))))))))))))))))))))))))))))))))))))))))))))))))))))))))))))))))))))))))))))))))))))))))))))))))))))))))))))))))))))))))))))))))))))))))))))))))))))))))))))))))))))))))))))))))))))))))))))))))))))))
| Xf3 ->
  S (S (S (S (S (S (S (S (S (S (S (S (S (S (S (S (S (S (S (S (S (S (S (S (S
    (S (S (S (S (S (S (S (S (S (S (S (S (S (S (S (S (S (S (S (S (S (S (S (S
    (S (S (S (S (S (S (S (S (S (S (S (S (S (S (S (S (S (S (S (S (S (S (S (S
    (S (S (S (S (S (S (S (S (S (S (S (S (S (S (S (S (S (S (S (S (S (S (S (S
    (S (S (S (S (S (S (S (S (S (S (S (S (S (S (S (S (S (S (S (S (S (S (S (S
    (S (S (S (S (S (S (S (S (S (S (S (S (S (S (S (S (S (S (S (S (S (S (S (S
    (S (S (S (S (S (S (S (S (S (S (S (S (S (S (S (S (S (S (S (S (S (S (S (S
    (S (S (S (S (S (S (S (S (S (S (S (S (S (S (S (S (S (S (S (S (S (S (S (S
    (S (S (S (S (S (S (S (S (S (S (S (S (S (S (S (S (S (S (S (S (S (S (S (S
    (S (S (S (S (S (S (S (S (S (S (S (S (S (S (S (S (S (S (S (S (S (S (S (S
    (S (S
    O))))))))))))))))))))))))))))))))))))))))))))))))))))))))))))))))))))))))))))))))))))))))))))))))))))))))))))))))))))))))))))))))))))))))))))))))))))))))))))))))))))))))))))))))))))))))))))))))))))))))))))))))))))))))))))))))))))))))))))))))))
| Xf4 ->
  S (S (S (S (S (S (S (S (S (S (S (S (S (S (S (S (S (S (S (S (S (S (S (S (S
    (S (S (S (S (S (S (S (S (S (S (S (S (S (S (S (S (S (S (S (S (S (S (S (S
    (S (S (S (S (S (S (S (S (S (S (S (S (S (S (S (S (S (S (S (S (S (S (S (S
    (S (S (S (S (S (S (S (S (S (S (S (S (S (S (S (S (S (S (S (S (S (S (S (S
    (S (S (S (S (S (S (S (S (S (S (S (S (S (S (S (S (S (S (S (S (S (S (S (S
    (S (S (S (S (S (S (S (S (S (S (S (S (S (S (S (S (S (S (S (S (S (S (S (S
    (S (S (S (S (S (S (S (S (S (S (S (S (S (S (S (S (S (S (S (S (S (S (S (S
    (S (S (S (S (S (S (S (S (S (S (S (S (S (S (S (S (S (S (S (S (S (S (S (S
    (S (S (S (S (S (S (S (S (S (S (S (S (S (S (S (S (S (S (S (S (S (S (S (S
    (S (S (S (S (S (S (S (S (S (S (S (S (S (S (S (S (S (S (S (S (S (S (S (S
    (S (S (S
    O)))))))))))))))))))))))))))))))))))))))))))))))))))))))))))))))))))))))))))))))))))))))))))))))))))))))))))))))))))))))))))))))))))))))))))))))))))))))))))))))))))))))))))))))))))))))))))))))))))))))))))))))))))))))))))))))))))))))))))))))))))
| Xf5 ->
  S (S (S (S (S (S (S (S (S (S (S (S (S (S (S (S (S (S (S (S (S (S (S (S (S
    (S (S (S (S (S (S (S (S (S (S (S (S (S (S (S (S (S (S (S (S (S (S (S (S
    (S (S (S (S (S (S (S (S (S (S (S (S (S (S (S (S (S (S (S (S (S (S (S (S
    (S (S (S (S (S (S (S (S (S (S (S (S (S (S (S (S (S (S (S (S (S (S (S (S
    (S (S (S (S (S (S (S (S (S (S (S (S (S (S (S (S (S (S (S (S (S (S (S (S
    (S (S (S (S (S (S (S (S (S (S (S (S (S (S (S (S (S (S (S (S (S (S (S (S
    (S (S (S (S (S (S (S (S (S (S (S (S (S (S (S (S (S (S (S (S (S (S (S (S
    (S (S (S (S (S (S (S (S (S (S (S (S (S (S (S (S (S (S (S (S (S (S (S (S
    (S (S (S (S (S (S (S (S (S (S (S (S (S (S (S (S (S (S (S (S (S (S (S (S
    (S (S (S (S (S (S (S (S (S (S (S (S (S (S (S (S (S (S (S (S (S (S (S (S
    (S (S (S (S
    O))))))))))))))))))))))))))))))))))))))))))))))))))))))))))))))))))))))))))))))))))))))))))))))))))))))))))))))))))))))))))))))))))))))))))))))))))))))))))))))))))))))))))))))))))))))))))))))))))))))))))))))))))))))))))))))))))))))))))))))))))))
| Xf6 ->
  S (S (S (S (S (S (S (S (S (S (S (S (S (S (S (S (S (S (S (S (S (S (S (S (S
    (S (S (S (S (S (S (S (S (S (S (S (S (S (S (S (S (S (S (S (S (S (S (S (S
    (S (S (S (S (S (S (S (S (S (S (S (S (S (S (S (S (S (S (S (S (S (S (S (S
    (S (S (S (S (S (S (S (S (S (S (S (S (S (S (S (S (S (S (S (S (S (S (S (S
    (S (S (S (S (S (S (S (S (S (S (S (S (S (S (S (S (S (S (S (S (S (S (S (S
    (S (S (S (S (S (S (S (S (S (S (S (S (S (S (S (S (S (S (S (S (S (S (S (S
    (S (S (S (S (S (S (S (S (S (S (S (S (S (S (S (S (S (S (S (S (S (S (S (S
    (S (S (S (S (S (S (S (S (S (S (S (S (S (S (S (S (S (S (S (S (S (S (S (S
    (S (S (S (S (S (S (S (S (S (S (S (S (S (S (S (S (S (S (S (S (S (S (S (S
    (S (S (S (S (S (S (S (S (S (S (S (S (S (S (S (S (S (S (S (S (S (S (S (S
    (S (S (S (S (S
    O)))))))))))))))))))))))))))))))))))))))))))))))))))))))))))))))))))))))))))))))))))))))))))))))))))))))))))))))))))))))))))))))))))))))))))))))))))))))))))))))))))))))))))))))))))))))))))))))))))))))))))))))))))))))))))))))))))))))))))))))))))))
| Xf7 ->
  S (S (S (S (S (S (S (S (S (S (S (S (S (S (S (S (S (S (S (S (S (S (S (S (S
    (S (S (S (S (S (S (S (S (S (S (S (S (S (S (S (S (S (S (S (S (S (S (S (S
    (S (S (S (S (S (S (S (S (S (S (S (S (S (S (S (S (S (S (S (S (S (S (S (S
    (S (S (S (S (S (S (S (S (S (S (S (S (S (S (S (S (S (S (S (S (S (S (S (S
    (S (S (S (S (S (S (S (S (S (S (S (S (S (S (S (S (S (S (S (S (S (S (S (S
    (S (S (S (S (S (S (S (S (S (S (S (S (S (S (S (S (S (S (S (S (S (S (S (S
    (S (S (S (S (S (S (S (S (S (S (S (S (S (S (S (S (S (S (S (S (S (S (S (S
    (S (S (S (S (S (S (S (S (S (S (S (S (S (S (S (S (S (S (S (S (S (S (S (S
    (S (S (S (S (S (S (S (S (S (S (S (S (S (S (S (S (S (S (S (S (S (S (S (S
    (S (S (S (S (S (S (S (S (S (S (S (S (S (S (S (S (S (S (S (S (S (S (S (S
    (S (S (S (S (S (S
    O))))))))))))))))))))))))))))))))))))))))))))))))))))))))))))))))))))))))))))))))))))))))))))))))))))))))))))))))))))))))))))))))))))))))))))))))))))))))))))))))))))))))))))))))))))))))))))))))))))))))))))))))))))))))))))))))))))))))))))))))))))))
| Xf8 ->
  S (S (S (S (S (S (S (S (S (S (S (S (S (S (S (S (S (S (S (S (S (S (S (S (S
    (S (S (S (S (S (S (S (S (S (S (S (S (S (S (S (S (S (S (S (S (S (S (S (S
    (S (S (S (S (S (S (S (S (S (S (S (S (S (S (S (S (S (S (S (S (S (S (S (S
    (S (S (S (S (S (S (S (S (S (S (S (S (S (S (S (S (S (S (S (S (S (S (S (S
    (S (S (S (S (S (S (S (S (S (S (S (S (S (S (S (S (S (S (S (S (S (S (S (S
    (S (S (S (S (S (S (S (S (S (S (S (S (S (S (S (S (S (S (S (S (S (S (S (S
    (S (S (S (S (S (S (S (S (S (S (S (S (S (S (S (S (S (S (S (S (S (S (S (S
    (S (S (S (S (S (S (S (S (S (S (S (S (S (S (S (S (S (S (S (S (S (S (S (S
    (S (S (S (S (S (S (S (S (S (S (S (S (S (S (S (S (S (S (S (S (S (S (S (S
    (S (S (S (S (S (S (S (S (S (S (S (S (S (S (S (S (S (S (S (S (S (S (S (S
    (S (S (S (S (S (S (S
    O)))))))))))))))))))))))))))))))))))))))))))))))))))))))))))))))))))))))))))))))))))))))))))))))))))))))))))))))))))))))))))))))))))))))))))))))))))))))))))))))))))))))))))))))))))))))))))))))))))))))))))))))))))))))))))))))))))))))))))))))))))))))
| Xf9 ->
  S (S (S (S (S (S (S (S (S (S (S (S (S (S (S (S (S (S (S (S (S (S (S (S (S
    (S (S (S (S (S (S (S (S (S (S (S (S (S (S (S (S (S (S (S (S (S (S (S (S
    (S (S (S (S (S (S (S (S (S (S (S (S (S (S (S (S (S (S (S (S (S (S (S (S
    (S (S (S (S (S (S (S (S (S (S (S (S (S (S (S (S (S (S (S (S (S (S (S (S
    (S (S (S (S (S (S (S (S (S (S (S (S (S (S (S (S (S (S (S (S (S (S (S (S
    (S (S (S (S (S (S (S (S (S (S (S (S (S (S (S (S (S (S (S (S (S (S (S (S
    (S (S (S (S (S (S (S (S (S (S (S (S (S (S (S (S (S (S (S (S (S (S (S (S
    (S (S (S (S (S (S (S (S (S (S (S (S (S (S (S (S (S (S (S (S (S (S (S (S
    (S (S (S (S (S (S (S (S (S (S (S (S (S (S (S (S (S (S (S (S (S (S (S (S
    (S (S (S (S (S (S (S (S (S (S (S (S (S (S (S (S (S (S (S (S (S (S (S (S
    (S (S (S (S (S (S (S (S
    O))))))))))))))))))))))))))))))))))))))))))))))))))))))))))))))))))))))))))))))))))))))))))))))))))))))))))))))))))))))))))))))))))))))))))))))))))))))))))))))))))))))))))))))))))))))))))))))))))))))))))))))))))))))))))))))))))))))))))))))))))))))))
| Xfa ->
  S (S (S (S (S (S (S (S (S (S (S (S (S (S (S (S (S (S (S (S (S (S (S (S (S
    (S (S (S (S (S (S (S (S (S (S (S (S (S (S (S (S (S (S (S (S (S (S (S (S
    (S (S (S (S (S (S (S (S (S (S (S (S (S (S (S (S (S (S (S (S (S (S (S (S
    (S (S (S (S (S (S (S (S (S (S (S (S (S (S (S (S (S (S (S (S (S (S (S (S
    (S (S (S (S (S (S (S (S (S (S (S (S (S (S (S (S (S (S (S (S (S (S (S (S
    (S (S (S (S (S (S (S (S (S (S (S (S (S (S (S (S (S (S (S (S (S (S (S (S
    (S (S (S (S (S (S (S (S (S (S (S (S (S (S (S (S (S (S (S (S (S (S (S (S
    (S (S (S (S (S (S (S (S (S (S (S (S (S (S (S (S (S (S (S (S (S (S (S (S
    (S (S (S (S (S (S (S (S (S (S (S (S (S (S (S (S (S (S (S (S (S (S (S (S
    (S (S (S (S (S (S (S (S (S (S (S (S (S (S (S (S (S (S (S (S (S (S (S (S
    (S (S (S (S (S (S (S (S (S
    O)))))))))))))))))))))))))))))))))))))))))))))))))))))))))))))))))))))))))))))))))))))))))))))))))))))))))))))))))))))))))))))))))))))))))))))))))))))))))))))))))))))))))))))))))))))))))))))))))))))))))))))))))))))))))))))))))))))))))))))))))))))))))
| Xfb ->
  S (S (S (S (S (S (S (S (S (S (S (S (S (S (S (S (S (S (S (S (S (S (S (S (S
    (S (S (S (S (S (S (S (S (S (S (S (S (S (S (S (S (S (S (S (S (S (S (S (S
    (S (S (S (S (S (S (S (S (S (S (S (S (S (S (S (S (S (S (S (S (S (S (S (S
    (S (S (S (S (S (S (S (S (S (S (S (S (S (S (S (S (S (S (S (S (S (S (S (S
    (S (S (S (S (S (S (S (S (S (S (S (S (S (S (S (S (S (S (S (S (S (S (S (S
    (S (S (S (S (S (S (S (S (S (S (S (S (S (S (S (S (S (S (S (S (S (S (S (S
    (S (S (S (S (S (S (S (S (S (S (S (S (S (S (S (S (S (S (S (S (S (S (S (S
    (S (S (S (S (S (S (S (S (S (S (S (S (S (S (S (S (S (S (S (S (S (S (S (S
    (S (S (S (S (S (S (S (S (S (S (S (S (S (S (S (S (S (S (S (S (S (S (S (S
    (S (S (S (S (S (S (S (S (S (S (S (S (S (S (S (S (S (S (S (S (S (S (S (S
    (S (S (S (S (S (S (S (S (S (S
    O))))))))))))))))))))))))))))))))))))))))))))))))))))))))))))))))))))))))))))))))))))))))))))))))))))))))))))))))))))))))))))))))))))))))))))))))))))))))))))))))))))))))))))))))))))))))))))))))))))))))))))))))))))))))))))))))))))))))))))))))))))))))))
| Xfc ->
  S (S (S (S (S (S (S (S (S (S (S (S (S (S (S (S (S (S (S (S (S (S (S (S (S
    (S (S (S (S (S (S (S (S (S (S (S (S (S (S (S (S (S (S (S (S (S (S (S (S
    (S (S (S (S (S (S (S (S (S (S (S (S (S (S (S (S (S (S (S (S (S (S (S (S
    (S (S (S (S (S (S (S (S (S (S (S (S (S (S (S (S (S (S (S (S (S (S (S (S
    (S (S (S (S (S (S (S (S (S (S (S (S (S (S (S (S (S (S (S (S (S (S (S (S
    (S (S (S (S (S (S (S (S (S (S (S (S (S (S (S (S (S (S (S (S (S (S (S (S
    (S (S (S (S (S (S (S (S (S (S (S (S (S (S (S (S (S (S (S (S (S (S (S (S
    (S (S (S (S (S (S (S (S (S (S (S (S (S (S (S (S (S (S (S (S (S (S (S (S
    (S (S (S (S (S (S (S (S (S (S (S (S (S (S (S (S (S (S (S (S (S (S (S (S
    (S (S (S (S (S (S (S (S (S (S (S (S (S (S (S (S (S (S (S (S (S (S (S (S
    (S (S (S (S (S (S (S (S (S (S (S
    O)))))))))))))))))))))))))))))))))))))))))))))))))))))))))))))))))))))))))))))))))))))))))))))))))))))))))))))))))))))))))))))))))))))))))))))))))))))))))))))))))))))))))))))))))))))))))))))))))))))))))))))))))))))))))))))))))))))))))))))))))))))))))))
| Xfd ->
  S (S (S (S (S (S (S (S (S (S (S (S (S (S (S (S (S (S (S (S (S (S (S (S (S
    (S (S (S (S (S (S (S (S (S (S (S (S (S (S (S (S (S (S (S (S (S (S (S (S
    (S (S (S (S (S (S (S (S (S (S (S (S (S (S (S (S (S (S (S (S (S (S (S (S
    (S (S (S (S (S (S (S (S (S (S (S (S (S (S (S (S (S (S (S (S (S (S (S (S
    (S (S (S (S (S (S (S (S (S (S (S (S (S (S (S (S (S (S (S (S (S (S (S (S
    (S (S (S (S (S (S (S (S (S (S (S (S (S (S (S (S (S (S (S (S (S (S (S (S
    (S (S (S (S (S (S (S (S (S (S (S (S (S (S (S (S (S (S (S (S (S (S (S (S
    (S (S (S (S (S (S (S (S (S (S (S (S (S (S (S (S (S (S (S (S (S (S (S (S
    (S (S (S (S (S (S (S (S (S (S (S (S (S (S (S (S (S (S (S (S (S (S (S (S
    (S (S (S (S (S (S (S (S (S (S (S (S (S (S (S (S (S (S (S (S (S (S (S (S
    (S (S (S (S (S (S (S (S (S (S (S (S
    O))))))))))))))))))))))))))))))))))))))))))))))))))))))))))))))))))))))))))))))))))))))))))))))))))))))))))))))))))))))))))))))))))))))))))))))))))))))))))))))))))))))))))))))))))))))))))))))))))))))))))))))))))))))))))))))))))))))))))))))))))))))))))))
| Xfe ->
  S (S (S (S (S (S (S (S (S (S (S (S (S (S (S (S (S (S (S (S (S (S (S (S (S
    (S (S (S (S (S (S (S (S (S (S (S (S (S (S (S (S (S (S (S (S (S (S (S (S
    (S (S (S (S (S (S (S (S (S (S (S (S (S (S (S (S (S (S (S (S (S (S (S (S
    (S (S (S (S (S (S (S (S (S (S (S (S (S (S (S (S (S (S (S (S (S (S (S (S
    (S (S (S (S (S (S (S (S (S (S (S (S (S (S (S (S (S (S (S (S (S (S (S (S
    (S (S (S (S (S (S (S (S (S (S (S (S (S (S (S (S (S (S (S (S (S (S (S (S
    (S (S (S (S (S (S (S (S (S (S (S (S (S (S (S (S (S (S (S (S (S (S (S (S
    (S (S (S (S (S (S (S (S (S (S (S (S (S (S (S (S (S (S (S (S (S (S (S (S
    (S (S (S (S (S (S (S (S (S (S (S (S (S (S (S (S (S (S (S (S (S (S (S (S
    (S (S (S (S (S (S (S (S (S (S (S (S (S (S (S (S (S (S (S (S (S (S (S (S
    (S (S (S (S (S (S (S (S (S (S (S (S (S
    O)))))))))))))))))))))))))))))))))))))))))))))))))))))))))))))))))))))))))))))))))))))))))))))))))))))))))))))))))))))))))))))))))))))))))))))))))))))))))))))))))))))))))))))))))))))))))))))))))))))))))))))))))))))))))))))))))))))))))))))))))))))))))))))
| Xff ->
  S (S (S (S (S (S (S (S (S (S (S (S (S (S (S (S (S (S (S (S (S (S (S (S (S
    (S (S (S (S (S (S (S (S (S (S (S (S (S (S (S (S (S (S (S (S (S (S (S (S
    (S (S (S (S (S (S (S (S (S (S (S (S (S (S (S (S (S (S (S (S (S (S (S (S
    (S (S (S (S (S (S (S (S (S (S (S (S (S (S (S (S (S (S (S (S (S (S (S (S
    (S (S (S (S (S (S (S (S (S (S (S (S (S (S (S (S (S (S (S (S (S (S (S (S
    (S (S (S (S (S (S (S (S (S (S (S (S (S (S (S (S (S (S (S (S (S (S (S (S
    (S (S (S (S (S (S (S (S (S (S (S (S (S (S (S (S (S (S (S (S (S (S (S (S
    (S (S (S (S (S (S (S (S (S (S (S (S (S (S (S (S (S (S (S (S (S (S (S (S
    (S (S (S (S (S (S (S (S (S (S (S (S (S (S (S (S (S (S (S (S (S (S (S (S
    (S (S (S (S (S (S (S (S (S (S (S (S (S (S (S (S (S (S (S (S (S (S (S (S
    (S (S (S (S (S (S (S (S (S (S (S (S (S (S
    O))))))))))))))))))))))))))))))))))))))))))))))))))))))))))))))))))))))))))))))))))))))))))))))))))))))))))))))))))))))))))))))))))))))))))))))))))))))))))))))))))))))))))))))))))))))))))))))))))))))))))))))))))))))))))))))))))))))))))))))))))))))))))))))

(** val to_N0 : byte -> n **)

let to_N0 = function
| X00 -> N0
| X01 -> Npos XH
| X02 -> Npos (XO XH)
| X03 -> Npos (XI XH)
| X04 -> Npos (XO (XO XH))
| X05 -> Npos (XI (XO XH))
| X06 -> Npos (XO (XI XH))
| X07 -> Npos (XI (XI XH))
| X08 -> Npos (XO (XO (XO XH)))
| X09 -> Npos (XI (XO (XO XH)))
| X0a -> Npos (XO (XI (XO XH)))
| X0b -> Npos (XI (XI (XO XH)))
| X0c -> Npos (XO (XO (XI XH)))
| X0d -> Npos (XI (XO (XI XH)))
| X0e -> Npos (XO (XI (XI XH)))
| X0f -> Npos (XI (XI (XI XH)))
| X10 -> Npos (XO (XO (XO (XO XH))))
| X11 -> Npos (XI (XO (XO (XO XH))))
| X12 -> Npos (XO (XI (XO (XO XH))))
| X13 -> Npos (XI (XI (XO (XO XH))))
| X14 -> Npos (XO (XO (XI (XO XH))))
| X15 -> Npos (XI (XO (XI (XO XH))))
| X16 -> Npos (XO (XI (XI (XO XH))))
| X17 -> Npos (XI (XI (XI (XO XH))))
| X18 -> Npos (XO (XO (XO (XI XH))))
| X19 -> Npos (XI (XO (XO (XI XH))))
| X1a -> Npos (XO (XI (XO (XI XH))))
| X1b -> Npos (XI (XI (XO (XI XH))))
| X1c -> Npos (XO (XO (XI (XI XH))))
| X1d -> Npos (XI (XO (XI (XI XH))))
| X1e -> Npos (XO (XI (XI (XI XH))))
| X1f -> Npos (XI (XI (XI (XI XH))))
| X20 -> Npos (XO (XO (XO (XO (XO XH)))))
| X21 -> Npos (XI (XO (XO (XO (XO XH)))))
| X22 -> Npos (XO (XI (XO (XO (XO XH)))))
| X23 -> Npos (XI (XI (XO (XO (XO XH)))))
| X24 -> Npos (XO (XO (XI (XO (XO XH)))))
| X25 -> Npos (XI (XO (XI (XO (XO XH)))))
| X26 -> Npos (XO (XI (XI (XO (XO XH)))))
| X27 -> Npos (XI (XI (XI (XO (XO XH)))))
| X28 -> Npos (XO (XO (XO (XI (XO XH)))))
| X29 -> Npos (XI (XO (XO (XI (XO XH)))))
| X2a -> Npos (XO (XI (XO (XI (XO XH)))))
| X2b -> Npos (XI (XI (XO (XI (XO XH)))))
| X2c -> Npos (XO (XO (XI (XI (XO XH)))))
| X2d -> Npos (XI (XO (XI (XI (XO XH)))))
| X2e -> Npos (XO (XI (XI (XI (XO XH)))))
| X2f -> Npos (XI (XI (XI (XI (XO XH)))))
| X30 -> Npos (XO (XO (XO (XO (XI XH)))))
| X31 -> Npos (XI (XO (XO (XO (XI XH)))))
| X32 -> Npos (XO (XI (XO (XO (XI XH)))))
| X33 -> Npos (XI (XI (XO (XO (XI XH)))))
| X34 -> Npos (XO (XO (XI (XO (XI XH)))))
| X35 -> Npos (XI (XO (XI (XO (XI XH)))))
| X36 -> Npos (XO (XI (XI (XO (XI XH)))))
| X37 -> Npos (XI (XI (XI (XO (XI XH)))))
| X38 -> Npos (XO (XO (XO (XI (XI XH)))))
| X39 -> Npos (XI (XO (XO (XI (XI XH)))))
| X3a -> Npos (XO (XI (XO (XI (XI XH)))))
| X3b -> Npos (XI (XI (XO (XI (XI XH)))))
| X3c -> Npos (XO (XO (XI (XI (XI XH)))))
| X3d -> Npos (XI (XO (XI (XI (XI XH)))))
| X3e -> Npos (XO (XI (XI (XI (XI XH)))))
| X3f -> Npos (XI (XI (XI (XI (XI XH)))))
| X40 -> Npos (XO (XO (XO (XO (XO (XO XH))))))
| X41 -> Npos (XI (XO (XO (XO (XO (XO XH))))))
| X42 -> Npos (XO (XI (XO (XO (XO (XO XH))))))
| X43 -> Npos (XI (XI (XO (XO (XO (XO XH))))))
| X44 -> Npos (XO (XO (XI (XO (XO (XO XH))))))
| X45 -> Npos (XI (XO (XI (XO (XO (XO XH))))))
| X46 -> Npos (XO (XI (XI (XO (XO (XO XH))))))
| X47 -> Npos (XI (XI (XI (XO (XO (XO XH))))))
| X48 -> Npos (XO (XO (XO (XI (XO (XO XH))))))
| X49 -> Npos (XI (XO (XO (XI (XO (XO XH))))))
| X4a -> Npos (XO (XI (XO (XI (XO (XO XH))))))
| X4b -> Npos (XI (XI (XO (XI (XO (XO XH))))))
| X4c -> Npos (XO (XO (XI (XI (XO (XO XH))))))
| X4d -> Npos (XI (XO (XI (XI (XO (XO XH))))))
| X4e -> Npos (XO (XI (XI (XI (XO (XO XH))))))
| X4f -> Npos (XI (XI (XI (XI (XO (XO XH))))))
| X50 -> Npos (XO (XO (XO (XO (XI (XO XH))))))
| X51 -> Npos (XI (XO (XO (XO (XI (XO XH))))))
| X52 -> Npos (XO (XI (XO (XO (XI (XO XH))))))
| X53 -> Npos (XI (XI (XO (XO (XI (XO XH))))))
| X54 -> Npos (XO (XO (XI (XO (XI (XO XH))))))
| X55 -> Npos (XI (XO (XI (XO (XI (XO XH))))))
| X56 -> Npos (XO (XI (XI (XO (XI (XO XH))))))
| X57 -> Npos (XI (XI (XI (XO (XI (XO XH))))))
| X58 -> Npos (XO (XO (XO (XI (XI (XO XH))))))
| X59 -> Npos (XI (XO (XO (XI (XI (XO XH))))))
| X5a -> Npos (XO (XI (XO (XI (XI (XO XH))))))
| X5b -> Npos (XI (XI (XO (XI (XI (XO XH))))))
| X5c -> Npos (XO (XO (XI (XI (XI (XO XH))))))
| X5d -> Npos (XI (XO (XI (XI (XI (XO XH))))))
| X5e -> Npos (XO (XI (XI (XI (XI (XO XH))))))
| X5f -> Npos (XI (XI (XI (XI (XI (XO XH))))))
| X60 -> Npos (XO (XO (XO (XO (XO (XI XH))))))
| X61 -> Npos (XI (XO (XO (XO (XO (XI XH))))))
| X62 -> Npos (XO (XI (XO (XO (XO (XI XH))))))
| X63 -> Npos (XI (XI (XO (XO (XO (XI XH))))))
| X64 -> Npos (XO (XO (XI (XO (XO (XI XH))))))
| X65 -> Npos (XI (XO (XI (XO (XO (XI XH))))))
| X66 -> Npos (XO (XI (XI (XO (XO (XI XH))))))
| X67 -> Npos (XI (XI (XI (XO (XO (XI XH))))))
| X68 -> Npos (XO (XO (XO (XI (XO (XI XH))))))
| X69 -> Npos (XI (XO (XO (XI (XO (XI XH))))))
| X6a -> Npos (XO (XI (XO (XI (XO (XI XH))))))
| X6b -> Npos (XI (XI (XO (XI (XO (XI XH))))))
| X6c -> Npos (XO (XO (XI (XI (XO (XI XH))))))
| X6d -> Npos (XI (XO (XI (XI (XO (XI XH))))))
| X6e -> Npos (XO (XI (XI (XI (XO (XI XH))))))
| X6f -> Npos (XI (XI (XI (XI (XO (XI XH))))))
| X70 -> Npos (XO (XO (XO (XO (XI (XI XH))))))
| X71 -> Npos (XI (XO (XO (XO (XI (XI XH))))))
| X72 -> Npos (XO (XI (XO (XO (XI (XI XH))))))
| X73 -> Npos (XI (XI (XO (XO (XI (XI XH))))))
| X74 -> Npos (XO (XO (XI (XO (XI (XI XH))))))
| X75 -> Npos (XI (XO (XI (XO (XI (XI XH))))))
| X76 -> Npos (XO (XI (XI (XO (XI (XI XH))))))
| X77 -> Npos (XI (XI (XI (XO (XI (XI XH))))))
| X78 -> Npos (XO (XO (XO (XI (XI (XI XH))))))
| X79 -> Npos (XI (XO (XO (XI (XI (XI XH))))))
| X7a -> Npos (XO (XI (XO (XI (XI (XI XH))))))
| X7b -> Npos (XI (XI (XO (XI (XI (XI XH))))))
| X7c -> Npos (XO (XO (XI (XI (XI (XI XH))))))
| X7d -> Npos (XI (XO (XI (XI (XI (XI XH))))))
| X7e -> Npos (XO (XI (XI (XI (XI (XI XH))))))
| X7f -> Npos (XI (XI (XI (XI (XI (XI XH))))))
| X80 -> Npos (XO (XO (XO (XO (XO (XO (XO XH)))))))
| X81 -> Npos (XI (XO (XO (XO (XO (XO (XO XH)))))))
| X82 -> Npos (XO (XI (XO (XO (XO (XO (XO XH)))))))
| X83 -> Npos (XI (XI (XO (XO (XO (XO (XO XH)))))))
| X84 -> Npos (XO (XO (XI (XO (XO (XO (XO XH)))))))
| X85 -> Npos (XI (XO (XI (XO (XO (XO (XO XH)))))))
| X86 -> Npos (XO (XI (XI (XO (XO (XO (XO XH)))))))
| X87 -> Npos (XI (XI (XI (XO (XO (XO (XO XH)))))))
| X88 -> Npos (XO (XO (XO (XI (XO (XO (XO XH)))))))
| X89 -> Npos (XI (XO (XO (XI (XO (XO (XO XH)))))))
| X8a -> Npos (XO (XI (XO (XI (XO (XO (XO XH)))))))
| X8b -> Npos (XI (XI (XO (XI (XO (XO (XO XH)))))))
| X8c -> Npos (XO (XO (XI (XI (XO (XO (XO XH)))))))
| X8d -> Npos (XI (XO (XI (XI (XO (XO (XO XH)))))))
| X8e -> Npos (XO (XI (XI (XI (XO (XO (XO XH)))))))
| X8f -> Npos (XI (XI (XI (XI (XO (XO (XO XH)))))))
| X90 -> Npos (XO (XO (XO (XO (XI (XO (XO XH)))))))
| X91 -> Npos (XI (XO (XO (XO (XI (XO (XO XH)))))))
| X92 -> Npos (XO (XI (XO (XO (XI (XO (XO XH)))))))
| X93 -> Npos (XI (XI (XO (XO (XI (XO (XO XH)))))))
| X94 -> Npos (XO (XO (XI (XO (XI (XO (XO XH)))))))
| X95 -> Npos (XI (XO (XI (XO (XI (XO (XO XH)))))))
| X96 -> Npos (XO (XI (XI (XO (XI (XO (XO XH)))))))
| X97 -> Npos (XI (XI (XI (XO (XI (XO (XO XH)))))))
| X98 -> Npos (XO (XO (XO (XI (XI (XO (XO XH)))))))
| X99 -> Npos (XI (XO (XO (XI (XI (XO (XO XH)))))))
| X9a -> Npos (XO (XI (XO (XI (XI (XO (XO XH)))))))
| X9b -> Npos (XI (XI (XO (XI (XI (XO (XO XH)))))))
| X9c -> Npos (XO (XO (XI (XI (XI (XO (XO XH)))))))
| X9d -> Npos (XI (XO (XI (XI (XI (XO (XO XH)))))))
| X9e -> Npos (XO (XI (XI (XI (XI (XO (XO XH)))))))
| X9f -> Npos (XI (XI (XI (XI (XI (XO (XO XH)))))))
| Xa0 -> Npos (XO (XO (XO (XO (XO (XI (XO XH)))))))
| Xa1 -> Npos (XI (XO (XO (XO (XO (XI (XO XH)))))))
| Xa2 -> Npos (XO (XI (XO (XO (XO (XI (XO XH)))))))
| Xa3 -> Npos (XI (XI (XO (XO (XO (XI (XO XH)))))))
| Xa4 -> Npos (XO (XO (XI (XO (XO (XI (XO XH)))))))
| Xa5 -> Npos (XI (XO (XI (XO (XO (XI (XO XH)))))))
| Xa6 -> Npos (XO (XI (XI (XO (XO (XI (XO XH)))))))
| Xa7 -> Npos (XI (XI (XI (XO (XO (XI (XO XH)))))))
| Xa8 -> Npos (XO (XO (XO (XI (XO (XI (XO XH)))))))
| Xa9 -> Npos (XI (XO (XO (XI (XO (XI (XO XH)))))))
| Xaa -> Npos (XO (XI (XO (XI (XO (XI (XO XH)))))))
| Xab -> Npos (XI (XI (XO (XI (XO (XI (XO XH)))))))
| Xac -> Npos (XO (XO (XI (XI (XO (XI (XO XH)))))))
| Xad -> Npos (XI (XO (XI (XI (XO (XI (XO XH)))))))
| Xae -> Npos (XO (XI (XI (XI (XO (XI (XO XH)))))))
| Xaf -> Npos (XI (XI (XI (XI (XO (XI (XO XH)))))))
| Xb0 -> Npos (XO (XO (XO (XO (XI (XI (XO XH)))))))
| Xb1 -> Npos (XI (XO (XO (XO (XI (XI (XO XH)))))))
| Xb2 -> Npos (XO (XI (XO (XO (XI (XI (XO XH)))))))
| Xb3 -> Npos (XI (XI (XO (XO (XI (XI (XO XH)))))))
| Xb4 -> Npos (XO (XO (XI (XO (XI (XI (XO XH)))))))
| Xb5 -> Npos (XI (XO (XI (XO (XI (XI (XO XH)))))))
| Xb6 -> Npos (XO (XI (XI (XO (XI (XI (XO XH)))))))
| Xb7 -> Npos (XI (XI (XI (XO (XI (XI (XO XH)))))))
| Xb8 -> Npos (XO (XO (XO (XI (XI (XI (XO XH)))))))
| Xb9 -> Npos (XI (XO (XO (XI (XI (XI (XO XH)))))))
| Xba -> Npos (XO (XI (XO (XI (XI (XI (XO XH)))))))
| Xbb -> Npos (XI (XI (XO (XI (XI (XI (XO XH)))))))
| Xbc -> Npos (XO (XO (XI (XI (XI (XI (XO XH)))))))
| Xbd -> Npos (XI (XO (XI (XI (XI (XI (XO XH)))))))
| Xbe -> Npos (XO (XI (XI (XI (XI (XI (XO XH)))))))
| Xbf -> Npos (XI (XI (XI (XI (XI (XI (XO XH)))))))
| Xc0 -> Npos (XO (XO (XO (XO (XO (XO (XI XH)))))))
| Xc1 -> Npos (XI (XO (XO (XO (XO (XO (XI XH)))))))
| Xc2 -> Npos (XO (XI (XO (XO (XO (XO (XI XH)))))))
| Xc3 -> Npos (XI (XI (XO (XO (XO (XO (XI XH)))))))
| Xc4 -> Npos (XO (XO (XI (XO (XO (XO (XI XH)))))))
| Xc5 -> Npos (XI (XO (XI (XO (XO (XO (XI XH)))))))
| Xc6 -> Npos (XO (XI (XI (XO (XO (XO (XI XH)))))))
| Xc7 -> Npos (XI (XI (XI (XO (XO (XO (XI XH)))))))
| Xc8 -> Npos (XO (XO (XO (XI (XO (XO (XI XH)))))))
| Xc9 -> Npos (XI (XO (XO (XI (XO (XO (XI XH)))))))
| Xca -> Npos (XO (XI (XO (XI (XO (XO (XI XH)))))))
| Xcb -> Npos (XI (XI (XO (XI (XO (XO (XI XH)))))))
| Xcc -> Npos (XO (XO (XI (XI (XO (XO (XI XH)))))))
| Xcd -> Npos (XI (XO (XI (XI (XO (XO (XI XH)))))))
| Xce -> Npos (XO (XI (XI (XI (XO (XO (XI XH)))))))
| Xcf -> Npos (XI (XI (XI (XI (XO (XO (XI XH)))))))
| Xd0 -> Npos (XO (XO (XO (XO (XI (XO (XI XH)))))))
| Xd1 -> Npos (XI (XO (XO (XO (XI (XO (XI XH)))))))
| Xd2 -> Npos (XO (XI (XO (XO (XI (XO (XI XH)))))))
| Xd3 -> Npos (XI (XI (XO (XO (XI (XO (XI XH)))))))
| Xd4 -> Npos (XO (XO (XI (XO (XI (XO (XI XH)))))))
| Xd5 -> Npos (XI (XO (XI (XO (XI (XO (XI XH)))))))
| Xd6 -> Npos (XO (XI (XI (XO (XI (XO (XI XH)))))))
| Xd7 -> Npos (XI (XI (XI (XO (XI (XO (XI XH)))))))
| Xd8 -> Npos (XO (XO (XO (XI (XI (XO (XI XH)))))))
| Xd9 -> Npos (XI (XO (XO (XI (XI (XO (XI XH)))))))
| Xda -> Npos (XO (XI (XO (XI (XI (XO (XI XH)))))))
| Xdb -> Npos (XI (XI (XO (XI (XI (XO (XI XH)))))))
| Xdc -> Npos (XO (XO (XI (XI (XI (XO (XI XH)))))))
| Xdd -> Npos (XI (XO (XI (XI (XI (XO (XI XH)))))))
| Xde -> Npos (XO (XI (XI (XI (XI (XO (XI XH)))))))
| Xdf -> Npos (XI (XI (XI (XI (XI (XO (XI XH)))))))
| Xe0 -> Npos (XO (XO (XO (XO (XO (XI (XI XH)))))))
| Xe1 -> Npos (XI (XO (XO (XO (XO (XI (XI XH)))))))
| Xe2 -> Npos (XO (XI (XO (XO (XO (XI (XI XH)))))))
| Xe3 -> Npos (XI (XI (XO (XO (XO (XI (XI XH)))))))
| Xe4 -> Npos (XO (XO (XI (XO (XO (XI (XI XH)))))))
| Xe5 -> Npos (XI (XO (XI (XO (XO (XI (XI XH)))))))
| Xe6 -> Npos (XO (XI (XI (XO (XO (XI (XI XH)))))))
| Xe7 -> Npos (XI (XI (XI (XO (XO (XI (XI XH)))))))
| Xe8 -> Npos (XO (XO (XO (XI (XO (XI (XI XH)))))))
| Xe9 -> Npos (XI (XO (XO (XI (XO (XI (XI XH)))))))
| Xea -> Npos (XO (XI (XO (XI (XO (XI (XI XH)))))))
| Xeb -> Npos (XI (XI (XO (XI (XO (XI (XI XH)))))))
| Xec -> Npos (XO (XO (XI (XI (XO (XI (XI XH)))))))
| Xed -> Npos (XI (XO (XI (XI (XO (XI (XI XH)))))))
| Xee -> Npos (XO (XI (XI (XI (XO (XI (XI XH)))))))
| Xef -> Npos (XI (XI (XI (XI (XO (XI (XI XH)))))))
| Xf0 -> Npos (XO (XO (XO (XO (XI (XI (XI XH)))))))
| Xf1 -> Npos (XI (XO (XO (XO (XI (XI (XI XH)))))))
| Xf2 -> Npos (XO (XI (XO (XO (XI (XI (XI XH)))))))
| Xf3 -> Npos (XI (XI (XO (XO (XI (XI (XI XH)))))))
| Xf4 -> Npos (XO (XO (XI (XO (XI (XI (XI XH)))))))
| Xf5 -> Npos (XI (XO (XI (XO (XI (XI (XI XH)))))))
| Xf6 -> Npos (XO (XI (XI (XO (XI (XI (XI XH)))))))
| Xf7 -> Npos (XI (XI (XI (XO (XI (XI (XI XH)))))))
| Xf8 -> Npos (XO (XO (XO (XI (XI (XI (XI XH)))))))
| Xf9 -> Npos (XI (XO (XO (XI (XI (XI (XI XH)))))))
| Xfa -> Npos (XO (XI (XO (XI (XI (XI (XI XH)))))))
| Xfb -> Npos (XI (XI (XO (XI (XI (XI (XI XH)))))))
| Xfc -> Npos (XO (XO (XI (XI (XI (XI (XI XH)))))))
| Xfd -> Npos (XI (XO (XI (XI (XI (XI (XI XH)))))))
| Xfe -> Npos (XO (XI (XI (XI (XI (XI (XI XH)))))))
| Xff -> Npos (XI (XI (XI (XI (XI (XI (XI XH)))))))

(** val of_N0 : n -> byte option **)

let of_N0 = function
| N0 -> Some X00
| Npos p ->
  (match p with
   | XI p0 ->
     (match p0 with
      | XI p1 ->
        (match p1 with
         | XI p2 ->
           (match p2 with
            | XI p3 ->
              (match p3 with
               | XI p4 ->
                 (match p4 with
                  | XI p5 ->
                    (match p5 with
                     | XI p6 -> (match p6 with
                                 | XH -> Some Xff
                                 | _ -> None)
                     | XO p6 -> (match p6 with
                                 | XH -> Some Xbf
                                 | _ -> None)
                     | XH -> Some X7f)
                  | XO p5 ->
                    (match p5 with
                     | XI p6 -> (match p6 with
                                 | XH -> Some Xdf
                                 | _ -> None)
                     | XO p6 -> (match p6 with
                                 | XH -> Some X9f
                                 | _ -> None)
                     | XH -> Some X5f)
                  | XH -> Some X3f)
               | XO p4 ->
                 (match p4 with
                  | XI p5 ->
                    (match p5 with
                     | XI p6 -> (match p6 with
                                 | XH -> Some Xef
                                 | _ -> None)
                     | XO p6 -> (match p6 with
                                 | XH -> Some Xaf
                                 | _ -> None)
                     | XH -> Some X6f)
                  | XO p5 ->
                    (match p5 with
                     | XI p6 -> (match p6 with
                                 | XH -> Some Xcf
                                 | _ -> None)
                     | XO p6 -> (match p6 with
                                 | XH -> Some X8f
                                 | _ -> None)
                     | XH -> Some X4f)
                  | XH -> Some X2f)
               | XH -> Some X1f)
            | XO p3 ->
              (match p3 with
               | XI p4 ->
                 (match p4 with
                  | XI p5 ->
                    (match p5 with
                     | XI p6 -> (match p6 with
                                 | XH -> Some Xf7
                                 | _ -> None)
                     | XO p6 -> (match p6 with
                                 | XH -> Some Xb7
                                 | _ -> None)
                     | XH -> Some X77)
                  | XO p5 ->
                    (match p5 with
                     | XI p6 -> (match p6 with
                                 | XH -> Some Xd7
                                 | _ -> None)
                     | XO p6 -> (match p6 with
                                 | XH -> Some X97
                                 | _ -> None)
                     | XH -> Some X57)
                  | XH -> Some X37)
               | XO p4 ->
                 (match p4 with
                  | XI p5 ->
                    (match p5 with
                     | XI p6 -> (match p6 with
                                 | XH -> Some Xe7
                                 | _ -> None)
                     | XO p6 -> (match p6 with
                                 | XH -> Some Xa7
                                 | _ -> None)
                     | XH -> Some X67)
                  | XO p5 ->
                    (match p5 with
                     | XI p6 -> (match p6 with
                                 | XH -> Some Xc7
                                 | _ -> None)
                     | XO p6 -> (match p6 with
                                 | XH -> Some X87
                                 | _ -> None)
                     | XH -> Some X47)
                  | XH -> Some X27)
               | XH -> Some X17)
            | XH -> Some X0f)
         | XO p2 ->
           (match p2 with
            | XI p3 ->
              (match p3 with
               | XI p4 ->
                 (match p4 with
                  | XI p5 ->
                    (match p5 with
                     | XI p6 -> (match p6 with
                                 | XH -> Some Xfb
                                 | _ -> None)
                     | XO p6 -> (match p6 with
                                 | XH -> Some Xbb
                                 | _ -> None)
                     | XH -> Some X7b)
                  | XO p5 ->
                    (match p5 with
                     | XI p6 -> (match p6 with
                                 | XH -> Some Xdb
                                 | _ -> None)
                     | XO p6 -> (match p6 with
                                 | XH -> Some X9b
                                 | _ -> None)
                     | XH -> Some X5b)
                  | XH -> Some X3b)
               | XO p4 ->
                 (match p4 with
                  | XI p5 ->
                    (match p5 with
                     | XI p6 -> (match p6 with
                                 | XH -> Some Xeb
                                 | _ -> None)
                     | XO p6 -> (match p6 with
                                 | XH -> Some Xab
                                 | _ -> None)
                     | XH -> Some X6b)
                  | XO p5 ->
                    (match p5 with
                     | XI p6 -> (match p6 with
                                 | XH -> Some Xcb
                                 | _ -> None)
                     | XO p6 -> (match p6 with
                                 | XH -> Some X8b
                                 | _ -> None)
                     | XH -> Some X4b)
                  | XH -> Some X2b)
               | XH -> Some X1b)
            | XO p3 ->
              (match p3 with
               | XI p4 ->
                 (match p4 with
                  | XI p5 ->
                    (match p5 with
                     | XI p6 -> (match p6 with
                                 | XH -> Some Xf3
                                 | _ -> None)
                     | XO p6 -> (match p6 with
                                 | XH -> Some Xb3
                                 | _ -> None)
                     | XH -> Some X73)
                  | XO p5 ->
                    (match p5 with
                     | XI p6 -> (match p6 with
                                 | XH -> Some Xd3
                                 | _ -> None)
                     | XO p6 -> (match p6 with
                                 | XH -> Some X93
                                 | _ -> None)
                     | XH -> Some X53)
                  | XH -> Some X33)
               | XO p4 ->
                 (match p4 with
                  | XI p5 ->
                    (match p5 with
                     | XI p6 -> (match p6 with
                                 | XH -> Some Xe3
                                 | _ -> None)
                     | XO p6 -> (match p6 with
                                 | XH -> Some Xa3
                                 | _ -> None)
                     | XH -> Some X63)
                  | XO p5 ->
                    (match p5 with
                     | XI p6 -> (match p6 with
                                 | XH -> Some Xc3
                                 | _ -> None)
                     | XO p6 -> (match p6 with
                                 | XH -> Some X83
                                 | _ -> None)
                     | XH -> Some X43)
                  | XH -> Some X23)
               | XH -> Some X13)
            | XH -> Some X0b)
         | XH -> Some X07)
      | XO p1 ->
        (match p1 with
         | XI p2 ->
           (match p2 with
            | XI p3 ->
              (match p3 with
               | XI p4 ->
                 (match p4 with
                  | XI p5 ->
                    (match p5 with
                     | XI p6 -> (match p6 with
                                 | XH -> Some Xfd
                                 | _ -> None)
                     | XO p6 -> (match p6 with
                                 | XH -> Some Xbd
                                 | _ -> None)
                     | XH -> Some X7d)
                  | XO p5 ->
                    (match p5 with
                     | XI p6 -> (match p6 with
                                 | XH -> Some Xdd
                                 | _ -> None)
                     | XO p6 -> (match p6 with
                                 | XH -> Some X9d
                                 | _ -> None)
                     | XH -> Some X5d)
                  | XH -> Some X3d)
               | XO p4 ->
                 (match p4 with
                  | XI p5 ->
                    (match p5 with
                     | XI p6 -> (match p6 with
                                 | XH -> Some Xed
                                 | _ -> None)
                     | XO p6 -> (match p6 with
                                 | XH -> Some Xad
                                 | _ -> None)
                     | XH -> Some X6d)
                  | XO p5 ->
                    (match p5 with
                     | XI p6 -> (match p6 with
                                 | XH -> Some Xcd
                                 | _ -> None)
                     | XO p6 -> (match p6 with
                                 | XH -> Some X8d
                                 | _ -> None)
                     | XH -> Some X4d)
                  | XH -> Some X2d)
               | XH -> Some X1d)
            | XO p3 ->
              (match p3 with
               | XI p4 ->
                 (match p4 with
                  | XI p5 ->
                    (match p5 with
                     | XI p6 -> (match p6 with
                                 | XH -> Some Xf5
                                 | _ -> None)
                     | XO p6 -> (match p6 with
                                 | XH -> Some Xb5
                                 | _ -> None)
                     | XH -> Some X75)
                  | XO p5 ->
                    (match p5 with
                     | XI p6 -> (match p6 with
                                 | XH -> Some Xd5
                                 | _ -> None)
                     | XO p6 -> (match p6 with
                                 | XH -> Some X95
                                 | _ -> None)
                     | XH -> Some X55)
                  | XH -> Some X35)
               | XO p4 ->
                 (match p4 with
                  | XI p5 ->
                    (match p5 with
                     | XI p6 -> (match p6 with
                                 | XH -> Some Xe5
                                 | _ -> None)
                     | XO p6 -> (match p6 with
                                 | XH -> Some Xa5
                                 | _ -> None)
                     | XH -> Some X65)
                  | XO p5 ->
                    (match p5 with
                     | XI p6 -> (match p6 with
                                 | XH -> Some Xc5
                                 | _ -> None)
                     | XO p6 -> (match p6 with
                                 | XH -> Some X85
                                 | _ -> None)
                     | XH -> Some X45)
                  | XH -> Some X25)
               | XH -> Some X15)
            | XH -> Some X0d)
         | XO p2 ->
           (match p2 with
            | XI p3 ->
              (match p3 with
               | XI p4 ->
                 (match p4 with
                  | XI p5 ->
                    (match p5 with
                     | XI p6 -> (match p6 with
                                 | XH -> Some Xf9
                                 | _ -> None)
                     | XO p6 -> (match p6 with
                                 | XH -> Some Xb9
                                 | _ -> None)
                     | XH -> Some X79)
                  | XO p5 ->
                    (match p5 with
                     | XI p6 -> (match p6 with
                                 | XH -> Some Xd9
                                 | _ -> None)
                     | XO p6 -> (match p6 with
                                 | XH -> Some X99
                                 | _ -> None)
                     | XH -> Some X59)
                  | XH -> Some X39)
               | XO p4 ->
                 (match p4 with
                  | XI p5 ->
                    (match p5 with
                     | XI p6 -> (match p6 with
                                 | XH -> Some Xe9
                                 | _ -> None)
                     | XO p6 -> (match p6 with
                                 | XH -> Some Xa9
                                 | _ -> None)
                     | XH -> Some X69)
                  | XO p5 ->
                    (match p5 with
                     | XI p6 -> (match p6 with
                                 | XH -> Some Xc9
                                 | _ -> None)
                     | XO p6 -> (match p6 with
                                 | XH -> Some X89
                                 | _ -> None)
                     | XH -> Some X49)
                  | XH -> Some X29)
               | XH -> Some X19)
            | XO p3 ->
              (match p3 with
               | XI p4 ->
                 (match p4 with
                  | XI p5 ->
                    (match p5 with
                     | XI p6 -> (match p6 with
                                 | XH -> Some Xf1
                                 | _ -> None)
                     | XO p6 -> (match p6 with
                                 | XH -> Some Xb1
                                 | _ -> None)
                     | XH -> Some X71)
                  | XO p5 ->
                    (match p5 with
                     | XI p6 -> (match p6 with
                                 | XH -> Some Xd1
                                 | _ -> None)
                     | XO p6 -> (match p6 with
                                 | XH -> Some X91
                                 | _ -> None)
                     | XH -> Some X51)
                  | XH -> Some X31)
               | XO p4 ->
                 (match p4 with
                  | XI p5 ->
                    (match p5 with
                     | XI p6 -> (match p6 with
                                 | XH -> Some Xe1
                                 | _ -> None)
                     | XO p6 -> (match p6 with
                                 | XH -> Some Xa1
                                 | _ -> None)
                     | XH -> Some X61)
                  | XO p5 ->
                    (match p5 with
                     | XI p6 -> (match p6 with
                                 | XH -> Some Xc1
                                 | _ -> None)
                     | XO p6 -> (match p6 with
                                 | XH -> Some X81
                                 | _ -> None)
                     | XH -> Some X41)
                  | XH -> Some X21)
               | XH -> Some X11)
            | XH -> Some X09)
         | XH -> Some X05)
      | XH -> Some X03)
   | XO p0 ->
     (match p0 with
      | XI p1 ->
        (match p1 with
         | XI p2 ->
           (match p2 with
            | XI p3 ->
              (match p3 with
               | XI p4 ->
                 (match p4 with
                  | XI p5 ->
                    (match p5 with
                     | XI p6 -> (match p6 with
                                 | XH -> Some Xfe
                                 | _ -> None)
                     | XO p6 -> (match p6 with
                                 | XH -> Some Xbe
                                 | _ -> None)
                     | XH -> Some X7e)
                  | XO p5 ->
                    (match p5 with
                     | XI p6 -> (match p6 with
                                 | XH -> Some Xde
                                 | _ -> None)
                     | XO p6 -> (match p6 with
                                 | XH -> Some X9e
                                 | _ -> None)
                     | XH -> Some X5e)
                  | XH -> Some X3e)
               | XO p4 ->
                 (match p4 with
                  | XI p5 ->
                    (match p5 with
                     | XI p6 -> (match p6 with
                                 | XH -> Some Xee
                                 | _ -> None)
                     | XO p6 -> (match p6 with
                                 | XH -> Some Xae
                                 | _ -> None)
                     | XH -> Some X6e)
                  | XO p5 ->
                    (match p5 with
                     | XI p6 -> (match p6 with
                                 | XH -> Some Xce
                                 | _ -> None)
                     | XO p6 -> (match p6 with
                                 | XH -> Some X8e
                                 | _ -> None)
                     | XH -> Some X4e)
                  | XH -> Some X2e)
               | XH -> Some X1e)
            | XO p3 ->
              (match p3 with
               | XI p4 ->
                 (match p4 with
                  | XI p5 ->
                    (match p5 with
                     | XI p6 -> (match p6 with
                                 | XH -> Some Xf6
                                 | _ -> None)
                     | XO p6 -> (match p6 with
                                 | XH -> Some Xb6
                                 | _ -> None)
                     | XH -> Some X76)
                  | XO p5 ->
                    (match p5 with
                     | XI p6 -> (match p6 with
                                 | XH -> Some Xd6
                                 | _ -> None)
                     | XO p6 -> (match p6 with
                                 | XH -> Some X96
                                 | _ -> None)
                     | XH -> Some X56)
                  | XH -> Some X36)
               | XO p4 ->
                 (match p4 with
                  | XI p5 ->
                    (match p5 with
                     | XI p6 -> (match p6 with
                                 | XH -> Some Xe6
                                 | _ -> None)
                     | XO p6 -> (match p6 with
                                 | XH -> Some Xa6
                                 | _ -> None)
                     | XH -> Some X66)
                  | XO p5 ->
                    (match p5 with
                     | XI p6 -> (match p6 with
                                 | XH -> Some Xc6
                                 | _ -> None)
                     | XO p6 -> (match p6 with
                                 | XH -> Some X86
                                 | _ -> None)
                     | XH -> Some X46)
                  | XH -> Some X26)
               | XH -> Some X16)
            | XH -> Some X0e)
         | XO p2 ->
           (match p2 with
            | XI p3 ->
              (match p3 with
               | XI p4 ->
                 (match p4 with
                  | XI p5 ->
                    (match p5 with
                     | XI p6 -> (match p6 with
                                 | XH -> Some Xfa
                                 | _ -> None)
                     | XO p6 -> (match p6 with
                                 | XH -> Some Xba
                                 | _ -> None)
                     | XH -> Some X7a)
                  | XO p5 ->
                    (match p5 with
                     | XI p6 -> (match p6 with
                                 | XH -> Some Xda
                                 | _ -> None)
                     | XO p6 -> (match p6 with
                                 | XH -> Some X9a
                                 | _ -> None)
                     | XH -> Some X5a)
                  | XH -> Some X3a)
               | XO p4 ->
                 (match p4 with
                  | XI p5 ->
                    (match p5 with
                     | XI p6 -> (match p6 with
                                 | XH -> Some Xea
                                 | _ -> None)
                     | XO p6 -> (match p6 with
                                 | XH -> Some Xaa
                                 | _ -> None)
                     | XH -> Some X6a)
                  | XO p5 ->
                    (match p5 with
                     | XI p6 -> (match p6 with
                                 | XH -> Some Xca
                                 | _ -> None)
                     | XO p6 -> (match p6 with
                                 | XH -> Some X8a
                                 | _ -> None)
                     | XH -> Some X4a)
                  | XH -> Some X2a)
               | XH -> Some X1a)
            | XO p3 ->
              (match p3 with
               | XI p4 ->
                 (match p4 with
                  | XI p5 ->
                    (match p5 with
                     | XI p6 -> (match p6 with
                                 | XH -> Some Xf2
                                 | _ -> None)
                     | XO p6 -> (match p6 with
                                 | XH -> Some Xb2
                                 | _ -> None)
                     | XH -> Some X72)
                  | XO p5 ->
                    (match p5 with
                     | XI p6 -> (match p6 with
                                 | XH -> Some Xd2
                                 | _ -> None)
                     | XO p6 -> (match p6 with
                                 | XH -> Some X92
                                 | _ -> None)
                     | XH -> Some X52)
                  | XH -> Some X32)
               | XO p4 ->
                 (match p4 with
                  | XI p5 ->
                    (match p5 with
                     | XI p6 -> (match p6 with
                                 | XH -> Some Xe2
                                 | _ -> None)
                     | XO p6 -> (match p6 with
                                 | XH -> Some Xa2
                                 | _ -> None)
                     | XH -> Some X62)
                  | XO p5 ->
                    (match p5 with
                     | XI p6 -> (match p6 with
                                 | XH -> Some Xc2
                                 | _ -> None)
                     | XO p6 -> (match p6 with
                                 | XH -> Some X82
                                 | _ -> None)
                     | XH -> Some X42)
                  | XH -> Some X22)
               | XH -> Some X12)
            | XH -> Some X0a)
         | XH -> Some X06)
      | XO p1 ->
        (match p1 with
         | XI p2 ->
           (match p2 with
            | XI p3 ->
              (match p3 with
               | XI p4 ->
                 (match p4 with
                  | XI p5 ->
                    (match p5 with
                     | XI p6 -> (match p6 with
                                 | XH -> Some Xfc
                                 | _ -> None)
                     | XO p6 -> (match p6 with
                                 | XH -> Some Xbc
                                 | _ -> None)
                     | XH -> Some X7c)
                  | XO p5 ->
                    (match p5 with
                     | XI p6 -> (match p6 with
                                 | XH -> Some Xdc
                                 | _ -> None)
                     | XO p6 -> (match p6 with
                                 | XH -> Some X9c
                                 | _ -> None)
                     | XH -> Some X5c)
                  | XH -> Some X3c)
               | XO p4 ->
                 (match p4 with
                  | XI p5 ->
                    (match p5 with
                     | XI p6 -> (match p6 with
                                 | XH -> Some Xec
                                 | _ -> None)
                     | XO p6 -> (match p6 with
                                 | XH -> Some Xac
                                 | _ -> None)
                     | XH -> Some X6c)
                  | XO p5 ->
                    (match p5 with
                     | XI p6 -> (match p6 with
                                 | XH -> Some Xcc
                                 | _ -> None)
                     | XO p6 -> (match p6 with
                                 | XH -> Some X8c
                                 | _ -> None)
                     | XH -> Some X4c)
                  | XH -> Some X2c)
               | XH -> Some X1c)
            | XO p3 ->
              (match p3 with
               | XI p4 ->
                 (match p4 with
                  | XI p5 ->
                    (match p5 with
                     | XI p6 -> (match p6 with
                                 | XH -> Some Xf4
                                 | _ -> None)
                     | XO p6 -> (match p6 with
                                 | XH -> Some Xb4
                                 | _ -> None)
                     | XH -> Some X74)
                  | XO p5 ->
                    (match p5 with
                     | XI p6 -> (match p6 with
                                 | XH -> Some Xd4
                                 | _ -> None)
                     | XO p6 -> (match p6 with
                                 | XH -> Some X94
                                 | _ -> None)
                     | XH -> Some X54)
                  | XH -> Some X34)
               | XO p4 ->
                 (match p4 with
                  | XI p5 ->
                    (match p5 with
                     | XI p6 -> (match p6 with
                                 | XH -> Some Xe4
                                 | _ -> None)
                     | XO p6 -> (match p6 with
                                 | XH -> Some Xa4
                                 | _ -> None)
                     | XH -> Some X64)
                  | XO p5 ->
                    (match p5 with
                     | XI p6 -> (match p6 with
                                 | XH -> Some Xc4
                                 | _ -> None)
                     | XO p6 -> (match p6 with
                                 | XH -> Some X84
                                 | _ -> None)
                     | XH -> Some X44)
                  | XH -> Some X24)
               | XH -> Some X14)
            | XH -> Some X0c)
         | XO p2 ->
           (match p2 with
            | XI p3 ->
              (match p3 with
               | XI p4 ->
                 (match p4 with
                  | XI p5 ->
                    (match p5 with
                     | XI p6 -> (match p6 with
                                 | XH -> Some Xf8
                                 | _ -> None)
                     | XO p6 -> (match p6 with
                                 | XH -> Some Xb8
                                 | _ -> None)
                     | XH -> Some X78)
                  | XO p5 ->
                    (match p5 with
                     | XI p6 -> (match p6 with
                                 | XH -> Some Xd8
                                 | _ -> None)
                     | XO p6 -> (match p6 with
                                 | XH -> Some X98
                                 | _ -> None)
                     | XH -> Some X58)
                  | XH -> Some X38)
               | XO p4 ->
                 (match p4 with
                  | XI p5 ->
                    (match p5 with
                     | XI p6 -> (match p6 with
                                 | XH -> Some Xe8
                                 | _ -> None)
                     | XO p6 -> (match p6 with
                                 | XH -> Some Xa8
                                 | _ -> None)
                     | XH -> Some X68)
                  | XO p5 ->
                    (match p5 with
                     | XI p6 -> (match p6 with
                                 | XH -> Some Xc8
                                 | _ -> None)
                     | XO p6 -> (match p6 with
                                 | XH -> Some X88
                                 | _ -> None)
                     | XH -> Some X48)
                  | XH -> Some X28)
               | XH -> Some X18)
            | XO p3 ->
              (match p3 with
               | XI p4 ->
                 (match p4 with
                  | XI p5 ->
                    (match p5 with
                     | XI p6 -> (match p6 with
                                 | XH -> Some Xf0
                                 | _ -> None)
                     | XO p6 -> (match p6 with
                                 | XH -> Some Xb0
                                 | _ -> None)
                     | XH -> Some X70)
                  | XO p5 ->
                    (match p5 with
                     | XI p6 -> (match p6 with
                                 | XH -> Some Xd0
                                 | _ -> None)
                     | XO p6 -> (match p6 with
                                 | XH -> Some X90
                                 | _ -> None)
                     | XH -> Some X50)
                  | XH -> Some X30)
               | XO p4 ->
                 (match p4 with
                  | XI p5 ->
                    (match p5 with
                     | XI p6 -> (match p6 with
                                 | XH -> Some Xe0
                                 | _ -> None)
                     | XO p6 -> (match p6 with
                                 | XH -> Some Xa0
                                 | _ -> None)
                     | XH -> Some X60)
                  | XO p5 ->
                    (match p5 with
                     | XI p6 -> (match p6 with
                                 | XH -> Some Xc0
                                 | _ -> None)
                     | XO p6 -> (match p6 with
                                 | XH -> Some X80
                                 | _ -> None)
                     | XH -> Some X40)
                  | XH -> Some X20)
               | XH -> Some X10)
            | XH -> Some X08)
         | XH -> Some X04)
      | XH -> Some X02)
   | XH -> Some X01)

(** val b2n : byte -> n **)

let b2n =
  to_N0

(** val b2z : byte -> z **)

let b2z b =
  Z.of_N (b2n b)

(** val n2b : n -> byte **)

let n2b n0 =
  match of_N0 (N.modulo n0 (Npos (XO (XO (XO (XO (XO (XO (XO (XO XH)))))))))) with
  | Some b -> b
  | None -> X00

(** val z2b : z -> byte **)

let z2b z0 =
  n2b (Z.to_N (Z.modulo z0 (Zpos (XO (XO (XO (XO (XO (XO (XO (XO XH)))))))))))

(** val byte_eqb : byte -> byte -> bool **)

let byte_eqb =
  eqb0

(** val bytes_eqb : byte list -> byte list -> bool **)

let rec bytes_eqb a b =
  match a with
  | [] -> (match b with
           | [] -> true
           | _ :: _ -> false)
  | x :: a' ->
    (match b with
     | [] -> false
     | y :: b' -> (&&) (byte_eqb x y) (bytes_eqb a' b'))

(** val nlen : 'a1 list -> n **)

let nlen l =
  N.of_nat (length l)

(** val take : n -> 'a1 list -> 'a1 list **)

let take n0 l =
  if N.leb (nlen l) n0 then l else firstn (N.to_nat n0) l

(** val drop : n -> 'a1 list -> 'a1 list **)

let drop n0 l =
  if N.leb (nlen l) n0 then [] else skipn (N.to_nat n0) l

type crash =
| IndexErr
| KeyErr
| TypeErr
| RecursionErr
| UnicodeErr
| OutOfFuel

type err =
| ValueErr
| NotImpl
| NeedMore
| Crash of crash

type 'a res =
| Ok of 'a
| Raise of err

(** val bind : 'a1 res -> ('a1 -> 'a2 res) -> 'a2 res **)

let bind m f =
  match m with
  | Ok a -> f a
  | Raise e -> Raise e

type sexp =
| SInt of z
| SBytes of byte list
| SList of sexp list

(** val s_n : n -> sexp **)

let s_n n0 =
  SInt (Z.of_N n0)

(** val s_bool : bool -> sexp **)

let s_bool b =
  SInt (if b then Zpos XH else Z0)

(** val s_opt : ('a1 -> sexp) -> 'a1 option -> sexp **)

let s_opt f = function
| Some a -> SList ((f a) :: [])
| None -> SList []

(** val s_list : ('a1 -> sexp) -> 'a1 list -> sexp **)

let s_list f l =
  SList (map f l)

(** val s_pair : ('a1 -> sexp) -> ('a2 -> sexp) -> ('a1 * 'a2) -> sexp **)

let s_pair f g p =
  SList ((f (fst p)) :: ((g (snd p)) :: []))

(** val crash_code : crash -> z **)

let crash_code = function
| IndexErr -> Zpos (XO (XI (XO XH)))
| KeyErr -> Zpos (XI (XI (XO XH)))
| TypeErr -> Zpos (XO (XO (XI XH)))
| RecursionErr -> Zpos (XI (XO (XI XH)))
| UnicodeErr -> Zpos (XO (XI (XI XH)))
| OutOfFuel -> Zpos (XI (XI (XI XH)))

(** val err_code : err -> z **)

let err_code = function
| ValueErr -> Zpos XH
| NotImpl -> Zpos (XO XH)
| NeedMore -> Zpos (XI XH)
| Crash k -> crash_code k

(** val s_res : ('a1 -> sexp) -> 'a1 res -> sexp **)

let s_res f = function
| Ok a -> SList ((SInt Z0) :: ((f a) :: []))
| Raise e -> SList ((SInt (Zpos XH)) :: ((SInt (err_code e)) :: []))

(** val g_z : sexp -> z option **)

let g_z = function
| SInt z0 -> Some z0
| _ -> None

(** val g_n : sexp -> n option **)

let g_n = function
| SInt z0 -> if Z.ltb z0 Z0 then None else Some (Z.to_N z0)
| _ -> None

(** val g_bool : sexp -> bool option **)

let g_bool = function
| SInt z0 ->
  (match z0 with
   | Z0 -> Some false
   | Zpos p -> (match p with
                | XH -> Some true
                | _ -> None)
   | Zneg _ -> None)
| _ -> None

(** val g_bytes : sexp -> byte list option **)

let g_bytes = function
| SBytes b -> Some b
| _ -> None

(** val g_opt : (sexp -> 'a1 option) -> sexp -> 'a1 option option **)

let g_opt f = function
| SList l ->
  (match l with
   | [] -> Some None
   | x :: l0 ->
     (match l0 with
      | [] -> (match f x with
               | Some a -> Some (Some a)
               | None -> None)
      | _ :: _ -> None))
| _ -> None

(** val g_all : (sexp -> 'a1 option) -> sexp list -> 'a1 list option **)

let rec g_all f = function
| [] -> Some []
| x :: r ->
  (match f x with
   | Some a -> (match g_all f r with
                | Some rs -> Some (a :: rs)
                | None -> None)
   | None -> None)

(** val g_list : (sexp -> 'a1 option) -> sexp -> 'a1 list option **)

let g_list f = function
| SList l -> g_all f l
| _ -> None

(** val obind : 'a1 option -> ('a1 -> 'a2 option) -> 'a2 option **)

let obind o f =
  match o with
  | Some a -> f a
  | None -> None

type rx =
| Nul
| Eps
| Chr of bool * (n * n) list
| Cat of rx * rx
| Alt of rx * rx
| Star of rx
| Group of nat * rx

type end_anchor =
| NoEnd
| EndDollar
| EndZ

(** val in_ranges : n -> (n * n) list -> bool **)

let in_ranges c ranges =
  existsb (fun r -> (&&) (N.leb (fst r) c) (N.leb c (snd r))) ranges

(** val chr_ok : bool -> (n * n) list -> n -> bool **)

let chr_ok neg ranges c =
  xorb neg (in_ranges c ranges)

(** val nullable : rx -> bool **)

let rec nullable = function
| Nul -> false
| Chr (_, _) -> false
| Cat (a, b) -> (&&) (nullable a) (nullable b)
| Alt (a, b) -> (||) (nullable a) (nullable b)
| Group (_, a) -> nullable a
| _ -> true

(** val cat : rx -> rx -> rx **)

let cat a b =
  match a with
  | Nul -> Nul
  | Eps -> (match b with
            | Nul -> Nul
            | _ -> b)
  | _ -> (match b with
          | Nul -> Nul
          | _ -> Cat (a, b))

(** val alt : rx -> rx -> rx **)

let alt a b =
  match a with
  | Nul -> b
  | _ -> (match b with
          | Nul -> a
          | _ -> Alt (a, b))

(** val deriv : n -> rx -> rx **)

let rec deriv c = function
| Chr (neg, ranges) -> if chr_ok neg ranges c then Eps else Nul
| Cat (a, b) ->
  alt (cat (deriv c a) b) (if nullable a then deriv c b else Nul)
| Alt (a, b) -> alt (deriv c a) (deriv c b)
| Star a -> cat (deriv c a) (Star a)
| Group (_, a) -> deriv c a
| _ -> Nul

(** val matches : rx -> n list -> bool **)

let rec matches r = function
| [] -> nullable r
| c :: s' -> matches (deriv c r) s'

(** val prefix_matches : rx -> n list -> bool **)

let rec prefix_matches r s =
  (||) (nullable r)
    (match s with
     | [] -> false
     | c :: s' -> prefix_matches (deriv c r) s')

(** val anchored_match : rx -> end_anchor -> n list -> bool **)

let anchored_match r e s =
  match e with
  | NoEnd -> prefix_matches r s
  | EndDollar ->
    (||) (matches r s)
      (match rev s with
       | [] -> false
       | n0 :: body ->
         (match n0 with
          | N0 -> false
          | Npos p ->
            (match p with
             | XO p0 ->
               (match p0 with
                | XI p1 ->
                  (match p1 with
                   | XO p2 ->
                     (match p2 with
                      | XH -> matches r (rev body)
                      | _ -> false)
                   | _ -> false)
                | _ -> false)
             | _ -> false)))
  | EndZ -> matches r s

type caps = (nat * (nat * nat)) list

(** val rsize : rx -> nat **)

let rec rsize = function
| Cat (a, b) -> S (add (rsize a) (rsize b))
| Alt (a, b) -> S (add (rsize a) (rsize b))
| Star a -> S (rsize a)
| Group (_, a) -> S (rsize a)
| _ -> S O

type bres =
| BFuel
| BNo
| BYes of nat * caps

(** val bt :
    nat -> rx -> n list -> nat -> caps -> (n list -> nat -> caps -> bres) ->
    bres **)

let rec bt fuel r s pos cs k =
  match fuel with
  | O -> BFuel
  | S f ->
    (match r with
     | Nul -> BNo
     | Eps -> k s pos cs
     | Chr (neg, ranges) ->
       (match s with
        | [] -> BNo
        | c :: s' -> if chr_ok neg ranges c then k s' (S pos) cs else BNo)
     | Cat (a, b) -> bt f a s pos cs (fun s1 p1 c1 -> bt f b s1 p1 c1 k)
     | Alt (a, b) ->
       (match bt f a s pos cs k with
        | BNo -> bt f b s pos cs k
        | x -> x)
     | Star a ->
       (match bt f a s pos cs (fun s1 p1 c1 ->
                if Nat.eqb p1 pos then BNo else bt f (Star a) s1 p1 c1 k) with
        | BNo -> k s pos cs
        | x -> x)
     | Group (i, a) ->
       bt f a s pos cs (fun s1 p1 c1 -> k s1 p1 ((i, (pos, p1)) :: c1)))

(** val bt_fuel : rx -> n list -> nat **)

let bt_fuel r s =
  mul (add (length s) (S (S O))) (add (rsize r) (S (S O)))

(** val re_match : rx -> end_anchor -> n list -> bres **)

let re_match r e s =
  bt (bt_fuel r s) r s O [] (fun rest p cs ->
    match e with
    | NoEnd -> BYes (p, cs)
    | EndDollar ->
      (match rest with
       | [] -> BYes (p, cs)
       | n0 :: l ->
         (match n0 with
          | N0 -> BNo
          | Npos p0 ->
            (match p0 with
             | XO p1 ->
               (match p1 with
                | XI p2 ->
                  (match p2 with
                   | XO p3 ->
                     (match p3 with
                      | XH ->
                        (match l with
                         | [] -> BYes (p, cs)
                         | _ :: _ -> BNo)
                      | _ -> BNo)
                   | _ -> BNo)
                | _ -> BNo)
             | _ -> BNo)))
    | EndZ -> (match rest with
               | [] -> BYes (p, cs)
               | _ :: _ -> BNo))

(** val cap_lookup : nat -> caps -> (nat * nat) option **)

let rec cap_lookup i = function
| [] -> None
| p :: rest ->
  let (j, se) = p in if Nat.eqb i j then Some se else cap_lookup i rest

(** val slice : 'a1 list -> nat -> nat -> 'a1 list **)

let slice l st en =
  firstn (sub en st) (skipn st l)

(** val group_text : n list -> caps -> nat -> n list option **)

let group_text s cs i =
  match cap_lookup i cs with
  | Some p -> let (st, en) = p in Some (slice s st en)
  | None -> None

(** val re_sub_loop :
    nat -> rx -> (n list -> n list option) -> n list -> n list option option **)

let rec re_sub_loop fuel r repl s =
  match fuel with
  | O -> None
  | S f ->
    (match s with
     | [] -> Some (Some [])
     | c :: s' ->
       (match bt (bt_fuel r s) r s O [] (fun _ p cs -> BYes (p, cs)) with
        | BFuel -> None
        | BNo ->
          (match re_sub_loop f r repl s' with
           | Some o ->
             (match o with
              | Some rest -> Some (Some (c :: rest))
              | None -> Some None)
           | None -> None)
        | BYes (e0, _) ->
          (match e0 with
           | O ->
             (match re_sub_loop f r repl s' with
              | Some o ->
                (match o with
                 | Some rest -> Some (Some (c :: rest))
                 | None -> Some None)
              | None -> None)
           | S e ->
             (match repl (firstn (S e) s) with
              | Some out ->
                (match re_sub_loop f r repl (skipn (S e) s) with
                 | Some o ->
                   (match o with
                    | Some rest -> Some (Some (app out rest))
                    | None -> Some None)
                 | None -> None)
              | None -> Some None))))

(** val re_sub :
    rx -> (n list -> n list option) -> n list -> n list option option **)

let re_sub r repl s =
  re_sub_loop (S (length s)) r repl s

(** val type_tag_numbers : n list **)

let type_tag_numbers =
  N0 :: ((Npos XH) :: ((Npos (XO XH)) :: ((Npos (XI XH)) :: ((Npos (XO (XO
    XH))) :: ((Npos (XI (XO XH))) :: ((Npos (XO (XI XH))) :: ((Npos (XI (XI
    XH))) :: ((Npos (XO (XO (XO XH)))) :: ((Npos (XI (XO (XO XH)))) :: ((Npos
    (XO (XI (XO XH)))) :: ((Npos (XI (XI (XO XH)))) :: ((Npos (XO (XO (XI
    XH)))) :: ((Npos (XI (XO (XI XH)))) :: ((Npos (XO (XI (XI
    XH)))) :: ((Npos (XI (XI (XI XH)))) :: ((Npos (XO (XO (XO (XO
    XH))))) :: ((Npos (XI (XO (XO (XO XH))))) :: ((Npos (XO (XI (XO (XO
    XH))))) :: ((Npos (XI (XI (XO (XO XH))))) :: ((Npos (XO (XO (XI (XO
    XH))))) :: ((Npos (XI (XO (XI (XO XH))))) :: ((Npos (XO (XI (XI (XO
    XH))))) :: ((Npos (XI (XI (XI (XO XH))))) :: ((Npos (XO (XO (XO (XI
    XH))))) :: ((Npos (XI (XO (XO (XI XH))))) :: ((Npos (XO (XI (XO (XI
    XH))))) :: ((Npos (XI (XI (XO (XI XH))))) :: ((Npos (XO (XO (XI (XI
    XH))))) :: ((Npos (XI (XO (XI (XI XH))))) :: ((Npos (XO (XI (XI (XI
    XH))))) :: ((Npos (XI (XI (XI (XI XH))))) :: ((Npos (XO (XO (XO (XO (XO
    XH)))))) :: ((Npos (XI (XO (XO (XO (XO XH)))))) :: ((Npos (XO (XI (XO (XO
    (XO XH)))))) :: ((Npos (XI (XI (XO (XO (XO XH)))))) :: ((Npos (XO (XO (XI
    (XO (XO XH)))))) :: []))))))))))))))))))))))))))))))))))))

(** val result_codes : n list **)

let result_codes =
  N0 :: ((Npos XH) :: ((Npos (XO XH)) :: ((Npos (XI XH)) :: ((Npos (XO (XO
    XH))) :: ((Npos (XI (XO XH))) :: ((Npos (XO (XI XH))) :: ((Npos (XI (XI
    XH))) :: ((Npos (XO (XO (XO XH)))) :: ((Npos (XO (XI (XO XH)))) :: ((Npos
    (XI (XI (XO XH)))) :: ((Npos (XO (XO (XI XH)))) :: ((Npos (XI (XO (XI
    XH)))) :: ((Npos (XO (XI (XI XH)))) :: ((Npos (XO (XO (XO (XO
    XH))))) :: ((Npos (XI (XO (XO (XO XH))))) :: ((Npos (XO (XI (XO (XO
    XH))))) :: ((Npos (XI (XI (XO (XO XH))))) :: ((Npos (XO (XO (XI (XO
    XH))))) :: ((Npos (XI (XO (XI (XO XH))))) :: ((Npos (XO (XO (XO (XO (XO
    XH)))))) :: ((Npos (XI (XO (XO (XO (XO XH)))))) :: ((Npos (XO (XI (XO (XO
    (XO XH)))))) :: ((Npos (XO (XO (XI (XO (XO XH)))))) :: ((Npos (XO (XO (XO
    (XO (XI XH)))))) :: ((Npos (XI (XO (XO (XO (XI XH)))))) :: ((Npos (XO (XI
    (XO (XO (XI XH)))))) :: ((Npos (XI (XI (XO (XO (XI XH)))))) :: ((Npos (XO
    (XO (XI (XO (XI XH)))))) :: ((Npos (XI (XO (XI (XO (XI XH)))))) :: ((Npos
    (XO (XI (XI (XO (XI XH)))))) :: ((Npos (XO (XO (XO (XO (XO (XO
    XH))))))) :: ((Npos (XI (XO (XO (XO (XO (XO XH))))))) :: ((Npos (XO (XI
    (XO (XO (XO (XO XH))))))) :: ((Npos (XI (XI (XO (XO (XO (XO
    XH))))))) :: ((Npos (XO (XO (XI (XO (XO (XO XH))))))) :: ((Npos (XI (XO
    (XI (XO (XO (XO XH))))))) :: ((Npos (XI (XI (XI (XO (XO (XO
    XH))))))) :: ((Npos (XO (XO (XO (XO (XI (XO
    XH))))))) :: []))))))))))))))))))))))))))))))))))))))

(** val search_scopes : n list **)

let search_scopes =
  N0 :: ((Npos XH) :: ((Npos (XO XH)) :: []))

(** val deref_policies : n list **)

let deref_policies =
  N0 :: ((Npos XH) :: ((Npos (XO XH)) :: ((Npos (XI XH)) :: [])))

(** val tn_boolean : n **)

let tn_boolean =
  Npos XH

(** val tn_integer : n **)

let tn_integer =
  Npos (XO XH)

(** val tn_octet_string : n **)

let tn_octet_string =
  Npos (XO (XO XH))

(** val tn_enumerated : n **)

let tn_enumerated =
  Npos (XO (XI (XO XH)))

(** val tn_sequence : n **)

let tn_sequence =
  Npos (XO (XO (XO (XO XH))))

(** val tn_set : n **)

let tn_set =
  Npos (XI (XO (XO (XO XH))))

(** val cls_universal : n **)

let cls_universal =
  N0

(** val cls_application : n **)

let cls_application =
  Npos XH

(** val cls_context : n **)

let cls_context =
  Npos (XO XH)

(** val rc_sasl_bind_in_progress : n **)

let rc_sasl_bind_in_progress =
  Npos (XO (XI (XI XH)))

(** val result_code_open : bool **)

let result_code_open =
  true

(** val op_bind_request : n **)

let op_bind_request =
  N0

(** val op_bind_response : n **)

let op_bind_response =
  Npos XH

(** val op_unbind_request : n **)

let op_unbind_request =
  Npos (XO XH)

(** val op_search_request : n **)

let op_search_request =
  Npos (XI XH)

(** val op_search_result_entry : n **)

let op_search_result_entry =
  Npos (XO (XO XH))

(** val op_search_result_done : n **)

let op_search_result_done =
  Npos (XI (XO XH))

(** val op_search_result_reference : n **)

let op_search_result_reference =
  Npos (XI (XI (XO (XO XH))))

(** val op_extended_request : n **)

let op_extended_request =
  Npos (XI (XI (XI (XO XH))))

(** val op_extended_response : n **)

let op_extended_response =
  Npos (XO (XO (XO (XI XH))))

(** val protocol_packer_keys : n list **)

let protocol_packer_keys =
  N0 :: ((Npos XH) :: ((Npos (XO XH)) :: ((Npos (XI XH)) :: ((Npos (XO (XO
    XH))) :: ((Npos (XI (XO XH))) :: ((Npos (XI (XI (XO (XO XH))))) :: ((Npos
    (XI (XI (XI (XO XH))))) :: ((Npos (XO (XO (XO (XI XH))))) :: []))))))))

(** val fid_and : n **)

let fid_and =
  N0

(** val fid_or : n **)

let fid_or =
  Npos XH

(** val fid_not : n **)

let fid_not =
  Npos (XO XH)

(** val fid_equality : n **)

let fid_equality =
  Npos (XI XH)

(** val fid_substrings : n **)

let fid_substrings =
  Npos (XO (XO XH))

(** val fid_ge : n **)

let fid_ge =
  Npos (XI (XO XH))

(** val fid_le : n **)

let fid_le =
  Npos (XO (XI XH))

(** val fid_present : n **)

let fid_present =
  Npos (XI (XI XH))

(** val fid_approx : n **)

let fid_approx =
  Npos (XO (XO (XO XH)))

(** val fid_extensible : n **)

let fid_extensible =
  Npos (XI (XO (XO XH)))

(** val default_filter_choices : n list **)

let default_filter_choices =
  N0 :: ((Npos (XO (XO (XO XH)))) :: ((Npos (XI XH)) :: ((Npos (XI (XO (XO
    XH)))) :: ((Npos (XI (XO XH))) :: ((Npos (XO (XI XH))) :: ((Npos (XO
    XH)) :: ((Npos XH) :: ((Npos (XI (XI XH))) :: ((Npos (XO (XO
    XH))) :: [])))))))))

(** val aid_simple : n **)

let aid_simple =
  N0

(** val aid_sasl : n **)

let aid_sasl =
  Npos (XI XH)

(** val default_auth_choices : n list **)

let default_auth_choices =
  (Npos (XI XH)) :: (N0 :: [])

(** val oid_paged : byte list **)

let oid_paged =
  X31 :: (X2e :: (X32 :: (X2e :: (X38 :: (X34 :: (X30 :: (X2e :: (X31 :: (X31 :: (X33 :: (X35 :: (X35 :: (X36 :: (X2e :: (X31 :: (X2e :: (X34 :: (X2e :: (X33 :: (X31 :: (X39 :: [])))))))))))))))))))))

(** val oid_show_deleted : byte list **)

let oid_show_deleted =
  X31 :: (X2e :: (X32 :: (X2e :: (X38 :: (X34 :: (X30 :: (X2e :: (X31 :: (X31 :: (X33 :: (X35 :: (X35 :: (X36 :: (X2e :: (X31 :: (X2e :: (X34 :: (X2e :: (X34 :: (X31 :: (X37 :: [])))))))))))))))))))))

(** val oid_show_deactivated : byte list **)

let oid_show_deactivated =
  X31 :: (X2e :: (X32 :: (X2e :: (X38 :: (X34 :: (X30 :: (X2e :: (X31 :: (X31 :: (X33 :: (X35 :: (X35 :: (X36 :: (X2e :: (X31 :: (X2e :: (X34 :: (X2e :: (X32 :: (X30 :: (X36 :: (X35 :: []))))))))))))))))))))))

(** val default_control_choices : n list **)

let default_control_choices =
  N0 :: ((Npos (XO XH)) :: ((Npos XH) :: []))

(** val oid_notice_of_disconnection : byte list **)

let oid_notice_of_disconnection =
  X31 :: (X2e :: (X33 :: (X2e :: (X36 :: (X2e :: (X31 :: (X2e :: (X34 :: (X2e :: (X31 :: (X2e :: (X31 :: (X34 :: (X36 :: (X36 :: (X2e :: (X32 :: (X30 :: (X30 :: (X33 :: (X36 :: [])))))))))))))))))))))

(** val session_ldap_version : z **)

let session_ldap_version =
  Zpos (XI XH)

(** val rx_attribute : rx **)

let rx_attribute =
  Cat ((Alt ((Cat ((Chr (false, (((Npos (XI (XO (XO (XO (XO (XI XH))))))),
    (Npos (XO (XI (XO (XI (XI (XI XH)))))))) :: (((Npos (XI (XO (XO (XO (XO
    (XO XH))))))), (Npos (XO (XI (XO (XI (XI (XO XH)))))))) :: [])))), (Star
    (Chr (false, (((Npos (XI (XO (XO (XO (XO (XI XH))))))), (Npos (XO (XI (XO
    (XI (XI (XI XH)))))))) :: (((Npos (XI (XO (XO (XO (XO (XO XH))))))),
    (Npos (XO (XI (XO (XI (XI (XO XH)))))))) :: (((Npos (XO (XO (XO (XO (XI
    XH)))))), (Npos (XI (XO (XO (XI (XI XH))))))) :: (((Npos (XI (XO (XI (XI
    (XO XH)))))), (Npos (XI (XO (XI (XI (XO XH))))))) :: []))))))))), (Cat
    ((Alt ((Chr (false, (((Npos (XO (XO (XO (XO (XI XH)))))), (Npos (XO (XO
    (XO (XO (XI XH))))))) :: []))), (Cat ((Chr (false, (((Npos (XI (XO (XO
    (XO (XI XH)))))), (Npos (XI (XO (XO (XI (XI XH))))))) :: []))), (Star
    (Chr (false, (((Npos (XO (XO (XO (XO (XI XH)))))), (Npos (XI (XO (XO (XI
    (XI XH))))))) :: [])))))))), (Star (Cat ((Chr (false, (((Npos (XO (XI (XI
    (XI (XO XH)))))), (Npos (XO (XI (XI (XI (XO XH))))))) :: []))), (Alt
    ((Chr (false, (((Npos (XO (XO (XO (XO (XI XH)))))), (Npos (XO (XO (XO (XO
    (XI XH))))))) :: []))), (Cat ((Chr (false, (((Npos (XI (XO (XO (XO (XI
    XH)))))), (Npos (XI (XO (XO (XI (XI XH))))))) :: []))), (Star (Chr
    (false, (((Npos (XO (XO (XO (XO (XI XH)))))), (Npos (XI (XO (XO (XI (XI
    XH))))))) :: []))))))))))))))), (Star (Cat ((Chr (false, (((Npos (XI (XI
    (XO (XI (XI XH)))))), (Npos (XI (XI (XO (XI (XI XH))))))) :: []))), (Cat
    ((Chr (false, (((Npos (XI (XO (XO (XO (XO (XI XH))))))), (Npos (XO (XI
    (XO (XI (XI (XI XH)))))))) :: (((Npos (XI (XO (XO (XO (XO (XO XH))))))),
    (Npos (XO (XI (XO (XI (XI (XO XH)))))))) :: (((Npos (XO (XO (XO (XO (XI
    XH)))))), (Npos (XI (XO (XO (XI (XI XH))))))) :: (((Npos (XI (XO (XI (XI
    (XO XH)))))), (Npos (XI (XO (XI (XI (XO XH))))))) :: [])))))), (Star (Chr
    (false, (((Npos (XI (XO (XO (XO (XO (XI XH))))))), (Npos (XO (XI (XO (XI
    (XI (XI XH)))))))) :: (((Npos (XI (XO (XO (XO (XO (XO XH))))))), (Npos
    (XO (XI (XO (XI (XI (XO XH)))))))) :: (((Npos (XO (XO (XO (XO (XI
    XH)))))), (Npos (XI (XO (XO (XI (XI XH))))))) :: (((Npos (XI (XO (XI (XI
    (XO XH)))))), (Npos (XI (XO (XI (XI (XO XH))))))) :: [])))))))))))))

(** val rx_attribute_end : end_anchor **)

let rx_attribute_end =
  EndZ

(** val rx_attribute_ngroups : nat **)

let rx_attribute_ngroups =
  O

(** val rx_hex : rx **)

let rx_hex =
  Cat ((Chr (false, (((Npos (XI (XO (XO (XO (XO (XI XH))))))), (Npos (XO (XI
    (XI (XO (XO (XI XH)))))))) :: (((Npos (XI (XO (XO (XO (XO (XO XH))))))),
    (Npos (XO (XI (XI (XO (XO (XO XH)))))))) :: (((Npos (XO (XO (XO (XO (XI
    XH)))))), (Npos (XI (XO (XO (XI (XI XH))))))) :: []))))), (Chr (false,
    (((Npos (XI (XO (XO (XO (XO (XI XH))))))), (Npos (XO (XI (XI (XO (XO (XI
    XH)))))))) :: (((Npos (XI (XO (XO (XO (XO (XO XH))))))), (Npos (XO (XI
    (XI (XO (XO (XO XH)))))))) :: (((Npos (XO (XO (XO (XO (XI XH)))))), (Npos
    (XI (XO (XO (XI (XI XH))))))) :: []))))))

(** val rx_hex_end : end_anchor **)

let rx_hex_end =
  EndDollar

(** val rx_ldap_escape : rx **)

let rx_ldap_escape =
  Group ((S O), (Cat ((Chr (false, (((Npos (XO (XO (XI (XI (XI (XO XH))))))),
    (Npos (XO (XO (XI (XI (XI (XO XH)))))))) :: []))), (Alt ((Cat ((Chr
    (true, (((Npos (XO (XI (XO XH)))), (Npos (XO (XI (XO XH))))) :: []))),
    (Alt ((Chr (true, (((Npos (XO (XI (XO XH)))), (Npos (XO (XI (XO
    XH))))) :: []))), Eps)))), Eps)))))

(** val rx_string_escape : rx **)

let rx_string_escape =
  Chr (false, ((N0, (Npos (XI (XI (XI (XI XH)))))) :: (((Npos (XO (XO (XO (XI
    (XO XH)))))), (Npos (XO (XO (XO (XI (XO XH))))))) :: (((Npos (XI (XO (XO
    (XI (XO XH)))))), (Npos (XI (XO (XO (XI (XO XH))))))) :: (((Npos (XO (XI
    (XO (XI (XO XH)))))), (Npos (XO (XI (XO (XI (XO XH))))))) :: (((Npos (XO
    (XO (XI (XI (XI (XO XH))))))), (Npos (XO (XO (XI (XI (XI (XO
    XH)))))))) :: (((Npos (XI (XI (XI (XI (XI (XI XH))))))), (Npos (XI (XI
    (XI (XI (XI (XI (XI XH))))))))) :: [])))))))

(** val rx_object_class : rx **)

let rx_object_class =
  Cat ((Chr (false, (((Npos (XO (XO (XO (XI (XO XH)))))), (Npos (XO (XO (XO
    (XI (XO XH))))))) :: []))), (Cat ((Star (Chr (false, (((Npos (XO (XO (XO
    (XO (XO XH)))))), (Npos (XO (XO (XO (XO (XO XH))))))) :: [])))), (Cat
    ((Group ((S O), (Cat ((Group ((S (S O)), (Alt ((Chr (false, (((Npos (XO
    (XO (XO (XO (XI XH)))))), (Npos (XI (XO (XO (XI (XI XH))))))) :: []))),
    (Cat ((Chr (false, (((Npos (XI (XO (XO (XO (XI XH)))))), (Npos (XI (XO
    (XO (XI (XI XH))))))) :: []))), (Cat ((Chr (false, (((Npos (XO (XO (XO
    (XO (XI XH)))))), (Npos (XI (XO (XO (XI (XI XH))))))) :: []))), (Star
    (Chr (false, (((Npos (XO (XO (XO (XO (XI XH)))))), (Npos (XI (XO (XO (XI
    (XI XH))))))) :: [])))))))))))), (Cat ((Group ((S (S (S O))), (Cat ((Chr
    (false, (((Npos (XO (XI (XI (XI (XO XH)))))), (Npos (XO (XI (XI (XI (XO
    XH))))))) :: []))), (Group ((S (S (S (S O)))), (Alt ((Chr (false, (((Npos
    (XO (XO (XO (XO (XI XH)))))), (Npos (XI (XO (XO (XI (XI
    XH))))))) :: []))), (Cat ((Chr (false, (((Npos (XI (XO (XO (XO (XI
    XH)))))), (Npos (XI (XO (XO (XI (XI XH))))))) :: []))), (Cat ((Chr
    (false, (((Npos (XO (XO (XO (XO (XI XH)))))), (Npos (XI (XO (XO (XI (XI
    XH))))))) :: []))), (Star (Chr (false, (((Npos (XO (XO (XO (XO (XI
    XH)))))), (Npos (XI (XO (XO (XI (XI XH))))))) :: [])))))))))))))))),
    (Star (Group ((S (S (S O))), (Cat ((Chr (false, (((Npos (XO (XI (XI (XI
    (XO XH)))))), (Npos (XO (XI (XI (XI (XO XH))))))) :: []))), (Group ((S (S
    (S (S O)))), (Alt ((Chr (false, (((Npos (XO (XO (XO (XO (XI XH)))))),
    (Npos (XI (XO (XO (XI (XI XH))))))) :: []))), (Cat ((Chr (false, (((Npos
    (XI (XO (XO (XO (XI XH)))))), (Npos (XI (XO (XO (XI (XI
    XH))))))) :: []))), (Cat ((Chr (false, (((Npos (XO (XO (XO (XO (XI
    XH)))))), (Npos (XI (XO (XO (XI (XI XH))))))) :: []))), (Star (Chr
    (false, (((Npos (XO (XO (XO (XO (XI XH)))))), (Npos (XI (XO (XO (XI (XI
    XH))))))) :: []))))))))))))))))))))))), (Cat ((Alt ((Group ((S (S (S (S
    (S O))))), (Cat ((Cat ((Chr (false, (((Npos (XO (XO (XO (XO (XO XH)))))),
    (Npos (XO (XO (XO (XO (XO XH))))))) :: []))), (Star (Chr (false, (((Npos
    (XO (XO (XO (XO (XO XH)))))), (Npos (XO (XO (XO (XO (XO
    XH))))))) :: [])))))), (Cat ((Chr (false, (((Npos (XO (XI (XI (XI (XO (XO
    XH))))))), (Npos (XO (XI (XI (XI (XO (XO XH)))))))) :: []))), (Cat ((Chr
    (false, (((Npos (XI (XO (XO (XO (XO (XO XH))))))), (Npos (XI (XO (XO (XO
    (XO (XO XH)))))))) :: []))), (Cat ((Chr (false, (((Npos (XI (XO (XI (XI
    (XO (XO XH))))))), (Npos (XI (XO (XI (XI (XO (XO XH)))))))) :: []))),
    (Cat ((Chr (false, (((Npos (XI (XO (XI (XO (XO (XO XH))))))), (Npos (XI
    (XO (XI (XO (XO (XO XH)))))))) :: []))), (Cat ((Cat ((Chr (false, (((Npos
    (XO (XO (XO (XO (XO XH)))))), (Npos (XO (XO (XO (XO (XO
    XH))))))) :: []))), (Star (Chr (false, (((Npos (XO (XO (XO (XO (XO
    XH)))))), (Npos (XO (XO (XO (XO (XO XH))))))) :: [])))))), (Group ((S (S
    (S (S (S (S O)))))), (Group ((S (S (S (S (S (S (S O))))))), (Alt ((Cat
    ((Chr (false, (((Npos (XI (XI (XI (XO (XO XH)))))), (Npos (XI (XI (XI (XO
    (XO XH))))))) :: []))), (Cat ((Chr (false, (((Npos (XI (XO (XO (XO (XO
    (XI XH))))))), (Npos (XO (XI (XO (XI (XI (XI XH)))))))) :: (((Npos (XI
    (XO (XO (XO (XO (XO XH))))))), (Npos (XO (XI (XO (XI (XI (XO
    XH)))))))) :: [])))), (Cat ((Star (Group ((S (S (S (S (S (S (S (S
    O)))))))), (Group ((S (S (S (S (S (S (S (S (S O))))))))), (Chr (false,
    (((Npos (XI (XO (XO (XO (XO (XI XH))))))), (Npos (XO (XI (XO (XI (XI (XI
    XH)))))))) :: (((Npos (XI (XO (XO (XO (XO (XO XH))))))), (Npos (XO (XI
    (XO (XI (XI (XO XH)))))))) :: (((Npos (XO (XO (XO (XO (XI XH)))))), (Npos
    (XI (XO (XO (XI (XI XH))))))) :: (((Npos (XI (XO (XI (XI (XO XH)))))),
    (Npos (XI (XO (XI (XI (XO XH))))))) :: []))))))))))), (Chr (false,
    (((Npos (XI (XI (XI (XO (XO XH)))))), (Npos (XI (XI (XI (XO (XO
    XH))))))) :: []))))))))), (Cat ((Chr (false, (((Npos (XO (XO (XO (XI (XO
    XH)))))), (Npos (XO (XO (XO (XI (XO XH))))))) :: []))), (Cat ((Star (Chr
    (false, (((Npos (XO (XO (XO (XO (XO XH)))))), (Npos (XO (XO (XO (XO (XO
    XH))))))) :: [])))), (Cat ((Alt ((Group ((S (S (S (S (S (S (S (S (S (S
    O)))))))))), (Cat ((Chr (false, (((Npos (XI (XI (XI (XO (XO XH)))))),
    (Npos (XI (XI (XI (XO (XO XH))))))) :: []))), (Cat ((Chr (false, (((Npos
    (XI (XO (XO (XO (XO (XI XH))))))), (Npos (XO (XI (XO (XI (XI (XI
    XH)))))))) :: (((Npos (XI (XO (XO (XO (XO (XO XH))))))), (Npos (XO (XI
    (XO (XI (XI (XO XH)))))))) :: [])))), (Cat ((Star (Group ((S (S (S (S (S
    (S (S (S (S (S (S O))))))))))), (Group ((S (S (S (S (S (S (S (S (S (S (S
    (S O)))))))))))), (Chr (false, (((Npos (XI (XO (XO (XO (XO (XI XH))))))),
    (Npos (XO (XI (XO (XI (XI (XI XH)))))))) :: (((Npos (XI (XO (XO (XO (XO
    (XO XH))))))), (Npos (XO (XI (XO (XI (XI (XO XH)))))))) :: (((Npos (XO
    (XO (XO (XO (XI XH)))))), (Npos (XI (XO (XO (XI (XI XH))))))) :: (((Npos
    (XI (XO (XI (XI (XO XH)))))), (Npos (XI (XO (XI (XI (XO
    XH))))))) :: []))))))))))), (Cat ((Chr (false, (((Npos (XI (XI (XI (XO
    (XO XH)))))), (Npos (XI (XI (XI (XO (XO XH))))))) :: []))), (Star (Group
    ((S (S (S (S (S (S (S (S (S (S (S (S (S O))))))))))))), (Cat ((Cat ((Chr
    (false, (((Npos (XO (XO (XO (XO (XO XH)))))), (Npos (XO (XO (XO (XO (XO
    XH))))))) :: []))), (Star (Chr (false, (((Npos (XO (XO (XO (XO (XO
    XH)))))), (Npos (XO (XO (XO (XO (XO XH))))))) :: [])))))), (Cat ((Chr
    (false, (((Npos (XI (XI (XI (XO (XO XH)))))), (Npos (XI (XI (XI (XO (XO
    XH))))))) :: []))), (Cat ((Chr (false, (((Npos (XI (XO (XO (XO (XO (XI
    XH))))))), (Npos (XO (XI (XO (XI (XI (XI XH)))))))) :: (((Npos (XI (XO
    (XO (XO (XO (XO XH))))))), (Npos (XO (XI (XO (XI (XI (XO
    XH)))))))) :: [])))), (Cat ((Star (Group ((S (S (S (S (S (S (S (S (S (S
    (S (S (S (S O)))))))))))))), (Group ((S (S (S (S (S (S (S (S (S (S (S (S
    (S (S (S O))))))))))))))), (Chr (false, (((Npos (XI (XO (XO (XO (XO (XI
    XH))))))), (Npos (XO (XI (XO (XI (XI (XI XH)))))))) :: (((Npos (XI (XO
    (XO (XO (XO (XO XH))))))), (Npos (XO (XI (XO (XI (XI (XO
    XH)))))))) :: (((Npos (XO (XO (XO (XO (XI XH)))))), (Npos (XI (XO (XO (XI
    (XI XH))))))) :: (((Npos (XI (XO (XI (XI (XO XH)))))), (Npos (XI (XO (XI
    (XI (XO XH))))))) :: []))))))))))), (Chr (false, (((Npos (XI (XI (XI (XO
    (XO XH)))))), (Npos (XI (XI (XI (XO (XO
    XH))))))) :: [])))))))))))))))))))))))), Eps)), (Cat ((Star (Chr (false,
    (((Npos (XO (XO (XO (XO (XO XH)))))), (Npos (XO (XO (XO (XO (XO
    XH))))))) :: [])))), (Chr (false, (((Npos (XI (XO (XO (XI (XO XH)))))),
    (Npos (XI (XO (XO (XI (XO XH))))))) :: []))))))))))))))))))))))))))))))),
    Eps)), (Cat ((Alt ((Group ((S (S (S (S (S (S (S (S (S (S (S (S (S (S (S
    (S O)))))))))))))))), (Cat ((Cat ((Chr (false, (((Npos (XO (XO (XO (XO
    (XO XH)))))), (Npos (XO (XO (XO (XO (XO XH))))))) :: []))), (Star (Chr
    (false, (((Npos (XO (XO (XO (XO (XO XH)))))), (Npos (XO (XO (XO (XO (XO
    XH))))))) :: [])))))), (Cat ((Chr (false, (((Npos (XO (XO (XI (XO (XO (XO
    XH))))))), (Npos (XO (XO (XI (XO (XO (XO XH)))))))) :: []))), (Cat ((Chr
    (false, (((Npos (XI (XO (XI (XO (XO (XO XH))))))), (Npos (XI (XO (XI (XO
    (XO (XO XH)))))))) :: []))), (Cat ((Chr (false, (((Npos (XI (XI (XO (XO
    (XI (XO XH))))))), (Npos (XI (XI (XO (XO (XI (XO XH)))))))) :: []))),
    (Cat ((Chr (false, (((Npos (XI (XI (XO (XO (XO (XO XH))))))), (Npos (XI
    (XI (XO (XO (XO (XO XH)))))))) :: []))), (Cat ((Cat ((Chr (false, (((Npos
    (XO (XO (XO (XO (XO XH)))))), (Npos (XO (XO (XO (XO (XO
    XH))))))) :: []))), (Star (Chr (false, (((Npos (XO (XO (XO (XO (XO
    XH)))))), (Npos (XO (XO (XO (XO (XO XH))))))) :: [])))))), (Group ((S (S
    (S (S (S (S (S (S (S (S (S (S (S (S (S (S (S O))))))))))))))))), (Cat
    ((Chr (false, (((Npos (XI (XI (XI (XO (XO XH)))))), (Npos (XI (XI (XI (XO
    (XO XH))))))) :: []))), (Cat ((Cat ((Group ((S (S (S (S (S (S (S (S (S (S
    (S (S (S (S (S (S (S (S O)))))))))))))))))), (Alt ((Cat ((Chr (false,
    (((Npos (XO (XO (XI (XI (XI (XO XH))))))), (Npos (XO (XO (XI (XI (XI (XO
    XH)))))))) :: []))), (Cat ((Chr (false, (((Npos (XI (XO (XI (XO (XI
    XH)))))), (Npos (XI (XO (XI (XO (XI XH))))))) :: []))), (Chr (false,
    (((Npos (XI (XI (XO (XO (XO (XO XH))))))), (Npos (XI (XI (XO (XO (XO (XO
    XH)))))))) :: (((Npos (XI (XI (XO (XO (XO (XI XH))))))), (Npos (XI (XI
    (XO (XO (XO (XI XH)))))))) :: [])))))))), (Alt ((Cat ((Chr (false,
    (((Npos (XO (XO (XI (XI (XI (XO XH))))))), (Npos (XO (XO (XI (XI (XI (XO
    XH)))))))) :: []))), (Cat ((Chr (false, (((Npos (XO (XI (XO (XO (XI
    XH)))))), (Npos (XO (XI (XO (XO (XI XH))))))) :: []))), (Chr (false,
    (((Npos (XI (XI (XI (XO (XI XH)))))), (Npos (XI (XI (XI (XO (XI
    XH))))))) :: []))))))), (Chr (true, (((Npos (XI (XI (XI (XO (XO XH)))))),
    (Npos (XI (XI (XI (XO (XO XH))))))) :: (((Npos (XO (XO (XI (XI (XI (XO
    XH))))))), (Npos (XO (XO (XI (XI (XI (XO XH)))))))) :: [])))))))))),
    (Star (Group ((S (S (S (S (S (S (S (S (S (S (S (S (S (S (S (S (S (S
    O)))))))))))))))))), (Alt ((Cat ((Chr (false, (((Npos (XO (XO (XI (XI (XI
    (XO XH))))))), (Npos (XO (XO (XI (XI (XI (XO XH)))))))) :: []))), (Cat
    ((Chr (false, (((Npos (XI (XO (XI (XO (XI XH)))))), (Npos (XI (XO (XI (XO
    (XI XH))))))) :: []))), (Chr (false, (((Npos (XI (XI (XO (XO (XO (XO
    XH))))))), (Npos (XI (XI (XO (XO (XO (XO XH)))))))) :: (((Npos (XI (XI
    (XO (XO (XO (XI XH))))))), (Npos (XI (XI (XO (XO (XO (XI
    XH)))))))) :: [])))))))), (Alt ((Cat ((Chr (false, (((Npos (XO (XO (XI
    (XI (XI (XO XH))))))), (Npos (XO (XO (XI (XI (XI (XO XH)))))))) :: []))),
    (Cat ((Chr (false, (((Npos (XO (XI (XO (XO (XI XH)))))), (Npos (XO (XI
    (XO (XO (XI XH))))))) :: []))), (Chr (false, (((Npos (XI (XI (XI (XO (XI
    XH)))))), (Npos (XI (XI (XI (XO (XI XH))))))) :: []))))))), (Chr (true,
    (((Npos (XI (XI (XI (XO (XO XH)))))), (Npos (XI (XI (XI (XO (XO
    XH))))))) :: (((Npos (XO (XO (XI (XI (XI (XO XH))))))), (Npos (XO (XO (XI
    (XI (XI (XO XH)))))))) :: []))))))))))))), (Chr (false, (((Npos (XI (XI
    (XI (XO (XO XH)))))), (Npos (XI (XI (XI (XO (XO
    XH))))))) :: []))))))))))))))))))))))), Eps)), (Cat ((Alt ((Group ((S (S
    (S (S (S (S (S (S (S (S (S (S (S (S (S (S (S (S (S O))))))))))))))))))),
    (Cat ((Cat ((Chr (false, (((Npos (XO (XO (XO (XO (XO XH)))))), (Npos (XO
    (XO (XO (XO (XO XH))))))) :: []))), (Star (Chr (false, (((Npos (XO (XO
    (XO (XO (XO XH)))))), (Npos (XO (XO (XO (XO (XO XH))))))) :: [])))))),
    (Cat ((Chr (false, (((Npos (XI (XI (XI (XI (XO (XO XH))))))), (Npos (XI
    (XI (XI (XI (XO (XO XH)))))))) :: []))), (Cat ((Chr (false, (((Npos (XO
    (XI (XO (XO (XO (XO XH))))))), (Npos (XO (XI (XO (XO (XO (XO
    XH)))))))) :: []))), (Cat ((Chr (false, (((Npos (XI (XI (XO (XO (XI (XO
    XH))))))), (Npos (XI (XI (XO (XO (XI (XO XH)))))))) :: []))), (Cat ((Chr
    (false, (((Npos (XI (XI (XI (XI (XO (XO XH))))))), (Npos (XI (XI (XI (XI
    (XO (XO XH)))))))) :: []))), (Cat ((Chr (false, (((Npos (XO (XO (XI (XI
    (XO (XO XH))))))), (Npos (XO (XO (XI (XI (XO (XO XH)))))))) :: []))),
    (Cat ((Chr (false, (((Npos (XI (XO (XI (XO (XO (XO XH))))))), (Npos (XI
    (XO (XI (XO (XO (XO XH)))))))) :: []))), (Cat ((Chr (false, (((Npos (XO
    (XO (XI (XO (XI (XO XH))))))), (Npos (XO (XO (XI (XO (XI (XO
    XH)))))))) :: []))), (Chr (false, (((Npos (XI (XO (XI (XO (XO (XO
    XH))))))), (Npos (XI (XO (XI (XO (XO (XO
    XH)))))))) :: []))))))))))))))))))))), Eps)), (Cat ((Alt ((Group ((S (S
    (S (S (S (S (S (S (S (S (S (S (S (S (S (S (S (S (S (S
    O)))))))))))))))))))), (Cat ((Cat ((Chr (false, (((Npos (XO (XO (XO (XO
    (XO XH)))))), (Npos (XO (XO (XO (XO (XO XH))))))) :: []))), (Star (Chr
    (false, (((Npos (XO (XO (XO (XO (XO XH)))))), (Npos (XO (XO (XO (XO (XO
    XH))))))) :: [])))))), (Cat ((Chr (false, (((Npos (XI (XI (XO (XO (XI (XO
    XH))))))), (Npos (XI (XI (XO (XO (XI (XO XH)))))))) :: []))), (Cat ((Chr
    (false, (((Npos (XI (XO (XI (XO (XI (XO XH))))))), (Npos (XI (XO (XI (XO
    (XI (XO XH)))))))) :: []))), (Cat ((Chr (false, (((Npos (XO (XO (XO (XO
    (XI (XO XH))))))), (Npos (XO (XO (XO (XO (XI (XO XH)))))))) :: []))),
    (Cat ((Cat ((Chr (false, (((Npos (XO (XO (XO (XO (XO XH)))))), (Npos (XO
    (XO (XO (XO (XO XH))))))) :: []))), (Star (Chr (false, (((Npos (XO (XO
    (XO (XO (XO XH)))))), (Npos (XO (XO (XO (XO (XO XH))))))) :: [])))))),
    (Group ((S (S (S (S (S (S (S (S (S (S (S (S (S (S (S (S (S (S (S (S (S
    O))))))))))))))))))))), (Group ((S (S (S (S (S (S (S (S (S (S (S (S (S (S
    (S (S (S (S (S (S (S (S O)))))))))))))))))))))), (Alt ((Group ((S (S (S
    (S (S (S (S (S (S (S (S (S (S (S (S (S (S (S (S (S (S (S (S
    O))))))))))))))))))))))), (Alt ((Cat ((Chr (false, (((Npos (XI (XO (XO
    (XO (XO (XI XH))))))), (Npos (XO (XI (XO (XI (XI (XI
    XH)))))))) :: (((Npos (XI (XO (XO (XO (XO (XO XH))))))), (Npos (XO (XI
    (XO (XI (XI (XO XH)))))))) :: [])))), (Star (Group ((S (S (S (S (S (S (S
    (S (S (S (S (S (S (S (S (S (S (S (S (S (S (S (S (S
    O)))))))))))))))))))))))), (Group ((S (S (S (S (S (S (S (S (S (S (S (S (S
    (S (S (S (S (S (S (S (S (S (S (S (S O))))))))))))))))))))))))), (Chr
    (false, (((Npos (XI (XO (XO (XO (XO (XI XH))))))), (Npos (XO (XI (XO (XI
    (XI (XI XH)))))))) :: (((Npos (XI (XO (XO (XO (XO (XO XH))))))), (Npos
    (XO (XI (XO (XI (XI (XO XH)))))))) :: (((Npos (XO (XO (XO (XO (XI
    XH)))))), (Npos (XI (XO (XO (XI (XI XH))))))) :: (((Npos (XI (XO (XI (XI
    (XO XH)))))), (Npos (XI (XO (XI (XI (XO XH))))))) :: []))))))))))))),
    (Cat ((Group ((S (S (S (S (S (S (S (S (S (S (S (S (S (S (S (S (S (S (S (S
    (S (S (S (S (S (S O)))))))))))))))))))))))))), (Alt ((Chr (false, (((Npos
    (XO (XO (XO (XO (XI XH)))))), (Npos (XI (XO (XO (XI (XI
    XH))))))) :: []))), (Cat ((Chr (false, (((Npos (XI (XO (XO (XO (XI
    XH)))))), (Npos (XI (XO (XO (XI (XI XH))))))) :: []))), (Cat ((Chr
    (false, (((Npos (XO (XO (XO (XO (XI XH)))))), (Npos (XI (XO (XO (XI (XI
    XH))))))) :: []))), (Star (Chr (false, (((Npos (XO (XO (XO (XO (XI
    XH)))))), (Npos (XI (XO (XO (XI (XI XH))))))) :: [])))))))))))), (Cat
    ((Group ((S (S (S (S (S (S (S (S (S (S (S (S (S (S (S (S (S (S (S (S (S
    (S (S (S (S (S (S O))))))))))))))))))))))))))), (Cat ((Chr (false,
    (((Npos (XO (XI (XI (XI (XO XH)))))), (Npos (XO (XI (XI (XI (XO
    XH))))))) :: []))), (Group ((S (S (S (S (S (S (S (S (S (S (S (S (S (S (S
    (S (S (S (S (S (S (S (S (S (S (S (S (S O)))))))))))))))))))))))))))),
    (Alt ((Chr (false, (((Npos (XO (XO (XO (XO (XI XH)))))), (Npos (XI (XO
    (XO (XI (XI XH))))))) :: []))), (Cat ((Chr (false, (((Npos (XI (XO (XO
    (XO (XI XH)))))), (Npos (XI (XO (XO (XI (XI XH))))))) :: []))), (Cat
    ((Chr (false, (((Npos (XO (XO (XO (XO (XI XH)))))), (Npos (XI (XO (XO (XI
    (XI XH))))))) :: []))), (Star (Chr (false, (((Npos (XO (XO (XO (XO (XI
    XH)))))), (Npos (XI (XO (XO (XI (XI XH))))))) :: [])))))))))))))))),
    (Star (Group ((S (S (S (S (S (S (S (S (S (S (S (S (S (S (S (S (S (S (S (S
    (S (S (S (S (S (S (S O))))))))))))))))))))))))))), (Cat ((Chr (false,
    (((Npos (XO (XI (XI (XI (XO XH)))))), (Npos (XO (XI (XI (XI (XO
    XH))))))) :: []))), (Group ((S (S (S (S (S (S (S (S (S (S (S (S (S (S (S
    (S (S (S (S (S (S (S (S (S (S (S (S (S O)))))))))))))))))))))))))))),
    (Alt ((Chr (false, (((Npos (XO (XO (XO (XO (XI XH)))))), (Npos (XI (XO
    (XO (XI (XI XH))))))) :: []))), (Cat ((Chr (false, (((Npos (XI (XO (XO
    (XO (XI XH)))))), (Npos (XI (XO (XO (XI (XI XH))))))) :: []))), (Cat
    ((Chr (false, (((Npos (XO (XO (XO (XO (XI XH)))))), (Npos (XI (XO (XO (XI
    (XI XH))))))) :: []))), (Star (Chr (false, (((Npos (XO (XO (XO (XO (XI
    XH)))))), (Npos (XI (XO (XO (XI (XI
    XH))))))) :: []))))))))))))))))))))))))), (Cat ((Chr (false, (((Npos (XO
    (XO (XO (XI (XO XH)))))), (Npos (XO (XO (XO (XI (XO XH))))))) :: []))),
    (Cat ((Star (Chr (false, (((Npos (XO (XO (XO (XO (XO XH)))))), (Npos (XO
    (XO (XO (XO (XO XH))))))) :: [])))), (Cat ((Group ((S (S (S (S (S (S (S
    (S (S (S (S (S (S (S (S (S (S (S (S (S (S (S (S (S (S (S (S (S (S
    O))))))))))))))))))))))))))))), (Cat ((Group ((S (S (S (S (S (S (S (S (S
    (S (S (S (S (S (S (S (S (S (S (S (S (S (S (S (S (S (S (S (S (S
    O)))))))))))))))))))))))))))))), (Alt ((Cat ((Chr (false, (((Npos (XI (XO
    (XO (XO (XO (XI XH))))))), (Npos (XO (XI (XO (XI (XI (XI
    XH)))))))) :: (((Npos (XI (XO (XO (XO (XO (XO XH))))))), (Npos (XO (XI
    (XO (XI (XI (XO XH)))))))) :: [])))), (Star (Group ((S (S (S (S (S (S (S
    (S (S (S (S (S (S (S (S (S (S (S (S (S (S (S (S (S (S (S (S (S (S (S (S
    O))))))))))))))))))))))))))))))), (Group ((S (S (S (S (S (S (S (S (S (S
    (S (S (S (S (S (S (S (S (S (S (S (S (S (S (S (S (S (S (S (S (S (S
    O)))))))))))))))))))))))))))))))), (Chr (false, (((Npos (XI (XO (XO (XO
    (XO (XI XH))))))), (Npos (XO (XI (XO (XI (XI (XI XH)))))))) :: (((Npos
    (XI (XO (XO (XO (XO (XO XH))))))), (Npos (XO (XI (XO (XI (XI (XO
    XH)))))))) :: (((Npos (XO (XO (XO (XO (XI XH)))))), (Npos (XI (XO (XO (XI
    (XI XH))))))) :: (((Npos (XI (XO (XI (XI (XO XH)))))), (Npos (XI (XO (XI
    (XI (XO XH))))))) :: []))))))))))))), (Cat ((Group ((S (S (S (S (S (S (S
    (S (S (S (S (S (S (S (S (S (S (S (S (S (S (S (S (S (S (S (S (S (S (S (S
    (S (S O))))))))))))))))))))))))))))))))), (Alt ((Chr (false, (((Npos (XO
    (XO (XO (XO (XI XH)))))), (Npos (XI (XO (XO (XI (XI XH))))))) :: []))),
    (Cat ((Chr (false, (((Npos (XI (XO (XO (XO (XI XH)))))), (Npos (XI (XO
    (XO (XI (XI XH))))))) :: []))), (Cat ((Chr (false, (((Npos (XO (XO (XO
    (XO (XI XH)))))), (Npos (XI (XO (XO (XI (XI XH))))))) :: []))), (Star
    (Chr (false, (((Npos (XO (XO (XO (XO (XI XH)))))), (Npos (XI (XO (XO (XI
    (XI XH))))))) :: [])))))))))))), (Cat ((Group ((S (S (S (S (S (S (S (S (S
    (S (S (S (S (S (S (S (S (S (S (S (S (S (S (S (S (S (S (S (S (S (S (S (S
    (S O)))))))))))))))))))))))))))))))))), (Cat ((Chr (false, (((Npos (XO
    (XI (XI (XI (XO XH)))))), (Npos (XO (XI (XI (XI (XO XH))))))) :: []))),
    (Group ((S (S (S (S (S (S (S (S (S (S (S (S (S (S (S (S (S (S (S (S (S (S
    (S (S (S (S (S (S (S (S (S (S (S (S (S
    O))))))))))))))))))))))))))))))))))), (Alt ((Chr (false, (((Npos (XO (XO
    (XO (XO (XI XH)))))), (Npos (XI (XO (XO (XI (XI XH))))))) :: []))), (Cat
    ((Chr (false, (((Npos (XI (XO (XO (XO (XI XH)))))), (Npos (XI (XO (XO (XI
    (XI XH))))))) :: []))), (Cat ((Chr (false, (((Npos (XO (XO (XO (XO (XI
    XH)))))), (Npos (XI (XO (XO (XI (XI XH))))))) :: []))), (Star (Chr
    (false, (((Npos (XO (XO (XO (XO (XI XH)))))), (Npos (XI (XO (XO (XI (XI
    XH))))))) :: [])))))))))))))))), (Star (Group ((S (S (S (S (S (S (S (S (S
    (S (S (S (S (S (S (S (S (S (S (S (S (S (S (S (S (S (S (S (S (S (S (S (S
    (S O)))))))))))))))))))))))))))))))))), (Cat ((Chr (false, (((Npos (XO
    (XI (XI (XI (XO XH)))))), (Npos (XO (XI (XI (XI (XO XH))))))) :: []))),
    (Group ((S (S (S (S (S (S (S (S (S (S (S (S (S (S (S (S (S (S (S (S (S (S
    (S (S (S (S (S (S (S (S (S (S (S (S (S
    O))))))))))))))))))))))))))))))))))), (Alt ((Chr (false, (((Npos (XO (XO
    (XO (XO (XI XH)))))), (Npos (XI (XO (XO (XI (XI XH))))))) :: []))), (Cat
    ((Chr (false, (((Npos (XI (XO (XO (XO (XI XH)))))), (Npos (XI (XO (XO (XI
    (XI XH))))))) :: []))), (Cat ((Chr (false, (((Npos (XO (XO (XO (XO (XI
    XH)))))), (Npos (XI (XO (XO (XI (XI XH))))))) :: []))), (Star (Chr
    (false, (((Npos (XO (XO (XO (XO (XI XH)))))), (Npos (XI (XO (XO (XI (XI
    XH))))))) :: []))))))))))))))))))))))))), (Star (Group ((S (S (S (S (S (S
    (S (S (S (S (S (S (S (S (S (S (S (S (S (S (S (S (S (S (S (S (S (S (S (S
    (S (S (S (S (S (S O)))))))))))))))))))))))))))))))))))), (Cat ((Star (Chr
    (false, (((Npos (XO (XO (XO (XO (XO XH)))))), (Npos (XO (XO (XO (XO (XO
    XH))))))) :: [])))), (Cat ((Chr (false, (((Npos (XO (XO (XI (XO (XO
    XH)))))), (Npos (XO (XO (XI (XO (XO XH))))))) :: []))), (Cat ((Star (Chr
    (false, (((Npos (XO (XO (XO (XO (XO XH)))))), (Npos (XO (XO (XO (XO (XO
    XH))))))) :: [])))), (Group ((S (S (S (S (S (S (S (S (S (S (S (S (S (S (S
    (S (S (S (S (S (S (S (S (S (S (S (S (S (S (S (S (S (S (S (S (S (S
    O))))))))))))))))))))))))))))))))))))), (Alt ((Cat ((Chr (false, (((Npos
    (XI (XO (XO (XO (XO (XI XH))))))), (Npos (XO (XI (XO (XI (XI (XI
    XH)))))))) :: (((Npos (XI (XO (XO (XO (XO (XO XH))))))), (Npos (XO (XI
    (XO (XI (XI (XO XH)))))))) :: [])))), (Star (Group ((S (S (S (S (S (S (S
    (S (S (S (S (S (S (S (S (S (S (S (S (S (S (S (S (S (S (S (S (S (S (S (S
    (S (S (S (S (S (S (S O)))))))))))))))))))))))))))))))))))))), (Group ((S
    (S (S (S (S (S (S (S (S (S (S (S (S (S (S (S (S (S (S (S (S (S (S (S (S
    (S (S (S (S (S (S (S (S (S (S (S (S (S (S
    O))))))))))))))))))))))))))))))))))))))), (Chr (false, (((Npos (XI (XO
    (XO (XO (XO (XI XH))))))), (Npos (XO (XI (XO (XI (XI (XI
    XH)))))))) :: (((Npos (XI (XO (XO (XO (XO (XO XH))))))), (Npos (XO (XI
    (XO (XI (XI (XO XH)))))))) :: (((Npos (XO (XO (XO (XO (XI XH)))))), (Npos
    (XI (XO (XO (XI (XI XH))))))) :: (((Npos (XI (XO (XI (XI (XO XH)))))),
    (Npos (XI (XO (XI (XI (XO XH))))))) :: []))))))))))))), (Cat ((Group ((S
    (S (S (S (S (S (S (S (S (S (S (S (S (S (S (S (S (S (S (S (S (S (S (S (S
    (S (S (S (S (S (S (S (S (S (S (S (S (S (S (S
    O)))))))))))))))))))))))))))))))))))))))), (Alt ((Chr (false, (((Npos (XO
    (XO (XO (XO (XI XH)))))), (Npos (XI (XO (XO (XI (XI XH))))))) :: []))),
    (Cat ((Chr (false, (((Npos (XI (XO (XO (XO (XI XH)))))), (Npos (XI (XO
    (XO (XI (XI XH))))))) :: []))), (Cat ((Chr (false, (((Npos (XO (XO (XO
    (XO (XI XH)))))), (Npos (XI (XO (XO (XI (XI XH))))))) :: []))), (Star
    (Chr (false, (((Npos (XO (XO (XO (XO (XI XH)))))), (Npos (XI (XO (XO (XI
    (XI XH))))))) :: [])))))))))))), (Cat ((Group ((S (S (S (S (S (S (S (S (S
    (S (S (S (S (S (S (S (S (S (S (S (S (S (S (S (S (S (S (S (S (S (S (S (S
    (S (S (S (S (S (S (S (S O))))))))))))))))))))))))))))))))))))))))), (Cat
    ((Chr (false, (((Npos (XO (XI (XI (XI (XO XH)))))), (Npos (XO (XI (XI (XI
    (XO XH))))))) :: []))), (Group ((S (S (S (S (S (S (S (S (S (S (S (S (S (S
    (S (S (S (S (S (S (S (S (S (S (S (S (S (S (S (S (S (S (S (S (S (S (S (S
    (S (S (S (S O)))))))))))))))))))))))))))))))))))))))))), (Alt ((Chr
    (false, (((Npos (XO (XO (XO (XO (XI XH)))))), (Npos (XI (XO (XO (XI (XI
    XH))))))) :: []))), (Cat ((Chr (false, (((Npos (XI (XO (XO (XO (XI
    XH)))))), (Npos (XI (XO (XO (XI (XI XH))))))) :: []))), (Cat ((Chr
    (false, (((Npos (XO (XO (XO (XO (XI XH)))))), (Npos (XI (XO (XO (XI (XI
    XH))))))) :: []))), (Star (Chr (false, (((Npos (XO (XO (XO (XO (XI
    XH)))))), (Npos (XI (XO (XO (XI (XI XH))))))) :: [])))))))))))))))),
    (Star (Group ((S (S (S (S (S (S (S (S (S (S (S (S (S (S (S (S (S (S (S (S
    (S (S (S (S (S (S (S (S (S (S (S (S (S (S (S (S (S (S (S (S (S
    O))))))))))))))))))))))))))))))))))))))))), (Cat ((Chr (false, (((Npos
    (XO (XI (XI (XI (XO XH)))))), (Npos (XO (XI (XI (XI (XO
    XH))))))) :: []))), (Group ((S (S (S (S (S (S (S (S (S (S (S (S (S (S (S
    (S (S (S (S (S (S (S (S (S (S (S (S (S (S (S (S (S (S (S (S (S (S (S (S
    (S (S (S O)))))))))))))))))))))))))))))))))))))))))), (Alt ((Chr (false,
    (((Npos (XO (XO (XO (XO (XI XH)))))), (Npos (XI (XO (XO (XI (XI
    XH))))))) :: []))), (Cat ((Chr (false, (((Npos (XI (XO (XO (XO (XI
    XH)))))), (Npos (XI (XO (XO (XI (XI XH))))))) :: []))), (Cat ((Chr
    (false, (((Npos (XO (XO (XO (XO (XI XH)))))), (Npos (XI (XO (XO (XI (XI
    XH))))))) :: []))), (Star (Chr (false, (((Npos (XO (XO (XO (XO (XI
    XH)))))), (Npos (XI (XO (XO (XI (XI
    XH))))))) :: [])))))))))))))))))))))))))))))))))))))), (Cat ((Star (Chr
    (false, (((Npos (XO (XO (XO (XO (XO XH)))))), (Npos (XO (XO (XO (XO (XO
    XH))))))) :: [])))), (Chr (false, (((Npos (XI (XO (XO (XI (XO XH)))))),
    (Npos (XI (XO (XO (XI (XO XH))))))) :: []))))))))))))))))))))))))))))),
    Eps)), (Cat ((Alt ((Group ((S (S (S (S (S (S (S (S (S (S (S (S (S (S (S
    (S (S (S (S (S (S (S (S (S (S (S (S (S (S (S (S (S (S (S (S (S (S (S (S
    (S (S (S (S O))))))))))))))))))))))))))))))))))))))))))), (Cat ((Cat
    ((Chr (false, (((Npos (XO (XO (XO (XO (XO XH)))))), (Npos (XO (XO (XO (XO
    (XO XH))))))) :: []))), (Star (Chr (false, (((Npos (XO (XO (XO (XO (XO
    XH)))))), (Npos (XO (XO (XO (XO (XO XH))))))) :: [])))))), (Group ((S (S
    (S (S (S (S (S (S (S (S (S (S (S (S (S (S (S (S (S (S (S (S (S (S (S (S
    (S (S (S (S (S (S (S (S (S (S (S (S (S (S (S (S (S (S
    O)))))))))))))))))))))))))))))))))))))))))))), (Alt ((Cat ((Chr (false,
    (((Npos (XI (XO (XO (XO (XO (XO XH))))))), (Npos (XI (XO (XO (XO (XO (XO
    XH)))))))) :: []))), (Cat ((Chr (false, (((Npos (XO (XI (XO (XO (XO (XO
    XH))))))), (Npos (XO (XI (XO (XO (XO (XO XH)))))))) :: []))), (Cat ((Chr
    (false, (((Npos (XI (XI (XO (XO (XI (XO XH))))))), (Npos (XI (XI (XO (XO
    (XI (XO XH)))))))) :: []))), (Cat ((Chr (false, (((Npos (XO (XO (XI (XO
    (XI (XO XH))))))), (Npos (XO (XO (XI (XO (XI (XO XH)))))))) :: []))),
    (Cat ((Chr (false, (((Npos (XO (XI (XO (XO (XI (XO XH))))))), (Npos (XO
    (XI (XO (XO (XI (XO XH)))))))) :: []))), (Cat ((Chr (false, (((Npos (XI
    (XO (XO (XO (XO (XO XH))))))), (Npos (XI (XO (XO (XO (XO (XO
    XH)))))))) :: []))), (Cat ((Chr (false, (((Npos (XI (XI (XO (XO (XO (XO
    XH))))))), (Npos (XI (XI (XO (XO (XO (XO XH)))))))) :: []))), (Chr
    (false, (((Npos (XO (XO (XI (XO (XI (XO XH))))))), (Npos (XO (XO (XI (XO
    (XI (XO XH)))))))) :: []))))))))))))))))), (Alt ((Cat ((Chr (false,
    (((Npos (XI (XI (XO (XO (XI (XO XH))))))), (Npos (XI (XI (XO (XO (XI (XO
    XH)))))))) :: []))), (Cat ((Chr (false, (((Npos (XO (XO (XI (XO (XI (XO
    XH))))))), (Npos (XO (XO (XI (XO (XI (XO XH)))))))) :: []))), (Cat ((Chr
    (false, (((Npos (XO (XI (XO (XO (XI (XO XH))))))), (Npos (XO (XI (XO (XO
    (XI (XO XH)))))))) :: []))), (Cat ((Chr (false, (((Npos (XI (XO (XI (XO
    (XI (XO XH))))))), (Npos (XI (XO (XI (XO (XI (XO XH)))))))) :: []))),
    (Cat ((Chr (false, (((Npos (XI (XI (XO (XO (XO (XO XH))))))), (Npos (XI
    (XI (XO (XO (XO (XO XH)))))))) :: []))), (Cat ((Chr (false, (((Npos (XO
    (XO (XI (XO (XI (XO XH))))))), (Npos (XO (XO (XI (XO (XI (XO
    XH)))))))) :: []))), (Cat ((Chr (false, (((Npos (XI (XO (XI (XO (XI (XO
    XH))))))), (Npos (XI (XO (XI (XO (XI (XO XH)))))))) :: []))), (Cat ((Chr
    (false, (((Npos (XO (XI (XO (XO (XI (XO XH))))))), (Npos (XO (XI (XO (XO
    (XI (XO XH)))))))) :: []))), (Cat ((Chr (false, (((Npos (XI (XO (XO (XO
    (XO (XO XH))))))), (Npos (XI (XO (XO (XO (XO (XO XH)))))))) :: []))),
    (Chr (false, (((Npos (XO (XO (XI (XI (XO (XO XH))))))), (Npos (XO (XO (XI
    (XI (XO (XO XH)))))))) :: []))))))))))))))))))))), (Cat ((Chr (false,
    (((Npos (XI (XO (XO (XO (XO (XO XH))))))), (Npos (XI (XO (XO (XO (XO (XO
    XH)))))))) :: []))), (Cat ((Chr (false, (((Npos (XI (XO (XI (XO (XI (XO
    XH))))))), (Npos (XI (XO (XI (XO (XI (XO XH)))))))) :: []))), (Cat ((Chr
    (false, (((Npos (XO (XO (XO (XI (XI (XO XH))))))), (Npos (XO (XO (XO (XI
    (XI (XO XH)))))))) :: []))), (Cat ((Chr (false, (((Npos (XI (XO (XO (XI
    (XO (XO XH))))))), (Npos (XI (XO (XO (XI (XO (XO XH)))))))) :: []))),
    (Cat ((Chr (false, (((Npos (XO (XO (XI (XI (XO (XO XH))))))), (Npos (XO
    (XO (XI (XI (XO (XO XH)))))))) :: []))), (Cat ((Chr (false, (((Npos (XI
    (XO (XO (XI (XO (XO XH))))))), (Npos (XI (XO (XO (XI (XO (XO
    XH)))))))) :: []))), (Cat ((Chr (false, (((Npos (XI (XO (XO (XO (XO (XO
    XH))))))), (Npos (XI (XO (XO (XO (XO (XO XH)))))))) :: []))), (Cat ((Chr
    (false, (((Npos (XO (XI (XO (XO (XI (XO XH))))))), (Npos (XO (XI (XO (XO
    (XI (XO XH)))))))) :: []))), (Chr (false, (((Npos (XI (XO (XO (XI (XI (XO
    XH))))))), (Npos (XI (XO (XO (XI (XI (XO
    XH)))))))) :: []))))))))))))))))))))))))))))), Eps)), (Cat ((Alt ((Group
    ((S (S (S (S (S (S (S (S (S (S (S (S (S (S (S (S (S (S (S (S (S (S (S (S
    (S (S (S (S (S (S (S (S (S (S (S (S (S (S (S (S (S (S (S (S (S
    O))))))))))))))))))))))))))))))))))))))))))))), (Cat ((Cat ((Chr (false,
    (((Npos (XO (XO (XO (XO (XO XH)))))), (Npos (XO (XO (XO (XO (XO
    XH))))))) :: []))), (Star (Chr (false, (((Npos (XO (XO (XO (XO (XO
    XH)))))), (Npos (XO (XO (XO (XO (XO XH))))))) :: [])))))), (Cat ((Chr
    (false, (((Npos (XI (XO (XI (XI (XO (XO XH))))))), (Npos (XI (XO (XI (XI
    (XO (XO XH)))))))) :: []))), (Cat ((Chr (false, (((Npos (XI (XO (XI (XO
    (XI (XO XH))))))), (Npos (XI (XO (XI (XO (XI (XO XH)))))))) :: []))),
    (Cat ((Chr (false, (((Npos (XI (XI (XO (XO (XI (XO XH))))))), (Npos (XI
    (XI (XO (XO (XI (XO XH)))))))) :: []))), (Cat ((Chr (false, (((Npos (XO
    (XO (XI (XO (XI (XO XH))))))), (Npos (XO (XO (XI (XO (XI (XO
    XH)))))))) :: []))), (Cat ((Cat ((Chr (false, (((Npos (XO (XO (XO (XO (XO
    XH)))))), (Npos (XO (XO (XO (XO (XO XH))))))) :: []))), (Star (Chr
    (false, (((Npos (XO (XO (XO (XO (XO XH)))))), (Npos (XO (XO (XO (XO (XO
    XH))))))) :: [])))))), (Group ((S (S (S (S (S (S (S (S (S (S (S (S (S (S
    (S (S (S (S (S (S (S (S (S (S (S (S (S (S (S (S (S (S (S (S (S (S (S (S
    (S (S (S (S (S (S (S (S O)))))))))))))))))))))))))))))))))))))))))))))),
    (Group ((S (S (S (S (S (S (S (S (S (S (S (S (S (S (S (S (S (S (S (S (S (S
    (S (S (S (S (S (S (S (S (S (S (S (S (S (S (S (S (S (S (S (S (S (S (S (S
    (S O))))))))))))))))))))))))))))))))))))))))))))))), (Alt ((Group ((S (S
    (S (S (S (S (S (S (S (S (S (S (S (S (S (S (S (S (S (S (S (S (S (S (S (S
    (S (S (S (S (S (S (S (S (S (S (S (S (S (S (S (S (S (S (S (S (S (S
    O)))))))))))))))))))))))))))))))))))))))))))))))), (Alt ((Cat ((Chr
    (false, (((Npos (XI (XO (XO (XO (XO (XI XH))))))), (Npos (XO (XI (XO (XI
    (XI (XI XH)))))))) :: (((Npos (XI (XO (XO (XO (XO (XO XH))))))), (Npos
    (XO (XI (XO (XI (XI (XO XH)))))))) :: [])))), (Star (Group ((S (S (S (S
    (S (S (S (S (S (S (S (S (S (S (S (S (S (S (S (S (S (S (S (S (S (S (S (S
    (S (S (S (S (S (S (S (S (S (S (S (S (S (S (S (S (S (S (S (S (S
    O))))))))))))))))))))))))))))))))))))))))))))))))), (Group ((S (S (S (S
    (S (S (S (S (S (S (S (S (S (S (S (S (S (S (S (S (S (S (S (S (S (S (S (S
    (S (S (S (S (S (S (S (S (S (S (S (S (S (S (S (S (S (S (S (S (S (S
    O)))))))))))))))))))))))))))))))))))))))))))))))))), (Chr (false, (((Npos
    (XI (XO (XO (XO (XO (XI XH))))))), (Npos (XO (XI (XO (XI (XI (XI
    XH)))))))) :: (((Npos (XI (XO (XO (XO (XO (XO XH))))))), (Npos (XO (XI
    (XO (XI (XI (XO XH)))))))) :: (((Npos (XO (XO (XO (XO (XI XH)))))), (Npos
    (XI (XO (XO (XI (XI XH))))))) :: (((Npos (XI (XO (XI (XI (XO XH)))))),
    (Npos (XI (XO (XI (XI (XO XH))))))) :: []))))))))))))), (Cat ((Group ((S
    (S (S (S (S (S (S (S (S (S (S (S (S (S (S (S (S (S (S (S (S (S (S (S (S
    (S (S (S (S (S (S (S (S (S (S (S (S (S (S (S (S (S (S (S (S (S (S (S (S
    (S (S O))))))))))))))))))))))))))))))))))))))))))))))))))), (Alt ((Chr
    (false, (((Npos (XO (XO (XO (XO (XI XH)))))), (Npos (XI (XO (XO (XI (XI
    XH))))))) :: []))), (Cat ((Chr (false, (((Npos (XI (XO (XO (XO (XI
    XH)))))), (Npos (XI (XO (XO (XI (XI XH))))))) :: []))), (Cat ((Chr
    (false, (((Npos (XO (XO (XO (XO (XI XH)))))), (Npos (XI (XO (XO (XI (XI
    XH))))))) :: []))), (Star (Chr (false, (((Npos (XO (XO (XO (XO (XI
    XH)))))), (Npos (XI (XO (XO (XI (XI XH))))))) :: [])))))))))))), (Cat
    ((Group ((S (S (S (S (S (S (S (S (S (S (S (S (S (S (S (S (S (S (S (S (S
    (S (S (S (S (S (S (S (S (S (S (S (S (S (S (S (S (S (S (S (S (S (S (S (S
    (S (S (S (S (S (S (S
    O)))))))))))))))))))))))))))))))))))))))))))))))))))), (Cat ((Chr (false,
    (((Npos (XO (XI (XI (XI (XO XH)))))), (Npos (XO (XI (XI (XI (XO
    XH))))))) :: []))), (Group ((S (S (S (S (S (S (S (S (S (S (S (S (S (S (S
    (S (S (S (S (S (S (S (S (S (S (S (S (S (S (S (S (S (S (S (S (S (S (S (S
    (S (S (S (S (S (S (S (S (S (S (S (S (S (S
    O))))))))))))))))))))))))))))))))))))))))))))))))))))), (Alt ((Chr
    (false, (((Npos (XO (XO (XO (XO (XI XH)))))), (Npos (XI (XO (XO (XI (XI
    XH))))))) :: []))), (Cat ((Chr (false, (((Npos (XI (XO (XO (XO (XI
    XH)))))), (Npos (XI (XO (XO (XI (XI XH))))))) :: []))), (Cat ((Chr
    (false, (((Npos (XO (XO (XO (XO (XI XH)))))), (Npos (XI (XO (XO (XI (XI
    XH))))))) :: []))), (Star (Chr (false, (((Npos (XO (XO (XO (XO (XI
    XH)))))), (Npos (XI (XO (XO (XI (XI XH))))))) :: [])))))))))))))))),
    (Star (Group ((S (S (S (S (S (S (S (S (S (S (S (S (S (S (S (S (S (S (S (S
    (S (S (S (S (S (S (S (S (S (S (S (S (S (S (S (S (S (S (S (S (S (S (S (S
    (S (S (S (S (S (S (S (S
    O)))))))))))))))))))))))))))))))))))))))))))))))))))), (Cat ((Chr (false,
    (((Npos (XO (XI (XI (XI (XO XH)))))), (Npos (XO (XI (XI (XI (XO
    XH))))))) :: []))), (Group ((S (S (S (S (S (S (S (S (S (S (S (S (S (S (S
    (S (S (S (S (S (S (S (S (S (S (S (S (S (S (S (S (S (S (S (S (S (S (S (S
    (S (S (S (S (S (S (S (S (S (S (S (S (S (S
    O))))))))))))))))))))))))))))))))))))))))))))))))))))), (Alt ((Chr
    (false, (((Npos (XO (XO (XO (XO (XI XH)))))), (Npos (XI (XO (XO (XI (XI
    XH))))))) :: []))), (Cat ((Chr (false, (((Npos (XI (XO (XO (XO (XI
    XH)))))), (Npos (XI (XO (XO (XI (XI XH))))))) :: []))), (Cat ((Chr
    (false, (((Npos (XO (XO (XO (XO (XI XH)))))), (Npos (XI (XO (XO (XI (XI
    XH))))))) :: []))), (Star (Chr (false, (((Npos (XO (XO (XO (XO (XI
    XH)))))), (Npos (XI (XO (XO (XI (XI
    XH))))))) :: []))))))))))))))))))))))))), (Cat ((Chr (false, (((Npos (XO
    (XO (XO (XI (XO XH)))))), (Npos (XO (XO (XO (XI (XO XH))))))) :: []))),
    (Cat ((Star (Chr (false, (((Npos (XO (XO (XO (XO (XO XH)))))), (Npos (XO
    (XO (XO (XO (XO XH))))))) :: [])))), (Cat ((Group ((S (S (S (S (S (S (S
    (S (S (S (S (S (S (S (S (S (S (S (S (S (S (S (S (S (S (S (S (S (S (S (S
    (S (S (S (S (S (S (S (S (S (S (S (S (S (S (S (S (S (S (S (S (S (S (S
    O)))))))))))))))))))))))))))))))))))))))))))))))))))))), (Cat ((Group ((S
    (S (S (S (S (S (S (S (S (S (S (S (S (S (S (S (S (S (S (S (S (S (S (S (S
    (S (S (S (S (S (S (S (S (S (S (S (S (S (S (S (S (S (S (S (S (S (S (S (S
    (S (S (S (S (S (S
    O))))))))))))))))))))))))))))))))))))))))))))))))))))))), (Alt ((Cat
    ((Chr (false, (((Npos (XI (XO (XO (XO (XO (XI XH))))))), (Npos (XO (XI
    (XO (XI (XI (XI XH)))))))) :: (((Npos (XI (XO (XO (XO (XO (XO XH))))))),
    (Npos (XO (XI (XO (XI (XI (XO XH)))))))) :: [])))), (Star (Group ((S (S
    (S (S (S (S (S (S (S (S (S (S (S (S (S (S (S (S (S (S (S (S (S (S (S (S
    (S (S (S (S (S (S (S (S (S (S (S (S (S (S (S (S (S (S (S (S (S (S (S (S
    (S (S (S (S (S (S
    O)))))))))))))))))))))))))))))))))))))))))))))))))))))))), (Group ((S (S
    (S (S (S (S (S (S (S (S (S (S (S (S (S (S (S (S (S (S (S (S (S (S (S (S
    (S (S (S (S (S (S (S (S (S (S (S (S (S (S (S (S (S (S (S (S (S (S (S (S
    (S (S (S (S (S (S (S
    O))))))))))))))))))))))))))))))))))))))))))))))))))))))))), (Chr (false,
    (((Npos (XI (XO (XO (XO (XO (XI XH))))))), (Npos (XO (XI (XO (XI (XI (XI
    XH)))))))) :: (((Npos (XI (XO (XO (XO (XO (XO XH))))))), (Npos (XO (XI
    (XO (XI (XI (XO XH)))))))) :: (((Npos (XO (XO (XO (XO (XI XH)))))), (Npos
    (XI (XO (XO (XI (XI XH))))))) :: (((Npos (XI (XO (XI (XI (XO XH)))))),
    (Npos (XI (XO (XI (XI (XO XH))))))) :: []))))))))))))), (Cat ((Group ((S
    (S (S (S (S (S (S (S (S (S (S (S (S (S (S (S (S (S (S (S (S (S (S (S (S
    (S (S (S (S (S (S (S (S (S (S (S (S (S (S (S (S (S (S (S (S (S (S (S (S
    (S (S (S (S (S (S (S (S (S
    O)))))))))))))))))))))))))))))))))))))))))))))))))))))))))), (Alt ((Chr
    (false, (((Npos (XO (XO (XO (XO (XI XH)))))), (Npos (XI (XO (XO (XI (XI
    XH))))))) :: []))), (Cat ((Chr (false, (((Npos (XI (XO (XO (XO (XI
    XH)))))), (Npos (XI (XO (XO (XI (XI XH))))))) :: []))), (Cat ((Chr
    (false, (((Npos (XO (XO (XO (XO (XI XH)))))), (Npos (XI (XO (XO (XI (XI
    XH))))))) :: []))), (Star (Chr (false, (((Npos (XO (XO (XO (XO (XI
    XH)))))), (Npos (XI (XO (XO (XI (XI XH))))))) :: [])))))))))))), (Cat
    ((Group ((S (S (S (S (S (S (S (S (S (S (S (S (S (S (S (S (S (S (S (S (S
    (S (S (S (S (S (S (S (S (S (S (S (S (S (S (S (S (S (S (S (S (S (S (S (S
    (S (S (S (S (S (S (S (S (S (S (S (S (S (S
    O))))))))))))))))))))))))))))))))))))))))))))))))))))))))))), (Cat ((Chr
    (false, (((Npos (XO (XI (XI (XI (XO XH)))))), (Npos (XO (XI (XI (XI (XO
    XH))))))) :: []))), (Group ((S (S (S (S (S (S (S (S (S (S (S (S (S (S (S
    (S (S (S (S (S (S (S (S (S (S (S (S (S (S (S (S (S (S (S (S (S (S (S (S
    (S (S (S (S (S (S (S (S (S (S (S (S (S (S (S (S (S (S (S (S (S
    O)))))))))))))))))))))))))))))))))))))))))))))))))))))))))))), (Alt ((Chr
    (false, (((Npos (XO (XO (XO (XO (XI XH)))))), (Npos (XI (XO (XO (XI (XI
    XH))))))) :: []))), (Cat ((Chr (false, (((Npos (XI (XO (XO (XO (XI
    XH)))))), (Npos (XI (XO (XO (XI (XI XH))))))) :: []))), (Cat ((Chr
    (false, (((Npos (XO (XO (XO (XO (XI XH)))))), (Npos (XI (XO (XO (XI (XI
    XH))))))) :: []))), (Star (Chr (false, (((Npos (XO (XO (XO (XO (XI
    XH)))))), (Npos (XI (XO (XO (XI (XI XH))))))) :: [])))))))))))))))),
    (Star (Group ((S (S (S (S (S (S (S (S (S (S (S (S (S (S (S (S (S (S (S (S
    (S (S (S (S (S (S (S (S (S (S (S (S (S (S (S (S (S (S (S (S (S (S (S (S
    (S (S (S (S (S (S (S (S (S (S (S (S (S (S (S
    O))))))))))))))))))))))))))))))))))))))))))))))))))))))))))), (Cat ((Chr
    (false, (((Npos (XO (XI (XI (XI (XO XH)))))), (Npos (XO (XI (XI (XI (XO
    XH))))))) :: []))), (Group ((S (S (S (S (S (S (S (S (S (S (S (S (S (S (S
    (S (S (S (S (S (S (S (S (S (S (S (S (S (S (S (S (S (S (S (S (S (S (S (S
    (S (S (S (S (S (S (S (S (S (S (S (S (S (S (S (S (S (S (S (S (S
    O)))))))))))))))))))))))))))))))))))))))))))))))))))))))))))), (Alt ((Chr
    (false, (((Npos (XO (XO (XO (XO (XI XH)))))), (Npos (XI (XO (XO (XI (XI
    XH))))))) :: []))), (Cat ((Chr (false, (((Npos (XI (XO (XO (XO (XI
    XH)))))), (Npos (XI (XO (XO (XI (XI XH))))))) :: []))), (Cat ((Chr
    (false, (((Npos (XO (XO (XO (XO (XI XH)))))), (Npos (XI (XO (XO (XI (XI
    XH))))))) :: []))), (Star (Chr (false, (((Npos (XO (XO (XO (XO (XI
    XH)))))), (Npos (XI (XO (XO (XI (XI
    XH))))))) :: []))))))))))))))))))))))))), (Star (Group ((S (S (S (S (S (S
    (S (S (S (S (S (S (S (S (S (S (S (S (S (S (S (S (S (S (S (S (S (S (S (S
    (S (S (S (S (S (S (S (S (S (S (S (S (S (S (S (S (S (S (S (S (S (S (S (S
    (S (S (S (S (S (S (S
    O))))))))))))))))))))))))))))))))))))))))))))))))))))))))))))), (Cat
    ((Star (Chr (false, (((Npos (XO (XO (XO (XO (XO XH)))))), (Npos (XO (XO
    (XO (XO (XO XH))))))) :: [])))), (Cat ((Chr (false, (((Npos (XO (XO (XI
    (XO (XO XH)))))), (Npos (XO (XO (XI (XO (XO XH))))))) :: []))), (Cat
    ((Star (Chr (false, (((Npos (XO (XO (XO (XO (XO XH)))))), (Npos (XO (XO
    (XO (XO (XO XH))))))) :: [])))), (Group ((S (S (S (S (S (S (S (S (S (S (S
    (S (S (S (S (S (S (S (S (S (S (S (S (S (S (S (S (S (S (S (S (S (S (S (S
    (S (S (S (S (S (S (S (S (S (S (S (S (S (S (S (S (S (S (S (S (S (S (S (S
    (S (S (S O)))))))))))))))))))))))))))))))))))))))))))))))))))))))))))))),
    (Alt ((Cat ((Chr (false, (((Npos (XI (XO (XO (XO (XO (XI XH))))))), (Npos
    (XO (XI (XO (XI (XI (XI XH)))))))) :: (((Npos (XI (XO (XO (XO (XO (XO
    XH))))))), (Npos (XO (XI (XO (XI (XI (XO XH)))))))) :: [])))), (Star
    (Group ((S (S (S (S (S (S (S (S (S (S (S (S (S (S (S (S (S (S (S (S (S (S
    (S (S (S (S (S (S (S (S (S (S (S (S (S (S (S (S (S (S (S (S (S (S (S (S
    (S (S (S (S (S (S (S (S (S (S (S (S (S (S (S (S (S
    O))))))))))))))))))))))))))))))))))))))))))))))))))))))))))))))), (Group
    ((S (S (S (S (S (S (S (S (S (S (S (S (S (S (S (S (S (S (S (S (S (S (S (S
    (S (S (S (S (S (S (S (S (S (S (S (S (S (S (S (S (S (S (S (S (S (S (S (S
    (S (S (S (S (S (S (S (S (S (S (S (S (S (S (S (S
    O)))))))))))))))))))))))))))))))))))))))))))))))))))))))))))))))), (Chr
    (false, (((Npos (XI (XO (XO (XO (XO (XI XH))))))), (Npos (XO (XI (XO (XI
    (XI (XI XH)))))))) :: (((Npos (XI (XO (XO (XO (XO (XO XH))))))), (Npos
    (XO (XI (XO (XI (XI (XO XH)))))))) :: (((Npos (XO (XO (XO (XO (XI
    XH)))))), (Npos (XI (XO (XO (XI (XI XH))))))) :: (((Npos (XI (XO (XI (XI
    (XO XH)))))), (Npos (XI (XO (XI (XI (XO XH))))))) :: []))))))))))))),
    (Cat ((Group ((S (S (S (S (S (S (S (S (S (S (S (S (S (S (S (S (S (S (S (S
    (S (S (S (S (S (S (S (S (S (S (S (S (S (S (S (S (S (S (S (S (S (S (S (S
    (S (S (S (S (S (S (S (S (S (S (S (S (S (S (S (S (S (S (S (S (S
    O))))))))))))))))))))))))))))))))))))))))))))))))))))))))))))))))), (Alt
    ((Chr (false, (((Npos (XO (XO (XO (XO (XI XH)))))), (Npos (XI (XO (XO (XI
    (XI XH))))))) :: []))), (Cat ((Chr (false, (((Npos (XI (XO (XO (XO (XI
    XH)))))), (Npos (XI (XO (XO (XI (XI XH))))))) :: []))), (Cat ((Chr
    (false, (((Npos (XO (XO (XO (XO (XI XH)))))), (Npos (XI (XO (XO (XI (XI
    XH))))))) :: []))), (Star (Chr (false, (((Npos (XO (XO (XO (XO (XI
    XH)))))), (Npos (XI (XO (XO (XI (XI XH))))))) :: [])))))))))))), (Cat
    ((Group ((S (S (S (S (S (S (S (S (S (S (S (S (S (S (S (S (S (S (S (S (S
    (S (S (S (S (S (S (S (S (S (S (S (S (S (S (S (S (S (S (S (S (S (S (S (S
    (S (S (S (S (S (S (S (S (S (S (S (S (S (S (S (S (S (S (S (S (S
    O)))))))))))))))))))))))))))))))))))))))))))))))))))))))))))))))))), (Cat
    ((Chr (false, (((Npos (XO (XI (XI (XI (XO XH)))))), (Npos (XO (XI (XI (XI
    (XO XH))))))) :: []))), (Group ((S (S (S (S (S (S (S (S (S (S (S (S (S (S
    (S (S (S (S (S (S (S (S (S (S (S (S (S (S (S (S (S (S (S (S (S (S (S (S
    (S (S (S (S (S (S (S (S (S (S (S (S (S (S (S (S (S (S (S (S (S (S (S (S
    (S (S (S (S (S
    O))))))))))))))))))))))))))))))))))))))))))))))))))))))))))))))))))),
    (Alt ((Chr (false, (((Npos (XO (XO (XO (XO (XI XH)))))), (Npos (XI (XO
    (XO (XI (XI XH))))))) :: []))), (Cat ((Chr (false, (((Npos (XI (XO (XO
    (XO (XI XH)))))), (Npos (XI (XO (XO (XI (XI XH))))))) :: []))), (Cat
    ((Chr (false, (((Npos (XO (XO (XO (XO (XI XH)))))), (Npos (XI (XO (XO (XI
    (XI XH))))))) :: []))), (Star (Chr (false, (((Npos (XO (XO (XO (XO (XI
    XH)))))), (Npos (XI (XO (XO (XI (XI XH))))))) :: [])))))))))))))))),
    (Star (Group ((S (S (S (S (S (S (S (S (S (S (S (S (S (S (S (S (S (S (S (S
    (S (S (S (S (S (S (S (S (S (S (S (S (S (S (S (S (S (S (S (S (S (S (S (S
    (S (S (S (S (S (S (S (S (S (S (S (S (S (S (S (S (S (S (S (S (S (S
    O)))))))))))))))))))))))))))))))))))))))))))))))))))))))))))))))))), (Cat
    ((Chr (false, (((Npos (XO (XI (XI (XI (XO XH)))))), (Npos (XO (XI (XI (XI
    (XO XH))))))) :: []))), (Group ((S (S (S (S (S (S (S (S (S (S (S (S (S (S
    (S (S (S (S (S (S (S (S (S (S (S (S (S (S (S (S (S (S (S (S (S (S (S (S
    (S (S (S (S (S (S (S (S (S (S (S (S (S (S (S (S (S (S (S (S (S (S (S (S
    (S (S (S (S (S
    O))))))))))))))))))))))))))))))))))))))))))))))))))))))))))))))))))),
    (Alt ((Chr (false, (((Npos (XO (XO (XO (XO (XI XH)))))), (Npos (XI (XO
    (XO (XI (XI XH))))))) :: []))), (Cat ((Chr (false, (((Npos (XI (XO (XO
    (XO (XI XH)))))), (Npos (XI (XO (XO (XI (XI XH))))))) :: []))), (Cat
    ((Chr (false, (((Npos (XO (XO (XO (XO (XI XH)))))), (Npos (XI (XO (XO (XI
    (XI XH))))))) :: []))), (Star (Chr (false, (((Npos (XO (XO (XO (XO (XI
    XH)))))), (Npos (XI (XO (XO (XI (XI
    XH))))))) :: [])))))))))))))))))))))))))))))))))))))), (Cat ((Star (Chr
    (false, (((Npos (XO (XO (XO (XO (XO XH)))))), (Npos (XO (XO (XO (XO (XO
    XH))))))) :: [])))), (Chr (false, (((Npos (XI (XO (XO (XI (XO XH)))))),
    (Npos (XI (XO (XO (XI (XO XH))))))) :: []))))))))))))))))))))))))))))))),
    Eps)), (Cat ((Alt ((Group ((S (S (S (S (S (S (S (S (S (S (S (S (S (S (S
    (S (S (S (S (S (S (S (S (S (S (S (S (S (S (S (S (S (S (S (S (S (S (S (S
    (S (S (S (S (S (S (S (S (S (S (S (S (S (S (S (S (S (S (S (S (S (S (S (S
    (S (S (S (S (S
    O)))))))))))))))))))))))))))))))))))))))))))))))))))))))))))))))))))),
    (Cat ((Cat ((Chr (false, (((Npos (XO (XO (XO (XO (XO XH)))))), (Npos (XO
    (XO (XO (XO (XO XH))))))) :: []))), (Star (Chr (false, (((Npos (XO (XO
    (XO (XO (XO XH)))))), (Npos (XO (XO (XO (XO (XO XH))))))) :: [])))))),
    (Cat ((Chr (false, (((Npos (XI (XO (XI (XI (XO (XO XH))))))), (Npos (XI
    (XO (XI (XI (XO (XO XH)))))))) :: []))), (Cat ((Chr (false, (((Npos (XI
    (XO (XO (XO (XO (XO XH))))))), (Npos (XI (XO (XO (XO (XO (XO
    XH)))))))) :: []))), (Cat ((Chr (false, (((Npos (XI (XO (XO (XI (XI (XO
    XH))))))), (Npos (XI (XO (XO (XI (XI (XO XH)))))))) :: []))), (Cat ((Cat
    ((Chr (false, (((Npos (XO (XO (XO (XO (XO XH)))))), (Npos (XO (XO (XO (XO
    (XO XH))))))) :: []))), (Star (Chr (false, (((Npos (XO (XO (XO (XO (XO
    XH)))))), (Npos (XO (XO (XO (XO (XO XH))))))) :: [])))))), (Group ((S (S
    (S (S (S (S (S (S (S (S (S (S (S (S (S (S (S (S (S (S (S (S (S (S (S (S
    (S (S (S (S (S (S (S (S (S (S (S (S (S (S (S (S (S (S (S (S (S (S (S (S
    (S (S (S (S (S (S (S (S (S (S (S (S (S (S (S (S (S (S (S
    O))))))))))))))))))))))))))))))))))))))))))))))))))))))))))))))))))))),
    (Group ((S (S (S (S (S (S (S (S (S (S (S (S (S (S (S (S (S (S (S (S (S (S
    (S (S (S (S (S (S (S (S (S (S (S (S (S (S (S (S (S (S (S (S (S (S (S (S
    (S (S (S (S (S (S (S (S (S (S (S (S (S (S (S (S (S (S (S (S (S (S (S (S
    O)))))))))))))))))))))))))))))))))))))))))))))))))))))))))))))))))))))),
    (Alt ((Group ((S (S (S (S (S (S (S (S (S (S (S (S (S (S (S (S (S (S (S (S
    (S (S (S (S (S (S (S (S (S (S (S (S (S (S (S (S (S (S (S (S (S (S (S (S
    (S (S (S (S (S (S (S (S (S (S (S (S (S (S (S (S (S (S (S (S (S (S (S (S
    (S (S (S
    O))))))))))))))))))))))))))))))))))))))))))))))))))))))))))))))))))))))),
    (Alt ((Cat ((Chr (false, (((Npos (XI (XO (XO (XO (XO (XI XH))))))), (Npos
    (XO (XI (XO (XI (XI (XI XH)))))))) :: (((Npos (XI (XO (XO (XO (XO (XO
    XH))))))), (Npos (XO (XI (XO (XI (XI (XO XH)))))))) :: [])))), (Star
    (Group ((S (S (S (S (S (S (S (S (S (S (S (S (S (S (S (S (S (S (S (S (S (S
    (S (S (S (S (S (S (S (S (S (S (S (S (S (S (S (S (S (S (S (S (S (S (S (S
    (S (S (S (S (S (S (S (S (S (S (S (S (S (S (S (S (S (S (S (S (S (S (S (S
    (S (S
    O)))))))))))))))))))))))))))))))))))))))))))))))))))))))))))))))))))))))),
    (Group ((S (S (S (S (S (S (S (S (S (S (S (S (S (S (S (S (S (S (S (S (S (S
    (S (S (S (S (S (S (S (S (S (S (S (S (S (S (S (S (S (S (S (S (S (S (S (S
    (S (S (S (S (S (S (S (S (S (S (S (S (S (S (S (S (S (S (S (S (S (S (S (S
    (S (S (S
    O))))))))))))))))))))))))))))))))))))))))))))))))))))))))))))))))))))))))),
    (Chr (false, (((Npos (XI (XO (XO (XO (XO (XI XH))))))), (Npos (XO (XI (XO
    (XI (XI (XI XH)))))))) :: (((Npos (XI (XO (XO (XO (XO (XO XH))))))),
    (Npos (XO (XI (XO (XI (XI (XO XH)))))))) :: (((Npos (XO (XO (XO (XO (XI
    XH)))))), (Npos (XI (XO (XO (XI (XI XH))))))) :: (((Npos (XI (XO (XI (XI
    (XO XH)))))), (Npos (XI (XO (XI (XI (XO XH))))))) :: []))))))))))))),
    (Cat ((Group ((S (S (S (S (S (S (S (S (S (S (S (S (S (S (S (S (S (S (S (S
    (S (S (S (S (S (S (S (S (S (S (S (S (S (S (S (S (S (S (S (S (S (S (S (S
    (S (S (S (S (S (S (S (S (S (S (S (S (S (S (S (S (S (S (S (S (S (S (S (S
    (S (S (S (S (S (S
    O)))))))))))))))))))))))))))))))))))))))))))))))))))))))))))))))))))))))))),
    (Alt ((Chr (false, (((Npos (XO (XO (XO (XO (XI XH)))))), (Npos (XI (XO
    (XO (XI (XI XH))))))) :: []))), (Cat ((Chr (false, (((Npos (XI (XO (XO
    (XO (XI XH)))))), (Npos (XI (XO (XO (XI (XI XH))))))) :: []))), (Cat
    ((Chr (false, (((Npos (XO (XO (XO (XO (XI XH)))))), (Npos (XI (XO (XO (XI
    (XI XH))))))) :: []))), (Star (Chr (false, (((Npos (XO (XO (XO (XO (XI
    XH)))))), (Npos (XI (XO (XO (XI (XI XH))))))) :: [])))))))))))), (Cat
    ((Group ((S (S (S (S (S (S (S (S (S (S (S (S (S (S (S (S (S (S (S (S (S
    (S (S (S (S (S (S (S (S (S (S (S (S (S (S (S (S (S (S (S (S (S (S (S (S
    (S (S (S (S (S (S (S (S (S (S (S (S (S (S (S (S (S (S (S (S (S (S (S (S
    (S (S (S (S (S (S
    O))))))))))))))))))))))))))))))))))))))))))))))))))))))))))))))))))))))))))),
    (Cat ((Chr (false, (((Npos (XO (XI (XI (XI (XO XH)))))), (Npos (XO (XI
    (XI (XI (XO XH))))))) :: []))), (Group ((S (S (S (S (S (S (S (S (S (S (S
    (S (S (S (S (S (S (S (S (S (S (S (S (S (S (S (S (S (S (S (S (S (S (S (S
    (S (S (S (S (S (S (S (S (S (S (S (S (S (S (S (S (S (S (S (S (S (S (S (S
    (S (S (S (S (S (S (S (S (S (S (S (S (S (S (S (S (S
    O)))))))))))))))))))))))))))))))))))))))))))))))))))))))))))))))))))))))))))),
    (Alt ((Chr (false, (((Npos (XO (XO (XO (XO (XI XH)))))), (Npos (XI (XO
    (XO (XI (XI XH))))))) :: []))), (Cat ((Chr (false, (((Npos (XI (XO (XO
    (XO (XI XH)))))), (Npos (XI (XO (XO (XI (XI XH))))))) :: []))), (Cat
    ((Chr (false, (((Npos (XO (XO (XO (XO (XI XH)))))), (Npos (XI (XO (XO (XI
    (XI XH))))))) :: []))), (Star (Chr (false, (((Npos (XO (XO (XO (XO (XI
    XH)))))), (Npos (XI (XO (XO (XI (XI XH))))))) :: [])))))))))))))))),
    (Star (Group ((S (S (S (S (S (S (S (S (S (S (S (S (S (S (S (S (S (S (S (S
    (S (S (S (S (S (S (S (S (S (S (S (S (S (S (S (S (S (S (S (S (S (S (S (S
    (S (S (S (S (S (S (S (S (S (S (S (S (S (S (S (S (S (S (S (S (S (S (S (S
    (S (S (S (S (S (S (S
    O))))))))))))))))))))))))))))))))))))))))))))))))))))))))))))))))))))))))))),
    (Cat ((Chr (false, (((Npos (XO (XI (XI (XI (XO XH)))))), (Npos (XO (XI
    (XI (XI (XO XH))))))) :: []))), (Group ((S (S (S (S (S (S (S (S (S (S (S
    (S (S (S (S (S (S (S (S (S (S (S (S (S (S (S (S (S (S (S (S (S (S (S (S
    (S (S (S (S (S (S (S (S (S (S (S (S (S (S (S (S (S (S (S (S (S (S (S (S
    (S (S (S (S (S (S (S (S (S (S (S (S (S (S (S (S (S
    O)))))))))))))))))))))))))))))))))))))))))))))))))))))))))))))))))))))))))))),
    (Alt ((Chr (false, (((Npos (XO (XO (XO (XO (XI XH)))))), (Npos (XI (XO
    (XO (XI (XI XH))))))) :: []))), (Cat ((Chr (false, (((Npos (XI (XO (XO
    (XO (XI XH)))))), (Npos (XI (XO (XO (XI (XI XH))))))) :: []))), (Cat
    ((Chr (false, (((Npos (XO (XO (XO (XO (XI XH)))))), (Npos (XI (XO (XO (XI
    (XI XH))))))) :: []))), (Star (Chr (false, (((Npos (XO (XO (XO (XO (XI
    XH)))))), (Npos (XI (XO (XO (XI (XI
    XH))))))) :: []))))))))))))))))))))))))), (Cat ((Chr (false, (((Npos (XO
    (XO (XO (XI (XO XH)))))), (Npos (XO (XO (XO (XI (XO XH))))))) :: []))),
    (Cat ((Star (Chr (false, (((Npos (XO (XO (XO (XO (XO XH)))))), (Npos (XO
    (XO (XO (XO (XO XH))))))) :: [])))), (Cat ((Group ((S (S (S (S (S (S (S
    (S (S (S (S (S (S (S (S (S (S (S (S (S (S (S (S (S (S (S (S (S (S (S (S
    (S (S (S (S (S (S (S (S (S (S (S (S (S (S (S (S (S (S (S (S (S (S (S (S
    (S (S (S (S (S (S (S (S (S (S (S (S (S (S (S (S (S (S (S (S (S (S
    O))))))))))))))))))))))))))))))))))))))))))))))))))))))))))))))))))))))))))))),
    (Cat ((Group ((S (S (S (S (S (S (S (S (S (S (S (S (S (S (S (S (S (S (S (S
    (S (S (S (S (S (S (S (S (S (S (S (S (S (S (S (S (S (S (S (S (S (S (S (S
    (S (S (S (S (S (S (S (S (S (S (S (S (S (S (S (S (S (S (S (S (S (S (S (S
    (S (S (S (S (S (S (S (S (S (S
    O)))))))))))))))))))))))))))))))))))))))))))))))))))))))))))))))))))))))))))))),
    (Alt ((Cat ((Chr (false, (((Npos (XI (XO (XO (XO (XO (XI XH))))))), (Npos
    (XO (XI (XO (XI (XI (XI XH)))))))) :: (((Npos (XI (XO (XO (XO (XO (XO
    XH))))))), (Npos (XO (XI (XO (XI (XI (XO XH)))))))) :: [])))), (Star
    (Group ((S (S (S (S (S (S (S (S (S (S (S (S (S (S (S (S (S (S (S (S (S (S
    (S (S (S (S (S (S (S (S (S (S (S (S (S (S (S (S (S (S (S (S (S (S (S (S
    (S (S (S (S (S (S (S (S (S (S (S (S (S (S (S (S (S (S (S (S (S (S (S (S
    (S (S (S (S (S (S (S (S (S
    O))))))))))))))))))))))))))))))))))))))))))))))))))))))))))))))))))))))))))))))),
    (Group ((S (S (S (S (S (S (S (S (S (S (S (S (S (S (S (S (S (S (S (S (S (S
    (S (S (S (S (S (S (S (S (S (S (S (S (S (S (S (S (S (S (S (S (S (S (S (S
    (S (S (S (S (S (S (S (S (S (S (S (S (S (S (S (S (S (S (S (S (S (S (S (S
    (S (S (S (S (S (S (S (S (S (S
    O)))))))))))))))))))))))))))))))))))))))))))))))))))))))))))))))))))))))))))))))),
    (Chr (false, (((Npos (XI (XO (XO (XO (XO (XI XH))))))), (Npos (XO (XI (XO
    (XI (XI (XI XH)))))))) :: (((Npos (XI (XO (XO (XO (XO (XO XH))))))),
    (Npos (XO (XI (XO (XI (XI (XO XH)))))))) :: (((Npos (XO (XO (XO (XO (XI
    XH)))))), (Npos (XI (XO (XO (XI (XI XH))))))) :: (((Npos (XI (XO (XI (XI
    (XO XH)))))), (Npos (XI (XO (XI (XI (XO XH))))))) :: []))))))))))))),
    (Cat ((Group ((S (S (S (S (S (S (S (S (S (S (S (S (S (S (S (S (S (S (S (S
    (S (S (S (S (S (S (S (S (S (S (S (S (S (S (S (S (S (S (S (S (S (S (S (S
    (S (S (S (S (S (S (S (S (S (S (S (S (S (S (S (S (S (S (S (S (S (S (S (S
    (S (S (S (S (S (S (S (S (S (S (S (S (S
    O))))))))))))))))))))))))))))))))))))))))))))))))))))))))))))))))))))))))))))))))),
    (Alt ((Chr (false, (((Npos (XO (XO (XO (XO (XI XH)))))), (Npos (XI (XO
    (XO (XI (XI XH))))))) :: []))), (Cat ((Chr (false, (((Npos (XI (XO (XO
    (XO (XI XH)))))), (Npos (XI (XO (XO (XI (XI XH))))))) :: []))), (Cat
    ((Chr (false, (((Npos (XO (XO (XO (XO (XI XH)))))), (Npos (XI (XO (XO (XI
    (XI XH))))))) :: []))), (Star (Chr (false, (((Npos (XO (XO (XO (XO (XI
    XH)))))), (Npos (XI (XO (XO (XI (XI XH))))))) :: [])))))))))))), (Cat
    ((Group ((S (S (S (S (S (S (S (S (S (S (S (S (S (S (S (S (S (S (S (S (S
    (S (S (S (S (S (S (S (S (S (S (S (S (S (S (S (S (S (S (S (S (S (S (S (S
    (S (S (S (S (S (S (S (S (S (S (S (S (S (S (S (S (S (S (S (S (S (S (S (S
    (S (S (S (S (S (S (S (S (S (S (S (S (S
    O)))))))))))))))))))))))))))))))))))))))))))))))))))))))))))))))))))))))))))))))))),
    (Cat ((Chr (false, (((Npos (XO (XI (XI (XI (XO XH)))))), (Npos (XO (XI
    (XI (XI (XO XH))))))) :: []))), (Group ((S (S (S (S (S (S (S (S (S (S (S
    (S (S (S (S (S (S (S (S (S (S (S (S (S (S (S (S (S (S (S (S (S (S (S (S
    (S (S (S (S (S (S (S (S (S (S (S (S (S (S (S (S (S (S (S (S (S (S (S (S
    (S (S (S (S (S (S (S (S (S (S (S (S (S (S (S (S (S (S (S (S (S (S (S (S
    O))))))))))))))))))))))))))))))))))))))))))))))))))))))))))))))))))))))))))))))))))),
    (Alt ((Chr (false, (((Npos (XO (XO (XO (XO (XI XH)))))), (Npos (XI (XO
    (XO (XI (XI XH))))))) :: []))), (Cat ((Chr (false, (((Npos (XI (XO (XO
    (XO (XI XH)))))), (Npos (XI (XO (XO (XI (XI XH))))))) :: []))), (Cat
    ((Chr (false, (((Npos (XO (XO (XO (XO (XI XH)))))), (Npos (XI (XO (XO (XI
    (XI XH))))))) :: []))), (Star (Chr (false, (((Npos (XO (XO (XO (XO (XI
    XH)))))), (Npos (XI (XO (XO (XI (XI XH))))))) :: [])))))))))))))))),
    (Star (Group ((S (S (S (S (S (S (S (S (S (S (S (S (S (S (S (S (S (S (S (S
    (S (S (S (S (S (S (S (S (S (S (S (S (S (S (S (S (S (S (S (S (S (S (S (S
    (S (S (S (S (S (S (S (S (S (S (S (S (S (S (S (S (S (S (S (S (S (S (S (S
    (S (S (S (S (S (S (S (S (S (S (S (S (S (S
    O)))))))))))))))))))))))))))))))))))))))))))))))))))))))))))))))))))))))))))))))))),
    (Cat ((Chr (false, (((Npos (XO (XI (XI (XI (XO XH)))))), (Npos (XO (XI
    (XI (XI (XO XH))))))) :: []))), (Group ((S (S (S (S (S (S (S (S (S (S (S
    (S (S (S (S (S (S (S (S (S (S (S (S (S (S (S (S (S (S (S (S (S (S (S (S
    (S (S (S (S (S (S (S (S (S (S (S (S (S (S (S (S (S (S (S (S (S (S (S (S
    (S (S (S (S (S (S (S (S (S (S (S (S (S (S (S (S (S (S (S (S (S (S (S (S
    O))))))))))))))))))))))))))))))))))))))))))))))))))))))))))))))))))))))))))))))))))),
    (Alt ((Chr (false, (((Npos (XO (XO (XO (XO (XI XH)))))), (Npos (XI (XO
    (XO (XI (XI XH))))))) :: []))), (Cat ((Chr (false, (((Npos (XI (XO (XO
    (XO (XI XH)))))), (Npos (XI (XO (XO (XI (XI XH))))))) :: []))), (Cat
    ((Chr (false, (((Npos (XO (XO (XO (XO (XI XH)))))), (Npos (XI (XO (XO (XI
    (XI XH))))))) :: []))), (Star (Chr (false, (((Npos (XO (XO (XO (XO (XI
    XH)))))), (Npos (XI (XO (XO (XI (XI
    XH))))))) :: []))))))))))))))))))))))))), (Star (Group ((S (S (S (S (S (S
    (S (S (S (S (S (S (S (S (S (S (S (S (S (S (S (S (S (S (S (S (S (S (S (S
    (S (S (S (S (S (S (S (S (S (S (S (S (S (S (S (S (S (S (S (S (S (S (S (S
    (S (S (S (S (S (S (S (S (S (S (S (S (S (S (S (S (S (S (S (S (S (S (S (S
    (S (S (S (S (S (S
    O)))))))))))))))))))))))))))))))))))))))))))))))))))))))))))))))))))))))))))))))))))),
    (Cat ((Star (Chr (false, (((Npos (XO (XO (XO (XO (XO XH)))))), (Npos (XO
    (XO (XO (XO (XO XH))))))) :: [])))), (Cat ((Chr (false, (((Npos (XO (XO
    (XI (XO (XO XH)))))), (Npos (XO (XO (XI (XO (XO XH))))))) :: []))), (Cat
    ((Star (Chr (false, (((Npos (XO (XO (XO (XO (XO XH)))))), (Npos (XO (XO
    (XO (XO (XO XH))))))) :: [])))), (Group ((S (S (S (S (S (S (S (S (S (S (S
    (S (S (S (S (S (S (S (S (S (S (S (S (S (S (S (S (S (S (S (S (S (S (S (S
    (S (S (S (S (S (S (S (S (S (S (S (S (S (S (S (S (S (S (S (S (S (S (S (S
    (S (S (S (S (S (S (S (S (S (S (S (S (S (S (S (S (S (S (S (S (S (S (S (S
    (S (S
    O))))))))))))))))))))))))))))))))))))))))))))))))))))))))))))))))))))))))))))))))))))),
    (Alt ((Cat ((Chr (false, (((Npos (XI (XO (XO (XO (XO (XI XH))))))), (Npos
    (XO (XI (XO (XI (XI (XI XH)))))))) :: (((Npos (XI (XO (XO (XO (XO (XO
    XH))))))), (Npos (XO (XI (XO (XI (XI (XO XH)))))))) :: [])))), (Star
    (Group ((S (S (S (S (S (S (S (S (S (S (S (S (S (S (S (S (S (S (S (S (S (S
    (S (S (S (S (S (S (S (S (S (S (S (S (S (S (S (S (S (S (S (S (S (S (S (S
    (S (S (S (S (S (S (S (S (S (S (S (S (S (S (S (S (S (S (S (S (S (S (S (S
    (S (S (S (S (S (S (S (S (S (S (S (S (S (S (S (S
    O)))))))))))))))))))))))))))))))))))))))))))))))))))))))))))))))))))))))))))))))))))))),
    (Group ((S (S (S (S (S (S (S (S (S (S (S (S (S (S (S (S (S (S (S (S (S (S
    (S (S (S (S (S (S (S (S (S (S (S (S (S (S (S (S (S (S (S (S (S (S (S (S
    (S (S (S (S (S (S (S (S (S (S (S (S (S (S (S (S (S (S (S (S (S (S (S (S
    (S (S (S (S (S (S (S (S (S (S (S (S (S (S (S (S (S
    O))))))))))))))))))))))))))))))))))))))))))))))))))))))))))))))))))))))))))))))))))))))),
    (Chr (false, (((Npos (XI (XO (XO (XO (XO (XI XH))))))), (Npos (XO (XI (XO
    (XI (XI (XI XH)))))))) :: (((Npos (XI (XO (XO (XO (XO (XO XH))))))),
    (Npos (XO (XI (XO (XI (XI (XO XH)))))))) :: (((Npos (XO (XO (XO (XO (XI
    XH)))))), (Npos (XI (XO (XO (XI (XI XH))))))) :: (((Npos (XI (XO (XI (XI
    (XO XH)))))), (Npos (XI (XO (XI (XI (XO XH))))))) :: []))))))))))))),
    (Cat ((Group ((S (S (S (S (S (S (S (S (S (S (S (S (S (S (S (S (S (S (S (S
    (S (S (S (S (S (S (S (S (S (S (S (S (S (S (S (S (S (S (S (S (S (S (S (S
    (S (S (S (S (S (S (S (S (S (S (S (S (S (S (S (S (S (S (S (S (S (S (S (S
    (S (S (S (S (S (S (S (S (S (S (S (S (S (S (S (S (S (S (S (S
    O)))))))))))))))))))))))))))))))))))))))))))))))))))))))))))))))))))))))))))))))))))))))),
    (Alt ((Chr (false, (((Npos (XO (XO (XO (XO (XI XH)))))), (Npos (XI (XO
    (XO (XI (XI XH))))))) :: []))), (Cat ((Chr (false, (((Npos (XI (XO (XO
    (XO (XI XH)))))), (Npos (XI (XO (XO (XI (XI XH))))))) :: []))), (Cat
    ((Chr (false, (((Npos (XO (XO (XO (XO (XI XH)))))), (Npos (XI (XO (XO (XI
    (XI XH))))))) :: []))), (Star (Chr (false, (((Npos (XO (XO (XO (XO (XI
    XH)))))), (Npos (XI (XO (XO (XI (XI XH))))))) :: [])))))))))))), (Cat
    ((Group ((S (S (S (S (S (S (S (S (S (S (S (S (S (S (S (S (S (S (S (S (S
    (S (S (S (S (S (S (S (S (S (S (S (S (S (S (S (S (S (S (S (S (S (S (S (S
    (S (S (S (S (S (S (S (S (S (S (S (S (S (S (S (S (S (S (S (S (S (S (S (S
    (S (S (S (S (S (S (S (S (S (S (S (S (S (S (S (S (S (S (S (S
    O))))))))))))))))))))))))))))))))))))))))))))))))))))))))))))))))))))))))))))))))))))))))),
    (Cat ((Chr (false, (((Npos (XO (XI (XI (XI (XO XH)))))), (Npos (XO (XI
    (XI (XI (XO XH))))))) :: []))), (Group ((S (S (S (S (S (S (S (S (S (S (S
    (S (S (S (S (S (S (S (S (S (S (S (S (S (S (S (S (S (S (S (S (S (S (S (S
    (S (S (S (S (S (S (S (S (S (S (S (S (S (S (S (S (S (S (S (S (S (S (S (S
    (S (S (S (S (S (S (S (S (S (S (S (S (S (S (S (S (S (S (S (S (S (S (S (S
    (S (S (S (S (S (S (S
    O)))))))))))))))))))))))))))))))))))))))))))))))))))))))))))))))))))))))))))))))))))))))))),
    (Alt ((Chr (false, (((Npos (XO (XO (XO (XO (XI XH)))))), (Npos (XI (XO
    (XO (XI (XI XH))))))) :: []))), (Cat ((Chr (false, (((Npos (XI (XO (XO
    (XO (XI XH)))))), (Npos (XI (XO (XO (XI (XI XH))))))) :: []))), (Cat
    ((Chr (false, (((Npos (XO (XO (XO (XO (XI XH)))))), (Npos (XI (XO (XO (XI
    (XI XH))))))) :: []))), (Star (Chr (false, (((Npos (XO (XO (XO (XO (XI
    XH)))))), (Npos (XI (XO (XO (XI (XI XH))))))) :: [])))))))))))))))),
    (Star (Group ((S (S (S (S (S (S (S (S (S (S (S (S (S (S (S (S (S (S (S (S
    (S (S (S (S (S (S (S (S (S (S (S (S (S (S (S (S (S (S (S (S (S (S (S (S
    (S (S (S (S (S (S (S (S (S (S (S (S (S (S (S (S (S (S (S (S (S (S (S (S
    (S (S (S (S (S (S (S (S (S (S (S (S (S (S (S (S (S (S (S (S (S
    O))))))))))))))))))))))))))))))))))))))))))))))))))))))))))))))))))))))))))))))))))))))))),
    (Cat ((Chr (false, (((Npos (XO (XI (XI (XI (XO XH)))))), (Npos (XO (XI
    (XI (XI (XO XH))))))) :: []))), (Group ((S (S (S (S (S (S (S (S (S (S (S
    (S (S (S (S (S (S (S (S (S (S (S (S (S (S (S (S (S (S (S (S (S (S (S (S
    (S (S (S (S (S (S (S (S (S (S (S (S (S (S (S (S (S (S (S (S (S (S (S (S
    (S (S (S (S (S (S (S (S (S (S (S (S (S (S (S (S (S (S (S (S (S (S (S (S
    (S (S (S (S (S (S (S
    O)))))))))))))))))))))))))))))))))))))))))))))))))))))))))))))))))))))))))))))))))))))))))),
    (Alt ((Chr (false, (((Npos (XO (XO (XO (XO (XI XH)))))), (Npos (XI (XO
    (XO (XI (XI XH))))))) :: []))), (Cat ((Chr (false, (((Npos (XI (XO (XO
    (XO (XI XH)))))), (Npos (XI (XO (XO (XI (XI XH))))))) :: []))), (Cat
    ((Chr (false, (((Npos (XO (XO (XO (XO (XI XH)))))), (Npos (XI (XO (XO (XI
    (XI XH))))))) :: []))), (Star (Chr (false, (((Npos (XO (XO (XO (XO (XI
    XH)))))), (Npos (XI (XO (XO (XI (XI
    XH))))))) :: [])))))))))))))))))))))))))))))))))))))), (Cat ((Star (Chr
    (false, (((Npos (XO (XO (XO (XO (XO XH)))))), (Npos (XO (XO (XO (XO (XO
    XH))))))) :: [])))), (Chr (false, (((Npos (XI (XO (XO (XI (XO XH)))))),
    (Npos (XI (XO (XO (XI (XO XH))))))) :: []))))))))))))))))))))))))))))),
    Eps)), (Cat ((Group ((S (S (S (S (S (S (S (S (S (S (S (S (S (S (S (S (S
    (S (S (S (S (S (S (S (S (S (S (S (S (S (S (S (S (S (S (S (S (S (S (S (S
    (S (S (S (S (S (S (S (S (S (S (S (S (S (S (S (S (S (S (S (S (S (S (S (S
    (S (S (S (S (S (S (S (S (S (S (S (S (S (S (S (S (S (S (S (S (S (S (S (S
    (S (S
    O))))))))))))))))))))))))))))))))))))))))))))))))))))))))))))))))))))))))))))))))))))))))))),
    (Star (Group ((S (S (S (S (S (S (S (S (S (S (S (S (S (S (S (S (S (S (S (S
    (S (S (S (S (S (S (S (S (S (S (S (S (S (S (S (S (S (S (S (S (S (S (S (S
    (S (S (S (S (S (S (S (S (S (S (S (S (S (S (S (S (S (S (S (S (S (S (S (S
    (S (S (S (S (S (S (S (S (S (S (S (S (S (S (S (S (S (S (S (S (S (S (S (S
    O)))))))))))))))))))))))))))))))))))))))))))))))))))))))))))))))))))))))))))))))))))))))))))),
    (Cat ((Cat ((Chr (false, (((Npos (XO (XO (XO (XO (XO XH)))))), (Npos (XO
    (XO (XO (XO (XO XH))))))) :: []))), (Star (Chr (false, (((Npos (XO (XO
    (XO (XO (XO XH)))))), (Npos (XO (XO (XO (XO (XO XH))))))) :: [])))))),
    (Cat ((Group ((S (S (S (S (S (S (S (S (S (S (S (S (S (S (S (S (S (S (S (S
    (S (S (S (S (S (S (S (S (S (S (S (S (S (S (S (S (S (S (S (S (S (S (S (S
    (S (S (S (S (S (S (S (S (S (S (S (S (S (S (S (S (S (S (S (S (S (S (S (S
    (S (S (S (S (S (S (S (S (S (S (S (S (S (S (S (S (S (S (S (S (S (S (S (S
    (S
    O))))))))))))))))))))))))))))))))))))))))))))))))))))))))))))))))))))))))))))))))))))))))))))),
    (Cat ((Chr (false, (((Npos (XO (XO (XO (XI (XI (XI XH))))))), (Npos (XO
    (XO (XO (XI (XI (XI XH)))))))) :: (((Npos (XO (XO (XO (XI (XI (XO
    XH))))))), (Npos (XO (XO (XO (XI (XI (XO XH)))))))) :: [])))), (Cat ((Chr
    (false, (((Npos (XI (XO (XI (XI (XO XH)))))), (Npos (XI (XO (XI (XI (XO
    XH))))))) :: []))), (Cat ((Group ((S (S (S (S (S (S (S (S (S (S (S (S (S
    (S (S (S (S (S (S (S (S (S (S (S (S (S (S (S (S (S (S (S (S (S (S (S (S
    (S (S (S (S (S (S (S (S (S (S (S (S (S (S (S (S (S (S (S (S (S (S (S (S
    (S (S (S (S (S (S (S (S (S (S (S (S (S (S (S (S (S (S (S (S (S (S (S (S
    (S (S (S (S (S (S (S (S (S
    O)))))))))))))))))))))))))))))))))))))))))))))))))))))))))))))))))))))))))))))))))))))))))))))),
    (Chr (false, (((Npos (XI (XO (XO (XO (XO (XI XH))))))), (Npos (XO (XI (XO
    (XI (XI (XI XH)))))))) :: (((Npos (XI (XO (XO (XO (XO (XO XH))))))),
    (Npos (XO (XI (XO (XI (XI (XO XH)))))))) :: (((Npos (XI (XO (XI (XI (XO
    XH)))))), (Npos (XI (XO (XI (XI (XO XH))))))) :: (((Npos (XI (XI (XI (XI
    (XI (XO XH))))))), (Npos (XI (XI (XI (XI (XI (XO
    XH)))))))) :: [])))))))), (Star (Group ((S (S (S (S (S (S (S (S (S (S (S
    (S (S (S (S (S (S (S (S (S (S (S (S (S (S (S (S (S (S (S (S (S (S (S (S
    (S (S (S (S (S (S (S (S (S (S (S (S (S (S (S (S (S (S (S (S (S (S (S (S
    (S (S (S (S (S (S (S (S (S (S (S (S (S (S (S (S (S (S (S (S (S (S (S (S
    (S (S (S (S (S (S (S (S (S (S (S
    O)))))))))))))))))))))))))))))))))))))))))))))))))))))))))))))))))))))))))))))))))))))))))))))),
    (Chr (false, (((Npos (XI (XO (XO (XO (XO (XI XH))))))), (Npos (XO (XI (XO
    (XI (XI (XI XH)))))))) :: (((Npos (XI (XO (XO (XO (XO (XO XH))))))),
    (Npos (XO (XI (XO (XI (XI (XO XH)))))))) :: (((Npos (XI (XO (XI (XI (XO
    XH)))))), (Npos (XI (XO (XI (XI (XO XH))))))) :: (((Npos (XI (XI (XI (XI
    (XI (XO XH))))))), (Npos (XI (XI (XI (XI (XI (XO
    XH)))))))) :: []))))))))))))))))), (Cat ((Cat ((Chr (false, (((Npos (XO
    (XO (XO (XO (XO XH)))))), (Npos (XO (XO (XO (XO (XO XH))))))) :: []))),
    (Star (Chr (false, (((Npos (XO (XO (XO (XO (XO XH)))))), (Npos (XO (XO
    (XO (XO (XO XH))))))) :: [])))))), (Group ((S (S (S (S (S (S (S (S (S (S
    (S (S (S (S (S (S (S (S (S (S (S (S (S (S (S (S (S (S (S (S (S (S (S (S
    (S (S (S (S (S (S (S (S (S (S (S (S (S (S (S (S (S (S (S (S (S (S (S (S
    (S (S (S (S (S (S (S (S (S (S (S (S (S (S (S (S (S (S (S (S (S (S (S (S
    (S (S (S (S (S (S (S (S (S (S (S (S (S
    O))))))))))))))))))))))))))))))))))))))))))))))))))))))))))))))))))))))))))))))))))))))))))))))),
    (Alt ((Cat ((Chr (false, (((Npos (XI (XI (XI (XO (XO XH)))))), (Npos (XI
    (XI (XI (XO (XO XH))))))) :: []))), (Cat ((Cat ((Group ((S (S (S (S (S (S
    (S (S (S (S (S (S (S (S (S (S (S (S (S (S (S (S (S (S (S (S (S (S (S (S
    (S (S (S (S (S (S (S (S (S (S (S (S (S (S (S (S (S (S (S (S (S (S (S (S
    (S (S (S (S (S (S (S (S (S (S (S (S (S (S (S (S (S (S (S (S (S (S (S (S
    (S (S (S (S (S (S (S (S (S (S (S (S (S (S (S (S (S (S
    O)))))))))))))))))))))))))))))))))))))))))))))))))))))))))))))))))))))))))))))))))))))))))))))))),
    (Alt ((Cat ((Chr (false, (((Npos (XO (XO (XI (XI (XI (XO XH))))))), (Npos
    (XO (XO (XI (XI (XI (XO XH)))))))) :: []))), (Cat ((Chr (false, (((Npos
    (XI (XO (XI (XO (XI XH)))))), (Npos (XI (XO (XI (XO (XI
    XH))))))) :: []))), (Chr (false, (((Npos (XI (XI (XO (XO (XO (XO
    XH))))))), (Npos (XI (XI (XO (XO (XO (XO XH)))))))) :: (((Npos (XI (XI
    (XO (XO (XO (XI XH))))))), (Npos (XI (XI (XO (XO (XO (XI
    XH)))))))) :: [])))))))), (Alt ((Cat ((Chr (false, (((Npos (XO (XO (XI
    (XI (XI (XO XH))))))), (Npos (XO (XO (XI (XI (XI (XO XH)))))))) :: []))),
    (Cat ((Chr (false, (((Npos (XO (XI (XO (XO (XI XH)))))), (Npos (XO (XI
    (XO (XO (XI XH))))))) :: []))), (Chr (false, (((Npos (XI (XI (XI (XO (XI
    XH)))))), (Npos (XI (XI (XI (XO (XI XH))))))) :: []))))))), (Chr (true,
    (((Npos (XI (XI (XI (XO (XO XH)))))), (Npos (XI (XI (XI (XO (XO
    XH))))))) :: (((Npos (XO (XO (XI (XI (XI (XO XH))))))), (Npos (XO (XO (XI
    (XI (XI (XO XH)))))))) :: [])))))))))), (Star (Group ((S (S (S (S (S (S
    (S (S (S (S (S (S (S (S (S (S (S (S (S (S (S (S (S (S (S (S (S (S (S (S
    (S (S (S (S (S (S (S (S (S (S (S (S (S (S (S (S (S (S (S (S (S (S (S (S
    (S (S (S (S (S (S (S (S (S (S (S (S (S (S (S (S (S (S (S (S (S (S (S (S
    (S (S (S (S (S (S (S (S (S (S (S (S (S (S (S (S (S (S
    O)))))))))))))))))))))))))))))))))))))))))))))))))))))))))))))))))))))))))))))))))))))))))))))))),
    (Alt ((Cat ((Chr (false, (((Npos (XO (XO (XI (XI (XI (XO XH))))))), (Npos
    (XO (XO (XI (XI (XI (XO XH)))))))) :: []))), (Cat ((Chr (false, (((Npos
    (XI (XO (XI (XO (XI XH)))))), (Npos (XI (XO (XI (XO (XI
    XH))))))) :: []))), (Chr (false, (((Npos (XI (XI (XO (XO (XO (XO
    XH))))))), (Npos (XI (XI (XO (XO (XO (XO XH)))))))) :: (((Npos (XI (XI
    (XO (XO (XO (XI XH))))))), (Npos (XI (XI (XO (XO (XO (XI
    XH)))))))) :: [])))))))), (Alt ((Cat ((Chr (false, (((Npos (XO (XO (XI
    (XI (XI (XO XH))))))), (Npos (XO (XO (XI (XI (XI (XO XH)))))))) :: []))),
    (Cat ((Chr (false, (((Npos (XO (XI (XO (XO (XI XH)))))), (Npos (XO (XI
    (XO (XO (XI XH))))))) :: []))), (Chr (false, (((Npos (XI (XI (XI (XO (XI
    XH)))))), (Npos (XI (XI (XI (XO (XI XH))))))) :: []))))))), (Chr (true,
    (((Npos (XI (XI (XI (XO (XO XH)))))), (Npos (XI (XI (XI (XO (XO
    XH))))))) :: (((Npos (XO (XO (XI (XI (XI (XO XH))))))), (Npos (XO (XO (XI
    (XI (XI (XO XH)))))))) :: []))))))))))))), (Chr (false, (((Npos (XI (XI
    (XI (XO (XO XH)))))), (Npos (XI (XI (XI (XO (XO XH))))))) :: []))))))),
    (Cat ((Chr (false, (((Npos (XO (XO (XO (XI (XO XH)))))), (Npos (XO (XO
    (XO (XI (XO XH))))))) :: []))), (Cat ((Star (Chr (false, (((Npos (XO (XO
    (XO (XO (XO XH)))))), (Npos (XO (XO (XO (XO (XO XH))))))) :: [])))), (Cat
    ((Alt ((Group ((S (S (S (S (S (S (S (S (S (S (S (S (S (S (S (S (S (S (S
    (S (S (S (S (S (S (S (S (S (S (S (S (S (S (S (S (S (S (S (S (S (S (S (S
    (S (S (S (S (S (S (S (S (S (S (S (S (S (S (S (S (S (S (S (S (S (S (S (S
    (S (S (S (S (S (S (S (S (S (S (S (S (S (S (S (S (S (S (S (S (S (S (S (S
    (S (S (S (S (S (S
    O))))))))))))))))))))))))))))))))))))))))))))))))))))))))))))))))))))))))))))))))))))))))))))))))),
    (Cat ((Chr (false, (((Npos (XI (XI (XI (XO (XO XH)))))), (Npos (XI (XI
    (XI (XO (XO XH))))))) :: []))), (Cat ((Cat ((Group ((S (S (S (S (S (S (S
    (S (S (S (S (S (S (S (S (S (S (S (S (S (S (S (S (S (S (S (S (S (S (S (S
    (S (S (S (S (S (S (S (S (S (S (S (S (S (S (S (S (S (S (S (S (S (S (S (S
    (S (S (S (S (S (S (S (S (S (S (S (S (S (S (S (S (S (S (S (S (S (S (S (S
    (S (S (S (S (S (S (S (S (S (S (S (S (S (S (S (S (S (S (S
    O)))))))))))))))))))))))))))))))))))))))))))))))))))))))))))))))))))))))))))))))))))))))))))))))))),
    (Alt ((Cat ((Chr (false, (((Npos (XO (XO (XI (XI (XI (XO XH))))))), (Npos
    (XO (XO (XI (XI (XI (XO XH)))))))) :: []))), (Cat ((Chr (false, (((Npos
    (XI (XO (XI (XO (XI XH)))))), (Npos (XI (XO (XI (XO (XI
    XH))))))) :: []))), (Chr (false, (((Npos (XI (XI (XO (XO (XO (XO
    XH))))))), (Npos (XI (XI (XO (XO (XO (XO XH)))))))) :: (((Npos (XI (XI
    (XO (XO (XO (XI XH))))))), (Npos (XI (XI (XO (XO (XO (XI
    XH)))))))) :: [])))))))), (Alt ((Cat ((Chr (false, (((Npos (XO (XO (XI
    (XI (XI (XO XH))))))), (Npos (XO (XO (XI (XI (XI (XO XH)))))))) :: []))),
    (Cat ((Chr (false, (((Npos (XO (XI (XO (XO (XI XH)))))), (Npos (XO (XI
    (XO (XO (XI XH))))))) :: []))), (Chr (false, (((Npos (XI (XI (XI (XO (XI
    XH)))))), (Npos (XI (XI (XI (XO (XI XH))))))) :: []))))))), (Chr (true,
    (((Npos (XI (XI (XI (XO (XO XH)))))), (Npos (XI (XI (XI (XO (XO
    XH))))))) :: (((Npos (XO (XO (XI (XI (XI (XO XH))))))), (Npos (XO (XO (XI
    (XI (XI (XO XH)))))))) :: [])))))))))), (Star (Group ((S (S (S (S (S (S
    (S (S (S (S (S (S (S (S (S (S (S (S (S (S (S (S (S (S (S (S (S (S (S (S
    (S (S (S (S (S (S (S (S (S (S (S (S (S (S (S (S (S (S (S (S (S (S (S (S
    (S (S (S (S (S (S (S (S (S (S (S (S (S (S (S (S (S (S (S (S (S (S (S (S
    (S (S (S (S (S (S (S (S (S (S (S (S (S (S (S (S (S (S (S (S
    O)))))))))))))))))))))))))))))))))))))))))))))))))))))))))))))))))))))))))))))))))))))))))))))))))),
    (Alt ((Cat ((Chr (false, (((Npos (XO (XO (XI (XI (XI (XO XH))))))), (Npos
    (XO (XO (XI (XI (XI (XO XH)))))))) :: []))), (Cat ((Chr (false, (((Npos
    (XI (XO (XI (XO (XI XH)))))), (Npos (XI (XO (XI (XO (XI
    XH))))))) :: []))), (Chr (false, (((Npos (XI (XI (XO (XO (XO (XO
    XH))))))), (Npos (XI (XI (XO (XO (XO (XO XH)))))))) :: (((Npos (XI (XI
    (XO (XO (XO (XI XH))))))), (Npos (XI (XI (XO (XO (XO (XI
    XH)))))))) :: [])))))))), (Alt ((Cat ((Chr (false, (((Npos (XO (XO (XI
    (XI (XI (XO XH))))))), (Npos (XO (XO (XI (XI (XI (XO XH)))))))) :: []))),
    (Cat ((Chr (false, (((Npos (XO (XI (XO (XO (XI XH)))))), (Npos (XO (XI
    (XO (XO (XI XH))))))) :: []))), (Chr (false, (((Npos (XI (XI (XI (XO (XI
    XH)))))), (Npos (XI (XI (XI (XO (XI XH))))))) :: []))))))), (Chr (true,
    (((Npos (XI (XI (XI (XO (XO XH)))))), (Npos (XI (XI (XI (XO (XO
    XH))))))) :: (((Npos (XO (XO (XI (XI (XI (XO XH))))))), (Npos (XO (XO (XI
    (XI (XI (XO XH)))))))) :: []))))))))))))), (Cat ((Chr (false, (((Npos (XI
    (XI (XI (XO (XO XH)))))), (Npos (XI (XI (XI (XO (XO XH))))))) :: []))),
    (Cat ((Star (Group ((S (S (S (S (S (S (S (S (S (S (S (S (S (S (S (S (S (S
    (S (S (S (S (S (S (S (S (S (S (S (S (S (S (S (S (S (S (S (S (S (S (S (S
    (S (S (S (S (S (S (S (S (S (S (S (S (S (S (S (S (S (S (S (S (S (S (S (S
    (S (S (S (S (S (S (S (S (S (S (S (S (S (S (S (S (S (S (S (S (S (S (S (S
    (S (S (S (S (S (S (S (S (S
    O))))))))))))))))))))))))))))))))))))))))))))))))))))))))))))))))))))))))))))))))))))))))))))))))))),
    (Cat ((Cat ((Chr (false, (((Npos (XO (XO (XO (XO (XO XH)))))), (Npos (XO
    (XO (XO (XO (XO XH))))))) :: []))), (Star (Chr (false, (((Npos (XO (XO
    (XO (XO (XO XH)))))), (Npos (XO (XO (XO (XO (XO XH))))))) :: [])))))),
    (Cat ((Chr (false, (((Npos (XI (XI (XI (XO (XO XH)))))), (Npos (XI (XI
    (XI (XO (XO XH))))))) :: []))), (Cat ((Cat ((Group ((S (S (S (S (S (S (S
    (S (S (S (S (S (S (S (S (S (S (S (S (S (S (S (S (S (S (S (S (S (S (S (S
    (S (S (S (S (S (S (S (S (S (S (S (S (S (S (S (S (S (S (S (S (S (S (S (S
    (S (S (S (S (S (S (S (S (S (S (S (S (S (S (S (S (S (S (S (S (S (S (S (S
    (S (S (S (S (S (S (S (S (S (S (S (S (S (S (S (S (S (S (S (S (S
    O)))))))))))))))))))))))))))))))))))))))))))))))))))))))))))))))))))))))))))))))))))))))))))))))))))),
    (Alt ((Cat ((Chr (false, (((Npos (XO (XO (XI (XI (XI (XO XH))))))), (Npos
    (XO (XO (XI (XI (XI (XO XH)))))))) :: []))), (Cat ((Chr (false, (((Npos
    (XI (XO (XI (XO (XI XH)))))), (Npos (XI (XO (XI (XO (XI
    XH))))))) :: []))), (Chr (false, (((Npos (XI (XI (XO (XO (XO (XO
    XH))))))), (Npos (XI (XI (XO (XO (XO (XO XH)))))))) :: (((Npos (XI (XI
    (XO (XO (XO (XI XH))))))), (Npos (XI (XI (XO (XO (XO (XI
    XH)))))))) :: [])))))))), (Alt ((Cat ((Chr (false, (((Npos (XO (XO (XI
    (XI (XI (XO XH))))))), (Npos (XO (XO (XI (XI (XI (XO XH)))))))) :: []))),
    (Cat ((Chr (false, (((Npos (XO (XI (XO (XO (XI XH)))))), (Npos (XO (XI
    (XO (XO (XI XH))))))) :: []))), (Chr (false, (((Npos (XI (XI (XI (XO (XI
    XH)))))), (Npos (XI (XI (XI (XO (XI XH))))))) :: []))))))), (Chr (true,
    (((Npos (XI (XI (XI (XO (XO XH)))))), (Npos (XI (XI (XI (XO (XO
    XH))))))) :: (((Npos (XO (XO (XI (XI (XI (XO XH))))))), (Npos (XO (XO (XI
    (XI (XI (XO XH)))))))) :: [])))))))))), (Star (Group ((S (S (S (S (S (S
    (S (S (S (S (S (S (S (S (S (S (S (S (S (S (S (S (S (S (S (S (S (S (S (S
    (S (S (S (S (S (S (S (S (S (S (S (S (S (S (S (S (S (S (S (S (S (S (S (S
    (S (S (S (S (S (S (S (S (S (S (S (S (S (S (S (S (S (S (S (S (S (S (S (S
    (S (S (S (S (S (S (S (S (S (S (S (S (S (S (S (S (S (S (S (S (S (S
    O)))))))))))))))))))))))))))))))))))))))))))))))))))))))))))))))))))))))))))))))))))))))))))))))))))),
    (Alt ((Cat ((Chr (false, (((Npos (XO (XO (XI (XI (XI (XO XH))))))), (Npos
    (XO (XO (XI (XI (XI (XO XH)))))))) :: []))), (Cat ((Chr (false, (((Npos
    (XI (XO (XI (XO (XI XH)))))), (Npos (XI (XO (XI (XO (XI
    XH))))))) :: []))), (Chr (false, (((Npos (XI (XI (XO (XO (XO (XO
    XH))))))), (Npos (XI (XI (XO (XO (XO (XO XH)))))))) :: (((Npos (XI (XI
    (XO (XO (XO (XI XH))))))), (Npos (XI (XI (XO (XO (XO (XI
    XH)))))))) :: [])))))))), (Alt ((Cat ((Chr (false, (((Npos (XO (XO (XI
    (XI (XI (XO XH))))))), (Npos (XO (XO (XI (XI (XI (XO XH)))))))) :: []))),
    (Cat ((Chr (false, (((Npos (XO (XI (XO (XO (XI XH)))))), (Npos (XO (XI
    (XO (XO (XI XH))))))) :: []))), (Chr (false, (((Npos (XI (XI (XI (XO (XI
    XH)))))), (Npos (XI (XI (XI (XO (XI XH))))))) :: []))))))), (Chr (true,
    (((Npos (XI (XI (XI (XO (XO XH)))))), (Npos (XI (XI (XI (XO (XO
    XH))))))) :: (((Npos (XO (XO (XI (XI (XI (XO XH))))))), (Npos (XO (XO (XI
    (XI (XI (XO XH)))))))) :: []))))))))))))), (Chr (false, (((Npos (XI (XI
    (XI (XO (XO XH)))))), (Npos (XI (XI (XI (XO (XO
    XH))))))) :: [])))))))))))), (Star (Chr (false, (((Npos (XO (XO (XO (XO
    (XO XH)))))), (Npos (XO (XO (XO (XO (XO XH))))))) :: [])))))))))))))),
    Eps)), (Chr (false, (((Npos (XI (XO (XO (XI (XO XH)))))), (Npos (XI (XO
    (XO (XI (XO XH))))))) :: [])))))))))))))))))))))))), (Cat ((Star (Chr
    (false, (((Npos (XO (XO (XO (XO (XO XH)))))), (Npos (XO (XO (XO (XO (XO
    XH))))))) :: [])))), (Chr (false, (((Npos (XI (XO (XO (XI (XO XH)))))),
    (Npos (XI (XO (XO (XI (XO XH))))))) :: []))))))))))))))))))))))))))

(** val rx_object_class_end : end_anchor **)

let rx_object_class_end =
  NoEnd

(** val rx_object_class_ngroups : nat **)

let rx_object_class_ngroups =
  S (S (S (S (S (S (S (S (S (S (S (S (S (S (S (S (S (S (S (S (S (S (S (S (S
    (S (S (S (S (S (S (S (S (S (S (S (S (S (S (S (S (S (S (S (S (S (S (S (S
    (S (S (S (S (S (S (S (S (S (S (S (S (S (S (S (S (S (S (S (S (S (S (S (S
    (S (S (S (S (S (S (S (S (S (S (S (S (S (S (S (S (S (S (S (S (S (S (S (S
    (S (S (S
    O)))))))))))))))))))))))))))))))))))))))))))))))))))))))))))))))))))))))))))))))))))))))))))))))))))

(** val rx_object_class_g_oid : nat **)

let rx_object_class_g_oid =
  S O

(** val rx_object_class_g_name : nat **)

let rx_object_class_g_name =
  S (S (S (S (S (S O)))))

(** val rx_object_class_g_desc : nat **)

let rx_object_class_g_desc =
  S (S (S (S (S (S (S (S (S (S (S (S (S (S (S (S (S O))))))))))))))))

(** val rx_object_class_g_obsolete : nat **)

let rx_object_class_g_obsolete =
  S (S (S (S (S (S (S (S (S (S (S (S (S (S (S (S (S (S (S O))))))))))))))))))

(** val rx_object_class_g_extensions : nat **)

let rx_object_class_g_extensions =
  S (S (S (S (S (S (S (S (S (S (S (S (S (S (S (S (S (S (S (S (S (S (S (S (S
    (S (S (S (S (S (S (S (S (S (S (S (S (S (S (S (S (S (S (S (S (S (S (S (S
    (S (S (S (S (S (S (S (S (S (S (S (S (S (S (S (S (S (S (S (S (S (S (S (S
    (S (S (S (S (S (S (S (S (S (S (S (S (S (S (S (S (S (S
    O))))))))))))))))))))))))))))))))))))))))))))))))))))))))))))))))))))))))))))))))))))))))))

(** val rx_object_class_g_sup : nat **)

let rx_object_class_g_sup =
  S (S (S (S (S (S (S (S (S (S (S (S (S (S (S (S (S (S (S (S (S
    O))))))))))))))))))))

(** val rx_object_class_g_kind : nat **)

let rx_object_class_g_kind =
  S (S (S (S (S (S (S (S (S (S (S (S (S (S (S (S (S (S (S (S (S (S (S (S (S
    (S (S (S (S (S (S (S (S (S (S (S (S (S (S (S (S (S (S (S
    O)))))))))))))))))))))))))))))))))))))))))))

(** val rx_object_class_g_must : nat **)

let rx_object_class_g_must =
  S (S (S (S (S (S (S (S (S (S (S (S (S (S (S (S (S (S (S (S (S (S (S (S (S
    (S (S (S (S (S (S (S (S (S (S (S (S (S (S (S (S (S (S (S (S (S
    O)))))))))))))))))))))))))))))))))))))))))))))

(** val rx_object_class_g_may : nat **)

let rx_object_class_g_may =
  S (S (S (S (S (S (S (S (S (S (S (S (S (S (S (S (S (S (S (S (S (S (S (S (S
    (S (S (S (S (S (S (S (S (S (S (S (S (S (S (S (S (S (S (S (S (S (S (S (S
    (S (S (S (S (S (S (S (S (S (S (S (S (S (S (S (S (S (S (S (S
    O))))))))))))))))))))))))))))))))))))))))))))))))))))))))))))))))))))

(** val rx_attribute_type : rx **)

let rx_attribute_type =
  Cat ((Chr (false, (((Npos (XO (XO (XO (XI (XO XH)))))), (Npos (XO (XO (XO
    (XI (XO XH))))))) :: []))), (Cat ((Star (Chr (false, (((Npos (XO (XO (XO
    (XO (XO XH)))))), (Npos (XO (XO (XO (XO (XO XH))))))) :: [])))), (Cat
    ((Group ((S O), (Cat ((Group ((S (S O)), (Alt ((Chr (false, (((Npos (XO
    (XO (XO (XO (XI XH)))))), (Npos (XI (XO (XO (XI (XI XH))))))) :: []))),
    (Cat ((Chr (false, (((Npos (XI (XO (XO (XO (XI XH)))))), (Npos (XI (XO
    (XO (XI (XI XH))))))) :: []))), (Cat ((Chr (false, (((Npos (XO (XO (XO
    (XO (XI XH)))))), (Npos (XI (XO (XO (XI (XI XH))))))) :: []))), (Star
    (Chr (false, (((Npos (XO (XO (XO (XO (XI XH)))))), (Npos (XI (XO (XO (XI
    (XI XH))))))) :: [])))))))))))), (Cat ((Group ((S (S (S O))), (Cat ((Chr
    (false, (((Npos (XO (XI (XI (XI (XO XH)))))), (Npos (XO (XI (XI (XI (XO
    XH))))))) :: []))), (Group ((S (S (S (S O)))), (Alt ((Chr (false, (((Npos
    (XO (XO (XO (XO (XI XH)))))), (Npos (XI (XO (XO (XI (XI
    XH))))))) :: []))), (Cat ((Chr (false, (((Npos (XI (XO (XO (XO (XI
    XH)))))), (Npos (XI (XO (XO (XI (XI XH))))))) :: []))), (Cat ((Chr
    (false, (((Npos (XO (XO (XO (XO (XI XH)))))), (Npos (XI (XO (XO (XI (XI
    XH))))))) :: []))), (Star (Chr (false, (((Npos (XO (XO (XO (XO (XI
    XH)))))), (Npos (XI (XO (XO (XI (XI XH))))))) :: [])))))))))))))))),
    (Star (Group ((S (S (S O))), (Cat ((Chr (false, (((Npos (XO (XI (XI (XI
    (XO XH)))))), (Npos (XO (XI (XI (XI (XO XH))))))) :: []))), (Group ((S (S
    (S (S O)))), (Alt ((Chr (false, (((Npos (XO (XO (XO (XO (XI XH)))))),
    (Npos (XI (XO (XO (XI (XI XH))))))) :: []))), (Cat ((Chr (false, (((Npos
    (XI (XO (XO (XO (XI XH)))))), (Npos (XI (XO (XO (XI (XI
    XH))))))) :: []))), (Cat ((Chr (false, (((Npos (XO (XO (XO (XO (XI
    XH)))))), (Npos (XI (XO (XO (XI (XI XH))))))) :: []))), (Star (Chr
    (false, (((Npos (XO (XO (XO (XO (XI XH)))))), (Npos (XI (XO (XO (XI (XI
    XH))))))) :: []))))))))))))))))))))))), (Cat ((Alt ((Group ((S (S (S (S
    (S O))))), (Cat ((Cat ((Chr (false, (((Npos (XO (XO (XO (XO (XO XH)))))),
    (Npos (XO (XO (XO (XO (XO XH))))))) :: []))), (Star (Chr (false, (((Npos
    (XO (XO (XO (XO (XO XH)))))), (Npos (XO (XO (XO (XO (XO
    XH))))))) :: [])))))), (Cat ((Chr (false, (((Npos (XO (XI (XI (XI (XO (XO
    XH))))))), (Npos (XO (XI (XI (XI (XO (XO XH)))))))) :: []))), (Cat ((Chr
    (false, (((Npos (XI (XO (XO (XO (XO (XO XH))))))), (Npos (XI (XO (XO (XO
    (XO (XO XH)))))))) :: []))), (Cat ((Chr (false, (((Npos (XI (XO (XI (XI
    (XO (XO XH))))))), (Npos (XI (XO (XI (XI (XO (XO XH)))))))) :: []))),
    (Cat ((Chr (false, (((Npos (XI (XO (XI (XO (XO (XO XH))))))), (Npos (XI
    (XO (XI (XO (XO (XO XH)))))))) :: []))), (Cat ((Cat ((Chr (false, (((Npos
    (XO (XO (XO (XO (XO XH)))))), (Npos (XO (XO (XO (XO (XO
    XH))))))) :: []))), (Star (Chr (false, (((Npos (XO (XO (XO (XO (XO
    XH)))))), (Npos (XO (XO (XO (XO (XO XH))))))) :: [])))))), (Group ((S (S
    (S (S (S (S O)))))), (Group ((S (S (S (S (S (S (S O))))))), (Alt ((Cat
    ((Chr (false, (((Npos (XI (XI (XI (XO (XO XH)))))), (Npos (XI (XI (XI (XO
    (XO XH))))))) :: []))), (Cat ((Chr (false, (((Npos (XI (XO (XO (XO (XO
    (XI XH))))))), (Npos (XO (XI (XO (XI (XI (XI XH)))))))) :: (((Npos (XI
    (XO (XO (XO (XO (XO XH))))))), (Npos (XO (XI (XO (XI (XI (XO
    XH)))))))) :: [])))), (Cat ((Star (Group ((S (S (S (S (S (S (S (S
    O)))))))), (Group ((S (S (S (S (S (S (S (S (S O))))))))), (Chr (false,
    (((Npos (XI (XO (XO (XO (XO (XI XH))))))), (Npos (XO (XI (XO (XI (XI (XI
    XH)))))))) :: (((Npos (XI (XO (XO (XO (XO (XO XH))))))), (Npos (XO (XI
    (XO (XI (XI (XO XH)))))))) :: (((Npos (XO (XO (XO (XO (XI XH)))))), (Npos
    (XI (XO (XO (XI (XI XH))))))) :: (((Npos (XI (XO (XI (XI (XO XH)))))),
    (Npos (XI (XO (XI (XI (XO XH))))))) :: []))))))))))), (Chr (false,
    (((Npos (XI (XI (XI (XO (XO XH)))))), (Npos (XI (XI (XI (XO (XO
    XH))))))) :: []))))))))), (Cat ((Chr (false, (((Npos (XO (XO (XO (XI (XO
    XH)))))), (Npos (XO (XO (XO (XI (XO XH))))))) :: []))), (Cat ((Star (Chr
    (false, (((Npos (XO (XO (XO (XO (XO XH)))))), (Npos (XO (XO (XO (XO (XO
    XH))))))) :: [])))), (Cat ((Alt ((Group ((S (S (S (S (S (S (S (S (S (S
    O)))))))))), (Cat ((Chr (false, (((Npos (XI (XI (XI (XO (XO XH)))))),
    (Npos (XI (XI (XI (XO (XO XH))))))) :: []))), (Cat ((Chr (false, (((Npos
    (XI (XO (XO (XO (XO (XI XH))))))), (Npos (XO (XI (XO (XI (XI (XI
    XH)))))))) :: (((Npos (XI (XO (XO (XO (XO (XO XH))))))), (Npos (XO (XI
    (XO (XI (XI (XO XH)))))))) :: [])))), (Cat ((Star (Group ((S (S (S (S (S
    (S (S (S (S (S (S O))))))))))), (Group ((S (S (S (S (S (S (S (S (S (S (S
    (S O)))))))))))), (Chr (false, (((Npos (XI (XO (XO (XO (XO (XI XH))))))),
    (Npos (XO (XI (XO (XI (XI (XI XH)))))))) :: (((Npos (XI (XO (XO (XO (XO
    (XO XH))))))), (Npos (XO (XI (XO (XI (XI (XO XH)))))))) :: (((Npos (XO
    (XO (XO (XO (XI XH)))))), (Npos (XI (XO (XO (XI (XI XH))))))) :: (((Npos
    (XI (XO (XI (XI (XO XH)))))), (Npos (XI (XO (XI (XI (XO
    XH))))))) :: []))))))))))), (Cat ((Chr (false, (((Npos (XI (XI (XI (XO
    (XO XH)))))), (Npos (XI (XI (XI (XO (XO XH))))))) :: []))), (Star (Group
    ((S (S (S (S (S (S (S (S (S (S (S (S (S O))))))))))))), (Cat ((Cat ((Chr
    (false, (((Npos (XO (XO (XO (XO (XO XH)))))), (Npos (XO (XO (XO (XO (XO
    XH))))))) :: []))), (Star (Chr (false, (((Npos (XO (XO (XO (XO (XO
    XH)))))), (Npos (XO (XO (XO (XO (XO XH))))))) :: [])))))), (Cat ((Chr
    (false, (((Npos (XI (XI (XI (XO (XO XH)))))), (Npos (XI (XI (XI (XO (XO
    XH))))))) :: []))), (Cat ((Chr (false, (((Npos (XI (XO (XO (XO (XO (XI
    XH))))))), (Npos (XO (XI (XO (XI (XI (XI XH)))))))) :: (((Npos (XI (XO
    (XO (XO (XO (XO XH))))))), (Npos (XO (XI (XO (XI (XI (XO
    XH)))))))) :: [])))), (Cat ((Star (Group ((S (S (S (S (S (S (S (S (S (S
    (S (S (S (S O)))))))))))))), (Group ((S (S (S (S (S (S (S (S (S (S (S (S
    (S (S (S O))))))))))))))), (Chr (false, (((Npos (XI (XO (XO (XO (XO (XI
    XH))))))), (Npos (XO (XI (XO (XI (XI (XI XH)))))))) :: (((Npos (XI (XO
    (XO (XO (XO (XO XH))))))), (Npos (XO (XI (XO (XI (XI (XO
    XH)))))))) :: (((Npos (XO (XO (XO (XO (XI XH)))))), (Npos (XI (XO (XO (XI
    (XI XH))))))) :: (((Npos (XI (XO (XI (XI (XO XH)))))), (Npos (XI (XO (XI
    (XI (XO XH))))))) :: []))))))))))), (Chr (false, (((Npos (XI (XI (XI (XO
    (XO XH)))))), (Npos (XI (XI (XI (XO (XO
    XH))))))) :: [])))))))))))))))))))))))), Eps)), (Cat ((Star (Chr (false,
    (((Npos (XO (XO (XO (XO (XO XH)))))), (Npos (XO (XO (XO (XO (XO
    XH))))))) :: [])))), (Chr (false, (((Npos (XI (XO (XO (XI (XO XH)))))),
    (Npos (XI (XO (XO (XI (XO XH))))))) :: []))))))))))))))))))))))))))))))),
    Eps)), (Cat ((Alt ((Group ((S (S (S (S (S (S (S (S (S (S (S (S (S (S (S
    (S O)))))))))))))))), (Cat ((Cat ((Chr (false, (((Npos (XO (XO (XO (XO
    (XO XH)))))), (Npos (XO (XO (XO (XO (XO XH))))))) :: []))), (Star (Chr
    (false, (((Npos (XO (XO (XO (XO (XO XH)))))), (Npos (XO (XO (XO (XO (XO
    XH))))))) :: [])))))), (Cat ((Chr (false, (((Npos (XO (XO (XI (XO (XO (XO
    XH))))))), (Npos (XO (XO (XI (XO (XO (XO XH)))))))) :: []))), (Cat ((Chr
    (false, (((Npos (XI (XO (XI (XO (XO (XO XH))))))), (Npos (XI (XO (XI (XO
    (XO (XO XH)))))))) :: []))), (Cat ((Chr (false, (((Npos (XI (XI (XO (XO
    (XI (XO XH))))))), (Npos (XI (XI (XO (XO (XI (XO XH)))))))) :: []))),
    (Cat ((Chr (false, (((Npos (XI (XI (XO (XO (XO (XO XH))))))), (Npos (XI
    (XI (XO (XO (XO (XO XH)))))))) :: []))), (Cat ((Cat ((Chr (false, (((Npos
    (XO (XO (XO (XO (XO XH)))))), (Npos (XO (XO (XO (XO (XO
    XH))))))) :: []))), (Star (Chr (false, (((Npos (XO (XO (XO (XO (XO
    XH)))))), (Npos (XO (XO (XO (XO (XO XH))))))) :: [])))))), (Group ((S (S
    (S (S (S (S (S (S (S (S (S (S (S (S (S (S (S O))))))))))))))))), (Cat
    ((Chr (false, (((Npos (XI (XI (XI (XO (XO XH)))))), (Npos (XI (XI (XI (XO
    (XO XH))))))) :: []))), (Cat ((Cat ((Group ((S (S (S (S (S (S (S (S (S (S
    (S (S (S (S (S (S (S (S O)))))))))))))))))), (Alt ((Cat ((Chr (false,
    (((Npos (XO (XO (XI (XI (XI (XO XH))))))), (Npos (XO (XO (XI (XI (XI (XO
    XH)))))))) :: []))), (Cat ((Chr (false, (((Npos (XI (XO (XI (XO (XI
    XH)))))), (Npos (XI (XO (XI (XO (XI XH))))))) :: []))), (Chr (false,
    (((Npos (XI (XI (XO (XO (XO (XO XH))))))), (Npos (XI (XI (XO (XO (XO (XO
    XH)))))))) :: (((Npos (XI (XI (XO (XO (XO (XI XH))))))), (Npos (XI (XI
    (XO (XO (XO (XI XH)))))))) :: [])))))))), (Alt ((Cat ((Chr (false,
    (((Npos (XO (XO (XI (XI (XI (XO XH))))))), (Npos (XO (XO (XI (XI (XI (XO
    XH)))))))) :: []))), (Cat ((Chr (false, (((Npos (XO (XI (XO (XO (XI
    XH)))))), (Npos (XO (XI (XO (XO (XI XH))))))) :: []))), (Chr (false,
    (((Npos (XI (XI (XI (XO (XI XH)))))), (Npos (XI (XI (XI (XO (XI
    XH))))))) :: []))))))), (Chr (true, (((Npos (XI (XI (XI (XO (XO XH)))))),
    (Npos (XI (XI (XI (XO (XO XH))))))) :: (((Npos (XO (XO (XI (XI (XI (XO
    XH))))))), (Npos (XO (XO (XI (XI (XI (XO XH)))))))) :: [])))))))))),
    (Star (Group ((S (S (S (S (S (S (S (S (S (S (S (S (S (S (S (S (S (S
    O)))))))))))))))))), (Alt ((Cat ((Chr (false, (((Npos (XO (XO (XI (XI (XI
    (XO XH))))))), (Npos (XO (XO (XI (XI (XI (XO XH)))))))) :: []))), (Cat
    ((Chr (false, (((Npos (XI (XO (XI (XO (XI XH)))))), (Npos (XI (XO (XI (XO
    (XI XH))))))) :: []))), (Chr (false, (((Npos (XI (XI (XO (XO (XO (XO
    XH))))))), (Npos (XI (XI (XO (XO (XO (XO XH)))))))) :: (((Npos (XI (XI
    (XO (XO (XO (XI XH))))))), (Npos (XI (XI (XO (XO (XO (XI
    XH)))))))) :: [])))))))), (Alt ((Cat ((Chr (false, (((Npos (XO (XO (XI
    (XI (XI (XO XH))))))), (Npos (XO (XO (XI (XI (XI (XO XH)))))))) :: []))),
    (Cat ((Chr (false, (((Npos (XO (XI (XO (XO (XI XH)))))), (Npos (XO (XI
    (XO (XO (XI XH))))))) :: []))), (Chr (false, (((Npos (XI (XI (XI (XO (XI
    XH)))))), (Npos (XI (XI (XI (XO (XI XH))))))) :: []))))))), (Chr (true,
    (((Npos (XI (XI (XI (XO (XO XH)))))), (Npos (XI (XI (XI (XO (XO
    XH))))))) :: (((Npos (XO (XO (XI (XI (XI (XO XH))))))), (Npos (XO (XO (XI
    (XI (XI (XO XH)))))))) :: []))))))))))))), (Chr (false, (((Npos (XI (XI
    (XI (XO (XO XH)))))), (Npos (XI (XI (XI (XO (XO
    XH))))))) :: []))))))))))))))))))))))), Eps)), (Cat ((Alt ((Group ((S (S
    (S (S (S (S (S (S (S (S (S (S (S (S (S (S (S (S (S O))))))))))))))))))),
    (Cat ((Cat ((Chr (false, (((Npos (XO (XO (XO (XO (XO XH)))))), (Npos (XO
    (XO (XO (XO (XO XH))))))) :: []))), (Star (Chr (false, (((Npos (XO (XO
    (XO (XO (XO XH)))))), (Npos (XO (XO (XO (XO (XO XH))))))) :: [])))))),
    (Cat ((Chr (false, (((Npos (XI (XI (XI (XI (XO (XO XH))))))), (Npos (XI
    (XI (XI (XI (XO (XO XH)))))))) :: []))), (Cat ((Chr (false, (((Npos (XO
    (XI (XO (XO (XO (XO XH))))))), (Npos (XO (XI (XO (XO (XO (XO
    XH)))))))) :: []))), (Cat ((Chr (false, (((Npos (XI (XI (XO (XO (XI (XO
    XH))))))), (Npos (XI (XI (XO (XO (XI (XO XH)))))))) :: []))), (Cat ((Chr
    (false, (((Npos (XI (XI (XI (XI (XO (XO XH))))))), (Npos (XI (XI (XI (XI
    (XO (XO XH)))))))) :: []))), (Cat ((Chr (false, (((Npos (XO (XO (XI (XI
    (XO (XO XH))))))), (Npos (XO (XO (XI (XI (XO (XO XH)))))))) :: []))),
    (Cat ((Chr (false, (((Npos (XI (XO (XI (XO (XO (XO XH))))))), (Npos (XI
    (XO (XI (XO (XO (XO XH)))))))) :: []))), (Cat ((Chr (false, (((Npos (XO
    (XO (XI (XO (XI (XO XH))))))), (Npos (XO (XO (XI (XO (XI (XO
    XH)))))))) :: []))), (Chr (false, (((Npos (XI (XO (XI (XO (XO (XO
    XH))))))), (Npos (XI (XO (XI (XO (XO (XO
    XH)))))))) :: []))))))))))))))))))))), Eps)), (Cat ((Alt ((Group ((S (S
    (S (S (S (S (S (S (S (S (S (S (S (S (S (S (S (S (S (S
    O)))))))))))))))))))), (Cat ((Cat ((Chr (false, (((Npos (XO (XO (XO (XO
    (XO XH)))))), (Npos (XO (XO (XO (XO (XO XH))))))) :: []))), (Star (Chr
    (false, (((Npos (XO (XO (XO (XO (XO XH)))))), (Npos (XO (XO (XO (XO (XO
    XH))))))) :: [])))))), (Cat ((Chr (false, (((Npos (XI (XI (XO (XO (XI (XO
    XH))))))), (Npos (XI (XI (XO (XO (XI (XO XH)))))))) :: []))), (Cat ((Chr
    (false, (((Npos (XI (XO (XI (XO (XI (XO XH))))))), (Npos (XI (XO (XI (XO
    (XI (XO XH)))))))) :: []))), (Cat ((Chr (false, (((Npos (XO (XO (XO (XO
    (XI (XO XH))))))), (Npos (XO (XO (XO (XO (XI (XO XH)))))))) :: []))),
    (Cat ((Cat ((Chr (false, (((Npos (XO (XO (XO (XO (XO XH)))))), (Npos (XO
    (XO (XO (XO (XO XH))))))) :: []))), (Star (Chr (false, (((Npos (XO (XO
    (XO (XO (XO XH)))))), (Npos (XO (XO (XO (XO (XO XH))))))) :: [])))))),
    (Group ((S (S (S (S (S (S (S (S (S (S (S (S (S (S (S (S (S (S (S (S (S
    O))))))))))))))))))))), (Group ((S (S (S (S (S (S (S (S (S (S (S (S (S (S
    (S (S (S (S (S (S (S (S O)))))))))))))))))))))), (Alt ((Cat ((Chr (false,
    (((Npos (XI (XO (XO (XO (XO (XI XH))))))), (Npos (XO (XI (XO (XI (XI (XI
    XH)))))))) :: (((Npos (XI (XO (XO (XO (XO (XO XH))))))), (Npos (XO (XI
    (XO (XI (XI (XO XH)))))))) :: [])))), (Star (Group ((S (S (S (S (S (S (S
    (S (S (S (S (S (S (S (S (S (S (S (S (S (S (S (S O))))))))))))))))))))))),
    (Group ((S (S (S (S (S (S (S (S (S (S (S (S (S (S (S (S (S (S (S (S (S (S
    (S (S O)))))))))))))))))))))))), (Chr (false, (((Npos (XI (XO (XO (XO (XO
    (XI XH))))))), (Npos (XO (XI (XO (XI (XI (XI XH)))))))) :: (((Npos (XI
    (XO (XO (XO (XO (XO XH))))))), (Npos (XO (XI (XO (XI (XI (XO
    XH)))))))) :: (((Npos (XO (XO (XO (XO (XI XH)))))), (Npos (XI (XO (XO (XI
    (XI XH))))))) :: (((Npos (XI (XO (XI (XI (XO XH)))))), (Npos (XI (XO (XI
    (XI (XO XH))))))) :: []))))))))))))), (Cat ((Group ((S (S (S (S (S (S (S
    (S (S (S (S (S (S (S (S (S (S (S (S (S (S (S (S (S (S
    O))))))))))))))))))))))))), (Alt ((Chr (false, (((Npos (XO (XO (XO (XO
    (XI XH)))))), (Npos (XI (XO (XO (XI (XI XH))))))) :: []))), (Cat ((Chr
    (false, (((Npos (XI (XO (XO (XO (XI XH)))))), (Npos (XI (XO (XO (XI (XI
    XH))))))) :: []))), (Cat ((Chr (false, (((Npos (XO (XO (XO (XO (XI
    XH)))))), (Npos (XI (XO (XO (XI (XI XH))))))) :: []))), (Star (Chr
    (false, (((Npos (XO (XO (XO (XO (XI XH)))))), (Npos (XI (XO (XO (XI (XI
    XH))))))) :: [])))))))))))), (Cat ((Group ((S (S (S (S (S (S (S (S (S (S
    (S (S (S (S (S (S (S (S (S (S (S (S (S (S (S (S
    O)))))))))))))))))))))))))), (Cat ((Chr (false, (((Npos (XO (XI (XI (XI
    (XO XH)))))), (Npos (XO (XI (XI (XI (XO XH))))))) :: []))), (Group ((S (S
    (S (S (S (S (S (S (S (S (S (S (S (S (S (S (S (S (S (S (S (S (S (S (S (S
    (S O))))))))))))))))))))))))))), (Alt ((Chr (false, (((Npos (XO (XO (XO
    (XO (XI XH)))))), (Npos (XI (XO (XO (XI (XI XH))))))) :: []))), (Cat
    ((Chr (false, (((Npos (XI (XO (XO (XO (XI XH)))))), (Npos (XI (XO (XO (XI
    (XI XH))))))) :: []))), (Cat ((Chr (false, (((Npos (XO (XO (XO (XO (XI
    XH)))))), (Npos (XI (XO (XO (XI (XI XH))))))) :: []))), (Star (Chr
    (false, (((Npos (XO (XO (XO (XO (XI XH)))))), (Npos (XI (XO (XO (XI (XI
    XH))))))) :: [])))))))))))))))), (Star (Group ((S (S (S (S (S (S (S (S (S
    (S (S (S (S (S (S (S (S (S (S (S (S (S (S (S (S (S
    O)))))))))))))))))))))))))), (Cat ((Chr (false, (((Npos (XO (XI (XI (XI
    (XO XH)))))), (Npos (XO (XI (XI (XI (XO XH))))))) :: []))), (Group ((S (S
    (S (S (S (S (S (S (S (S (S (S (S (S (S (S (S (S (S (S (S (S (S (S (S (S
    (S O))))))))))))))))))))))))))), (Alt ((Chr (false, (((Npos (XO (XO (XO
    (XO (XI XH)))))), (Npos (XI (XO (XO (XI (XI XH))))))) :: []))), (Cat
    ((Chr (false, (((Npos (XI (XO (XO (XO (XI XH)))))), (Npos (XI (XO (XO (XI
    (XI XH))))))) :: []))), (Cat ((Chr (false, (((Npos (XO (XO (XO (XO (XI
    XH)))))), (Npos (XI (XO (XO (XI (XI XH))))))) :: []))), (Star (Chr
    (false, (((Npos (XO (XO (XO (XO (XI XH)))))), (Npos (XI (XO (XO (XI (XI
    XH))))))) :: []))))))))))))))))))))))))))))))))))))))), Eps)), (Cat ((Alt
    ((Group ((S (S (S (S (S (S (S (S (S (S (S (S (S (S (S (S (S (S (S (S (S
    (S (S (S (S (S (S (S O)))))))))))))))))))))))))))), (Cat ((Cat ((Chr
    (false, (((Npos (XO (XO (XO (XO (XO XH)))))), (Npos (XO (XO (XO (XO (XO
    XH))))))) :: []))), (Star (Chr (false, (((Npos (XO (XO (XO (XO (XO
    XH)))))), (Npos (XO (XO (XO (XO (XO XH))))))) :: [])))))), (Cat ((Chr
    (false, (((Npos (XI (XO (XI (XO (XO (XO XH))))))), (Npos (XI (XO (XI (XO
    (XO (XO XH)))))))) :: []))), (Cat ((Chr (false, (((Npos (XI (XO (XO (XO
    (XI (XO XH))))))), (Npos (XI (XO (XO (XO (XI (XO XH)))))))) :: []))),
    (Cat ((Chr (false, (((Npos (XI (XO (XI (XO (XI (XO XH))))))), (Npos (XI
    (XO (XI (XO (XI (XO XH)))))))) :: []))), (Cat ((Chr (false, (((Npos (XI
    (XO (XO (XO (XO (XO XH))))))), (Npos (XI (XO (XO (XO (XO (XO
    XH)))))))) :: []))), (Cat ((Chr (false, (((Npos (XO (XO (XI (XI (XO (XO
    XH))))))), (Npos (XO (XO (XI (XI (XO (XO XH)))))))) :: []))), (Cat ((Chr
    (false, (((Npos (XI (XO (XO (XI (XO (XO XH))))))), (Npos (XI (XO (XO (XI
    (XO (XO XH)))))))) :: []))), (Cat ((Chr (false, (((Npos (XO (XO (XI (XO
    (XI (XO XH))))))), (Npos (XO (XO (XI (XO (XI (XO XH)))))))) :: []))),
    (Cat ((Chr (false, (((Npos (XI (XO (XO (XI (XI (XO XH))))))), (Npos (XI
    (XO (XO (XI (XI (XO XH)))))))) :: []))), (Cat ((Cat ((Chr (false, (((Npos
    (XO (XO (XO (XO (XO XH)))))), (Npos (XO (XO (XO (XO (XO
    XH))))))) :: []))), (Star (Chr (false, (((Npos (XO (XO (XO (XO (XO
    XH)))))), (Npos (XO (XO (XO (XO (XO XH))))))) :: [])))))), (Group ((S (S
    (S (S (S (S (S (S (S (S (S (S (S (S (S (S (S (S (S (S (S (S (S (S (S (S
    (S (S (S O))))))))))))))))))))))))))))), (Group ((S (S (S (S (S (S (S (S
    (S (S (S (S (S (S (S (S (S (S (S (S (S (S (S (S (S (S (S (S (S (S
    O)))))))))))))))))))))))))))))), (Alt ((Cat ((Chr (false, (((Npos (XI (XO
    (XO (XO (XO (XI XH))))))), (Npos (XO (XI (XO (XI (XI (XI
    XH)))))))) :: (((Npos (XI (XO (XO (XO (XO (XO XH))))))), (Npos (XO (XI
    (XO (XI (XI (XO XH)))))))) :: [])))), (Star (Group ((S (S (S (S (S (S (S
    (S (S (S (S (S (S (S (S (S (S (S (S (S (S (S (S (S (S (S (S (S (S (S (S
    O))))))))))))))))))))))))))))))), (Group ((S (S (S (S (S (S (S (S (S (S
    (S (S (S (S (S (S (S (S (S (S (S (S (S (S (S (S (S (S (S (S (S (S
    O)))))))))))))))))))))))))))))))), (Chr (false, (((Npos (XI (XO (XO (XO
    (XO (XI XH))))))), (Npos (XO (XI (XO (XI (XI (XI XH)))))))) :: (((Npos
    (XI (XO (XO (XO (XO (XO XH))))))), (Npos (XO (XI (XO (XI (XI (XO
    XH)))))))) :: (((Npos (XO (XO (XO (XO (XI XH)))))), (Npos (XI (XO (XO (XI
    (XI XH))))))) :: (((Npos (XI (XO (XI (XI (XO XH)))))), (Npos (XI (XO (XI
    (XI (XO XH))))))) :: []))))))))))))), (Cat ((Group ((S (S (S (S (S (S (S
    (S (S (S (S (S (S (S (S (S (S (S (S (S (S (S (S (S (S (S (S (S (S (S (S
    (S (S O))))))))))))))))))))))))))))))))), (Alt ((Chr (false, (((Npos (XO
    (XO (XO (XO (XI XH)))))), (Npos (XI (XO (XO (XI (XI XH))))))) :: []))),
    (Cat ((Chr (false, (((Npos (XI (XO (XO (XO (XI XH)))))), (Npos (XI (XO
    (XO (XI (XI XH))))))) :: []))), (Cat ((Chr (false, (((Npos (XO (XO (XO
    (XO (XI XH)))))), (Npos (XI (XO (XO (XI (XI XH))))))) :: []))), (Star
    (Chr (false, (((Npos (XO (XO (XO (XO (XI XH)))))), (Npos (XI (XO (XO (XI
    (XI XH))))))) :: [])))))))))))), (Cat ((Group ((S (S (S (S (S (S (S (S (S
    (S (S (S (S (S (S (S (S (S (S (S (S (S (S (S (S (S (S (S (S (S (S (S (S
    (S O)))))))))))))))))))))))))))))))))), (Cat ((Chr (false, (((Npos (XO
    (XI (XI (XI (XO XH)))))), (Npos (XO (XI (XI (XI (XO XH))))))) :: []))),
    (Group ((S (S (S (S (S (S (S (S (S (S (S (S (S (S (S (S (S (S (S (S (S (S
    (S (S (S (S (S (S (S (S (S (S (S (S (S
    O))))))))))))))))))))))))))))))))))), (Alt ((Chr (false, (((Npos (XO (XO
    (XO (XO (XI XH)))))), (Npos (XI (XO (XO (XI (XI XH))))))) :: []))), (Cat
    ((Chr (false, (((Npos (XI (XO (XO (XO (XI XH)))))), (Npos (XI (XO (XO (XI
    (XI XH))))))) :: []))), (Cat ((Chr (false, (((Npos (XO (XO (XO (XO (XI
    XH)))))), (Npos (XI (XO (XO (XI (XI XH))))))) :: []))), (Star (Chr
    (false, (((Npos (XO (XO (XO (XO (XI XH)))))), (Npos (XI (XO (XO (XI (XI
    XH))))))) :: [])))))))))))))))), (Star (Group ((S (S (S (S (S (S (S (S (S
    (S (S (S (S (S (S (S (S (S (S (S (S (S (S (S (S (S (S (S (S (S (S (S (S
    (S O)))))))))))))))))))))))))))))))))), (Cat ((Chr (false, (((Npos (XO
    (XI (XI (XI (XO XH)))))), (Npos (XO (XI (XI (XI (XO XH))))))) :: []))),
    (Group ((S (S (S (S (S (S (S (S (S (S (S (S (S (S (S (S (S (S (S (S (S (S
    (S (S (S (S (S (S (S (S (S (S (S (S (S
    O))))))))))))))))))))))))))))))))))), (Alt ((Chr (false, (((Npos (XO (XO
    (XO (XO (XI XH)))))), (Npos (XI (XO (XO (XI (XI XH))))))) :: []))), (Cat
    ((Chr (false, (((Npos (XI (XO (XO (XO (XI XH)))))), (Npos (XI (XO (XO (XI
    (XI XH))))))) :: []))), (Cat ((Chr (false, (((Npos (XO (XO (XO (XO (XI
    XH)))))), (Npos (XI (XO (XO (XI (XI XH))))))) :: []))), (Star (Chr
    (false, (((Npos (XO (XO (XO (XO (XI XH)))))), (Npos (XI (XO (XO (XI (XI
    XH))))))) :: []))))))))))))))))))))))))))))))))))))))))))))))))), Eps)),
    (Cat ((Alt ((Group ((S (S (S (S (S (S (S (S (S (S (S (S (S (S (S (S (S (S
    (S (S (S (S (S (S (S (S (S (S (S (S (S (S (S (S (S (S
    O)))))))))))))))))))))))))))))))))))), (Cat ((Cat ((Chr (false, (((Npos
    (XO (XO (XO (XO (XO XH)))))), (Npos (XO (XO (XO (XO (XO
    XH))))))) :: []))), (Star (Chr (false, (((Npos (XO (XO (XO (XO (XO
    XH)))))), (Npos (XO (XO (XO (XO (XO XH))))))) :: [])))))), (Cat ((Chr
    (false, (((Npos (XI (XI (XI (XI (XO (XO XH))))))), (Npos (XI (XI (XI (XI
    (XO (XO XH)))))))) :: []))), (Cat ((Chr (false, (((Npos (XO (XI (XO (XO
    (XI (XO XH))))))), (Npos (XO (XI (XO (XO (XI (XO XH)))))))) :: []))),
    (Cat ((Chr (false, (((Npos (XO (XO (XI (XO (XO (XO XH))))))), (Npos (XO
    (XO (XI (XO (XO (XO XH)))))))) :: []))), (Cat ((Chr (false, (((Npos (XI
    (XO (XI (XO (XO (XO XH))))))), (Npos (XI (XO (XI (XO (XO (XO
    XH)))))))) :: []))), (Cat ((Chr (false, (((Npos (XO (XI (XO (XO (XI (XO
    XH))))))), (Npos (XO (XI (XO (XO (XI (XO XH)))))))) :: []))), (Cat ((Chr
    (false, (((Npos (XI (XO (XO (XI (XO (XO XH))))))), (Npos (XI (XO (XO (XI
    (XO (XO XH)))))))) :: []))), (Cat ((Chr (false, (((Npos (XO (XI (XI (XI
    (XO (XO XH))))))), (Npos (XO (XI (XI (XI (XO (XO XH)))))))) :: []))),
    (Cat ((Chr (false, (((Npos (XI (XI (XI (XO (XO (XO XH))))))), (Npos (XI
    (XI (XI (XO (XO (XO XH)))))))) :: []))), (Cat ((Cat ((Chr (false, (((Npos
    (XO (XO (XO (XO (XO XH)))))), (Npos (XO (XO (XO (XO (XO
    XH))))))) :: []))), (Star (Chr (false, (((Npos (XO (XO (XO (XO (XO
    XH)))))), (Npos (XO (XO (XO (XO (XO XH))))))) :: [])))))), (Group ((S (S
    (S (S (S (S (S (S (S (S (S (S (S (S (S (S (S (S (S (S (S (S (S (S (S (S
    (S (S (S (S (S (S (S (S (S (S (S O))))))))))))))))))))))))))))))))))))),
    (Group ((S (S (S (S (S (S (S (S (S (S (S (S (S (S (S (S (S (S (S (S (S (S
    (S (S (S (S (S (S (S (S (S (S (S (S (S (S (S (S
    O)))))))))))))))))))))))))))))))))))))), (Alt ((Cat ((Chr (false, (((Npos
    (XI (XO (XO (XO (XO (XI XH))))))), (Npos (XO (XI (XO (XI (XI (XI
    XH)))))))) :: (((Npos (XI (XO (XO (XO (XO (XO XH))))))), (Npos (XO (XI
    (XO (XI (XI (XO XH)))))))) :: [])))), (Star (Group ((S (S (S (S (S (S (S
    (S (S (S (S (S (S (S (S (S (S (S (S (S (S (S (S (S (S (S (S (S (S (S (S
    (S (S (S (S (S (S (S (S O))))))))))))))))))))))))))))))))))))))), (Group
    ((S (S (S (S (S (S (S (S (S (S (S (S (S (S (S (S (S (S (S (S (S (S (S (S
    (S (S (S (S (S (S (S (S (S (S (S (S (S (S (S (S
    O)))))))))))))))))))))))))))))))))))))))), (Chr (false, (((Npos (XI (XO
    (XO (XO (XO (XI XH))))))), (Npos (XO (XI (XO (XI (XI (XI
    XH)))))))) :: (((Npos (XI (XO (XO (XO (XO (XO XH))))))), (Npos (XO (XI
    (XO (XI (XI (XO XH)))))))) :: (((Npos (XO (XO (XO (XO (XI XH)))))), (Npos
    (XI (XO (XO (XI (XI XH))))))) :: (((Npos (XI (XO (XI (XI (XO XH)))))),
    (Npos (XI (XO (XI (XI (XO XH))))))) :: []))))))))))))), (Cat ((Group ((S
    (S (S (S (S (S (S (S (S (S (S (S (S (S (S (S (S (S (S (S (S (S (S (S (S
    (S (S (S (S (S (S (S (S (S (S (S (S (S (S (S (S
    O))))))))))))))))))))))))))))))))))))))))), (Alt ((Chr (false, (((Npos
    (XO (XO (XO (XO (XI XH)))))), (Npos (XI (XO (XO (XI (XI
    XH))))))) :: []))), (Cat ((Chr (false, (((Npos (XI (XO (XO (XO (XI
    XH)))))), (Npos (XI (XO (XO (XI (XI XH))))))) :: []))), (Cat ((Chr
    (false, (((Npos (XO (XO (XO (XO (XI XH)))))), (Npos (XI (XO (XO (XI (XI
    XH))))))) :: []))), (Star (Chr (false, (((Npos (XO (XO (XO (XO (XI
    XH)))))), (Npos (XI (XO (XO (XI (XI XH))))))) :: [])))))))))))), (Cat
    ((Group ((S (S (S (S (S (S (S (S (S (S (S (S (S (S (S (S (S (S (S (S (S
    (S (S (S (S (S (S (S (S (S (S (S (S (S (S (S (S (S (S (S (S (S
    O)))))))))))))))))))))))))))))))))))))))))), (Cat ((Chr (false, (((Npos
    (XO (XI (XI (XI (XO XH)))))), (Npos (XO (XI (XI (XI (XO
    XH))))))) :: []))), (Group ((S (S (S (S (S (S (S (S (S (S (S (S (S (S (S
    (S (S (S (S (S (S (S (S (S (S (S (S (S (S (S (S (S (S (S (S (S (S (S (S
    (S (S (S (S O))))))))))))))))))))))))))))))))))))))))))), (Alt ((Chr
    (false, (((Npos (XO (XO (XO (XO (XI XH)))))), (Npos (XI (XO (XO (XI (XI
    XH))))))) :: []))), (Cat ((Chr (false, (((Npos (XI (XO (XO (XO (XI
    XH)))))), (Npos (XI (XO (XO (XI (XI XH))))))) :: []))), (Cat ((Chr
    (false, (((Npos (XO (XO (XO (XO (XI XH)))))), (Npos (XI (XO (XO (XI (XI
    XH))))))) :: []))), (Star (Chr (false, (((Npos (XO (XO (XO (XO (XI
    XH)))))), (Npos (XI (XO (XO (XI (XI XH))))))) :: [])))))))))))))))),
    (Star (Group ((S (S (S (S (S (S (S (S (S (S (S (S (S (S (S (S (S (S (S (S
    (S (S (S (S (S (S (S (S (S (S (S (S (S (S (S (S (S (S (S (S (S (S
    O)))))))))))))))))))))))))))))))))))))))))), (Cat ((Chr (false, (((Npos
    (XO (XI (XI (XI (XO XH)))))), (Npos (XO (XI (XI (XI (XO
    XH))))))) :: []))), (Group ((S (S (S (S (S (S (S (S (S (S (S (S (S (S (S
    (S (S (S (S (S (S (S (S (S (S (S (S (S (S (S (S (S (S (S (S (S (S (S (S
    (S (S (S (S O))))))))))))))))))))))))))))))))))))))))))), (Alt ((Chr
    (false, (((Npos (XO (XO (XO (XO (XI XH)))))), (Npos (XI (XO (XO (XI (XI
    XH))))))) :: []))), (Cat ((Chr (false, (((Npos (XI (XO (XO (XO (XI
    XH)))))), (Npos (XI (XO (XO (XI (XI XH))))))) :: []))), (Cat ((Chr
    (false, (((Npos (XO (XO (XO (XO (XI XH)))))), (Npos (XI (XO (XO (XI (XI
    XH))))))) :: []))), (Star (Chr (false, (((Npos (XO (XO (XO (XO (XI
    XH)))))), (Npos (XI (XO (XO (XI (XI
    XH))))))) :: []))))))))))))))))))))))))))))))))))))))))))))))))), Eps)),
    (Cat ((Alt ((Group ((S (S (S (S (S (S (S (S (S (S (S (S (S (S (S (S (S (S
    (S (S (S (S (S (S (S (S (S (S (S (S (S (S (S (S (S (S (S (S (S (S (S (S
    (S (S O)))))))))))))))))))))))))))))))))))))))))))), (Cat ((Cat ((Chr
    (false, (((Npos (XO (XO (XO (XO (XO XH)))))), (Npos (XO (XO (XO (XO (XO
    XH))))))) :: []))), (Star (Chr (false, (((Npos (XO (XO (XO (XO (XO
    XH)))))), (Npos (XO (XO (XO (XO (XO XH))))))) :: [])))))), (Cat ((Chr
    (false, (((Npos (XI (XI (XO (XO (XI (XO XH))))))), (Npos (XI (XI (XO (XO
    (XI (XO XH)))))))) :: []))), (Cat ((Chr (false, (((Npos (XI (XO (XI (XO
    (XI (XO XH))))))), (Npos (XI (XO (XI (XO (XI (XO XH)))))))) :: []))),
    (Cat ((Chr (false, (((Npos (XO (XI (XO (XO (XO (XO XH))))))), (Npos (XO
    (XI (XO (XO (XO (XO XH)))))))) :: []))), (Cat ((Chr (false, (((Npos (XI
    (XI (XO (XO (XI (XO XH))))))), (Npos (XI (XI (XO (XO (XI (XO
    XH)))))))) :: []))), (Cat ((Chr (false, (((Npos (XO (XO (XI (XO (XI (XO
    XH))))))), (Npos (XO (XO (XI (XO (XI (XO XH)))))))) :: []))), (Cat ((Chr
    (false, (((Npos (XO (XI (XO (XO (XI (XO XH))))))), (Npos (XO (XI (XO (XO
    (XI (XO XH)))))))) :: []))), (Cat ((Cat ((Chr (false, (((Npos (XO (XO (XO
    (XO (XO XH)))))), (Npos (XO (XO (XO (XO (XO XH))))))) :: []))), (Star
    (Chr (false, (((Npos (XO (XO (XO (XO (XO XH)))))), (Npos (XO (XO (XO (XO
    (XO XH))))))) :: [])))))), (Group ((S (S (S (S (S (S (S (S (S (S (S (S (S
    (S (S (S (S (S (S (S (S (S (S (S (S (S (S (S (S (S (S (S (S (S (S (S (S
    (S (S (S (S (S (S (S (S O))))))))))))))))))))))))))))))))))))))))))))),
    (Group ((S (S (S (S (S (S (S (S (S (S (S (S (S (S (S (S (S (S (S (S (S (S
    (S (S (S (S (S (S (S (S (S (S (S (S (S (S (S (S (S (S (S (S (S (S (S (S
    O)))))))))))))))))))))))))))))))))))))))))))))), (Alt ((Cat ((Chr (false,
    (((Npos (XI (XO (XO (XO (XO (XI XH))))))), (Npos (XO (XI (XO (XI (XI (XI
    XH)))))))) :: (((Npos (XI (XO (XO (XO (XO (XO XH))))))), (Npos (XO (XI
    (XO (XI (XI (XO XH)))))))) :: [])))), (Star (Group ((S (S (S (S (S (S (S
    (S (S (S (S (S (S (S (S (S (S (S (S (S (S (S (S (S (S (S (S (S (S (S (S
    (S (S (S (S (S (S (S (S (S (S (S (S (S (S (S (S
    O))))))))))))))))))))))))))))))))))))))))))))))), (Group ((S (S (S (S (S
    (S (S (S (S (S (S (S (S (S (S (S (S (S (S (S (S (S (S (S (S (S (S (S (S
    (S (S (S (S (S (S (S (S (S (S (S (S (S (S (S (S (S (S (S
    O)))))))))))))))))))))))))))))))))))))))))))))))), (Chr (false, (((Npos
    (XI (XO (XO (XO (XO (XI XH))))))), (Npos (XO (XI (XO (XI (XI (XI
    XH)))))))) :: (((Npos (XI (XO (XO (XO (XO (XO XH))))))), (Npos (XO (XI
    (XO (XI (XI (XO XH)))))))) :: (((Npos (XO (XO (XO (XO (XI XH)))))), (Npos
    (XI (XO (XO (XI (XI XH))))))) :: (((Npos (XI (XO (XI (XI (XO XH)))))),
    (Npos (XI (XO (XI (XI (XO XH))))))) :: []))))))))))))), (Cat ((Group ((S
    (S (S (S (S (S (S (S (S (S (S (S (S (S (S (S (S (S (S (S (S (S (S (S (S
    (S (S (S (S (S (S (S (S (S (S (S (S (S (S (S (S (S (S (S (S (S (S (S (S
    O))))))))))))))))))))))))))))))))))))))))))))))))), (Alt ((Chr (false,
    (((Npos (XO (XO (XO (XO (XI XH)))))), (Npos (XI (XO (XO (XI (XI
    XH))))))) :: []))), (Cat ((Chr (false, (((Npos (XI (XO (XO (XO (XI
    XH)))))), (Npos (XI (XO (XO (XI (XI XH))))))) :: []))), (Cat ((Chr
    (false, (((Npos (XO (XO (XO (XO (XI XH)))))), (Npos (XI (XO (XO (XI (XI
    XH))))))) :: []))), (Star (Chr (false, (((Npos (XO (XO (XO (XO (XI
    XH)))))), (Npos (XI (XO (XO (XI (XI XH))))))) :: [])))))))))))), (Cat
    ((Group ((S (S (S (S (S (S (S (S (S (S (S (S (S (S (S (S (S (S (S (S (S
    (S (S (S (S (S (S (S (S (S (S (S (S (S (S (S (S (S (S (S (S (S (S (S (S
    (S (S (S (S (S O)))))))))))))))))))))))))))))))))))))))))))))))))), (Cat
    ((Chr (false, (((Npos (XO (XI (XI (XI (XO XH)))))), (Npos (XO (XI (XI (XI
    (XO XH))))))) :: []))), (Group ((S (S (S (S (S (S (S (S (S (S (S (S (S (S
    (S (S (S (S (S (S (S (S (S (S (S (S (S (S (S (S (S (S (S (S (S (S (S (S
    (S (S (S (S (S (S (S (S (S (S (S (S (S
    O))))))))))))))))))))))))))))))))))))))))))))))))))), (Alt ((Chr (false,
    (((Npos (XO (XO (XO (XO (XI XH)))))), (Npos (XI (XO (XO (XI (XI
    XH))))))) :: []))), (Cat ((Chr (false, (((Npos (XI (XO (XO (XO (XI
    XH)))))), (Npos (XI (XO (XO (XI (XI XH))))))) :: []))), (Cat ((Chr
    (false, (((Npos (XO (XO (XO (XO (XI XH)))))), (Npos (XI (XO (XO (XI (XI
    XH))))))) :: []))), (Star (Chr (false, (((Npos (XO (XO (XO (XO (XI
    XH)))))), (Npos (XI (XO (XO (XI (XI XH))))))) :: [])))))))))))))))),
    (Star (Group ((S (S (S (S (S (S (S (S (S (S (S (S (S (S (S (S (S (S (S (S
    (S (S (S (S (S (S (S (S (S (S (S (S (S (S (S (S (S (S (S (S (S (S (S (S
    (S (S (S (S (S (S O)))))))))))))))))))))))))))))))))))))))))))))))))),
    (Cat ((Chr (false, (((Npos (XO (XI (XI (XI (XO XH)))))), (Npos (XO (XI
    (XI (XI (XO XH))))))) :: []))), (Group ((S (S (S (S (S (S (S (S (S (S (S
    (S (S (S (S (S (S (S (S (S (S (S (S (S (S (S (S (S (S (S (S (S (S (S (S
    (S (S (S (S (S (S (S (S (S (S (S (S (S (S (S (S
    O))))))))))))))))))))))))))))))))))))))))))))))))))), (Alt ((Chr (false,
    (((Npos (XO (XO (XO (XO (XI XH)))))), (Npos (XI (XO (XO (XI (XI
    XH))))))) :: []))), (Cat ((Chr (false, (((Npos (XI (XO (XO (XO (XI
    XH)))))), (Npos (XI (XO (XO (XI (XI XH))))))) :: []))), (Cat ((Chr
    (false, (((Npos (XO (XO (XO (XO (XI XH)))))), (Npos (XI (XO (XO (XI (XI
    XH))))))) :: []))), (Star (Chr (false, (((Npos (XO (XO (XO (XO (XI
    XH)))))), (Npos (XI (XO (XO (XI (XI
    XH))))))) :: []))))))))))))))))))))))))))))))))))))))))))))), Eps)), (Cat
    ((Alt ((Group ((S (S (S (S (S (S (S (S (S (S (S (S (S (S (S (S (S (S (S
    (S (S (S (S (S (S (S (S (S (S (S (S (S (S (S (S (S (S (S (S (S (S (S (S
    (S (S (S (S (S (S (S (S (S
    O)))))))))))))))))))))))))))))))))))))))))))))))))))), (Cat ((Cat ((Chr
    (false, (((Npos (XO (XO (XO (XO (XO XH)))))), (Npos (XO (XO (XO (XO (XO
    XH))))))) :: []))), (Star (Chr (false, (((Npos (XO (XO (XO (XO (XO
    XH)))))), (Npos (XO (XO (XO (XO (XO XH))))))) :: [])))))), (Cat ((Chr
    (false, (((Npos (XI (XI (XO (XO (XI (XO XH))))))), (Npos (XI (XI (XO (XO
    (XI (XO XH)))))))) :: []))), (Cat ((Chr (false, (((Npos (XI (XO (XO (XI
    (XI (XO XH))))))), (Npos (XI (XO (XO (XI (XI (XO XH)))))))) :: []))),
    (Cat ((Chr (false, (((Npos (XO (XI (XI (XI (XO (XO XH))))))), (Npos (XO
    (XI (XI (XI (XO (XO XH)))))))) :: []))), (Cat ((Chr (false, (((Npos (XO
    (XO (XI (XO (XI (XO XH))))))), (Npos (XO (XO (XI (XO (XI (XO
    XH)))))))) :: []))), (Cat ((Chr (false, (((Npos (XI (XO (XO (XO (XO (XO
    XH))))))), (Npos (XI (XO (XO (XO (XO (XO XH)))))))) :: []))), (Cat ((Chr
    (false, (((Npos (XO (XO (XO (XI (XI (XO XH))))))), (Npos (XO (XO (XO (XI
    (XI (XO XH)))))))) :: []))), (Cat ((Cat ((Chr (false, (((Npos (XO (XO (XO
    (XO (XO XH)))))), (Npos (XO (XO (XO (XO (XO XH))))))) :: []))), (Star
    (Chr (false, (((Npos (XO (XO (XO (XO (XO XH)))))), (Npos (XO (XO (XO (XO
    (XO XH))))))) :: [])))))), (Group ((S (S (S (S (S (S (S (S (S (S (S (S (S
    (S (S (S (S (S (S (S (S (S (S (S (S (S (S (S (S (S (S (S (S (S (S (S (S
    (S (S (S (S (S (S (S (S (S (S (S (S (S (S (S (S
    O))))))))))))))))))))))))))))))))))))))))))))))))))))), (Alt ((Cat
    ((Group ((S (S (S (S (S (S (S (S (S (S (S (S (S (S (S (S (S (S (S (S (S
    (S (S (S (S (S (S (S (S (S (S (S (S (S (S (S (S (S (S (S (S (S (S (S (S
    (S (S (S (S (S (S (S (S (S
    O)))))))))))))))))))))))))))))))))))))))))))))))))))))), (Alt ((Chr
    (false, (((Npos (XO (XO (XO (XO (XI XH)))))), (Npos (XI (XO (XO (XI (XI
    XH))))))) :: []))), (Cat ((Chr (false, (((Npos (XI (XO (XO (XO (XI
    XH)))))), (Npos (XI (XO (XO (XI (XI XH))))))) :: []))), (Cat ((Chr
    (false, (((Npos (XO (XO (XO (XO (XI XH)))))), (Npos (XI (XO (XO (XI (XI
    XH))))))) :: []))), (Star (Chr (false, (((Npos (XO (XO (XO (XO (XI
    XH)))))), (Npos (XI (XO (XO (XI (XI XH))))))) :: [])))))))))))), (Cat
    ((Cat ((Group ((S (S (S (S (S (S (S (S (S (S (S (S (S (S (S (S (S (S (S
    (S (S (S (S (S (S (S (S (S (S (S (S (S (S (S (S (S (S (S (S (S (S (S (S
    (S (S (S (S (S (S (S (S (S (S (S (S
    O))))))))))))))))))))))))))))))))))))))))))))))))))))))), (Cat ((Chr
    (false, (((Npos (XO (XI (XI (XI (XO XH)))))), (Npos (XO (XI (XI (XI (XO
    XH))))))) :: []))), (Group ((S (S (S (S (S (S (S (S (S (S (S (S (S (S (S
    (S (S (S (S (S (S (S (S (S (S (S (S (S (S (S (S (S (S (S (S (S (S (S (S
    (S (S (S (S (S (S (S (S (S (S (S (S (S (S (S (S (S
    O)))))))))))))))))))))))))))))))))))))))))))))))))))))))), (Alt ((Chr
    (false, (((Npos (XO (XO (XO (XO (XI XH)))))), (Npos (XI (XO (XO (XI (XI
    XH))))))) :: []))), (Cat ((Chr (false, (((Npos (XI (XO (XO (XO (XI
    XH)))))), (Npos (XI (XO (XO (XI (XI XH))))))) :: []))), (Cat ((Chr
    (false, (((Npos (XO (XO (XO (XO (XI XH)))))), (Npos (XI (XO (XO (XI (XI
    XH))))))) :: []))), (Star (Chr (false, (((Npos (XO (XO (XO (XO (XI
    XH)))))), (Npos (XI (XO (XO (XI (XI XH))))))) :: [])))))))))))))))),
    (Star (Group ((S (S (S (S (S (S (S (S (S (S (S (S (S (S (S (S (S (S (S (S
    (S (S (S (S (S (S (S (S (S (S (S (S (S (S (S (S (S (S (S (S (S (S (S (S
    (S (S (S (S (S (S (S (S (S (S (S
    O))))))))))))))))))))))))))))))))))))))))))))))))))))))), (Cat ((Chr
    (false, (((Npos (XO (XI (XI (XI (XO XH)))))), (Npos (XO (XI (XI (XI (XO
    XH))))))) :: []))), (Group ((S (S (S (S (S (S (S (S (S (S (S (S (S (S (S
    (S (S (S (S (S (S (S (S (S (S (S (S (S (S (S (S (S (S (S (S (S (S (S (S
    (S (S (S (S (S (S (S (S (S (S (S (S (S (S (S (S (S
    O)))))))))))))))))))))))))))))))))))))))))))))))))))))))), (Alt ((Chr
    (false, (((Npos (XO (XO (XO (XO (XI XH)))))), (Npos (XI (XO (XO (XI (XI
    XH))))))) :: []))), (Cat ((Chr (false, (((Npos (XI (XO (XO (XO (XI
    XH)))))), (Npos (XI (XO (XO (XI (XI XH))))))) :: []))), (Cat ((Chr
    (false, (((Npos (XO (XO (XO (XO (XI XH)))))), (Npos (XI (XO (XO (XI (XI
    XH))))))) :: []))), (Star (Chr (false, (((Npos (XO (XO (XO (XO (XI
    XH)))))), (Npos (XI (XO (XO (XI (XI XH))))))) :: []))))))))))))))))))),
    (Alt ((Group ((S (S (S (S (S (S (S (S (S (S (S (S (S (S (S (S (S (S (S (S
    (S (S (S (S (S (S (S (S (S (S (S (S (S (S (S (S (S (S (S (S (S (S (S (S
    (S (S (S (S (S (S (S (S (S (S (S (S (S
    O))))))))))))))))))))))))))))))))))))))))))))))))))))))))), (Cat ((Chr
    (false, (((Npos (XI (XI (XO (XI (XI (XI XH))))))), (Npos (XI (XI (XO (XI
    (XI (XI XH)))))))) :: []))), (Cat ((Group ((S (S (S (S (S (S (S (S (S (S
    (S (S (S (S (S (S (S (S (S (S (S (S (S (S (S (S (S (S (S (S (S (S (S (S
    (S (S (S (S (S (S (S (S (S (S (S (S (S (S (S (S (S (S (S (S (S (S (S (S
    O)))))))))))))))))))))))))))))))))))))))))))))))))))))))))), (Alt ((Chr
    (false, (((Npos (XO (XO (XO (XO (XI XH)))))), (Npos (XI (XO (XO (XI (XI
    XH))))))) :: []))), (Cat ((Chr (false, (((Npos (XI (XO (XO (XO (XI
    XH)))))), (Npos (XI (XO (XO (XI (XI XH))))))) :: []))), (Cat ((Chr
    (false, (((Npos (XO (XO (XO (XO (XI XH)))))), (Npos (XI (XO (XO (XI (XI
    XH))))))) :: []))), (Star (Chr (false, (((Npos (XO (XO (XO (XO (XI
    XH)))))), (Npos (XI (XO (XO (XI (XI XH))))))) :: [])))))))))))), (Chr
    (false, (((Npos (XI (XO (XI (XI (XI (XI XH))))))), (Npos (XI (XO (XI (XI
    (XI (XI XH)))))))) :: []))))))))), Eps)))))), (Cat ((Chr (false, (((Npos
    (XI (XI (XI (XO (XO XH)))))), (Npos (XI (XI (XI (XO (XO
    XH))))))) :: []))), (Cat ((Cat ((Group ((S (S (S (S (S (S (S (S (S (S (S
    (S (S (S (S (S (S (S (S (S (S (S (S (S (S (S (S (S (S (S (S (S (S (S (S
    (S (S (S (S (S (S (S (S (S (S (S (S (S (S (S (S (S (S (S (S (S (S (S (S
    O))))))))))))))))))))))))))))))))))))))))))))))))))))))))))), (Alt ((Cat
    ((Chr (false, (((Npos (XO (XO (XI (XI (XI (XO XH))))))), (Npos (XO (XO
    (XI (XI (XI (XO XH)))))))) :: []))), (Cat ((Chr (false, (((Npos (XI (XO
    (XI (XO (XI XH)))))), (Npos (XI (XO (XI (XO (XI XH))))))) :: []))), (Chr
    (false, (((Npos (XI (XI (XO (XO (XO (XO XH))))))), (Npos (XI (XI (XO (XO
    (XO (XO XH)))))))) :: (((Npos (XI (XI (XO (XO (XO (XI XH))))))), (Npos
    (XI (XI (XO (XO (XO (XI XH)))))))) :: [])))))))), (Alt ((Cat ((Chr
    (false, (((Npos (XO (XO (XI (XI (XI (XO XH))))))), (Npos (XO (XO (XI (XI
    (XI (XO XH)))))))) :: []))), (Cat ((Chr (false, (((Npos (XO (XI (XO (XO
    (XI XH)))))), (Npos (XO (XI (XO (XO (XI XH))))))) :: []))), (Chr (false,
    (((Npos (XI (XI (XI (XO (XI XH)))))), (Npos (XI (XI (XI (XO (XI
    XH))))))) :: []))))))), (Chr (true, (((Npos (XI (XI (XI (XO (XO XH)))))),
    (Npos (XI (XI (XI (XO (XO XH))))))) :: (((Npos (XO (XO (XI (XI (XI (XO
    XH))))))), (Npos (XO (XO (XI (XI (XI (XO XH)))))))) :: [])))))))))),
    (Star (Group ((S (S (S (S (S (S (S (S (S (S (S (S (S (S (S (S (S (S (S (S
    (S (S (S (S (S (S (S (S (S (S (S (S (S (S (S (S (S (S (S (S (S (S (S (S
    (S (S (S (S (S (S (S (S (S (S (S (S (S (S (S
    O))))))))))))))))))))))))))))))))))))))))))))))))))))))))))), (Alt ((Cat
    ((Chr (false, (((Npos (XO (XO (XI (XI (XI (XO XH))))))), (Npos (XO (XO
    (XI (XI (XI (XO XH)))))))) :: []))), (Cat ((Chr (false, (((Npos (XI (XO
    (XI (XO (XI XH)))))), (Npos (XI (XO (XI (XO (XI XH))))))) :: []))), (Chr
    (false, (((Npos (XI (XI (XO (XO (XO (XO XH))))))), (Npos (XI (XI (XO (XO
    (XO (XO XH)))))))) :: (((Npos (XI (XI (XO (XO (XO (XI XH))))))), (Npos
    (XI (XI (XO (XO (XO (XI XH)))))))) :: [])))))))), (Alt ((Cat ((Chr
    (false, (((Npos (XO (XO (XI (XI (XI (XO XH))))))), (Npos (XO (XO (XI (XI
    (XI (XO XH)))))))) :: []))), (Cat ((Chr (false, (((Npos (XO (XI (XO (XO
    (XI XH)))))), (Npos (XO (XI (XO (XO (XI XH))))))) :: []))), (Chr (false,
    (((Npos (XI (XI (XI (XO (XI XH)))))), (Npos (XI (XI (XI (XO (XI
    XH))))))) :: []))))))), (Chr (true, (((Npos (XI (XI (XI (XO (XO XH)))))),
    (Npos (XI (XI (XI (XO (XO XH))))))) :: (((Npos (XO (XO (XI (XI (XI (XO
    XH))))))), (Npos (XO (XO (XI (XI (XI (XO XH)))))))) :: []))))))))))))),
    (Chr (false, (((Npos (XI (XI (XI (XO (XO XH)))))), (Npos (XI (XI (XI (XO
    (XO XH))))))) :: []))))))))))))))))))))))))))))), Eps)), (Cat ((Alt
    ((Group ((S (S (S (S (S (S (S (S (S (S (S (S (S (S (S (S (S (S (S (S (S
    (S (S (S (S (S (S (S (S (S (S (S (S (S (S (S (S (S (S (S (S (S (S (S (S
    (S (S (S (S (S (S (S (S (S (S (S (S (S (S (S
    O)))))))))))))))))))))))))))))))))))))))))))))))))))))))))))), (Cat ((Cat
    ((Chr (false, (((Npos (XO (XO (XO (XO (XO XH)))))), (Npos (XO (XO (XO (XO
    (XO XH))))))) :: []))), (Star (Chr (false, (((Npos (XO (XO (XO (XO (XO
    XH)))))), (Npos (XO (XO (XO (XO (XO XH))))))) :: [])))))), (Cat ((Chr
    (false, (((Npos (XI (XI (XO (XO (XI (XO XH))))))), (Npos (XI (XI (XO (XO
    (XI (XO XH)))))))) :: []))), (Cat ((Chr (false, (((Npos (XI (XO (XO (XI
    (XO (XO XH))))))), (Npos (XI (XO (XO (XI (XO (XO XH)))))))) :: []))),
    (Cat ((Chr (false, (((Npos (XO (XI (XI (XI (XO (XO XH))))))), (Npos (XO
    (XI (XI (XI (XO (XO XH)))))))) :: []))), (Cat ((Chr (false, (((Npos (XI
    (XI (XI (XO (XO (XO XH))))))), (Npos (XI (XI (XI (XO (XO (XO
    XH)))))))) :: []))), (Cat ((Chr (false, (((Npos (XO (XO (XI (XI (XO (XO
    XH))))))), (Npos (XO (XO (XI (XI (XO (XO XH)))))))) :: []))), (Cat ((Chr
    (false, (((Npos (XI (XO (XI (XO (XO (XO XH))))))), (Npos (XI (XO (XI (XO
    (XO (XO XH)))))))) :: []))), (Cat ((Chr (false, (((Npos (XI (XO (XI (XI
    (XO XH)))))), (Npos (XI (XO (XI (XI (XO XH))))))) :: []))), (Cat ((Chr
    (false, (((Npos (XO (XI (XI (XO (XI (XO XH))))))), (Npos (XO (XI (XI (XO
    (XI (XO XH)))))))) :: []))), (Cat ((Chr (false, (((Npos (XI (XO (XO (XO
    (XO (XO XH))))))), (Npos (XI (XO (XO (XO (XO (XO XH)))))))) :: []))),
    (Cat ((Chr (false, (((Npos (XO (XO (XI (XI (XO (XO XH))))))), (Npos (XO
    (XO (XI (XI (XO (XO XH)))))))) :: []))), (Cat ((Chr (false, (((Npos (XI
    (XO (XI (XO (XI (XO XH))))))), (Npos (XI (XO (XI (XO (XI (XO
    XH)))))))) :: []))), (Chr (false, (((Npos (XI (XO (XI (XO (XO (XO
    XH))))))), (Npos (XI (XO (XI (XO (XO (XO
    XH)))))))) :: []))))))))))))))))))))))))))))), Eps)), (Cat ((Alt ((Group
    ((S (S (S (S (S (S (S (S (S (S (S (S (S (S (S (S (S (S (S (S (S (S (S (S
    (S (S (S (S (S (S (S (S (S (S (S (S (S (S (S (S (S (S (S (S (S (S (S (S
    (S (S (S (S (S (S (S (S (S (S (S (S (S
    O))))))))))))))))))))))))))))))))))))))))))))))))))))))))))))), (Cat
    ((Cat ((Chr (false, (((Npos (XO (XO (XO (XO (XO XH)))))), (Npos (XO (XO
    (XO (XO (XO XH))))))) :: []))), (Star (Chr (false, (((Npos (XO (XO (XO
    (XO (XO XH)))))), (Npos (XO (XO (XO (XO (XO XH))))))) :: [])))))), (Cat
    ((Chr (false, (((Npos (XI (XI (XO (XO (XO (XO XH))))))), (Npos (XI (XI
    (XO (XO (XO (XO XH)))))))) :: []))), (Cat ((Chr (false, (((Npos (XI (XI
    (XI (XI (XO (XO XH))))))), (Npos (XI (XI (XI (XI (XO (XO
    XH)))))))) :: []))), (Cat ((Chr (false, (((Npos (XO (XO (XI (XI (XO (XO
    XH))))))), (Npos (XO (XO (XI (XI (XO (XO XH)))))))) :: []))), (Cat ((Chr
    (false, (((Npos (XO (XO (XI (XI (XO (XO XH))))))), (Npos (XO (XO (XI (XI
    (XO (XO XH)))))))) :: []))), (Cat ((Chr (false, (((Npos (XI (XO (XI (XO
    (XO (XO XH))))))), (Npos (XI (XO (XI (XO (XO (XO XH)))))))) :: []))),
    (Cat ((Chr (false, (((Npos (XI (XI (XO (XO (XO (XO XH))))))), (Npos (XI
    (XI (XO (XO (XO (XO XH)))))))) :: []))), (Cat ((Chr (false, (((Npos (XO
    (XO (XI (XO (XI (XO XH))))))), (Npos (XO (XO (XI (XO (XI (XO
    XH)))))))) :: []))), (Cat ((Chr (false, (((Npos (XI (XO (XO (XI (XO (XO
    XH))))))), (Npos (XI (XO (XO (XI (XO (XO XH)))))))) :: []))), (Cat ((Chr
    (false, (((Npos (XO (XI (XI (XO (XI (XO XH))))))), (Npos (XO (XI (XI (XO
    (XI (XO XH)))))))) :: []))), (Chr (false, (((Npos (XI (XO (XI (XO (XO (XO
    XH))))))), (Npos (XI (XO (XI (XO (XO (XO
    XH)))))))) :: []))))))))))))))))))))))))), Eps)), (Cat ((Alt ((Group ((S
    (S (S (S (S (S (S (S (S (S (S (S (S (S (S (S (S (S (S (S (S (S (S (S (S
    (S (S (S (S (S (S (S (S (S (S (S (S (S (S (S (S (S (S (S (S (S (S (S (S
    (S (S (S (S (S (S (S (S (S (S (S (S (S
    O)))))))))))))))))))))))))))))))))))))))))))))))))))))))))))))), (Cat
    ((Cat ((Chr (false, (((Npos (XO (XO (XO (XO (XO XH)))))), (Npos (XO (XO
    (XO (XO (XO XH))))))) :: []))), (Star (Chr (false, (((Npos (XO (XO (XO
    (XO (XO XH)))))), (Npos (XO (XO (XO (XO (XO XH))))))) :: [])))))), (Cat
    ((Chr (false, (((Npos (XO (XI (XI (XI (XO (XO XH))))))), (Npos (XO (XI
    (XI (XI (XO (XO XH)))))))) :: []))), (Cat ((Chr (false, (((Npos (XI (XI
    (XI (XI (XO (XO XH))))))), (Npos (XI (XI (XI (XI (XO (XO
    XH)))))))) :: []))), (Cat ((Chr (false, (((Npos (XI (XO (XI (XI (XO
    XH)))))), (Npos (XI (XO (XI (XI (XO XH))))))) :: []))), (Cat ((Chr
    (false, (((Npos (XI (XO (XI (XO (XI (XO XH))))))), (Npos (XI (XO (XI (XO
    (XI (XO XH)))))))) :: []))), (Cat ((Chr (false, (((Npos (XI (XI (XO (XO
    (XI (XO XH))))))), (Npos (XI (XI (XO (XO (XI (XO XH)))))))) :: []))),
    (Cat ((Chr (false, (((Npos (XI (XO (XI (XO (XO (XO XH))))))), (Npos (XI
    (XO (XI (XO (XO (XO XH)))))))) :: []))), (Cat ((Chr (false, (((Npos (XO
    (XI (XO (XO (XI (XO XH))))))), (Npos (XO (XI (XO (XO (XI (XO
    XH)))))))) :: []))), (Cat ((Chr (false, (((Npos (XI (XO (XI (XI (XO
    XH)))))), (Npos (XI (XO (XI (XI (XO XH))))))) :: []))), (Cat ((Chr
    (false, (((Npos (XI (XO (XI (XI (XO (XO XH))))))), (Npos (XI (XO (XI (XI
    (XO (XO XH)))))))) :: []))), (Cat ((Chr (false, (((Npos (XI (XI (XI (XI
    (XO (XO XH))))))), (Npos (XI (XI (XI (XI (XO (XO XH)))))))) :: []))),
    (Cat ((Chr (false, (((Npos (XO (XO (XI (XO (XO (XO XH))))))), (Npos (XO
    (XO (XI (XO (XO (XO XH)))))))) :: []))), (Cat ((Chr (false, (((Npos (XI
    (XO (XO (XI (XO (XO XH))))))), (Npos (XI (XO (XO (XI (XO (XO
    XH)))))))) :: []))), (Cat ((Chr (false, (((Npos (XO (XI (XI (XO (XO (XO
    XH))))))), (Npos (XO (XI (XI (XO (XO (XO XH)))))))) :: []))), (Cat ((Chr
    (false, (((Npos (XI (XO (XO (XI (XO (XO XH))))))), (Npos (XI (XO (XO (XI
    (XO (XO XH)))))))) :: []))), (Cat ((Chr (false, (((Npos (XI (XI (XO (XO
    (XO (XO XH))))))), (Npos (XI (XI (XO (XO (XO (XO XH)))))))) :: []))),
    (Cat ((Chr (false, (((Npos (XI (XO (XO (XO (XO (XO XH))))))), (Npos (XI
    (XO (XO (XO (XO (XO XH)))))))) :: []))), (Cat ((Chr (false, (((Npos (XO
    (XO (XI (XO (XI (XO XH))))))), (Npos (XO (XO (XI (XO (XI (XO
    XH)))))))) :: []))), (Cat ((Chr (false, (((Npos (XI (XO (XO (XI (XO (XO
    XH))))))), (Npos (XI (XO (XO (XI (XO (XO XH)))))))) :: []))), (Cat ((Chr
    (false, (((Npos (XI (XI (XI (XI (XO (XO XH))))))), (Npos (XI (XI (XI (XI
    (XO (XO XH)))))))) :: []))), (Chr (false, (((Npos (XO (XI (XI (XI (XO (XO
    XH))))))), (Npos (XO (XI (XI (XI (XO (XO
    XH)))))))) :: []))))))))))))))))))))))))))))))))))))))))))))), Eps)),
    (Cat ((Alt ((Group ((S (S (S (S (S (S (S (S (S (S (S (S (S (S (S (S (S (S
    (S (S (S (S (S (S (S (S (S (S (S (S (S (S (S (S (S (S (S (S (S (S (S (S
    (S (S (S (S (S (S (S (S (S (S (S (S (S (S (S (S (S (S (S (S (S
    O))))))))))))))))))))))))))))))))))))))))))))))))))))))))))))))), (Cat
    ((Cat ((Chr (false, (((Npos (XO (XO (XO (XO (XO XH)))))), (Npos (XO (XO
    (XO (XO (XO XH))))))) :: []))), (Star (Chr (false, (((Npos (XO (XO (XO
    (XO (XO XH)))))), (Npos (XO (XO (XO (XO (XO XH))))))) :: [])))))), (Cat
    ((Chr (false, (((Npos (XI (XO (XI (XO (XI (XO XH))))))), (Npos (XI (XO
    (XI (XO (XI (XO XH)))))))) :: []))), (Cat ((Chr (false, (((Npos (XI (XI
    (XO (XO (XI (XO XH))))))), (Npos (XI (XI (XO (XO (XI (XO
    XH)))))))) :: []))), (Cat ((Chr (false, (((Npos (XI (XO (XO (XO (XO (XO
    XH))))))), (Npos (XI (XO (XO (XO (XO (XO XH)))))))) :: []))), (Cat ((Chr
    (false, (((Npos (XI (XI (XI (XO (XO (XO XH))))))), (Npos (XI (XI (XI (XO
    (XO (XO XH)))))))) :: []))), (Cat ((Chr (false, (((Npos (XI (XO (XI (XO
    (XO (XO XH))))))), (Npos (XI (XO (XI (XO (XO (XO XH)))))))) :: []))),
    (Cat ((Cat ((Chr (false, (((Npos (XO (XO (XO (XO (XO XH)))))), (Npos (XO
    (XO (XO (XO (XO XH))))))) :: []))), (Star (Chr (false, (((Npos (XO (XO
    (XO (XO (XO XH)))))), (Npos (XO (XO (XO (XO (XO XH))))))) :: [])))))),
    (Group ((S (S (S (S (S (S (S (S (S (S (S (S (S (S (S (S (S (S (S (S (S (S
    (S (S (S (S (S (S (S (S (S (S (S (S (S (S (S (S (S (S (S (S (S (S (S (S
    (S (S (S (S (S (S (S (S (S (S (S (S (S (S (S (S (S (S
    O)))))))))))))))))))))))))))))))))))))))))))))))))))))))))))))))), (Alt
    ((Cat ((Chr (false, (((Npos (XI (XO (XI (XO (XI (XI XH))))))), (Npos (XI
    (XO (XI (XO (XI (XI XH)))))))) :: []))), (Cat ((Chr (false, (((Npos (XI
    (XI (XO (XO (XI (XI XH))))))), (Npos (XI (XI (XO (XO (XI (XI
    XH)))))))) :: []))), (Cat ((Chr (false, (((Npos (XI (XO (XI (XO (XO (XI
    XH))))))), (Npos (XI (XO (XI (XO (XO (XI XH)))))))) :: []))), (Cat ((Chr
    (false, (((Npos (XO (XI (XO (XO (XI (XI XH))))))), (Npos (XO (XI (XO (XO
    (XI (XI XH)))))))) :: []))), (Cat ((Chr (false, (((Npos (XI (XO (XO (XO
    (XO (XO XH))))))), (Npos (XI (XO (XO (XO (XO (XO XH)))))))) :: []))),
    (Cat ((Chr (false, (((Npos (XO (XO (XO (XO (XI (XI XH))))))), (Npos (XO
    (XO (XO (XO (XI (XI XH)))))))) :: []))), (Cat ((Chr (false, (((Npos (XO
    (XO (XO (XO (XI (XI XH))))))), (Npos (XO (XO (XO (XO (XI (XI
    XH)))))))) :: []))), (Cat ((Chr (false, (((Npos (XO (XO (XI (XI (XO (XI
    XH))))))), (Npos (XO (XO (XI (XI (XO (XI XH)))))))) :: []))), (Cat ((Chr
    (false, (((Npos (XI (XO (XO (XI (XO (XI XH))))))), (Npos (XI (XO (XO (XI
    (XO (XI XH)))))))) :: []))), (Cat ((Chr (false, (((Npos (XI (XI (XO (XO
    (XO (XI XH))))))), (Npos (XI (XI (XO (XO (XO (XI XH)))))))) :: []))),
    (Cat ((Chr (false, (((Npos (XI (XO (XO (XO (XO (XI XH))))))), (Npos (XI
    (XO (XO (XO (XO (XI XH)))))))) :: []))), (Cat ((Chr (false, (((Npos (XO
    (XO (XI (XO (XI (XI XH))))))), (Npos (XO (XO (XI (XO (XI (XI
    XH)))))))) :: []))), (Cat ((Chr (false, (((Npos (XI (XO (XO (XI (XO (XI
    XH))))))), (Npos (XI (XO (XO (XI (XO (XI XH)))))))) :: []))), (Cat ((Chr
    (false, (((Npos (XI (XI (XI (XI (XO (XI XH))))))), (Npos (XI (XI (XI (XI
    (XO (XI XH)))))))) :: []))), (Cat ((Chr (false, (((Npos (XO (XI (XI (XI
    (XO (XI XH))))))), (Npos (XO (XI (XI (XI (XO (XI XH)))))))) :: []))),
    (Chr (false, (((Npos (XI (XI (XO (XO (XI (XI XH))))))), (Npos (XI (XI (XO
    (XO (XI (XI XH)))))))) :: []))))))))))))))))))))))))))))))))), (Alt ((Cat
    ((Chr (false, (((Npos (XO (XO (XI (XO (XO (XI XH))))))), (Npos (XO (XO
    (XI (XO (XO (XI XH)))))))) :: []))), (Cat ((Chr (false, (((Npos (XI (XO
    (XO (XI (XO (XI XH))))))), (Npos (XI (XO (XO (XI (XO (XI
    XH)))))))) :: []))), (Cat ((Chr (false, (((Npos (XO (XI (XO (XO (XI (XI
    XH))))))), (Npos (XO (XI (XO (XO (XI (XI XH)))))))) :: []))), (Cat ((Chr
    (false, (((Npos (XI (XO (XI (XO (XO (XI XH))))))), (Npos (XI (XO (XI (XO
    (XO (XI XH)))))))) :: []))), (Cat ((Chr (false, (((Npos (XI (XI (XO (XO
    (XO (XI XH))))))), (Npos (XI (XI (XO (XO (XO (XI XH)))))))) :: []))),
    (Cat ((Chr (false, (((Npos (XO (XO (XI (XO (XI (XI XH))))))), (Npos (XO
    (XO (XI (XO (XI (XI XH)))))))) :: []))), (Cat ((Chr (false, (((Npos (XI
    (XI (XI (XI (XO (XI XH))))))), (Npos (XI (XI (XI (XI (XO (XI
    XH)))))))) :: []))), (Cat ((Chr (false, (((Npos (XO (XI (XO (XO (XI (XI
    XH))))))), (Npos (XO (XI (XO (XO (XI (XI XH)))))))) :: []))), (Cat ((Chr
    (false, (((Npos (XI (XO (XO (XI (XI (XI XH))))))), (Npos (XI (XO (XO (XI
    (XI (XI XH)))))))) :: []))), (Cat ((Chr (false, (((Npos (XI (XI (XI (XI
    (XO (XO XH))))))), (Npos (XI (XI (XI (XI (XO (XO XH)))))))) :: []))),
    (Cat ((Chr (false, (((Npos (XO (XO (XO (XO (XI (XI XH))))))), (Npos (XO
    (XO (XO (XO (XI (XI XH)))))))) :: []))), (Cat ((Chr (false, (((Npos (XI
    (XO (XI (XO (XO (XI XH))))))), (Npos (XI (XO (XI (XO (XO (XI
    XH)))))))) :: []))), (Cat ((Chr (false, (((Npos (XO (XI (XO (XO (XI (XI
    XH))))))), (Npos (XO (XI (XO (XO (XI (XI XH)))))))) :: []))), (Cat ((Chr
    (false, (((Npos (XI (XO (XO (XO (XO (XI XH))))))), (Npos (XI (XO (XO (XO
    (XO (XI XH)))))))) :: []))), (Cat ((Chr (false, (((Npos (XO (XO (XI (XO
    (XI (XI XH))))))), (Npos (XO (XO (XI (XO (XI (XI XH)))))))) :: []))),
    (Cat ((Chr (false, (((Npos (XI (XO (XO (XI (XO (XI XH))))))), (Npos (XI
    (XO (XO (XI (XO (XI XH)))))))) :: []))), (Cat ((Chr (false, (((Npos (XI
    (XI (XI (XI (XO (XI XH))))))), (Npos (XI (XI (XI (XI (XO (XI
    XH)))))))) :: []))), (Chr (false, (((Npos (XO (XI (XI (XI (XO (XI
    XH))))))), (Npos (XO (XI (XI (XI (XO (XI
    XH)))))))) :: []))))))))))))))))))))))))))))))))))))), (Alt ((Cat ((Chr
    (false, (((Npos (XO (XO (XI (XO (XO (XI XH))))))), (Npos (XO (XO (XI (XO
    (XO (XI XH)))))))) :: []))), (Cat ((Chr (false, (((Npos (XI (XO (XO (XI
    (XO (XI XH))))))), (Npos (XI (XO (XO (XI (XO (XI XH)))))))) :: []))),
    (Cat ((Chr (false, (((Npos (XI (XI (XO (XO (XI (XI XH))))))), (Npos (XI
    (XI (XO (XO (XI (XI XH)))))))) :: []))), (Cat ((Chr (false, (((Npos (XO
    (XO (XI (XO (XI (XI XH))))))), (Npos (XO (XO (XI (XO (XI (XI
    XH)))))))) :: []))), (Cat ((Chr (false, (((Npos (XO (XI (XO (XO (XI (XI
    XH))))))), (Npos (XO (XI (XO (XO (XI (XI XH)))))))) :: []))), (Cat ((Chr
    (false, (((Npos (XI (XO (XO (XI (XO (XI XH))))))), (Npos (XI (XO (XO (XI
    (XO (XI XH)))))))) :: []))), (Cat ((Chr (false, (((Npos (XO (XI (XO (XO
    (XO (XI XH))))))), (Npos (XO (XI (XO (XO (XO (XI XH)))))))) :: []))),
    (Cat ((Chr (false, (((Npos (XI (XO (XI (XO (XI (XI XH))))))), (Npos (XI
    (XO (XI (XO (XI (XI XH)))))))) :: []))), (Cat ((Chr (false, (((Npos (XO
    (XO (XI (XO (XI (XI XH))))))), (Npos (XO (XO (XI (XO (XI (XI
    XH)))))))) :: []))), (Cat ((Chr (false, (((Npos (XI (XO (XI (XO (XO (XI
    XH))))))), (Npos (XI (XO (XI (XO (XO (XI XH)))))))) :: []))), (Cat ((Chr
    (false, (((Npos (XO (XO (XI (XO (XO (XI XH))))))), (Npos (XO (XO (XI (XO
    (XO (XI XH)))))))) :: []))), (Cat ((Chr (false, (((Npos (XI (XI (XI (XI
    (XO (XO XH))))))), (Npos (XI (XI (XI (XI (XO (XO XH)))))))) :: []))),
    (Cat ((Chr (false, (((Npos (XO (XO (XO (XO (XI (XI XH))))))), (Npos (XO
    (XO (XO (XO (XI (XI XH)))))))) :: []))), (Cat ((Chr (false, (((Npos (XI
    (XO (XI (XO (XO (XI XH))))))), (Npos (XI (XO (XI (XO (XO (XI
    XH)))))))) :: []))), (Cat ((Chr (false, (((Npos (XO (XI (XO (XO (XI (XI
    XH))))))), (Npos (XO (XI (XO (XO (XI (XI XH)))))))) :: []))), (Cat ((Chr
    (false, (((Npos (XI (XO (XO (XO (XO (XI XH))))))), (Npos (XI (XO (XO (XO
    (XO (XI XH)))))))) :: []))), (Cat ((Chr (false, (((Npos (XO (XO (XI (XO
    (XI (XI XH))))))), (Npos (XO (XO (XI (XO (XI (XI XH)))))))) :: []))),
    (Cat ((Chr (false, (((Npos (XI (XO (XO (XI (XO (XI XH))))))), (Npos (XI
    (XO (XO (XI (XO (XI XH)))))))) :: []))), (Cat ((Chr (false, (((Npos (XI
    (XI (XI (XI (XO (XI XH))))))), (Npos (XI (XI (XI (XI (XO (XI
    XH)))))))) :: []))), (Chr (false, (((Npos (XO (XI (XI (XI (XO (XI
    XH))))))), (Npos (XO (XI (XI (XI (XO (XI
    XH)))))))) :: []))))))))))))))))))))))))))))))))))))))))), (Cat ((Chr
    (false, (((Npos (XO (XO (XI (XO (XO (XI XH))))))), (Npos (XO (XO (XI (XO
    (XO (XI XH)))))))) :: []))), (Cat ((Chr (false, (((Npos (XI (XI (XO (XO
    (XI (XO XH))))))), (Npos (XI (XI (XO (XO (XI (XO XH)))))))) :: []))),
    (Cat ((Chr (false, (((Npos (XI (XO (XO (XO (XO (XO XH))))))), (Npos (XI
    (XO (XO (XO (XO (XO XH)))))))) :: []))), (Cat ((Chr (false, (((Npos (XI
    (XI (XI (XI (XO (XO XH))))))), (Npos (XI (XI (XI (XI (XO (XO
    XH)))))))) :: []))), (Cat ((Chr (false, (((Npos (XO (XO (XO (XO (XI (XI
    XH))))))), (Npos (XO (XO (XO (XO (XI (XI XH)))))))) :: []))), (Cat ((Chr
    (false, (((Npos (XI (XO (XI (XO (XO (XI XH))))))), (Npos (XI (XO (XI (XO
    (XO (XI XH)))))))) :: []))), (Cat ((Chr (false, (((Npos (XO (XI (XO (XO
    (XI (XI XH))))))), (Npos (XO (XI (XO (XO (XI (XI XH)))))))) :: []))),
    (Cat ((Chr (false, (((Npos (XI (XO (XO (XO (XO (XI XH))))))), (Npos (XI
    (XO (XO (XO (XO (XI XH)))))))) :: []))), (Cat ((Chr (false, (((Npos (XO
    (XO (XI (XO (XI (XI XH))))))), (Npos (XO (XO (XI (XO (XI (XI
    XH)))))))) :: []))), (Cat ((Chr (false, (((Npos (XI (XO (XO (XI (XO (XI
    XH))))))), (Npos (XI (XO (XO (XI (XO (XI XH)))))))) :: []))), (Cat ((Chr
    (false, (((Npos (XI (XI (XI (XI (XO (XI XH))))))), (Npos (XI (XI (XI (XI
    (XO (XI XH)))))))) :: []))), (Chr (false, (((Npos (XO (XI (XI (XI (XO (XI
    XH))))))), (Npos (XO (XI (XI (XI (XO (XI
    XH)))))))) :: []))))))))))))))))))))))))))))))))))))))))))))))))), Eps)),
    (Cat ((Group ((S (S (S (S (S (S (S (S (S (S (S (S (S (S (S (S (S (S (S (S
    (S (S (S (S (S (S (S (S (S (S (S (S (S (S (S (S (S (S (S (S (S (S (S (S
    (S (S (S (S (S (S (S (S (S (S (S (S (S (S (S (S (S (S (S (S (S
    O))))))))))))))))))))))))))))))))))))))))))))))))))))))))))))))))), (Star
    (Group ((S (S (S (S (S (S (S (S (S (S (S (S (S (S (S (S (S (S (S (S (S (S
    (S (S (S (S (S (S (S (S (S (S (S (S (S (S (S (S (S (S (S (S (S (S (S (S
    (S (S (S (S (S (S (S (S (S (S (S (S (S (S (S (S (S (S (S (S
    O)))))))))))))))))))))))))))))))))))))))))))))))))))))))))))))))))), (Cat
    ((Cat ((Chr (false, (((Npos (XO (XO (XO (XO (XO XH)))))), (Npos (XO (XO
    (XO (XO (XO XH))))))) :: []))), (Star (Chr (false, (((Npos (XO (XO (XO
    (XO (XO XH)))))), (Npos (XO (XO (XO (XO (XO XH))))))) :: [])))))), (Cat
    ((Group ((S (S (S (S (S (S (S (S (S (S (S (S (S (S (S (S (S (S (S (S (S
    (S (S (S (S (S (S (S (S (S (S (S (S (S (S (S (S (S (S (S (S (S (S (S (S
    (S (S (S (S (S (S (S (S (S (S (S (S (S (S (S (S (S (S (S (S (S (S
    O))))))))))))))))))))))))))))))))))))))))))))))))))))))))))))))))))),
    (Cat ((Chr (false, (((Npos (XO (XO (XO (XI (XI (XI XH))))))), (Npos (XO
    (XO (XO (XI (XI (XI XH)))))))) :: (((Npos (XO (XO (XO (XI (XI (XO
    XH))))))), (Npos (XO (XO (XO (XI (XI (XO XH)))))))) :: [])))), (Cat ((Chr
    (false, (((Npos (XI (XO (XI (XI (XO XH)))))), (Npos (XI (XO (XI (XI (XO
    XH))))))) :: []))), (Cat ((Group ((S (S (S (S (S (S (S (S (S (S (S (S (S
    (S (S (S (S (S (S (S (S (S (S (S (S (S (S (S (S (S (S (S (S (S (S (S (S
    (S (S (S (S (S (S (S (S (S (S (S (S (S (S (S (S (S (S (S (S (S (S (S (S
    (S (S (S (S (S (S (S
    O)))))))))))))))))))))))))))))))))))))))))))))))))))))))))))))))))))),
    (Chr (false, (((Npos (XI (XO (XO (XO (XO (XI XH))))))), (Npos (XO (XI (XO
    (XI (XI (XI XH)))))))) :: (((Npos (XI (XO (XO (XO (XO (XO XH))))))),
    (Npos (XO (XI (XO (XI (XI (XO XH)))))))) :: (((Npos (XI (XO (XI (XI (XO
    XH)))))), (Npos (XI (XO (XI (XI (XO XH))))))) :: (((Npos (XI (XI (XI (XI
    (XI (XO XH))))))), (Npos (XI (XI (XI (XI (XI (XO
    XH)))))))) :: [])))))))), (Star (Group ((S (S (S (S (S (S (S (S (S (S (S
    (S (S (S (S (S (S (S (S (S (S (S (S (S (S (S (S (S (S (S (S (S (S (S (S
    (S (S (S (S (S (S (S (S (S (S (S (S (S (S (S (S (S (S (S (S (S (S (S (S
    (S (S (S (S (S (S (S (S (S
    O)))))))))))))))))))))))))))))))))))))))))))))))))))))))))))))))))))),
    (Chr (false, (((Npos (XI (XO (XO (XO (XO (XI XH))))))), (Npos (XO (XI (XO
    (XI (XI (XI XH)))))))) :: (((Npos (XI (XO (XO (XO (XO (XO XH))))))),
    (Npos (XO (XI (XO (XI (XI (XO XH)))))))) :: (((Npos (XI (XO (XI (XI (XO
    XH)))))), (Npos (XI (XO (XI (XI (XO XH))))))) :: (((Npos (XI (XI (XI (XI
    (XI (XO XH))))))), (Npos (XI (XI (XI (XI (XI (XO
    XH)))))))) :: []))))))))))))))))), (Cat ((Cat ((Chr (false, (((Npos (XO
    (XO (XO (XO (XO XH)))))), (Npos (XO (XO (XO (XO (XO XH))))))) :: []))),
    (Star (Chr (false, (((Npos (XO (XO (XO (XO (XO XH)))))), (Npos (XO (XO
    (XO (XO (XO XH))))))) :: [])))))), (Group ((S (S (S (S (S (S (S (S (S (S
    (S (S (S (S (S (S (S (S (S (S (S (S (S (S (S (S (S (S (S (S (S (S (S (S
    (S (S (S (S (S (S (S (S (S (S (S (S (S (S (S (S (S (S (S (S (S (S (S (S
    (S (S (S (S (S (S (S (S (S (S (S
    O))))))))))))))))))))))))))))))))))))))))))))))))))))))))))))))))))))),
    (Alt ((Cat ((Chr (false, (((Npos (XI (XI (XI (XO (XO XH)))))), (Npos (XI
    (XI (XI (XO (XO XH))))))) :: []))), (Cat ((Cat ((Group ((S (S (S (S (S (S
    (S (S (S (S (S (S (S (S (S (S (S (S (S (S (S (S (S (S (S (S (S (S (S (S
    (S (S (S (S (S (S (S (S (S (S (S (S (S (S (S (S (S (S (S (S (S (S (S (S
    (S (S (S (S (S (S (S (S (S (S (S (S (S (S (S (S
    O)))))))))))))))))))))))))))))))))))))))))))))))))))))))))))))))))))))),
    (Alt ((Cat ((Chr (false, (((Npos (XO (XO (XI (XI (XI (XO XH))))))), (Npos
    (XO (XO (XI (XI (XI (XO XH)))))))) :: []))), (Cat ((Chr (false, (((Npos
    (XI (XO (XI (XO (XI XH)))))), (Npos (XI (XO (XI (XO (XI
    XH))))))) :: []))), (Chr (false, (((Npos (XI (XI (XO (XO (XO (XO
    XH))))))), (Npos (XI (XI (XO (XO (XO (XO XH)))))))) :: (((Npos (XI (XI
    (XO (XO (XO (XI XH))))))), (Npos (XI (XI (XO (XO (XO (XI
    XH)))))))) :: [])))))))), (Alt ((Cat ((Chr (false, (((Npos (XO (XO (XI
    (XI (XI (XO XH))))))), (Npos (XO (XO (XI (XI (XI (XO XH)))))))) :: []))),
    (Cat ((Chr (false, (((Npos (XO (XI (XO (XO (XI XH)))))), (Npos (XO (XI
    (XO (XO (XI XH))))))) :: []))), (Chr (false, (((Npos (XI (XI (XI (XO (XI
    XH)))))), (Npos (XI (XI (XI (XO (XI XH))))))) :: []))))))), (Chr (true,
    (((Npos (XI (XI (XI (XO (XO XH)))))), (Npos (XI (XI (XI (XO (XO
    XH))))))) :: (((Npos (XO (XO (XI (XI (XI (XO XH))))))), (Npos (XO (XO (XI
    (XI (XI (XO XH)))))))) :: [])))))))))), (Star (Group ((S (S (S (S (S (S
    (S (S (S (S (S (S (S (S (S (S (S (S (S (S (S (S (S (S (S (S (S (S (S (S
    (S (S (S (S (S (S (S (S (S (S (S (S (S (S (S (S (S (S (S (S (S (S (S (S
    (S (S (S (S (S (S (S (S (S (S (S (S (S (S (S (S
    O)))))))))))))))))))))))))))))))))))))))))))))))))))))))))))))))))))))),
    (Alt ((Cat ((Chr (false, (((Npos (XO (XO (XI (XI (XI (XO XH))))))), (Npos
    (XO (XO (XI (XI (XI (XO XH)))))))) :: []))), (Cat ((Chr (false, (((Npos
    (XI (XO (XI (XO (XI XH)))))), (Npos (XI (XO (XI (XO (XI
    XH))))))) :: []))), (Chr (false, (((Npos (XI (XI (XO (XO (XO (XO
    XH))))))), (Npos (XI (XI (XO (XO (XO (XO XH)))))))) :: (((Npos (XI (XI
    (XO (XO (XO (XI XH))))))), (Npos (XI (XI (XO (XO (XO (XI
    XH)))))))) :: [])))))))), (Alt ((Cat ((Chr (false, (((Npos (XO (XO (XI
    (XI (XI (XO XH))))))), (Npos (XO (XO (XI (XI (XI (XO XH)))))))) :: []))),
    (Cat ((Chr (false, (((Npos (XO (XI (XO (XO (XI XH)))))), (Npos (XO (XI
    (XO (XO (XI XH))))))) :: []))), (Chr (false, (((Npos (XI (XI (XI (XO (XI
    XH)))))), (Npos (XI (XI (XI (XO (XI XH))))))) :: []))))))), (Chr (true,
    (((Npos (XI (XI (XI (XO (XO XH)))))), (Npos (XI (XI (XI (XO (XO
    XH))))))) :: (((Npos (XO (XO (XI (XI (XI (XO XH))))))), (Npos (XO (XO (XI
    (XI (XI (XO XH)))))))) :: []))))))))))))), (Chr (false, (((Npos (XI (XI
    (XI (XO (XO XH)))))), (Npos (XI (XI (XI (XO (XO XH))))))) :: []))))))),
    (Cat ((Chr (false, (((Npos (XO (XO (XO (XI (XO XH)))))), (Npos (XO (XO
    (XO (XI (XO XH))))))) :: []))), (Cat ((Star (Chr (false, (((Npos (XO (XO
    (XO (XO (XO XH)))))), (Npos (XO (XO (XO (XO (XO XH))))))) :: [])))), (Cat
    ((Alt ((Group ((S (S (S (S (S (S (S (S (S (S (S (S (S (S (S (S (S (S (S
    (S (S (S (S (S (S (S (S (S (S (S (S (S (S (S (S (S (S (S (S (S (S (S (S
    (S (S (S (S (S (S (S (S (S (S (S (S (S (S (S (S (S (S (S (S (S (S (S (S
    (S (S (S (S
    O))))))))))))))))))))))))))))))))))))))))))))))))))))))))))))))))))))))),
    (Cat ((Chr (false, (((Npos (XI (XI (XI (XO (XO XH)))))), (Npos (XI (XI
    (XI (XO (XO XH))))))) :: []))), (Cat ((Cat ((Group ((S (S (S (S (S (S (S
    (S (S (S (S (S (S (S (S (S (S (S (S (S (S (S (S (S (S (S (S (S (S (S (S
    (S (S (S (S (S (S (S (S (S (S (S (S (S (S (S (S (S (S (S (S (S (S (S (S
    (S (S (S (S (S (S (S (S (S (S (S (S (S (S (S (S (S
    O)))))))))))))))))))))))))))))))))))))))))))))))))))))))))))))))))))))))),
    (Alt ((Cat ((Chr (false, (((Npos (XO (XO (XI (XI (XI (XO XH))))))), (Npos
    (XO (XO (XI (XI (XI (XO XH)))))))) :: []))), (Cat ((Chr (false, (((Npos
    (XI (XO (XI (XO (XI XH)))))), (Npos (XI (XO (XI (XO (XI
    XH))))))) :: []))), (Chr (false, (((Npos (XI (XI (XO (XO (XO (XO
    XH))))))), (Npos (XI (XI (XO (XO (XO (XO XH)))))))) :: (((Npos (XI (XI
    (XO (XO (XO (XI XH))))))), (Npos (XI (XI (XO (XO (XO (XI
    XH)))))))) :: [])))))))), (Alt ((Cat ((Chr (false, (((Npos (XO (XO (XI
    (XI (XI (XO XH))))))), (Npos (XO (XO (XI (XI (XI (XO XH)))))))) :: []))),
    (Cat ((Chr (false, (((Npos (XO (XI (XO (XO (XI XH)))))), (Npos (XO (XI
    (XO (XO (XI XH))))))) :: []))), (Chr (false, (((Npos (XI (XI (XI (XO (XI
    XH)))))), (Npos (XI (XI (XI (XO (XI XH))))))) :: []))))))), (Chr (true,
    (((Npos (XI (XI (XI (XO (XO XH)))))), (Npos (XI (XI (XI (XO (XO
    XH))))))) :: (((Npos (XO (XO (XI (XI (XI (XO XH))))))), (Npos (XO (XO (XI
    (XI (XI (XO XH)))))))) :: [])))))))))), (Star (Group ((S (S (S (S (S (S
    (S (S (S (S (S (S (S (S (S (S (S (S (S (S (S (S (S (S (S (S (S (S (S (S
    (S (S (S (S (S (S (S (S (S (S (S (S (S (S (S (S (S (S (S (S (S (S (S (S
    (S (S (S (S (S (S (S (S (S (S (S (S (S (S (S (S (S (S
    O)))))))))))))))))))))))))))))))))))))))))))))))))))))))))))))))))))))))),
    (Alt ((Cat ((Chr (false, (((Npos (XO (XO (XI (XI (XI (XO XH))))))), (Npos
    (XO (XO (XI (XI (XI (XO XH)))))))) :: []))), (Cat ((Chr (false, (((Npos
    (XI (XO (XI (XO (XI XH)))))), (Npos (XI (XO (XI (XO (XI
    XH))))))) :: []))), (Chr (false, (((Npos (XI (XI (XO (XO (XO (XO
    XH))))))), (Npos (XI (XI (XO (XO (XO (XO XH)))))))) :: (((Npos (XI (XI
    (XO (XO (XO (XI XH))))))), (Npos (XI (XI (XO (XO (XO (XI
    XH)))))))) :: [])))))))), (Alt ((Cat ((Chr (false, (((Npos (XO (XO (XI
    (XI (XI (XO XH))))))), (Npos (XO (XO (XI (XI (XI (XO XH)))))))) :: []))),
    (Cat ((Chr (false, (((Npos (XO (XI (XO (XO (XI XH)))))), (Npos (XO (XI
    (XO (XO (XI XH))))))) :: []))), (Chr (false, (((Npos (XI (XI (XI (XO (XI
    XH)))))), (Npos (XI (XI (XI (XO (XI XH))))))) :: []))))))), (Chr (true,
    (((Npos (XI (XI (XI (XO (XO XH)))))), (Npos (XI (XI (XI (XO (XO
    XH))))))) :: (((Npos (XO (XO (XI (XI (XI (XO XH))))))), (Npos (XO (XO (XI
    (XI (XI (XO XH)))))))) :: []))))))))))))), (Cat ((Chr (false, (((Npos (XI
    (XI (XI (XO (XO XH)))))), (Npos (XI (XI (XI (XO (XO XH))))))) :: []))),
    (Cat ((Star (Group ((S (S (S (S (S (S (S (S (S (S (S (S (S (S (S (S (S (S
    (S (S (S (S (S (S (S (S (S (S (S (S (S (S (S (S (S (S (S (S (S (S (S (S
    (S (S (S (S (S (S (S (S (S (S (S (S (S (S (S (S (S (S (S (S (S (S (S (S
    (S (S (S (S (S (S (S
    O))))))))))))))))))))))))))))))))))))))))))))))))))))))))))))))))))))))))),
    (Cat ((Cat ((Chr (false, (((Npos (XO (XO (XO (XO (XO XH)))))), (Npos (XO
    (XO (XO (XO (XO XH))))))) :: []))), (Star (Chr (false, (((Npos (XO (XO
    (XO (XO (XO XH)))))), (Npos (XO (XO (XO (XO (XO XH))))))) :: [])))))),
    (Cat ((Chr (false, (((Npos (XI (XI (XI (XO (XO XH)))))), (Npos (XI (XI
    (XI (XO (XO XH))))))) :: []))), (Cat ((Cat ((Group ((S (S (S (S (S (S (S
    (S (S (S (S (S (S (S (S (S (S (S (S (S (S (S (S (S (S (S (S (S (S (S (S
    (S (S (S (S (S (S (S (S (S (S (S (S (S (S (S (S (S (S (S (S (S (S (S (S
    (S (S (S (S (S (S (S (S (S (S (S (S (S (S (S (S (S (S (S
    O)))))))))))))))))))))))))))))))))))))))))))))))))))))))))))))))))))))))))),
    (Alt ((Cat ((Chr (false, (((Npos (XO (XO (XI (XI (XI (XO XH))))))), (Npos
    (XO (XO (XI (XI (XI (XO XH)))))))) :: []))), (Cat ((Chr (false, (((Npos
    (XI (XO (XI (XO (XI XH)))))), (Npos (XI (XO (XI (XO (XI
    XH))))))) :: []))), (Chr (false, (((Npos (XI (XI (XO (XO (XO (XO
    XH))))))), (Npos (XI (XI (XO (XO (XO (XO XH)))))))) :: (((Npos (XI (XI
    (XO (XO (XO (XI XH))))))), (Npos (XI (XI (XO (XO (XO (XI
    XH)))))))) :: [])))))))), (Alt ((Cat ((Chr (false, (((Npos (XO (XO (XI
    (XI (XI (XO XH))))))), (Npos (XO (XO (XI (XI (XI (XO XH)))))))) :: []))),
    (Cat ((Chr (false, (((Npos (XO (XI (XO (XO (XI XH)))))), (Npos (XO (XI
    (XO (XO (XI XH))))))) :: []))), (Chr (false, (((Npos (XI (XI (XI (XO (XI
    XH)))))), (Npos (XI (XI (XI (XO (XI XH))))))) :: []))))))), (Chr (true,
    (((Npos (XI (XI (XI (XO (XO XH)))))), (Npos (XI (XI (XI (XO (XO
    XH))))))) :: (((Npos (XO (XO (XI (XI (XI (XO XH))))))), (Npos (XO (XO (XI
    (XI (XI (XO XH)))))))) :: [])))))))))), (Star (Group ((S (S (S (S (S (S
    (S (S (S (S (S (S (S (S (S (S (S (S (S (S (S (S (S (S (S (S (S (S (S (S
    (S (S (S (S (S (S (S (S (S (S (S (S (S (S (S (S (S (S (S (S (S (S (S (S
    (S (S (S (S (S (S (S (S (S (S (S (S (S (S (S (S (S (S (S (S
    O)))))))))))))))))))))))))))))))))))))))))))))))))))))))))))))))))))))))))),
    (Alt ((Cat ((Chr (false, (((Npos (XO (XO (XI (XI (XI (XO XH))))))), (Npos
    (XO (XO (XI (XI (XI (XO XH)))))))) :: []))), (Cat ((Chr (false, (((Npos
    (XI (XO (XI (XO (XI XH)))))), (Npos (XI (XO (XI (XO (XI
    XH))))))) :: []))), (Chr (false, (((Npos (XI (XI (XO (XO (XO (XO
    XH))))))), (Npos (XI (XI (XO (XO (XO (XO XH)))))))) :: (((Npos (XI (XI
    (XO (XO (XO (XI XH))))))), (Npos (XI (XI (XO (XO (XO (XI
    XH)))))))) :: [])))))))), (Alt ((Cat ((Chr (false, (((Npos (XO (XO (XI
    (XI (XI (XO XH))))))), (Npos (XO (XO (XI (XI (XI (XO XH)))))))) :: []))),
    (Cat ((Chr (false, (((Npos (XO (XI (XO (XO (XI XH)))))), (Npos (XO (XI
    (XO (XO (XI XH))))))) :: []))), (Chr (false, (((Npos (XI (XI (XI (XO (XI
    XH)))))), (Npos (XI (XI (XI (XO (XI XH))))))) :: []))))))), (Chr (true,
    (((Npos (XI (XI (XI (XO (XO XH)))))), (Npos (XI (XI (XI (XO (XO
    XH))))))) :: (((Npos (XO (XO (XI (XI (XI (XO XH))))))), (Npos (XO (XO (XI
    (XI (XI (XO XH)))))))) :: []))))))))))))), (Chr (false, (((Npos (XI (XI
    (XI (XO (XO XH)))))), (Npos (XI (XI (XI (XO (XO
    XH))))))) :: [])))))))))))), (Star (Chr (false, (((Npos (XO (XO (XO (XO
    (XO XH)))))), (Npos (XO (XO (XO (XO (XO XH))))))) :: [])))))))))))))),
    Eps)), (Chr (false, (((Npos (XI (XO (XO (XI (XO XH)))))), (Npos (XI (XO
    (XO (XI (XO XH))))))) :: [])))))))))))))))))))))))), (Cat ((Star (Chr
    (false, (((Npos (XO (XO (XO (XO (XO XH)))))), (Npos (XO (XO (XO (XO (XO
    XH))))))) :: [])))), (Chr (false, (((Npos (XI (XO (XO (XI (XO XH)))))),
    (Npos (XI (XO (XO (XI (XO
    XH))))))) :: []))))))))))))))))))))))))))))))))))))

(** val rx_attribute_type_end : end_anchor **)

let rx_attribute_type_end =
  NoEnd

(** val rx_attribute_type_ngroups : nat **)

let rx_attribute_type_ngroups =
  S (S (S (S (S (S (S (S (S (S (S (S (S (S (S (S (S (S (S (S (S (S (S (S (S
    (S (S (S (S (S (S (S (S (S (S (S (S (S (S (S (S (S (S (S (S (S (S (S (S
    (S (S (S (S (S (S (S (S (S (S (S (S (S (S (S (S (S (S (S (S (S (S (S (S
    (S
    O)))))))))))))))))))))))))))))))))))))))))))))))))))))))))))))))))))))))))

(** val rx_attribute_type_g_oid : nat **)

let rx_attribute_type_g_oid =
  S O

(** val rx_attribute_type_g_name : nat **)

let rx_attribute_type_g_name =
  S (S (S (S (S (S O)))))

(** val rx_attribute_type_g_desc : nat **)

let rx_attribute_type_g_desc =
  S (S (S (S (S (S (S (S (S (S (S (S (S (S (S (S (S O))))))))))))))))

(** val rx_attribute_type_g_obsolete : nat **)

let rx_attribute_type_g_obsolete =
  S (S (S (S (S (S (S (S (S (S (S (S (S (S (S (S (S (S (S O))))))))))))))))))

(** val rx_attribute_type_g_extensions : nat **)

let rx_attribute_type_g_extensions =
  S (S (S (S (S (S (S (S (S (S (S (S (S (S (S (S (S (S (S (S (S (S (S (S (S
    (S (S (S (S (S (S (S (S (S (S (S (S (S (S (S (S (S (S (S (S (S (S (S (S
    (S (S (S (S (S (S (S (S (S (S (S (S (S (S (S (S
    O))))))))))))))))))))))))))))))))))))))))))))))))))))))))))))))))

(** val rx_attribute_type_g_sup : nat **)

let rx_attribute_type_g_sup =
  S (S (S (S (S (S (S (S (S (S (S (S (S (S (S (S (S (S (S (S (S
    O))))))))))))))))))))

(** val rx_attribute_type_g_equality : nat **)

let rx_attribute_type_g_equality =
  S (S (S (S (S (S (S (S (S (S (S (S (S (S (S (S (S (S (S (S (S (S (S (S (S
    (S (S (S (S O))))))))))))))))))))))))))))

(** val rx_attribute_type_g_ordering : nat **)

let rx_attribute_type_g_ordering =
  S (S (S (S (S (S (S (S (S (S (S (S (S (S (S (S (S (S (S (S (S (S (S (S (S
    (S (S (S (S (S (S (S (S (S (S (S (S O))))))))))))))))))))))))))))))))))))

(** val rx_attribute_type_g_substr : nat **)

let rx_attribute_type_g_substr =
  S (S (S (S (S (S (S (S (S (S (S (S (S (S (S (S (S (S (S (S (S (S (S (S (S
    (S (S (S (S (S (S (S (S (S (S (S (S (S (S (S (S (S (S (S (S
    O))))))))))))))))))))))))))))))))))))))))))))

(** val rx_attribute_type_g_syntax : nat **)

let rx_attribute_type_g_syntax =
  S (S (S (S (S (S (S (S (S (S (S (S (S (S (S (S (S (S (S (S (S (S (S (S (S
    (S (S (S (S (S (S (S (S (S (S (S (S (S (S (S (S (S (S (S (S (S (S (S (S
    (S (S (S (S O))))))))))))))))))))))))))))))))))))))))))))))))))))

(** val rx_attribute_type_g_single_value : nat **)

let rx_attribute_type_g_single_value =
  S (S (S (S (S (S (S (S (S (S (S (S (S (S (S (S (S (S (S (S (S (S (S (S (S
    (S (S (S (S (S (S (S (S (S (S (S (S (S (S (S (S (S (S (S (S (S (S (S (S
    (S (S (S (S (S (S (S (S (S (S (S
    O)))))))))))))))))))))))))))))))))))))))))))))))))))))))))))

(** val rx_attribute_type_g_collective : nat **)

let rx_attribute_type_g_collective =
  S (S (S (S (S (S (S (S (S (S (S (S (S (S (S (S (S (S (S (S (S (S (S (S (S
    (S (S (S (S (S (S (S (S (S (S (S (S (S (S (S (S (S (S (S (S (S (S (S (S
    (S (S (S (S (S (S (S (S (S (S (S (S
    O))))))))))))))))))))))))))))))))))))))))))))))))))))))))))))

(** val rx_attribute_type_g_no_user_modification : nat **)

let rx_attribute_type_g_no_user_modification =
  S (S (S (S (S (S (S (S (S (S (S (S (S (S (S (S (S (S (S (S (S (S (S (S (S
    (S (S (S (S (S (S (S (S (S (S (S (S (S (S (S (S (S (S (S (S (S (S (S (S
    (S (S (S (S (S (S (S (S (S (S (S (S (S
    O)))))))))))))))))))))))))))))))))))))))))))))))))))))))))))))

(** val rx_attribute_type_g_usage : nat **)

let rx_attribute_type_g_usage =
  S (S (S (S (S (S (S (S (S (S (S (S (S (S (S (S (S (S (S (S (S (S (S (S (S
    (S (S (S (S (S (S (S (S (S (S (S (S (S (S (S (S (S (S (S (S (S (S (S (S
    (S (S (S (S (S (S (S (S (S (S (S (S (S (S (S
    O)))))))))))))))))))))))))))))))))))))))))))))))))))))))))))))))

(** val rx_dit_content_rule : rx **)

let rx_dit_content_rule =
  Cat ((Chr (false, (((Npos (XO (XO (XO (XI (XO XH)))))), (Npos (XO (XO (XO
    (XI (XO XH))))))) :: []))), (Cat ((Star (Chr (false, (((Npos (XO (XO (XO
    (XO (XO XH)))))), (Npos (XO (XO (XO (XO (XO XH))))))) :: [])))), (Cat
    ((Group ((S O), (Cat ((Group ((S (S O)), (Alt ((Chr (false, (((Npos (XO
    (XO (XO (XO (XI XH)))))), (Npos (XI (XO (XO (XI (XI XH))))))) :: []))),
    (Cat ((Chr (false, (((Npos (XI (XO (XO (XO (XI XH)))))), (Npos (XI (XO
    (XO (XI (XI XH))))))) :: []))), (Cat ((Chr (false, (((Npos (XO (XO (XO
    (XO (XI XH)))))), (Npos (XI (XO (XO (XI (XI XH))))))) :: []))), (Star
    (Chr (false, (((Npos (XO (XO (XO (XO (XI XH)))))), (Npos (XI (XO (XO (XI
    (XI XH))))))) :: [])))))))))))), (Cat ((Group ((S (S (S O))), (Cat ((Chr
    (false, (((Npos (XO (XI (XI (XI (XO XH)))))), (Npos (XO (XI (XI (XI (XO
    XH))))))) :: []))), (Group ((S (S (S (S O)))), (Alt ((Chr (false, (((Npos
    (XO (XO (XO (XO (XI XH)))))), (Npos (XI (XO (XO (XI (XI
    XH))))))) :: []))), (Cat ((Chr (false, (((Npos (XI (XO (XO (XO (XI
    XH)))))), (Npos (XI (XO (XO (XI (XI XH))))))) :: []))), (Cat ((Chr
    (false, (((Npos (XO (XO (XO (XO (XI XH)))))), (Npos (XI (XO (XO (XI (XI
    XH))))))) :: []))), (Star (Chr (false, (((Npos (XO (XO (XO (XO (XI
    XH)))))), (Npos (XI (XO (XO (XI (XI XH))))))) :: [])))))))))))))))),
    (Star (Group ((S (S (S O))), (Cat ((Chr (false, (((Npos (XO (XI (XI (XI
    (XO XH)))))), (Npos (XO (XI (XI (XI (XO XH))))))) :: []))), (Group ((S (S
    (S (S O)))), (Alt ((Chr (false, (((Npos (XO (XO (XO (XO (XI XH)))))),
    (Npos (XI (XO (XO (XI (XI XH))))))) :: []))), (Cat ((Chr (false, (((Npos
    (XI (XO (XO (XO (XI XH)))))), (Npos (XI (XO (XO (XI (XI
    XH))))))) :: []))), (Cat ((Chr (false, (((Npos (XO (XO (XO (XO (XI
    XH)))))), (Npos (XI (XO (XO (XI (XI XH))))))) :: []))), (Star (Chr
    (false, (((Npos (XO (XO (XO (XO (XI XH)))))), (Npos (XI (XO (XO (XI (XI
    XH))))))) :: []))))))))))))))))))))))), (Cat ((Alt ((Group ((S (S (S (S
    (S O))))), (Cat ((Cat ((Chr (false, (((Npos (XO (XO (XO (XO (XO XH)))))),
    (Npos (XO (XO (XO (XO (XO XH))))))) :: []))), (Star (Chr (false, (((Npos
    (XO (XO (XO (XO (XO XH)))))), (Npos (XO (XO (XO (XO (XO
    XH))))))) :: [])))))), (Cat ((Chr (false, (((Npos (XO (XI (XI (XI (XO (XO
    XH))))))), (Npos (XO (XI (XI (XI (XO (XO XH)))))))) :: []))), (Cat ((Chr
    (false, (((Npos (XI (XO (XO (XO (XO (XO XH))))))), (Npos (XI (XO (XO (XO
    (XO (XO XH)))))))) :: []))), (Cat ((Chr (false, (((Npos (XI (XO (XI (XI
    (XO (XO XH))))))), (Npos (XI (XO (XI (XI (XO (XO XH)))))))) :: []))),
    (Cat ((Chr (false, (((Npos (XI (XO (XI (XO (XO (XO XH))))))), (Npos (XI
    (XO (XI (XO (XO (XO XH)))))))) :: []))), (Cat ((Cat ((Chr (false, (((Npos
    (XO (XO (XO (XO (XO XH)))))), (Npos (XO (XO (XO (XO (XO
    XH))))))) :: []))), (Star (Chr (false, (((Npos (XO (XO (XO (XO (XO
    XH)))))), (Npos (XO (XO (XO (XO (XO XH))))))) :: [])))))), (Group ((S (S
    (S (S (S (S O)))))), (Group ((S (S (S (S (S (S (S O))))))), (Alt ((Cat
    ((Chr (false, (((Npos (XI (XI (XI (XO (XO XH)))))), (Npos (XI (XI (XI (XO
    (XO XH))))))) :: []))), (Cat ((Chr (false, (((Npos (XI (XO (XO (XO (XO
    (XI XH))))))), (Npos (XO (XI (XO (XI (XI (XI XH)))))))) :: (((Npos (XI
    (XO (XO (XO (XO (XO XH))))))), (Npos (XO (XI (XO (XI (XI (XO
    XH)))))))) :: [])))), (Cat ((Star (Group ((S (S (S (S (S (S (S (S
    O)))))))), (Group ((S (S (S (S (S (S (S (S (S O))))))))), (Chr (false,
    (((Npos (XI (XO (XO (XO (XO (XI XH))))))), (Npos (XO (XI (XO (XI (XI (XI
    XH)))))))) :: (((Npos (XI (XO (XO (XO (XO (XO XH))))))), (Npos (XO (XI
    (XO (XI (XI (XO XH)))))))) :: (((Npos (XO (XO (XO (XO (XI XH)))))), (Npos
    (XI (XO (XO (XI (XI XH))))))) :: (((Npos (XI (XO (XI (XI (XO XH)))))),
    (Npos (XI (XO (XI (XI (XO XH))))))) :: []))))))))))), (Chr (false,
    (((Npos (XI (XI (XI (XO (XO XH)))))), (Npos (XI (XI (XI (XO (XO
    XH))))))) :: []))))))))), (Cat ((Chr (false, (((Npos (XO (XO (XO (XI (XO
    XH)))))), (Npos (XO (XO (XO (XI (XO XH))))))) :: []))), (Cat ((Star (Chr
    (false, (((Npos (XO (XO (XO (XO (XO XH)))))), (Npos (XO (XO (XO (XO (XO
    XH))))))) :: [])))), (Cat ((Alt ((Group ((S (S (S (S (S (S (S (S (S (S
    O)))))))))), (Cat ((Chr (false, (((Npos (XI (XI (XI (XO (XO XH)))))),
    (Npos (XI (XI (XI (XO (XO XH))))))) :: []))), (Cat ((Chr (false, (((Npos
    (XI (XO (XO (XO (XO (XI XH))))))), (Npos (XO (XI (XO (XI (XI (XI
    XH)))))))) :: (((Npos (XI (XO (XO (XO (XO (XO XH))))))), (Npos (XO (XI
    (XO (XI (XI (XO XH)))))))) :: [])))), (Cat ((Star (Group ((S (S (S (S (S
    (S (S (S (S (S (S O))))))))))), (Group ((S (S (S (S (S (S (S (S (S (S (S
    (S O)))))))))))), (Chr (false, (((Npos (XI (XO (XO (XO (XO (XI XH))))))),
    (Npos (XO (XI (XO (XI (XI (XI XH)))))))) :: (((Npos (XI (XO (XO (XO (XO
    (XO XH))))))), (Npos (XO (XI (XO (XI (XI (XO XH)))))))) :: (((Npos (XO
    (XO (XO (XO (XI XH)))))), (Npos (XI (XO (XO (XI (XI XH))))))) :: (((Npos
    (XI (XO (XI (XI (XO XH)))))), (Npos (XI (XO (XI (XI (XO
    XH))))))) :: []))))))))))), (Cat ((Chr (false, (((Npos (XI (XI (XI (XO
    (XO XH)))))), (Npos (XI (XI (XI (XO (XO XH))))))) :: []))), (Star (Group
    ((S (S (S (S (S (S (S (S (S (S (S (S (S O))))))))))))), (Cat ((Cat ((Chr
    (false, (((Npos (XO (XO (XO (XO (XO XH)))))), (Npos (XO (XO (XO (XO (XO
    XH))))))) :: []))), (Star (Chr (false, (((Npos (XO (XO (XO (XO (XO
    XH)))))), (Npos (XO (XO (XO (XO (XO XH))))))) :: [])))))), (Cat ((Chr
    (false, (((Npos (XI (XI (XI (XO (XO XH)))))), (Npos (XI (XI (XI (XO (XO
    XH))))))) :: []))), (Cat ((Chr (false, (((Npos (XI (XO (XO (XO (XO (XI
    XH))))))), (Npos (XO (XI (XO (XI (XI (XI XH)))))))) :: (((Npos (XI (XO
    (XO (XO (XO (XO XH))))))), (Npos (XO (XI (XO (XI (XI (XO
    XH)))))))) :: [])))), (Cat ((Star (Group ((S (S (S (S (S (S (S (S (S (S
    (S (S (S (S O)))))))))))))), (Group ((S (S (S (S (S (S (S (S (S (S (S (S
    (S (S (S O))))))))))))))), (Chr (false, (((Npos (XI (XO (XO (XO (XO (XI
    XH))))))), (Npos (XO (XI (XO (XI (XI (XI XH)))))))) :: (((Npos (XI (XO
    (XO (XO (XO (XO XH))))))), (Npos (XO (XI (XO (XI (XI (XO
    XH)))))))) :: (((Npos (XO (XO (XO (XO (XI XH)))))), (Npos (XI (XO (XO (XI
    (XI XH))))))) :: (((Npos (XI (XO (XI (XI (XO XH)))))), (Npos (XI (XO (XI
    (XI (XO XH))))))) :: []))))))))))), (Chr (false, (((Npos (XI (XI (XI (XO
    (XO XH)))))), (Npos (XI (XI (XI (XO (XO
    XH))))))) :: [])))))))))))))))))))))))), Eps)), (Cat ((Star (Chr (false,
    (((Npos (XO (XO (XO (XO (XO XH)))))), (Npos (XO (XO (XO (XO (XO
    XH))))))) :: [])))), (Chr (false, (((Npos (XI (XO (XO (XI (XO XH)))))),
    (Npos (XI (XO (XO (XI (XO XH))))))) :: []))))))))))))))))))))))))))))))),
    Eps)), (Cat ((Alt ((Group ((S (S (S (S (S (S (S (S (S (S (S (S (S (S (S
    (S O)))))))))))))))), (Cat ((Cat ((Chr (false, (((Npos (XO (XO (XO (XO
    (XO XH)))))), (Npos (XO (XO (XO (XO (XO XH))))))) :: []))), (Star (Chr
    (false, (((Npos (XO (XO (XO (XO (XO XH)))))), (Npos (XO (XO (XO (XO (XO
    XH))))))) :: [])))))), (Cat ((Chr (false, (((Npos (XO (XO (XI (XO (XO (XO
    XH))))))), (Npos (XO (XO (XI (XO (XO (XO XH)))))))) :: []))), (Cat ((Chr
    (false, (((Npos (XI (XO (XI (XO (XO (XO XH))))))), (Npos (XI (XO (XI (XO
    (XO (XO XH)))))))) :: []))), (Cat ((Chr (false, (((Npos (XI (XI (XO (XO
    (XI (XO XH))))))), (Npos (XI (XI (XO (XO (XI (XO XH)))))))) :: []))),
    (Cat ((Chr (false, (((Npos (XI (XI (XO (XO (XO (XO XH))))))), (Npos (XI
    (XI (XO (XO (XO (XO XH)))))))) :: []))), (Cat ((Cat ((Chr (false, (((Npos
    (XO (XO (XO (XO (XO XH)))))), (Npos (XO (XO (XO (XO (XO
    XH))))))) :: []))), (Star (Chr (false, (((Npos (XO (XO (XO (XO (XO
    XH)))))), (Npos (XO (XO (XO (XO (XO XH))))))) :: [])))))), (Group ((S (S
    (S (S (S (S (S (S (S (S (S (S (S (S (S (S (S O))))))))))))))))), (Cat
    ((Chr (false, (((Npos (XI (XI (XI (XO (XO XH)))))), (Npos (XI (XI (XI (XO
    (XO XH))))))) :: []))), (Cat ((Cat ((Group ((S (S (S (S (S (S (S (S (S (S
    (S (S (S (S (S (S (S (S O)))))))))))))))))), (Alt ((Cat ((Chr (false,
    (((Npos (XO (XO (XI (XI (XI (XO XH))))))), (Npos (XO (XO (XI (XI (XI (XO
    XH)))))))) :: []))), (Cat ((Chr (false, (((Npos (XI (XO (XI (XO (XI
    XH)))))), (Npos (XI (XO (XI (XO (XI XH))))))) :: []))), (Chr (false,
    (((Npos (XI (XI (XO (XO (XO (XO XH))))))), (Npos (XI (XI (XO (XO (XO (XO
    XH)))))))) :: (((Npos (XI (XI (XO (XO (XO (XI XH))))))), (Npos (XI (XI
    (XO (XO (XO (XI XH)))))))) :: [])))))))), (Alt ((Cat ((Chr (false,
    (((Npos (XO (XO (XI (XI (XI (XO XH))))))), (Npos (XO (XO (XI (XI (XI (XO
    XH)))))))) :: []))), (Cat ((Chr (false, (((Npos (XO (XI (XO (XO (XI
    XH)))))), (Npos (XO (XI (XO (XO (XI XH))))))) :: []))), (Chr (false,
    (((Npos (XI (XI (XI (XO (XI XH)))))), (Npos (XI (XI (XI (XO (XI
    XH))))))) :: []))))))), (Chr (true, (((Npos (XI (XI (XI (XO (XO XH)))))),
    (Npos (XI (XI (XI (XO (XO XH))))))) :: (((Npos (XO (XO (XI (XI (XI (XO
    XH))))))), (Npos (XO (XO (XI (XI (XI (XO XH)))))))) :: [])))))))))),
    (Star (Group ((S (S (S (S (S (S (S (S (S (S (S (S (S (S (S (S (S (S
    O)))))))))))))))))), (Alt ((Cat ((Chr (false, (((Npos (XO (XO (XI (XI (XI
    (XO XH))))))), (Npos (XO (XO (XI (XI (XI (XO XH)))))))) :: []))), (Cat
    ((Chr (false, (((Npos (XI (XO (XI (XO (XI XH)))))), (Npos (XI (XO (XI (XO
    (XI XH))))))) :: []))), (Chr (false, (((Npos (XI (XI (XO (XO (XO (XO
    XH))))))), (Npos (XI (XI (XO (XO (XO (XO XH)))))))) :: (((Npos (XI (XI
    (XO (XO (XO (XI XH))))))), (Npos (XI (XI (XO (XO (XO (XI
    XH)))))))) :: [])))))))), (Alt ((Cat ((Chr (false, (((Npos (XO (XO (XI
    (XI (XI (XO XH))))))), (Npos (XO (XO (XI (XI (XI (XO XH)))))))) :: []))),
    (Cat ((Chr (false, (((Npos (XO (XI (XO (XO (XI XH)))))), (Npos (XO (XI
    (XO (XO (XI XH))))))) :: []))), (Chr (false, (((Npos (XI (XI (XI (XO (XI
    XH)))))), (Npos (XI (XI (XI (XO (XI XH))))))) :: []))))))), (Chr (true,
    (((Npos (XI (XI (XI (XO (XO XH)))))), (Npos (XI (XI (XI (XO (XO
    XH))))))) :: (((Npos (XO (XO (XI (XI (XI (XO XH))))))), (Npos (XO (XO (XI
    (XI (XI (XO XH)))))))) :: []))))))))))))), (Chr (false, (((Npos (XI (XI
    (XI (XO (XO XH)))))), (Npos (XI (XI (XI (XO (XO
    XH))))))) :: []))))))))))))))))))))))), Eps)), (Cat ((Alt ((Group ((S (S
    (S (S (S (S (S (S (S (S (S (S (S (S (S (S (S (S (S O))))))))))))))))))),
    (Cat ((Cat ((Chr (false, (((Npos (XO (XO (XO (XO (XO XH)))))), (Npos (XO
    (XO (XO (XO (XO XH))))))) :: []))), (Star (Chr (false, (((Npos (XO (XO
    (XO (XO (XO XH)))))), (Npos (XO (XO (XO (XO (XO XH))))))) :: [])))))),
    (Cat ((Chr (false, (((Npos (XI (XI (XI (XI (XO (XO XH))))))), (Npos (XI
    (XI (XI (XI (XO (XO XH)))))))) :: []))), (Cat ((Chr (false, (((Npos (XO
    (XI (XO (XO (XO (XO XH))))))), (Npos (XO (XI (XO (XO (XO (XO
    XH)))))))) :: []))), (Cat ((Chr (false, (((Npos (XI (XI (XO (XO (XI (XO
    XH))))))), (Npos (XI (XI (XO (XO (XI (XO XH)))))))) :: []))), (Cat ((Chr
    (false, (((Npos (XI (XI (XI (XI (XO (XO XH))))))), (Npos (XI (XI (XI (XI
    (XO (XO XH)))))))) :: []))), (Cat ((Chr (false, (((Npos (XO (XO (XI (XI
    (XO (XO XH))))))), (Npos (XO (XO (XI (XI (XO (XO XH)))))))) :: []))),
    (Cat ((Chr (false, (((Npos (XI (XO (XI (XO (XO (XO XH))))))), (Npos (XI
    (XO (XI (XO (XO (XO XH)))))))) :: []))), (Cat ((Chr (false, (((Npos (XO
    (XO (XI (XO (XI (XO XH))))))), (Npos (XO (XO (XI (XO (XI (XO
    XH)))))))) :: []))), (Chr (false, (((Npos (XI (XO (XI (XO (XO (XO
    XH))))))), (Npos (XI (XO (XI (XO (XO (XO
    XH)))))))) :: []))))))))))))))))))))), Eps)), (Cat ((Alt ((Group ((S (S
    (S (S (S (S (S (S (S (S (S (S (S (S (S (S (S (S (S (S
    O)))))))))))))))))))), (Cat ((Cat ((Chr (false, (((Npos (XO (XO (XO (XO
    (XO XH)))))), (Npos (XO (XO (XO (XO (XO XH))))))) :: []))), (Star (Chr
    (false, (((Npos (XO (XO (XO (XO (XO XH)))))), (Npos (XO (XO (XO (XO (XO
    XH))))))) :: [])))))), (Cat ((Chr (false, (((Npos (XI (XO (XO (XO (XO (XO
    XH))))))), (Npos (XI (XO (XO (XO (XO (XO XH)))))))) :: []))), (Cat ((Chr
    (false, (((Npos (XI (XO (XI (XO (XI (XO XH))))))), (Npos (XI (XO (XI (XO
    (XI (XO XH)))))))) :: []))), (Cat ((Chr (false, (((Npos (XO (XO (XO (XI
    (XI (XO XH))))))), (Npos (XO (XO (XO (XI (XI (XO XH)))))))) :: []))),
    (Cat ((Cat ((Chr (false, (((Npos (XO (XO (XO (XO (XO XH)))))), (Npos (XO
    (XO (XO (XO (XO XH))))))) :: []))), (Star (Chr (false, (((Npos (XO (XO
    (XO (XO (XO XH)))))), (Npos (XO (XO (XO (XO (XO XH))))))) :: [])))))),
    (Group ((S (S (S (S (S (S (S (S (S (S (S (S (S (S (S (S (S (S (S (S (S
    O))))))))))))))))))))), (Group ((S (S (S (S (S (S (S (S (S (S (S (S (S (S
    (S (S (S (S (S (S (S (S O)))))))))))))))))))))), (Alt ((Group ((S (S (S
    (S (S (S (S (S (S (S (S (S (S (S (S (S (S (S (S (S (S (S (S
    O))))))))))))))))))))))), (Alt ((Cat ((Chr (false, (((Npos (XI (XO (XO
    (XO (XO (XI XH))))))), (Npos (XO (XI (XO (XI (XI (XI
    XH)))))))) :: (((Npos (XI (XO (XO (XO (XO (XO XH))))))), (Npos (XO (XI
    (XO (XI (XI (XO XH)))))))) :: [])))), (Star (Group ((S (S (S (S (S (S (S
    (S (S (S (S (S (S (S (S (S (S (S (S (S (S (S (S (S
    O)))))))))))))))))))))))), (Group ((S (S (S (S (S (S (S (S (S (S (S (S (S
    (S (S (S (S (S (S (S (S (S (S (S (S O))))))))))))))))))))))))), (Chr
    (false, (((Npos (XI (XO (XO (XO (XO (XI XH))))))), (Npos (XO (XI (XO (XI
    (XI (XI XH)))))))) :: (((Npos (XI (XO (XO (XO (XO (XO XH))))))), (Npos
    (XO (XI (XO (XI (XI (XO XH)))))))) :: (((Npos (XO (XO (XO (XO (XI
    XH)))))), (Npos (XI (XO (XO (XI (XI XH))))))) :: (((Npos (XI (XO (XI (XI
    (XO XH)))))), (Npos (XI (XO (XI (XI (XO XH))))))) :: []))))))))))))),
    (Cat ((Group ((S (S (S (S (S (S (S (S (S (S (S (S (S (S (S (S (S (S (S (S
    (S (S (S (S (S (S O)))))))))))))))))))))))))), (Alt ((Chr (false, (((Npos
    (XO (XO (XO (XO (XI XH)))))), (Npos (XI (XO (XO (XI (XI
    XH))))))) :: []))), (Cat ((Chr (false, (((Npos (XI (XO (XO (XO (XI
    XH)))))), (Npos (XI (XO (XO (XI (XI XH))))))) :: []))), (Cat ((Chr
    (false, (((Npos (XO (XO (XO (XO (XI XH)))))), (Npos (XI (XO (XO (XI (XI
    XH))))))) :: []))), (Star (Chr (false, (((Npos (XO (XO (XO (XO (XI
    XH)))))), (Npos (XI (XO (XO (XI (XI XH))))))) :: [])))))))))))), (Cat
    ((Group ((S (S (S (S (S (S (S (S (S (S (S (S (S (S (S (S (S (S (S (S (S
    (S (S (S (S (S (S O))))))))))))))))))))))))))), (Cat ((Chr (false,
    (((Npos (XO (XI (XI (XI (XO XH)))))), (Npos (XO (XI (XI (XI (XO
    XH))))))) :: []))), (Group ((S (S (S (S (S (S (S (S (S (S (S (S (S (S (S
    (S (S (S (S (S (S (S (S (S (S (S (S (S O)))))))))))))))))))))))))))),
    (Alt ((Chr (false, (((Npos (XO (XO (XO (XO (XI XH)))))), (Npos (XI (XO
    (XO (XI (XI XH))))))) :: []))), (Cat ((Chr (false, (((Npos (XI (XO (XO
    (XO (XI XH)))))), (Npos (XI (XO (XO (XI (XI XH))))))) :: []))), (Cat
    ((Chr (false, (((Npos (XO (XO (XO (XO (XI XH)))))), (Npos (XI (XO (XO (XI
    (XI XH))))))) :: []))), (Star (Chr (false, (((Npos (XO (XO (XO (XO (XI
    XH)))))), (Npos (XI (XO (XO (XI (XI XH))))))) :: [])))))))))))))))),
    (Star (Group ((S (S (S (S (S (S (S (S (S (S (S (S (S (S (S (S (S (S (S (S
    (S (S (S (S (S (S (S O))))))))))))))))))))))))))), (Cat ((Chr (false,
    (((Npos (XO (XI (XI (XI (XO XH)))))), (Npos (XO (XI (XI (XI (XO
    XH))))))) :: []))), (Group ((S (S (S (S (S (S (S (S (S (S (S (S (S (S (S
    (S (S (S (S (S (S (S (S (S (S (S (S (S O)))))))))))))))))))))))))))),
    (Alt ((Chr (false, (((Npos (XO (XO (XO (XO (XI XH)))))), (Npos (XI (XO
    (XO (XI (XI XH))))))) :: []))), (Cat ((Chr (false, (((Npos (XI (XO (XO
    (XO (XI XH)))))), (Npos (XI (XO (XO (XI (XI XH))))))) :: []))), (Cat
    ((Chr (false, (((Npos (XO (XO (XO (XO (XI XH)))))), (Npos (XI (XO (XO (XI
    (XI XH))))))) :: []))), (Star (Chr (false, (((Npos (XO (XO (XO (XO (XI
    XH)))))), (Npos (XI (XO (XO (XI (XI
    XH))))))) :: []))))))))))))))))))))))))), (Cat ((Chr (false, (((Npos (XO
    (XO (XO (XI (XO XH)))))), (Npos (XO (XO (XO (XI (XO XH))))))) :: []))),
    (Cat ((Star (Chr (false, (((Npos (XO (XO (XO (XO (XO XH)))))), (Npos (XO
    (XO (XO (XO (XO XH))))))) :: [])))), (Cat ((Group ((S (S (S (S (S (S (S
    (S (S (S (S (S (S (S (S (S (S (S (S (S (S (S (S (S (S (S (S (S (S
    O))))))))))))))))))))))))))))), (Cat ((Group ((S (S (S (S (S (S (S (S (S
    (S (S (S (S (S (S (S (S (S (S (S (S (S (S (S (S (S (S (S (S (S
    O)))))))))))))))))))))))))))))), (Alt ((Cat ((Chr (false, (((Npos (XI (XO
    (XO (XO (XO (XI XH))))))), (Npos (XO (XI (XO (XI (XI (XI
    XH)))))))) :: (((Npos (XI (XO (XO (XO (XO (XO XH))))))), (Npos (XO (XI
    (XO (XI (XI (XO XH)))))))) :: [])))), (Star (Group ((S (S (S (S (S (S (S
    (S (S (S (S (S (S (S (S (S (S (S (S (S (S (S (S (S (S (S (S (S (S (S (S
    O))))))))))))))))))))))))))))))), (Group ((S (S (S (S (S (S (S (S (S (S
    (S (S (S (S (S (S (S (S (S (S (S (S (S (S (S (S (S (S (S (S (S (S
    O)))))))))))))))))))))))))))))))), (Chr (false, (((Npos (XI (XO (XO (XO
    (XO (XI XH))))))), (Npos (XO (XI (XO (XI (XI (XI XH)))))))) :: (((Npos
    (XI (XO (XO (XO (XO (XO XH))))))), (Npos (XO (XI (XO (XI (XI (XO
    XH)))))))) :: (((Npos (XO (XO (XO (XO (XI XH)))))), (Npos (XI (XO (XO (XI
    (XI XH))))))) :: (((Npos (XI (XO (XI (XI (XO XH)))))), (Npos (XI (XO (XI
    (XI (XO XH))))))) :: []))))))))))))), (Cat ((Group ((S (S (S (S (S (S (S
    (S (S (S (S (S (S (S (S (S (S (S (S (S (S (S (S (S (S (S (S (S (S (S (S
    (S (S O))))))))))))))))))))))))))))))))), (Alt ((Chr (false, (((Npos (XO
    (XO (XO (XO (XI XH)))))), (Npos (XI (XO (XO (XI (XI XH))))))) :: []))),
    (Cat ((Chr (false, (((Npos (XI (XO (XO (XO (XI XH)))))), (Npos (XI (XO
    (XO (XI (XI XH))))))) :: []))), (Cat ((Chr (false, (((Npos (XO (XO (XO
    (XO (XI XH)))))), (Npos (XI (XO (XO (XI (XI XH))))))) :: []))), (Star
    (Chr (false, (((Npos (XO (XO (XO (XO (XI XH)))))), (Npos (XI (XO (XO (XI
    (XI XH))))))) :: [])))))))))))), (Cat ((Group ((S (S (S (S (S (S (S (S (S
    (S (S (S (S (S (S (S (S (S (S (S (S (S (S (S (S (S (S (S (S (S (S (S (S
    (S O)))))))))))))))))))))))))))))))))), (Cat ((Chr (false, (((Npos (XO
    (XI (XI (XI (XO XH)))))), (Npos (XO (XI (XI (XI (XO XH))))))) :: []))),
    (Group ((S (S (S (S (S (S (S (S (S (S (S (S (S (S (S (S (S (S (S (S (S (S
    (S (S (S (S (S (S (S (S (S (S (S (S (S
    O))))))))))))))))))))))))))))))))))), (Alt ((Chr (false, (((Npos (XO (XO
    (XO (XO (XI XH)))))), (Npos (XI (XO (XO (XI (XI XH))))))) :: []))), (Cat
    ((Chr (false, (((Npos (XI (XO (XO (XO (XI XH)))))), (Npos (XI (XO (XO (XI
    (XI XH))))))) :: []))), (Cat ((Chr (false, (((Npos (XO (XO (XO (XO (XI
    XH)))))), (Npos (XI (XO (XO (XI (XI XH))))))) :: []))), (Star (Chr
    (false, (((Npos (XO (XO (XO (XO (XI XH)))))), (Npos (XI (XO (XO (XI (XI
    XH))))))) :: [])))))))))))))))), (Star (Group ((S (S (S (S (S (S (S (S (S
    (S (S (S (S (S (S (S (S (S (S (S (S (S (S (S (S (S (S (S (S (S (S (S (S
    (S O)))))))))))))))))))))))))))))))))), (Cat ((Chr (false, (((Npos (XO
    (XI (XI (XI (XO XH)))))), (Npos (XO (XI (XI (XI (XO XH))))))) :: []))),
    (Group ((S (S (S (S (S (S (S (S (S (S (S (S (S (S (S (S (S (S (S (S (S (S
    (S (S (S (S (S (S (S (S (S (S (S (S (S
    O))))))))))))))))))))))))))))))))))), (Alt ((Chr (false, (((Npos (XO (XO
    (XO (XO (XI XH)))))), (Npos (XI (XO (XO (XI (XI XH))))))) :: []))), (Cat
    ((Chr (false, (((Npos (XI (XO (XO (XO (XI XH)))))), (Npos (XI (XO (XO (XI
    (XI XH))))))) :: []))), (Cat ((Chr (false, (((Npos (XO (XO (XO (XO (XI
    XH)))))), (Npos (XI (XO (XO (XI (XI XH))))))) :: []))), (Star (Chr
    (false, (((Npos (XO (XO (XO (XO (XI XH)))))), (Npos (XI (XO (XO (XI (XI
    XH))))))) :: []))))))))))))))))))))))))), (Star (Group ((S (S (S (S (S (S
    (S (S (S (S (S (S (S (S (S (S (S (S (S (S (S (S (S (S (S (S (S (S (S (S
    (S (S (S (S (S (S O)))))))))))))))))))))))))))))))))))), (Cat ((Star (Chr
    (false, (((Npos (XO (XO (XO (XO (XO XH)))))), (Npos (XO (XO (XO (XO (XO
    XH))))))) :: [])))), (Cat ((Chr (false, (((Npos (XO (XO (XI (XO (XO
    XH)))))), (Npos (XO (XO (XI (XO (XO XH))))))) :: []))), (Cat ((Star (Chr
    (false, (((Npos (XO (XO (XO (XO (XO XH)))))), (Npos (XO (XO (XO (XO (XO
    XH))))))) :: [])))), (Group ((S (S (S (S (S (S (S (S (S (S (S (S (S (S (S
    (S (S (S (S (S (S (S (S (S (S (S (S (S (S (S (S (S (S (S (S (S (S
    O))))))))))))))))))))))))))))))))))))), (Alt ((Cat ((Chr (false, (((Npos
    (XI (XO (XO (XO (XO (XI XH))))))), (Npos (XO (XI (XO (XI (XI (XI
    XH)))))))) :: (((Npos (XI (XO (XO (XO (XO (XO XH))))))), (Npos (XO (XI
    (XO (XI (XI (XO XH)))))))) :: [])))), (Star (Group ((S (S (S (S (S (S (S
    (S (S (S (S (S (S (S (S (S (S (S (S (S (S (S (S (S (S (S (S (S (S (S (S
    (S (S (S (S (S (S (S O)))))))))))))))))))))))))))))))))))))), (Group ((S
    (S (S (S (S (S (S (S (S (S (S (S (S (S (S (S (S (S (S (S (S (S (S (S (S
    (S (S (S (S (S (S (S (S (S (S (S (S (S (S
    O))))))))))))))))))))))))))))))))))))))), (Chr (false, (((Npos (XI (XO
    (XO (XO (XO (XI XH))))))), (Npos (XO (XI (XO (XI (XI (XI
    XH)))))))) :: (((Npos (XI (XO (XO (XO (XO (XO XH))))))), (Npos (XO (XI
    (XO (XI (XI (XO XH)))))))) :: (((Npos (XO (XO (XO (XO (XI XH)))))), (Npos
    (XI (XO (XO (XI (XI XH))))))) :: (((Npos (XI (XO (XI (XI (XO XH)))))),
    (Npos (XI (XO (XI (XI (XO XH))))))) :: []))))))))))))), (Cat ((Group ((S
    (S (S (S (S (S (S (S (S (S (S (S (S (S (S (S (S (S (S (S (S (S (S (S (S
    (S (S (S (S (S (S (S (S (S (S (S (S (S (S (S
    O)))))))))))))))))))))))))))))))))))))))), (Alt ((Chr (false, (((Npos (XO
    (XO (XO (XO (XI XH)))))), (Npos (XI (XO (XO (XI (XI XH))))))) :: []))),
    (Cat ((Chr (false, (((Npos (XI (XO (XO (XO (XI XH)))))), (Npos (XI (XO
    (XO (XI (XI XH))))))) :: []))), (Cat ((Chr (false, (((Npos (XO (XO (XO
    (XO (XI XH)))))), (Npos (XI (XO (XO (XI (XI XH))))))) :: []))), (Star
    (Chr (false, (((Npos (XO (XO (XO (XO (XI XH)))))), (Npos (XI (XO (XO (XI
    (XI XH))))))) :: [])))))))))))), (Cat ((Group ((S (S (S (S (S (S (S (S (S
    (S (S (S (S (S (S (S (S (S (S (S (S (S (S (S (S (S (S (S (S (S (S (S (S
    (S (S (S (S (S (S (S (S O))))))))))))))))))))))))))))))))))))))))), (Cat
    ((Chr (false, (((Npos (XO (XI (XI (XI (XO XH)))))), (Npos (XO (XI (XI (XI
    (XO XH))))))) :: []))), (Group ((S (S (S (S (S (S (S (S (S (S (S (S (S (S
    (S (S (S (S (S (S (S (S (S (S (S (S (S (S (S (S (S (S (S (S (S (S (S (S
    (S (S (S (S O)))))))))))))))))))))))))))))))))))))))))), (Alt ((Chr
    (false, (((Npos (XO (XO (XO (XO (XI XH)))))), (Npos (XI (XO (XO (XI (XI
    XH))))))) :: []))), (Cat ((Chr (false, (((Npos (XI (XO (XO (XO (XI
    XH)))))), (Npos (XI (XO (XO (XI (XI XH))))))) :: []))), (Cat ((Chr
    (false, (((Npos (XO (XO (XO (XO (XI XH)))))), (Npos (XI (XO (XO (XI (XI
    XH))))))) :: []))), (Star (Chr (false, (((Npos (XO (XO (XO (XO (XI
    XH)))))), (Npos (XI (XO (XO (XI (XI XH))))))) :: [])))))))))))))))),
    (Star (Group ((S (S (S (S (S (S (S (S (S (S (S (S (S (S (S (S (S (S (S (S
    (S (S (S (S (S (S (S (S (S (S (S (S (S (S (S (S (S (S (S (S (S
    O))))))))))))))))))))))))))))))))))))))))), (Cat ((Chr (false, (((Npos
    (XO (XI (XI (XI (XO XH)))))), (Npos (XO (XI (XI (XI (XO
    XH))))))) :: []))), (Group ((S (S (S (S (S (S (S (S (S (S (S (S (S (S (S
    (S (S (S (S (S (S (S (S (S (S (S (S (S (S (S (S (S (S (S (S (S (S (S (S
    (S (S (S O)))))))))))))))))))))))))))))))))))))))))), (Alt ((Chr (false,
    (((Npos (XO (XO (XO (XO (XI XH)))))), (Npos (XI (XO (XO (XI (XI
    XH))))))) :: []))), (Cat ((Chr (false, (((Npos (XI (XO (XO (XO (XI
    XH)))))), (Npos (XI (XO (XO (XI (XI XH))))))) :: []))), (Cat ((Chr
    (false, (((Npos (XO (XO (XO (XO (XI XH)))))), (Npos (XI (XO (XO (XI (XI
    XH))))))) :: []))), (Star (Chr (false, (((Npos (XO (XO (XO (XO (XI
    XH)))))), (Npos (XI (XO (XO (XI (XI
    XH))))))) :: [])))))))))))))))))))))))))))))))))))))), (Cat ((Star (Chr
    (false, (((Npos (XO (XO (XO (XO (XO XH)))))), (Npos (XO (XO (XO (XO (XO
    XH))))))) :: [])))), (Chr (false, (((Npos (XI (XO (XO (XI (XO XH)))))),
    (Npos (XI (XO (XO (XI (XO XH))))))) :: []))))))))))))))))))))))))))))),
    Eps)), (Cat ((Alt ((Group ((S (S (S (S (S (S (S (S (S (S (S (S (S (S (S
    (S (S (S (S (S (S (S (S (S (S (S (S (S (S (S (S (S (S (S (S (S (S (S (S
    (S (S (S (S O))))))))))))))))))))))))))))))))))))))))))), (Cat ((Cat
    ((Chr (false, (((Npos (XO (XO (XO (XO (XO XH)))))), (Npos (XO (XO (XO (XO
    (XO XH))))))) :: []))), (Star (Chr (false, (((Npos (XO (XO (XO (XO (XO
    XH)))))), (Npos (XO (XO (XO (XO (XO XH))))))) :: [])))))), (Cat ((Chr
    (false, (((Npos (XI (XO (XI (XI (XO (XO XH))))))), (Npos (XI (XO (XI (XI
    (XO (XO XH)))))))) :: []))), (Cat ((Chr (false, (((Npos (XI (XO (XI (XO
    (XI (XO XH))))))), (Npos (XI (XO (XI (XO (XI (XO XH)))))))) :: []))),
    (Cat ((Chr (false, (((Npos (XI (XI (XO (XO (XI (XO XH))))))), (Npos (XI
    (XI (XO (XO (XI (XO XH)))))))) :: []))), (Cat ((Chr (false, (((Npos (XO
    (XO (XI (XO (XI (XO XH))))))), (Npos (XO (XO (XI (XO (XI (XO
    XH)))))))) :: []))), (Cat ((Cat ((Chr (false, (((Npos (XO (XO (XO (XO (XO
    XH)))))), (Npos (XO (XO (XO (XO (XO XH))))))) :: []))), (Star (Chr
    (false, (((Npos (XO (XO (XO (XO (XO XH)))))), (Npos (XO (XO (XO (XO (XO
    XH))))))) :: [])))))), (Group ((S (S (S (S (S (S (S (S (S (S (S (S (S (S
    (S (S (S (S (S (S (S (S (S (S (S (S (S (S (S (S (S (S (S (S (S (S (S (S
    (S (S (S (S (S (S O)))))))))))))))))))))))))))))))))))))))))))), (Group
    ((S (S (S (S (S (S (S (S (S (S (S (S (S (S (S (S (S (S (S (S (S (S (S (S
    (S (S (S (S (S (S (S (S (S (S (S (S (S (S (S (S (S (S (S (S (S
    O))))))))))))))))))))))))))))))))))))))))))))), (Alt ((Group ((S (S (S (S
    (S (S (S (S (S (S (S (S (S (S (S (S (S (S (S (S (S (S (S (S (S (S (S (S
    (S (S (S (S (S (S (S (S (S (S (S (S (S (S (S (S (S (S
    O)))))))))))))))))))))))))))))))))))))))))))))), (Alt ((Cat ((Chr (false,
    (((Npos (XI (XO (XO (XO (XO (XI XH))))))), (Npos (XO (XI (XO (XI (XI (XI
    XH)))))))) :: (((Npos (XI (XO (XO (XO (XO (XO XH))))))), (Npos (XO (XI
    (XO (XI (XI (XO XH)))))))) :: [])))), (Star (Group ((S (S (S (S (S (S (S
    (S (S (S (S (S (S (S (S (S (S (S (S (S (S (S (S (S (S (S (S (S (S (S (S
    (S (S (S (S (S (S (S (S (S (S (S (S (S (S (S (S
    O))))))))))))))))))))))))))))))))))))))))))))))), (Group ((S (S (S (S (S
    (S (S (S (S (S (S (S (S (S (S (S (S (S (S (S (S (S (S (S (S (S (S (S (S
    (S (S (S (S (S (S (S (S (S (S (S (S (S (S (S (S (S (S (S
    O)))))))))))))))))))))))))))))))))))))))))))))))), (Chr (false, (((Npos
    (XI (XO (XO (XO (XO (XI XH))))))), (Npos (XO (XI (XO (XI (XI (XI
    XH)))))))) :: (((Npos (XI (XO (XO (XO (XO (XO XH))))))), (Npos (XO (XI
    (XO (XI (XI (XO XH)))))))) :: (((Npos (XO (XO (XO (XO (XI XH)))))), (Npos
    (XI (XO (XO (XI (XI XH))))))) :: (((Npos (XI (XO (XI (XI (XO XH)))))),
    (Npos (XI (XO (XI (XI (XO XH))))))) :: []))))))))))))), (Cat ((Group ((S
    (S (S (S (S (S (S (S (S (S (S (S (S (S (S (S (S (S (S (S (S (S (S (S (S
    (S (S (S (S (S (S (S (S (S (S (S (S (S (S (S (S (S (S (S (S (S (S (S (S
    O))))))))))))))))))))))))))))))))))))))))))))))))), (Alt ((Chr (false,
    (((Npos (XO (XO (XO (XO (XI XH)))))), (Npos (XI (XO (XO (XI (XI
    XH))))))) :: []))), (Cat ((Chr (false, (((Npos (XI (XO (XO (XO (XI
    XH)))))), (Npos (XI (XO (XO (XI (XI XH))))))) :: []))), (Cat ((Chr
    (false, (((Npos (XO (XO (XO (XO (XI XH)))))), (Npos (XI (XO (XO (XI (XI
    XH))))))) :: []))), (Star (Chr (false, (((Npos (XO (XO (XO (XO (XI
    XH)))))), (Npos (XI (XO (XO (XI (XI XH))))))) :: [])))))))))))), (Cat
    ((Group ((S (S (S (S (S (S (S (S (S (S (S (S (S (S (S (S (S (S (S (S (S
    (S (S (S (S (S (S (S (S (S (S (S (S (S (S (S (S (S (S (S (S (S (S (S (S
    (S (S (S (S (S O)))))))))))))))))))))))))))))))))))))))))))))))))), (Cat
    ((Chr (false, (((Npos (XO (XI (XI (XI (XO XH)))))), (Npos (XO (XI (XI (XI
    (XO XH))))))) :: []))), (Group ((S (S (S (S (S (S (S (S (S (S (S (S (S (S
    (S (S (S (S (S (S (S (S (S (S (S (S (S (S (S (S (S (S (S (S (S (S (S (S
    (S (S (S (S (S (S (S (S (S (S (S (S (S
    O))))))))))))))))))))))))))))))))))))))))))))))))))), (Alt ((Chr (false,
    (((Npos (XO (XO (XO (XO (XI XH)))))), (Npos (XI (XO (XO (XI (XI
    XH))))))) :: []))), (Cat ((Chr (false, (((Npos (XI (XO (XO (XO (XI
    XH)))))), (Npos (XI (XO (XO (XI (XI XH))))))) :: []))), (Cat ((Chr
    (false, (((Npos (XO (XO (XO (XO (XI XH)))))), (Npos (XI (XO (XO (XI (XI
    XH))))))) :: []))), (Star (Chr (false, (((Npos (XO (XO (XO (XO (XI
    XH)))))), (Npos (XI (XO (XO (XI (XI XH))))))) :: [])))))))))))))))),
    (Star (Group ((S (S (S (S (S (S (S (S (S (S (S (S (S (S (S (S (S (S (S (S
    (S (S (S (S (S (S (S (S (S (S (S (S (S (S (S (S (S (S (S (S (S (S (S (S
    (S (S (S (S (S (S O)))))))))))))))))))))))))))))))))))))))))))))))))),
    (Cat ((Chr (false, (((Npos (XO (XI (XI (XI (XO XH)))))), (Npos (XO (XI
    (XI (XI (XO XH))))))) :: []))), (Group ((S (S (S (S (S (S (S (S (S (S (S
    (S (S (S (S (S (S (S (S (S (S (S (S (S (S (S (S (S (S (S (S (S (S (S (S
    (S (S (S (S (S (S (S (S (S (S (S (S (S (S (S (S
    O))))))))))))))))))))))))))))))))))))))))))))))))))), (Alt ((Chr (false,
    (((Npos (XO (XO (XO (XO (XI XH)))))), (Npos (XI (XO (XO (XI (XI
    XH))))))) :: []))), (Cat ((Chr (false, (((Npos (XI (XO (XO (XO (XI
    XH)))))), (Npos (XI (XO (XO (XI (XI XH))))))) :: []))), (Cat ((Chr
    (false, (((Npos (XO (XO (XO (XO (XI XH)))))), (Npos (XI (XO (XO (XI (XI
    XH))))))) :: []))), (Star (Chr (false, (((Npos (XO (XO (XO (XO (XI
    XH)))))), (Npos (XI (XO (XO (XI (XI
    XH))))))) :: []))))))))))))))))))))))))), (Cat ((Chr (false, (((Npos (XO
    (XO (XO (XI (XO XH)))))), (Npos (XO (XO (XO (XI (XO XH))))))) :: []))),
    (Cat ((Star (Chr (false, (((Npos (XO (XO (XO (XO (XO XH)))))), (Npos (XO
    (XO (XO (XO (XO XH))))))) :: [])))), (Cat ((Group ((S (S (S (S (S (S (S
    (S (S (S (S (S (S (S (S (S (S (S (S (S (S (S (S (S (S (S (S (S (S (S (S
    (S (S (S (S (S (S (S (S (S (S (S (S (S (S (S (S (S (S (S (S (S
    O)))))))))))))))))))))))))))))))))))))))))))))))))))), (Cat ((Group ((S
    (S (S (S (S (S (S (S (S (S (S (S (S (S (S (S (S (S (S (S (S (S (S (S (S
    (S (S (S (S (S (S (S (S (S (S (S (S (S (S (S (S (S (S (S (S (S (S (S (S
    (S (S (S (S O))))))))))))))))))))))))))))))))))))))))))))))))))))), (Alt
    ((Cat ((Chr (false, (((Npos (XI (XO (XO (XO (XO (XI XH))))))), (Npos (XO
    (XI (XO (XI (XI (XI XH)))))))) :: (((Npos (XI (XO (XO (XO (XO (XO
    XH))))))), (Npos (XO (XI (XO (XI (XI (XO XH)))))))) :: [])))), (Star
    (Group ((S (S (S (S (S (S (S (S (S (S (S (S (S (S (S (S (S (S (S (S (S (S
    (S (S (S (S (S (S (S (S (S (S (S (S (S (S (S (S (S (S (S (S (S (S (S (S
    (S (S (S (S (S (S (S (S
    O)))))))))))))))))))))))))))))))))))))))))))))))))))))), (Group ((S (S (S
    (S (S (S (S (S (S (S (S (S (S (S (S (S (S (S (S (S (S (S (S (S (S (S (S
    (S (S (S (S (S (S (S (S (S (S (S (S (S (S (S (S (S (S (S (S (S (S (S (S
    (S (S (S (S O))))))))))))))))))))))))))))))))))))))))))))))))))))))),
    (Chr (false, (((Npos (XI (XO (XO (XO (XO (XI XH))))))), (Npos (XO (XI (XO
    (XI (XI (XI XH)))))))) :: (((Npos (XI (XO (XO (XO (XO (XO XH))))))),
    (Npos (XO (XI (XO (XI (XI (XO XH)))))))) :: (((Npos (XO (XO (XO (XO (XI
    XH)))))), (Npos (XI (XO (XO (XI (XI XH))))))) :: (((Npos (XI (XO (XI (XI
    (XO XH)))))), (Npos (XI (XO (XI (XI (XO XH))))))) :: []))))))))))))),
    (Cat ((Group ((S (S (S (S (S (S (S (S (S (S (S (S (S (S (S (S (S (S (S (S
    (S (S (S (S (S (S (S (S (S (S (S (S (S (S (S (S (S (S (S (S (S (S (S (S
    (S (S (S (S (S (S (S (S (S (S (S (S
    O)))))))))))))))))))))))))))))))))))))))))))))))))))))))), (Alt ((Chr
    (false, (((Npos (XO (XO (XO (XO (XI XH)))))), (Npos (XI (XO (XO (XI (XI
    XH))))))) :: []))), (Cat ((Chr (false, (((Npos (XI (XO (XO (XO (XI
    XH)))))), (Npos (XI (XO (XO (XI (XI XH))))))) :: []))), (Cat ((Chr
    (false, (((Npos (XO (XO (XO (XO (XI XH)))))), (Npos (XI (XO (XO (XI (XI
    XH))))))) :: []))), (Star (Chr (false, (((Npos (XO (XO (XO (XO (XI
    XH)))))), (Npos (XI (XO (XO (XI (XI XH))))))) :: [])))))))))))), (Cat
    ((Group ((S (S (S (S (S (S (S (S (S (S (S (S (S (S (S (S (S (S (S (S (S
    (S (S (S (S (S (S (S (S (S (S (S (S (S (S (S (S (S (S (S (S (S (S (S (S
    (S (S (S (S (S (S (S (S (S (S (S (S
    O))))))))))))))))))))))))))))))))))))))))))))))))))))))))), (Cat ((Chr
    (false, (((Npos (XO (XI (XI (XI (XO XH)))))), (Npos (XO (XI (XI (XI (XO
    XH))))))) :: []))), (Group ((S (S (S (S (S (S (S (S (S (S (S (S (S (S (S
    (S (S (S (S (S (S (S (S (S (S (S (S (S (S (S (S (S (S (S (S (S (S (S (S
    (S (S (S (S (S (S (S (S (S (S (S (S (S (S (S (S (S (S (S
    O)))))))))))))))))))))))))))))))))))))))))))))))))))))))))), (Alt ((Chr
    (false, (((Npos (XO (XO (XO (XO (XI XH)))))), (Npos (XI (XO (XO (XI (XI
    XH))))))) :: []))), (Cat ((Chr (false, (((Npos (XI (XO (XO (XO (XI
    XH)))))), (Npos (XI (XO (XO (XI (XI XH))))))) :: []))), (Cat ((Chr
    (false, (((Npos (XO (XO (XO (XO (XI XH)))))), (Npos (XI (XO (XO (XI (XI
    XH))))))) :: []))), (Star (Chr (false, (((Npos (XO (XO (XO (XO (XI
    XH)))))), (Npos (XI (XO (XO (XI (XI XH))))))) :: [])))))))))))))))),
    (Star (Group ((S (S (S (S (S (S (S (S (S (S (S (S (S (S (S (S (S (S (S (S
    (S (S (S (S (S (S (S (S (S (S (S (S (S (S (S (S (S (S (S (S (S (S (S (S
    (S (S (S (S (S (S (S (S (S (S (S (S (S
    O))))))))))))))))))))))))))))))))))))))))))))))))))))))))), (Cat ((Chr
    (false, (((Npos (XO (XI (XI (XI (XO XH)))))), (Npos (XO (XI (XI (XI (XO
    XH))))))) :: []))), (Group ((S (S (S (S (S (S (S (S (S (S (S (S (S (S (S
    (S (S (S (S (S (S (S (S (S (S (S (S (S (S (S (S (S (S (S (S (S (S (S (S
    (S (S (S (S (S (S (S (S (S (S (S (S (S (S (S (S (S (S (S
    O)))))))))))))))))))))))))))))))))))))))))))))))))))))))))), (Alt ((Chr
    (false, (((Npos (XO (XO (XO (XO (XI XH)))))), (Npos (XI (XO (XO (XI (XI
    XH))))))) :: []))), (Cat ((Chr (false, (((Npos (XI (XO (XO (XO (XI
    XH)))))), (Npos (XI (XO (XO (XI (XI XH))))))) :: []))), (Cat ((Chr
    (false, (((Npos (XO (XO (XO (XO (XI XH)))))), (Npos (XI (XO (XO (XI (XI
    XH))))))) :: []))), (Star (Chr (false, (((Npos (XO (XO (XO (XO (XI
    XH)))))), (Npos (XI (XO (XO (XI (XI
    XH))))))) :: []))))))))))))))))))))))))), (Star (Group ((S (S (S (S (S (S
    (S (S (S (S (S (S (S (S (S (S (S (S (S (S (S (S (S (S (S (S (S (S (S (S
    (S (S (S (S (S (S (S (S (S (S (S (S (S (S (S (S (S (S (S (S (S (S (S (S
    (S (S (S (S (S
    O))))))))))))))))))))))))))))))))))))))))))))))))))))))))))), (Cat ((Star
    (Chr (false, (((Npos (XO (XO (XO (XO (XO XH)))))), (Npos (XO (XO (XO (XO
    (XO XH))))))) :: [])))), (Cat ((Chr (false, (((Npos (XO (XO (XI (XO (XO
    XH)))))), (Npos (XO (XO (XI (XO (XO XH))))))) :: []))), (Cat ((Star (Chr
    (false, (((Npos (XO (XO (XO (XO (XO XH)))))), (Npos (XO (XO (XO (XO (XO
    XH))))))) :: [])))), (Group ((S (S (S (S (S (S (S (S (S (S (S (S (S (S (S
    (S (S (S (S (S (S (S (S (S (S (S (S (S (S (S (S (S (S (S (S (S (S (S (S
    (S (S (S (S (S (S (S (S (S (S (S (S (S (S (S (S (S (S (S (S (S
    O)))))))))))))))))))))))))))))))))))))))))))))))))))))))))))), (Alt ((Cat
    ((Chr (false, (((Npos (XI (XO (XO (XO (XO (XI XH))))))), (Npos (XO (XI
    (XO (XI (XI (XI XH)))))))) :: (((Npos (XI (XO (XO (XO (XO (XO XH))))))),
    (Npos (XO (XI (XO (XI (XI (XO XH)))))))) :: [])))), (Star (Group ((S (S
    (S (S (S (S (S (S (S (S (S (S (S (S (S (S (S (S (S (S (S (S (S (S (S (S
    (S (S (S (S (S (S (S (S (S (S (S (S (S (S (S (S (S (S (S (S (S (S (S (S
    (S (S (S (S (S (S (S (S (S (S (S
    O))))))))))))))))))))))))))))))))))))))))))))))))))))))))))))), (Group
    ((S (S (S (S (S (S (S (S (S (S (S (S (S (S (S (S (S (S (S (S (S (S (S (S
    (S (S (S (S (S (S (S (S (S (S (S (S (S (S (S (S (S (S (S (S (S (S (S (S
    (S (S (S (S (S (S (S (S (S (S (S (S (S (S
    O)))))))))))))))))))))))))))))))))))))))))))))))))))))))))))))), (Chr
    (false, (((Npos (XI (XO (XO (XO (XO (XI XH))))))), (Npos (XO (XI (XO (XI
    (XI (XI XH)))))))) :: (((Npos (XI (XO (XO (XO (XO (XO XH))))))), (Npos
    (XO (XI (XO (XI (XI (XO XH)))))))) :: (((Npos (XO (XO (XO (XO (XI
    XH)))))), (Npos (XI (XO (XO (XI (XI XH))))))) :: (((Npos (XI (XO (XI (XI
    (XO XH)))))), (Npos (XI (XO (XI (XI (XO XH))))))) :: []))))))))))))),
    (Cat ((Group ((S (S (S (S (S (S (S (S (S (S (S (S (S (S (S (S (S (S (S (S
    (S (S (S (S (S (S (S (S (S (S (S (S (S (S (S (S (S (S (S (S (S (S (S (S
    (S (S (S (S (S (S (S (S (S (S (S (S (S (S (S (S (S (S (S
    O))))))))))))))))))))))))))))))))))))))))))))))))))))))))))))))), (Alt
    ((Chr (false, (((Npos (XO (XO (XO (XO (XI XH)))))), (Npos (XI (XO (XO (XI
    (XI XH))))))) :: []))), (Cat ((Chr (false, (((Npos (XI (XO (XO (XO (XI
    XH)))))), (Npos (XI (XO (XO (XI (XI XH))))))) :: []))), (Cat ((Chr
    (false, (((Npos (XO (XO (XO (XO (XI XH)))))), (Npos (XI (XO (XO (XI (XI
    XH))))))) :: []))), (Star (Chr (false, (((Npos (XO (XO (XO (XO (XI
    XH)))))), (Npos (XI (XO (XO (XI (XI XH))))))) :: [])))))))))))), (Cat
    ((Group ((S (S (S (S (S (S (S (S (S (S (S (S (S (S (S (S (S (S (S (S (S
    (S (S (S (S (S (S (S (S (S (S (S (S (S (S (S (S (S (S (S (S (S (S (S (S
    (S (S (S (S (S (S (S (S (S (S (S (S (S (S (S (S (S (S (S
    O)))))))))))))))))))))))))))))))))))))))))))))))))))))))))))))))), (Cat
    ((Chr (false, (((Npos (XO (XI (XI (XI (XO XH)))))), (Npos (XO (XI (XI (XI
    (XO XH))))))) :: []))), (Group ((S (S (S (S (S (S (S (S (S (S (S (S (S (S
    (S (S (S (S (S (S (S (S (S (S (S (S (S (S (S (S (S (S (S (S (S (S (S (S
    (S (S (S (S (S (S (S (S (S (S (S (S (S (S (S (S (S (S (S (S (S (S (S (S
    (S (S (S
    O))))))))))))))))))))))))))))))))))))))))))))))))))))))))))))))))), (Alt
    ((Chr (false, (((Npos (XO (XO (XO (XO (XI XH)))))), (Npos (XI (XO (XO (XI
    (XI XH))))))) :: []))), (Cat ((Chr (false, (((Npos (XI (XO (XO (XO (XI
    XH)))))), (Npos (XI (XO (XO (XI (XI XH))))))) :: []))), (Cat ((Chr
    (false, (((Npos (XO (XO (XO (XO (XI XH)))))), (Npos (XI (XO (XO (XI (XI
    XH))))))) :: []))), (Star (Chr (false, (((Npos (XO (XO (XO (XO (XI
    XH)))))), (Npos (XI (XO (XO (XI (XI XH))))))) :: [])))))))))))))))),
    (Star (Group ((S (S (S (S (S (S (S (S (S (S (S (S (S (S (S (S (S (S (S (S
    (S (S (S (S (S (S (S (S (S (S (S (S (S (S (S (S (S (S (S (S (S (S (S (S
    (S (S (S (S (S (S (S (S (S (S (S (S (S (S (S (S (S (S (S (S
    O)))))))))))))))))))))))))))))))))))))))))))))))))))))))))))))))), (Cat
    ((Chr (false, (((Npos (XO (XI (XI (XI (XO XH)))))), (Npos (XO (XI (XI (XI
    (XO XH))))))) :: []))), (Group ((S (S (S (S (S (S (S (S (S (S (S (S (S (S
    (S (S (S (S (S (S (S (S (S (S (S (S (S (S (S (S (S (S (S (S (S (S (S (S
    (S (S (S (S (S (S (S (S (S (S (S (S (S (S (S (S (S (S (S (S (S (S (S (S
    (S (S (S
    O))))))))))))))))))))))))))))))))))))))))))))))))))))))))))))))))), (Alt
    ((Chr (false, (((Npos (XO (XO (XO (XO (XI XH)))))), (Npos (XI (XO (XO (XI
    (XI XH))))))) :: []))), (Cat ((Chr (false, (((Npos (XI (XO (XO (XO (XI
    XH)))))), (Npos (XI (XO (XO (XI (XI XH))))))) :: []))), (Cat ((Chr
    (false, (((Npos (XO (XO (XO (XO (XI XH)))))), (Npos (XI (XO (XO (XI (XI
    XH))))))) :: []))), (Star (Chr (false, (((Npos (XO (XO (XO (XO (XI
    XH)))))), (Npos (XI (XO (XO (XI (XI
    XH))))))) :: [])))))))))))))))))))))))))))))))))))))), (Cat ((Star (Chr
    (false, (((Npos (XO (XO (XO (XO (XO XH)))))), (Npos (XO (XO (XO (XO (XO
    XH))))))) :: [])))), (Chr (false, (((Npos (XI (XO (XO (XI (XO XH)))))),
    (Npos (XI (XO (XO (XI (XO XH))))))) :: []))))))))))))))))))))))))))))))),
    Eps)), (Cat ((Alt ((Group ((S (S (S (S (S (S (S (S (S (S (S (S (S (S (S
    (S (S (S (S (S (S (S (S (S (S (S (S (S (S (S (S (S (S (S (S (S (S (S (S
    (S (S (S (S (S (S (S (S (S (S (S (S (S (S (S (S (S (S (S (S (S (S (S (S
    (S (S (S
    O)))))))))))))))))))))))))))))))))))))))))))))))))))))))))))))))))), (Cat
    ((Cat ((Chr (false, (((Npos (XO (XO (XO (XO (XO XH)))))), (Npos (XO (XO
    (XO (XO (XO XH))))))) :: []))), (Star (Chr (false, (((Npos (XO (XO (XO
    (XO (XO XH)))))), (Npos (XO (XO (XO (XO (XO XH))))))) :: [])))))), (Cat
    ((Chr (false, (((Npos (XI (XO (XI (XI (XO (XO XH))))))), (Npos (XI (XO
    (XI (XI (XO (XO XH)))))))) :: []))), (Cat ((Chr (false, (((Npos (XI (XO
    (XO (XO (XO (XO XH))))))), (Npos (XI (XO (XO (XO (XO (XO
    XH)))))))) :: []))), (Cat ((Chr (false, (((Npos (XI (XO (XO (XI (XI (XO
    XH))))))), (Npos (XI (XO (XO (XI (XI (XO XH)))))))) :: []))), (Cat ((Cat
    ((Chr (false, (((Npos (XO (XO (XO (XO (XO XH)))))), (Npos (XO (XO (XO (XO
    (XO XH))))))) :: []))), (Star (Chr (false, (((Npos (XO (XO (XO (XO (XO
    XH)))))), (Npos (XO (XO (XO (XO (XO XH))))))) :: [])))))), (Group ((S (S
    (S (S (S (S (S (S (S (S (S (S (S (S (S (S (S (S (S (S (S (S (S (S (S (S
    (S (S (S (S (S (S (S (S (S (S (S (S (S (S (S (S (S (S (S (S (S (S (S (S
    (S (S (S (S (S (S (S (S (S (S (S (S (S (S (S (S (S
    O))))))))))))))))))))))))))))))))))))))))))))))))))))))))))))))))))),
    (Group ((S (S (S (S (S (S (S (S (S (S (S (S (S (S (S (S (S (S (S (S (S (S
    (S (S (S (S (S (S (S (S (S (S (S (S (S (S (S (S (S (S (S (S (S (S (S (S
    (S (S (S (S (S (S (S (S (S (S (S (S (S (S (S (S (S (S (S (S (S (S
    O)))))))))))))))))))))))))))))))))))))))))))))))))))))))))))))))))))),
    (Alt ((Group ((S (S (S (S (S (S (S (S (S (S (S (S (S (S (S (S (S (S (S (S
    (S (S (S (S (S (S (S (S (S (S (S (S (S (S (S (S (S (S (S (S (S (S (S (S
    (S (S (S (S (S (S (S (S (S (S (S (S (S (S (S (S (S (S (S (S (S (S (S (S
    (S
    O))))))))))))))))))))))))))))))))))))))))))))))))))))))))))))))))))))),
    (Alt ((Cat ((Chr (false, (((Npos (XI (XO (XO (XO (XO (XI XH))))))), (Npos
    (XO (XI (XO (XI (XI (XI XH)))))))) :: (((Npos (XI (XO (XO (XO (XO (XO
    XH))))))), (Npos (XO (XI (XO (XI (XI (XO XH)))))))) :: [])))), (Star
    (Group ((S (S (S (S (S (S (S (S (S (S (S (S (S (S (S (S (S (S (S (S (S (S
    (S (S (S (S (S (S (S (S (S (S (S (S (S (S (S (S (S (S (S (S (S (S (S (S
    (S (S (S (S (S (S (S (S (S (S (S (S (S (S (S (S (S (S (S (S (S (S (S (S
    O)))))))))))))))))))))))))))))))))))))))))))))))))))))))))))))))))))))),
    (Group ((S (S (S (S (S (S (S (S (S (S (S (S (S (S (S (S (S (S (S (S (S (S
    (S (S (S (S (S (S (S (S (S (S (S (S (S (S (S (S (S (S (S (S (S (S (S (S
    (S (S (S (S (S (S (S (S (S (S (S (S (S (S (S (S (S (S (S (S (S (S (S (S
    (S
    O))))))))))))))))))))))))))))))))))))))))))))))))))))))))))))))))))))))),
    (Chr (false, (((Npos (XI (XO (XO (XO (XO (XI XH))))))), (Npos (XO (XI (XO
    (XI (XI (XI XH)))))))) :: (((Npos (XI (XO (XO (XO (XO (XO XH))))))),
    (Npos (XO (XI (XO (XI (XI (XO XH)))))))) :: (((Npos (XO (XO (XO (XO (XI
    XH)))))), (Npos (XI (XO (XO (XI (XI XH))))))) :: (((Npos (XI (XO (XI (XI
    (XO XH)))))), (Npos (XI (XO (XI (XI (XO XH))))))) :: []))))))))))))),
    (Cat ((Group ((S (S (S (S (S (S (S (S (S (S (S (S (S (S (S (S (S (S (S (S
    (S (S (S (S (S (S (S (S (S (S (S (S (S (S (S (S (S (S (S (S (S (S (S (S
    (S (S (S (S (S (S (S (S (S (S (S (S (S (S (S (S (S (S (S (S (S (S (S (S
    (S (S (S (S
    O)))))))))))))))))))))))))))))))))))))))))))))))))))))))))))))))))))))))),
    (Alt ((Chr (false, (((Npos (XO (XO (XO (XO (XI XH)))))), (Npos (XI (XO
    (XO (XI (XI XH))))))) :: []))), (Cat ((Chr (false, (((Npos (XI (XO (XO
    (XO (XI XH)))))), (Npos (XI (XO (XO (XI (XI XH))))))) :: []))), (Cat
    ((Chr (false, (((Npos (XO (XO (XO (XO (XI XH)))))), (Npos (XI (XO (XO (XI
    (XI XH))))))) :: []))), (Star (Chr (false, (((Npos (XO (XO (XO (XO (XI
    XH)))))), (Npos (XI (XO (XO (XI (XI XH))))))) :: [])))))))))))), (Cat
    ((Group ((S (S (S (S (S (S (S (S (S (S (S (S (S (S (S (S (S (S (S (S (S
    (S (S (S (S (S (S (S (S (S (S (S (S (S (S (S (S (S (S (S (S (S (S (S (S
    (S (S (S (S (S (S (S (S (S (S (S (S (S (S (S (S (S (S (S (S (S (S (S (S
    (S (S (S (S
    O))))))))))))))))))))))))))))))))))))))))))))))))))))))))))))))))))))))))),
    (Cat ((Chr (false, (((Npos (XO (XI (XI (XI (XO XH)))))), (Npos (XO (XI
    (XI (XI (XO XH))))))) :: []))), (Group ((S (S (S (S (S (S (S (S (S (S (S
    (S (S (S (S (S (S (S (S (S (S (S (S (S (S (S (S (S (S (S (S (S (S (S (S
    (S (S (S (S (S (S (S (S (S (S (S (S (S (S (S (S (S (S (S (S (S (S (S (S
    (S (S (S (S (S (S (S (S (S (S (S (S (S (S (S
    O)))))))))))))))))))))))))))))))))))))))))))))))))))))))))))))))))))))))))),
    (Alt ((Chr (false, (((Npos (XO (XO (XO (XO (XI XH)))))), (Npos (XI (XO
    (XO (XI (XI XH))))))) :: []))), (Cat ((Chr (false, (((Npos (XI (XO (XO
    (XO (XI XH)))))), (Npos (XI (XO (XO (XI (XI XH))))))) :: []))), (Cat
    ((Chr (false, (((Npos (XO (XO (XO (XO (XI XH)))))), (Npos (XI (XO (XO (XI
    (XI XH))))))) :: []))), (Star (Chr (false, (((Npos (XO (XO (XO (XO (XI
    XH)))))), (Npos (XI (XO (XO (XI (XI XH))))))) :: [])))))))))))))))),
    (Star (Group ((S (S (S (S (S (S (S (S (S (S (S (S (S (S (S (S (S (S (S (S
    (S (S (S (S (S (S (S (S (S (S (S (S (S (S (S (S (S (S (S (S (S (S (S (S
    (S (S (S (S (S (S (S (S (S (S (S (S (S (S (S (S (S (S (S (S (S (S (S (S
    (S (S (S (S (S
    O))))))))))))))))))))))))))))))))))))))))))))))))))))))))))))))))))))))))),
    (Cat ((Chr (false, (((Npos (XO (XI (XI (XI (XO XH)))))), (Npos (XO (XI
    (XI (XI (XO XH))))))) :: []))), (Group ((S (S (S (S (S (S (S (S (S (S (S
    (S (S (S (S (S (S (S (S (S (S (S (S (S (S (S (S (S (S (S (S (S (S (S (S
    (S (S (S (S (S (S (S (S (S (S (S (S (S (S (S (S (S (S (S (S (S (S (S (S
    (S (S (S (S (S (S (S (S (S (S (S (S (S (S (S
    O)))))))))))))))))))))))))))))))))))))))))))))))))))))))))))))))))))))))))),
    (Alt ((Chr (false, (((Npos (XO (XO (XO (XO (XI XH)))))), (Npos (XI (XO
    (XO (XI (XI XH))))))) :: []))), (Cat ((Chr (false, (((Npos (XI (XO (XO
    (XO (XI XH)))))), (Npos (XI (XO (XO (XI (XI XH))))))) :: []))), (Cat
    ((Chr (false, (((Npos (XO (XO (XO (XO (XI XH)))))), (Npos (XI (XO (XO (XI
    (XI XH))))))) :: []))), (Star (Chr (false, (((Npos (XO (XO (XO (XO (XI
    XH)))))), (Npos (XI (XO (XO (XI (XI
    XH))))))) :: []))))))))))))))))))))))))), (Cat ((Chr (false, (((Npos (XO
    (XO (XO (XI (XO XH)))))), (Npos (XO (XO (XO (XI (XO XH))))))) :: []))),
    (Cat ((Star (Chr (false, (((Npos (XO (XO (XO (XO (XO XH)))))), (Npos (XO
    (XO (XO (XO (XO XH))))))) :: [])))), (Cat ((Group ((S (S (S (S (S (S (S
    (S (S (S (S (S (S (S (S (S (S (S (S (S (S (S (S (S (S (S (S (S (S (S (S
    (S (S (S (S (S (S (S (S (S (S (S (S (S (S (S (S (S (S (S (S (S (S (S (S
    (S (S (S (S (S (S (S (S (S (S (S (S (S (S (S (S (S (S (S (S
    O))))))))))))))))))))))))))))))))))))))))))))))))))))))))))))))))))))))))))),
    (Cat ((Group ((S (S (S (S (S (S (S (S (S (S (S (S (S (S (S (S (S (S (S (S
    (S (S (S (S (S (S (S (S (S (S (S (S (S (S (S (S (S (S (S (S (S (S (S (S
    (S (S (S (S (S (S (S (S (S (S (S (S (S (S (S (S (S (S (S (S (S (S (S (S
    (S (S (S (S (S (S (S (S
    O)))))))))))))))))))))))))))))))))))))))))))))))))))))))))))))))))))))))))))),
    (Alt ((Cat ((Chr (false, (((Npos (XI (XO (XO (XO (XO (XI XH))))))), (Npos
    (XO (XI (XO (XI (XI (XI XH)))))))) :: (((Npos (XI (XO (XO (XO (XO (XO
    XH))))))), (Npos (XO (XI (XO (XI (XI (XO XH)))))))) :: [])))), (Star
    (Group ((S (S (S (S (S (S (S (S (S (S (S (S (S (S (S (S (S (S (S (S (S (S
    (S (S (S (S (S (S (S (S (S (S (S (S (S (S (S (S (S (S (S (S (S (S (S (S
    (S (S (S (S (S (S (S (S (S (S (S (S (S (S (S (S (S (S (S (S (S (S (S (S
    (S (S (S (S (S (S (S
    O))))))))))))))))))))))))))))))))))))))))))))))))))))))))))))))))))))))))))))),
    (Group ((S (S (S (S (S (S (S (S (S (S (S (S (S (S (S (S (S (S (S (S (S (S
    (S (S (S (S (S (S (S (S (S (S (S (S (S (S (S (S (S (S (S (S (S (S (S (S
    (S (S (S (S (S (S (S (S (S (S (S (S (S (S (S (S (S (S (S (S (S (S (S (S
    (S (S (S (S (S (S (S (S
    O)))))))))))))))))))))))))))))))))))))))))))))))))))))))))))))))))))))))))))))),
    (Chr (false, (((Npos (XI (XO (XO (XO (XO (XI XH))))))), (Npos (XO (XI (XO
    (XI (XI (XI XH)))))))) :: (((Npos (XI (XO (XO (XO (XO (XO XH))))))),
    (Npos (XO (XI (XO (XI (XI (XO XH)))))))) :: (((Npos (XO (XO (XO (XO (XI
    XH)))))), (Npos (XI (XO (XO (XI (XI XH))))))) :: (((Npos (XI (XO (XI (XI
    (XO XH)))))), (Npos (XI (XO (XI (XI (XO XH))))))) :: []))))))))))))),
    (Cat ((Group ((S (S (S (S (S (S (S (S (S (S (S (S (S (S (S (S (S (S (S (S
    (S (S (S (S (S (S (S (S (S (S (S (S (S (S (S (S (S (S (S (S (S (S (S (S
    (S (S (S (S (S (S (S (S (S (S (S (S (S (S (S (S (S (S (S (S (S (S (S (S
    (S (S (S (S (S (S (S (S (S (S (S
    O))))))))))))))))))))))))))))))))))))))))))))))))))))))))))))))))))))))))))))))),
    (Alt ((Chr (false, (((Npos (XO (XO (XO (XO (XI XH)))))), (Npos (XI (XO
    (XO (XI (XI XH))))))) :: []))), (Cat ((Chr (false, (((Npos (XI (XO (XO
    (XO (XI XH)))))), (Npos (XI (XO (XO (XI (XI XH))))))) :: []))), (Cat
    ((Chr (false, (((Npos (XO (XO (XO (XO (XI XH)))))), (Npos (XI (XO (XO (XI
    (XI XH))))))) :: []))), (Star (Chr (false, (((Npos (XO (XO (XO (XO (XI
    XH)))))), (Npos (XI (XO (XO (XI (XI XH))))))) :: [])))))))))))), (Cat
    ((Group ((S (S (S (S (S (S (S (S (S (S (S (S (S (S (S (S (S (S (S (S (S
    (S (S (S (S (S (S (S (S (S (S (S (S (S (S (S (S (S (S (S (S (S (S (S (S
    (S (S (S (S (S (S (S (S (S (S (S (S (S (S (S (S (S (S (S (S (S (S (S (S
    (S (S (S (S (S (S (S (S (S (S (S
    O)))))))))))))))))))))))))))))))))))))))))))))))))))))))))))))))))))))))))))))))),
    (Cat ((Chr (false, (((Npos (XO (XI (XI (XI (XO XH)))))), (Npos (XO (XI
    (XI (XI (XO XH))))))) :: []))), (Group ((S (S (S (S (S (S (S (S (S (S (S
    (S (S (S (S (S (S (S (S (S (S (S (S (S (S (S (S (S (S (S (S (S (S (S (S
    (S (S (S (S (S (S (S (S (S (S (S (S (S (S (S (S (S (S (S (S (S (S (S (S
    (S (S (S (S (S (S (S (S (S (S (S (S (S (S (S (S (S (S (S (S (S (S
    O))))))))))))))))))))))))))))))))))))))))))))))))))))))))))))))))))))))))))))))))),
    (Alt ((Chr (false, (((Npos (XO (XO (XO (XO (XI XH)))))), (Npos (XI (XO
    (XO (XI (XI XH))))))) :: []))), (Cat ((Chr (false, (((Npos (XI (XO (XO
    (XO (XI XH)))))), (Npos (XI (XO (XO (XI (XI XH))))))) :: []))), (Cat
    ((Chr (false, (((Npos (XO (XO (XO (XO (XI XH)))))), (Npos (XI (XO (XO (XI
    (XI XH))))))) :: []))), (Star (Chr (false, (((Npos (XO (XO (XO (XO (XI
    XH)))))), (Npos (XI (XO (XO (XI (XI XH))))))) :: [])))))))))))))))),
    (Star (Group ((S (S (S (S (S (S (S (S (S (S (S (S (S (S (S (S (S (S (S (S
    (S (S (S (S (S (S (S (S (S (S (S (S (S (S (S (S (S (S (S (S (S (S (S (S
    (S (S (S (S (S (S (S (S (S (S (S (S (S (S (S (S (S (S (S (S (S (S (S (S
    (S (S (S (S (S (S (S (S (S (S (S (S
    O)))))))))))))))))))))))))))))))))))))))))))))))))))))))))))))))))))))))))))))))),
    (Cat ((Chr (false, (((Npos (XO (XI (XI (XI (XO XH)))))), (Npos (XO (XI
    (XI (XI (XO XH))))))) :: []))), (Group ((S (S (S (S (S (S (S (S (S (S (S
    (S (S (S (S (S (S (S (S (S (S (S (S (S (S (S (S (S (S (S (S (S (S (S (S
    (S (S (S (S (S (S (S (S (S (S (S (S (S (S (S (S (S (S (S (S (S (S (S (S
    (S (S (S (S (S (S (S (S (S (S (S (S (S (S (S (S (S (S (S (S (S (S
    O))))))))))))))))))))))))))))))))))))))))))))))))))))))))))))))))))))))))))))))))),
    (Alt ((Chr (false, (((Npos (XO (XO (XO (XO (XI XH)))))), (Npos (XI (XO
    (XO (XI (XI XH))))))) :: []))), (Cat ((Chr (false, (((Npos (XI (XO (XO
    (XO (XI XH)))))), (Npos (XI (XO (XO (XI (XI XH))))))) :: []))), (Cat
    ((Chr (false, (((Npos (XO (XO (XO (XO (XI XH)))))), (Npos (XI (XO (XO (XI
    (XI XH))))))) :: []))), (Star (Chr (false, (((Npos (XO (XO (XO (XO (XI
    XH)))))), (Npos (XI (XO (XO (XI (XI
    XH))))))) :: []))))))))))))))))))))))))), (Star (Group ((S (S (S (S (S (S
    (S (S (S (S (S (S (S (S (S (S (S (S (S (S (S (S (S (S (S (S (S (S (S (S
    (S (S (S (S (S (S (S (S (S (S (S (S (S (S (S (S (S (S (S (S (S (S (S (S
    (S (S (S (S (S (S (S (S (S (S (S (S (S (S (S (S (S (S (S (S (S (S (S (S
    (S (S (S (S
    O)))))))))))))))))))))))))))))))))))))))))))))))))))))))))))))))))))))))))))))))))),
    (Cat ((Star (Chr (false, (((Npos (XO (XO (XO (XO (XO XH)))))), (Npos (XO
    (XO (XO (XO (XO XH))))))) :: [])))), (Cat ((Chr (false, (((Npos (XO (XO
    (XI (XO (XO XH)))))), (Npos (XO (XO (XI (XO (XO XH))))))) :: []))), (Cat
    ((Star (Chr (false, (((Npos (XO (XO (XO (XO (XO XH)))))), (Npos (XO (XO
    (XO (XO (XO XH))))))) :: [])))), (Group ((S (S (S (S (S (S (S (S (S (S (S
    (S (S (S (S (S (S (S (S (S (S (S (S (S (S (S (S (S (S (S (S (S (S (S (S
    (S (S (S (S (S (S (S (S (S (S (S (S (S (S (S (S (S (S (S (S (S (S (S (S
    (S (S (S (S (S (S (S (S (S (S (S (S (S (S (S (S (S (S (S (S (S (S (S (S
    O))))))))))))))))))))))))))))))))))))))))))))))))))))))))))))))))))))))))))))))))))),
    (Alt ((Cat ((Chr (false, (((Npos (XI (XO (XO (XO (XO (XI XH))))))), (Npos
    (XO (XI (XO (XI (XI (XI XH)))))))) :: (((Npos (XI (XO (XO (XO (XO (XO
    XH))))))), (Npos (XO (XI (XO (XI (XI (XO XH)))))))) :: [])))), (Star
    (Group ((S (S (S (S (S (S (S (S (S (S (S (S (S (S (S (S (S (S (S (S (S (S
    (S (S (S (S (S (S (S (S (S (S (S (S (S (S (S (S (S (S (S (S (S (S (S (S
    (S (S (S (S (S (S (S (S (S (S (S (S (S (S (S (S (S (S (S (S (S (S (S (S
    (S (S (S (S (S (S (S (S (S (S (S (S (S (S
    O)))))))))))))))))))))))))))))))))))))))))))))))))))))))))))))))))))))))))))))))))))),
    (Group ((S (S (S (S (S (S (S (S (S (S (S (S (S (S (S (S (S (S (S (S (S (S
    (S (S (S (S (S (S (S (S (S (S (S (S (S (S (S (S (S (S (S (S (S (S (S (S
    (S (S (S (S (S (S (S (S (S (S (S (S (S (S (S (S (S (S (S (S (S (S (S (S
    (S (S (S (S (S (S (S (S (S (S (S (S (S (S (S
    O))))))))))))))))))))))))))))))))))))))))))))))))))))))))))))))))))))))))))))))))))))),
    (Chr (false, (((Npos (XI (XO (XO (XO (XO (XI XH))))))), (Npos (XO (XI (XO
    (XI (XI (XI XH)))))))) :: (((Npos (XI (XO (XO (XO (XO (XO XH))))))),
    (Npos (XO (XI (XO (XI (XI (XO XH)))))))) :: (((Npos (XO (XO (XO (XO (XI
    XH)))))), (Npos (XI (XO (XO (XI (XI XH))))))) :: (((Npos (XI (XO (XI (XI
    (XO XH)))))), (Npos (XI (XO (XI (XI (XO XH))))))) :: []))))))))))))),
    (Cat ((Group ((S (S (S (S (S (S (S (S (S (S (S (S (S (S (S (S (S (S (S (S
    (S (S (S (S (S (S (S (S (S (S (S (S (S (S (S (S (S (S (S (S (S (S (S (S
    (S (S (S (S (S (S (S (S (S (S (S (S (S (S (S (S (S (S (S (S (S (S (S (S
    (S (S (S (S (S (S (S (S (S (S (S (S (S (S (S (S (S (S
    O)))))))))))))))))))))))))))))))))))))))))))))))))))))))))))))))))))))))))))))))))))))),
    (Alt ((Chr (false, (((Npos (XO (XO (XO (XO (XI XH)))))), (Npos (XI (XO
    (XO (XI (XI XH))))))) :: []))), (Cat ((Chr (false, (((Npos (XI (XO (XO
    (XO (XI XH)))))), (Npos (XI (XO (XO (XI (XI XH))))))) :: []))), (Cat
    ((Chr (false, (((Npos (XO (XO (XO (XO (XI XH)))))), (Npos (XI (XO (XO (XI
    (XI XH))))))) :: []))), (Star (Chr (false, (((Npos (XO (XO (XO (XO (XI
    XH)))))), (Npos (XI (XO (XO (XI (XI XH))))))) :: [])))))))))))), (Cat
    ((Group ((S (S (S (S (S (S (S (S (S (S (S (S (S (S (S (S (S (S (S (S (S
    (S (S (S (S (S (S (S (S (S (S (S (S (S (S (S (S (S (S (S (S (S (S (S (S
    (S (S (S (S (S (S (S (S (S (S (S (S (S (S (S (S (S (S (S (S (S (S (S (S
    (S (S (S (S (S (S (S (S (S (S (S (S (S (S (S (S (S (S
    O))))))))))))))))))))))))))))))))))))))))))))))))))))))))))))))))))))))))))))))))))))))),
    (Cat ((Chr (false, (((Npos (XO (XI (XI (XI (XO XH)))))), (Npos (XO (XI
    (XI (XI (XO XH))))))) :: []))), (Group ((S (S (S (S (S (S (S (S (S (S (S
    (S (S (S (S (S (S (S (S (S (S (S (S (S (S (S (S (S (S (S (S (S (S (S (S
    (S (S (S (S (S (S (S (S (S (S (S (S (S (S (S (S (S (S (S (S (S (S (S (S
    (S (S (S (S (S (S (S (S (S (S (S (S (S (S (S (S (S (S (S (S (S (S (S (S
    (S (S (S (S (S
    O)))))))))))))))))))))))))))))))))))))))))))))))))))))))))))))))))))))))))))))))))))))))),
    (Alt ((Chr (false, (((Npos (XO (XO (XO (XO (XI XH)))))), (Npos (XI (XO
    (XO (XI (XI XH))))))) :: []))), (Cat ((Chr (false, (((Npos (XI (XO (XO
    (XO (XI XH)))))), (Npos (XI (XO (XO (XI (XI XH))))))) :: []))), (Cat
    ((Chr (false, (((Npos (XO (XO (XO (XO (XI XH)))))), (Npos (XI (XO (XO (XI
    (XI XH))))))) :: []))), (Star (Chr (false, (((Npos (XO (XO (XO (XO (XI
    XH)))))), (Npos (XI (XO (XO (XI (XI XH))))))) :: [])))))))))))))))),
    (Star (Group ((S (S (S (S (S (S (S (S (S (S (S (S (S (S (S (S (S (S (S (S
    (S (S (S (S (S (S (S (S (S (S (S (S (S (S (S (S (S (S (S (S (S (S (S (S
    (S (S (S (S (S (S (S (S (S (S (S (S (S (S (S (S (S (S (S (S (S (S (S (S
    (S (S (S (S (S (S (S (S (S (S (S (S (S (S (S (S (S (S (S
    O))))))))))))))))))))))))))))))))))))))))))))))))))))))))))))))))))))))))))))))))))))))),
    (Cat ((Chr (false, (((Npos (XO (XI (XI (XI (XO XH)))))), (Npos (XO (XI
    (XI (XI (XO XH))))))) :: []))), (Group ((S (S (S (S (S (S (S (S (S (S (S
    (S (S (S (S (S (S (S (S (S (S (S (S (S (S (S (S (S (S (S (S (S (S (S (S
    (S (S (S (S (S (S (S (S (S (S (S (S (S (S (S (S (S (S (S (S (S (S (S (S
    (S (S (S (S (S (S (S (S (S (S (S (S (S (S (S (S (S (S (S (S (S (S (S (S
    (S (S (S (S (S
    O)))))))))))))))))))))))))))))))))))))))))))))))))))))))))))))))))))))))))))))))))))))))),
    (Alt ((Chr (false, (((Npos (XO (XO (XO (XO (XI XH)))))), (Npos (XI (XO
    (XO (XI (XI XH))))))) :: []))), (Cat ((Chr (false, (((Npos (XI (XO (XO
    (XO (XI XH)))))), (Npos (XI (XO (XO (XI (XI XH))))))) :: []))), (Cat
    ((Chr (false, (((Npos (XO (XO (XO (XO (XI XH)))))), (Npos (XI (XO (XO (XI
    (XI XH))))))) :: []))), (Star (Chr (false, (((Npos (XO (XO (XO (XO (XI
    XH)))))), (Npos (XI (XO (XO (XI (XI
    XH))))))) :: [])))))))))))))))))))))))))))))))))))))), (Cat ((Star (Chr
    (false, (((Npos (XO (XO (XO (XO (XO XH)))))), (Npos (XO (XO (XO (XO (XO
    XH))))))) :: [])))), (Chr (false, (((Npos (XI (XO (XO (XI (XO XH)))))),
    (Npos (XI (XO (XO (XI (XO XH))))))) :: []))))))))))))))))))))))))))))),
    Eps)), (Cat ((Alt ((Group ((S (S (S (S (S (S (S (S (S (S (S (S (S (S (S
    (S (S (S (S (S (S (S (S (S (S (S (S (S (S (S (S (S (S (S (S (S (S (S (S
    (S (S (S (S (S (S (S (S (S (S (S (S (S (S (S (S (S (S (S (S (S (S (S (S
    (S (S (S (S (S (S (S (S (S (S (S (S (S (S (S (S (S (S (S (S (S (S (S (S
    (S (S
    O))))))))))))))))))))))))))))))))))))))))))))))))))))))))))))))))))))))))))))))))))))))))),
    (Cat ((Cat ((Chr (false, (((Npos (XO (XO (XO (XO (XO XH)))))), (Npos (XO
    (XO (XO (XO (XO XH))))))) :: []))), (Star (Chr (false, (((Npos (XO (XO
    (XO (XO (XO XH)))))), (Npos (XO (XO (XO (XO (XO XH))))))) :: [])))))),
    (Cat ((Chr (false, (((Npos (XO (XI (XI (XI (XO (XO XH))))))), (Npos (XO
    (XI (XI (XI (XO (XO XH)))))))) :: []))), (Cat ((Chr (false, (((Npos (XI
    (XI (XI (XI (XO (XO XH))))))), (Npos (XI (XI (XI (XI (XO (XO
    XH)))))))) :: []))), (Cat ((Chr (false, (((Npos (XO (XO (XI (XO (XI (XO
    XH))))))), (Npos (XO (XO (XI (XO (XI (XO XH)))))))) :: []))), (Cat ((Cat
    ((Chr (false, (((Npos (XO (XO (XO (XO (XO XH)))))), (Npos (XO (XO (XO (XO
    (XO XH))))))) :: []))), (Star (Chr (false, (((Npos (XO (XO (XO (XO (XO
    XH)))))), (Npos (XO (XO (XO (XO (XO XH))))))) :: [])))))), (Group ((S (S
    (S (S (S (S (S (S (S (S (S (S (S (S (S (S (S (S (S (S (S (S (S (S (S (S
    (S (S (S (S (S (S (S (S (S (S (S (S (S (S (S (S (S (S (S (S (S (S (S (S
    (S (S (S (S (S (S (S (S (S (S (S (S (S (S (S (S (S (S (S (S (S (S (S (S
    (S (S (S (S (S (S (S (S (S (S (S (S (S (S (S (S
    O)))))))))))))))))))))))))))))))))))))))))))))))))))))))))))))))))))))))))))))))))))))))))),
    (Group ((S (S (S (S (S (S (S (S (S (S (S (S (S (S (S (S (S (S (S (S (S (S
    (S (S (S (S (S (S (S (S (S (S (S (S (S (S (S (S (S (S (S (S (S (S (S (S
    (S (S (S (S (S (S (S (S (S (S (S (S (S (S (S (S (S (S (S (S (S (S (S (S
    (S (S (S (S (S (S (S (S (S (S (S (S (S (S (S (S (S (S (S (S (S
    O))))))))))))))))))))))))))))))))))))))))))))))))))))))))))))))))))))))))))))))))))))))))))),
    (Alt ((Group ((S (S (S (S (S (S (S (S (S (S (S (S (S (S (S (S (S (S (S (S
    (S (S (S (S (S (S (S (S (S (S (S (S (S (S (S (S (S (S (S (S (S (S (S (S
    (S (S (S (S (S (S (S (S (S (S (S (S (S (S (S (S (S (S (S (S (S (S (S (S
    (S (S (S (S (S (S (S (S (S (S (S (S (S (S (S (S (S (S (S (S (S (S (S (S
    O)))))))))))))))))))))))))))))))))))))))))))))))))))))))))))))))))))))))))))))))))))))))))))),
    (Alt ((Cat ((Chr (false, (((Npos (XI (XO (XO (XO (XO (XI XH))))))), (Npos
    (XO (XI (XO (XI (XI (XI XH)))))))) :: (((Npos (XI (XO (XO (XO (XO (XO
    XH))))))), (Npos (XO (XI (XO (XI (XI (XO XH)))))))) :: [])))), (Star
    (Group ((S (S (S (S (S (S (S (S (S (S (S (S (S (S (S (S (S (S (S (S (S (S
    (S (S (S (S (S (S (S (S (S (S (S (S (S (S (S (S (S (S (S (S (S (S (S (S
    (S (S (S (S (S (S (S (S (S (S (S (S (S (S (S (S (S (S (S (S (S (S (S (S
    (S (S (S (S (S (S (S (S (S (S (S (S (S (S (S (S (S (S (S (S (S (S (S
    O))))))))))))))))))))))))))))))))))))))))))))))))))))))))))))))))))))))))))))))))))))))))))))),
    (Group ((S (S (S (S (S (S (S (S (S (S (S (S (S (S (S (S (S (S (S (S (S (S
    (S (S (S (S (S (S (S (S (S (S (S (S (S (S (S (S (S (S (S (S (S (S (S (S
    (S (S (S (S (S (S (S (S (S (S (S (S (S (S (S (S (S (S (S (S (S (S (S (S
    (S (S (S (S (S (S (S (S (S (S (S (S (S (S (S (S (S (S (S (S (S (S (S (S
    O)))))))))))))))))))))))))))))))))))))))))))))))))))))))))))))))))))))))))))))))))))))))))))))),
    (Chr (false, (((Npos (XI (XO (XO (XO (XO (XI XH))))))), (Npos (XO (XI (XO
    (XI (XI (XI XH)))))))) :: (((Npos (XI (XO (XO (XO (XO (XO XH))))))),
    (Npos (XO (XI (XO (XI (XI (XO XH)))))))) :: (((Npos (XO (XO (XO (XO (XI
    XH)))))), (Npos (XI (XO (XO (XI (XI XH))))))) :: (((Npos (XI (XO (XI (XI
    (XO XH)))))), (Npos (XI (XO (XI (XI (XO XH))))))) :: []))))))))))))),
    (Cat ((Group ((S (S (S (S (S (S (S (S (S (S (S (S (S (S (S (S (S (S (S (S
    (S (S (S (S (S (S (S (S (S (S (S (S (S (S (S (S (S (S (S (S (S (S (S (S
    (S (S (S (S (S (S (S (S (S (S (S (S (S (S (S (S (S (S (S (S (S (S (S (S
    (S (S (S (S (S (S (S (S (S (S (S (S (S (S (S (S (S (S (S (S (S (S (S (S
    (S (S (S
    O))))))))))))))))))))))))))))))))))))))))))))))))))))))))))))))))))))))))))))))))))))))))))))))),
    (Alt ((Chr (false, (((Npos (XO (XO (XO (XO (XI XH)))))), (Npos (XI (XO
    (XO (XI (XI XH))))))) :: []))), (Cat ((Chr (false, (((Npos (XI (XO (XO
    (XO (XI XH)))))), (Npos (XI (XO (XO (XI (XI XH))))))) :: []))), (Cat
    ((Chr (false, (((Npos (XO (XO (XO (XO (XI XH)))))), (Npos (XI (XO (XO (XI
    (XI XH))))))) :: []))), (Star (Chr (false, (((Npos (XO (XO (XO (XO (XI
    XH)))))), (Npos (XI (XO (XO (XI (XI XH))))))) :: [])))))))))))), (Cat
    ((Group ((S (S (S (S (S (S (S (S (S (S (S (S (S (S (S (S (S (S (S (S (S
    (S (S (S (S (S (S (S (S (S (S (S (S (S (S (S (S (S (S (S (S (S (S (S (S
    (S (S (S (S (S (S (S (S (S (S (S (S (S (S (S (S (S (S (S (S (S (S (S (S
    (S (S (S (S (S (S (S (S (S (S (S (S (S (S (S (S (S (S (S (S (S (S (S (S
    (S (S (S
    O)))))))))))))))))))))))))))))))))))))))))))))))))))))))))))))))))))))))))))))))))))))))))))))))),
    (Cat ((Chr (false, (((Npos (XO (XI (XI (XI (XO XH)))))), (Npos (XO (XI
    (XI (XI (XO XH))))))) :: []))), (Group ((S (S (S (S (S (S (S (S (S (S (S
    (S (S (S (S (S (S (S (S (S (S (S (S (S (S (S (S (S (S (S (S (S (S (S (S
    (S (S (S (S (S (S (S (S (S (S (S (S (S (S (S (S (S (S (S (S (S (S (S (S
    (S (S (S (S (S (S (S (S (S (S (S (S (S (S (S (S (S (S (S (S (S (S (S (S
    (S (S (S (S (S (S (S (S (S (S (S (S (S (S
    O))))))))))))))))))))))))))))))))))))))))))))))))))))))))))))))))))))))))))))))))))))))))))))))))),
    (Alt ((Chr (false, (((Npos (XO (XO (XO (XO (XI XH)))))), (Npos (XI (XO
    (XO (XI (XI XH))))))) :: []))), (Cat ((Chr (false, (((Npos (XI (XO (XO
    (XO (XI XH)))))), (Npos (XI (XO (XO (XI (XI XH))))))) :: []))), (Cat
    ((Chr (false, (((Npos (XO (XO (XO (XO (XI XH)))))), (Npos (XI (XO (XO (XI
    (XI XH))))))) :: []))), (Star (Chr (false, (((Npos (XO (XO (XO (XO (XI
    XH)))))), (Npos (XI (XO (XO (XI (XI XH))))))) :: [])))))))))))))))),
    (Star (Group ((S (S (S (S (S (S (S (S (S (S (S (S (S (S (S (S (S (S (S (S
    (S (S (S (S (S (S (S (S (S (S (S (S (S (S (S (S (S (S (S (S (S (S (S (S
    (S (S (S (S (S (S (S (S (S (S (S (S (S (S (S (S (S (S (S (S (S (S (S (S
    (S (S (S (S (S (S (S (S (S (S (S (S (S (S (S (S (S (S (S (S (S (S (S (S
    (S (S (S (S
    O)))))))))))))))))))))))))))))))))))))))))))))))))))))))))))))))))))))))))))))))))))))))))))))))),
    (Cat ((Chr (false, (((Npos (XO (XI (XI (XI (XO XH)))))), (Npos (XO (XI
    (XI (XI (XO XH))))))) :: []))), (Group ((S (S (S (S (S (S (S (S (S (S (S
    (S (S (S (S (S (S (S (S (S (S (S (S (S (S (S (S (S (S (S (S (S (S (S (S
    (S (S (S (S (S (S (S (S (S (S (S (S (S (S (S (S (S (S (S (S (S (S (S (S
    (S (S (S (S (S (S (S (S (S (S (S (S (S (S (S (S (S (S (S (S (S (S (S (S
    (S (S (S (S (S (S (S (S (S (S (S (S (S (S
    O))))))))))))))))))))))))))))))))))))))))))))))))))))))))))))))))))))))))))))))))))))))))))))))))),
    (Alt ((Chr (false, (((Npos (XO (XO (XO (XO (XI XH)))))), (Npos (XI (XO
    (XO (XI (XI XH))))))) :: []))), (Cat ((Chr (false, (((Npos (XI (XO (XO
    (XO (XI XH)))))), (Npos (XI (XO (XO (XI (XI XH))))))) :: []))), (Cat
    ((Chr (false, (((Npos (XO (XO (XO (XO (XI XH)))))), (Npos (XI (XO (XO (XI
    (XI XH))))))) :: []))), (Star (Chr (false, (((Npos (XO (XO (XO (XO (XI
    XH)))))), (Npos (XI (XO (XO (XI (XI
    XH))))))) :: []))))))))))))))))))))))))), (Cat ((Chr (false, (((Npos (XO
    (XO (XO (XI (XO XH)))))), (Npos (XO (XO (XO (XI (XO XH))))))) :: []))),
    (Cat ((Star (Chr (false, (((Npos (XO (XO (XO (XO (XO XH)))))), (Npos (XO
    (XO (XO (XO (XO XH))))))) :: [])))), (Cat ((Group ((S (S (S (S (S (S (S
    (S (S (S (S (S (S (S (S (S (S (S (S (S (S (S (S (S (S (S (S (S (S (S (S
    (S (S (S (S (S (S (S (S (S (S (S (S (S (S (S (S (S (S (S (S (S (S (S (S
    (S (S (S (S (S (S (S (S (S (S (S (S (S (S (S (S (S (S (S (S (S (S (S (S
    (S (S (S (S (S (S (S (S (S (S (S (S (S (S (S (S (S (S (S
    O)))))))))))))))))))))))))))))))))))))))))))))))))))))))))))))))))))))))))))))))))))))))))))))))))),
    (Cat ((Group ((S (S (S (S (S (S (S (S (S (S (S (S (S (S (S (S (S (S (S (S
    (S (S (S (S (S (S (S (S (S (S (S (S (S (S (S (S (S (S (S (S (S (S (S (S
    (S (S (S (S (S (S (S (S (S (S (S (S (S (S (S (S (S (S (S (S (S (S (S (S
    (S (S (S (S (S (S (S (S (S (S (S (S (S (S (S (S (S (S (S (S (S (S (S (S
    (S (S (S (S (S (S (S
    O))))))))))))))))))))))))))))))))))))))))))))))))))))))))))))))))))))))))))))))))))))))))))))))))))),
    (Alt ((Cat ((Chr (false, (((Npos (XI (XO (XO (XO (XO (XI XH))))))), (Npos
    (XO (XI (XO (XI (XI (XI XH)))))))) :: (((Npos (XI (XO (XO (XO (XO (XO
    XH))))))), (Npos (XO (XI (XO (XI (XI (XO XH)))))))) :: [])))), (Star
    (Group ((S (S (S (S (S (S (S (S (S (S (S (S (S (S (S (S (S (S (S (S (S (S
    (S (S (S (S (S (S (S (S (S (S (S (S (S (S (S (S (S (S (S (S (S (S (S (S
    (S (S (S (S (S (S (S (S (S (S (S (S (S (S (S (S (S (S (S (S (S (S (S (S
    (S (S (S (S (S (S (S (S (S (S (S (S (S (S (S (S (S (S (S (S (S (S (S (S
    (S (S (S (S (S (S
    O)))))))))))))))))))))))))))))))))))))))))))))))))))))))))))))))))))))))))))))))))))))))))))))))))))),
    (Group ((S (S (S (S (S (S (S (S (S (S (S (S (S (S (S (S (S (S (S (S (S (S
    (S (S (S (S (S (S (S (S (S (S (S (S (S (S (S (S (S (S (S (S (S (S (S (S
    (S (S (S (S (S (S (S (S (S (S (S (S (S (S (S (S (S (S (S (S (S (S (S (S
    (S (S (S (S (S (S (S (S (S (S (S (S (S (S (S (S (S (S (S (S (S (S (S (S
    (S (S (S (S (S (S (S
    O))))))))))))))))))))))))))))))))))))))))))))))))))))))))))))))))))))))))))))))))))))))))))))))))))))),
    (Chr (false, (((Npos (XI (XO (XO (XO (XO (XI XH))))))), (Npos (XO (XI (XO
    (XI (XI (XI XH)))))))) :: (((Npos (XI (XO (XO (XO (XO (XO XH))))))),
    (Npos (XO (XI (XO (XI (XI (XO XH)))))))) :: (((Npos (XO (XO (XO (XO (XI
    XH)))))), (Npos (XI (XO (XO (XI (XI XH))))))) :: (((Npos (XI (XO (XI (XI
    (XO XH)))))), (Npos (XI (XO (XI (XI (XO XH))))))) :: []))))))))))))),
    (Cat ((Group ((S (S (S (S (S (S (S (S (S (S (S (S (S (S (S (S (S (S (S (S
    (S (S (S (S (S (S (S (S (S (S (S (S (S (S (S (S (S (S (S (S (S (S (S (S
    (S (S (S (S (S (S (S (S (S (S (S (S (S (S (S (S (S (S (S (S (S (S (S (S
    (S (S (S (S (S (S (S (S (S (S (S (S (S (S (S (S (S (S (S (S (S (S (S (S
    (S (S (S (S (S (S (S (S (S (S
    O)))))))))))))))))))))))))))))))))))))))))))))))))))))))))))))))))))))))))))))))))))))))))))))))))))))),
    (Alt ((Chr (false, (((Npos (XO (XO (XO (XO (XI XH)))))), (Npos (XI (XO
    (XO (XI (XI XH))))))) :: []))), (Cat ((Chr (false, (((Npos (XI (XO (XO
    (XO (XI XH)))))), (Npos (XI (XO (XO (XI (XI XH))))))) :: []))), (Cat
    ((Chr (false, (((Npos (XO (XO (XO (XO (XI XH)))))), (Npos (XI (XO (XO (XI
    (XI XH))))))) :: []))), (Star (Chr (false, (((Npos (XO (XO (XO (XO (XI
    XH)))))), (Npos (XI (XO (XO (XI (XI XH))))))) :: [])))))))))))), (Cat
    ((Group ((S (S (S (S (S (S (S (S (S (S (S (S (S (S (S (S (S (S (S (S (S
    (S (S (S (S (S (S (S (S (S (S (S (S (S (S (S (S (S (S (S (S (S (S (S (S
    (S (S (S (S (S (S (S (S (S (S (S (S (S (S (S (S (S (S (S (S (S (S (S (S
    (S (S (S (S (S (S (S (S (S (S (S (S (S (S (S (S (S (S (S (S (S (S (S (S
    (S (S (S (S (S (S (S (S (S (S
    O))))))))))))))))))))))))))))))))))))))))))))))))))))))))))))))))))))))))))))))))))))))))))))))))))))))),
    (Cat ((Chr (false, (((Npos (XO (XI (XI (XI (XO XH)))))), (Npos (XO (XI
    (XI (XI (XO XH))))))) :: []))), (Group ((S (S (S (S (S (S (S (S (S (S (S
    (S (S (S (S (S (S (S (S (S (S (S (S (S (S (S (S (S (S (S (S (S (S (S (S
    (S (S (S (S (S (S (S (S (S (S (S (S (S (S (S (S (S (S (S (S (S (S (S (S
    (S (S (S (S (S (S (S (S (S (S (S (S (S (S (S (S (S (S (S (S (S (S (S (S
    (S (S (S (S (S (S (S (S (S (S (S (S (S (S (S (S (S (S (S (S (S
    O)))))))))))))))))))))))))))))))))))))))))))))))))))))))))))))))))))))))))))))))))))))))))))))))))))))))),
    (Alt ((Chr (false, (((Npos (XO (XO (XO (XO (XI XH)))))), (Npos (XI (XO
    (XO (XI (XI XH))))))) :: []))), (Cat ((Chr (false, (((Npos (XI (XO (XO
    (XO (XI XH)))))), (Npos (XI (XO (XO (XI (XI XH))))))) :: []))), (Cat
    ((Chr (false, (((Npos (XO (XO (XO (XO (XI XH)))))), (Npos (XI (XO (XO (XI
    (XI XH))))))) :: []))), (Star (Chr (false, (((Npos (XO (XO (XO (XO (XI
    XH)))))), (Npos (XI (XO (XO (XI (XI XH))))))) :: [])))))))))))))))),
    (Star (Group ((S (S (S (S (S (S (S (S (S (S (S (S (S (S (S (S (S (S (S (S
    (S (S (S (S (S (S (S (S (S (S (S (S (S (S (S (S (S (S (S (S (S (S (S (S
    (S (S (S (S (S (S (S (S (S (S (S (S (S (S (S (S (S (S (S (S (S (S (S (S
    (S (S (S (S (S (S (S (S (S (S (S (S (S (S (S (S (S (S (S (S (S (S (S (S
    (S (S (S (S (S (S (S (S (S (S (S
    O))))))))))))))))))))))))))))))))))))))))))))))))))))))))))))))))))))))))))))))))))))))))))))))))))))))),
    (Cat ((Chr (false, (((Npos (XO (XI (XI (XI (XO XH)))))), (Npos (XO (XI
    (XI (XI (XO XH))))))) :: []))), (Group ((S (S (S (S (S (S (S (S (S (S (S
    (S (S (S (S (S (S (S (S (S (S (S (S (S (S (S (S (S (S (S (S (S (S (S (S
    (S (S (S (S (S (S (S (S (S (S (S (S (S (S (S (S (S (S (S (S (S (S (S (S
    (S (S (S (S (S (S (S (S (S (S (S (S (S (S (S (S (S (S (S (S (S (S (S (S
    (S (S (S (S (S (S (S (S (S (S (S (S (S (S (S (S (S (S (S (S (S
    O)))))))))))))))))))))))))))))))))))))))))))))))))))))))))))))))))))))))))))))))))))))))))))))))))))))))),
    (Alt ((Chr (false, (((Npos (XO (XO (XO (XO (XI XH)))))), (Npos (XI (XO
    (XO (XI (XI XH))))))) :: []))), (Cat ((Chr (false, (((Npos (XI (XO (XO
    (XO (XI XH)))))), (Npos (XI (XO (XO (XI (XI XH))))))) :: []))), (Cat
    ((Chr (false, (((Npos (XO (XO (XO (XO (XI XH)))))), (Npos (XI (XO (XO (XI
    (XI XH))))))) :: []))), (Star (Chr (false, (((Npos (XO (XO (XO (XO (XI
    XH)))))), (Npos (XI (XO (XO (XI (XI
    XH))))))) :: []))))))))))))))))))))))))), (Star (Group ((S (S (S (S (S (S
    (S (S (S (S (S (S (S (S (S (S (S (S (S (S (S (S (S (S (S (S (S (S (S (S
    (S (S (S (S (S (S (S (S (S (S (S (S (S (S (S (S (S (S (S (S (S (S (S (S
    (S (S (S (S (S (S (S (S (S (S (S (S (S (S (S (S (S (S (S (S (S (S (S (S
    (S (S (S (S (S (S (S (S (S (S (S (S (S (S (S (S (S (S (S (S (S (S (S (S
    (S (S (S
    O))))))))))))))))))))))))))))))))))))))))))))))))))))))))))))))))))))))))))))))))))))))))))))))))))))))))),
    (Cat ((Star (Chr (false, (((Npos (XO (XO (XO (XO (XO XH)))))), (Npos (XO
    (XO (XO (XO (XO XH))))))) :: [])))), (Cat ((Chr (false, (((Npos (XO (XO
    (XI (XO (XO XH)))))), (Npos (XO (XO (XI (XO (XO XH))))))) :: []))), (Cat
    ((Star (Chr (false, (((Npos (XO (XO (XO (XO (XO XH)))))), (Npos (XO (XO
    (XO (XO (XO XH))))))) :: [])))), (Group ((S (S (S (S (S (S (S (S (S (S (S
    (S (S (S (S (S (S (S (S (S (S (S (S (S (S (S (S (S (S (S (S (S (S (S (S
    (S (S (S (S (S (S (S (S (S (S (S (S (S (S (S (S (S (S (S (S (S (S (S (S
    (S (S (S (S (S (S (S (S (S (S (S (S (S (S (S (S (S (S (S (S (S (S (S (S
    (S (S (S (S (S (S (S (S (S (S (S (S (S (S (S (S (S (S (S (S (S (S (S
    O)))))))))))))))))))))))))))))))))))))))))))))))))))))))))))))))))))))))))))))))))))))))))))))))))))))))))),
    (Alt ((Cat ((Chr (false, (((Npos (XI (XO (XO (XO (XO (XI XH))))))), (Npos
    (XO (XI (XO (XI (XI (XI XH)))))))) :: (((Npos (XI (XO (XO (XO (XO (XO
    XH))))))), (Npos (XO (XI (XO (XI (XI (XO XH)))))))) :: [])))), (Star
    (Group ((S (S (S (S (S (S (S (S (S (S (S (S (S (S (S (S (S (S (S (S (S (S
    (S (S (S (S (S (S (S (S (S (S (S (S (S (S (S (S (S (S (S (S (S (S (S (S
    (S (S (S (S (S (S (S (S (S (S (S (S (S (S (S (S (S (S (S (S (S (S (S (S
    (S (S (S (S (S (S (S (S (S (S (S (S (S (S (S (S (S (S (S (S (S (S (S (S
    (S (S (S (S (S (S (S (S (S (S (S (S (S
    O))))))))))))))))))))))))))))))))))))))))))))))))))))))))))))))))))))))))))))))))))))))))))))))))))))))))))),
    (Group ((S (S (S (S (S (S (S (S (S (S (S (S (S (S (S (S (S (S (S (S (S (S
    (S (S (S (S (S (S (S (S (S (S (S (S (S (S (S (S (S (S (S (S (S (S (S (S
    (S (S (S (S (S (S (S (S (S (S (S (S (S (S (S (S (S (S (S (S (S (S (S (S
    (S (S (S (S (S (S (S (S (S (S (S (S (S (S (S (S (S (S (S (S (S (S (S (S
    (S (S (S (S (S (S (S (S (S (S (S (S (S (S
    O)))))))))))))))))))))))))))))))))))))))))))))))))))))))))))))))))))))))))))))))))))))))))))))))))))))))))))),
    (Chr (false, (((Npos (XI (XO (XO (XO (XO (XI XH))))))), (Npos (XO (XI (XO
    (XI (XI (XI XH)))))))) :: (((Npos (XI (XO (XO (XO (XO (XO XH))))))),
    (Npos (XO (XI (XO (XI (XI (XO XH)))))))) :: (((Npos (XO (XO (XO (XO (XI
    XH)))))), (Npos (XI (XO (XO (XI (XI XH))))))) :: (((Npos (XI (XO (XI (XI
    (XO XH)))))), (Npos (XI (XO (XI (XI (XO XH))))))) :: []))))))))))))),
    (Cat ((Group ((S (S (S (S (S (S (S (S (S (S (S (S (S (S (S (S (S (S (S (S
    (S (S (S (S (S (S (S (S (S (S (S (S (S (S (S (S (S (S (S (S (S (S (S (S
    (S (S (S (S (S (S (S (S (S (S (S (S (S (S (S (S (S (S (S (S (S (S (S (S
    (S (S (S (S (S (S (S (S (S (S (S (S (S (S (S (S (S (S (S (S (S (S (S (S
    (S (S (S (S (S (S (S (S (S (S (S (S (S (S (S (S (S
    O))))))))))))))))))))))))))))))))))))))))))))))))))))))))))))))))))))))))))))))))))))))))))))))))))))))))))))),
    (Alt ((Chr (false, (((Npos (XO (XO (XO (XO (XI XH)))))), (Npos (XI (XO
    (XO (XI (XI XH))))))) :: []))), (Cat ((Chr (false, (((Npos (XI (XO (XO
    (XO (XI XH)))))), (Npos (XI (XO (XO (XI (XI XH))))))) :: []))), (Cat
    ((Chr (false, (((Npos (XO (XO (XO (XO (XI XH)))))), (Npos (XI (XO (XO (XI
    (XI XH))))))) :: []))), (Star (Chr (false, (((Npos (XO (XO (XO (XO (XI
    XH)))))), (Npos (XI (XO (XO (XI (XI XH))))))) :: [])))))))))))), (Cat
    ((Group ((S (S (S (S (S (S (S (S (S (S (S (S (S (S (S (S (S (S (S (S (S
    (S (S (S (S (S (S (S (S (S (S (S (S (S (S (S (S (S (S (S (S (S (S (S (S
    (S (S (S (S (S (S (S (S (S (S (S (S (S (S (S (S (S (S (S (S (S (S (S (S
    (S (S (S (S (S (S (S (S (S (S (S (S (S (S (S (S (S (S (S (S (S (S (S (S
    (S (S (S (S (S (S (S (S (S (S (S (S (S (S (S (S (S
    O)))))))))))))))))))))))))))))))))))))))))))))))))))))))))))))))))))))))))))))))))))))))))))))))))))))))))))))),
    (Cat ((Chr (false, (((Npos (XO (XI (XI (XI (XO XH)))))), (Npos (XO (XI
    (XI (XI (XO XH))))))) :: []))), (Group ((S (S (S (S (S (S (S (S (S (S (S
    (S (S (S (S (S (S (S (S (S (S (S (S (S (S (S (S (S (S (S (S (S (S (S (S
    (S (S (S (S (S (S (S (S (S (S (S (S (S (S (S (S (S (S (S (S (S (S (S (S
    (S (S (S (S (S (S (S (S (S (S (S (S (S (S (S (S (S (S (S (S (S (S (S (S
    (S (S (S (S (S (S (S (S (S (S (S (S (S (S (S (S (S (S (S (S (S (S (S (S
    (S (S (S (S
    O))))))))))))))))))))))))))))))))))))))))))))))))))))))))))))))))))))))))))))))))))))))))))))))))))))))))))))))),
    (Alt ((Chr (false, (((Npos (XO (XO (XO (XO (XI XH)))))), (Npos (XI (XO
    (XO (XI (XI XH))))))) :: []))), (Cat ((Chr (false, (((Npos (XI (XO (XO
    (XO (XI XH)))))), (Npos (XI (XO (XO (XI (XI XH))))))) :: []))), (Cat
    ((Chr (false, (((Npos (XO (XO (XO (XO (XI XH)))))), (Npos (XI (XO (XO (XI
    (XI XH))))))) :: []))), (Star (Chr (false, (((Npos (XO (XO (XO (XO (XI
    XH)))))), (Npos (XI (XO (XO (XI (XI XH))))))) :: [])))))))))))))))),
    (Star (Group ((S (S (S (S (S (S (S (S (S (S (S (S (S (S (S (S (S (S (S (S
    (S (S (S (S (S (S (S (S (S (S (S (S (S (S (S (S (S (S (S (S (S (S (S (S
    (S (S (S (S (S (S (S (S (S (S (S (S (S (S (S (S (S (S (S (S (S (S (S (S
    (S (S (S (S (S (S (S (S (S (S (S (S (S (S (S (S (S (S (S (S (S (S (S (S
    (S (S (S (S (S (S (S (S (S (S (S (S (S (S (S (S (S (S
    O)))))))))))))))))))))))))))))))))))))))))))))))))))))))))))))))))))))))))))))))))))))))))))))))))))))))))))))),
    (Cat ((Chr (false, (((Npos (XO (XI (XI (XI (XO XH)))))), (Npos (XO (XI
    (XI (XI (XO XH))))))) :: []))), (Group ((S (S (S (S (S (S (S (S (S (S (S
    (S (S (S (S (S (S (S (S (S (S (S (S (S (S (S (S (S (S (S (S (S (S (S (S
    (S (S (S (S (S (S (S (S (S (S (S (S (S (S (S (S (S (S (S (S (S (S (S (S
    (S (S (S (S (S (S (S (S (S (S (S (S (S (S (S (S (S (S (S (S (S (S (S (S
    (S (S (S (S (S (S (S (S (S (S (S (S (S (S (S (S (S (S (S (S (S (S (S (S
    (S (S (S (S
    O))))))))))))))))))))))))))))))))))))))))))))))))))))))))))))))))))))))))))))))))))))))))))))))))))))))))))))))),
    (Alt ((Chr (false, (((Npos (XO (XO (XO (XO (XI XH)))))), (Npos (XI (XO
    (XO (XI (XI XH))))))) :: []))), (Cat ((Chr (false, (((Npos (XI (XO (XO
    (XO (XI XH)))))), (Npos (XI (XO (XO (XI (XI XH))))))) :: []))), (Cat
    ((Chr (false, (((Npos (XO (XO (XO (XO (XI XH)))))), (Npos (XI (XO (XO (XI
    (XI XH))))))) :: []))), (Star (Chr (false, (((Npos (XO (XO (XO (XO (XI
    XH)))))), (Npos (XI (XO (XO (XI (XI
    XH))))))) :: [])))))))))))))))))))))))))))))))))))))), (Cat ((Star (Chr
    (false, (((Npos (XO (XO (XO (XO (XO XH)))))), (Npos (XO (XO (XO (XO (XO
    XH))))))) :: [])))), (Chr (false, (((Npos (XI (XO (XO (XI (XO XH)))))),
    (Npos (XI (XO (XO (XI (XO XH))))))) :: []))))))))))))))))))))))))))))),
    Eps)), (Cat ((Group ((S (S (S (S (S (S (S (S (S (S (S (S (S (S (S (S (S
    (S (S (S (S (S (S (S (S (S (S (S (S (S (S (S (S (S (S (S (S (S (S (S (S
    (S (S (S (S (S (S (S (S (S (S (S (S (S (S (S (S (S (S (S (S (S (S (S (S
    (S (S (S (S (S (S (S (S (S (S (S (S (S (S (S (S (S (S (S (S (S (S (S (S
    (S (S (S (S (S (S (S (S (S (S (S (S (S (S (S (S (S (S (S (S (S (S (S
    O)))))))))))))))))))))))))))))))))))))))))))))))))))))))))))))))))))))))))))))))))))))))))))))))))))))))))))))))),
    (Star (Group ((S (S (S (S (S (S (S (S (S (S (S (S (S (S (S (S (S (S (S (S
    (S (S (S (S (S (S (S (S (S (S (S (S (S (S (S (S (S (S (S (S (S (S (S (S
    (S (S (S (S (S (S (S (S (S (S (S (S (S (S (S (S (S (S (S (S (S (S (S (S
    (S (S (S (S (S (S (S (S (S (S (S (S (S (S (S (S (S (S (S (S (S (S (S (S
    (S (S (S (S (S (S (S (S (S (S (S (S (S (S (S (S (S (S (S (S (S
    O))))))))))))))))))))))))))))))))))))))))))))))))))))))))))))))))))))))))))))))))))))))))))))))))))))))))))))))))),
    (Cat ((Cat ((Chr (false, (((Npos (XO (XO (XO (XO (XO XH)))))), (Npos (XO
    (XO (XO (XO (XO XH))))))) :: []))), (Star (Chr (false, (((Npos (XO (XO
    (XO (XO (XO XH)))))), (Npos (XO (XO (XO (XO (XO XH))))))) :: [])))))),
    (Cat ((Group ((S (S (S (S (S (S (S (S (S (S (S (S (S (S (S (S (S (S (S (S
    (S (S (S (S (S (S (S (S (S (S (S (S (S (S (S (S (S (S (S (S (S (S (S (S
    (S (S (S (S (S (S (S (S (S (S (S (S (S (S (S (S (S (S (S (S (S (S (S (S
    (S (S (S (S (S (S (S (S (S (S (S (S (S (S (S (S (S (S (S (S (S (S (S (S
    (S (S (S (S (S (S (S (S (S (S (S (S (S (S (S (S (S (S (S (S (S (S
    O)))))))))))))))))))))))))))))))))))))))))))))))))))))))))))))))))))))))))))))))))))))))))))))))))))))))))))))))))),
    (Cat ((Chr (false, (((Npos (XO (XO (XO (XI (XI (XI XH))))))), (Npos (XO
    (XO (XO (XI (XI (XI XH)))))))) :: (((Npos (XO (XO (XO (XI (XI (XO
    XH))))))), (Npos (XO (XO (XO (XI (XI (XO XH)))))))) :: [])))), (Cat ((Chr
    (false, (((Npos (XI (XO (XI (XI (XO XH)))))), (Npos (XI (XO (XI (XI (XO
    XH))))))) :: []))), (Cat ((Group ((S (S (S (S (S (S (S (S (S (S (S (S (S
    (S (S (S (S (S (S (S (S (S (S (S (S (S (S (S (S (S (S (S (S (S (S (S (S
    (S (S (S (S (S (S (S (S (S (S (S (S (S (S (S (S (S (S (S (S (S (S (S (S
    (S (S (S (S (S (S (S (S (S (S (S (S (S (S (S (S (S (S (S (S (S (S (S (S
    (S (S (S (S (S (S (S (S (S (S (S (S (S (S (S (S (S (S (S (S (S (S (S (S
    (S (S (S (S (S (S
    O))))))))))))))))))))))))))))))))))))))))))))))))))))))))))))))))))))))))))))))))))))))))))))))))))))))))))))))))))),
    (Chr (false, (((Npos (XI (XO (XO (XO (XO (XI XH))))))), (Npos (XO (XI (XO
    (XI (XI (XI XH)))))))) :: (((Npos (XI (XO (XO (XO (XO (XO XH))))))),
    (Npos (XO (XI (XO (XI (XI (XO XH)))))))) :: (((Npos (XI (XO (XI (XI (XO
    XH)))))), (Npos (XI (XO (XI (XI (XO XH))))))) :: (((Npos (XI (XI (XI (XI
    (XI (XO XH))))))), (Npos (XI (XI (XI (XI (XI (XO
    XH)))))))) :: [])))))))), (Star (Group ((S (S (S (S (S (S (S (S (S (S (S
    (S (S (S (S (S (S (S (S (S (S (S (S (S (S (S (S (S (S (S (S (S (S (S (S
    (S (S (S (S (S (S (S (S (S (S (S (S (S (S (S (S (S (S (S (S (S (S (S (S
    (S (S (S (S (S (S (S (S (S (S (S (S (S (S (S (S (S (S (S (S (S (S (S (S
    (S (S (S (S (S (S (S (S (S (S (S (S (S (S (S (S (S (S (S (S (S (S (S (S
    (S (S (S (S (S (S (S (S
    O))))))))))))))))))))))))))))))))))))))))))))))))))))))))))))))))))))))))))))))))))))))))))))))))))))))))))))))))))),
    (Chr (false, (((Npos (XI (XO (XO (XO (XO (XI XH))))))), (Npos (XO (XI (XO
    (XI (XI (XI XH)))))))) :: (((Npos (XI (XO (XO (XO (XO (XO XH))))))),
    (Npos (XO (XI (XO (XI (XI (XO XH)))))))) :: (((Npos (XI (XO (XI (XI (XO
    XH)))))), (Npos (XI (XO (XI (XI (XO XH))))))) :: (((Npos (XI (XI (XI (XI
    (XI (XO XH))))))), (Npos (XI (XI (XI (XI (XI (XO
    XH)))))))) :: []))))))))))))))))), (Cat ((Cat ((Chr (false, (((Npos (XO
    (XO (XO (XO (XO XH)))))), (Npos (XO (XO (XO (XO (XO XH))))))) :: []))),
    (Star (Chr (false, (((Npos (XO (XO (XO (XO (XO XH)))))), (Npos (XO (XO
    (XO (XO (XO XH))))))) :: [])))))), (Group ((S (S (S (S (S (S (S (S (S (S
    (S (S (S (S (S (S (S (S (S (S (S (S (S (S (S (S (S (S (S (S (S (S (S (S
    (S (S (S (S (S (S (S (S (S (S (S (S (S (S (S (S (S (S (S (S (S (S (S (S
    (S (S (S (S (S (S (S (S (S (S (S (S (S (S (S (S (S (S (S (S (S (S (S (S
    (S (S (S (S (S (S (S (S (S (S (S (S (S (S (S (S (S (S (S (S (S (S (S (S
    (S (S (S (S (S (S (S (S (S (S
    O)))))))))))))))))))))))))))))))))))))))))))))))))))))))))))))))))))))))))))))))))))))))))))))))))))))))))))))))))))),
    (Alt ((Cat ((Chr (false, (((Npos (XI (XI (XI (XO (XO XH)))))), (Npos (XI
    (XI (XI (XO (XO XH))))))) :: []))), (Cat ((Cat ((Group ((S (S (S (S (S (S
    (S (S (S (S (S (S (S (S (S (S (S (S (S (S (S (S (S (S (S (S (S (S (S (S
    (S (S (S (S (S (S (S (S (S (S (S (S (S (S (S (S (S (S (S (S (S (S (S (S
    (S (S (S (S (S (S (S (S (S (S (S (S (S (S (S (S (S (S (S (S (S (S (S (S
    (S (S (S (S (S (S (S (S (S (S (S (S (S (S (S (S (S (S (S (S (S (S (S (S
    (S (S (S (S (S (S (S (S (S (S (S (S (S (S (S
    O))))))))))))))))))))))))))))))))))))))))))))))))))))))))))))))))))))))))))))))))))))))))))))))))))))))))))))))))))))),
    (Alt ((Cat ((Chr (false, (((Npos (XO (XO (XI (XI (XI (XO XH))))))), (Npos
    (XO (XO (XI (XI (XI (XO XH)))))))) :: []))), (Cat ((Chr (false, (((Npos
    (XI (XO (XI (XO (XI XH)))))), (Npos (XI (XO (XI (XO (XI
    XH))))))) :: []))), (Chr (false, (((Npos (XI (XI (XO (XO (XO (XO
    XH))))))), (Npos (XI (XI (XO (XO (XO (XO XH)))))))) :: (((Npos (XI (XI
    (XO (XO (XO (XI XH))))))), (Npos (XI (XI (XO (XO (XO (XI
    XH)))))))) :: [])))))))), (Alt ((Cat ((Chr (false, (((Npos (XO (XO (XI
    (XI (XI (XO XH))))))), (Npos (XO (XO (XI (XI (XI (XO XH)))))))) :: []))),
    (Cat ((Chr (false, (((Npos (XO (XI (XO (XO (XI XH)))))), (Npos (XO (XI
    (XO (XO (XI XH))))))) :: []))), (Chr (false, (((Npos (XI (XI (XI (XO (XI
    XH)))))), (Npos (XI (XI (XI (XO (XI XH))))))) :: []))))))), (Chr (true,
    (((Npos (XI (XI (XI (XO (XO XH)))))), (Npos (XI (XI (XI (XO (XO
    XH))))))) :: (((Npos (XO (XO (XI (XI (XI (XO XH))))))), (Npos (XO (XO (XI
    (XI (XI (XO XH)))))))) :: [])))))))))), (Star (Group ((S (S (S (S (S (S
    (S (S (S (S (S (S (S (S (S (S (S (S (S (S (S (S (S (S (S (S (S (S (S (S
    (S (S (S (S (S (S (S (S (S (S (S (S (S (S (S (S (S (S (S (S (S (S (S (S
    (S (S (S (S (S (S (S (S (S (S (S (S (S (S (S (S (S (S (S (S (S (S (S (S
    (S (S (S (S (S (S (S (S (S (S (S (S (S (S (S (S (S (S (S (S (S (S (S (S
    (S (S (S (S (S (S (S (S (S (S (S (S (S (S (S
    O))))))))))))))))))))))))))))))))))))))))))))))))))))))))))))))))))))))))))))))))))))))))))))))))))))))))))))))))))))),
    (Alt ((Cat ((Chr (false, (((Npos (XO (XO (XI (XI (XI (XO XH))))))), (Npos
    (XO (XO (XI (XI (XI (XO XH)))))))) :: []))), (Cat ((Chr (false, (((Npos
    (XI (XO (XI (XO (XI XH)))))), (Npos (XI (XO (XI (XO (XI
    XH))))))) :: []))), (Chr (false, (((Npos (XI (XI (XO (XO (XO (XO
    XH))))))), (Npos (XI (XI (XO (XO (XO (XO XH)))))))) :: (((Npos (XI (XI
    (XO (XO (XO (XI XH))))))), (Npos (XI (XI (XO (XO (XO (XI
    XH)))))))) :: [])))))))), (Alt ((Cat ((Chr (false, (((Npos (XO (XO (XI
    (XI (XI (XO XH))))))), (Npos (XO (XO (XI (XI (XI (XO XH)))))))) :: []))),
    (Cat ((Chr (false, (((Npos (XO (XI (XO (XO (XI XH)))))), (Npos (XO (XI
    (XO (XO (XI XH))))))) :: []))), (Chr (false, (((Npos (XI (XI (XI (XO (XI
    XH)))))), (Npos (XI (XI (XI (XO (XI XH))))))) :: []))))))), (Chr (true,
    (((Npos (XI (XI (XI (XO (XO XH)))))), (Npos (XI (XI (XI (XO (XO
    XH))))))) :: (((Npos (XO (XO (XI (XI (XI (XO XH))))))), (Npos (XO (XO (XI
    (XI (XI (XO XH)))))))) :: []))))))))))))), (Chr (false, (((Npos (XI (XI
    (XI (XO (XO XH)))))), (Npos (XI (XI (XI (XO (XO XH))))))) :: []))))))),
    (Cat ((Chr (false, (((Npos (XO (XO (XO (XI (XO XH)))))), (Npos (XO (XO
    (XO (XI (XO XH))))))) :: []))), (Cat ((Star (Chr (false, (((Npos (XO (XO
    (XO (XO (XO XH)))))), (Npos (XO (XO (XO (XO (XO XH))))))) :: [])))), (Cat
    ((Alt ((Group ((S (S (S (S (S (S (S (S (S (S (S (S (S (S (S (S (S (S (S
    (S (S (S (S (S (S (S (S (S (S (S (S (S (S (S (S (S (S (S (S (S (S (S (S
    (S (S (S (S (S (S (S (S (S (S (S (S (S (S (S (S (S (S (S (S (S (S (S (S
    (S (S (S (S (S (S (S (S (S (S (S (S (S (S (S (S (S (S (S (S (S (S (S (S
    (S (S (S (S (S (S (S (S (S (S (S (S (S (S (S (S (S (S (S (S (S (S (S (S
    (S (S (S
    O)))))))))))))))))))))))))))))))))))))))))))))))))))))))))))))))))))))))))))))))))))))))))))))))))))))))))))))))))))))),
    (Cat ((Chr (false, (((Npos (XI (XI (XI (XO (XO XH)))))), (Npos (XI (XI
    (XI (XO (XO XH))))))) :: []))), (Cat ((Cat ((Group ((S (S (S (S (S (S (S
    (S (S (S (S (S (S (S (S (S (S (S (S (S (S (S (S (S (S (S (S (S (S (S (S
    (S (S (S (S (S (S (S (S (S (S (S (S (S (S (S (S (S (S (S (S (S (S (S (S
    (S (S (S (S (S (S (S (S (S (S (S (S (S (S (S (S (S (S (S (S (S (S (S (S
    (S (S (S (S (S (S (S (S (S (S (S (S (S (S (S (S (S (S (S (S (S (S (S (S
    (S (S (S (S (S (S (S (S (S (S (S (S (S (S (S (S
    O))))))))))))))))))))))))))))))))))))))))))))))))))))))))))))))))))))))))))))))))))))))))))))))))))))))))))))))))))))))),
    (Alt ((Cat ((Chr (false, (((Npos (XO (XO (XI (XI (XI (XO XH))))))), (Npos
    (XO (XO (XI (XI (XI (XO XH)))))))) :: []))), (Cat ((Chr (false, (((Npos
    (XI (XO (XI (XO (XI XH)))))), (Npos (XI (XO (XI (XO (XI
    XH))))))) :: []))), (Chr (false, (((Npos (XI (XI (XO (XO (XO (XO
    XH))))))), (Npos (XI (XI (XO (XO (XO (XO XH)))))))) :: (((Npos (XI (XI
    (XO (XO (XO (XI XH))))))), (Npos (XI (XI (XO (XO (XO (XI
    XH)))))))) :: [])))))))), (Alt ((Cat ((Chr (false, (((Npos (XO (XO (XI
    (XI (XI (XO XH))))))), (Npos (XO (XO (XI (XI (XI (XO XH)))))))) :: []))),
    (Cat ((Chr (false, (((Npos (XO (XI (XO (XO (XI XH)))))), (Npos (XO (XI
    (XO (XO (XI XH))))))) :: []))), (Chr (false, (((Npos (XI (XI (XI (XO (XI
    XH)))))), (Npos (XI (XI (XI (XO (XI XH))))))) :: []))))))), (Chr (true,
    (((Npos (XI (XI (XI (XO (XO XH)))))), (Npos (XI (XI (XI (XO (XO
    XH))))))) :: (((Npos (XO (XO (XI (XI (XI (XO XH))))))), (Npos (XO (XO (XI
    (XI (XI (XO XH)))))))) :: [])))))))))), (Star (Group ((S (S (S (S (S (S
    (S (S (S (S (S (S (S (S (S (S (S (S (S (S (S (S (S (S (S (S (S (S (S (S
    (S (S (S (S (S (S (S (S (S (S (S (S (S (S (S (S (S (S (S (S (S (S (S (S
    (S (S (S (S (S (S (S (S (S (S (S (S (S (S (S (S (S (S (S (S (S (S (S (S
    (S (S (S (S (S (S (S (S (S (S (S (S (S (S (S (S (S (S (S (S (S (S (S (S
    (S (S (S (S (S (S (S (S (S (S (S (S (S (S (S (S (S
    O))))))))))))))))))))))))))))))))))))))))))))))))))))))))))))))))))))))))))))))))))))))))))))))))))))))))))))))))))))))),
    (Alt ((Cat ((Chr (false, (((Npos (XO (XO (XI (XI (XI (XO XH))))))), (Npos
    (XO (XO (XI (XI (XI (XO XH)))))))) :: []))), (Cat ((Chr (false, (((Npos
    (XI (XO (XI (XO (XI XH)))))), (Npos (XI (XO (XI (XO (XI
    XH))))))) :: []))), (Chr (false, (((Npos (XI (XI (XO (XO (XO (XO
    XH))))))), (Npos (XI (XI (XO (XO (XO (XO XH)))))))) :: (((Npos (XI (XI
    (XO (XO (XO (XI XH))))))), (Npos (XI (XI (XO (XO (XO (XI
    XH)))))))) :: [])))))))), (Alt ((Cat ((Chr (false, (((Npos (XO (XO (XI
    (XI (XI (XO XH))))))), (Npos (XO (XO (XI (XI (XI (XO XH)))))))) :: []))),
    (Cat ((Chr (false, (((Npos (XO (XI (XO (XO (XI XH)))))), (Npos (XO (XI
    (XO (XO (XI XH))))))) :: []))), (Chr (false, (((Npos (XI (XI (XI (XO (XI
    XH)))))), (Npos (XI (XI (XI (XO (XI XH))))))) :: []))))))), (Chr (true,
    (((Npos (XI (XI (XI (XO (XO XH)))))), (Npos (XI (XI (XI (XO (XO
    XH))))))) :: (((Npos (XO (XO (XI (XI (XI (XO XH))))))), (Npos (XO (XO (XI
    (XI (XI (XO XH)))))))) :: []))))))))))))), (Cat ((Chr (false, (((Npos (XI
    (XI (XI (XO (XO XH)))))), (Npos (XI (XI (XI (XO (XO XH))))))) :: []))),
    (Cat ((Star (Group ((S (S (S (S (S (S (S (S (S (S (S (S (S (S (S (S (S (S
    (S (S (S (S (S (S (S (S (S (S (S (S (S (S (S (S (S (S (S (S (S (S (S (S
    (S (S (S (S (S (S (S (S (S (S (S (S (S (S (S (S (S (S (S (S (S (S (S (S
    (S (S (S (S (S (S (S (S (S (S (S (S (S (S (S (S (S (S (S (S (S (S (S (S
    (S (S (S (S (S (S (S (S (S (S (S (S (S (S (S (S (S (S (S (S (S (S (S (S
    (S (S (S (S (S (S
    O)))))))))))))))))))))))))))))))))))))))))))))))))))))))))))))))))))))))))))))))))))))))))))))))))))))))))))))))))))))))),
    (Cat ((Cat ((Chr (false, (((Npos (XO (XO (XO (XO (XO XH)))))), (Npos (XO
    (XO (XO (XO (XO XH))))))) :: []))), (Star (Chr (false, (((Npos (XO (XO
    (XO (XO (XO XH)))))), (Npos (XO (XO (XO (XO (XO XH))))))) :: [])))))),
    (Cat ((Chr (false, (((Npos (XI (XI (XI (XO (XO XH)))))), (Npos (XI (XI
    (XI (XO (XO XH))))))) :: []))), (Cat ((Cat ((Group ((S (S (S (S (S (S (S
    (S (S (S (S (S (S (S (S (S (S (S (S (S (S (S (S (S (S (S (S (S (S (S (S
    (S (S (S (S (S (S (S (S (S (S (S (S (S (S (S (S (S (S (S (S (S (S (S (S
    (S (S (S (S (S (S (S (S (S (S (S (S (S (S (S (S (S (S (S (S (S (S (S (S
    (S (S (S (S (S (S (S (S (S (S (S (S (S (S (S (S (S (S (S (S (S (S (S (S
    (S (S (S (S (S (S (S (S (S (S (S (S (S (S (S (S (S (S
    O))))))))))))))))))))))))))))))))))))))))))))))))))))))))))))))))))))))))))))))))))))))))))))))))))))))))))))))))))))))))),
    (Alt ((Cat ((Chr (false, (((Npos (XO (XO (XI (XI (XI (XO XH))))))), (Npos
    (XO (XO (XI (XI (XI (XO XH)))))))) :: []))), (Cat ((Chr (false, (((Npos
    (XI (XO (XI (XO (XI XH)))))), (Npos (XI (XO (XI (XO (XI
    XH))))))) :: []))), (Chr (false, (((Npos (XI (XI (XO (XO (XO (XO
    XH))))))), (Npos (XI (XI (XO (XO (XO (XO XH)))))))) :: (((Npos (XI (XI
    (XO (XO (XO (XI XH))))))), (Npos (XI (XI (XO (XO (XO (XI
    XH)))))))) :: [])))))))), (Alt ((Cat ((Chr (false, (((Npos (XO (XO (XI
    (XI (XI (XO XH))))))), (Npos (XO (XO (XI (XI (XI (XO XH)))))))) :: []))),
    (Cat ((Chr (false, (((Npos (XO (XI (XO (XO (XI XH)))))), (Npos (XO (XI
    (XO (XO (XI XH))))))) :: []))), (Chr (false, (((Npos (XI (XI (XI (XO (XI
    XH)))))), (Npos (XI (XI (XI (XO (XI XH))))))) :: []))))))), (Chr (true,
    (((Npos (XI (XI (XI (XO (XO XH)))))), (Npos (XI (XI (XI (XO (XO
    XH))))))) :: (((Npos (XO (XO (XI (XI (XI (XO XH))))))), (Npos (XO (XO (XI
    (XI (XI (XO XH)))))))) :: [])))))))))), (Star (Group ((S (S (S (S (S (S
    (S (S (S (S (S (S (S (S (S (S (S (S (S (S (S (S (S (S (S (S (S (S (S (S
    (S (S (S (S (S (S (S (S (S (S (S (S (S (S (S (S (S (S (S (S (S (S (S (S
    (S (S (S (S (S (S (S (S (S (S (S (S (S (S (S (S (S (S (S (S (S (S (S (S
    (S (S (S (S (S (S (S (S (S (S (S (S (S (S (S (S (S (S (S (S (S (S (S (S
    (S (S (S (S (S (S (S (S (S (S (S (S (S (S (S (S (S (S (S
    O))))))))))))))))))))))))))))))))))))))))))))))))))))))))))))))))))))))))))))))))))))))))))))))))))))))))))))))))))))))))),
    (Alt ((Cat ((Chr (false, (((Npos (XO (XO (XI (XI (XI (XO XH))))))), (Npos
    (XO (XO (XI (XI (XI (XO XH)))))))) :: []))), (Cat ((Chr (false, (((Npos
    (XI (XO (XI (XO (XI XH)))))), (Npos (XI (XO (XI (XO (XI
    XH))))))) :: []))), (Chr (false, (((Npos (XI (XI (XO (XO (XO (XO
    XH))))))), (Npos (XI (XI (XO (XO (XO (XO XH)))))))) :: (((Npos (XI (XI
    (XO (XO (XO (XI XH))))))), (Npos (XI (XI (XO (XO (XO (XI
    XH)))))))) :: [])))))))), (Alt ((Cat ((Chr (false, (((Npos (XO (XO (XI
    (XI (XI (XO XH))))))), (Npos (XO (XO (XI (XI (XI (XO XH)))))))) :: []))),
    (Cat ((Chr (false, (((Npos (XO (XI (XO (XO (XI XH)))))), (Npos (XO (XI
    (XO (XO (XI XH))))))) :: []))), (Chr (false, (((Npos (XI (XI (XI (XO (XI
    XH)))))), (Npos (XI (XI (XI (XO (XI XH))))))) :: []))))))), (Chr (true,
    (((Npos (XI (XI (XI (XO (XO XH)))))), (Npos (XI (XI (XI (XO (XO
    XH))))))) :: (((Npos (XO (XO (XI (XI (XI (XO XH))))))), (Npos (XO (XO (XI
    (XI (XI (XO XH)))))))) :: []))))))))))))), (Chr (false, (((Npos (XI (XI
    (XI (XO (XO XH)))))), (Npos (XI (XI (XI (XO (XO
    XH))))))) :: [])))))))))))), (Star (Chr (false, (((Npos (XO (XO (XO (XO
    (XO XH)))))), (Npos (XO (XO (XO (XO (XO XH))))))) :: [])))))))))))))),
    Eps)), (Chr (false, (((Npos (XI (XO (XO (XI (XO XH)))))), (Npos (XI (XO
    (XO (XI (XO XH))))))) :: [])))))))))))))))))))))))), (Cat ((Star (Chr
    (false, (((Npos (XO (XO (XO (XO (XO XH)))))), (Npos (XO (XO (XO (XO (XO
    XH))))))) :: [])))), (Chr (false, (((Npos (XI (XO (XO (XI (XO XH)))))),
    (Npos (XI (XO (XO (XI (XO XH))))))) :: []))))))))))))))))))))))))))

(** val rx_dit_content_rule_end : end_anchor **)

let rx_dit_content_rule_end =
  NoEnd

(** val rx_dit_content_rule_ngroups : nat **)

let rx_dit_content_rule_ngroups =
  S (S (S (S (S (S (S (S (S (S (S (S (S (S (S (S (S (S (S (S (S (S (S (S (S
    (S (S (S (S (S (S (S (S (S (S (S (S (S (S (S (S (S (S (S (S (S (S (S (S
    (S (S (S (S (S (S (S (S (S (S (S (S (S (S (S (S (S (S (S (S (S (S (S (S
    (S (S (S (S (S (S (S (S (S (S (S (S (S (S (S (S (S (S (S (S (S (S (S (S
    (S (S (S (S (S (S (S (S (S (S (S (S (S (S (S (S (S (S (S (S (S (S (S (S
    O))))))))))))))))))))))))))))))))))))))))))))))))))))))))))))))))))))))))))))))))))))))))))))))))))))))))))))))))))))))))

(** val rx_dit_content_rule_g_oid : nat **)

let rx_dit_content_rule_g_oid =
  S O

(** val rx_dit_content_rule_g_name : nat **)

let rx_dit_content_rule_g_name =
  S (S (S (S (S (S O)))))

(** val rx_dit_content_rule_g_desc : nat **)

let rx_dit_content_rule_g_desc =
  S (S (S (S (S (S (S (S (S (S (S (S (S (S (S (S (S O))))))))))))))))

(** val rx_dit_content_rule_g_obsolete : nat **)

let rx_dit_content_rule_g_obsolete =
  S (S (S (S (S (S (S (S (S (S (S (S (S (S (S (S (S (S (S O))))))))))))))))))

(** val rx_dit_content_rule_g_extensions : nat **)

let rx_dit_content_rule_g_extensions =
  S (S (S (S (S (S (S (S (S (S (S (S (S (S (S (S (S (S (S (S (S (S (S (S (S
    (S (S (S (S (S (S (S (S (S (S (S (S (S (S (S (S (S (S (S (S (S (S (S (S
    (S (S (S (S (S (S (S (S (S (S (S (S (S (S (S (S (S (S (S (S (S (S (S (S
    (S (S (S (S (S (S (S (S (S (S (S (S (S (S (S (S (S (S (S (S (S (S (S (S
    (S (S (S (S (S (S (S (S (S (S (S (S (S (S (S
    O)))))))))))))))))))))))))))))))))))))))))))))))))))))))))))))))))))))))))))))))))))))))))))))))))))))))))))))))

(** val rx_dit_content_rule_g_aux : nat **)

let rx_dit_content_rule_g_aux =
  S (S (S (S (S (S (S (S (S (S (S (S (S (S (S (S (S (S (S (S (S
    O))))))))))))))))))))

(** val rx_dit_content_rule_g_must : nat **)

let rx_dit_content_rule_g_must =
  S (S (S (S (S (S (S (S (S (S (S (S (S (S (S (S (S (S (S (S (S (S (S (S (S
    (S (S (S (S (S (S (S (S (S (S (S (S (S (S (S (S (S (S (S
    O)))))))))))))))))))))))))))))))))))))))))))

(** val rx_dit_content_rule_g_may : nat **)

let rx_dit_content_rule_g_may =
  S (S (S (S (S (S (S (S (S (S (S (S (S (S (S (S (S (S (S (S (S (S (S (S (S
    (S (S (S (S (S (S (S (S (S (S (S (S (S (S (S (S (S (S (S (S (S (S (S (S
    (S (S (S (S (S (S (S (S (S (S (S (S (S (S (S (S (S (S
    O))))))))))))))))))))))))))))))))))))))))))))))))))))))))))))))))))

(** val rx_dit_content_rule_g_not : nat **)

let rx_dit_content_rule_g_not =
  S (S (S (S (S (S (S (S (S (S (S (S (S (S (S (S (S (S (S (S (S (S (S (S (S
    (S (S (S (S (S (S (S (S (S (S (S (S (S (S (S (S (S (S (S (S (S (S (S (S
    (S (S (S (S (S (S (S (S (S (S (S (S (S (S (S (S (S (S (S (S (S (S (S (S
    (S (S (S (S (S (S (S (S (S (S (S (S (S (S (S (S (S
    O)))))))))))))))))))))))))))))))))))))))))))))))))))))))))))))))))))))))))))))))))))))))))

(** val rx_noidlen : rx **)

let rx_noidlen =
  Cat ((Group ((S O), (Cat ((Group ((S (S O)), (Alt ((Chr (false, (((Npos (XO
    (XO (XO (XO (XI XH)))))), (Npos (XI (XO (XO (XI (XI XH))))))) :: []))),
    (Cat ((Chr (false, (((Npos (XI (XO (XO (XO (XI XH)))))), (Npos (XI (XO
    (XO (XI (XI XH))))))) :: []))), (Cat ((Chr (false, (((Npos (XO (XO (XO
    (XO (XI XH)))))), (Npos (XI (XO (XO (XI (XI XH))))))) :: []))), (Star
    (Chr (false, (((Npos (XO (XO (XO (XO (XI XH)))))), (Npos (XI (XO (XO (XI
    (XI XH))))))) :: [])))))))))))), (Cat ((Group ((S (S (S O))), (Cat ((Chr
    (false, (((Npos (XO (XI (XI (XI (XO XH)))))), (Npos (XO (XI (XI (XI (XO
    XH))))))) :: []))), (Group ((S (S (S (S O)))), (Alt ((Chr (false, (((Npos
    (XO (XO (XO (XO (XI XH)))))), (Npos (XI (XO (XO (XI (XI
    XH))))))) :: []))), (Cat ((Chr (false, (((Npos (XI (XO (XO (XO (XI
    XH)))))), (Npos (XI (XO (XO (XI (XI XH))))))) :: []))), (Cat ((Chr
    (false, (((Npos (XO (XO (XO (XO (XI XH)))))), (Npos (XI (XO (XO (XI (XI
    XH))))))) :: []))), (Star (Chr (false, (((Npos (XO (XO (XO (XO (XI
    XH)))))), (Npos (XI (XO (XO (XI (XI XH))))))) :: [])))))))))))))))),
    (Star (Group ((S (S (S O))), (Cat ((Chr (false, (((Npos (XO (XI (XI (XI
    (XO XH)))))), (Npos (XO (XI (XI (XI (XO XH))))))) :: []))), (Group ((S (S
    (S (S O)))), (Alt ((Chr (false, (((Npos (XO (XO (XO (XO (XI XH)))))),
    (Npos (XI (XO (XO (XI (XI XH))))))) :: []))), (Cat ((Chr (false, (((Npos
    (XI (XO (XO (XO (XI XH)))))), (Npos (XI (XO (XO (XI (XI
    XH))))))) :: []))), (Cat ((Chr (false, (((Npos (XO (XO (XO (XO (XI
    XH)))))), (Npos (XI (XO (XO (XI (XI XH))))))) :: []))), (Star (Chr
    (false, (((Npos (XO (XO (XO (XO (XI XH)))))), (Npos (XI (XO (XO (XI (XI
    XH))))))) :: []))))))))))))))))))))))), (Cat ((Chr (false, (((Npos (XI
    (XI (XO (XI (XI (XI XH))))))), (Npos (XI (XI (XO (XI (XI (XI
    XH)))))))) :: []))), (Cat ((Group ((S (S (S (S (S O))))), (Group ((S (S
    (S (S (S (S O)))))), (Alt ((Chr (false, (((Npos (XO (XO (XO (XO (XI
    XH)))))), (Npos (XI (XO (XO (XI (XI XH))))))) :: []))), (Cat ((Chr
    (false, (((Npos (XI (XO (XO (XO (XI XH)))))), (Npos (XI (XO (XO (XI (XI
    XH))))))) :: []))), (Cat ((Chr (false, (((Npos (XO (XO (XO (XO (XI
    XH)))))), (Npos (XI (XO (XO (XI (XI XH))))))) :: []))), (Star (Chr
    (false, (((Npos (XO (XO (XO (XO (XI XH)))))), (Npos (XI (XO (XO (XI (XI
    XH))))))) :: [])))))))))))))), (Chr (false, (((Npos (XI (XO (XI (XI (XI
    (XI XH))))))), (Npos (XI (XO (XI (XI (XI (XI XH)))))))) :: []))))))))

(** val rx_noidlen_end : end_anchor **)

let rx_noidlen_end =
  NoEnd

(** val rx_noidlen_ngroups : nat **)

let rx_noidlen_ngroups =
  S (S (S (S (S (S O)))))

(** val rx_noidlen_g_value : nat **)

let rx_noidlen_g_value =
  S O

(** val rx_noidlen_g_len : nat **)

let rx_noidlen_g_len =
  S (S (S (S (S O))))

(** val rx_qd_escape : rx **)

let rx_qd_escape =
  Chr (false, (((Npos (XO (XO (XI (XI (XI (XO XH))))))), (Npos (XO (XO (XI
    (XI (XI (XO XH)))))))) :: (((Npos (XI (XI (XI (XO (XO XH)))))), (Npos (XI
    (XI (XI (XO (XO XH))))))) :: [])))

(** val rx_qd_unescape : rx **)

let rx_qd_unescape =
  Cat ((Chr (false, (((Npos (XO (XO (XI (XI (XI (XO XH))))))), (Npos (XO (XO
    (XI (XI (XI (XO XH)))))))) :: []))), (Alt ((Cat ((Chr (false, (((Npos (XI
    (XO (XI (XO (XI XH)))))), (Npos (XI (XO (XI (XO (XI XH))))))) :: []))),
    (Chr (false, (((Npos (XI (XI (XO (XO (XO (XO XH))))))), (Npos (XI (XI (XO
    (XO (XO (XO XH)))))))) :: (((Npos (XI (XI (XO (XO (XO (XI XH))))))),
    (Npos (XI (XI (XO (XO (XO (XI XH)))))))) :: [])))))), (Cat ((Chr (false,
    (((Npos (XO (XI (XO (XO (XI XH)))))), (Npos (XO (XI (XO (XO (XI
    XH))))))) :: []))), (Chr (false, (((Npos (XI (XI (XI (XO (XI XH)))))),
    (Npos (XI (XI (XI (XO (XI XH))))))) :: []))))))))

(** val isspace_table : n list **)

let isspace_table =
  (Npos (XI (XO (XO XH)))) :: ((Npos (XO (XI (XO XH)))) :: ((Npos (XI (XI (XO
    XH)))) :: ((Npos (XO (XO (XI XH)))) :: ((Npos (XI (XO (XI
    XH)))) :: ((Npos (XO (XO (XI (XI XH))))) :: ((Npos (XI (XO (XI (XI
    XH))))) :: ((Npos (XO (XI (XI (XI XH))))) :: ((Npos (XI (XI (XI (XI
    XH))))) :: ((Npos (XO (XO (XO (XO (XO XH)))))) :: ((Npos (XI (XO (XI (XO
    (XO (XO (XO XH)))))))) :: ((Npos (XO (XO (XO (XO (XO (XI (XO
    XH)))))))) :: ((Npos (XO (XO (XO (XO (XO (XO (XO (XI (XO (XI (XI (XO
    XH))))))))))))) :: ((Npos (XO (XO (XO (XO (XO (XO (XO (XO (XO (XO (XO (XO
    (XO XH)))))))))))))) :: ((Npos (XI (XO (XO (XO (XO (XO (XO (XO (XO (XO
    (XO (XO (XO XH)))))))))))))) :: ((Npos (XO (XI (XO (XO (XO (XO (XO (XO
    (XO (XO (XO (XO (XO XH)))))))))))))) :: ((Npos (XI (XI (XO (XO (XO (XO
    (XO (XO (XO (XO (XO (XO (XO XH)))))))))))))) :: ((Npos (XO (XO (XI (XO
    (XO (XO (XO (XO (XO (XO (XO (XO (XO XH)))))))))))))) :: ((Npos (XI (XO
    (XI (XO (XO (XO (XO (XO (XO (XO (XO (XO (XO XH)))))))))))))) :: ((Npos
    (XO (XI (XI (XO (XO (XO (XO (XO (XO (XO (XO (XO (XO
    XH)))))))))))))) :: ((Npos (XI (XI (XI (XO (XO (XO (XO (XO (XO (XO (XO
    (XO (XO XH)))))))))))))) :: ((Npos (XO (XO (XO (XI (XO (XO (XO (XO (XO
    (XO (XO (XO (XO XH)))))))))))))) :: ((Npos (XI (XO (XO (XI (XO (XO (XO
    (XO (XO (XO (XO (XO (XO XH)))))))))))))) :: ((Npos (XO (XI (XO (XI (XO
    (XO (XO (XO (XO (XO (XO (XO (XO XH)))))))))))))) :: ((Npos (XO (XO (XO
    (XI (XO (XI (XO (XO (XO (XO (XO (XO (XO XH)))))))))))))) :: ((Npos (XI
    (XO (XO (XI (XO (XI (XO (XO (XO (XO (XO (XO (XO
    XH)))))))))))))) :: ((Npos (XI (XI (XI (XI (XO (XI (XO (XO (XO (XO (XO
    (XO (XO XH)))))))))))))) :: ((Npos (XI (XI (XI (XI (XI (XO (XI (XO (XO
    (XO (XO (XO (XO XH)))))))))))))) :: ((Npos (XO (XO (XO (XO (XO (XO (XO
    (XO (XO (XO (XO (XO (XI XH)))))))))))))) :: []))))))))))))))))))))))))))))

type tag = { t_cls : n; t_num : n; t_cons : bool }

(** val tag_eqb : tag -> tag -> bool **)

let tag_eqb a b =
  (&&) ((&&) (N.eqb a.t_cls b.t_cls) (N.eqb a.t_num b.t_num))
    (eqb a.t_cons b.t_cons)

type header = { h_tag : tag; h_hlen : n; h_len : n }

(** val universal : n -> bool -> tag **)

let universal num cons =
  { t_cls = cls_universal; t_num = num; t_cons = cons }

(** val pon_loop : nat -> n -> bool -> byte list **)

let rec pon_loop fuel num first =
  match fuel with
  | O -> []
  | S f ->
    if N.eqb num N0
    then []
    else let o = N.modulo num (Npos (XO (XO (XO (XO (XO (XO (XO XH)))))))) in
         let o' =
           if first
           then o
           else N.add o (Npos (XO (XO (XO (XO (XO (XO (XO XH))))))))
         in
         (n2b o') :: (pon_loop f
                       (N.div num (Npos (XO (XO (XO (XO (XO (XO (XO
                         XH))))))))) false)

(** val pack_octet_number : n -> byte list **)

let pack_octet_number num =
  rev (pon_loop (S (N.to_nat (N.log2 num))) num true)

(** val len_loop : nat -> n -> byte list **)

let rec len_loop fuel len =
  match fuel with
  | O -> []
  | S f ->
    if N.eqb len N0
    then []
    else (n2b
           (N.modulo len (Npos (XO (XO (XO (XO (XO (XO (XO (XO XH))))))))))) :: 
           (len_loop f
             (N.div len (Npos (XO (XO (XO (XO (XO (XO (XO (XO XH)))))))))))

(** val pack_length : n -> byte list **)

let pack_length len =
  if N.ltb len (Npos (XO (XO (XO (XO (XO (XO (XO XH))))))))
  then (n2b len) :: []
  else let octs = rev (len_loop (S (N.to_nat (N.log2 len))) len) in
       (n2b (N.add (nlen octs) (Npos (XO (XO (XO (XO (XO (XO (XO XH)))))))))) :: octs

(** val pack_identifier : n -> bool -> n -> byte list **)

let pack_identifier cls cons num =
  let first =
    N.add (N.mul cls (Npos (XO (XO (XO (XO (XO (XO XH))))))))
      (if cons then Npos (XO (XO (XO (XO (XO XH))))) else N0)
  in
  if N.ltb num (Npos (XI (XI (XI (XI XH)))))
  then (n2b (N.add first num)) :: []
  else (n2b (N.add first (Npos (XI (XI (XI (XI XH))))))) :: (pack_octet_number
                                                              num)

(** val pack_asn1 : n -> bool -> n -> byte list -> byte list res **)

let pack_asn1 cls cons num data =
  if N.ltb (Npos (XI XH)) cls
  then Raise ValueErr
  else Ok
         (app (pack_identifier cls cons num)
           (app (pack_length (nlen data)) data))

(** val pack_tlv : tag -> byte list -> byte list res **)

let pack_tlv t data =
  pack_asn1 t.t_cls t.t_cons t.t_num data

(** val pack_boolean : tag option -> bool -> byte list res **)

let pack_boolean t v =
  let t0 = match t with
           | Some t0 -> t0
           | None -> universal tn_boolean false in
  pack_tlv t0 ((if v then Xff else X00) :: [])

(** val pack_octet_string : tag option -> byte list -> byte list res **)

let pack_octet_string t v =
  let t0 =
    match t with
    | Some t0 -> t0
    | None -> universal tn_octet_string false
  in
  pack_tlv t0 v

(** val int_loop : nat -> bool -> z -> z -> byte list * z **)

let rec int_loop fuel neg limit value =
  match fuel with
  | O -> ([], value)
  | S f ->
    if Z.ltb limit value
    then let v =
           Z.modulo value (Zpos (XO (XO (XO (XO (XO (XO (XO (XO XH)))))))))
         in
         let v0 =
           if neg
           then Z.sub (Zpos (XI (XI (XI (XI (XI (XI (XI XH)))))))) v
           else v
         in
         let (rest, fin) =
           int_loop f neg limit
             (Z.div value (Zpos (XO (XO (XO (XO (XO (XO (XO (XO XH))))))))))
         in
         (((z2b v0) :: rest), fin)
    else ([], value)

(** val inc_le : byte list -> byte list **)

let rec inc_le = function
| [] -> []
| b :: rest ->
  if Z.ltb (b2z b) (Zpos (XI (XI (XI (XI (XI (XI (XI XH))))))))
  then (z2b (Z.add (b2z b) (Zpos XH))) :: rest
  else X00 :: (inc_le rest)

(** val int_content : z -> byte list **)

let int_content value =
  let neg = Z.ltb value Z0 in
  let v = if neg then Z.opp value else value in
  let limit =
    if neg
    then Zpos (XO (XO (XO (XO (XO (XO (XO XH)))))))
    else Zpos (XI (XI (XI (XI (XI (XI XH))))))
  in
  let (lo, fin) = int_loop (S (Z.to_nat (Z.log2 v))) neg limit v in
  let top =
    Z.modulo
      (if neg
       then Z.sub (Zpos (XI (XI (XI (XI (XI (XI (XI XH)))))))) fin
       else fin) (Zpos (XO (XO (XO (XO (XO (XO (XO (XO XH)))))))))
  in
  let le = app lo ((z2b top) :: []) in
  let le0 = if neg then inc_le le else le in
  let le1 =
    if (&&) neg
         (Z.eqb (b2z (last le0 X00)) (Zpos (XI (XI (XI (XI (XI (XI XH))))))))
    then app le0 (Xff :: [])
    else le0
  in
  rev le1

(** val pack_integer : tag option -> z -> byte list res **)

let pack_integer t v =
  let t0 = match t with
           | Some t0 -> t0
           | None -> universal tn_integer false in
  pack_tlv t0 (int_content v)

(** val pack_enumerated : tag option -> z -> byte list res **)

let pack_enumerated t v =
  let t0 = match t with
           | Some t0 -> t0
           | None -> universal tn_enumerated false
  in
  pack_tlv t0 (int_content v)

(** val unpack_octet_number : byte list -> n -> n -> (n * n) res **)

let rec unpack_octet_number data i idx =
  match data with
  | [] -> Raise NeedMore
  | e :: rest ->
    let i' =
      N.add (N.mul i (Npos (XO (XO (XO (XO (XO (XO (XO XH)))))))))
        (N.modulo (b2n e) (Npos (XO (XO (XO (XO (XO (XO (XO XH)))))))))
    in
    if N.ltb (b2n e) (Npos (XO (XO (XO (XO (XO (XO (XO XH))))))))
    then Ok (i', (N.add idx (Npos XH)))
    else unpack_octet_number rest i' (N.add idx (Npos XH))

(** val read_len_octets : nat -> byte list -> n -> n res **)

let rec read_len_octets k view acc =
  match k with
  | O -> Ok acc
  | S k' ->
    (match view with
     | [] -> Raise NeedMore
     | b :: rest ->
       read_len_octets k' rest
         (N.add (N.mul acc (Npos (XO (XO (XO (XO (XO (XO (XO (XO XH))))))))))
           (b2n b)))

(** val in_table : n -> n list -> bool **)

let in_table x tbl =
  existsb (N.eqb x) tbl

(** val read_header : byte list -> header res **)

let read_header data = match data with
| [] -> Raise NeedMore
| o1 :: after1 ->
  let cls = N.div (b2n o1) (Npos (XO (XO (XO (XO (XO (XO XH))))))) in
  let cons =
    N.eqb
      (N.modulo (N.div (b2n o1) (Npos (XO (XO (XO (XO (XO XH))))))) (Npos (XO
        XH))) (Npos XH)
  in
  let num5 = N.modulo (b2n o1) (Npos (XO (XO (XO (XO (XO XH)))))) in
  bind
    (if N.eqb num5 (Npos (XI (XI (XI (XI XH)))))
     then bind (unpack_octet_number after1 N0 N0) (fun pat ->
            let (n0, c) = pat in Ok (n0, (N.add (Npos XH) c)))
     else Ok (num5, (Npos XH))) (fun pat ->
    let (num, tag_octets) = pat in
    if (&&) (N.eqb cls cls_universal) (negb (in_table num type_tag_numbers))
    then Raise ValueErr
    else let view = drop tag_octets data in
         (match view with
          | [] -> Raise NeedMore
          | l0 :: after_l0 ->
            let l = b2n l0 in
            if N.eqb l (Npos (XO (XO (XO (XO (XO (XO (XO XH))))))))
            then Raise ValueErr
            else if N.ltb (Npos (XO (XO (XO (XO (XO (XO (XO XH)))))))) l
                 then let k =
                        N.sub l (Npos (XO (XO (XO (XO (XO (XO (XO XH))))))))
                      in
                      bind (read_len_octets (N.to_nat k) after_l0 N0)
                        (fun len -> Ok { h_tag = { t_cls = cls; t_num = num;
                        t_cons = cons }; h_hlen =
                        (N.add (N.add tag_octets (Npos XH)) k); h_len = len })
                 else Ok { h_tag = { t_cls = cls; t_num = num; t_cons =
                        cons }; h_hlen = (N.add tag_octets (Npos XH));
                        h_len = l }))

(** val validate_tag :
    byte list -> tag -> header option -> (byte list * n) res **)

let validate_tag data expected hdr =
  bind (match hdr with
        | Some h -> Ok h
        | None -> read_header data) (fun h ->
    if negb (tag_eqb h.h_tag expected)
    then Raise ValueErr
    else let view = drop h.h_hlen data in
         if N.ltb (nlen view) h.h_len
         then Raise NeedMore
         else Ok ((take h.h_len view), (N.add h.h_hlen h.h_len)))

(** val pick_tag : tag option -> header option -> tag -> tag **)

let pick_tag t hdr dflt =
  match t with
  | Some t0 -> t0
  | None -> (match hdr with
             | Some h -> h.h_tag
             | None -> dflt)

(** val read_boolean_raw :
    byte list -> tag option -> header option -> (bool * n) res **)

let read_boolean_raw data t hdr =
  bind (validate_tag data (pick_tag t hdr (universal tn_boolean false)) hdr)
    (fun pat ->
    let (raw, consumed) = pat in
    Ok ((negb (bytes_eqb raw (X00 :: []))), consumed))

(** val read_octet_string_raw :
    byte list -> tag option -> header option -> (byte list * n) res **)

let read_octet_string_raw data t hdr =
  validate_tag data (pick_tag t hdr (universal tn_octet_string false)) hdr

(** val read_sequence_raw :
    byte list -> tag option -> header option -> (byte list * n) res **)

let read_sequence_raw data t hdr =
  validate_tag data (pick_tag t hdr (universal tn_sequence true)) hdr

(** val read_set_raw :
    byte list -> tag option -> header option -> (byte list * n) res **)

let read_set_raw data t hdr =
  validate_tag data (pick_tag t hdr (universal tn_set true)) hdr

(** val carry_le : byte list -> byte list **)

let rec carry_le = function
| [] -> []
| b :: rest ->
  if Z.eqb (b2z b) (Zpos (XI (XI (XI (XI (XI (XI (XI XH))))))))
  then X00 :: (carry_le rest)
  else (z2b (Z.add (b2z b) (Zpos XH))) :: rest

(** val be_valz : byte list -> z **)

let be_valz bs =
  fold_left (fun acc b ->
    Z.add (Z.mul acc (Zpos (XO (XO (XO (XO (XO (XO (XO (XO XH))))))))))
      (b2z b)) bs Z0

(** val int_of_content : byte list -> z res **)

let int_of_content raw = match raw with
| [] -> Raise ValueErr
| b0 :: _ ->
  if Z.leb (Zpos (XO (XO (XO (XO (XO (XO (XO XH)))))))) (b2z b0)
  then let comp =
         map (fun b ->
           z2b (Z.sub (Zpos (XI (XI (XI (XI (XI (XI (XI XH)))))))) (b2z b)))
           raw
       in
       let inc = rev (carry_le (rev comp)) in Ok (Z.opp (be_valz inc))
  else Ok (be_valz raw)

(** val read_integer_raw :
    byte list -> tag option -> header option -> (z * n) res **)

let read_integer_raw data t hdr =
  bind (validate_tag data (pick_tag t hdr (universal tn_integer false)) hdr)
    (fun pat ->
    let (raw, consumed) = pat in
    bind (int_of_content raw) (fun v -> Ok (v, consumed)))

(** val read_enumerated_raw :
    byte list -> tag option -> header option -> (z * n) res **)

let read_enumerated_raw data t hdr =
  bind
    (validate_tag data (pick_tag t hdr (universal tn_enumerated false)) hdr)
    (fun pat ->
    let (raw, consumed) = pat in
    bind (int_of_content raw) (fun v -> Ok (v, consumed)))

type reader = byte list

(** val rd :
    (byte list -> tag option -> header option -> ('a1 * n) res) -> reader ->
    tag option -> header option -> ('a1 * reader) res **)

let rd f r t hdr =
  bind (f r t hdr) (fun pat ->
    let (v, consumed) = pat in Ok (v, (drop consumed r)))

(** val read_boolean :
    reader -> tag option -> header option -> (bool * reader) res **)

let read_boolean =
  rd read_boolean_raw

(** val read_integer :
    reader -> tag option -> header option -> (z * reader) res **)

let read_integer =
  rd read_integer_raw

(** val read_enumerated :
    reader -> tag option -> header option -> (z * reader) res **)

let read_enumerated =
  rd read_enumerated_raw

(** val read_octet_string :
    reader -> tag option -> header option -> (byte list * reader) res **)

let read_octet_string =
  rd read_octet_string_raw

(** val read_sequence :
    reader -> tag option -> header option -> (byte list * reader) res **)

let read_sequence =
  rd read_sequence_raw

(** val read_set :
    reader -> tag option -> header option -> (byte list * reader) res **)

let read_set =
  rd read_set_raw

(** val peek_header : reader -> header res **)

let peek_header =
  read_header

(** val skip_value : reader -> header -> reader **)

let skip_value r h =
  drop (N.add h.h_hlen h.h_len) r

type tree =
| TInt of tag option * z
| TEnum of tag option * z
| TBool of tag option * bool
| TOct of tag option * byte list
| TSeq of tag option * tree list
| TSet of tag option * tree list

(** val seq_tag : tag option -> tag **)

let seq_tag = function
| Some t0 -> t0
| None -> universal tn_sequence true

(** val set_tag : tag option -> tag **)

let set_tag = function
| Some t0 -> t0
| None -> universal tn_set true

(** val write_tree : tree -> byte list res **)

let rec write_tree = function
| TInt (t, z0) -> pack_integer t z0
| TEnum (t, z0) -> pack_enumerated t z0
| TBool (t, b) -> pack_boolean t b
| TOct (t, bs) -> pack_octet_string t bs
| TSeq (t, kids) ->
  bind
    (let rec go = function
     | [] -> Ok []
     | k :: r ->
       bind (write_tree k) (fun a -> bind (go r) (fun b -> Ok (app a b)))
     in go kids) (fun inner -> pack_tlv (seq_tag t) inner)
| TSet (t, kids) ->
  bind
    (let rec go = function
     | [] -> Ok []
     | k :: r ->
       bind (write_tree k) (fun a -> bind (go r) (fun b -> Ok (app a b)))
     in go kids) (fun inner -> pack_tlv (set_tag t) inner)

(** val read_tree : tree -> reader -> (tree * reader) res **)

let rec read_tree x r =
  match x with
  | TInt (t, _) ->
    bind (read_integer r t None) (fun pat ->
      let (z0, r') = pat in Ok ((TInt (t, z0)), r'))
  | TEnum (t, _) ->
    bind (read_enumerated r t None) (fun pat ->
      let (z0, r') = pat in Ok ((TEnum (t, z0)), r'))
  | TBool (t, _) ->
    bind (read_boolean r t None) (fun pat ->
      let (b, r') = pat in Ok ((TBool (t, b)), r'))
  | TOct (t, _) ->
    bind (read_octet_string r t None) (fun pat ->
      let (bs, r') = pat in Ok ((TOct (t, bs)), r'))
  | TSeq (t, kids) ->
    bind (read_sequence r t None) (fun pat ->
      let (inner, r') = pat in
      bind
        (let rec go l ir =
           match l with
           | [] -> Ok ([], ir)
           | k :: rest ->
             bind (read_tree k ir) (fun pat0 ->
               let (k', ir') = pat0 in
               bind (go rest ir') (fun pat1 ->
                 let (ks, ir'') = pat1 in Ok ((k' :: ks), ir'')))
         in go kids inner) (fun pat0 ->
        let (ks, lft) = pat0 in
        (match lft with
         | [] -> Ok ((TSeq (t, ks)), r')
         | _ :: _ -> Raise ValueErr)))
  | TSet (t, kids) ->
    bind (read_set r t None) (fun pat ->
      let (inner, r') = pat in
      bind
        (let rec go l ir =
           match l with
           | [] -> Ok ([], ir)
           | k :: rest ->
             bind (read_tree k ir) (fun pat0 ->
               let (k', ir') = pat0 in
               bind (go rest ir') (fun pat1 ->
                 let (ks, ir'') = pat1 in Ok ((k' :: ks), ir'')))
         in go kids inner) (fun pat0 ->
        let (ks, lft) = pat0 in
        (match lft with
         | [] -> Ok ((TSet (t, ks)), r')
         | _ :: _ -> Raise ValueErr)))

type str = byte list

type octets = byte list

type control =
| CGeneric of str * bool * octets option
| CPaged of bool * z * octets * octets option
| CShowDeleted of bool * octets option
| CShowDeactivated of bool * octets option

type cred =
| CrSimple of str
| CrSasl of str * octets option

type filter0 =
| FAnd of filter0 list
| FOr of filter0 list
| FNot of filter0
| FEq of str * octets
| FSub of str * octets option * octets list * octets option
| FGe of str * octets
| FLe of str * octets
| FPresent of str
| FApprox of str * octets
| FExt of str option * str option * octets * bool

type ldap_result = { r_code : z; r_matched : str; r_diag : str;
                     r_referrals : str list option }

type partial_attr = { pa_name : str; pa_vals : octets list }

type op =
| BindRequest of z * str * cred
| BindResponse of ldap_result * octets option
| UnbindRequest
| SearchRequest of str * z * z * z * z * bool * filter0 * str list
| SearchResultEntry of str * partial_attr list
| SearchResultDone of ldap_result
| SearchResultReference of str list
| ExtendedRequest of str * octets option
| ExtendedResponse of ldap_result * str option * octets option

type msg = { m_id : z; m_op : op; m_controls : control list }

type kind =
| KBindReq
| KBindResp
| KUnbind
| KSearchReq
| KEntry
| KDone
| KRef
| KExtReq
| KExtResp

(** val kind_of : op -> kind **)

let kind_of = function
| BindRequest (_, _, _) -> KBindReq
| BindResponse (_, _) -> KBindResp
| UnbindRequest -> KUnbind
| SearchRequest (_, _, _, _, _, _, _, _) -> KSearchReq
| SearchResultEntry (_, _) -> KEntry
| SearchResultDone _ -> KDone
| SearchResultReference _ -> KRef
| ExtendedRequest (_, _) -> KExtReq
| ExtendedResponse (_, _, _) -> KExtResp

(** val is_request : kind -> bool **)

let is_request = function
| KBindReq -> true
| KUnbind -> true
| KSearchReq -> true
| KExtReq -> true
| _ -> false

(** val is_response : kind -> bool **)

let is_response k =
  negb (is_request k)

(** val utf8_valid : byte list -> bool **)

let rec utf8_valid = function
| [] -> true
| b0 :: r ->
  let c0 = b2n b0 in
  let cont = fun b ->
    (&&) (N.leb (Npos (XO (XO (XO (XO (XO (XO (XO XH)))))))) (b2n b))
      (N.leb (b2n b) (Npos (XI (XI (XI (XI (XI (XI (XO XH)))))))))
  in
  if N.leb c0 (Npos (XI (XI (XI (XI (XI (XI XH)))))))
  then utf8_valid r
  else if (&&) (N.leb (Npos (XO (XI (XO (XO (XO (XO (XI XH)))))))) c0)
            (N.leb c0 (Npos (XI (XI (XI (XI (XI (XO (XI XH)))))))))
       then (match r with
             | [] -> false
             | b1 :: r' -> (&&) (cont b1) (utf8_valid r'))
       else if N.eqb c0 (Npos (XO (XO (XO (XO (XO (XI (XI XH))))))))
            then (match r with
                  | [] -> false
                  | b1 :: l ->
                    (match l with
                     | [] -> false
                     | b2 :: r' ->
                       (&&)
                         ((&&)
                           ((&&)
                             (N.leb (Npos (XO (XO (XO (XO (XO (XI (XO
                               XH)))))))) (b2n b1))
                             (N.leb (b2n b1) (Npos (XI (XI (XI (XI (XI (XI
                               (XO XH)))))))))) (cont b2)) (utf8_valid r')))
            else if (||)
                      ((&&)
                        (N.leb (Npos (XI (XO (XO (XO (XO (XI (XI XH))))))))
                          c0)
                        (N.leb c0 (Npos (XO (XO (XI (XI (XO (XI (XI
                          XH))))))))))
                      ((&&)
                        (N.leb (Npos (XO (XI (XI (XI (XO (XI (XI XH))))))))
                          c0)
                        (N.leb c0 (Npos (XI (XI (XI (XI (XO (XI (XI
                          XH))))))))))
                 then (match r with
                       | [] -> false
                       | b1 :: l ->
                         (match l with
                          | [] -> false
                          | b2 :: r' ->
                            (&&) ((&&) (cont b1) (cont b2)) (utf8_valid r')))
                 else if N.eqb c0 (Npos (XI (XO (XI (XI (XO (XI (XI XH))))))))
                      then (match r with
                            | [] -> false
                            | b1 :: l ->
                              (match l with
                               | [] -> false
                               | b2 :: r' ->
                                 (&&)
                                   ((&&)
                                     ((&&)
                                       (N.leb (Npos (XO (XO (XO (XO (XO (XO
                                         (XO XH)))))))) (b2n b1))
                                       (N.leb (b2n b1) (Npos (XI (XI (XI (XI
                                         (XI (XO (XO XH)))))))))) (cont b2))
                                   (utf8_valid r')))
                      else if N.eqb c0 (Npos (XO (XO (XO (XO (XI (XI (XI
                                XH))))))))
                           then (match r with
                                 | [] -> false
                                 | b1 :: l ->
                                   (match l with
                                    | [] -> false
                                    | b2 :: l0 ->
                                      (match l0 with
                                       | [] -> false
                                       | b3 :: r' ->
                                         (&&)
                                           ((&&)
                                             ((&&)
                                               ((&&)
                                                 (N.leb (Npos (XO (XO (XO (XO
                                                   (XI (XO (XO XH))))))))
                                                   (b2n b1))
                                                 (N.leb (b2n b1) (Npos (XI
                                                   (XI (XI (XI (XI (XI (XO
                                                   XH)))))))))) (cont b2))
                                             (cont b3)) (utf8_valid r'))))
                           else if (&&)
                                     (N.leb (Npos (XI (XO (XO (XO (XI (XI (XI
                                       XH)))))))) c0)
                                     (N.leb c0 (Npos (XI (XI (XO (XO (XI (XI
                                       (XI XH)))))))))
                                then (match r with
                                      | [] -> false
                                      | b1 :: l ->
                                        (match l with
                                         | [] -> false
                                         | b2 :: l0 ->
                                           (match l0 with
                                            | [] -> false
                                            | b3 :: r' ->
                                              (&&)
                                                ((&&)
                                                  ((&&) (cont b1) (cont b2))
                                                  (cont b3)) (utf8_valid r'))))
                                else if N.eqb c0 (Npos (XO (XO (XI (XO (XI
                                          (XI (XI XH))))))))
                                     then (match r with
                                           | [] -> false
                                           | b1 :: l ->
                                             (match l with
                                              | [] -> false
                                              | b2 :: l0 ->
                                                (match l0 with
                                                 | [] -> false
                                                 | b3 :: r' ->
                                                   (&&)
                                                     ((&&)
                                                       ((&&)
                                                         ((&&)
                                                           (N.leb (Npos (XO
                                                             (XO (XO (XO (XO
                                                             (XO (XO
                                                             XH))))))))
                                                             (b2n b1))
                                                           (N.leb (b2n b1)
                                                             (Npos (XI (XI
                                                             (XI (XI (XO (XO
                                                             (XO XH))))))))))
                                                         (cont b2)) (cont b3))
                                                     (utf8_valid r'))))
                                     else false

(** val tlv : tag -> byte list -> byte list **)

let tlv t data =
  app (pack_identifier t.t_cls t.t_cons t.t_num)
    (app (pack_length (nlen data)) data)

(** val ctx : n -> bool -> tag **)

let ctx n0 cons =
  { t_cls = cls_context; t_num = n0; t_cons = cons }

(** val app_tag : n -> tag **)

let app_tag n0 =
  { t_cls = cls_application; t_num = n0; t_cons = true }

(** val u_bool : tag **)

let u_bool =
  universal tn_boolean false

(** val u_int : tag **)

let u_int =
  universal tn_integer false

(** val u_enum : tag **)

let u_enum =
  universal tn_enumerated false

(** val u_oct : tag **)

let u_oct =
  universal tn_octet_string false

(** val u_seq : tag **)

let u_seq =
  universal tn_sequence true

(** val u_set : tag **)

let u_set =
  universal tn_set true

(** val w_int : z -> byte list **)

let w_int z0 =
  tlv u_int (int_content z0)

(** val w_enum : z -> byte list **)

let w_enum z0 =
  tlv u_enum (int_content z0)

(** val w_bool : tag -> bool -> byte list **)

let w_bool t b =
  tlv t ((if b then Xff else X00) :: [])

(** val w_oct : tag -> byte list -> byte list **)

let w_oct =
  tlv

(** val w_opt_oct : tag -> byte list option -> byte list **)

let w_opt_oct t = function
| Some v0 -> w_oct t v0
| None -> []

(** val cat0 : ('a1 -> byte list) -> 'a1 list -> byte list **)

let cat0 =
  flat_map

(** val paged_value : z -> octets -> octets **)

let paged_value size0 cookie =
  tlv u_seq (app (w_int size0) (w_oct u_oct cookie))

(** val control_oid : control -> str **)

let control_oid = function
| CGeneric (oid, _, _) -> oid
| CPaged (_, _, _, _) -> oid_paged
| CShowDeleted (_, _) -> oid_show_deleted
| CShowDeactivated (_, _) -> oid_show_deactivated

(** val control_crit : control -> bool **)

let control_crit = function
| CGeneric (_, b, _) -> b
| CPaged (b, _, _, _) -> b
| CShowDeleted (b, _) -> b
| CShowDeactivated (b, _) -> b

(** val control_value : control -> octets option **)

let control_value = function
| CGeneric (_, _, v) -> v
| CPaged (_, size0, cookie, _) -> Some (paged_value size0 cookie)
| CShowDeleted (_, raw) -> raw
| CShowDeactivated (_, raw) -> raw

(** val enc_control : control -> byte list **)

let enc_control c =
  tlv u_seq
    (app (w_oct u_oct (control_oid c))
      (app (if control_crit c then w_bool u_bool true else [])
        (w_opt_oct u_oct (control_value c))))

(** val enc_cred : cred -> byte list **)

let enc_cred = function
| CrSimple pw -> w_oct (ctx aid_simple false) pw
| CrSasl (mech, creds) ->
  tlv (ctx aid_sasl true) (app (w_oct u_oct mech) (w_opt_oct u_oct creds))

(** val enc_filter : filter0 -> byte list **)

let rec enc_filter = function
| FAnd fs -> tlv (ctx fid_and true) (flat_map enc_filter fs)
| FOr fs -> tlv (ctx fid_or true) (flat_map enc_filter fs)
| FNot g -> tlv (ctx fid_not true) (enc_filter g)
| FEq (a, v) ->
  tlv (ctx fid_equality true) (app (w_oct u_oct a) (w_oct u_oct v))
| FSub (a, ini, any, fin) ->
  tlv (ctx fid_substrings true)
    (app (w_oct u_oct a)
      (tlv u_seq
        (app (w_opt_oct (ctx N0 false) ini)
          (app (cat0 (w_oct (ctx (Npos XH) false)) any)
            (w_opt_oct (ctx (Npos (XO XH)) false) fin)))))
| FGe (a, v) -> tlv (ctx fid_ge true) (app (w_oct u_oct a) (w_oct u_oct v))
| FLe (a, v) -> tlv (ctx fid_le true) (app (w_oct u_oct a) (w_oct u_oct v))
| FPresent a -> w_oct (ctx fid_present false) a
| FApprox (a, v) ->
  tlv (ctx fid_approx true) (app (w_oct u_oct a) (w_oct u_oct v))
| FExt (rule, attr, v, dn) ->
  tlv (ctx fid_extensible true)
    (app (w_opt_oct (ctx (Npos XH) false) rule)
      (app (w_opt_oct (ctx (Npos (XO XH)) false) attr)
        (app (w_oct (ctx (Npos (XI XH)) false) v)
          (if dn then w_bool (ctx (Npos (XO (XO XH))) false) true else []))))

(** val enc_result : ldap_result -> byte list **)

let enc_result r =
  app (w_enum r.r_code)
    (app (w_oct u_oct r.r_matched)
      (app (w_oct u_oct r.r_diag)
        (match r.r_referrals with
         | Some l -> tlv (ctx (Npos (XI XH)) true) (cat0 (w_oct u_oct) l)
         | None -> [])))

(** val enc_partial_attr : partial_attr -> byte list **)

let enc_partial_attr a =
  tlv u_seq
    (app (w_oct u_oct a.pa_name) (tlv u_set (cat0 (w_oct u_oct) a.pa_vals)))

(** val op_tag_number : op -> n **)

let op_tag_number = function
| BindRequest (_, _, _) -> op_bind_request
| BindResponse (_, _) -> op_bind_response
| UnbindRequest -> op_unbind_request
| SearchRequest (_, _, _, _, _, _, _, _) -> op_search_request
| SearchResultEntry (_, _) -> op_search_result_entry
| SearchResultDone _ -> op_search_result_done
| SearchResultReference _ -> op_search_result_reference
| ExtendedRequest (_, _) -> op_extended_request
| ExtendedResponse (_, _, _) -> op_extended_response

(** val enc_op_inner : op -> byte list **)

let enc_op_inner = function
| BindRequest (version, name, auth) ->
  app (w_int version) (app (w_oct u_oct name) (enc_cred auth))
| BindResponse (res0, sasl) ->
  app (enc_result res0) (w_opt_oct (ctx (Npos (XI (XI XH))) false) sasl)
| UnbindRequest -> []
| SearchRequest (base, scope, deref, size0, time, types_only, f, attrs) ->
  app (w_oct u_oct base)
    (app (w_enum scope)
      (app (w_enum deref)
        (app (w_int size0)
          (app (w_int time)
            (app (w_bool u_bool types_only)
              (app (enc_filter f) (tlv u_seq (cat0 (w_oct u_oct) attrs))))))))
| SearchResultEntry (name, attrs) ->
  app (w_oct u_oct name) (tlv u_seq (cat0 enc_partial_attr attrs))
| SearchResultDone res0 -> enc_result res0
| SearchResultReference uris -> cat0 (w_oct u_oct) uris
| ExtendedRequest (name, value) ->
  app (w_oct (ctx N0 false) name) (w_opt_oct (ctx (Npos XH) false) value)
| ExtendedResponse (res0, name, value) ->
  app (enc_result res0)
    (app (w_opt_oct (ctx (Npos (XO (XI (XO XH)))) false) name)
      (w_opt_oct (ctx (Npos (XI (XI (XO XH)))) false) value))

(** val enc_msg : msg -> byte list **)

let enc_msg m =
  tlv u_seq
    (app (w_int m.m_id)
      (app (tlv (app_tag (op_tag_number m.m_op)) (enc_op_inner m.m_op))
        (match m.m_controls with
         | [] -> []
         | c :: l -> tlv (ctx N0 true) (cat0 enc_control (c :: l)))))

(** val dec_str : byte list -> str res **)

let dec_str b =
  if utf8_valid b then Ok b else Raise ValueErr

(** val loop :
    nat -> ('a1 -> reader -> ('a1 * reader) res) -> 'a1 -> reader -> 'a1 res **)

let rec loop fuel body s r = match r with
| [] -> Ok s
| _ :: _ ->
  (match fuel with
   | O -> Raise (Crash OutOfFuel)
   | S f ->
     bind (body s r) (fun pat -> let (s', r') = pat in loop f body s' r'))

(** val while_reader :
    ('a1 -> reader -> ('a1 * reader) res) -> 'a1 -> reader -> 'a1 res **)

let while_reader body s r =
  loop (S (length r)) body s r

(** val is_ctx : header -> n -> bool **)

let is_ctx h n0 =
  (&&) (N.eqb h.h_tag.t_cls cls_context) (N.eqb h.h_tag.t_num n0)

(** val read_str :
    reader -> tag option -> header option -> (str * reader) res **)

let read_str r t h =
  bind (read_octet_string r t h) (fun pat ->
    let (b, r') = pat in bind (dec_str b) (fun s -> Ok (s, r')))

(** val unpack_paged : bool -> octets option -> control res **)

let unpack_paged crit value =
  let r = match value with
          | Some v -> v
          | None -> [] in
  bind (read_sequence r None None) (fun pat ->
    let (cr, _) = pat in
    bind (read_integer cr None None) (fun pat0 ->
      let (size0, cr0) = pat0 in
      bind (read_octet_string cr0 None None) (fun pat1 ->
        let (cookie, _) = pat1 in Ok (CPaged (crit, size0, cookie, value)))))

(** val unpack_control : reader -> (control * reader) res **)

let unpack_control r =
  bind (read_sequence r None None) (fun pat ->
    let (cr, r') = pat in
    bind (read_str cr None None) (fun pat0 ->
      let (ctype, cr0) = pat0 in
      bind
        (match cr0 with
         | [] -> Ok None
         | _ :: _ -> bind (peek_header cr0) (fun h -> Ok (Some h)))
        (fun nh ->
        let is_univ = fun h n0 ->
          match h with
          | Some h0 ->
            (&&) (N.eqb h0.h_tag.t_cls cls_universal)
              (N.eqb h0.h_tag.t_num n0)
          | None -> false
        in
        bind
          (if is_univ nh tn_boolean
           then bind (read_boolean cr0 None nh) (fun pat1 ->
                  let (b, cr') = pat1 in
                  bind
                    (match cr' with
                     | [] -> Ok nh
                     | _ :: _ -> bind (peek_header cr') (fun h -> Ok (Some h)))
                    (fun nh' -> Ok ((b, cr'), nh')))
           else Ok ((false, cr0), nh)) (fun pat1 ->
          let (p, nh0) = pat1 in
          let (crit, cr1) = p in
          bind
            (if is_univ nh0 tn_octet_string
             then bind (read_octet_string cr1 None nh0) (fun pat2 ->
                    let (v, _) = pat2 in Ok (Some v))
             else Ok None) (fun value ->
            bind
              (if bytes_eqb ctype oid_paged
               then unpack_paged crit value
               else if bytes_eqb ctype oid_show_deactivated
                    then Ok (CShowDeactivated (crit, value))
                    else if bytes_eqb ctype oid_show_deleted
                         then Ok (CShowDeleted (crit, value))
                         else Ok (CGeneric (ctype, crit, value))) (fun c ->
              Ok (c, r')))))))

(** val unpack_cred : reader -> (cred * reader) res **)

let unpack_cred r =
  bind (peek_header r) (fun h ->
    if (&&) (N.eqb h.h_tag.t_cls cls_context) (N.eqb h.h_tag.t_num aid_sasl)
    then bind (read_sequence r (Some (ctx aid_sasl true)) None) (fun pat ->
           let (sr, r') = pat in
           bind (read_str sr None None) (fun pat0 ->
             let (mech, sr0) = pat0 in
             bind
               (match sr0 with
                | [] -> Ok None
                | _ :: _ ->
                  bind (peek_header sr0) (fun nh ->
                    if (&&) (N.eqb nh.h_tag.t_cls cls_universal)
                         (N.eqb nh.h_tag.t_num tn_octet_string)
                    then bind (read_octet_string sr0 None (Some nh))
                           (fun pat1 -> let (c, _) = pat1 in Ok (Some c))
                    else Ok None)) (fun creds -> Ok ((CrSasl (mech, creds)),
               r'))))
    else if (&&) (N.eqb h.h_tag.t_cls cls_context)
              (N.eqb h.h_tag.t_num aid_simple)
         then bind (read_str r (Some (ctx aid_simple false)) None)
                (fun pat -> let (pw, r') = pat in Ok ((CrSimple pw), r'))
         else Raise NotImpl)

(** val unpack_ava : n -> reader -> ((str * octets) * reader) res **)

let unpack_ava id r =
  bind (read_sequence r (Some (ctx id true)) None) (fun pat ->
    let (fr, r') = pat in
    bind (read_str fr None None) (fun pat0 ->
      let (a, fr0) = pat0 in
      bind (read_octet_string fr0 None None) (fun pat1 ->
        let (v, _) = pat1 in Ok ((a, v), r'))))

(** val unpack_substrings : reader -> (filter0 * reader) res **)

let unpack_substrings r =
  bind (read_sequence r (Some (ctx fid_substrings true)) None) (fun pat ->
    let (fr, r') = pat in
    bind (read_str fr None None) (fun pat0 ->
      let (a, fr0) = pat0 in
      bind (read_sequence fr0 None None) (fun pat1 ->
        let (sr, _) = pat1 in
        bind
          (while_reader (fun st sr0 ->
            let (p, fin) = st in
            let (ini, any) = p in
            bind (peek_header sr0) (fun h ->
              if is_ctx h N0
              then (match ini with
                    | Some _ -> Raise ValueErr
                    | None ->
                      bind (read_octet_string sr0 None (Some h)) (fun pat2 ->
                        let (v, sr') = pat2 in
                        Ok ((((Some v), any), fin), sr')))
              else if is_ctx h (Npos XH)
                   then bind (read_octet_string sr0 None (Some h))
                          (fun pat2 ->
                          let (v, sr') = pat2 in
                          Ok (((ini, (app any (v :: []))), fin), sr'))
                   else if is_ctx h (Npos (XO XH))
                        then (match fin with
                              | Some _ -> Raise ValueErr
                              | None ->
                                bind (read_octet_string sr0 None (Some h))
                                  (fun pat2 ->
                                  let (v, sr') = pat2 in
                                  Ok (((ini, any), (Some v)), sr')))
                        else Ok (st, (skip_value sr0 h)))) ((None, []), None)
            sr) (fun st ->
          let (p, fin) = st in
          let (ini, any) = p in Ok ((FSub (a, ini, any, fin)), r')))))

(** val unpack_extensible : reader -> (filter0 * reader) res **)

let unpack_extensible r =
  bind (read_sequence r (Some (ctx fid_extensible true)) None) (fun pat ->
    let (fr, r') = pat in
    bind
      (while_reader (fun st fr0 ->
        let (p, dn) = st in
        let (p0, v) = p in
        let (rule, attr) = p0 in
        bind (peek_header fr0) (fun h ->
          if is_ctx h (Npos XH)
          then bind (read_str fr0 None (Some h)) (fun pat0 ->
                 let (s, fr') = pat0 in Ok (((((Some s), attr), v), dn), fr'))
          else if is_ctx h (Npos (XO XH))
               then bind (read_str fr0 None (Some h)) (fun pat0 ->
                      let (s, fr') = pat0 in
                      Ok ((((rule, (Some s)), v), dn), fr'))
               else if is_ctx h (Npos (XI XH))
                    then bind (read_octet_string fr0 None (Some h))
                           (fun pat0 ->
                           let (b, fr') = pat0 in
                           Ok ((((rule, attr), b), dn), fr'))
                    else if is_ctx h (Npos (XO (XO XH)))
                         then bind (read_boolean fr0 None (Some h))
                                (fun pat0 ->
                                let (b, fr') = pat0 in
                                Ok ((((rule, attr), v), b), fr'))
                         else Ok (st, (skip_value fr0 h)))) (((None, None),
        []), false) fr) (fun st ->
      let (p, dn) = st in
      let (p0, v) = p in
      let (rule, attr) = p0 in Ok ((FExt (rule, attr, v, dn)), r')))

(** val unpack_filter : nat -> reader -> (filter0 * reader) res **)

let rec unpack_filter d r =
  match d with
  | O -> Raise (Crash RecursionErr)
  | S d' ->
    bind (peek_header r) (fun h ->
      if negb (N.eqb h.h_tag.t_cls cls_context)
      then Raise NotImpl
      else let n0 = h.h_tag.t_num in
           let many = fun id mk ->
             bind (read_set r (Some (ctx id true)) None) (fun pat ->
               let (sr, r') = pat in
               bind
                 (while_reader (fun acc sr0 ->
                   bind (unpack_filter d' sr0) (fun pat0 ->
                     let (f, sr') = pat0 in Ok ((app acc (f :: [])), sr')))
                   [] sr) (fun fs -> Ok ((mk fs), r')))
           in
           if N.eqb n0 fid_and
           then many fid_and (fun x -> FAnd x)
           else if N.eqb n0 fid_approx
                then bind (unpack_ava fid_approx r) (fun pat ->
                       let (p, r') = pat in
                       let (a, v) = p in Ok ((FApprox (a, v)), r'))
                else if N.eqb n0 fid_equality
                     then bind (unpack_ava fid_equality r) (fun pat ->
                            let (p, r') = pat in
                            let (a, v) = p in Ok ((FEq (a, v)), r'))
                     else if N.eqb n0 fid_extensible
                          then unpack_extensible r
                          else if N.eqb n0 fid_ge
                               then bind (unpack_ava fid_ge r) (fun pat ->
                                      let (p, r') = pat in
                                      let (a, v) = p in Ok ((FGe (a, v)), r'))
                               else if N.eqb n0 fid_le
                                    then bind (unpack_ava fid_le r)
                                           (fun pat ->
                                           let (p, r') = pat in
                                           let (a, v) = p in
                                           Ok ((FLe (a, v)), r'))
                                    else if N.eqb n0 fid_not
                                         then bind
                                                (read_sequence r (Some
                                                  (ctx fid_not true)) None)
                                                (fun pat ->
                                                let (nr, r') = pat in
                                                bind (unpack_filter d' nr)
                                                  (fun pat0 ->
                                                  let (f, _) = pat0 in
                                                  Ok ((FNot f), r')))
                                         else if N.eqb n0 fid_or
                                              then many fid_or (fun x -> FOr
                                                     x)
                                              else if N.eqb n0 fid_present
                                                   then bind
                                                          (read_str r (Some
                                                            (ctx fid_present
                                                              false)) None)
                                                          (fun pat ->
                                                          let (a, r') = pat in
                                                          Ok ((FPresent a),
                                                          r'))
                                                   else if N.eqb n0
                                                             fid_substrings
                                                        then unpack_substrings
                                                               r
                                                        else Raise NotImpl)

(** val unpack_result : reader -> (ldap_result * reader) res **)

let unpack_result r =
  bind (read_enumerated r None None) (fun pat ->
    let (code, r0) = pat in
    bind
      (if (||) result_code_open
            (match code with
             | Zneg _ -> false
             | _ -> in_table (Z.to_N code) result_codes)
       then Ok ()
       else Raise ValueErr) (fun _ ->
      bind (read_str r0 None None) (fun pat0 ->
        let (matched, r1) = pat0 in
        bind (read_str r1 None None) (fun pat1 ->
          let (diag, r2) = pat1 in
          (match r2 with
           | [] ->
             Ok ({ r_code = code; r_matched = matched; r_diag = diag;
               r_referrals = None }, r2)
           | _ :: _ ->
             bind (peek_header r2) (fun h ->
               if is_ctx h (Npos (XI XH))
               then bind (read_sequence r2 None (Some h)) (fun pat2 ->
                      let (rr, r') = pat2 in
                      bind
                        (while_reader (fun acc rr0 ->
                          bind (read_str rr0 None None) (fun pat3 ->
                            let (s, rr') = pat3 in
                            Ok ((app acc (s :: [])), rr'))) [] rr)
                        (fun refs -> Ok ({ r_code = code; r_matched =
                        matched; r_diag = diag; r_referrals = (Some refs) },
                        r')))
               else Ok ({ r_code = code; r_matched = matched; r_diag = diag;
                      r_referrals = None }, r2)))))))

(** val unpack_partial_attr : reader -> (partial_attr * reader) res **)

let unpack_partial_attr r =
  bind (read_sequence r None None) (fun pat ->
    let (ar, r') = pat in
    bind (read_str ar None None) (fun pat0 ->
      let (name, ar0) = pat0 in
      bind (read_set ar0 None None) (fun pat1 ->
        let (vr, _) = pat1 in
        bind
          (while_reader (fun acc vr0 ->
            bind (read_octet_string vr0 None None) (fun pat2 ->
              let (v, vr') = pat2 in Ok ((app acc (v :: [])), vr'))) [] vr)
          (fun vals -> Ok ({ pa_name = name; pa_vals = vals }, r')))))

(** val enum_member : z -> n list -> unit res **)

let enum_member v tbl =
  match v with
  | Zneg _ -> Raise ValueErr
  | _ -> if in_table (Z.to_N v) tbl then Ok () else Raise ValueErr

(** val unpack_op : nat -> n -> reader -> op res **)

let unpack_op d num r =
  if N.eqb num op_bind_request
  then bind (read_integer r None None) (fun pat ->
         let (version, r0) = pat in
         bind (read_str r0 None None) (fun pat0 ->
           let (name, r1) = pat0 in
           bind (unpack_cred r1) (fun pat1 ->
             let (auth, _) = pat1 in Ok (BindRequest (version, name, auth)))))
  else if N.eqb num op_bind_response
       then bind (unpack_result r) (fun pat ->
              let (res0, r0) = pat in
              bind
                (while_reader (fun acc r1 ->
                  bind (peek_header r1) (fun h ->
                    if is_ctx h (Npos (XI (XI XH)))
                    then bind (read_octet_string r1 None (Some h))
                           (fun pat0 ->
                           let (v, r') = pat0 in Ok ((Some v), r'))
                    else Ok (acc, (skip_value r1 h)))) None r0) (fun sasl ->
                Ok (BindResponse (res0, sasl))))
       else if N.eqb num op_unbind_request
            then Ok UnbindRequest
            else if N.eqb num op_search_request
                 then bind (read_octet_string r None None) (fun pat ->
                        let (base, r0) = pat in
                        bind (read_enumerated r0 None None) (fun pat0 ->
                          let (scope, r1) = pat0 in
                          bind (enum_member scope search_scopes) (fun _ ->
                            bind (read_enumerated r1 None None) (fun pat1 ->
                              let (deref, r2) = pat1 in
                              bind (enum_member deref deref_policies)
                                (fun _ ->
                                bind (read_integer r2 None None) (fun pat2 ->
                                  let (size0, r3) = pat2 in
                                  bind (read_integer r3 None None)
                                    (fun pat3 ->
                                    let (time, r9) = pat3 in
                                    bind (read_boolean r9 None None)
                                      (fun pat4 ->
                                      let (types_only, r10) = pat4 in
                                      bind (unpack_filter d r10) (fun pat5 ->
                                        let (f, r11) = pat5 in
                                        bind (read_sequence r11 None None)
                                          (fun pat6 ->
                                          let (ar, _) = pat6 in
                                          bind
                                            (while_reader (fun acc ar0 ->
                                              bind (read_str ar0 None None)
                                                (fun pat7 ->
                                                let (s, ar') = pat7 in
                                                Ok ((app acc (s :: [])), ar')))
                                              [] ar) (fun attrs ->
                                            bind (dec_str base) (fun base0 ->
                                              Ok (SearchRequest (base0,
                                              scope, deref, size0, time,
                                              types_only, f, attrs))))))))))))))
                 else if N.eqb num op_search_result_entry
                      then bind (read_str r None None) (fun pat ->
                             let (name, r0) = pat in
                             bind (read_sequence r0 None None) (fun pat0 ->
                               let (ar, _) = pat0 in
                               bind
                                 (while_reader (fun acc ar0 ->
                                   bind (unpack_partial_attr ar0)
                                     (fun pat1 ->
                                     let (a, ar') = pat1 in
                                     Ok ((app acc (a :: [])), ar'))) [] ar)
                                 (fun attrs -> Ok (SearchResultEntry (name,
                                 attrs)))))
                      else if N.eqb num op_search_result_done
                           then bind (unpack_result r) (fun pat ->
                                  let (res0, _) = pat in
                                  Ok (SearchResultDone res0))
                           else if N.eqb num op_search_result_reference
                                then bind
                                       (while_reader (fun acc r0 ->
                                         bind (read_str r0 None None)
                                           (fun pat ->
                                           let (s, r') = pat in
                                           Ok ((app acc (s :: [])), r'))) []
                                         r) (fun uris -> Ok
                                       (SearchResultReference uris))
                                else if N.eqb num op_extended_request
                                     then bind
                                            (read_str r (Some (ctx N0 false))
                                              None) (fun pat ->
                                            let (name, r0) = pat in
                                            bind
                                              (while_reader (fun acc r1 ->
                                                bind (peek_header r1)
                                                  (fun h ->
                                                  if is_ctx h (Npos XH)
                                                  then bind
                                                         (read_octet_string
                                                           r1 None (Some h))
                                                         (fun pat0 ->
                                                         let (v, r') = pat0 in
                                                         Ok ((Some v), r'))
                                                  else Ok (acc,
                                                         (skip_value r1 h))))
                                                None r0) (fun value -> Ok
                                              (ExtendedRequest (name, value))))
                                     else if N.eqb num op_extended_response
                                          then bind (unpack_result r)
                                                 (fun pat ->
                                                 let (res0, r0) = pat in
                                                 bind
                                                   (while_reader
                                                     (fun acc r1 ->
                                                     bind (peek_header r1)
                                                       (fun h ->
                                                       if is_ctx h (Npos (XO
                                                            (XI (XO XH))))
                                                       then bind
                                                              (read_str r1
                                                                None (Some h))
                                                              (fun pat0 ->
                                                              let (s, r') =
                                                                pat0
                                                              in
                                                              Ok (((Some s),
                                                              (snd acc)), r'))
                                                       else if is_ctx h (Npos
                                                                 (XI (XI (XO
                                                                 XH))))
                                                            then bind
                                                                   (read_octet_string
                                                                    r1 None
                                                                    (Some h))
                                                                   (fun pat0 ->
                                                                   let (
                                                                    v, r') =
                                                                    pat0
                                                                   in
                                                                   Ok
                                                                   ((
                                                                   (fst acc),
                                                                   (Some v)),
                                                                   r'))
                                                            else Ok (acc,
                                                                   (skip_value
                                                                    r1 h))))
                                                     (None, None) r0)
                                                   (fun nv -> Ok
                                                   (ExtendedResponse (res0,
                                                   (fst nv), (snd nv)))))
                                          else Raise NotImpl

(** val unpack_message_value : nat -> reader -> msg res **)

let unpack_message_value d message =
  bind (read_integer message None None) (fun pat ->
    let (id, message0) = pat in
    bind (peek_header message0) (fun h ->
      if negb (N.eqb h.h_tag.t_cls cls_application)
      then Raise ValueErr
      else if negb (in_table h.h_tag.t_num protocol_packer_keys)
           then Raise NotImpl
           else bind (read_sequence message0 None (Some h)) (fun pat0 ->
                  let (pr, message1) = pat0 in
                  bind
                    (while_reader (fun st message2 ->
                      bind (peek_header message2) (fun nh ->
                        if is_ctx nh N0
                        then bind (read_sequence message2 None (Some nh))
                               (fun pat1 ->
                               let (cr, message') = pat1 in
                               bind
                                 (while_reader (fun acc cr0 ->
                                   bind (unpack_control cr0) (fun pat2 ->
                                     let (c, cr') = pat2 in
                                     Ok ((app acc (c :: [])), cr'))) 
                                   (fst st) cr) (fun cs -> Ok ((cs,
                                 (snd st)), message')))
                        else if is_ctx nh (Npos (XO (XI (XO XH))))
                             then bind (read_str message2 None (Some nh))
                                    (fun pat1 ->
                                    let (s, message') = pat1 in
                                    Ok (((fst st), (Some s)), message'))
                             else Ok (st, (skip_value message2 nh)))) ([],
                      None) message1) (fun st ->
                    bind (unpack_op d h.h_tag.t_num pr) (fun o ->
                      let o0 =
                        match o with
                        | ExtendedResponse (res0, name, value) ->
                          (match snd st with
                           | Some rn ->
                             (match rn with
                              | [] -> o
                              | _ :: _ ->
                                (match name with
                                 | Some s ->
                                   (match s with
                                    | [] ->
                                      ExtendedResponse (res0, (Some rn),
                                        value)
                                    | _ :: _ -> o)
                                 | None ->
                                   ExtendedResponse (res0, (Some rn), value)))
                           | None -> o)
                        | _ -> o
                      in
                      Ok { m_id = id; m_op = o0; m_controls = (fst st) })))))

(** val unpack_message : nat -> reader -> (msg * reader) res **)

let unpack_message d r =
  bind (read_sequence r None None) (fun pat ->
    let (message, r') = pat in
    (match unpack_message_value d message with
     | Ok m -> Ok (m, r')
     | Raise e -> (match e with
                   | NeedMore -> Raise ValueErr
                   | _ -> Raise e)))

type ber =
| Prim of n * n * byte list
| Constr of n * n * ber list

(** val ube : byte list -> z **)

let rec ube = function
| [] -> Z0
| b :: rest ->
  Z.add
    (Z.mul (b2z b)
      (Z.pow (Zpos (XO (XO (XO (XO (XO (XO (XO (XO XH)))))))))
        (Z.of_nat (length rest)))) (ube rest)

(** val twos : byte list -> z **)

let twos bs = match bs with
| [] -> Z0
| b0 :: _ ->
  if Z.leb (Zpos (XO (XO (XO (XO (XO (XO (XO XH)))))))) (b2z b0)
  then Z.sub (ube bs)
         (Z.pow (Zpos (XO (XO (XO (XO (XO (XO (XO (XO XH)))))))))
           (Z.of_nat (length bs)))
  else ube bs

(** val s_ident : byte -> ((n * bool) * n) option **)

let s_ident b =
  let v = b2n b in
  if N.eqb (N.modulo v (Npos (XO (XO (XO (XO (XO XH))))))) (Npos (XI (XI (XI
       (XI XH)))))
  then None
  else Some (((N.div v (Npos (XO (XO (XO (XO (XO (XO XH)))))))),
         (N.leb (Npos (XO (XO (XO (XO (XO XH))))))
           (N.modulo v (Npos (XO (XO (XO (XO (XO (XO XH)))))))))),
         (N.modulo v (Npos (XO (XO (XO (XO (XO XH))))))))

(** val s_length : byte list -> (n * byte list) option **)

let s_length = function
| [] -> None
| l0 :: r ->
  let v = b2n l0 in
  if N.ltb v (Npos (XO (XO (XO (XO (XO (XO (XO XH))))))))
  then Some (v, r)
  else if N.eqb v (Npos (XO (XO (XO (XO (XO (XO (XO XH))))))))
       then None
       else if N.eqb v (Npos (XI (XI (XI (XI (XI (XI (XI XH))))))))
            then None
            else let k = N.sub v (Npos (XO (XO (XO (XO (XO (XO (XO XH))))))))
                 in
                 if N.ltb (nlen r) k
                 then None
                 else Some ((Z.to_N (ube (take k r))), (drop k r))

(** val parse_one : nat -> byte list -> (ber * byte list) option **)

let rec parse_one fuel bs =
  match fuel with
  | O -> None
  | S f ->
    (match bs with
     | [] -> None
     | b0 :: r ->
       (match s_ident b0 with
        | Some p ->
          let (p0, num) = p in
          let (cls, constructed) = p0 in
          (match s_length r with
           | Some p1 ->
             let (len, r2) = p1 in
             if N.ltb (nlen r2) len
             then None
             else let content = take len r2 in
                  let rest = drop len r2 in
                  if constructed
                  then (match parse_many f content with
                        | Some ks -> Some ((Constr (cls, num, ks)), rest)
                        | None -> None)
                  else Some ((Prim (cls, num, content)), rest)
           | None -> None)
        | None -> None))

(** val parse_many : nat -> byte list -> ber list option **)

and parse_many fuel bs =
  match fuel with
  | O -> None
  | S f ->
    (match bs with
     | [] -> Some []
     | _ :: _ ->
       (match parse_one f bs with
        | Some p ->
          let (k, rest) = p in
          (match parse_many f rest with
           | Some ks -> Some (k :: ks)
           | None -> None)
        | None -> None))

(** val d_list : (ber -> 'a1 option) -> ber list -> 'a1 list option **)

let rec d_list f = function
| [] -> Some []
| x :: r ->
  (match f x with
   | Some a -> (match d_list f r with
                | Some b -> Some (a :: b)
                | None -> None)
   | None -> None)

(** val is_prim : n -> n -> ber -> byte list option **)

let is_prim c n0 = function
| Prim (c', n', v) -> if (&&) (N.eqb c' c) (N.eqb n' n0) then Some v else None
| Constr (_, _, _) -> None

(** val is_constr : n -> n -> ber -> ber list option **)

let is_constr c n0 = function
| Prim (_, _, _) -> None
| Constr (c', n', ks) ->
  if (&&) (N.eqb c' c) (N.eqb n' n0) then Some ks else None

(** val d_octets : ber -> byte list option **)

let d_octets =
  is_prim N0 (Npos (XO (XO XH)))

(** val d_int_content : byte list -> z option **)

let d_int_content c = match c with
| [] -> None
| _ :: _ ->
  let z0 = twos c in if bytes_eqb (int_content z0) c then Some z0 else None

(** val d_integer : ber -> z option **)

let d_integer b =
  match is_prim N0 (Npos (XO XH)) b with
  | Some c -> d_int_content c
  | None -> None

(** val d_enumerated : ber -> z option **)

let d_enumerated b =
  match is_prim N0 (Npos (XO (XI (XO XH)))) b with
  | Some c -> d_int_content c
  | None -> None

(** val d_bool_content : byte list -> bool option **)

let d_bool_content = function
| [] -> None
| b :: l ->
  (match l with
   | [] ->
     if byte_eqb b Xff
     then Some true
     else if byte_eqb b X00 then Some false else None
   | _ :: _ -> None)

(** val d_boolean : ber -> bool option **)

let d_boolean b =
  match is_prim N0 (Npos XH) b with
  | Some c -> d_bool_content c
  | None -> None

(** val take_opt : n -> n -> ber list -> byte list option * ber list **)

let take_opt c n0 l = match l with
| [] -> (None, l)
| x :: r ->
  (match is_prim c n0 x with
   | Some v -> ((Some v), r)
   | None -> (None, l))

(** val take_true : n -> n -> ber list -> (bool * ber list) option **)

let take_true c n0 l = match l with
| [] -> Some (false, l)
| x :: r ->
  (match is_prim c n0 x with
   | Some v ->
     (match d_bool_content v with
      | Some b -> if b then Some (true, r) else None
      | None -> None)
   | None -> Some (false, l))

(** val d_control : ber -> control option **)

let d_control b =
  match is_constr N0 (Npos (XO (XO (XO (XO XH))))) b with
  | Some l ->
    (match l with
     | [] -> None
     | o :: r ->
       (match d_octets o with
        | Some oid ->
          (match take_true N0 (Npos XH) r with
           | Some p ->
             let (crit, r1) = p in
             let (v, l0) = take_opt N0 (Npos (XO (XO XH))) r1 in
             (match l0 with
              | [] -> Some (CGeneric (oid, crit, v))
              | _ :: _ -> None)
           | None -> None)
        | None -> None))
  | None -> None

(** val d_cred : ber -> cred option **)

let d_cred = function
| Prim (c, n0, v) ->
  if (&&) (N.eqb c (Npos (XO XH))) (N.eqb n0 N0)
  then Some (CrSimple v)
  else None
| Constr (c, n0, ks) ->
  if (&&) (N.eqb c (Npos (XO XH))) (N.eqb n0 (Npos (XI XH)))
  then (match ks with
        | [] -> None
        | m :: r ->
          (match d_octets m with
           | Some mech ->
             let (creds, l) = take_opt N0 (Npos (XO (XO XH))) r in
             (match l with
              | [] -> Some (CrSasl (mech, creds))
              | _ :: _ -> None)
           | None -> None))
  else None

(** val span_any : ber list -> byte list list * ber list **)

let rec span_any l = match l with
| [] -> ([], l)
| x :: r ->
  (match is_prim (Npos (XO XH)) (Npos XH) x with
   | Some v -> let (vs, t) = span_any r in ((v :: vs), t)
   | None -> ([], l))

(** val d_ava : (str -> octets -> filter0) -> ber list -> filter0 option **)

let d_ava mk = function
| [] -> None
| a :: l ->
  (match l with
   | [] -> None
   | v :: l0 ->
     (match l0 with
      | [] ->
        (match d_octets a with
         | Some a0 ->
           (match d_octets v with
            | Some v0 -> Some (mk a0 v0)
            | None -> None)
         | None -> None)
      | _ :: _ -> None))

(** val d_substrings : ber list -> filter0 option **)

let d_substrings = function
| [] -> None
| a :: l ->
  (match l with
   | [] -> None
   | s :: l0 ->
     (match l0 with
      | [] ->
        (match d_octets a with
         | Some a0 ->
           (match is_constr N0 (Npos (XO (XO (XO (XO XH))))) s with
            | Some subs ->
              let (ini, r1) = take_opt (Npos (XO XH)) N0 subs in
              let (anys, r2) = span_any r1 in
              let (fin, l1) = take_opt (Npos (XO XH)) (Npos (XO XH)) r2 in
              (match l1 with
               | [] -> Some (FSub (a0, ini, anys, fin))
               | _ :: _ -> None)
            | None -> None)
         | None -> None)
      | _ :: _ -> None))

(** val d_extensible : ber list -> filter0 option **)

let d_extensible ks =
  let (rule, r1) = take_opt (Npos (XO XH)) (Npos XH) ks in
  let (attr, r2) = take_opt (Npos (XO XH)) (Npos (XO XH)) r1 in
  (match r2 with
   | [] -> None
   | v :: r3 ->
     (match is_prim (Npos (XO XH)) (Npos (XI XH)) v with
      | Some v0 ->
        (match take_true (Npos (XO XH)) (Npos (XO (XO XH))) r3 with
         | Some p ->
           let (dn, l) = p in
           (match l with
            | [] -> Some (FExt (rule, attr, v0, dn))
            | _ :: _ -> None)
         | None -> None)
      | None -> None))

(** val d_filter : ber -> filter0 option **)

let rec d_filter = function
| Prim (c, n0, v) ->
  if (&&) (N.eqb c (Npos (XO XH))) (N.eqb n0 (Npos (XI (XI XH))))
  then Some (FPresent v)
  else None
| Constr (c, n0, ks) ->
  if negb (N.eqb c (Npos (XO XH)))
  then None
  else if N.eqb n0 N0
       then option_map (fun x -> FAnd x) (d_list d_filter ks)
       else if N.eqb n0 (Npos XH)
            then option_map (fun x -> FOr x) (d_list d_filter ks)
            else if N.eqb n0 (Npos (XO XH))
                 then (match ks with
                       | [] -> None
                       | k :: l ->
                         (match l with
                          | [] -> option_map (fun x -> FNot x) (d_filter k)
                          | _ :: _ -> None))
                 else if N.eqb n0 (Npos (XI XH))
                      then d_ava (fun x x0 -> FEq (x, x0)) ks
                      else if N.eqb n0 (Npos (XO (XO XH)))
                           then d_substrings ks
                           else if N.eqb n0 (Npos (XI (XO XH)))
                                then d_ava (fun x x0 -> FGe (x, x0)) ks
                                else if N.eqb n0 (Npos (XO (XI XH)))
                                     then d_ava (fun x x0 -> FLe (x, x0)) ks
                                     else if N.eqb n0 (Npos (XO (XO (XO XH))))
                                          then d_ava (fun x x0 -> FApprox (x,
                                                 x0)) ks
                                          else if N.eqb n0 (Npos (XI (XO (XO
                                                    XH))))
                                               then d_extensible ks
                                               else None

(** val d_result : ber list -> (ldap_result * ber list) option **)

let d_result = function
| [] -> None
| c :: l ->
  (match l with
   | [] -> None
   | m :: l0 ->
     (match l0 with
      | [] -> None
      | d :: r ->
        (match d_enumerated c with
         | Some c0 ->
           (match d_octets m with
            | Some m0 ->
              (match d_octets d with
               | Some d0 ->
                 (match r with
                  | [] ->
                    Some ({ r_code = c0; r_matched = m0; r_diag = d0;
                      r_referrals = None }, r)
                  | x :: r' ->
                    (match is_constr (Npos (XO XH)) (Npos (XI XH)) x with
                     | Some refs ->
                       (match d_list d_octets refs with
                        | Some l1 ->
                          Some ({ r_code = c0; r_matched = m0; r_diag = d0;
                            r_referrals = (Some l1) }, r')
                        | None -> None)
                     | None ->
                       Some ({ r_code = c0; r_matched = m0; r_diag = d0;
                         r_referrals = None }, r)))
               | None -> None)
            | None -> None)
         | None -> None)))

(** val d_partial_attr : ber -> partial_attr option **)

let d_partial_attr b =
  match is_constr N0 (Npos (XO (XO (XO (XO XH))))) b with
  | Some l ->
    (match l with
     | [] -> None
     | n0 :: l0 ->
       (match l0 with
        | [] -> None
        | vs :: l1 ->
          (match l1 with
           | [] ->
             (match d_octets n0 with
              | Some n1 ->
                (match is_constr N0 (Npos (XI (XO (XO (XO XH))))) vs with
                 | Some vs0 ->
                   (match d_list d_octets vs0 with
                    | Some l2 -> Some { pa_name = n1; pa_vals = l2 }
                    | None -> None)
                 | None -> None)
              | None -> None)
           | _ :: _ -> None)))
  | None -> None

(** val d_search : ber list -> op option **)

let d_search = function
| [] -> None
| b :: l ->
  (match l with
   | [] -> None
   | s :: l0 ->
     (match l0 with
      | [] -> None
      | d :: l1 ->
        (match l1 with
         | [] -> None
         | sl0 :: l2 ->
           (match l2 with
            | [] -> None
            | tl0 :: l3 ->
              (match l3 with
               | [] -> None
               | t :: l4 ->
                 (match l4 with
                  | [] -> None
                  | f :: l5 ->
                    (match l5 with
                     | [] -> None
                     | a :: l6 ->
                       (match l6 with
                        | [] ->
                          (match d_octets b with
                           | Some b0 ->
                             (match d_enumerated s with
                              | Some s0 ->
                                (match d_enumerated d with
                                 | Some d0 ->
                                   (match d_integer sl0 with
                                    | Some sl1 ->
                                      (match d_integer tl0 with
                                       | Some tl1 ->
                                         (match d_boolean t with
                                          | Some t0 ->
                                            (match d_filter f with
                                             | Some f0 ->
                                               (match is_constr N0 (Npos (XO
                                                        (XO (XO (XO XH))))) a with
                                                | Some a0 ->
                                                  (match d_list d_octets a0 with
                                                   | Some a1 ->
                                                     Some (SearchRequest (b0,
                                                       s0, d0, sl1, tl1, t0,
                                                       f0, a1))
                                                   | None -> None)
                                                | None -> None)
                                             | None -> None)
                                          | None -> None)
                                       | None -> None)
                                    | None -> None)
                                 | None -> None)
                              | None -> None)
                           | None -> None)
                        | _ :: _ -> None))))))))

(** val d_op : ber -> op option **)

let d_op = function
| Prim (c, n0, v) ->
  if (&&) (N.eqb c (Npos XH)) (N.eqb n0 (Npos (XO XH)))
  then (match v with
        | [] -> Some UnbindRequest
        | _ :: _ -> None)
  else None
| Constr (c, n0, ks) ->
  if negb (N.eqb c (Npos XH))
  then None
  else if N.eqb n0 N0
       then (match ks with
             | [] -> None
             | v :: l ->
               (match l with
                | [] -> None
                | nm :: l0 ->
                  (match l0 with
                   | [] -> None
                   | a :: l1 ->
                     (match l1 with
                      | [] ->
                        (match d_integer v with
                         | Some v0 ->
                           (match d_octets nm with
                            | Some nm0 ->
                              (match d_cred a with
                               | Some a0 -> Some (BindRequest (v0, nm0, a0))
                               | None -> None)
                            | None -> None)
                         | None -> None)
                      | _ :: _ -> None))))
       else if N.eqb n0 (Npos XH)
            then (match d_result ks with
                  | Some p ->
                    let (res0, r) = p in
                    let (sasl, l) =
                      take_opt (Npos (XO XH)) (Npos (XI (XI XH))) r
                    in
                    (match l with
                     | [] -> Some (BindResponse (res0, sasl))
                     | _ :: _ -> None)
                  | None -> None)
            else if N.eqb n0 (Npos (XI XH))
                 then d_search ks
                 else if N.eqb n0 (Npos (XO (XO XH)))
                      then (match ks with
                            | [] -> None
                            | nm :: l ->
                              (match l with
                               | [] -> None
                               | attrs :: l0 ->
                                 (match l0 with
                                  | [] ->
                                    (match d_octets nm with
                                     | Some nm0 ->
                                       (match is_constr N0 (Npos (XO (XO (XO
                                                (XO XH))))) attrs with
                                        | Some attrs0 ->
                                          (match d_list d_partial_attr attrs0 with
                                           | Some l1 ->
                                             Some (SearchResultEntry (nm0,
                                               l1))
                                           | None -> None)
                                        | None -> None)
                                     | None -> None)
                                  | _ :: _ -> None)))
                      else if N.eqb n0 (Npos (XI (XO XH)))
                           then (match d_result ks with
                                 | Some p ->
                                   let (res0, l) = p in
                                   (match l with
                                    | [] -> Some (SearchResultDone res0)
                                    | _ :: _ -> None)
                                 | None -> None)
                           else if N.eqb n0 (Npos (XI (XI (XO (XO XH)))))
                                then option_map (fun x ->
                                       SearchResultReference x)
                                       (d_list d_octets ks)
                                else if N.eqb n0 (Npos (XI (XI (XI (XO XH)))))
                                     then (match ks with
                                           | [] -> None
                                           | nm :: r ->
                                             (match is_prim (Npos (XO XH)) N0
                                                      nm with
                                              | Some nm0 ->
                                                let (v, l) =
                                                  take_opt (Npos (XO XH))
                                                    (Npos XH) r
                                                in
                                                (match l with
                                                 | [] ->
                                                   Some (ExtendedRequest
                                                     (nm0, v))
                                                 | _ :: _ -> None)
                                              | None -> None))
                                     else if N.eqb n0 (Npos (XO (XO (XO (XI
                                               XH)))))
                                          then (match d_result ks with
                                                | Some p ->
                                                  let (res0, r) = p in
                                                  let (nm, r1) =
                                                    take_opt (Npos (XO XH))
                                                      (Npos (XO (XI (XO
                                                      XH)))) r
                                                  in
                                                  let (v, l) =
                                                    take_opt (Npos (XO XH))
                                                      (Npos (XI (XI (XO
                                                      XH)))) r1
                                                  in
                                                  (match l with
                                                   | [] ->
                                                     Some (ExtendedResponse
                                                       (res0, nm, v))
                                                   | _ :: _ -> None)
                                                | None -> None)
                                          else None

(** val d_msg : ber -> msg option **)

let d_msg b =
  match is_constr N0 (Npos (XO (XO (XO (XO XH))))) b with
  | Some l ->
    (match l with
     | [] -> None
     | i :: l0 ->
       (match l0 with
        | [] -> None
        | o :: r ->
          (match d_integer i with
           | Some i0 ->
             (match d_op o with
              | Some o0 ->
                (match r with
                 | [] -> Some { m_id = i0; m_op = o0; m_controls = [] }
                 | c :: l1 ->
                   (match l1 with
                    | [] ->
                      (match is_constr (Npos (XO XH)) N0 c with
                       | Some l2 ->
                         (match l2 with
                          | [] -> None
                          | c1 :: cs ->
                            (match d_list d_control (c1 :: cs) with
                             | Some l3 ->
                               Some { m_id = i0; m_op = o0; m_controls = l3 }
                             | None -> None))
                       | None -> None)
                    | _ :: _ -> None))
              | None -> None)
           | None -> None)))
  | None -> None

(** val strict_decode : byte list -> msg option **)

let strict_decode bs =
  match parse_one (mul (S (S O)) (length bs)) bs with
  | Some p -> let (t, l) = p in (match l with
                                 | [] -> d_msg t
                                 | _ :: _ -> None)
  | None -> None

type role =
| Client
| Server

type state =
| BEFORE_OPEN
| BINDING
| OPENED
| CLOSED

(** val state_eqb : state -> state -> bool **)

let state_eqb a b =
  match a with
  | BEFORE_OPEN -> (match b with
                    | BEFORE_OPEN -> true
                    | _ -> false)
  | BINDING -> (match b with
                | BINDING -> true
                | _ -> false)
  | OPENED -> (match b with
               | OPENED -> true
               | _ -> false)
  | CLOSED -> (match b with
               | CLOSED -> true
               | _ -> false)

(** val zmem : z -> z list -> bool **)

let zmem x l =
  existsb (Z.eqb x) l

(** val zadd : z -> z list -> z list **)

let zadd x l =
  if zmem x l then l else app l (x :: [])

(** val zdel : z -> z list -> z list **)

let zdel x l =
  filter (fun y -> negb (Z.eqb x y)) l

type sess = { s_role : role; s_state : state; s_out : byte list;
              s_outstanding : z list; s_searches : z list; s_counter : 
              z; s_in : byte list }

(** val init : role -> sess **)

let init r =
  { s_role = r; s_state = BEFORE_OPEN; s_out = []; s_outstanding = [];
    s_searches = []; s_counter = (Zpos XH); s_in = [] }

(** val set_state : sess -> state -> sess **)

let set_state s st =
  { s_role = s.s_role; s_state = st; s_out = s.s_out; s_outstanding =
    s.s_outstanding; s_searches = s.s_searches; s_counter = s.s_counter;
    s_in = s.s_in }

(** val set_out : sess -> byte list -> sess **)

let set_out s o =
  { s_role = s.s_role; s_state = s.s_state; s_out = o; s_outstanding =
    s.s_outstanding; s_searches = s.s_searches; s_counter = s.s_counter;
    s_in = s.s_in }

(** val set_outstanding : sess -> z list -> sess **)

let set_outstanding s l =
  { s_role = s.s_role; s_state = s.s_state; s_out = s.s_out; s_outstanding =
    l; s_searches = s.s_searches; s_counter = s.s_counter; s_in = s.s_in }

(** val set_searches : sess -> z list -> sess **)

let set_searches s l =
  { s_role = s.s_role; s_state = s.s_state; s_out = s.s_out; s_outstanding =
    s.s_outstanding; s_searches = l; s_counter = s.s_counter; s_in = s.s_in }

(** val set_counter : sess -> z -> sess **)

let set_counter s c =
  { s_role = s.s_role; s_state = s.s_state; s_out = s.s_out; s_outstanding =
    s.s_outstanding; s_searches = s.s_searches; s_counter = c; s_in = s.s_in }

(** val set_in : sess -> byte list -> sess **)

let set_in s i =
  { s_role = s.s_role; s_state = s.s_state; s_out = s.s_out; s_outstanding =
    s.s_outstanding; s_searches = s.s_searches; s_counter = s.s_counter;
    s_in = i }

type presp =
| PNone
| PUnbind
| PNotice

type outcome =
| ORetId of z
| ORetNone
| ORetBytes of byte list
| ORetMsgs of msg list
| OLdapErr
| OProtoErr of presp
| OOther of err

type call =
| CBind of str * cred * control list
| CExtended of str * octets option * control list
| CSearch of str * z * z * z * z * bool * filter0 * str list * control list
| SBindResponse of z * octets option * z * str * str * control list
| SExtendedResponse of z * str option * octets option * z * str * str
   * control list
| SEntry of z * str * partial_attr list * control list
| SReference of z * str list * control list
| SDone of z * z * str * str * control list
| Unbind
| Receive of byte list
| Drain of z option

(** val is_notice_name : str option -> bool **)

let is_notice_name = function
| Some s -> bytes_eqb s oid_notice_of_disconnection
| None -> false

(** val is_notice : op -> bool **)

let is_notice = function
| ExtendedResponse (_, n0, _) -> is_notice_name n0
| _ -> false

(** val rc_sasl : z **)

let rc_sasl =
  Z.of_N rc_sasl_bind_in_progress

(** val base_send : sess -> msg -> sess * z option **)

let base_send s m =
  match s.s_state with
  | BEFORE_OPEN ->
    let st = BEFORE_OPEN in
    let k = kind_of m.m_op in
    let bind_traffic =
      match k with
      | KBindReq -> true
      | KBindResp -> true
      | KUnbind -> true
      | _ -> false
    in
    if (&&) ((&&) (state_eqb st BINDING) (negb bind_traffic))
         (negb (is_notice m.m_op))
    then (s, None)
    else let s0 = if state_eqb st BEFORE_OPEN then set_state s OPENED else s
         in
         ((set_out s0 (app s0.s_out (enc_msg m))), (Some m.m_id))
  | BINDING ->
    let st = BINDING in
    let k = kind_of m.m_op in
    let bind_traffic =
      match k with
      | KBindReq -> true
      | KBindResp -> true
      | KUnbind -> true
      | _ -> false
    in
    if (&&) ((&&) (state_eqb st BINDING) (negb bind_traffic))
         (negb (is_notice m.m_op))
    then (s, None)
    else let s0 = if state_eqb st BEFORE_OPEN then set_state s OPENED else s
         in
         ((set_out s0 (app s0.s_out (enc_msg m))), (Some m.m_id))
  | OPENED ->
    let st = OPENED in
    let k = kind_of m.m_op in
    let bind_traffic =
      match k with
      | KBindReq -> true
      | KBindResp -> true
      | KUnbind -> true
      | _ -> false
    in
    if (&&) ((&&) (state_eqb st BINDING) (negb bind_traffic))
         (negb (is_notice m.m_op))
    then (s, None)
    else let s0 = if state_eqb st BEFORE_OPEN then set_state s OPENED else s
         in
         ((set_out s0 (app s0.s_out (enc_msg m))), (Some m.m_id))
  | CLOSED -> (s, None)

(** val client_send : sess -> op -> control list -> sess * z option **)

let client_send s o cs =
  match o with
  | UnbindRequest -> base_send s { m_id = Z0; m_op = o; m_controls = cs }
  | _ ->
    let id = s.s_counter in
    let (s', o0) = base_send s { m_id = id; m_op = o; m_controls = cs } in
    (match o0 with
     | Some _ ->
       ((set_outstanding (set_counter s' (Z.add id (Zpos XH)))
          (zadd id s'.s_outstanding)), (Some id))
     | None -> (s', None))

(** val server_send : sess -> msg -> sess * z option **)

let server_send s m =
  let mark = s.s_out in
  let (s', o) = base_send s m in
  (match o with
   | Some id ->
     (match kind_of m.m_op with
      | KUnbind -> (s', (Some id))
      | KEntry ->
        if zmem id s'.s_outstanding
        then (s', (Some id))
        else ((set_out s' mark), None)
      | KRef ->
        if zmem id s'.s_outstanding
        then (s', (Some id))
        else ((set_out s' mark), None)
      | _ ->
        if zmem id s'.s_outstanding
        then ((set_outstanding s' (zdel id s'.s_outstanding)), (Some id))
        else ((set_out s' mark), None))
   | None -> (s', None))

(** val server_result : z -> str -> str -> ldap_result **)

let server_result code matched diag =
  { r_code = code; r_matched = matched; r_diag = diag; r_referrals = (Some
    []) }

(** val ret : (sess * z option) -> sess * outcome **)

let ret = function
| (s, o) -> (match o with
             | Some id -> (s, (ORetId id))
             | None -> (s, OLdapErr))

(** val py_cut : z option -> byte list -> byte list * byte list **)

let py_cut amount buf =
  match amount with
  | Some a ->
    let n0 = Z.of_nat (length buf) in
    let k = if Z.ltb a Z0 then Z.max Z0 (Z.add n0 a) else Z.min a n0 in
    ((firstn (Z.to_nat k) buf), (skipn (Z.to_nat k) buf))
  | None -> (buf, [])

(** val parse_loop :
    nat -> nat -> reader -> msg list -> (msg list * reader) res **)

let rec parse_loop fuel d r acc =
  match r with
  | [] -> Ok (acc, [])
  | _ :: _ ->
    (match fuel with
     | O -> Raise (Crash OutOfFuel)
     | S f ->
       (match unpack_message d r with
        | Ok a -> let (m, r') = a in parse_loop f d r' (app acc (m :: []))
        | Raise e -> (match e with
                      | NeedMore -> Ok (acc, r)
                      | _ -> Raise e)))

type pfail =
| PF of kind option * bool
| PCrash of crash

(** val process_client : sess -> msg -> sess * pfail option **)

let process_client s m =
  let k = kind_of m.m_op in
  let id = m.m_id in
  if negb (is_response k)
  then (s, (Some (PF (None, false))))
  else let in_search = zmem id s.s_searches in
       let is_done = match k with
                     | KDone -> true
                     | _ -> false in
       if (&&) (negb in_search) (negb (zmem id s.s_outstanding))
       then (s, (Some (PF (None, false))))
       else let s0 =
              if (&&) in_search is_done
              then set_searches s (zdel id s.s_searches)
              else s
            in
            let remove_id = (||) (negb in_search) is_done in
            let s1 =
              match m.m_op with
              | BindResponse (res0, _) ->
                if Z.eqb res0.r_code rc_sasl then s0 else set_state s0 OPENED
              | _ -> s0
            in
            if remove_id
            then if zmem id s1.s_outstanding
                 then ((set_outstanding s1 (zdel id s1.s_outstanding)), None)
                 else (s1, (Some (PCrash KeyErr)))
            else (s1, None)

(** val process_server : sess -> msg -> sess * pfail option **)

let process_server s m =
  let k = kind_of m.m_op in
  if negb (is_request k)
  then (s, (Some (PF (None, false))))
  else (match k with
        | KBindReq ->
          (match s.s_outstanding with
           | [] ->
             let s0 = set_state s BINDING in
             ((set_outstanding s0 (zadd m.m_id s0.s_outstanding)), None)
           | _ :: _ -> (s, (Some (PF (None, false)))))
        | _ ->
          let s0 =
            if state_eqb s.s_state BEFORE_OPEN then set_state s OPENED else s
          in
          let s1 =
            match k with
            | KSearchReq -> set_searches s0 (zadd m.m_id s0.s_searches)
            | _ -> s0
          in
          ((set_outstanding s1 (zadd m.m_id s1.s_outstanding)), None))

(** val process_all : sess -> msg list -> sess * pfail option **)

let rec process_all s = function
| [] -> (s, None)
| m :: rest ->
  if is_notice m.m_op
  then (s, (Some (PF ((Some KExtResp), true))))
  else (match kind_of m.m_op with
        | KUnbind -> (s, (Some (PF ((Some KUnbind), false))))
        | _ ->
          let (s', o) =
            match s.s_role with
            | Client -> process_client s m
            | Server -> process_server s m
          in
          (match o with
           | Some p -> (s', (Some p))
           | None -> process_all s' rest))

(** val attach : role -> kind option -> bool -> presp **)

let attach r with_request notice =
  match r with
  | Client ->
    (match with_request with
     | Some k ->
       (match k with
        | KUnbind -> PNone
        | _ -> if notice then PNone else PUnbind)
     | None -> PUnbind)
  | Server ->
    (match with_request with
     | Some k -> (match k with
                  | KUnbind -> PNone
                  | _ -> PNotice)
     | None -> PNotice)

(** val close : sess -> sess **)

let close s =
  set_outstanding (set_state s CLOSED) []

(** val receive : nat -> sess -> byte list -> sess * outcome **)

let receive d s data =
  match s.s_state with
  | CLOSED -> (s, (OProtoErr (attach s.s_role None false)))
  | _ ->
    let buffered = match s.s_in with
                   | [] -> false
                   | _ :: _ -> true in
    let input = if buffered then app s.s_in data else data in
    let s0 = if buffered then set_in s input else s in
    (match parse_loop (S (length input)) d input [] with
     | Ok a ->
       let (ms, rest) = a in
       let s1 =
         if buffered
         then set_in s0 rest
         else (match rest with
               | [] -> s0
               | _ :: _ -> set_in s0 rest)
       in
       let (s2, o) = process_all s1 ms in
       (match o with
        | Some p ->
          (match p with
           | PF (wr, nt) -> ((close s2), (OProtoErr (attach s.s_role wr nt)))
           | PCrash k -> (s2, (OOther (Crash k))))
        | None -> (s2, (ORetMsgs ms)))
     | Raise e ->
       (match e with
        | Crash k ->
          (match k with
           | RecursionErr ->
             ((close s0), (OProtoErr (attach s.s_role None false)))
           | _ -> (s0, (OOther (Crash k))))
        | _ -> ((close s0), (OProtoErr (attach s.s_role None false)))))

(** val version3 : z **)

let version3 =
  session_ldap_version

(** val step : nat -> sess -> call -> sess * outcome **)

let step d s c =
  match s.s_role with
  | Client ->
    (match c with
     | CBind (name, auth, cs) ->
       (match s.s_outstanding with
        | [] ->
          let (s', o) = client_send s (BindRequest (version3, name, auth)) cs
          in
          (match o with
           | Some id -> ((set_state s' BINDING), (ORetId id))
           | None -> (s', OLdapErr))
        | _ :: _ -> (s, OLdapErr))
     | CExtended (name, value, cs) ->
       ret (client_send s (ExtendedRequest (name, value)) cs)
     | CSearch (base, scope, deref, size0, time, types_only, f, attrs, cs) ->
       (match enum_member scope search_scopes with
        | Ok _ ->
          (match enum_member deref deref_policies with
           | Ok _ ->
             let (s', o) =
               client_send s (SearchRequest (base, scope, deref, size0, time,
                 types_only, f, attrs)) cs
             in
             (match o with
              | Some id ->
                ((set_searches s' (zadd id s'.s_searches)), (ORetId id))
              | None -> (s', OLdapErr))
           | Raise _ -> (s, (OOther ValueErr)))
        | Raise _ -> (s, (OOther ValueErr)))
     | Unbind ->
       let (s', o) = client_send s UnbindRequest [] in
       (match o with
        | Some _ -> ((set_state (set_outstanding s' []) CLOSED), ORetNone)
        | None -> (s', OLdapErr))
     | Receive data -> receive d s data
     | Drain amount ->
       let (head, tail) = py_cut amount s.s_out in
       ((set_out s tail), (ORetBytes head))
     | _ -> (s, (OOther (Crash TypeErr))))
  | Server ->
    (match c with
     | SBindResponse (id, sasl, code, matched, diag, cs) ->
       let (s', o) =
         server_send s { m_id = id; m_op = (BindResponse
           ((server_result code matched diag), sasl)); m_controls = cs }
       in
       (match o with
        | Some id0 ->
          ((if Z.eqb code rc_sasl then s' else set_state s' OPENED), (ORetId
            id0))
        | None -> (s', OLdapErr))
     | SExtendedResponse (id, name, value, code, matched, diag, cs) ->
       let (s', o) =
         server_send s { m_id = id; m_op = (ExtendedResponse
           ((server_result code matched diag), name, value)); m_controls =
           cs }
       in
       (match o with
        | Some id0 ->
          ((if is_notice_name name then set_state s' CLOSED else s'), (ORetId
            id0))
        | None -> (s', OLdapErr))
     | SEntry (id, name, attrs, cs) ->
       ret
         (server_send s { m_id = id; m_op = (SearchResultEntry (name,
           attrs)); m_controls = cs })
     | SReference (id, uris, cs) ->
       ret
         (server_send s { m_id = id; m_op = (SearchResultReference uris);
           m_controls = cs })
     | SDone (id, code, matched, diag, cs) ->
       let (s', o) =
         server_send s { m_id = id; m_op = (SearchResultDone
           (server_result code matched diag)); m_controls = cs }
       in
       (match o with
        | Some id0 ->
          ((set_searches s' (zdel id0 s'.s_searches)), (ORetId id0))
        | None -> (s', OLdapErr))
     | Unbind ->
       let m = { m_id = Z0; m_op = UnbindRequest; m_controls = [] } in
       let (s', o) = server_send s m in
       (match o with
        | Some _ -> ((set_state (set_outstanding s' []) CLOSED), ORetNone)
        | None -> (s', OLdapErr))
     | Receive data -> receive d s data
     | Drain amount ->
       let (head, tail) = py_cut amount s.s_out in
       ((set_out s tail), (ORetBytes head))
     | _ -> (s, (OOther (Crash TypeErr))))

type rkind =
| RControl
| RFilter
| RAuth

(** val rkind_eqb : rkind -> rkind -> bool **)

let rkind_eqb a b =
  match a with
  | RControl -> (match b with
                 | RControl -> true
                 | _ -> false)
  | RFilter -> (match b with
                | RFilter -> true
                | _ -> false)
  | RAuth -> (match b with
              | RAuth -> true
              | _ -> false)

type rid = n list

(** val rid_eqb : rid -> rid -> bool **)

let rec rid_eqb a b =
  match a with
  | [] -> (match b with
           | [] -> true
           | _ :: _ -> false)
  | x :: a' ->
    (match b with
     | [] -> false
     | y :: b' -> (&&) (N.eqb x y) (rid_eqb a' b'))

type rentry = { r_kind : rkind; r_id : rid; r_class : n list }

type registry = rentry list

(** val bytes_id : byte list -> rid **)

let bytes_id b =
  map (fun x -> N.of_nat (to_nat0 x)) b

(** val control_oid0 : n -> rid **)

let control_oid0 = function
| N0 -> bytes_id oid_paged
| Npos p ->
  (match p with
   | XH -> bytes_id oid_show_deleted
   | _ -> bytes_id oid_show_deactivated)

(** val reg_init : registry **)

let reg_init =
  app
    (map (fun i -> { r_kind = RControl; r_id = (control_oid0 i); r_class =
      [] }) default_control_choices)
    (app
      (map (fun i -> { r_kind = RFilter; r_id = (i :: []); r_class = [] })
        default_filter_choices)
      (map (fun i -> { r_kind = RAuth; r_id = (i :: []); r_class = [] })
        default_auth_choices))

(** val matches_entry : rkind -> rid -> rentry -> bool **)

let matches_entry k i e =
  (&&) (rkind_eqb k e.r_kind) (rid_eqb i e.r_id)

(** val reg_find : rkind -> rid -> registry -> rentry option **)

let reg_find k i r =
  find (matches_entry k i) r

(** val reg_add : rkind -> rid -> n list -> registry -> registry res **)

let reg_add k i cls r =
  match reg_find k i r with
  | Some _ -> Raise ValueErr
  | None -> Ok (app r ({ r_kind = k; r_id = i; r_class = cls } :: []))

(** val reg_run :
    ((rkind * rid) * n list) list -> registry -> bool list * registry **)

let rec reg_run ops r =
  match ops with
  | [] -> ([], r)
  | p :: rest ->
    let (p0, cls) = p in
    let (k, i) = p0 in
    (match reg_add k i cls r with
     | Ok r' -> let (os, rf) = reg_run rest r' in ((true :: os), rf)
     | Raise _ -> let (os, rf) = reg_run rest r in ((false :: os), rf))

(** val reg_decodes : rkind -> rid -> registry -> n list option **)

let reg_decodes k i r =
  match reg_find k i r with
  | Some e -> Some e.r_class
  | None -> None

type ferr =
| FSyn of z * z
| FCrash of crash

type 'a fres =
| FOk of 'a
| FErr of ferr

(** val fbind : 'a1 fres -> ('a1 -> 'a2 fres) -> 'a2 fres **)

let fbind m f =
  match m with
  | FOk a -> f a
  | FErr e -> FErr e

(** val bn : byte list -> n list **)

let bn l =
  map b2n l

(** val zlen : 'a1 list -> z **)

let zlen l =
  Z.of_nat (length l)

(** val sl : byte list -> z -> z -> byte list **)

let sl view off len =
  firstn (Z.to_nat len) (skipn (Z.to_nat off) view)

(** val at_ : byte list -> z -> byte **)

let at_ l i =
  nth (Z.to_nat i) l X00

(** val c_sp : byte **)

let c_sp =
  X20

(** val c_lp : byte **)

let c_lp =
  X28

(** val c_rp : byte **)

let c_rp =
  X29

(** val c_star : byte **)

let c_star =
  X2a

(** val c_eq : byte **)

let c_eq =
  X3d

(** val c_colon : byte **)

let c_colon =
  X3a

(** val c_bang : byte **)

let c_bang =
  X21

(** val c_amp : byte **)

let c_amp =
  X26

(** val c_bar : byte **)

let c_bar =
  X7c

(** val c_gt : byte **)

let c_gt =
  X3e

(** val c_lt : byte **)

let c_lt =
  X3c

(** val c_tilde : byte **)

let c_tilde =
  X7e

(** val is_b : byte -> byte -> bool **)

let is_b =
  byte_eqb

(** val attr_ok : byte list -> bool **)

let attr_ok a =
  anchored_match rx_attribute rx_attribute_end (bn a)

(** val hexval : n -> n option **)

let hexval c =
  if (&&) (N.leb (Npos (XO (XO (XO (XO (XI XH)))))) c)
       (N.leb c (Npos (XI (XO (XO (XI (XI XH)))))))
  then Some (N.sub c (Npos (XO (XO (XO (XO (XI XH)))))))
  else if (&&) (N.leb (Npos (XI (XO (XO (XO (XO (XI XH))))))) c)
            (N.leb c (Npos (XO (XI (XI (XO (XO (XI XH))))))))
       then Some (N.sub c (Npos (XI (XI (XI (XO (XI (XO XH))))))))
       else if (&&) (N.leb (Npos (XI (XO (XO (XO (XO (XO XH))))))) c)
                 (N.leb c (Npos (XO (XI (XI (XO (XO (XO XH))))))))
            then Some (N.sub c (Npos (XI (XI (XI (XO (XI XH)))))))
            else None

(** val unescape_repl : n list -> n list option **)

let unescape_repl = function
| [] -> None
| _ :: rest ->
  if anchored_match rx_hex rx_hex_end rest
  then (match rest with
        | [] -> None
        | h :: l0 ->
          (match l0 with
           | [] -> None
           | l :: l1 ->
             (match l1 with
              | [] ->
                (match hexval h with
                 | Some a ->
                   (match hexval l with
                    | Some b ->
                      Some
                        ((N.add (N.mul a (Npos (XO (XO (XO (XO XH)))))) b) :: [])
                    | None -> None)
                 | None -> None)
              | _ :: _ -> None)))
  else None

(** val unpack_value : byte list -> z -> z -> byte list fres **)

let unpack_value raw off len =
  match re_sub rx_ldap_escape unescape_repl (bn raw) with
  | Some o ->
    (match o with
     | Some out -> FOk (map n2b out)
     | None -> FErr (FSyn (off, len)))
  | None -> FErr (FCrash OutOfFuel)

(** val split_on : byte -> byte list -> byte list -> byte list list **)

let rec split_on sep l cur =
  match l with
  | [] -> (rev cur) :: []
  | c :: r ->
    if is_b c sep
    then (rev cur) :: (split_on sep r [])
    else split_on sep r (c :: cur)

(** val bsplit : byte -> byte list -> byte list list **)

let bsplit sep l =
  split_on sep l []

(** val mem_b : byte -> byte list -> bool **)

let mem_b c l =
  existsb (is_b c) l

(** val sub_go :
    nat -> z -> z -> nat -> byte list list -> byte list option -> byte list
    list -> byte list option -> ((byte list option * byte list list) * byte
    list option) fres **)

let rec sub_go n0 off len idx ps first vals fin =
  match ps with
  | [] -> FOk ((first, vals), fin)
  | v :: rest ->
    if Nat.eqb idx O
    then (match v with
          | [] -> sub_go n0 off len (S idx) rest first vals fin
          | _ :: _ ->
            fbind (unpack_value v off len) (fun u ->
              sub_go n0 off len (S idx) rest (Some u) vals fin))
    else if Nat.eqb idx (sub n0 (S O))
         then (match v with
               | [] -> sub_go n0 off len (S idx) rest first vals fin
               | _ :: _ ->
                 fbind (unpack_value v off len) (fun u ->
                   sub_go n0 off len (S idx) rest first vals (Some u)))
         else (match v with
               | [] -> FErr (FSyn (off, len))
               | _ :: _ ->
                 fbind (unpack_value v off len) (fun u ->
                   sub_go n0 off len (S idx) rest first (app vals (u :: []))
                     fin))

(** val unpack_substrings0 :
    byte list -> z -> z -> ((byte list option * byte list list) * byte list
    option) fres **)

let unpack_substrings0 value off len =
  let parts = bsplit c_star value in
  sub_go (length parts) off len O parts None [] None

(** val dn_lit : byte list **)

let dn_lit =
  X64 :: (X6e :: [])

(** val unpack_ext_header :
    byte list -> z -> z -> ((byte list option * bool) * byte list option) fres **)

let unpack_ext_header header0 off len =
  match bsplit c_colon header0 with
  | [] -> FErr (FCrash IndexErr)
  | h0 :: rest ->
    fbind
      (match h0 with
       | [] -> FOk None
       | _ :: _ ->
         if attr_ok h0 then FOk (Some h0) else FErr (FSyn (off, len)))
      (fun attr ->
      match rest with
      | [] ->
        let for_dn = false in
        fbind
          (match rest with
           | [] -> FOk (None, rest)
           | x :: r ->
             if attr_ok x then FOk ((Some x), r) else FErr (FSyn (off, len)))
          (fun pat ->
          let (rule, rest0) = pat in
          (match rest0 with
           | [] -> FOk ((attr, for_dn), rule)
           | _ :: _ -> FErr (FSyn (off, len))))
      | x :: r ->
        if bytes_eqb x dn_lit
        then let for_dn = true in
             fbind
               (match r with
                | [] -> FOk (None, r)
                | x0 :: r0 ->
                  if attr_ok x0
                  then FOk ((Some x0), r0)
                  else FErr (FSyn (off, len))) (fun pat ->
               let (rule, rest0) = pat in
               (match rest0 with
                | [] -> FOk ((attr, for_dn), rule)
                | _ :: _ -> FErr (FSyn (off, len))))
        else let for_dn = false in
             fbind
               (match rest with
                | [] -> FOk (None, rest)
                | x0 :: r0 ->
                  if attr_ok x0
                  then FOk ((Some x0), r0)
                  else FErr (FSyn (off, len))) (fun pat ->
               let (rule, rest0) = pat in
               (match rest0 with
                | [] -> FOk ((attr, for_dn), rule)
                | _ :: _ -> FErr (FSyn (off, len)))))

(** val find_b : byte -> byte list -> z -> z **)

let rec find_b c l i =
  match l with
  | [] -> Zneg XH
  | x :: r -> if is_b x c then i else find_b c r (Z.add i (Zpos XH))

(** val unpack_simple : byte list -> z -> z -> (filter0 * z) fres **)

let unpack_simple view off len =
  let cur = sl view off len in
  let equals_idx = find_b c_eq cur Z0 in
  if Z.eqb equals_idx Z0
  then FErr (FSyn (off, (Zpos XH)))
  else if Z.eqb equals_idx (Zneg XH)
       then FErr (FSyn (off, len))
       else if Z.eqb equals_idx (Z.sub len (Zpos XH))
            then FErr (FSyn (off, len))
            else let ft = at_ cur (Z.sub equals_idx (Zpos XH)) in
                 let typed =
                   (||)
                     ((||) ((||) (is_b ft c_colon) (is_b ft c_gt))
                       (is_b ft c_lt)) (is_b ft c_tilde)
                 in
                 if (&&) typed (Z.eqb equals_idx (Zpos XH))
                 then FErr (FSyn (off, len))
                 else let attribute_end =
                        if typed
                        then Z.sub equals_idx (Zpos XH)
                        else equals_idx
                      in
                      let attribute = sl cur Z0 attribute_end in
                      if (&&) (negb ((&&) typed (is_b ft c_colon)))
                           (negb (attr_ok attribute))
                      then FErr (FSyn (off, attribute_end))
                      else let read = Z.add equals_idx (Zpos XH) in
                           let value_offset = Z.add off read in
                           let tail = skipn (Z.to_nat read) cur in
                           let rp = find_b c_rp tail Z0 in
                           let value_length =
                             if Z.eqb rp (Zneg XH) then zlen tail else rp
                           in
                           let raw = sl cur read value_length in
                           let read0 = Z.add read value_length in
                           fbind
                             (if (||) typed (negb (mem_b c_star raw))
                              then unpack_value raw value_offset value_length
                              else FOk raw) (fun b_value ->
                             if typed
                             then if is_b ft c_colon
                                  then fbind
                                         (unpack_ext_header attribute off
                                           attribute_end) (fun pat ->
                                         let (p, rule) = pat in
                                         let (a, dn) = p in
                                         FOk ((FExt (rule, a, b_value, dn)),
                                         read0))
                                  else if is_b ft c_gt
                                       then FOk ((FGe (attribute, b_value)),
                                              read0)
                                       else if is_b ft c_lt
                                            then FOk ((FLe (attribute,
                                                   b_value)), read0)
                                            else FOk ((FApprox (attribute,
                                                   b_value)), read0)
                             else if bytes_eqb raw (c_star :: [])
                                  then FOk ((FPresent attribute), read0)
                                  else if mem_b c_star raw
                                       then fbind
                                              (unpack_substrings0 b_value
                                                value_offset value_length)
                                              (fun pat ->
                                              let (p, fin) = pat in
                                              let (first, vals) = p in
                                              FOk ((FSub (attribute, first,
                                              vals, fin)), read0))
                                       else FOk ((FEq (attribute, b_value)),
                                              read0))

(** val finish_filter :
    z -> z -> z -> z option -> filter0 option -> (filter0 * z) fres **)

let finish_filter off len read parens parsed =
  match parens with
  | Some p -> FErr (FSyn ((Z.add off p), (Z.sub len p)))
  | None ->
    (match parsed with
     | Some f -> FOk (f, read)
     | None -> FErr (FSyn (off, len)))

(** val filter_loop :
    (z -> z -> (filter0 * z) fres) -> byte list -> z -> z -> byte list -> z
    -> nat -> z -> z option -> filter0 option -> (filter0 * z) fres **)

let rec filter_loop cplx view off len cur n0 fuel read parens parsed =
  match fuel with
  | O -> FErr (FCrash OutOfFuel)
  | S fu ->
    if Z.leb n0 read
    then finish_filter off len read parens parsed
    else let ch = at_ cur read in
         if is_b ch c_sp
         then filter_loop cplx view off len cur n0 fu (Z.add read (Zpos XH))
                parens parsed
         else if is_b ch c_rp
              then (match parens with
                    | Some _ ->
                      finish_filter off len (Z.add read (Zpos XH)) None parsed
                    | None -> FErr (FSyn ((Z.add off read), (Zpos XH))))
              else (match parens with
                    | Some _ ->
                      if is_b ch c_lp
                      then FErr (FSyn ((Z.add off read), (Zpos XH)))
                      else fbind
                             (if (||) ((||) (is_b ch c_bang) (is_b ch c_amp))
                                   (is_b ch c_bar)
                              then cplx (Z.add off read) (Z.sub len read)
                              else unpack_simple view (Z.add off read)
                                     (Z.sub len read)) (fun pat ->
                             let (f, sub_read) = pat in
                             filter_loop cplx view off len cur n0 fu
                               (Z.add read sub_read) parens (Some f))
                    | None ->
                      if is_b ch c_lp
                      then filter_loop cplx view off len cur n0 fu
                             (Z.add read (Zpos XH)) (Some read) parsed
                      else fbind
                             (unpack_simple view (Z.add off read)
                               (Z.sub len read)) (fun pat ->
                             let (f, r) = pat in
                             finish_filter off len (Z.add read r) parens
                               (Some f)))

(** val finish_complex :
    z -> z -> byte -> z -> filter0 list -> (filter0 * z) fres **)

let finish_complex off len ctype read fs = match fs with
| [] -> FErr (FSyn (off, len))
| f0 :: _ ->
  if is_b ctype c_bang
  then FOk ((FNot f0), read)
  else if is_b ctype c_amp
       then FOk ((FAnd fs), read)
       else FOk ((FOr fs), read)

(** val complex_loop :
    (z -> z -> (filter0 * z) fres) -> z -> z -> byte list -> z -> byte -> nat
    -> z -> filter0 list -> (filter0 * z) fres **)

let rec complex_loop uf off len cur n0 ctype fuel read fs =
  match fuel with
  | O -> FErr (FCrash OutOfFuel)
  | S fu ->
    if Z.leb n0 read
    then finish_complex off len ctype read fs
    else let ch = at_ cur read in
         if is_b ch c_sp
         then complex_loop uf off len cur n0 ctype fu (Z.add read (Zpos XH))
                fs
         else if is_b ch c_lp
              then (match fs with
                    | [] ->
                      fbind
                        (uf (Z.add off read)
                          (Z.sub (Z.sub len read) (Zpos XH))) (fun pat ->
                        let (f, r) = pat in
                        complex_loop uf off len cur n0 ctype fu
                          (Z.add read r) (app fs (f :: [])))
                    | _ :: _ ->
                      if is_b ctype c_bang
                      then FErr (FSyn (off, len))
                      else fbind
                             (uf (Z.add off read)
                               (Z.sub (Z.sub len read) (Zpos XH)))
                             (fun pat ->
                             let (f, r) = pat in
                             complex_loop uf off len cur n0 ctype fu
                               (Z.add read r) (app fs (f :: []))))
              else if is_b ch c_rp
                   then finish_complex off len ctype read fs
                   else FErr (FSyn ((Z.add off read), (Zpos XH)))

(** val unpack_filter0 : nat -> byte list -> z -> z -> (filter0 * z) fres **)

let rec unpack_filter0 d view off len =
  match d with
  | O -> FErr (FCrash RecursionErr)
  | S d' ->
    let cur = sl view off len in
    filter_loop (unpack_complex d' view) view off len cur (zlen cur) (S
      (length cur)) Z0 None None

(** val unpack_complex : nat -> byte list -> z -> z -> (filter0 * z) fres **)

and unpack_complex d view off len =
  match d with
  | O -> FErr (FCrash RecursionErr)
  | S d' ->
    let cur = sl view off len in
    complex_loop (unpack_filter0 d' view) off len cur (zlen cur) (at_ cur Z0)
      (S (length cur)) (Zpos XH) []

(** val is_space : n -> bool **)

let is_space c =
  existsb (N.eqb c) isspace_table

(** val lstrip : n list -> n list **)

let rec lstrip s = match s with
| [] -> []
| c :: r -> if is_space c then lstrip r else s

(** val strip : n list -> n list **)

let strip s =
  rev (lstrip (rev (lstrip s)))

(** val is_surrogate : n -> bool **)

let is_surrogate c =
  (&&)
    (N.leb (Npos (XO (XO (XO (XO (XO (XO (XO (XO (XO (XO (XO (XI (XI (XO (XI
      XH)))))))))))))))) c)
    (N.leb c (Npos (XI (XI (XI (XI (XI (XI (XI (XI (XI (XI (XI (XI (XI (XO
      (XI XH)))))))))))))))))

(** val is_escapable : n -> bool **)

let is_escapable c =
  (&&)
    (N.leb (Npos (XO (XO (XO (XO (XO (XO (XO (XI (XO (XO (XI (XI (XI (XO (XI
      XH)))))))))))))))) c)
    (N.leb c (Npos (XI (XI (XI (XI (XI (XI (XI (XI (XO (XO (XI (XI (XI (XO
      (XI XH)))))))))))))))))

(** val utf8_of_cp : n -> byte list **)

let utf8_of_cp c =
  if N.ltb c (Npos (XO (XO (XO (XO (XO (XO (XO XH))))))))
  then (n2b c) :: []
  else if N.ltb c (Npos (XO (XO (XO (XO (XO (XO (XO (XO (XO (XO (XO
            XH))))))))))))
       then (n2b
              (N.add (Npos (XO (XO (XO (XO (XO (XO (XI XH))))))))
                (N.div c (Npos (XO (XO (XO (XO (XO (XO XH)))))))))) :: (
              (n2b
                (N.add (Npos (XO (XO (XO (XO (XO (XO (XO XH))))))))
                  (N.modulo c (Npos (XO (XO (XO (XO (XO (XO XH)))))))))) :: [])
       else if N.ltb c (Npos (XO (XO (XO (XO (XO (XO (XO (XO (XO (XO (XO (XO
                 (XO (XO (XO (XO XH)))))))))))))))))
            then (n2b
                   (N.add (Npos (XO (XO (XO (XO (XO (XI (XI XH))))))))
                     (N.div c (Npos (XO (XO (XO (XO (XO (XO (XO (XO (XO (XO
                       (XO (XO XH)))))))))))))))) :: ((n2b
                                                        (N.add (Npos (XO (XO
                                                          (XO (XO (XO (XO (XO
                                                          XH))))))))
                                                          (N.modulo
                                                            (N.div c (Npos
                                                              (XO (XO (XO (XO
                                                              (XO (XO
                                                              XH))))))))
                                                            (Npos (XO (XO (XO
                                                            (XO (XO (XO
                                                            XH)))))))))) :: (
                   (n2b
                     (N.add (Npos (XO (XO (XO (XO (XO (XO (XO XH))))))))
                       (N.modulo c (Npos (XO (XO (XO (XO (XO (XO XH)))))))))) :: []))
            else (n2b
                   (N.add (Npos (XO (XO (XO (XO (XI (XI (XI XH))))))))
                     (N.div c (Npos (XO (XO (XO (XO (XO (XO (XO (XO (XO (XO
                       (XO (XO (XO (XO (XO (XO (XO (XO XH)))))))))))))))))))))) :: (
                   (n2b
                     (N.add (Npos (XO (XO (XO (XO (XO (XO (XO XH))))))))
                       (N.modulo
                         (N.div c (Npos (XO (XO (XO (XO (XO (XO (XO (XO (XO
                           (XO (XO (XO XH)))))))))))))) (Npos (XO (XO (XO (XO
                         (XO (XO XH)))))))))) :: ((n2b
                                                    (N.add (Npos (XO (XO (XO
                                                      (XO (XO (XO (XO
                                                      XH))))))))
                                                      (N.modulo
                                                        (N.div c (Npos (XO
                                                          (XO (XO (XO (XO (XO
                                                          XH)))))))) (Npos
                                                        (XO (XO (XO (XO (XO
                                                        (XO XH)))))))))) :: (
                   (n2b
                     (N.add (Npos (XO (XO (XO (XO (XO (XO (XO XH))))))))
                       (N.modulo c (Npos (XO (XO (XO (XO (XO (XO XH)))))))))) :: [])))

(** val surrogate_run : n list -> z **)

let rec surrogate_run = function
| [] -> Z0
| c :: r -> if is_surrogate c then Z.add (Zpos XH) (surrogate_run r) else Z0

(** val encode_se : n list -> z -> (byte list, z * z) sum **)

let rec encode_se s i =
  match s with
  | [] -> Inl []
  | c :: r ->
    if (&&) (is_surrogate c) (negb (is_escapable c))
    then Inr (i, (surrogate_run s))
    else (match encode_se r (Z.add i (Zpos XH)) with
          | Inl bs ->
            Inl
              (app
                (if is_escapable c
                 then (n2b
                        (N.sub c (Npos (XO (XO (XO (XO (XO (XO (XO (XO (XO
                          (XO (XI (XI (XI (XO (XI XH)))))))))))))))))) :: []
                 else utf8_of_cp c) bs)
          | Inr e -> Inr e)

(** val from_bytes : nat -> byte list -> filter0 fres **)

let from_bytes d b =
  let n0 = zlen b in
  (match unpack_filter0 d b Z0 n0 with
   | FOk a ->
     let (f, consumed) = a in
     if Z.ltb consumed n0
     then FErr (FSyn (consumed, (Z.sub n0 consumed)))
     else FOk f
   | FErr e ->
     (match e with
      | FSyn (_, _) -> FErr e
      | FCrash k ->
        (match k with
         | RecursionErr -> FErr (FSyn (Z0, n0))
         | _ -> FErr e)))

(** val from_string : nat -> n list -> filter0 fres **)

let from_string d s =
  match encode_se (strip s) Z0 with
  | Inl b -> from_bytes d b
  | Inr p -> let (st, ln) = p in FErr (FSyn (st, ln))

(** val hexdigit : n -> n **)

let hexdigit n0 =
  if N.ltb n0 (Npos (XO (XI (XO XH))))
  then N.add (Npos (XO (XO (XO (XO (XI XH)))))) n0
  else N.add (Npos (XI (XI (XI (XO (XI (XO XH))))))) n0

(** val escape_repl : n list -> n list option **)

let escape_repl = function
| [] -> None
| c :: l ->
  (match l with
   | [] ->
     Some ((Npos (XO (XO (XI (XI (XI (XO
       XH))))))) :: ((hexdigit (N.div c (Npos (XO (XO (XO (XO XH))))))) :: (
       (hexdigit (N.modulo c (Npos (XO (XO (XO (XO XH))))))) :: [])))
   | _ :: _ -> None)

(** val ser_value : byte list -> byte list **)

let ser_value v =
  match re_sub rx_string_escape escape_repl (bn v) with
  | Some o -> (match o with
               | Some out -> map n2b out
               | None -> [])
  | None -> []

(** val join_b : byte list -> byte list list -> byte list **)

let rec join_b sep = function
| [] -> []
| x :: r -> (match r with
             | [] -> x
             | _ :: _ -> app x (app sep (join_b sep r)))

(** val opt_or_empty : byte list option -> byte list **)

let opt_or_empty = function
| Some b -> b
| None -> []

(** val print_filter : filter0 -> byte list **)

let rec print_filter = function
| FAnd fs ->
  app (c_lp :: (c_amp :: [])) (app (flat_map print_filter fs) (c_rp :: []))
| FOr fs ->
  app (c_lp :: (c_bar :: [])) (app (flat_map print_filter fs) (c_rp :: []))
| FNot g -> app (c_lp :: (c_bang :: [])) (app (print_filter g) (c_rp :: []))
| FEq (a, v) ->
  app (c_lp :: []) (app a (app (c_eq :: []) (app (ser_value v) (c_rp :: []))))
| FSub (a, ini, any, fin) ->
  app (c_lp :: [])
    (app a
      (app (c_eq :: [])
        (app
          (join_b (c_star :: [])
            (app ((ser_value (opt_or_empty ini)) :: [])
              (app (map ser_value any) ((ser_value (opt_or_empty fin)) :: []))))
          (c_rp :: []))))
| FGe (a, v) ->
  app (c_lp :: [])
    (app a (app (c_gt :: (c_eq :: [])) (app (ser_value v) (c_rp :: []))))
| FLe (a, v) ->
  app (c_lp :: [])
    (app a (app (c_lt :: (c_eq :: [])) (app (ser_value v) (c_rp :: []))))
| FPresent a -> app (c_lp :: []) (app a (c_eq :: (c_star :: (c_rp :: []))))
| FApprox (a, v) ->
  app (c_lp :: [])
    (app a (app (c_tilde :: (c_eq :: [])) (app (ser_value v) (c_rp :: []))))
| FExt (rule, attr, v, dn) ->
  let headers =
    app ((opt_or_empty attr) :: [])
      (app (if dn then dn_lit :: [] else [])
        (match rule with
         | Some r -> r :: []
         | None -> []))
  in
  app (c_lp :: [])
    (app (join_b (c_colon :: []) headers)
      (app (c_colon :: (c_eq :: [])) (app (ser_value v) (c_rp :: []))))

type ustr = n list

(** val sQ : n **)

let sQ =
  Npos (XI (XI (XI (XO (XO XH)))))

(** val sPC : n **)

let sPC =
  Npos (XO (XO (XO (XO (XO XH)))))

(** val lP : n **)

let lP =
  Npos (XO (XO (XO (XI (XO XH)))))

(** val rP : n **)

let rP =
  Npos (XI (XO (XO (XI (XO XH)))))

(** val dOLLAR : n **)

let dOLLAR =
  Npos (XO (XO (XI (XO (XO XH)))))

(** val bSL : n **)

let bSL =
  Npos (XO (XO (XI (XI (XI (XO XH))))))

(** val lCURLY : n **)

let lCURLY =
  Npos (XI (XI (XO (XI (XI (XI XH))))))

(** val rCURLY : n **)

let rCURLY =
  Npos (XI (XO (XI (XI (XI (XI XH))))))

(** val ueqb : ustr -> ustr -> bool **)

let rec ueqb a b =
  match a with
  | [] -> (match b with
           | [] -> true
           | _ :: _ -> false)
  | x :: a' ->
    (match b with
     | [] -> false
     | y :: b' -> (&&) (N.eqb x y) (ueqb a' b'))

(** val memc : n -> n list -> bool **)

let memc c cs =
  existsb (N.eqb c) cs

(** val lstrip_chars : n list -> ustr -> ustr **)

let rec lstrip_chars cs s = match s with
| [] -> []
| c :: r -> if memc c cs then lstrip_chars cs r else s

(** val strip_chars : n list -> ustr -> ustr **)

let strip_chars cs s =
  rev (lstrip_chars cs (rev (lstrip_chars cs s)))

(** val is_ws : n -> bool **)

let is_ws c =
  existsb (N.eqb c) isspace_table

(** val lstrip_ws : ustr -> ustr **)

let rec lstrip_ws s = match s with
| [] -> []
| c :: r -> if is_ws c then lstrip_ws r else s

(** val strip_ws : ustr -> ustr **)

let strip_ws s =
  rev (lstrip_ws (rev (lstrip_ws s)))

(** val usplit_aux : n -> ustr -> ustr -> ustr list **)

let rec usplit_aux sep s cur =
  match s with
  | [] -> (rev cur) :: []
  | c :: r ->
    if N.eqb c sep
    then (rev cur) :: (usplit_aux sep r [])
    else usplit_aux sep r (c :: cur)

(** val usplit : n -> ustr -> ustr list **)

let usplit sep s =
  usplit_aux sep s []

(** val usplit1_aux : n -> ustr -> ustr -> (ustr * ustr) option **)

let rec usplit1_aux sep s cur =
  match s with
  | [] -> None
  | c :: r ->
    if N.eqb c sep then Some ((rev cur), r) else usplit1_aux sep r (c :: cur)

(** val usplit1 : n -> ustr -> (ustr * ustr) option **)

let usplit1 sep s =
  usplit1_aux sep s []

(** val starts_with : n -> ustr -> bool **)

let starts_with c = function
| [] -> false
| x :: _ -> N.eqb x c

(** val ujoin : ustr -> ustr list -> ustr **)

let rec ujoin sep = function
| [] -> []
| x :: r -> (match r with
             | [] -> x
             | _ :: _ -> app x (app sep (ujoin sep r)))

(** val encode_oids : ustr list -> ustr **)

let encode_oids v = match v with
| [] ->
  app (lP :: (sPC :: []))
    (app (ujoin (sPC :: (dOLLAR :: (sPC :: []))) v) (sPC :: (rP :: [])))
| x :: l ->
  (match l with
   | [] -> x
   | _ :: _ ->
     app (lP :: (sPC :: []))
       (app (ujoin (sPC :: (dOLLAR :: (sPC :: []))) v) (sPC :: (rP :: []))))

(** val hexdigit0 : n -> n **)

let hexdigit0 n0 =
  if N.ltb n0 (Npos (XO (XI (XO XH))))
  then N.add (Npos (XO (XO (XO (XO (XI XH)))))) n0
  else N.add (Npos (XI (XI (XI (XO (XI (XO XH))))))) n0

(** val esc_repl : n list -> n list option **)

let esc_repl = function
| [] -> None
| c :: l ->
  (match l with
   | [] ->
     Some
       (bSL :: (if N.ltb c (Npos (XO (XO (XO (XO (XO (XO (XO (XO XH)))))))))
                then (hexdigit0 (N.div c (Npos (XO (XO (XO (XO XH))))))) :: (
                       (hexdigit0 (N.modulo c (Npos (XO (XO (XO (XO XH))))))) :: [])
                else []))
   | _ :: _ -> None)

(** val encode_qdstring : ustr -> ustr res **)

let encode_qdstring v =
  match re_sub rx_qd_escape esc_repl v with
  | Some o ->
    (match o with
     | Some out -> Ok (app (sQ :: []) (app out (sQ :: [])))
     | None -> Raise ValueErr)
  | None -> Raise (Crash OutOfFuel)

(** val parse_oids : ustr option -> ustr list **)

let parse_oids = function
| Some s ->
  (match s with
   | [] -> []
   | _ :: _ ->
     map strip_ws (usplit dOLLAR (strip_chars (lP :: (rP :: (sPC :: []))) s)))
| None -> []

(** val hexval0 : n -> n option **)

let hexval0 c =
  if (&&) (N.leb (Npos (XO (XO (XO (XO (XI XH)))))) c)
       (N.leb c (Npos (XI (XO (XO (XI (XI XH)))))))
  then Some (N.sub c (Npos (XO (XO (XO (XO (XI XH)))))))
  else if (&&) (N.leb (Npos (XI (XO (XO (XO (XO (XI XH))))))) c)
            (N.leb c (Npos (XO (XI (XI (XO (XO (XI XH))))))))
       then Some (N.sub c (Npos (XI (XI (XI (XO (XI (XO XH))))))))
       else if (&&) (N.leb (Npos (XI (XO (XO (XO (XO (XO XH))))))) c)
                 (N.leb c (Npos (XO (XI (XI (XO (XO (XO XH))))))))
            then Some (N.sub c (Npos (XI (XI (XI (XO (XI XH)))))))
            else None

(** val unesc_repl : n list -> n list option **)

let unesc_repl = function
| [] -> None
| _ :: l0 ->
  (match l0 with
   | [] -> None
   | h :: l1 ->
     (match l1 with
      | [] -> None
      | l :: l2 ->
        (match l2 with
         | [] ->
           (match hexval0 h with
            | Some a ->
              (match hexval0 l with
               | Some b ->
                 if N.ltb (N.add (N.mul a (Npos (XO (XO (XO (XO XH)))))) b)
                      (Npos (XO (XO (XO (XO (XO (XO (XO XH))))))))
                 then Some
                        ((N.add (N.mul a (Npos (XO (XO (XO (XO XH)))))) b) :: [])
                 else None
               | None -> None)
            | None -> None)
         | _ :: _ -> None)))

(** val parse_qdstring : ustr -> ustr res **)

let parse_qdstring v =
  match re_sub rx_qd_unescape unesc_repl (strip_chars (sQ :: []) v) with
  | Some o -> (match o with
               | Some out -> Ok out
               | None -> Raise ValueErr)
  | None -> Raise (Crash OutOfFuel)

(** val parse_qdstring_opt : ustr option -> ustr option res **)

let parse_qdstring_opt = function
| Some s -> bind (parse_qdstring s) (fun x -> Ok (Some x))
| None -> Ok None

(** val dict_set :
    ustr -> ustr list -> (ustr * ustr list) list -> (ustr * ustr list) list **)

let rec dict_set k v = function
| [] -> (k, v) :: []
| p :: r ->
  let (k', v') = p in
  if ueqb k k' then (k', v) :: r else (k', v') :: (dict_set k v r)

(** val extract_qdstring : ustr -> (ustr * ustr) res **)

let extract_qdstring v =
  match usplit1 sQ (tl v) with
  | Some p ->
    let (entry, remaining) = p in
    bind (parse_qdstring entry) (fun p0 -> Ok (p0,
      (lstrip_chars (sPC :: []) remaining)))
  | None -> Raise ValueErr

(** val ext_list_loop : nat -> ustr -> ustr list -> (ustr list * ustr) res **)

let rec ext_list_loop fuel remaining acc =
  match fuel with
  | O -> Raise (Crash OutOfFuel)
  | S f ->
    if starts_with rP remaining
    then Ok (acc, remaining)
    else bind (extract_qdstring remaining) (fun pat ->
           let (e, r) = pat in ext_list_loop f r (app acc (e :: [])))

(** val ext_loop :
    nat -> ustr -> (ustr * ustr list) list -> (ustr * ustr list) list res **)

let rec ext_loop fuel value d =
  match fuel with
  | O -> Raise (Crash OutOfFuel)
  | S f ->
    (match value with
     | [] -> Ok d
     | _ :: _ ->
       (match usplit1 sPC (lstrip_chars (sPC :: []) value) with
        | Some p ->
          let (key, remaining) = p in
          let key0 = skipn (S (S O)) key in
          let remaining0 = lstrip_chars (sPC :: []) remaining in
          if starts_with lP remaining0
          then let remaining1 = lstrip_chars (sPC :: []) (tl remaining0) in
               bind (ext_list_loop (S (length remaining1)) remaining1 [])
                 (fun pat ->
                 let (entries, rest) = pat in
                 ext_loop f (tl rest) (dict_set key0 entries d))
          else bind (extract_qdstring remaining0) (fun pat ->
                 let (e, rest) = pat in
                 ext_loop f rest (dict_set key0 (e :: []) d))
        | None -> Raise ValueErr))

(** val parse_extensions : ustr option -> (ustr * ustr list) list res **)

let parse_extensions = function
| Some s ->
  (match s with
   | [] -> Ok []
   | _ :: _ ->
     let s0 = lstrip_chars (sPC :: []) s in ext_loop (S (length s0)) s0 [])
| None -> Ok []

(** val parse_names : ustr option -> ustr list **)

let parse_names = function
| Some s ->
  (match s with
   | [] -> []
   | _ :: _ ->
     map (strip_chars (sQ :: []))
       (filter (fun n0 -> match n0 with
                          | [] -> false
                          | _ :: _ -> true)
         (usplit sPC (strip_chars (lP :: (rP :: [])) s))))
| None -> []

type objclass = { oc_oid : ustr; oc_names : ustr list; oc_desc : ustr option;
                  oc_obsolete : bool; oc_sup : ustr list; oc_kind : n;
                  oc_must : ustr list; oc_may : ustr list;
                  oc_ext : (ustr * ustr list) list }

type attrtype = { at_oid : ustr; at_names : ustr list; at_desc : ustr option;
                  at_obsolete : bool; at_sup : ustr option;
                  at_equality : ustr option; at_ordering : ustr option;
                  at_substr : ustr option; at_syntax : ustr option;
                  at_syntax_len : z option; at_single : bool;
                  at_collective : bool; at_no_user_mod : bool; at_usage : 
                  n; at_ext : (ustr * ustr list) list }

type ditrule = { dc_oid : ustr; dc_names : ustr list; dc_desc : ustr option;
                 dc_obsolete : bool; dc_aux : ustr list; dc_must : ustr list;
                 dc_may : ustr list; dc_not : ustr list;
                 dc_ext : (ustr * ustr list) list }

(** val s_ABSTRACT : ustr **)

let s_ABSTRACT =
  (Npos (XI (XO (XO (XO (XO (XO XH))))))) :: ((Npos (XO (XI (XO (XO (XO (XO
    XH))))))) :: ((Npos (XI (XI (XO (XO (XI (XO XH))))))) :: ((Npos (XO (XO
    (XI (XO (XI (XO XH))))))) :: ((Npos (XO (XI (XO (XO (XI (XO
    XH))))))) :: ((Npos (XI (XO (XO (XO (XO (XO XH))))))) :: ((Npos (XI (XI
    (XO (XO (XO (XO XH))))))) :: ((Npos (XO (XO (XI (XO (XI (XO
    XH))))))) :: [])))))))

(** val s_STRUCTURAL : ustr **)

let s_STRUCTURAL =
  (Npos (XI (XI (XO (XO (XI (XO XH))))))) :: ((Npos (XO (XO (XI (XO (XI (XO
    XH))))))) :: ((Npos (XO (XI (XO (XO (XI (XO XH))))))) :: ((Npos (XI (XO
    (XI (XO (XI (XO XH))))))) :: ((Npos (XI (XI (XO (XO (XO (XO
    XH))))))) :: ((Npos (XO (XO (XI (XO (XI (XO XH))))))) :: ((Npos (XI (XO
    (XI (XO (XI (XO XH))))))) :: ((Npos (XO (XI (XO (XO (XI (XO
    XH))))))) :: ((Npos (XI (XO (XO (XO (XO (XO XH))))))) :: ((Npos (XO (XO
    (XI (XI (XO (XO XH))))))) :: [])))))))))

(** val s_AUXILIARY : ustr **)

let s_AUXILIARY =
  (Npos (XI (XO (XO (XO (XO (XO XH))))))) :: ((Npos (XI (XO (XI (XO (XI (XO
    XH))))))) :: ((Npos (XO (XO (XO (XI (XI (XO XH))))))) :: ((Npos (XI (XO
    (XO (XI (XO (XO XH))))))) :: ((Npos (XO (XO (XI (XI (XO (XO
    XH))))))) :: ((Npos (XI (XO (XO (XI (XO (XO XH))))))) :: ((Npos (XI (XO
    (XO (XO (XO (XO XH))))))) :: ((Npos (XO (XI (XO (XO (XI (XO
    XH))))))) :: ((Npos (XI (XO (XO (XI (XI (XO XH))))))) :: []))))))))

(** val s_directoryOperation : ustr **)

let s_directoryOperation =
  (Npos (XO (XO (XI (XO (XO (XI XH))))))) :: ((Npos (XI (XO (XO (XI (XO (XI
    XH))))))) :: ((Npos (XO (XI (XO (XO (XI (XI XH))))))) :: ((Npos (XI (XO
    (XI (XO (XO (XI XH))))))) :: ((Npos (XI (XI (XO (XO (XO (XI
    XH))))))) :: ((Npos (XO (XO (XI (XO (XI (XI XH))))))) :: ((Npos (XI (XI
    (XI (XI (XO (XI XH))))))) :: ((Npos (XO (XI (XO (XO (XI (XI
    XH))))))) :: ((Npos (XI (XO (XO (XI (XI (XI XH))))))) :: ((Npos (XI (XI
    (XI (XI (XO (XO XH))))))) :: ((Npos (XO (XO (XO (XO (XI (XI
    XH))))))) :: ((Npos (XI (XO (XI (XO (XO (XI XH))))))) :: ((Npos (XO (XI
    (XO (XO (XI (XI XH))))))) :: ((Npos (XI (XO (XO (XO (XO (XI
    XH))))))) :: ((Npos (XO (XO (XI (XO (XI (XI XH))))))) :: ((Npos (XI (XO
    (XO (XI (XO (XI XH))))))) :: ((Npos (XI (XI (XI (XI (XO (XI
    XH))))))) :: ((Npos (XO (XI (XI (XI (XO (XI
    XH))))))) :: [])))))))))))))))))

(** val s_distributedOperation : ustr **)

let s_distributedOperation =
  (Npos (XO (XO (XI (XO (XO (XI XH))))))) :: ((Npos (XI (XO (XO (XI (XO (XI
    XH))))))) :: ((Npos (XI (XI (XO (XO (XI (XI XH))))))) :: ((Npos (XO (XO
    (XI (XO (XI (XI XH))))))) :: ((Npos (XO (XI (XO (XO (XI (XI
    XH))))))) :: ((Npos (XI (XO (XO (XI (XO (XI XH))))))) :: ((Npos (XO (XI
    (XO (XO (XO (XI XH))))))) :: ((Npos (XI (XO (XI (XO (XI (XI
    XH))))))) :: ((Npos (XO (XO (XI (XO (XI (XI XH))))))) :: ((Npos (XI (XO
    (XI (XO (XO (XI XH))))))) :: ((Npos (XO (XO (XI (XO (XO (XI
    XH))))))) :: ((Npos (XI (XI (XI (XI (XO (XO XH))))))) :: ((Npos (XO (XO
    (XO (XO (XI (XI XH))))))) :: ((Npos (XI (XO (XI (XO (XO (XI
    XH))))))) :: ((Npos (XO (XI (XO (XO (XI (XI XH))))))) :: ((Npos (XI (XO
    (XO (XO (XO (XI XH))))))) :: ((Npos (XO (XO (XI (XO (XI (XI
    XH))))))) :: ((Npos (XI (XO (XO (XI (XO (XI XH))))))) :: ((Npos (XI (XI
    (XI (XI (XO (XI XH))))))) :: ((Npos (XO (XI (XI (XI (XO (XI
    XH))))))) :: [])))))))))))))))))))

(** val s_dSAOperation : ustr **)

let s_dSAOperation =
  (Npos (XO (XO (XI (XO (XO (XI XH))))))) :: ((Npos (XI (XI (XO (XO (XI (XO
    XH))))))) :: ((Npos (XI (XO (XO (XO (XO (XO XH))))))) :: ((Npos (XI (XI
    (XI (XI (XO (XO XH))))))) :: ((Npos (XO (XO (XO (XO (XI (XI
    XH))))))) :: ((Npos (XI (XO (XI (XO (XO (XI XH))))))) :: ((Npos (XO (XI
    (XO (XO (XI (XI XH))))))) :: ((Npos (XI (XO (XO (XO (XO (XI
    XH))))))) :: ((Npos (XO (XO (XI (XO (XI (XI XH))))))) :: ((Npos (XI (XO
    (XO (XI (XO (XI XH))))))) :: ((Npos (XI (XI (XI (XI (XO (XI
    XH))))))) :: ((Npos (XO (XI (XI (XI (XO (XI XH))))))) :: [])))))))))))

(** val grp : ustr -> caps -> nat -> ustr option **)

let grp =
  group_text

(** val truthy : ustr option -> bool **)

let truthy = function
| Some u -> (match u with
             | [] -> false
             | _ :: _ -> true)
| None -> false

(** val do_match : rx -> end_anchor -> ustr -> caps res **)

let do_match r e s =
  match re_match r e s with
  | BFuel -> Raise (Crash OutOfFuel)
  | BNo -> Raise ValueErr
  | BYes (_, cs) -> Ok cs

(** val oc_from_string : ustr -> objclass res **)

let oc_from_string s =
  bind (do_match rx_object_class rx_object_class_end s) (fun cs ->
    let g = grp s cs in
    let kind0 =
      match g rx_object_class_g_kind with
      | Some k ->
        if ueqb k s_ABSTRACT
        then N0
        else if ueqb k s_AUXILIARY then Npos (XO XH) else Npos XH
      | None -> Npos XH
    in
    bind (parse_qdstring_opt (g rx_object_class_g_desc)) (fun desc ->
      bind (parse_extensions (g rx_object_class_g_extensions)) (fun ext -> Ok
        { oc_oid =
        (match g rx_object_class_g_oid with
         | Some o -> o
         | None -> []); oc_names = (parse_names (g rx_object_class_g_name));
        oc_desc = desc; oc_obsolete =
        (truthy (g rx_object_class_g_obsolete)); oc_sup =
        (parse_oids (g rx_object_class_g_sup)); oc_kind = kind0; oc_must =
        (parse_oids (g rx_object_class_g_must)); oc_may =
        (parse_oids (g rx_object_class_g_may)); oc_ext = ext })))

(** val int_of_digits : ustr -> z **)

let int_of_digits s =
  fold_left (fun acc c ->
    Z.add (Z.mul acc (Zpos (XO (XI (XO XH)))))
      (Z.of_N (N.sub c (Npos (XO (XO (XO (XO (XI XH))))))))) s Z0

(** val split_syntax : ustr option -> (ustr option * z option) res **)

let split_syntax = function
| Some raw0 ->
  (match raw0 with
   | [] -> Ok (None, None)
   | _ :: _ ->
     let syn = strip_chars (sQ :: []) raw0 in
     (match re_match rx_noidlen rx_noidlen_end syn with
      | BFuel -> Raise (Crash OutOfFuel)
      | BNo -> Ok ((Some syn), None)
      | BYes (_, c2) ->
        (match group_text syn c2 rx_noidlen_g_value with
         | Some v ->
           (match group_text syn c2 rx_noidlen_g_len with
            | Some l -> Ok ((Some v), (Some (int_of_digits l)))
            | None -> Raise (Crash IndexErr))
         | None -> Raise (Crash IndexErr))))
| None -> Ok (None, None)

(** val restrip_syntax : ustr option -> ustr option **)

let restrip_syntax = function
| Some x ->
  (match x with
   | [] -> None
   | _ :: _ -> Some (strip_chars (sQ :: []) x))
| None -> None

(** val at_from_string : ustr -> attrtype res **)

let at_from_string s =
  bind (do_match rx_attribute_type rx_attribute_type_end s) (fun cs ->
    let g = grp s cs in
    bind (split_syntax (g rx_attribute_type_g_syntax)) (fun pat ->
      let (syntax, slen) = pat in
      let syntax0 = restrip_syntax syntax in
      let usage =
        match g rx_attribute_type_g_usage with
        | Some u ->
          if ueqb u s_directoryOperation
          then Npos XH
          else if ueqb u s_distributedOperation
               then Npos (XO XH)
               else if ueqb u s_dSAOperation then Npos (XI XH) else N0
        | None -> N0
      in
      bind (parse_qdstring_opt (g rx_attribute_type_g_desc)) (fun desc ->
        bind (parse_extensions (g rx_attribute_type_g_extensions))
          (fun ext -> Ok { at_oid =
          (match g rx_attribute_type_g_oid with
           | Some o -> o
           | None -> []); at_names =
          (parse_names (g rx_attribute_type_g_name)); at_desc = desc;
          at_obsolete = (truthy (g rx_attribute_type_g_obsolete)); at_sup =
          (g rx_attribute_type_g_sup); at_equality =
          (g rx_attribute_type_g_equality); at_ordering =
          (g rx_attribute_type_g_ordering); at_substr =
          (g rx_attribute_type_g_substr); at_syntax = syntax0;
          at_syntax_len = slen; at_single =
          (truthy (g rx_attribute_type_g_single_value)); at_collective =
          (truthy (g rx_attribute_type_g_collective)); at_no_user_mod =
          (truthy (g rx_attribute_type_g_no_user_modification)); at_usage =
          usage; at_ext = ext }))))

(** val dcr_from_string : ustr -> ditrule res **)

let dcr_from_string s =
  bind (do_match rx_dit_content_rule rx_dit_content_rule_end s) (fun cs ->
    let g = grp s cs in
    bind (parse_qdstring_opt (g rx_dit_content_rule_g_desc)) (fun desc ->
      bind (parse_extensions (g rx_dit_content_rule_g_extensions))
        (fun ext -> Ok { dc_oid =
        (match g rx_dit_content_rule_g_oid with
         | Some o -> o
         | None -> []); dc_names =
        (parse_names (g rx_dit_content_rule_g_name)); dc_desc = desc;
        dc_obsolete = (truthy (g rx_dit_content_rule_g_obsolete)); dc_aux =
        (parse_oids (g rx_dit_content_rule_g_aux)); dc_must =
        (parse_oids (g rx_dit_content_rule_g_must)); dc_may =
        (parse_oids (g rx_dit_content_rule_g_may)); dc_not =
        (parse_oids (g rx_dit_content_rule_g_not)); dc_ext = ext })))

(** val k_NAME : ustr **)

let k_NAME =
  (Npos (XO (XO (XO (XO (XO XH)))))) :: ((Npos (XO (XI (XI (XI (XO (XO
    XH))))))) :: ((Npos (XI (XO (XO (XO (XO (XO XH))))))) :: ((Npos (XI (XO
    (XI (XI (XO (XO XH))))))) :: ((Npos (XI (XO (XI (XO (XO (XO
    XH))))))) :: ((Npos (XO (XO (XO (XO (XO XH)))))) :: [])))))

(** val k_DESC : ustr **)

let k_DESC =
  (Npos (XO (XO (XO (XO (XO XH)))))) :: ((Npos (XO (XO (XI (XO (XO (XO
    XH))))))) :: ((Npos (XI (XO (XI (XO (XO (XO XH))))))) :: ((Npos (XI (XI
    (XO (XO (XI (XO XH))))))) :: ((Npos (XI (XI (XO (XO (XO (XO
    XH))))))) :: ((Npos (XO (XO (XO (XO (XO XH)))))) :: [])))))

(** val k_OBSOLETE : ustr **)

let k_OBSOLETE =
  (Npos (XO (XO (XO (XO (XO XH)))))) :: ((Npos (XI (XI (XI (XI (XO (XO
    XH))))))) :: ((Npos (XO (XI (XO (XO (XO (XO XH))))))) :: ((Npos (XI (XI
    (XO (XO (XI (XO XH))))))) :: ((Npos (XI (XI (XI (XI (XO (XO
    XH))))))) :: ((Npos (XO (XO (XI (XI (XO (XO XH))))))) :: ((Npos (XI (XO
    (XI (XO (XO (XO XH))))))) :: ((Npos (XO (XO (XI (XO (XI (XO
    XH))))))) :: ((Npos (XI (XO (XI (XO (XO (XO XH))))))) :: []))))))))

(** val k_SUP : ustr **)

let k_SUP =
  (Npos (XO (XO (XO (XO (XO XH)))))) :: ((Npos (XI (XI (XO (XO (XI (XO
    XH))))))) :: ((Npos (XI (XO (XI (XO (XI (XO XH))))))) :: ((Npos (XO (XO
    (XO (XO (XI (XO XH))))))) :: ((Npos (XO (XO (XO (XO (XO XH)))))) :: []))))

(** val k_MUST : ustr **)

let k_MUST =
  (Npos (XO (XO (XO (XO (XO XH)))))) :: ((Npos (XI (XO (XI (XI (XO (XO
    XH))))))) :: ((Npos (XI (XO (XI (XO (XI (XO XH))))))) :: ((Npos (XI (XI
    (XO (XO (XI (XO XH))))))) :: ((Npos (XO (XO (XI (XO (XI (XO
    XH))))))) :: ((Npos (XO (XO (XO (XO (XO XH)))))) :: [])))))

(** val k_MAY : ustr **)

let k_MAY =
  (Npos (XO (XO (XO (XO (XO XH)))))) :: ((Npos (XI (XO (XI (XI (XO (XO
    XH))))))) :: ((Npos (XI (XO (XO (XO (XO (XO XH))))))) :: ((Npos (XI (XO
    (XO (XI (XI (XO XH))))))) :: ((Npos (XO (XO (XO (XO (XO XH)))))) :: []))))

(** val k_AUX : ustr **)

let k_AUX =
  (Npos (XO (XO (XO (XO (XO XH)))))) :: ((Npos (XI (XO (XO (XO (XO (XO
    XH))))))) :: ((Npos (XI (XO (XI (XO (XI (XO XH))))))) :: ((Npos (XO (XO
    (XO (XI (XI (XO XH))))))) :: ((Npos (XO (XO (XO (XO (XO XH)))))) :: []))))

(** val k_NOT : ustr **)

let k_NOT =
  (Npos (XO (XO (XO (XO (XO XH)))))) :: ((Npos (XO (XI (XI (XI (XO (XO
    XH))))))) :: ((Npos (XI (XI (XI (XI (XO (XO XH))))))) :: ((Npos (XO (XO
    (XI (XO (XI (XO XH))))))) :: ((Npos (XO (XO (XO (XO (XO XH)))))) :: []))))

(** val k_EQUALITY : ustr **)

let k_EQUALITY =
  (Npos (XO (XO (XO (XO (XO XH)))))) :: ((Npos (XI (XO (XI (XO (XO (XO
    XH))))))) :: ((Npos (XI (XO (XO (XO (XI (XO XH))))))) :: ((Npos (XI (XO
    (XI (XO (XI (XO XH))))))) :: ((Npos (XI (XO (XO (XO (XO (XO
    XH))))))) :: ((Npos (XO (XO (XI (XI (XO (XO XH))))))) :: ((Npos (XI (XO
    (XO (XI (XO (XO XH))))))) :: ((Npos (XO (XO (XI (XO (XI (XO
    XH))))))) :: ((Npos (XI (XO (XO (XI (XI (XO XH))))))) :: ((Npos (XO (XO
    (XO (XO (XO XH)))))) :: [])))))))))

(** val k_ORDERING : ustr **)

let k_ORDERING =
  (Npos (XO (XO (XO (XO (XO XH)))))) :: ((Npos (XI (XI (XI (XI (XO (XO
    XH))))))) :: ((Npos (XO (XI (XO (XO (XI (XO XH))))))) :: ((Npos (XO (XO
    (XI (XO (XO (XO XH))))))) :: ((Npos (XI (XO (XI (XO (XO (XO
    XH))))))) :: ((Npos (XO (XI (XO (XO (XI (XO XH))))))) :: ((Npos (XI (XO
    (XO (XI (XO (XO XH))))))) :: ((Npos (XO (XI (XI (XI (XO (XO
    XH))))))) :: ((Npos (XI (XI (XI (XO (XO (XO XH))))))) :: ((Npos (XO (XO
    (XO (XO (XO XH)))))) :: [])))))))))

(** val k_SUBSTR : ustr **)

let k_SUBSTR =
  (Npos (XO (XO (XO (XO (XO XH)))))) :: ((Npos (XI (XI (XO (XO (XI (XO
    XH))))))) :: ((Npos (XI (XO (XI (XO (XI (XO XH))))))) :: ((Npos (XO (XI
    (XO (XO (XO (XO XH))))))) :: ((Npos (XI (XI (XO (XO (XI (XO
    XH))))))) :: ((Npos (XO (XO (XI (XO (XI (XO XH))))))) :: ((Npos (XO (XI
    (XO (XO (XI (XO XH))))))) :: ((Npos (XO (XO (XO (XO (XO
    XH)))))) :: [])))))))

(** val k_SYNTAX : ustr **)

let k_SYNTAX =
  (Npos (XO (XO (XO (XO (XO XH)))))) :: ((Npos (XI (XI (XO (XO (XI (XO
    XH))))))) :: ((Npos (XI (XO (XO (XI (XI (XO XH))))))) :: ((Npos (XO (XI
    (XI (XI (XO (XO XH))))))) :: ((Npos (XO (XO (XI (XO (XI (XO
    XH))))))) :: ((Npos (XI (XO (XO (XO (XO (XO XH))))))) :: ((Npos (XO (XO
    (XO (XI (XI (XO XH))))))) :: ((Npos (XO (XO (XO (XO (XO
    XH)))))) :: [])))))))

(** val k_SINGLE : ustr **)

let k_SINGLE =
  (Npos (XO (XO (XO (XO (XO XH)))))) :: ((Npos (XI (XI (XO (XO (XI (XO
    XH))))))) :: ((Npos (XI (XO (XO (XI (XO (XO XH))))))) :: ((Npos (XO (XI
    (XI (XI (XO (XO XH))))))) :: ((Npos (XI (XI (XI (XO (XO (XO
    XH))))))) :: ((Npos (XO (XO (XI (XI (XO (XO XH))))))) :: ((Npos (XI (XO
    (XI (XO (XO (XO XH))))))) :: ((Npos (XI (XO (XI (XI (XO
    XH)))))) :: ((Npos (XO (XI (XI (XO (XI (XO XH))))))) :: ((Npos (XI (XO
    (XO (XO (XO (XO XH))))))) :: ((Npos (XO (XO (XI (XI (XO (XO
    XH))))))) :: ((Npos (XI (XO (XI (XO (XI (XO XH))))))) :: ((Npos (XI (XO
    (XI (XO (XO (XO XH))))))) :: []))))))))))))

(** val k_COLLECTIVE : ustr **)

let k_COLLECTIVE =
  (Npos (XO (XO (XO (XO (XO XH)))))) :: ((Npos (XI (XI (XO (XO (XO (XO
    XH))))))) :: ((Npos (XI (XI (XI (XI (XO (XO XH))))))) :: ((Npos (XO (XO
    (XI (XI (XO (XO XH))))))) :: ((Npos (XO (XO (XI (XI (XO (XO
    XH))))))) :: ((Npos (XI (XO (XI (XO (XO (XO XH))))))) :: ((Npos (XI (XI
    (XO (XO (XO (XO XH))))))) :: ((Npos (XO (XO (XI (XO (XI (XO
    XH))))))) :: ((Npos (XI (XO (XO (XI (XO (XO XH))))))) :: ((Npos (XO (XI
    (XI (XO (XI (XO XH))))))) :: ((Npos (XI (XO (XI (XO (XO (XO
    XH))))))) :: []))))))))))

(** val k_NOUSERMOD : ustr **)

let k_NOUSERMOD =
  (Npos (XO (XO (XO (XO (XO XH)))))) :: ((Npos (XO (XI (XI (XI (XO (XO
    XH))))))) :: ((Npos (XI (XI (XI (XI (XO (XO XH))))))) :: ((Npos (XI (XO
    (XI (XI (XO XH)))))) :: ((Npos (XI (XO (XI (XO (XI (XO
    XH))))))) :: ((Npos (XI (XI (XO (XO (XI (XO XH))))))) :: ((Npos (XI (XO
    (XI (XO (XO (XO XH))))))) :: ((Npos (XO (XI (XO (XO (XI (XO
    XH))))))) :: ((Npos (XI (XO (XI (XI (XO XH)))))) :: ((Npos (XI (XO (XI
    (XI (XO (XO XH))))))) :: ((Npos (XI (XI (XI (XI (XO (XO
    XH))))))) :: ((Npos (XO (XO (XI (XO (XO (XO XH))))))) :: ((Npos (XI (XO
    (XO (XI (XO (XO XH))))))) :: ((Npos (XO (XI (XI (XO (XO (XO
    XH))))))) :: ((Npos (XI (XO (XO (XI (XO (XO XH))))))) :: ((Npos (XI (XI
    (XO (XO (XO (XO XH))))))) :: ((Npos (XI (XO (XO (XO (XO (XO
    XH))))))) :: ((Npos (XO (XO (XI (XO (XI (XO XH))))))) :: ((Npos (XI (XO
    (XO (XI (XO (XO XH))))))) :: ((Npos (XI (XI (XI (XI (XO (XO
    XH))))))) :: ((Npos (XO (XI (XI (XI (XO (XO
    XH))))))) :: []))))))))))))))))))))

(** val k_USAGE : ustr **)

let k_USAGE =
  (Npos (XO (XO (XO (XO (XO XH)))))) :: ((Npos (XI (XO (XI (XO (XI (XO
    XH))))))) :: ((Npos (XI (XI (XO (XO (XI (XO XH))))))) :: ((Npos (XI (XO
    (XO (XO (XO (XO XH))))))) :: ((Npos (XI (XI (XI (XO (XO (XO
    XH))))))) :: ((Npos (XI (XO (XI (XO (XO (XO XH))))))) :: ((Npos (XO (XO
    (XO (XO (XO XH)))))) :: []))))))

(** val k_X : ustr **)

let k_X =
  (Npos (XO (XO (XO (XO (XO XH)))))) :: ((Npos (XO (XO (XO (XI (XI (XO
    XH))))))) :: ((Npos (XI (XO (XI (XI (XO XH)))))) :: []))

(** val print_names : ustr list -> ustr **)

let print_names names = match names with
| [] -> []
| n0 :: l ->
  (match l with
   | [] -> app k_NAME (app (sQ :: []) (app n0 (sQ :: [])))
   | _ :: _ ->
     app k_NAME
       (app (lP :: (sPC :: (sQ :: [])))
         (app (ujoin (sQ :: (sPC :: (sQ :: []))) names)
           (sQ :: (sPC :: (rP :: []))))))

(** val map_res : ('a1 -> 'a2 res) -> 'a1 list -> 'a2 list res **)

let rec map_res f = function
| [] -> Ok []
| x :: r -> bind (f x) (fun y -> bind (map_res f r) (fun ys -> Ok (y :: ys)))

(** val print_desc : ustr option -> ustr res **)

let print_desc = function
| Some s -> bind (encode_qdstring s) (fun q -> Ok (app k_DESC q))
| None -> Ok []

(** val print_oids : ustr -> ustr list -> ustr **)

let print_oids k l = match l with
| [] -> []
| _ :: _ -> app k (encode_oids l)

(** val print_ext : (ustr * ustr list) list -> ustr res **)

let rec print_ext = function
| [] -> Ok []
| p :: r ->
  let (a, vs) = p in
  bind (map_res encode_qdstring vs) (fun qs ->
    bind (print_ext r) (fun rest ->
      match qs with
      | [] ->
        Ok
          (app k_X
            (app a
              (app (sPC :: (lP :: (sPC :: [])))
                (app (ujoin (sPC :: []) qs) (app (sPC :: (rP :: [])) rest)))))
      | q :: l ->
        (match l with
         | [] -> Ok (app k_X (app a (app (sPC :: []) (app q rest))))
         | _ :: _ ->
           Ok
             (app k_X
               (app a
                 (app (sPC :: (lP :: (sPC :: [])))
                   (app (ujoin (sPC :: []) qs) (app (sPC :: (rP :: [])) rest))))))))

(** val wrap : ustr -> ustr -> ustr **)

let wrap oid body =
  app (lP :: (sPC :: [])) (app oid (app body (sPC :: (rP :: []))))

(** val oc_print : objclass -> ustr res **)

let oc_print o =
  bind (print_desc o.oc_desc) (fun d ->
    bind (print_ext o.oc_ext) (fun e -> Ok
      (wrap o.oc_oid
        (app (print_names o.oc_names)
          (app d
            (app (if o.oc_obsolete then k_OBSOLETE else [])
              (app (print_oids k_SUP o.oc_sup)
                (app (sPC :: [])
                  (app
                    (match o.oc_kind with
                     | N0 -> s_ABSTRACT
                     | Npos p ->
                       (match p with
                        | XO p0 ->
                          (match p0 with
                           | XH -> s_AUXILIARY
                           | _ -> s_STRUCTURAL)
                        | _ -> s_STRUCTURAL))
                    (app (print_oids k_MUST o.oc_must)
                      (app (print_oids k_MAY o.oc_may) e)))))))))))

(** val opt_kw : ustr -> ustr option -> ustr **)

let opt_kw k = function
| Some v -> app k v
| None -> []

(** val digits_pos : nat -> n -> ustr -> ustr **)

let rec digits_pos fuel n0 acc =
  match fuel with
  | O -> acc
  | S f ->
    if N.ltb n0 (Npos (XO (XI (XO XH))))
    then (N.add (Npos (XO (XO (XO (XO (XI XH)))))) n0) :: acc
    else digits_pos f (N.div n0 (Npos (XO (XI (XO XH)))))
           ((N.add (Npos (XO (XO (XO (XO (XI XH))))))
              (N.modulo n0 (Npos (XO (XI (XO XH)))))) :: acc)

(** val str_of_int : z -> ustr **)

let str_of_int = function
| Z0 -> (Npos (XO (XO (XO (XO (XI XH)))))) :: []
| Zpos p -> digits_pos (S (N.to_nat (N.log2 (Npos p)))) (Npos p) []
| Zneg p ->
  (Npos (XI (XO (XI (XI (XO
    XH)))))) :: (digits_pos (S (N.to_nat (N.log2 (Npos p)))) (Npos p) [])

(** val at_print : attrtype -> ustr res **)

let at_print a =
  bind (print_desc a.at_desc) (fun d ->
    bind (print_ext a.at_ext) (fun e -> Ok
      (wrap a.at_oid
        (app (print_names a.at_names)
          (app d
            (app (if a.at_obsolete then k_OBSOLETE else [])
              (app (opt_kw k_SUP a.at_sup)
                (app (opt_kw k_EQUALITY a.at_equality)
                  (app (opt_kw k_ORDERING a.at_ordering)
                    (app (opt_kw k_SUBSTR a.at_substr)
                      (app
                        (match a.at_syntax with
                         | Some s ->
                           app k_SYNTAX
                             (app s
                               (match a.at_syntax_len with
                                | Some l ->
                                  app (lCURLY :: [])
                                    (app (str_of_int l) (rCURLY :: []))
                                | None -> []))
                         | None -> [])
                        (app (if a.at_single then k_SINGLE else [])
                          (app (if a.at_collective then k_COLLECTIVE else [])
                            (app
                              (if a.at_no_user_mod then k_NOUSERMOD else [])
                              (app
                                (match a.at_usage with
                                 | N0 -> []
                                 | Npos p ->
                                   (match p with
                                    | XI p0 ->
                                      (match p0 with
                                       | XH -> app k_USAGE s_dSAOperation
                                       | _ -> [])
                                    | XO p0 ->
                                      (match p0 with
                                       | XH ->
                                         app k_USAGE s_distributedOperation
                                       | _ -> [])
                                    | XH -> app k_USAGE s_directoryOperation))
                                e)))))))))))))))

(** val dcr_print : ditrule -> ustr res **)

let dcr_print o =
  bind (print_desc o.dc_desc) (fun d ->
    bind (print_ext o.dc_ext) (fun e -> Ok
      (wrap o.dc_oid
        (app (print_names o.dc_names)
          (app d
            (app (if o.dc_obsolete then k_OBSOLETE else [])
              (app (print_oids k_AUX o.dc_aux)
                (app (print_oids k_MUST o.dc_must)
                  (app (print_oids k_MAY o.dc_may)
                    (app (print_oids k_NOT o.dc_not) e))))))))))

(** val s_obytes : byte list option -> sexp **)

let s_obytes =
  s_opt (fun x -> SBytes x)

(** val g_obytes : sexp -> byte list option option **)

let g_obytes =
  g_opt g_bytes

(** val s_control : control -> sexp **)

let s_control = function
| CGeneric (oid, crit, v) ->
  SList ((SInt Z0) :: ((SBytes
    oid) :: ((s_bool crit) :: ((s_obytes v) :: []))))
| CPaged (crit, size0, cookie, raw) ->
  SList ((SInt (Zpos XH)) :: ((s_bool crit) :: ((SInt size0) :: ((SBytes
    cookie) :: ((s_obytes raw) :: [])))))
| CShowDeleted (crit, raw) ->
  SList ((SInt (Zpos (XO XH))) :: ((s_bool crit) :: ((s_obytes raw) :: [])))
| CShowDeactivated (crit, raw) ->
  SList ((SInt (Zpos (XI XH))) :: ((s_bool crit) :: ((s_obytes raw) :: [])))

(** val g_control : sexp -> control option **)

let g_control = function
| SList l ->
  (match l with
   | [] -> None
   | s0 :: l0 ->
     (match s0 with
      | SInt z0 ->
        (match z0 with
         | Z0 ->
           (match l0 with
            | [] -> None
            | oid :: l1 ->
              (match l1 with
               | [] -> None
               | crit :: l2 ->
                 (match l2 with
                  | [] -> None
                  | v :: l3 ->
                    (match l3 with
                     | [] ->
                       obind (g_bytes oid) (fun oid0 ->
                         obind (g_bool crit) (fun crit0 ->
                           obind (g_obytes v) (fun v0 -> Some (CGeneric
                             (oid0, crit0, v0)))))
                     | _ :: _ -> None))))
         | Zpos p ->
           (match p with
            | XI p0 ->
              (match p0 with
               | XH ->
                 (match l0 with
                  | [] -> None
                  | crit :: l1 ->
                    (match l1 with
                     | [] -> None
                     | raw :: l2 ->
                       (match l2 with
                        | [] ->
                          obind (g_bool crit) (fun crit0 ->
                            obind (g_obytes raw) (fun raw0 -> Some
                              (CShowDeactivated (crit0, raw0))))
                        | _ :: _ -> None)))
               | _ -> None)
            | XO p0 ->
              (match p0 with
               | XH ->
                 (match l0 with
                  | [] -> None
                  | crit :: l1 ->
                    (match l1 with
                     | [] -> None
                     | raw :: l2 ->
                       (match l2 with
                        | [] ->
                          obind (g_bool crit) (fun crit0 ->
                            obind (g_obytes raw) (fun raw0 -> Some
                              (CShowDeleted (crit0, raw0))))
                        | _ :: _ -> None)))
               | _ -> None)
            | XH ->
              (match l0 with
               | [] -> None
               | crit :: l1 ->
                 (match l1 with
                  | [] -> None
                  | size0 :: l2 ->
                    (match l2 with
                     | [] -> None
                     | cookie :: l3 ->
                       (match l3 with
                        | [] -> None
                        | raw :: l4 ->
                          (match l4 with
                           | [] ->
                             obind (g_bool crit) (fun crit0 ->
                               obind (g_z size0) (fun size1 ->
                                 obind (g_bytes cookie) (fun cookie0 ->
                                   obind (g_obytes raw) (fun raw0 -> Some
                                     (CPaged (crit0, size1, cookie0, raw0))))))
                           | _ :: _ -> None))))))
         | Zneg _ -> None)
      | _ -> None))
| _ -> None

(** val s_controls : control list -> sexp **)

let s_controls =
  s_list s_control

(** val g_controls : sexp -> control list option **)

let g_controls =
  g_list g_control

(** val s_cred : cred -> sexp **)

let s_cred = function
| CrSimple pw -> SList ((SInt Z0) :: ((SBytes pw) :: []))
| CrSasl (mech, creds) ->
  SList ((SInt (Zpos XH)) :: ((SBytes mech) :: ((s_obytes creds) :: [])))

(** val g_cred : sexp -> cred option **)

let g_cred = function
| SList l ->
  (match l with
   | [] -> None
   | s0 :: l0 ->
     (match s0 with
      | SInt z0 ->
        (match z0 with
         | Z0 ->
           (match l0 with
            | [] -> None
            | pw :: l1 ->
              (match l1 with
               | [] -> obind (g_bytes pw) (fun pw0 -> Some (CrSimple pw0))
               | _ :: _ -> None))
         | Zpos p ->
           (match p with
            | XH ->
              (match l0 with
               | [] -> None
               | mech :: l1 ->
                 (match l1 with
                  | [] -> None
                  | creds :: l2 ->
                    (match l2 with
                     | [] ->
                       obind (g_bytes mech) (fun mech0 ->
                         obind (g_obytes creds) (fun creds0 -> Some (CrSasl
                           (mech0, creds0))))
                     | _ :: _ -> None)))
            | _ -> None)
         | Zneg _ -> None)
      | _ -> None))
| _ -> None

(** val s_filter : filter0 -> sexp **)

let rec s_filter = function
| FAnd fs -> SList ((SInt Z0) :: ((SList (map s_filter fs)) :: []))
| FOr fs -> SList ((SInt (Zpos XH)) :: ((SList (map s_filter fs)) :: []))
| FNot g -> SList ((SInt (Zpos (XO XH))) :: ((s_filter g) :: []))
| FEq (a, v) ->
  SList ((SInt (Zpos (XI XH))) :: ((SBytes a) :: ((SBytes v) :: [])))
| FSub (a, i, any, fin) ->
  SList ((SInt (Zpos (XO (XO XH)))) :: ((SBytes
    a) :: ((s_obytes i) :: ((s_list (fun x -> SBytes x) any) :: ((s_obytes
                                                                   fin) :: [])))))
| FGe (a, v) ->
  SList ((SInt (Zpos (XI (XO XH)))) :: ((SBytes a) :: ((SBytes v) :: [])))
| FLe (a, v) ->
  SList ((SInt (Zpos (XO (XI XH)))) :: ((SBytes a) :: ((SBytes v) :: [])))
| FPresent a -> SList ((SInt (Zpos (XI (XI XH)))) :: ((SBytes a) :: []))
| FApprox (a, v) ->
  SList ((SInt (Zpos (XO (XO (XO XH))))) :: ((SBytes a) :: ((SBytes
    v) :: [])))
| FExt (rule, attr, v, dn) ->
  SList ((SInt (Zpos (XI (XO (XO
    XH))))) :: ((s_obytes rule) :: ((s_obytes attr) :: ((SBytes
    v) :: ((s_bool dn) :: [])))))

(** val g_filter : nat -> sexp -> filter0 option **)

let rec g_filter fuel s =
  match fuel with
  | O -> None
  | S fu ->
    (match s with
     | SList l ->
       (match l with
        | [] -> None
        | s0 :: l0 ->
          (match s0 with
           | SInt z0 ->
             (match z0 with
              | Z0 ->
                (match l0 with
                 | [] -> None
                 | s1 :: l1 ->
                   (match s1 with
                    | SList fs ->
                      (match l1 with
                       | [] ->
                         obind (g_all (g_filter fu) fs) (fun fs0 -> Some
                           (FAnd fs0))
                       | _ :: _ -> None)
                    | _ -> None))
              | Zpos p ->
                (match p with
                 | XI p0 ->
                   (match p0 with
                    | XI p1 ->
                      (match p1 with
                       | XH ->
                         (match l0 with
                          | [] -> None
                          | a :: l1 ->
                            (match l1 with
                             | [] ->
                               obind (g_bytes a) (fun a0 -> Some (FPresent
                                 a0))
                             | _ :: _ -> None))
                       | _ -> None)
                    | XO p1 ->
                      (match p1 with
                       | XI _ -> None
                       | XO p2 ->
                         (match p2 with
                          | XH ->
                            (match l0 with
                             | [] -> None
                             | rule :: l1 ->
                               (match l1 with
                                | [] -> None
                                | attr :: l2 ->
                                  (match l2 with
                                   | [] -> None
                                   | v :: l3 ->
                                     (match l3 with
                                      | [] -> None
                                      | dn :: l4 ->
                                        (match l4 with
                                         | [] ->
                                           obind (g_obytes rule)
                                             (fun rule0 ->
                                             obind (g_obytes attr)
                                               (fun attr0 ->
                                               obind (g_bytes v) (fun v0 ->
                                                 obind (g_bool dn)
                                                   (fun dn0 -> Some (FExt
                                                   (rule0, attr0, v0, dn0))))))
                                         | _ :: _ -> None)))))
                          | _ -> None)
                       | XH ->
                         (match l0 with
                          | [] -> None
                          | a :: l1 ->
                            (match l1 with
                             | [] -> None
                             | v :: l2 ->
                               (match l2 with
                                | [] ->
                                  obind (g_bytes a) (fun a0 ->
                                    obind (g_bytes v) (fun v0 -> Some (FGe
                                      (a0, v0))))
                                | _ :: _ -> None))))
                    | XH ->
                      (match l0 with
                       | [] -> None
                       | a :: l1 ->
                         (match l1 with
                          | [] -> None
                          | v :: l2 ->
                            (match l2 with
                             | [] ->
                               obind (g_bytes a) (fun a0 ->
                                 obind (g_bytes v) (fun v0 -> Some (FEq (a0,
                                   v0))))
                             | _ :: _ -> None))))
                 | XO p0 ->
                   (match p0 with
                    | XI p1 ->
                      (match p1 with
                       | XH ->
                         (match l0 with
                          | [] -> None
                          | a :: l1 ->
                            (match l1 with
                             | [] -> None
                             | v :: l2 ->
                               (match l2 with
                                | [] ->
                                  obind (g_bytes a) (fun a0 ->
                                    obind (g_bytes v) (fun v0 -> Some (FLe
                                      (a0, v0))))
                                | _ :: _ -> None)))
                       | _ -> None)
                    | XO p1 ->
                      (match p1 with
                       | XI _ -> None
                       | XO p2 ->
                         (match p2 with
                          | XH ->
                            (match l0 with
                             | [] -> None
                             | a :: l1 ->
                               (match l1 with
                                | [] -> None
                                | v :: l2 ->
                                  (match l2 with
                                   | [] ->
                                     obind (g_bytes a) (fun a0 ->
                                       obind (g_bytes v) (fun v0 -> Some
                                         (FApprox (a0, v0))))
                                   | _ :: _ -> None)))
                          | _ -> None)
                       | XH ->
                         (match l0 with
                          | [] -> None
                          | a :: l1 ->
                            (match l1 with
                             | [] -> None
                             | i :: l2 ->
                               (match l2 with
                                | [] -> None
                                | any :: l3 ->
                                  (match l3 with
                                   | [] -> None
                                   | fin :: l4 ->
                                     (match l4 with
                                      | [] ->
                                        obind (g_bytes a) (fun a0 ->
                                          obind (g_obytes i) (fun i0 ->
                                            obind (g_list g_bytes any)
                                              (fun any0 ->
                                              obind (g_obytes fin)
                                                (fun fin0 -> Some (FSub (a0,
                                                i0, any0, fin0))))))
                                      | _ :: _ -> None))))))
                    | XH ->
                      (match l0 with
                       | [] -> None
                       | g :: l1 ->
                         (match l1 with
                          | [] ->
                            obind (g_filter fu g) (fun g0 -> Some (FNot g0))
                          | _ :: _ -> None)))
                 | XH ->
                   (match l0 with
                    | [] -> None
                    | s1 :: l1 ->
                      (match s1 with
                       | SList fs ->
                         (match l1 with
                          | [] ->
                            obind (g_all (g_filter fu) fs) (fun fs0 -> Some
                              (FOr fs0))
                          | _ :: _ -> None)
                       | _ -> None)))
              | Zneg _ -> None)
           | _ -> None))
     | _ -> None)

(** val filter_fuel : nat **)

let filter_fuel =
  mul (S (S (S (S (S (S (S (S (S (S (S (S (S (S (S (S (S (S (S (S (S (S (S (S
    (S (S (S (S (S (S (S (S (S (S (S (S (S (S (S (S (S (S (S (S (S (S (S (S
    (S (S O)))))))))))))))))))))))))))))))))))))))))))))))))) (S (S (S (S (S
    (S (S (S (S (S (S (S (S (S (S (S (S (S (S (S (S (S (S (S (S (S (S (S (S
    (S (S (S (S (S (S (S (S (S (S (S (S (S (S (S (S (S (S (S (S (S (S (S (S
    (S (S (S (S (S (S (S (S (S (S (S (S (S (S (S (S (S (S (S (S (S (S (S (S
    (S (S (S (S (S (S (S (S (S (S (S (S (S (S (S (S (S (S (S (S (S (S (S
    O))))))))))))))))))))))))))))))))))))))))))))))))))))))))))))))))))))))))))))))))))))))))))))))))))))

(** val s_result : ldap_result -> sexp **)

let s_result r =
  SList ((SInt r.r_code) :: ((SBytes r.r_matched) :: ((SBytes
    r.r_diag) :: ((s_opt (s_list (fun x -> SBytes x)) r.r_referrals) :: []))))

(** val g_result : sexp -> ldap_result option **)

let g_result = function
| SList l ->
  (match l with
   | [] -> None
   | c :: l0 ->
     (match l0 with
      | [] -> None
      | m :: l1 ->
        (match l1 with
         | [] -> None
         | d :: l2 ->
           (match l2 with
            | [] -> None
            | refs :: l3 ->
              (match l3 with
               | [] ->
                 obind (g_z c) (fun c0 ->
                   obind (g_bytes m) (fun m0 ->
                     obind (g_bytes d) (fun d0 ->
                       obind (g_opt (g_list g_bytes) refs) (fun refs0 -> Some
                         { r_code = c0; r_matched = m0; r_diag = d0;
                         r_referrals = refs0 }))))
               | _ :: _ -> None)))))
| _ -> None

(** val s_pa : partial_attr -> sexp **)

let s_pa a =
  SList ((SBytes a.pa_name) :: ((s_list (fun x -> SBytes x) a.pa_vals) :: []))

(** val g_pa : sexp -> partial_attr option **)

let g_pa = function
| SList l ->
  (match l with
   | [] -> None
   | n0 :: l0 ->
     (match l0 with
      | [] -> None
      | vs :: l1 ->
        (match l1 with
         | [] ->
           obind (g_bytes n0) (fun n1 ->
             obind (g_list g_bytes vs) (fun vs0 -> Some { pa_name = n1;
               pa_vals = vs0 }))
         | _ :: _ -> None)))
| _ -> None

(** val s_op : op -> sexp **)

let s_op = function
| BindRequest (v, n0, a) ->
  SList ((SInt Z0) :: ((SInt v) :: ((SBytes n0) :: ((s_cred a) :: []))))
| BindResponse (r, s) ->
  SList ((SInt (Zpos XH)) :: ((s_result r) :: ((s_obytes s) :: [])))
| UnbindRequest -> SList ((SInt (Zpos (XO XH))) :: [])
| SearchRequest (b, sc, de, sl0, tl0, ty, f, at_0) ->
  SList ((SInt (Zpos (XI XH))) :: ((SBytes b) :: ((SInt sc) :: ((SInt
    de) :: ((SInt sl0) :: ((SInt
    tl0) :: ((s_bool ty) :: ((s_filter f) :: ((s_list (fun x -> SBytes x)
                                                at_0) :: [])))))))))
| SearchResultEntry (n0, at_0) ->
  SList ((SInt (Zpos (XO (XO XH)))) :: ((SBytes
    n0) :: ((s_list s_pa at_0) :: [])))
| SearchResultDone r ->
  SList ((SInt (Zpos (XI (XO XH)))) :: ((s_result r) :: []))
| SearchResultReference us ->
  SList ((SInt (Zpos (XO (XI
    XH)))) :: ((s_list (fun x -> SBytes x) us) :: []))
| ExtendedRequest (n0, v) ->
  SList ((SInt (Zpos (XI (XI XH)))) :: ((SBytes n0) :: ((s_obytes v) :: [])))
| ExtendedResponse (r, n0, v) ->
  SList ((SInt (Zpos (XO (XO (XO
    XH))))) :: ((s_result r) :: ((s_obytes n0) :: ((s_obytes v) :: []))))

(** val g_op : sexp -> op option **)

let g_op = function
| SList l ->
  (match l with
   | [] -> None
   | s0 :: l0 ->
     (match s0 with
      | SInt z0 ->
        (match z0 with
         | Z0 ->
           (match l0 with
            | [] -> None
            | v :: l1 ->
              (match l1 with
               | [] -> None
               | n0 :: l2 ->
                 (match l2 with
                  | [] -> None
                  | a :: l3 ->
                    (match l3 with
                     | [] ->
                       obind (g_z v) (fun v0 ->
                         obind (g_bytes n0) (fun n1 ->
                           obind (g_cred a) (fun a0 -> Some (BindRequest (v0,
                             n1, a0)))))
                     | _ :: _ -> None))))
         | Zpos p ->
           (match p with
            | XI p0 ->
              (match p0 with
               | XI p1 ->
                 (match p1 with
                  | XH ->
                    (match l0 with
                     | [] -> None
                     | n0 :: l1 ->
                       (match l1 with
                        | [] -> None
                        | v :: l2 ->
                          (match l2 with
                           | [] ->
                             obind (g_bytes n0) (fun n1 ->
                               obind (g_obytes v) (fun v0 -> Some
                                 (ExtendedRequest (n1, v0))))
                           | _ :: _ -> None)))
                  | _ -> None)
               | XO p1 ->
                 (match p1 with
                  | XH ->
                    (match l0 with
                     | [] -> None
                     | r :: l1 ->
                       (match l1 with
                        | [] ->
                          obind (g_result r) (fun r0 -> Some
                            (SearchResultDone r0))
                        | _ :: _ -> None))
                  | _ -> None)
               | XH ->
                 (match l0 with
                  | [] -> None
                  | b :: l1 ->
                    (match l1 with
                     | [] -> None
                     | sc :: l2 ->
                       (match l2 with
                        | [] -> None
                        | de :: l3 ->
                          (match l3 with
                           | [] -> None
                           | sl0 :: l4 ->
                             (match l4 with
                              | [] -> None
                              | tl0 :: l5 ->
                                (match l5 with
                                 | [] -> None
                                 | ty :: l6 ->
                                   (match l6 with
                                    | [] -> None
                                    | f :: l7 ->
                                      (match l7 with
                                       | [] -> None
                                       | at_0 :: l8 ->
                                         (match l8 with
                                          | [] ->
                                            obind (g_bytes b) (fun b0 ->
                                              obind (g_z sc) (fun sc0 ->
                                                obind (g_z de) (fun de0 ->
                                                  obind (g_z sl0) (fun sl1 ->
                                                    obind (g_z tl0)
                                                      (fun tl1 ->
                                                      obind (g_bool ty)
                                                        (fun ty0 ->
                                                        obind
                                                          (g_filter
                                                            filter_fuel f)
                                                          (fun f0 ->
                                                          obind
                                                            (g_list g_bytes
                                                              at_0)
                                                            (fun at_1 -> Some
                                                            (SearchRequest
                                                            (b0, sc0, de0,
                                                            sl1, tl1, ty0,
                                                            f0, at_1))))))))))
                                          | _ :: _ -> None))))))))))
            | XO p0 ->
              (match p0 with
               | XI p1 ->
                 (match p1 with
                  | XH ->
                    (match l0 with
                     | [] -> None
                     | us :: l1 ->
                       (match l1 with
                        | [] ->
                          obind (g_list g_bytes us) (fun us0 -> Some
                            (SearchResultReference us0))
                        | _ :: _ -> None))
                  | _ -> None)
               | XO p1 ->
                 (match p1 with
                  | XI _ -> None
                  | XO p2 ->
                    (match p2 with
                     | XH ->
                       (match l0 with
                        | [] -> None
                        | r :: l1 ->
                          (match l1 with
                           | [] -> None
                           | n0 :: l2 ->
                             (match l2 with
                              | [] -> None
                              | v :: l3 ->
                                (match l3 with
                                 | [] ->
                                   obind (g_result r) (fun r0 ->
                                     obind (g_obytes n0) (fun n1 ->
                                       obind (g_obytes v) (fun v0 -> Some
                                         (ExtendedResponse (r0, n1, v0)))))
                                 | _ :: _ -> None))))
                     | _ -> None)
                  | XH ->
                    (match l0 with
                     | [] -> None
                     | n0 :: l1 ->
                       (match l1 with
                        | [] -> None
                        | at_0 :: l2 ->
                          (match l2 with
                           | [] ->
                             obind (g_bytes n0) (fun n1 ->
                               obind (g_list g_pa at_0) (fun at_1 -> Some
                                 (SearchResultEntry (n1, at_1))))
                           | _ :: _ -> None))))
               | XH ->
                 (match l0 with
                  | [] -> Some UnbindRequest
                  | _ :: _ -> None))
            | XH ->
              (match l0 with
               | [] -> None
               | r :: l1 ->
                 (match l1 with
                  | [] -> None
                  | sa :: l2 ->
                    (match l2 with
                     | [] ->
                       obind (g_result r) (fun r0 ->
                         obind (g_obytes sa) (fun sa0 -> Some (BindResponse
                           (r0, sa0))))
                     | _ :: _ -> None))))
         | Zneg _ -> None)
      | _ -> None))
| _ -> None

(** val s_msg : msg -> sexp **)

let s_msg m =
  SList ((SInt
    m.m_id) :: ((s_op m.m_op) :: ((s_controls m.m_controls) :: [])))

(** val g_msg : sexp -> msg option **)

let g_msg = function
| SList l ->
  (match l with
   | [] -> None
   | i :: l0 ->
     (match l0 with
      | [] -> None
      | o :: l1 ->
        (match l1 with
         | [] -> None
         | cs :: l2 ->
           (match l2 with
            | [] ->
              obind (g_z i) (fun i0 ->
                obind (g_op o) (fun o0 ->
                  obind (g_controls cs) (fun cs0 -> Some { m_id = i0; m_op =
                    o0; m_controls = cs0 })))
            | _ :: _ -> None))))
| _ -> None

(** val g_call : sexp -> call option **)

let g_call = function
| SList l ->
  (match l with
   | [] -> None
   | s0 :: l0 ->
     (match s0 with
      | SInt z0 ->
        (match z0 with
         | Z0 ->
           (match l0 with
            | [] -> None
            | n0 :: l1 ->
              (match l1 with
               | [] -> None
               | a :: l2 ->
                 (match l2 with
                  | [] -> None
                  | cs :: l3 ->
                    (match l3 with
                     | [] ->
                       obind (g_bytes n0) (fun n1 ->
                         obind (g_cred a) (fun a0 ->
                           obind (g_controls cs) (fun cs0 -> Some (CBind (n1,
                             a0, cs0)))))
                     | _ :: _ -> None))))
         | Zpos p ->
           (match p with
            | XI p0 ->
              (match p0 with
               | XI p1 ->
                 (match p1 with
                  | XH ->
                    (match l0 with
                     | [] -> None
                     | i :: l1 ->
                       (match l1 with
                        | [] -> None
                        | c :: l2 ->
                          (match l2 with
                           | [] -> None
                           | m :: l3 ->
                             (match l3 with
                              | [] -> None
                              | d :: l4 ->
                                (match l4 with
                                 | [] -> None
                                 | cs :: l5 ->
                                   (match l5 with
                                    | [] ->
                                      obind (g_z i) (fun i0 ->
                                        obind (g_z c) (fun c0 ->
                                          obind (g_bytes m) (fun m0 ->
                                            obind (g_bytes d) (fun d0 ->
                                              obind (g_controls cs)
                                                (fun cs0 -> Some (SDone (i0,
                                                c0, m0, d0, cs0)))))))
                                    | _ :: _ -> None))))))
                  | _ -> None)
               | XO p1 ->
                 (match p1 with
                  | XI _ -> None
                  | XO p2 ->
                    (match p2 with
                     | XH ->
                       (match l0 with
                        | [] -> None
                        | d :: l1 ->
                          (match l1 with
                           | [] ->
                             obind (g_bytes d) (fun d0 -> Some (Receive d0))
                           | _ :: _ -> None))
                     | _ -> None)
                  | XH ->
                    (match l0 with
                     | [] -> None
                     | i :: l1 ->
                       (match l1 with
                        | [] -> None
                        | n0 :: l2 ->
                          (match l2 with
                           | [] -> None
                           | at_0 :: l3 ->
                             (match l3 with
                              | [] -> None
                              | cs :: l4 ->
                                (match l4 with
                                 | [] ->
                                   obind (g_z i) (fun i0 ->
                                     obind (g_bytes n0) (fun n1 ->
                                       obind (g_list g_pa at_0) (fun at_1 ->
                                         obind (g_controls cs) (fun cs0 ->
                                           Some (SEntry (i0, n1, at_1, cs0))))))
                                 | _ :: _ -> None))))))
               | XH ->
                 (match l0 with
                  | [] -> None
                  | i :: l1 ->
                    (match l1 with
                     | [] -> None
                     | sa :: l2 ->
                       (match l2 with
                        | [] -> None
                        | c :: l3 ->
                          (match l3 with
                           | [] -> None
                           | m :: l4 ->
                             (match l4 with
                              | [] -> None
                              | d :: l5 ->
                                (match l5 with
                                 | [] -> None
                                 | cs :: l6 ->
                                   (match l6 with
                                    | [] ->
                                      obind (g_z i) (fun i0 ->
                                        obind (g_obytes sa) (fun sa0 ->
                                          obind (g_z c) (fun c0 ->
                                            obind (g_bytes m) (fun m0 ->
                                              obind (g_bytes d) (fun d0 ->
                                                obind (g_controls cs)
                                                  (fun cs0 -> Some
                                                  (SBindResponse (i0, sa0,
                                                  c0, m0, d0, cs0))))))))
                                    | _ :: _ -> None))))))))
            | XO p0 ->
              (match p0 with
               | XI p1 ->
                 (match p1 with
                  | XI _ -> None
                  | XO p2 ->
                    (match p2 with
                     | XH ->
                       (match l0 with
                        | [] -> None
                        | a :: l1 ->
                          (match l1 with
                           | [] ->
                             obind (g_opt g_z a) (fun a0 -> Some (Drain a0))
                           | _ :: _ -> None))
                     | _ -> None)
                  | XH ->
                    (match l0 with
                     | [] -> None
                     | i :: l1 ->
                       (match l1 with
                        | [] -> None
                        | us :: l2 ->
                          (match l2 with
                           | [] -> None
                           | cs :: l3 ->
                             (match l3 with
                              | [] ->
                                obind (g_z i) (fun i0 ->
                                  obind (g_list g_bytes us) (fun us0 ->
                                    obind (g_controls cs) (fun cs0 -> Some
                                      (SReference (i0, us0, cs0)))))
                              | _ :: _ -> None)))))
               | XO p1 ->
                 (match p1 with
                  | XI _ -> None
                  | XO p2 ->
                    (match p2 with
                     | XH ->
                       (match l0 with
                        | [] -> Some Unbind
                        | _ :: _ -> None)
                     | _ -> None)
                  | XH ->
                    (match l0 with
                     | [] -> None
                     | i :: l1 ->
                       (match l1 with
                        | [] -> None
                        | n0 :: l2 ->
                          (match l2 with
                           | [] -> None
                           | v :: l3 ->
                             (match l3 with
                              | [] -> None
                              | c :: l4 ->
                                (match l4 with
                                 | [] -> None
                                 | m :: l5 ->
                                   (match l5 with
                                    | [] -> None
                                    | d :: l6 ->
                                      (match l6 with
                                       | [] -> None
                                       | cs :: l7 ->
                                         (match l7 with
                                          | [] ->
                                            obind (g_z i) (fun i0 ->
                                              obind (g_obytes n0) (fun n1 ->
                                                obind (g_obytes v) (fun v0 ->
                                                  obind (g_z c) (fun c0 ->
                                                    obind (g_bytes m)
                                                      (fun m0 ->
                                                      obind (g_bytes d)
                                                        (fun d0 ->
                                                        obind (g_controls cs)
                                                          (fun cs0 -> Some
                                                          (SExtendedResponse
                                                          (i0, n1, v0, c0,
                                                          m0, d0, cs0)))))))))
                                          | _ :: _ -> None)))))))))
               | XH ->
                 (match l0 with
                  | [] -> None
                  | b :: l1 ->
                    (match l1 with
                     | [] -> None
                     | sc :: l2 ->
                       (match l2 with
                        | [] -> None
                        | de :: l3 ->
                          (match l3 with
                           | [] -> None
                           | sl0 :: l4 ->
                             (match l4 with
                              | [] -> None
                              | tl0 :: l5 ->
                                (match l5 with
                                 | [] -> None
                                 | ty :: l6 ->
                                   (match l6 with
                                    | [] -> None
                                    | f :: l7 ->
                                      (match l7 with
                                       | [] -> None
                                       | at_0 :: l8 ->
                                         (match l8 with
                                          | [] -> None
                                          | cs :: l9 ->
                                            (match l9 with
                                             | [] ->
                                               obind (g_bytes b) (fun b0 ->
                                                 obind (g_z sc) (fun sc0 ->
                                                   obind (g_z de) (fun de0 ->
                                                     obind (g_z sl0)
                                                       (fun sl1 ->
                                                       obind (g_z tl0)
                                                         (fun tl1 ->
                                                         obind (g_bool ty)
                                                           (fun ty0 ->
                                                           obind
                                                             (g_filter
                                                               filter_fuel f)
                                                             (fun f0 ->
                                                             obind
                                                               (g_list
                                                                 g_bytes at_0)
                                                               (fun at_1 ->
                                                               obind
                                                                 (g_controls
                                                                   cs)
                                                                 (fun cs0 ->
                                                                 Some
                                                                 (CSearch
                                                                 (b0, sc0,
                                                                 de0, sl1,
                                                                 tl1, ty0,
                                                                 f0, at_1,
                                                                 cs0)))))))))))
                                             | _ :: _ -> None)))))))))))
            | XH ->
              (match l0 with
               | [] -> None
               | n0 :: l1 ->
                 (match l1 with
                  | [] -> None
                  | v :: l2 ->
                    (match l2 with
                     | [] -> None
                     | cs :: l3 ->
                       (match l3 with
                        | [] ->
                          obind (g_bytes n0) (fun n1 ->
                            obind (g_obytes v) (fun v0 ->
                              obind (g_controls cs) (fun cs0 -> Some
                                (CExtended (n1, v0, cs0)))))
                        | _ :: _ -> None)))))
         | Zneg _ -> None)
      | _ -> None))
| _ -> None

(** val s_outcome : outcome -> sexp **)

let s_outcome = function
| ORetId i -> SList ((SInt Z0) :: ((SInt i) :: []))
| ORetNone -> SList ((SInt (Zpos XH)) :: [])
| ORetBytes b -> SList ((SInt (Zpos (XO XH))) :: ((SBytes b) :: []))
| ORetMsgs ms -> SList ((SInt (Zpos (XI XH))) :: ((s_list s_msg ms) :: []))
| OLdapErr -> SList ((SInt (Zpos (XO (XO XH)))) :: [])
| OProtoErr p ->
  SList ((SInt (Zpos (XI (XO XH)))) :: ((SInt
    (match p with
     | PNone -> Z0
     | PUnbind -> Zpos XH
     | PNotice -> Zpos (XO XH))) :: []))
| OOther e ->
  SList ((SInt (Zpos (XO (XI XH)))) :: ((SInt (err_code e)) :: []))

(** val zinsert : z -> z list -> z list **)

let rec zinsert x l = match l with
| [] -> x :: []
| y :: r -> if Z.leb x y then x :: l else y :: (zinsert x r)

(** val zsort : z list -> z list **)

let zsort l =
  fold_right zinsert [] l

(** val s_state_code : state -> z **)

let s_state_code = function
| BEFORE_OPEN -> Z0
| BINDING -> Zpos XH
| OPENED -> Zpos (XO XH)
| CLOSED -> Zpos (XI XH)

(** val s_snapshot : sess -> sexp **)

let s_snapshot s =
  SList ((SInt (s_state_code s.s_state)) :: ((SBytes
    s.s_out) :: ((s_list (fun x -> SInt x) (zsort s.s_outstanding)) :: (
    (s_list (fun x -> SInt x) (zsort s.s_searches)) :: ((SInt
    (match s.s_role with
     | Client -> s.s_counter
     | Server -> Z0)) :: ((SBytes s.s_in) :: []))))))

(** val budget : nat **)

let budget =
  S (S (S (S (S (S (S (S (S (S (S (S (S (S (S (S (S (S (S (S (S (S (S (S (S
    (S (S (S (S (S (S (S (S (S (S (S (S (S (S (S (S (S (S (S (S (S (S (S (S
    (S (S (S (S (S (S (S (S (S (S (S (S (S (S (S (S (S (S (S (S (S (S (S (S
    (S (S (S (S (S (S (S (S (S (S (S (S (S (S (S (S (S (S (S (S (S (S (S (S
    (S (S (S (S (S (S (S (S (S (S (S (S (S (S (S (S (S (S (S (S (S (S (S (S
    (S (S (S (S (S (S (S (S (S (S (S (S (S (S (S (S (S (S (S (S (S (S (S (S
    (S (S (S (S (S (S (S (S (S (S (S (S (S (S (S (S (S (S (S (S (S (S (S (S
    (S (S (S (S (S (S (S (S (S (S (S (S (S (S (S (S (S (S (S (S (S (S (S (S
    (S (S (S (S (S (S (S
    O)))))))))))))))))))))))))))))))))))))))))))))))))))))))))))))))))))))))))))))))))))))))))))))))))))))))))))))))))))))))))))))))))))))))))))))))))))))))))))))))))))))))))))))))))))))))))))))))))))))))

(** val run_trace : sess -> call list -> sexp list **)

let rec run_trace s = function
| [] -> []
| c :: rest ->
  let (s', o) = step budget s c in
  (SList ((s_outcome o) :: ((s_snapshot s') :: []))) :: (run_trace s' rest)

(** val g_rkind : sexp -> rkind option **)

let g_rkind = function
| SInt z0 ->
  (match z0 with
   | Z0 -> Some RControl
   | Zpos p ->
     (match p with
      | XI _ -> None
      | XO p0 -> (match p0 with
                  | XH -> Some RAuth
                  | _ -> None)
      | XH -> Some RFilter)
   | Zneg _ -> None)
| _ -> None

(** val g_rid : sexp -> rid option **)

let g_rid s =
  g_list g_n s

(** val g_regop : sexp -> ((rkind * rid) * n list) option **)

let g_regop = function
| SList l ->
  (match l with
   | [] -> None
   | k :: l0 ->
     (match l0 with
      | [] -> None
      | i :: l1 ->
        (match l1 with
         | [] -> None
         | c :: l2 ->
           (match l2 with
            | [] ->
              obind (g_rkind k) (fun k0 ->
                obind (g_rid i) (fun i0 ->
                  obind (g_list g_n c) (fun c0 -> Some ((k0, i0), c0))))
            | _ :: _ -> None))))
| _ -> None

(** val g_regq : sexp -> (rkind * rid) option **)

let g_regq = function
| SList l ->
  (match l with
   | [] -> None
   | k :: l0 ->
     (match l0 with
      | [] -> None
      | i :: l1 ->
        (match l1 with
         | [] ->
           obind (g_rkind k) (fun k0 ->
             obind (g_rid i) (fun i0 -> Some (k0, i0)))
         | _ :: _ -> None)))
| _ -> None

(** val run_msg : z -> sexp list -> sexp option **)

let run_msg cmd args =
  match cmd with
  | Zpos p ->
    (match p with
     | XI p0 ->
       (match p0 with
        | XI p1 ->
          (match p1 with
           | XI p2 ->
             (match p2 with
              | XO p3 ->
                (match p3 with
                 | XO p4 ->
                   (match p4 with
                    | XI p5 ->
                      (match p5 with
                       | XH ->
                         (match args with
                          | [] -> None
                          | d :: l ->
                            (match l with
                             | [] ->
                               obind (g_bytes d) (fun d0 -> Some
                                 (s_opt s_msg (strict_decode d0)))
                             | _ :: _ -> None))
                       | _ -> None)
                    | _ -> None)
                 | _ -> None)
              | _ -> None)
           | _ -> None)
        | XO p1 ->
          (match p1 with
           | XI p2 ->
             (match p2 with
              | XO p3 ->
                (match p3 with
                 | XO p4 ->
                   (match p4 with
                    | XI p5 ->
                      (match p5 with
                       | XH ->
                         (match args with
                          | [] -> None
                          | d :: l ->
                            (match l with
                             | [] ->
                               obind (g_bytes d) (fun d0 -> Some
                                 (s_res (s_pair s_msg (fun x -> SBytes x))
                                   (unpack_message budget d0)))
                             | _ :: _ -> None))
                       | _ -> None)
                    | _ -> None)
                 | _ -> None)
              | _ -> None)
           | _ -> None)
        | XH -> None)
     | XO p0 ->
       (match p0 with
        | XI p1 ->
          (match p1 with
           | XI p2 ->
             (match p2 with
              | XI p3 ->
                (match p3 with
                 | XO p4 ->
                   (match p4 with
                    | XI p5 ->
                      (match p5 with
                       | XH ->
                         (match args with
                          | [] -> None
                          | s :: l ->
                            (match s with
                             | SInt r ->
                               (match l with
                                | [] -> None
                                | cs :: l0 ->
                                  (match l0 with
                                   | [] ->
                                     obind (g_list g_call cs) (fun cs0 ->
                                       Some (SList
                                       (run_trace
                                         (init
                                           (if Z.eqb r Z0
                                            then Client
                                            else Server)) cs0)))
                                   | _ :: _ -> None))
                             | _ -> None))
                       | _ -> None)
                    | _ -> None)
                 | _ -> None)
              | XO p3 ->
                (match p3 with
                 | XI p4 ->
                   (match p4 with
                    | XO p5 ->
                      (match p5 with
                       | XO p6 ->
                         (match p6 with
                          | XH ->
                            (match args with
                             | [] -> None
                             | ops :: l ->
                               (match l with
                                | [] -> None
                                | qs :: l0 ->
                                  (match l0 with
                                   | [] ->
                                     obind (g_list g_regop ops) (fun ops0 ->
                                       obind (g_list g_regq qs) (fun qs0 ->
                                         let (os, r) = reg_run ops0 reg_init
                                         in
                                         Some (SList ((SList
                                         (map s_bool os)) :: ((SList
                                         (map (fun q ->
                                           s_opt (fun c -> SList (map s_n c))
                                             (reg_decodes (fst q) (snd q) r))
                                           qs0)) :: [])))))
                                   | _ :: _ -> None)))
                          | _ -> None)
                       | _ -> None)
                    | _ -> None)
                 | XO p4 ->
                   (match p4 with
                    | XI p5 ->
                      (match p5 with
                       | XH ->
                         (match args with
                          | [] -> None
                          | m :: l ->
                            (match l with
                             | [] -> None
                             | rest :: l0 ->
                               (match l0 with
                                | [] ->
                                  obind (g_msg m) (fun m0 ->
                                    obind (g_bytes rest) (fun rest0 ->
                                      let b = enc_msg m0 in
                                      Some (SList ((SBytes
                                      b) :: ((s_res
                                               (s_pair s_msg (fun x -> SBytes
                                                 x))
                                               (unpack_message budget
                                                 (app b rest0))) :: [])))))
                                | _ :: _ -> None)))
                       | _ -> None)
                    | _ -> None)
                 | XH -> None)
              | XH -> None)
           | _ -> None)
        | XO p1 ->
          (match p1 with
           | XI p2 ->
             (match p2 with
              | XO p3 ->
                (match p3 with
                 | XO p4 ->
                   (match p4 with
                    | XI p5 ->
                      (match p5 with
                       | XH ->
                         (match args with
                          | [] -> None
                          | m :: l ->
                            (match l with
                             | [] ->
                               obind (g_msg m) (fun m0 -> Some (SBytes
                                 (enc_msg m0)))
                             | _ :: _ -> None))
                       | _ -> None)
                    | _ -> None)
                 | _ -> None)
              | _ -> None)
           | _ -> None)
        | XH -> None)
     | XH -> None)
  | _ -> None

(** val s_fres : ('a1 -> sexp) -> 'a1 fres -> sexp **)

let s_fres f = function
| FOk a -> SList ((SInt Z0) :: ((f a) :: []))
| FErr e ->
  (match e with
   | FSyn (o, l) -> SList ((SInt (Zpos XH)) :: ((SInt o) :: ((SInt l) :: [])))
   | FCrash k ->
     SList ((SInt (Zpos (XO XH))) :: ((SInt (crash_code k)) :: [])))

(** val text_budget : nat **)

let text_budget =
  S (S (S (S (S (S (S (S (S (S (S (S (S (S (S (S (S (S (S (S (S (S (S (S (S
    (S (S (S (S (S (S (S (S (S (S (S (S (S (S (S (S (S (S (S (S (S (S (S (S
    (S (S (S (S (S (S (S (S (S (S (S (S (S (S (S (S (S (S (S (S (S (S (S (S
    (S (S (S (S (S (S (S (S (S (S (S (S (S (S (S (S (S (S (S (S (S (S (S (S
    (S (S (S (S (S (S (S (S (S (S (S (S (S (S (S (S (S (S (S (S (S (S (S (S
    (S (S (S (S (S (S (S (S (S (S (S (S (S (S (S (S (S (S (S (S (S (S (S (S
    (S (S (S (S (S (S (S (S (S (S (S (S (S (S (S (S (S (S (S (S (S (S (S (S
    (S (S (S (S (S (S (S (S (S (S (S (S (S (S (S (S (S (S (S (S (S (S (S (S
    (S (S (S (S (S (S (S (S (S (S (S (S (S (S (S (S (S (S (S (S (S (S (S (S
    (S (S (S (S (S (S (S (S (S (S (S (S (S (S (S (S (S (S (S (S (S (S (S (S
    (S (S (S (S (S (S (S (S (S (S (S (S (S (S (S (S (S (S (S (S (S (S (S (S
    (S (S (S (S (S (S (S (S (S (S (S (S (S (S (S (S (S (S (S (S (S (S (S (S
    (S (S (S (S (S (S (S (S (S (S (S (S (S (S (S (S (S (S (S (S (S (S (S (S
    (S (S (S (S (S (S (S (S (S (S (S (S (S (S (S (S (S (S (S (S (S (S (S (S
    (S (S (S (S (S (S (S (S (S (S (S (S (S (S (S (S (S (S (S (S (S (S (S (S
    (S (S (S (S (S (S (S (S (S (S (S (S (S (S (S (S (S (S (S (S (S (S (S (S
    (S (S (S (S (S (S (S (S (S (S (S (S (S (S (S (S (S (S (S (S (S (S (S (S
    (S (S (S (S (S (S (S (S (S (S (S (S (S (S (S (S (S (S (S (S (S (S (S (S
    (S (S (S (S (S (S (S (S (S (S (S (S (S (S (S (S (S (S (S (S (S (S (S (S
    (S (S (S (S (S (S (S (S (S (S (S (S (S (S (S (S (S (S (S (S (S (S (S (S
    (S (S (S (S (S (S (S (S (S (S (S (S (S (S (S (S (S (S (S (S (S (S (S (S
    (S (S (S (S (S (S (S (S (S (S (S (S (S (S (S (S (S (S (S (S (S (S (S (S
    (S (S (S (S (S (S (S (S (S (S (S (S (S (S (S (S (S (S (S (S (S (S (S (S
    (S (S (S (S (S (S (S (S (S (S (S (S (S (S (S (S (S (S (S (S (S (S (S (S
    (S (S (S (S (S (S (S (S (S (S (S (S (S (S (S (S (S (S (S (S (S (S (S
    O)))))))))))))))))))))))))))))))))))))))))))))))))))))))))))))))))))))))))))))))))))))))))))))))))))))))))))))))))))))))))))))))))))))))))))))))))))))))))))))))))))))))))))))))))))))))))))))))))))))))))))))))))))))))))))))))))))))))))))))))))))))))))))))))))))))))))))))))))))))))))))))))))))))))))))))))))))))))))))))))))))))))))))))))))))))))))))))))))))))))))))))))))))))))))))))))))))))))))))))))))))))))))))))))))))))))))))))))))))))))))))))))))))))))))))))))))))))))))))))))))))))))))))))))))))))))))))))))))))))))))))))))))))))))))))))))))))))))))))))))))))))))))))))))))))))))))))))))))))))))

(** val run_text : z -> sexp list -> sexp option **)

let run_text cmd args =
  match cmd with
  | Zpos p ->
    (match p with
     | XI p0 ->
       (match p0 with
        | XI p1 ->
          (match p1 with
           | XO p2 ->
             (match p2 with
              | XI p3 ->
                (match p3 with
                 | XO p4 ->
                   (match p4 with
                    | XO p5 ->
                      (match p5 with
                       | XI p6 ->
                         (match p6 with
                          | XH ->
                            (match args with
                             | [] -> None
                             | b :: l ->
                               (match l with
                                | [] ->
                                  obind (g_bytes b) (fun b0 -> Some
                                    (s_fres s_filter
                                      (from_bytes text_budget b0)))
                                | _ :: _ -> None))
                          | _ -> None)
                       | _ -> None)
                    | _ -> None)
                 | _ -> None)
              | _ -> None)
           | _ -> None)
        | XO p1 ->
          (match p1 with
           | XO p2 ->
             (match p2 with
              | XI p3 ->
                (match p3 with
                 | XO p4 ->
                   (match p4 with
                    | XO p5 ->
                      (match p5 with
                       | XI p6 ->
                         (match p6 with
                          | XH ->
                            (match args with
                             | [] -> None
                             | s :: l ->
                               (match l with
                                | [] ->
                                  obind (g_list g_n s) (fun s0 -> Some
                                    (s_fres s_filter
                                      (from_string text_budget s0)))
                                | _ :: _ -> None))
                          | _ -> None)
                       | _ -> None)
                    | _ -> None)
                 | _ -> None)
              | _ -> None)
           | _ -> None)
        | XH -> None)
     | XO p0 ->
       (match p0 with
        | XI p1 ->
          (match p1 with
           | XO p2 ->
             (match p2 with
              | XI p3 ->
                (match p3 with
                 | XO p4 ->
                   (match p4 with
                    | XO p5 ->
                      (match p5 with
                       | XI p6 ->
                         (match p6 with
                          | XH ->
                            (match args with
                             | [] -> None
                             | f :: l ->
                               (match l with
                                | [] ->
                                  obind (g_filter filter_fuel f) (fun f0 ->
                                    let t = print_filter f0 in
                                    Some (SList ((SBytes
                                    t) :: ((s_fres s_filter
                                             (from_bytes text_budget t)) :: []))))
                                | _ :: _ -> None))
                          | _ -> None)
                       | _ -> None)
                    | _ -> None)
                 | _ -> None)
              | _ -> None)
           | _ -> None)
        | XO p1 ->
          (match p1 with
           | XO p2 ->
             (match p2 with
              | XI p3 ->
                (match p3 with
                 | XO p4 ->
                   (match p4 with
                    | XO p5 ->
                      (match p5 with
                       | XI p6 ->
                         (match p6 with
                          | XH ->
                            (match args with
                             | [] -> None
                             | f :: l ->
                               (match l with
                                | [] ->
                                  obind (g_filter filter_fuel f) (fun f0 ->
                                    Some (SBytes (print_filter f0)))
                                | _ :: _ -> None))
                          | _ -> None)
                       | _ -> None)
                    | _ -> None)
                 | _ -> None)
              | _ -> None)
           | _ -> None)
        | XH -> None)
     | XH -> None)
  | _ -> None

(** val s_ustr : ustr -> sexp **)

let s_ustr s =
  SList (map s_n s)

(** val g_ustr : sexp -> ustr option **)

let g_ustr s =
  g_list g_n s

(** val s_ulist : ustr list -> sexp **)

let s_ulist =
  s_list s_ustr

(** val g_ulist : sexp -> ustr list option **)

let g_ulist =
  g_list g_ustr

(** val s_ext : (ustr * ustr list) list -> sexp **)

let s_ext e =
  s_list (s_pair s_ustr s_ulist) e

(** val g_ext : sexp -> (ustr * ustr list) list option **)

let g_ext s =
  g_list (fun p ->
    match p with
    | SList l ->
      (match l with
       | [] -> None
       | k :: l0 ->
         (match l0 with
          | [] -> None
          | v :: l1 ->
            (match l1 with
             | [] ->
               obind (g_ustr k) (fun k0 ->
                 obind (g_ulist v) (fun v0 -> Some (k0, v0)))
             | _ :: _ -> None)))
    | _ -> None) s

(** val s_oc : objclass -> sexp **)

let s_oc o =
  SList
    ((s_ustr o.oc_oid) :: ((s_ulist o.oc_names) :: ((s_opt s_ustr o.oc_desc) :: (
    (s_bool o.oc_obsolete) :: ((s_ulist o.oc_sup) :: ((s_n o.oc_kind) :: (
    (s_ulist o.oc_must) :: ((s_ulist o.oc_may) :: ((s_ext o.oc_ext) :: [])))))))))

(** val g_oc : sexp -> objclass option **)

let g_oc = function
| SList l ->
  (match l with
   | [] -> None
   | a :: l0 ->
     (match l0 with
      | [] -> None
      | b :: l1 ->
        (match l1 with
         | [] -> None
         | c :: l2 ->
           (match l2 with
            | [] -> None
            | d :: l3 ->
              (match l3 with
               | [] -> None
               | e :: l4 ->
                 (match l4 with
                  | [] -> None
                  | f :: l5 ->
                    (match l5 with
                     | [] -> None
                     | g :: l6 ->
                       (match l6 with
                        | [] -> None
                        | h :: l7 ->
                          (match l7 with
                           | [] -> None
                           | i :: l8 ->
                             (match l8 with
                              | [] ->
                                obind (g_ustr a) (fun a0 ->
                                  obind (g_ulist b) (fun b0 ->
                                    obind (g_opt g_ustr c) (fun c0 ->
                                      obind (g_bool d) (fun d0 ->
                                        obind (g_ulist e) (fun e0 ->
                                          obind (g_n f) (fun f0 ->
                                            obind (g_ulist g) (fun g0 ->
                                              obind (g_ulist h) (fun h0 ->
                                                obind (g_ext i) (fun i0 ->
                                                  Some { oc_oid = a0;
                                                  oc_names = b0; oc_desc =
                                                  c0; oc_obsolete = d0;
                                                  oc_sup = e0; oc_kind = f0;
                                                  oc_must = g0; oc_may = h0;
                                                  oc_ext = i0 })))))))))
                              | _ :: _ -> None))))))))))
| _ -> None

(** val s_at : attrtype -> sexp **)

let s_at o =
  SList
    ((s_ustr o.at_oid) :: ((s_ulist o.at_names) :: ((s_opt s_ustr o.at_desc) :: (
    (s_bool o.at_obsolete) :: ((s_opt s_ustr o.at_sup) :: ((s_opt s_ustr
                                                             o.at_equality) :: (
    (s_opt s_ustr o.at_ordering) :: ((s_opt s_ustr o.at_substr) :: ((s_opt
                                                                    s_ustr
                                                                    o.at_syntax) :: (
    (s_opt (fun x -> SInt x) o.at_syntax_len) :: ((s_bool o.at_single) :: (
    (s_bool o.at_collective) :: ((s_bool o.at_no_user_mod) :: ((s_n
                                                                 o.at_usage) :: (
    (s_ext o.at_ext) :: [])))))))))))))))

(** val g_at : sexp -> attrtype option **)

let g_at = function
| SList l0 ->
  (match l0 with
   | [] -> None
   | a :: l1 ->
     (match l1 with
      | [] -> None
      | b :: l2 ->
        (match l2 with
         | [] -> None
         | c :: l3 ->
           (match l3 with
            | [] -> None
            | d :: l4 ->
              (match l4 with
               | [] -> None
               | e :: l5 ->
                 (match l5 with
                  | [] -> None
                  | f :: l6 ->
                    (match l6 with
                     | [] -> None
                     | g :: l7 ->
                       (match l7 with
                        | [] -> None
                        | h :: l8 ->
                          (match l8 with
                           | [] -> None
                           | i :: l9 ->
                             (match l9 with
                              | [] -> None
                              | j :: l10 ->
                                (match l10 with
                                 | [] -> None
                                 | k :: l11 ->
                                   (match l11 with
                                    | [] -> None
                                    | l :: l12 ->
                                      (match l12 with
                                       | [] -> None
                                       | m :: l13 ->
                                         (match l13 with
                                          | [] -> None
                                          | n0 :: l14 ->
                                            (match l14 with
                                             | [] -> None
                                             | o :: l15 ->
                                               (match l15 with
                                                | [] ->
                                                  obind (g_ustr a) (fun a0 ->
                                                    obind (g_ulist b)
                                                      (fun b0 ->
                                                      obind (g_opt g_ustr c)
                                                        (fun c0 ->
                                                        obind (g_bool d)
                                                          (fun d0 ->
                                                          obind
                                                            (g_opt g_ustr e)
                                                            (fun e0 ->
                                                            obind
                                                              (g_opt g_ustr f)
                                                              (fun f0 ->
                                                              obind
                                                                (g_opt g_ustr
                                                                  g)
                                                                (fun g0 ->
                                                                obind
                                                                  (g_opt
                                                                    g_ustr h)
                                                                  (fun h0 ->
                                                                  obind
                                                                    (g_opt
                                                                    g_ustr i)
                                                                    (fun i0 ->
                                                                    obind
                                                                    (g_opt
                                                                    g_z j)
                                                                    (fun j0 ->
                                                                    obind
                                                                    (g_bool k)
                                                                    (fun k0 ->
                                                                    obind
                                                                    (g_bool l)
                                                                    (fun l16 ->
                                                                    obind
                                                                    (g_bool m)
                                                                    (fun m0 ->
                                                                    obind
                                                                    (g_n n0)
                                                                    (fun n1 ->
                                                                    obind
                                                                    (g_ext o)
                                                                    (fun o0 ->
                                                                    Some
                                                                    { at_oid =
                                                                    a0;
                                                                    at_names =
                                                                    b0;
                                                                    at_desc =
                                                                    c0;
                                                                    at_obsolete =
                                                                    d0;
                                                                    at_sup =
                                                                    e0;
                                                                    at_equality =
                                                                    f0;
                                                                    at_ordering =
                                                                    g0;
                                                                    at_substr =
                                                                    h0;
                                                                    at_syntax =
                                                                    i0;
                                                                    at_syntax_len =
                                                                    j0;
                                                                    at_single =
                                                                    k0;
                                                                    at_collective =
                                                                    l16;
                                                                    at_no_user_mod =
                                                                    m0;
                                                                    at_usage =
                                                                    n1;
                                                                    at_ext =
                                                                    o0 })))))))))))))))
                                                | _ :: _ -> None))))))))))))))))
| _ -> None

(** val s_dcr : ditrule -> sexp **)

let s_dcr o =
  SList
    ((s_ustr o.dc_oid) :: ((s_ulist o.dc_names) :: ((s_opt s_ustr o.dc_desc) :: (
    (s_bool o.dc_obsolete) :: ((s_ulist o.dc_aux) :: ((s_ulist o.dc_must) :: (
    (s_ulist o.dc_may) :: ((s_ulist o.dc_not) :: ((s_ext o.dc_ext) :: [])))))))))

(** val g_dcr : sexp -> ditrule option **)

let g_dcr = function
| SList l ->
  (match l with
   | [] -> None
   | a :: l0 ->
     (match l0 with
      | [] -> None
      | b :: l1 ->
        (match l1 with
         | [] -> None
         | c :: l2 ->
           (match l2 with
            | [] -> None
            | d :: l3 ->
              (match l3 with
               | [] -> None
               | e :: l4 ->
                 (match l4 with
                  | [] -> None
                  | f :: l5 ->
                    (match l5 with
                     | [] -> None
                     | g :: l6 ->
                       (match l6 with
                        | [] -> None
                        | h :: l7 ->
                          (match l7 with
                           | [] -> None
                           | i :: l8 ->
                             (match l8 with
                              | [] ->
                                obind (g_ustr a) (fun a0 ->
                                  obind (g_ulist b) (fun b0 ->
                                    obind (g_opt g_ustr c) (fun c0 ->
                                      obind (g_bool d) (fun d0 ->
                                        obind (g_ulist e) (fun e0 ->
                                          obind (g_ulist f) (fun f0 ->
                                            obind (g_ulist g) (fun g0 ->
                                              obind (g_ulist h) (fun h0 ->
                                                obind (g_ext i) (fun i0 ->
                                                  Some { dc_oid = a0;
                                                  dc_names = b0; dc_desc =
                                                  c0; dc_obsolete = d0;
                                                  dc_aux = e0; dc_must = f0;
                                                  dc_may = g0; dc_not = h0;
                                                  dc_ext = i0 })))))))))
                              | _ :: _ -> None))))))))))
| _ -> None

(** val chain : ('a1 -> sexp) -> ustr res -> (ustr -> 'a1 res) -> sexp **)

let chain sa p parse =
  SList
    ((s_res s_ustr p) :: ((match p with
                           | Ok t -> s_res sa (parse t)
                           | Raise _ -> SList []) :: []))

(** val run_schema : z -> sexp list -> sexp option **)

let run_schema cmd args =
  match cmd with
  | Zpos p ->
    (match p with
     | XI p0 ->
       (match p0 with
        | XI p1 ->
          (match p1 with
           | XI p2 ->
             (match p2 with
              | XO p3 ->
                (match p3 with
                 | XI p4 ->
                   (match p4 with
                    | XI p5 ->
                      (match p5 with
                       | XO p6 ->
                         (match p6 with
                          | XO p7 ->
                            (match p7 with
                             | XH ->
                               (match args with
                                | [] -> None
                                | o :: l ->
                                  (match l with
                                   | [] ->
                                     obind (g_at o) (fun o0 -> Some
                                       (chain s_at (at_print o0)
                                         at_from_string))
                                   | _ :: _ -> None))
                             | _ -> None)
                          | _ -> None)
                       | _ -> None)
                    | _ -> None)
                 | _ -> None)
              | _ -> None)
           | _ -> None)
        | XO p1 ->
          (match p1 with
           | XI p2 ->
             (match p2 with
              | XI p3 ->
                (match p3 with
                 | XO p4 ->
                   (match p4 with
                    | XI p5 ->
                      (match p5 with
                       | XO p6 ->
                         (match p6 with
                          | XO p7 ->
                            (match p7 with
                             | XH ->
                               (match args with
                                | [] -> None
                                | t :: l ->
                                  (match l with
                                   | [] ->
                                     obind (g_ustr t) (fun t0 -> Some
                                       (s_res s_at (at_from_string t0)))
                                   | _ :: _ -> None))
                             | _ -> None)
                          | _ -> None)
                       | _ -> None)
                    | _ -> None)
                 | _ -> None)
              | _ -> None)
           | _ -> None)
        | XH -> None)
     | XO p0 ->
       (match p0 with
        | XI p1 ->
          (match p1 with
           | XI p2 ->
             (match p2 with
              | XI p3 ->
                (match p3 with
                 | XO p4 ->
                   (match p4 with
                    | XI p5 ->
                      (match p5 with
                       | XO p6 ->
                         (match p6 with
                          | XO p7 ->
                            (match p7 with
                             | XH ->
                               (match args with
                                | [] -> None
                                | t :: l ->
                                  (match l with
                                   | [] ->
                                     obind (g_ustr t) (fun t0 -> Some
                                       (s_res s_dcr (dcr_from_string t0)))
                                   | _ :: _ -> None))
                             | _ -> None)
                          | _ -> None)
                       | _ -> None)
                    | _ -> None)
                 | _ -> None)
              | XO p3 ->
                (match p3 with
                 | XI p4 ->
                   (match p4 with
                    | XI p5 ->
                      (match p5 with
                       | XO p6 ->
                         (match p6 with
                          | XO p7 ->
                            (match p7 with
                             | XH ->
                               (match args with
                                | [] -> None
                                | o :: l ->
                                  (match l with
                                   | [] ->
                                     obind (g_oc o) (fun o0 -> Some
                                       (chain s_oc (oc_print o0)
                                         oc_from_string))
                                   | _ :: _ -> None))
                             | _ -> None)
                          | _ -> None)
                       | _ -> None)
                    | _ -> None)
                 | _ -> None)
              | XH -> None)
           | _ -> None)
        | XO p1 ->
          (match p1 with
           | XI p2 ->
             (match p2 with
              | XI p3 ->
                (match p3 with
                 | XO p4 ->
                   (match p4 with
                    | XI p5 ->
                      (match p5 with
                       | XO p6 ->
                         (match p6 with
                          | XO p7 ->
                            (match p7 with
                             | XH ->
                               (match args with
                                | [] -> None
                                | t :: l ->
                                  (match l with
                                   | [] ->
                                     obind (g_ustr t) (fun t0 -> Some
                                       (s_res s_oc (oc_from_string t0)))
                                   | _ :: _ -> None))
                             | _ -> None)
                          | _ -> None)
                       | _ -> None)
                    | _ -> None)
                 | _ -> None)
              | _ -> None)
           | XO p2 ->
             (match p2 with
              | XI p3 ->
                (match p3 with
                 | XI p4 ->
                   (match p4 with
                    | XI p5 ->
                      (match p5 with
                       | XO p6 ->
                         (match p6 with
                          | XO p7 ->
                            (match p7 with
                             | XH ->
                               (match args with
                                | [] -> None
                                | o :: l ->
                                  (match l with
                                   | [] ->
                                     obind (g_dcr o) (fun o0 -> Some
                                       (chain s_dcr (dcr_print o0)
                                         dcr_from_string))
                                   | _ :: _ -> None))
                             | _ -> None)
                          | _ -> None)
                       | _ -> None)
                    | _ -> None)
                 | _ -> None)
              | _ -> None)
           | XH -> None)
        | XH -> None)
     | XH -> None)
  | _ -> None

(** val g_tag : sexp -> tag option **)

let g_tag = function
| SList l ->
  (match l with
   | [] -> None
   | c :: l0 ->
     (match l0 with
      | [] -> None
      | n0 :: l1 ->
        (match l1 with
         | [] -> None
         | k :: l2 ->
           (match l2 with
            | [] ->
              obind (g_n c) (fun c0 ->
                obind (g_n n0) (fun n1 ->
                  obind (g_bool k) (fun k0 -> Some { t_cls = c0; t_num = n1;
                    t_cons = k0 })))
            | _ :: _ -> None))))
| _ -> None

(** val s_tag : tag -> sexp **)

let s_tag t =
  SList ((s_n t.t_cls) :: ((s_n t.t_num) :: ((s_bool t.t_cons) :: [])))

(** val s_hdr : header -> sexp **)

let s_hdr h =
  SList ((s_tag h.h_tag) :: ((s_n h.h_hlen) :: ((s_n h.h_len) :: [])))

(** val g_tree : nat -> sexp -> tree option **)

let rec g_tree fuel s =
  match fuel with
  | O -> None
  | S f ->
    (match s with
     | SList l ->
       (match l with
        | [] -> None
        | s0 :: l0 ->
          (match s0 with
           | SInt z0 ->
             (match z0 with
              | Zpos p ->
                (match p with
                 | XI p0 ->
                   (match p0 with
                    | XI _ -> None
                    | XO p1 ->
                      (match p1 with
                       | XH ->
                         (match l0 with
                          | [] -> None
                          | t :: l1 ->
                            (match l1 with
                             | [] -> None
                             | s1 :: l2 ->
                               (match s1 with
                                | SList ks ->
                                  (match l2 with
                                   | [] ->
                                     obind (g_opt g_tag t) (fun t0 ->
                                       obind (g_all (g_tree f) ks)
                                         (fun ks0 -> Some (TSeq (t0, ks0))))
                                   | _ :: _ -> None)
                                | _ -> None)))
                       | _ -> None)
                    | XH ->
                      (match l0 with
                       | [] -> None
                       | t :: l1 ->
                         (match l1 with
                          | [] -> None
                          | v :: l2 ->
                            (match l2 with
                             | [] ->
                               obind (g_opt g_tag t) (fun t0 ->
                                 obind (g_bool v) (fun v0 -> Some (TBool (t0,
                                   v0))))
                             | _ :: _ -> None))))
                 | XO p0 ->
                   (match p0 with
                    | XI p1 ->
                      (match p1 with
                       | XH ->
                         (match l0 with
                          | [] -> None
                          | t :: l1 ->
                            (match l1 with
                             | [] -> None
                             | s1 :: l2 ->
                               (match s1 with
                                | SList ks ->
                                  (match l2 with
                                   | [] ->
                                     obind (g_opt g_tag t) (fun t0 ->
                                       obind (g_all (g_tree f) ks)
                                         (fun ks0 -> Some (TSet (t0, ks0))))
                                   | _ :: _ -> None)
                                | _ -> None)))
                       | _ -> None)
                    | XO p1 ->
                      (match p1 with
                       | XH ->
                         (match l0 with
                          | [] -> None
                          | t :: l1 ->
                            (match l1 with
                             | [] -> None
                             | v :: l2 ->
                               (match l2 with
                                | [] ->
                                  obind (g_opt g_tag t) (fun t0 ->
                                    obind (g_bytes v) (fun v0 -> Some (TOct
                                      (t0, v0))))
                                | _ :: _ -> None)))
                       | _ -> None)
                    | XH ->
                      (match l0 with
                       | [] -> None
                       | t :: l1 ->
                         (match l1 with
                          | [] -> None
                          | v :: l2 ->
                            (match l2 with
                             | [] ->
                               obind (g_opt g_tag t) (fun t0 ->
                                 obind (g_z v) (fun v0 -> Some (TEnum (t0,
                                   v0))))
                             | _ :: _ -> None))))
                 | XH ->
                   (match l0 with
                    | [] -> None
                    | t :: l1 ->
                      (match l1 with
                       | [] -> None
                       | v :: l2 ->
                         (match l2 with
                          | [] ->
                            obind (g_opt g_tag t) (fun t0 ->
                              obind (g_z v) (fun v0 -> Some (TInt (t0, v0))))
                          | _ :: _ -> None))))
              | _ -> None)
           | _ -> None))
     | _ -> None)

(** val s_tree : tree -> sexp **)

let rec s_tree = function
| TInt (t, v) ->
  SList ((SInt (Zpos XH)) :: ((s_opt s_tag t) :: ((SInt v) :: [])))
| TEnum (t, v) ->
  SList ((SInt (Zpos (XO XH))) :: ((s_opt s_tag t) :: ((SInt v) :: [])))
| TBool (t, v) ->
  SList ((SInt (Zpos (XI XH))) :: ((s_opt s_tag t) :: ((s_bool v) :: [])))
| TOct (t, v) ->
  SList ((SInt (Zpos (XO (XO XH)))) :: ((s_opt s_tag t) :: ((SBytes
    v) :: [])))
| TSeq (t, ks) ->
  SList ((SInt (Zpos (XI (XO XH)))) :: ((s_opt s_tag t) :: ((SList
    (map s_tree ks)) :: [])))
| TSet (t, ks) ->
  SList ((SInt (Zpos (XO (XI XH)))) :: ((s_opt s_tag t) :: ((SList
    (map s_tree ks)) :: [])))

(** val bad : sexp **)

let bad =
  SList ((SInt (Zpos (XO XH))) :: [])

(** val or_bad : sexp option -> sexp **)

let or_bad = function
| Some s -> s
| None -> bad

(** val run_asn1 : z -> sexp list -> sexp option **)

let run_asn1 cmd args =
  match cmd with
  | Zpos p ->
    (match p with
     | XI p0 ->
       (match p0 with
        | XI p1 ->
          (match p1 with
           | XI p2 ->
             (match p2 with
              | XI p3 ->
                (match p3 with
                 | XH ->
                   (match args with
                    | [] -> None
                    | t :: l ->
                      (match l with
                       | [] -> None
                       | d :: l0 ->
                         (match l0 with
                          | [] -> None
                          | rest :: l1 ->
                            (match l1 with
                             | [] ->
                               obind (g_opt g_tag t) (fun t0 ->
                                 obind (g_bytes d) (fun d0 ->
                                   obind (g_bytes rest) (fun rest0 ->
                                     let w = pack_octet_string t0 d0 in
                                     Some (SList
                                     ((s_res (fun x -> SBytes x) w) :: ((
                                     match w with
                                     | Ok bs ->
                                       s_res
                                         (s_pair (fun x -> SBytes x)
                                           (fun x -> SBytes x))
                                         (read_octet_string (app bs rest0) t0
                                           None)
                                     | Raise _ -> SList []) :: []))))))
                             | _ :: _ -> None))))
                 | _ -> None)
              | XO _ -> None
              | XH ->
                (match args with
                 | [] -> None
                 | t :: l ->
                   (match l with
                    | [] -> None
                    | d :: l0 ->
                      (match l0 with
                       | [] ->
                         obind (g_opt g_tag t) (fun t0 ->
                           obind (g_bytes d) (fun d0 -> Some
                             (s_res
                               (s_pair (fun x -> SBytes x) (fun x -> SBytes
                                 x)) (read_sequence d0 t0 None))))
                       | _ :: _ -> None))))
           | XO p2 ->
             (match p2 with
              | XI _ -> None
              | XO p3 ->
                (match p3 with
                 | XH ->
                   (match args with
                    | [] -> None
                    | d :: l ->
                      (match l with
                       | [] ->
                         obind (g_bytes d) (fun d0 -> Some
                           (s_res
                             (s_pair (fun x -> SInt x) (fun x -> SBytes x))
                             (bind (peek_header d0) (fun h ->
                               read_integer d0 None (Some h)))))
                       | _ :: _ -> None))
                 | _ -> None)
              | XH ->
                (match args with
                 | [] -> None
                 | t :: l ->
                   (match l with
                    | [] -> None
                    | d :: l0 ->
                      (match l0 with
                       | [] ->
                         obind (g_opt g_tag t) (fun t0 ->
                           obind (g_bytes d) (fun d0 -> Some
                             (s_res
                               (s_pair (fun x -> SInt x) (fun x -> SBytes x))
                               (read_integer d0 t0 None))))
                       | _ :: _ -> None))))
           | XH -> None)
        | XO p1 ->
          (match p1 with
           | XI p2 ->
             (match p2 with
              | XI _ -> None
              | XO p3 ->
                (match p3 with
                 | XH ->
                   (match args with
                    | [] -> None
                    | d :: l ->
                      (match l with
                       | [] ->
                         obind (g_bytes d) (fun d0 -> Some
                           (s_res (s_pair s_bool (fun x -> SBytes x))
                             (bind (peek_header d0) (fun h ->
                               read_boolean d0 None (Some h)))))
                       | _ :: _ -> None))
                 | _ -> None)
              | XH ->
                (match args with
                 | [] -> None
                 | t :: l ->
                   (match l with
                    | [] -> None
                    | d :: l0 ->
                      (match l0 with
                       | [] ->
                         obind (g_opt g_tag t) (fun t0 ->
                           obind (g_bytes d) (fun d0 -> Some
                             (s_res (s_pair s_bool (fun x -> SBytes x))
                               (read_boolean d0 t0 None))))
                       | _ :: _ -> None))))
           | XO p2 ->
             (match p2 with
              | XO p3 ->
                (match p3 with
                 | XI _ -> None
                 | XO p4 ->
                   (match p4 with
                    | XH ->
                      (match args with
                       | [] -> None
                       | t :: l ->
                         (match l with
                          | [] -> None
                          | b :: l0 ->
                            (match l0 with
                             | [] -> None
                             | rest :: l1 ->
                               (match l1 with
                                | [] ->
                                  obind (g_opt g_tag t) (fun t0 ->
                                    obind (g_bool b) (fun b0 ->
                                      obind (g_bytes rest) (fun rest0 ->
                                        let w = pack_boolean t0 b0 in
                                        Some (SList
                                        ((s_res (fun x -> SBytes x) w) :: ((
                                        match w with
                                        | Ok bs ->
                                          s_res
                                            (s_pair s_bool (fun x -> SBytes
                                              x))
                                            (read_boolean (app bs rest0) t0
                                              None)
                                        | Raise _ -> SList []) :: []))))))
                                | _ :: _ -> None))))
                    | _ -> None)
                 | XH ->
                   (match args with
                    | [] -> None
                    | d :: l ->
                      (match l with
                       | [] ->
                         obind (g_bytes d) (fun d0 -> Some
                           (s_res (fun x -> SBytes x)
                             (bind (peek_header d0) (fun h -> Ok
                               (skip_value d0 h)))))
                       | _ :: _ -> None)))
              | _ -> None)
           | XH ->
             (match args with
              | [] -> None
              | x :: l ->
                (match l with
                 | [] ->
                   obind
                     (g_tree (S (S (S (S (S (S (S (S (S (S (S (S (S (S (S (S
                       (S (S (S (S (S (S (S (S (S (S (S (S (S (S (S (S (S (S
                       (S (S (S (S (S (S (S (S (S (S (S (S (S (S (S (S (S (S
                       (S (S (S (S (S (S (S (S (S (S (S (S
                       O))))))))))))))))))))))))))))))))))))))))))))))))))))))))))))))))
                       x) (fun x0 -> Some
                     (s_res (fun x1 -> SBytes x1) (write_tree x0)))
                 | _ :: _ -> None)))
        | XH ->
          (match args with
           | [] -> None
           | t :: l ->
             (match l with
              | [] -> None
              | b :: l0 ->
                (match l0 with
                 | [] ->
                   obind (g_opt g_tag t) (fun t0 ->
                     obind (g_bool b) (fun b0 -> Some
                       (s_res (fun x -> SBytes x) (pack_boolean t0 b0))))
                 | _ :: _ -> None))))
     | XO p0 ->
       (match p0 with
        | XI p1 ->
          (match p1 with
           | XI p2 ->
             (match p2 with
              | XI p3 ->
                (match p3 with
                 | XH ->
                   (match args with
                    | [] -> None
                    | t :: l ->
                      (match l with
                       | [] -> None
                       | z0 :: l0 ->
                         (match l0 with
                          | [] -> None
                          | rest :: l1 ->
                            (match l1 with
                             | [] ->
                               obind (g_opt g_tag t) (fun t0 ->
                                 obind (g_z z0) (fun z1 ->
                                   obind (g_bytes rest) (fun rest0 ->
                                     let w = pack_integer t0 z1 in
                                     Some (SList
                                     ((s_res (fun x -> SBytes x) w) :: ((
                                     match w with
                                     | Ok bs ->
                                       s_res
                                         (s_pair (fun x -> SInt x) (fun x ->
                                           SBytes x))
                                         (read_integer (app bs rest0) t0 None)
                                     | Raise _ -> SList []) :: []))))))
                             | _ :: _ -> None))))
                 | _ -> None)
              | XO _ -> None
              | XH ->
                (match args with
                 | [] -> None
                 | t :: l ->
                   (match l with
                    | [] -> None
                    | d :: l0 ->
                      (match l0 with
                       | [] ->
                         obind (g_opt g_tag t) (fun t0 ->
                           obind (g_bytes d) (fun d0 -> Some
                             (s_res
                               (s_pair (fun x -> SBytes x) (fun x -> SBytes
                                 x)) (read_octet_string d0 t0 None))))
                       | _ :: _ -> None))))
           | XO p2 ->
             (match p2 with
              | XI _ -> None
              | XO p3 ->
                (match p3 with
                 | XI _ -> None
                 | XO p4 ->
                   (match p4 with
                    | XH ->
                      (match args with
                       | [] -> None
                       | t :: l ->
                         (match l with
                          | [] -> None
                          | z0 :: l0 ->
                            (match l0 with
                             | [] -> None
                             | rest :: l1 ->
                               (match l1 with
                                | [] ->
                                  obind (g_opt g_tag t) (fun t0 ->
                                    obind (g_z z0) (fun z1 ->
                                      obind (g_bytes rest) (fun rest0 ->
                                        let w = pack_enumerated t0 z1 in
                                        Some (SList
                                        ((s_res (fun x -> SBytes x) w) :: ((
                                        match w with
                                        | Ok bs ->
                                          s_res
                                            (s_pair (fun x -> SInt x)
                                              (fun x -> SBytes x))
                                            (read_enumerated (app bs rest0)
                                              t0 None)
                                        | Raise _ -> SList []) :: []))))))
                                | _ :: _ -> None))))
                    | _ -> None)
                 | XH ->
                   (match args with
                    | [] -> None
                    | x :: l ->
                      (match l with
                       | [] -> None
                       | d :: l0 ->
                         (match l0 with
                          | [] ->
                            obind
                              (g_tree (S (S (S (S (S (S (S (S (S (S (S (S (S
                                (S (S (S (S (S (S (S (S (S (S (S (S (S (S (S
                                (S (S (S (S (S (S (S (S (S (S (S (S (S (S (S
                                (S (S (S (S (S (S (S (S (S (S (S (S (S (S (S
                                (S (S (S (S (S (S
                                O))))))))))))))))))))))))))))))))))))))))))))))))))))))))))))))))
                                x) (fun x0 ->
                              obind (g_bytes d) (fun d0 -> Some
                                (s_res (s_pair s_tree (fun x1 -> SBytes x1))
                                  (read_tree x0 d0))))
                          | _ :: _ -> None))))
              | XH ->
                (match args with
                 | [] -> None
                 | d :: l ->
                   (match l with
                    | [] ->
                      obind (g_bytes d) (fun d0 -> Some
                        (s_res s_hdr (peek_header d0)))
                    | _ :: _ -> None)))
           | XH -> None)
        | XO p1 ->
          (match p1 with
           | XI p2 ->
             (match p2 with
              | XI _ -> None
              | XO p3 ->
                (match p3 with
                 | XH ->
                   (match args with
                    | [] -> None
                    | d :: l ->
                      (match l with
                       | [] ->
                         obind (g_bytes d) (fun d0 -> Some
                           (s_res
                             (s_pair (fun x -> SBytes x) (fun x -> SBytes x))
                             (bind (peek_header d0) (fun h ->
                               read_octet_string d0 None (Some h)))))
                       | _ :: _ -> None))
                 | _ -> None)
              | XH ->
                (match args with
                 | [] -> None
                 | t :: l ->
                   (match l with
                    | [] -> None
                    | d :: l0 ->
                      (match l0 with
                       | [] ->
                         obind (g_opt g_tag t) (fun t0 ->
                           obind (g_bytes d) (fun d0 -> Some
                             (s_res
                               (s_pair (fun x -> SInt x) (fun x -> SBytes x))
                               (read_enumerated d0 t0 None))))
                       | _ :: _ -> None))))
           | XO p2 ->
             (match p2 with
              | XO p3 ->
                (match p3 with
                 | XI _ -> None
                 | XO p4 ->
                   (match p4 with
                    | XH ->
                      (match args with
                       | [] -> None
                       | x :: l ->
                         (match l with
                          | [] -> None
                          | rest :: l0 ->
                            (match l0 with
                             | [] ->
                               obind
                                 (g_tree (S (S (S (S (S (S (S (S (S (S (S (S
                                   (S (S (S (S (S (S (S (S (S (S (S (S (S (S
                                   (S (S (S (S (S (S (S (S (S (S (S (S (S (S
                                   (S (S (S (S (S (S (S (S (S (S (S (S (S (S
                                   (S (S (S (S (S (S (S (S (S (S
                                   O))))))))))))))))))))))))))))))))))))))))))))))))))))))))))))))))
                                   x) (fun x0 ->
                                 obind (g_bytes rest) (fun rest0 ->
                                   let w = write_tree x0 in
                                   Some (SList
                                   ((s_res (fun x1 -> SBytes x1) w) :: ((
                                   match w with
                                   | Ok bs ->
                                     s_res
                                       (s_pair s_tree (fun x1 -> SBytes x1))
                                       (read_tree x0 (app bs rest0))
                                   | Raise _ -> SList []) :: [])))))
                             | _ :: _ -> None)))
                    | _ -> None)
                 | XH ->
                   (match args with
                    | [] -> None
                    | t :: l ->
                      (match l with
                       | [] -> None
                       | d :: l0 ->
                         (match l0 with
                          | [] ->
                            obind (g_opt g_tag t) (fun t0 ->
                              obind (g_bytes d) (fun d0 -> Some
                                (s_res
                                  (s_pair (fun x -> SBytes x) (fun x ->
                                    SBytes x)) (read_set d0 t0 None))))
                          | _ :: _ -> None))))
              | _ -> None)
           | XH ->
             (match args with
              | [] -> None
              | t :: l ->
                (match l with
                 | [] -> None
                 | b :: l0 ->
                   (match l0 with
                    | [] ->
                      obind (g_opt g_tag t) (fun t0 ->
                        obind (g_bytes b) (fun b0 -> Some
                          (s_res (fun x -> SBytes x)
                            (pack_octet_string t0 b0))))
                    | _ :: _ -> None))))
        | XH ->
          (match args with
           | [] -> None
           | t :: l ->
             (match l with
              | [] -> None
              | z0 :: l0 ->
                (match l0 with
                 | [] ->
                   obind (g_opt g_tag t) (fun t0 ->
                     obind (g_z z0) (fun z1 -> Some
                       (s_res (fun x -> SBytes x) (pack_enumerated t0 z1))))
                 | _ :: _ -> None))))
     | XH ->
       (match args with
        | [] -> None
        | t :: l ->
          (match l with
           | [] -> None
           | z0 :: l0 ->
             (match l0 with
              | [] ->
                obind (g_opt g_tag t) (fun t0 ->
                  obind (g_z z0) (fun z1 -> Some
                    (s_res (fun x -> SBytes x) (pack_integer t0 z1))))
              | _ :: _ -> None))))
  | _ -> None

(** val run : sexp -> sexp **)

let run = function
| SList l ->
  (match l with
   | [] -> bad
   | s :: args ->
     (match s with
      | SInt cmd ->
        if Z.ltb cmd (Zpos (XO (XO (XI (XO (XO (XI XH)))))))
        then or_bad (run_asn1 cmd args)
        else if Z.ltb cmd (Zpos (XO (XO (XO (XI (XO (XO (XI XH))))))))
             then or_bad (run_msg cmd args)
             else if Z.ltb cmd (Zpos (XO (XO (XI (XI (XO (XI (XO (XO
                       XH)))))))))
                  then or_bad (run_text cmd args)
                  else if Z.ltb cmd (Zpos (XO (XO (XO (XO (XI (XO (XO (XI
                            XH)))))))))
                       then or_bad (run_schema cmd args)
                       else bad
      | _ -> bad))
| _ -> bad

(** val keys_of : (ustr * ustr list) list -> ustr list **)

let keys_of d =
  map fst d

(** val quote : ustr -> ustr **)

let quote n0 =
  app (sQ :: []) (app n0 (sQ :: []))

(** val s_NAME : n list **)

let s_NAME =
  (Npos (XO (XI (XI (XI (XO (XO XH))))))) :: ((Npos (XI (XO (XO (XO (XO (XO
    XH))))))) :: ((Npos (XI (XO (XI (XI (XO (XO XH))))))) :: ((Npos (XI (XO
    (XI (XO (XO (XO XH))))))) :: [])))

(** val s_DESC : n list **)

let s_DESC =
  (Npos (XO (XO (XI (XO (XO (XO XH))))))) :: ((Npos (XI (XO (XI (XO (XO (XO
    XH))))))) :: ((Npos (XI (XI (XO (XO (XI (XO XH))))))) :: ((Npos (XI (XI
    (XO (XO (XO (XO XH))))))) :: [])))

(** val s_OBSOLETE : n list **)

let s_OBSOLETE =
  (Npos (XI (XI (XI (XI (XO (XO XH))))))) :: ((Npos (XO (XI (XO (XO (XO (XO
    XH))))))) :: ((Npos (XI (XI (XO (XO (XI (XO XH))))))) :: ((Npos (XI (XI
    (XI (XI (XO (XO XH))))))) :: ((Npos (XO (XO (XI (XI (XO (XO
    XH))))))) :: ((Npos (XI (XO (XI (XO (XO (XO XH))))))) :: ((Npos (XO (XO
    (XI (XO (XI (XO XH))))))) :: ((Npos (XI (XO (XI (XO (XO (XO
    XH))))))) :: [])))))))

(** val s_SUP : n list **)

let s_SUP =
  (Npos (XI (XI (XO (XO (XI (XO XH))))))) :: ((Npos (XI (XO (XI (XO (XI (XO
    XH))))))) :: ((Npos (XO (XO (XO (XO (XI (XO XH))))))) :: []))

(** val s_MUST : n list **)

let s_MUST =
  (Npos (XI (XO (XI (XI (XO (XO XH))))))) :: ((Npos (XI (XO (XI (XO (XI (XO
    XH))))))) :: ((Npos (XI (XI (XO (XO (XI (XO XH))))))) :: ((Npos (XO (XO
    (XI (XO (XI (XO XH))))))) :: [])))

(** val s_MAY : n list **)

let s_MAY =
  (Npos (XI (XO (XI (XI (XO (XO XH))))))) :: ((Npos (XI (XO (XO (XO (XO (XO
    XH))))))) :: ((Npos (XI (XO (XO (XI (XI (XO XH))))))) :: []))

(** val s_AUX : n list **)

let s_AUX =
  (Npos (XI (XO (XO (XO (XO (XO XH))))))) :: ((Npos (XI (XO (XI (XO (XI (XO
    XH))))))) :: ((Npos (XO (XO (XO (XI (XI (XO XH))))))) :: []))

(** val s_NOT : n list **)

let s_NOT =
  (Npos (XO (XI (XI (XI (XO (XO XH))))))) :: ((Npos (XI (XI (XI (XI (XO (XO
    XH))))))) :: ((Npos (XO (XO (XI (XO (XI (XO XH))))))) :: []))

(** val s_EQUALITY : n list **)

let s_EQUALITY =
  (Npos (XI (XO (XI (XO (XO (XO XH))))))) :: ((Npos (XI (XO (XO (XO (XI (XO
    XH))))))) :: ((Npos (XI (XO (XI (XO (XI (XO XH))))))) :: ((Npos (XI (XO
    (XO (XO (XO (XO XH))))))) :: ((Npos (XO (XO (XI (XI (XO (XO
    XH))))))) :: ((Npos (XI (XO (XO (XI (XO (XO XH))))))) :: ((Npos (XO (XO
    (XI (XO (XI (XO XH))))))) :: ((Npos (XI (XO (XO (XI (XI (XO
    XH))))))) :: [])))))))

(** val s_ORDERING : n list **)

let s_ORDERING =
  (Npos (XI (XI (XI (XI (XO (XO XH))))))) :: ((Npos (XO (XI (XO (XO (XI (XO
    XH))))))) :: ((Npos (XO (XO (XI (XO (XO (XO XH))))))) :: ((Npos (XI (XO
    (XI (XO (XO (XO XH))))))) :: ((Npos (XO (XI (XO (XO (XI (XO
    XH))))))) :: ((Npos (XI (XO (XO (XI (XO (XO XH))))))) :: ((Npos (XO (XI
    (XI (XI (XO (XO XH))))))) :: ((Npos (XI (XI (XI (XO (XO (XO
    XH))))))) :: [])))))))

(** val s_SUBSTR : n list **)

let s_SUBSTR =
  (Npos (XI (XI (XO (XO (XI (XO XH))))))) :: ((Npos (XI (XO (XI (XO (XI (XO
    XH))))))) :: ((Npos (XO (XI (XO (XO (XO (XO XH))))))) :: ((Npos (XI (XI
    (XO (XO (XI (XO XH))))))) :: ((Npos (XO (XO (XI (XO (XI (XO
    XH))))))) :: ((Npos (XO (XI (XO (XO (XI (XO XH))))))) :: [])))))

(** val s_SYNTAX : n list **)

let s_SYNTAX =
  (Npos (XI (XI (XO (XO (XI (XO XH))))))) :: ((Npos (XI (XO (XO (XI (XI (XO
    XH))))))) :: ((Npos (XO (XI (XI (XI (XO (XO XH))))))) :: ((Npos (XO (XO
    (XI (XO (XI (XO XH))))))) :: ((Npos (XI (XO (XO (XO (XO (XO
    XH))))))) :: ((Npos (XO (XO (XO (XI (XI (XO XH))))))) :: [])))))

(** val s_SINGLE : n list **)

let s_SINGLE =
  (Npos (XI (XI (XO (XO (XI (XO XH))))))) :: ((Npos (XI (XO (XO (XI (XO (XO
    XH))))))) :: ((Npos (XO (XI (XI (XI (XO (XO XH))))))) :: ((Npos (XI (XI
    (XI (XO (XO (XO XH))))))) :: ((Npos (XO (XO (XI (XI (XO (XO
    XH))))))) :: ((Npos (XI (XO (XI (XO (XO (XO XH))))))) :: ((Npos (XI (XO
    (XI (XI (XO XH)))))) :: ((Npos (XO (XI (XI (XO (XI (XO
    XH))))))) :: ((Npos (XI (XO (XO (XO (XO (XO XH))))))) :: ((Npos (XO (XO
    (XI (XI (XO (XO XH))))))) :: ((Npos (XI (XO (XI (XO (XI (XO
    XH))))))) :: ((Npos (XI (XO (XI (XO (XO (XO XH))))))) :: [])))))))))))

(** val s_COLLECTIVE : n list **)

let s_COLLECTIVE =
  (Npos (XI (XI (XO (XO (XO (XO XH))))))) :: ((Npos (XI (XI (XI (XI (XO (XO
    XH))))))) :: ((Npos (XO (XO (XI (XI (XO (XO XH))))))) :: ((Npos (XO (XO
    (XI (XI (XO (XO XH))))))) :: ((Npos (XI (XO (XI (XO (XO (XO
    XH))))))) :: ((Npos (XI (XI (XO (XO (XO (XO XH))))))) :: ((Npos (XO (XO
    (XI (XO (XI (XO XH))))))) :: ((Npos (XI (XO (XO (XI (XO (XO
    XH))))))) :: ((Npos (XO (XI (XI (XO (XI (XO XH))))))) :: ((Npos (XI (XO
    (XI (XO (XO (XO XH))))))) :: [])))))))))

(** val s_NOUSERMOD : n list **)

let s_NOUSERMOD =
  (Npos (XO (XI (XI (XI (XO (XO XH))))))) :: ((Npos (XI (XI (XI (XI (XO (XO
    XH))))))) :: ((Npos (XI (XO (XI (XI (XO XH)))))) :: ((Npos (XI (XO (XI
    (XO (XI (XO XH))))))) :: ((Npos (XI (XI (XO (XO (XI (XO
    XH))))))) :: ((Npos (XI (XO (XI (XO (XO (XO XH))))))) :: ((Npos (XO (XI
    (XO (XO (XI (XO XH))))))) :: ((Npos (XI (XO (XI (XI (XO
    XH)))))) :: ((Npos (XI (XO (XI (XI (XO (XO XH))))))) :: ((Npos (XI (XI
    (XI (XI (XO (XO XH))))))) :: ((Npos (XO (XO (XI (XO (XO (XO
    XH))))))) :: ((Npos (XI (XO (XO (XI (XO (XO XH))))))) :: ((Npos (XO (XI
    (XI (XO (XO (XO XH))))))) :: ((Npos (XI (XO (XO (XI (XO (XO
    XH))))))) :: ((Npos (XI (XI (XO (XO (XO (XO XH))))))) :: ((Npos (XI (XO
    (XO (XO (XO (XO XH))))))) :: ((Npos (XO (XO (XI (XO (XI (XO
    XH))))))) :: ((Npos (XI (XO (XO (XI (XO (XO XH))))))) :: ((Npos (XI (XI
    (XI (XI (XO (XO XH))))))) :: ((Npos (XO (XI (XI (XI (XO (XO
    XH))))))) :: [])))))))))))))))))))

(** val s_USAGE : n list **)

let s_USAGE =
  (Npos (XI (XO (XI (XO (XI (XO XH))))))) :: ((Npos (XI (XI (XO (XO (XI (XO
    XH))))))) :: ((Npos (XI (XO (XO (XO (XO (XO XH))))))) :: ((Npos (XI (XI
    (XI (XO (XO (XO XH))))))) :: ((Npos (XI (XO (XI (XO (XO (XO
    XH))))))) :: []))))

(** val u_user : n list **)

let u_user =
  (Npos (XI (XO (XI (XO (XI (XI XH))))))) :: ((Npos (XI (XI (XO (XO (XI (XI
    XH))))))) :: ((Npos (XI (XO (XI (XO (XO (XI XH))))))) :: ((Npos (XO (XI
    (XO (XO (XI (XI XH))))))) :: ((Npos (XI (XO (XO (XO (XO (XO
    XH))))))) :: ((Npos (XO (XO (XO (XO (XI (XI XH))))))) :: ((Npos (XO (XO
    (XO (XO (XI (XI XH))))))) :: ((Npos (XO (XO (XI (XI (XO (XI
    XH))))))) :: ((Npos (XI (XO (XO (XI (XO (XI XH))))))) :: ((Npos (XI (XI
    (XO (XO (XO (XI XH))))))) :: ((Npos (XI (XO (XO (XO (XO (XI
    XH))))))) :: ((Npos (XO (XO (XI (XO (XI (XI XH))))))) :: ((Npos (XI (XO
    (XO (XI (XO (XI XH))))))) :: ((Npos (XI (XI (XI (XI (XO (XI
    XH))))))) :: ((Npos (XO (XI (XI (XI (XO (XI XH))))))) :: ((Npos (XI (XI
    (XO (XO (XI (XI XH))))))) :: [])))))))))))))))

(** val u_dir : n list **)

let u_dir =
  (Npos (XO (XO (XI (XO (XO (XI XH))))))) :: ((Npos (XI (XO (XO (XI (XO (XI
    XH))))))) :: ((Npos (XO (XI (XO (XO (XI (XI XH))))))) :: ((Npos (XI (XO
    (XI (XO (XO (XI XH))))))) :: ((Npos (XI (XI (XO (XO (XO (XI
    XH))))))) :: ((Npos (XO (XO (XI (XO (XI (XI XH))))))) :: ((Npos (XI (XI
    (XI (XI (XO (XI XH))))))) :: ((Npos (XO (XI (XO (XO (XI (XI
    XH))))))) :: ((Npos (XI (XO (XO (XI (XI (XI XH))))))) :: ((Npos (XI (XI
    (XI (XI (XO (XO XH))))))) :: ((Npos (XO (XO (XO (XO (XI (XI
    XH))))))) :: ((Npos (XI (XO (XI (XO (XO (XI XH))))))) :: ((Npos (XO (XI
    (XO (XO (XI (XI XH))))))) :: ((Npos (XI (XO (XO (XO (XO (XI
    XH))))))) :: ((Npos (XO (XO (XI (XO (XI (XI XH))))))) :: ((Npos (XI (XO
    (XO (XI (XO (XI XH))))))) :: ((Npos (XI (XI (XI (XI (XO (XI
    XH))))))) :: ((Npos (XO (XI (XI (XI (XO (XI
    XH))))))) :: [])))))))))))))))))

(** val u_dist : n list **)

let u_dist =
  (Npos (XO (XO (XI (XO (XO (XI XH))))))) :: ((Npos (XI (XO (XO (XI (XO (XI
    XH))))))) :: ((Npos (XI (XI (XO (XO (XI (XI XH))))))) :: ((Npos (XO (XO
    (XI (XO (XI (XI XH))))))) :: ((Npos (XO (XI (XO (XO (XI (XI
    XH))))))) :: ((Npos (XI (XO (XO (XI (XO (XI XH))))))) :: ((Npos (XO (XI
    (XO (XO (XO (XI XH))))))) :: ((Npos (XI (XO (XI (XO (XI (XI
    XH))))))) :: ((Npos (XO (XO (XI (XO (XI (XI XH))))))) :: ((Npos (XI (XO
    (XI (XO (XO (XI XH))))))) :: ((Npos (XO (XO (XI (XO (XO (XI
    XH))))))) :: ((Npos (XI (XI (XI (XI (XO (XO XH))))))) :: ((Npos (XO (XO
    (XO (XO (XI (XI XH))))))) :: ((Npos (XI (XO (XI (XO (XO (XI
    XH))))))) :: ((Npos (XO (XI (XO (XO (XI (XI XH))))))) :: ((Npos (XI (XO
    (XO (XO (XO (XI XH))))))) :: ((Npos (XO (XO (XI (XO (XI (XI
    XH))))))) :: ((Npos (XI (XO (XO (XI (XO (XI XH))))))) :: ((Npos (XI (XI
    (XI (XI (XO (XI XH))))))) :: ((Npos (XO (XI (XI (XI (XO (XI
    XH))))))) :: [])))))))))))))))))))

(** val u_dsa : n list **)

let u_dsa =
  (Npos (XO (XO (XI (XO (XO (XI XH))))))) :: ((Npos (XI (XI (XO (XO (XI (XO
    XH))))))) :: ((Npos (XI (XO (XO (XO (XO (XO XH))))))) :: ((Npos (XI (XI
    (XI (XI (XO (XO XH))))))) :: ((Npos (XO (XO (XO (XO (XI (XI
    XH))))))) :: ((Npos (XI (XO (XI (XO (XO (XI XH))))))) :: ((Npos (XO (XI
    (XO (XO (XI (XI XH))))))) :: ((Npos (XI (XO (XO (XO (XO (XI
    XH))))))) :: ((Npos (XO (XO (XI (XO (XI (XI XH))))))) :: ((Npos (XI (XO
    (XO (XI (XO (XI XH))))))) :: ((Npos (XI (XI (XI (XI (XO (XI
    XH))))))) :: ((Npos (XO (XI (XI (XI (XO (XI XH))))))) :: [])))))))))))

(** val is_dig : n -> bool **)

let is_dig c =
  (&&) (N.leb (Npos (XO (XO (XO (XO (XI XH)))))) c)
    (N.leb c (Npos (XI (XO (XO (XI (XI XH)))))))

(** val is_ldig : n -> bool **)

let is_ldig c =
  (&&) (N.leb (Npos (XI (XO (XO (XO (XI XH)))))) c)
    (N.leb c (Npos (XI (XO (XO (XI (XI XH)))))))

(** val is_alpha : n -> bool **)

let is_alpha c =
  (||)
    ((&&) (N.leb (Npos (XI (XO (XO (XO (XO (XI XH))))))) c)
      (N.leb c (Npos (XO (XI (XO (XI (XI (XI XH)))))))))
    ((&&) (N.leb (Npos (XI (XO (XO (XO (XO (XO XH))))))) c)
      (N.leb c (Npos (XO (XI (XO (XI (XI (XO XH)))))))))

(** val is_keyc : n -> bool **)

let is_keyc c =
  (||) ((||) (is_alpha c) (is_dig c))
    (N.eqb c (Npos (XI (XO (XI (XI (XO XH)))))))

(** val is_xc : n -> bool **)

let is_xc c =
  (||) ((||) (is_alpha c) (N.eqb c (Npos (XI (XO (XI (XI (XO XH))))))))
    (N.eqb c (Npos (XI (XI (XI (XI (XI (XO XH))))))))

(** val kind_text : n -> ustr **)

let kind_text = function
| N0 -> s_ABSTRACT
| Npos p ->
  (match p with
   | XO p0 -> (match p0 with
               | XH -> s_AUXILIARY
               | _ -> s_STRUCTURAL)
   | _ -> s_STRUCTURAL)

(** val len_text : z option -> n list **)

let len_text = function
| Some z0 ->
  app ((Npos (XI (XI (XO (XI (XI (XI XH))))))) :: [])
    (app (str_of_int z0) ((Npos (XI (XO (XI (XI (XI (XI XH))))))) :: []))
| None -> []

(** val syn_text : ustr -> z option -> n list **)

let syn_text s l =
  app s (len_text l)

(** val arc_b : n list -> bool **)

let arc_b = function
| [] -> false
| l :: l0 ->
  (match l0 with
   | [] -> is_dig l
   | d :: ds -> (&&) ((&&) (is_ldig l) (is_dig d)) (forallb is_dig ds))

(** val numoid_b : n list -> bool **)

let numoid_b o =
  match usplit (Npos (XO (XI (XI (XI (XO XH)))))) o with
  | [] -> false
  | a0 :: l ->
    (match l with
     | [] -> false
     | a1 :: arcs -> (&&) ((&&) (arc_b a0) (arc_b a1)) (forallb arc_b arcs))

(** val descr_b : n list -> bool **)

let descr_b = function
| [] -> false
| a :: w -> (&&) (is_alpha a) (forallb is_keyc w)

(** val oid_b : n list -> bool **)

let oid_b o =
  (||) (descr_b o) (numoid_b o)

(** val nonempty_b : n list -> bool **)

let nonempty_b = function
| [] -> false
| _ :: _ -> true

(** val ext_b : (ustr * ustr list) -> bool **)

let ext_b x =
  (&&) ((&&) (nonempty_b (fst x)) (forallb is_xc (fst x)))
    (forallb nonempty_b (snd x))

(** val nodup_b : ustr list -> bool **)

let rec nodup_b = function
| [] -> true
| x :: r -> (&&) (negb (existsb (ueqb x) r)) (nodup_b r)

(** val desc_b : ustr option -> bool **)

let desc_b = function
| Some v -> nonempty_b v
| None -> true

(** val wf_oc_b : objclass -> bool **)

let wf_oc_b o =
  (&&)
    ((&&)
      ((&&)
        ((&&)
          ((&&)
            ((&&)
              ((&&) ((&&) (numoid_b o.oc_oid) (forallb descr_b o.oc_names))
                (desc_b o.oc_desc)) (forallb oid_b o.oc_sup))
            (N.ltb o.oc_kind (Npos (XI XH)))) (forallb oid_b o.oc_must))
        (forallb oid_b o.oc_may)) (forallb ext_b o.oc_ext))
    (nodup_b (keys_of o.oc_ext))

(** val wf_dcr_b : ditrule -> bool **)

let wf_dcr_b o =
  (&&)
    ((&&)
      ((&&)
        ((&&)
          ((&&)
            ((&&)
              ((&&) ((&&) (numoid_b o.dc_oid) (forallb descr_b o.dc_names))
                (desc_b o.dc_desc)) (forallb oid_b o.dc_aux))
            (forallb oid_b o.dc_must)) (forallb oid_b o.dc_may))
        (forallb oid_b o.dc_not)) (forallb ext_b o.dc_ext))
    (nodup_b (keys_of o.dc_ext))

(** val oid_opt_b : ustr option -> bool **)

let oid_opt_b = function
| Some v -> oid_b v
| None -> true

(** val syn_b : ustr option -> z option -> bool **)

let syn_b syntax len =
  match syntax with
  | Some s ->
    (&&) (numoid_b s) (match len with
                       | Some z0 -> Z.leb Z0 z0
                       | None -> true)
  | None -> (match len with
             | Some _ -> false
             | None -> true)

(** val wf_at_b : attrtype -> bool **)

let wf_at_b a =
  (&&)
    ((&&)
      ((&&)
        ((&&)
          ((&&)
            ((&&)
              ((&&)
                ((&&)
                  ((&&)
                    ((&&) (numoid_b a.at_oid) (forallb descr_b a.at_names))
                    (desc_b a.at_desc)) (oid_opt_b a.at_sup))
                (oid_opt_b a.at_equality)) (oid_opt_b a.at_ordering))
            (oid_opt_b a.at_substr)) (syn_b a.at_syntax a.at_syntax_len))
        (N.ltb a.at_usage (Npos (XO (XO XH))))) (forallb ext_b a.at_ext))
    (nodup_b (keys_of a.at_ext))

(** val sp : nat -> n list **)

let sp n0 =
  repeat (Npos (XO (XO (XO (XO (XO XH)))))) n0

(** val gitem : ((nat * nat) * n list) -> n list **)

let gitem = function
| (p, o) ->
  let (a, b) = p in
  app (sp a) (app ((Npos (XO (XO (XI (XO (XO XH)))))) :: []) (app (sp b) o))

(** val gitem_oid : ((nat * nat) * n list) -> n list **)

let gitem_oid =
  snd

type oids_cst =
| OBare of n list
| OParen of nat * n list * ((nat * nat) * n list) list * nat

(** val oids_text : oids_cst -> n list **)

let oids_text = function
| OBare o -> o
| OParen (w0, x, items, w1) ->
  app ((Npos (XO (XO (XO (XI (XO XH)))))) :: [])
    (app (sp w0)
      (app (app x (concat (map gitem items)))
        (app (sp w1) ((Npos (XI (XO (XO (XI (XO XH)))))) :: []))))

(** val oids_den : oids_cst -> ustr list **)

let oids_den = function
| OBare o -> o :: []
| OParen (_, x, items, _) -> x :: (map gitem_oid items)

(** val qitem_g : (nat * n list) -> n list **)

let qitem_g x =
  app (sp (S (fst x))) (quote (snd x))

type qdescrs_cst =
| QBare of n list
| QEmpty of nat
| QParen of nat * n list * (nat * n list) list * nat

(** val qdescrs_text : qdescrs_cst -> n list **)

let qdescrs_text = function
| QBare n0 -> quote n0
| QEmpty w ->
  app ((Npos (XO (XO (XO (XI (XO XH)))))) :: [])
    (app (sp w) ((Npos (XI (XO (XO (XI (XO XH)))))) :: []))
| QParen (w0, n0, items, w1) ->
  app ((Npos (XO (XO (XO (XI (XO XH)))))) :: [])
    (app (sp w0)
      (app ((Npos (XI (XI (XI (XO (XO
        XH)))))) :: (app n0
                      (app ((Npos (XI (XI (XI (XO (XO XH)))))) :: [])
                        (concat (map qitem_g items)))))
        (app (sp w1) ((Npos (XI (XO (XO (XI (XO XH)))))) :: []))))

(** val qdescrs_den : qdescrs_cst -> ustr list **)

let qdescrs_den = function
| QBare n0 -> n0 :: []
| QEmpty _ -> []
| QParen (_, n0, items, _) -> n0 :: (map snd items)

type dch =
| DPlain of n
| DQuote
| DBslLower
| DBslUpper

(** val enc : dch -> n list **)

let enc = function
| DPlain c -> c :: []
| DQuote ->
  (Npos (XO (XO (XI (XI (XI (XO XH))))))) :: ((Npos (XO (XI (XO (XO (XI
    XH)))))) :: ((Npos (XI (XI (XI (XO (XI XH)))))) :: []))
| DBslLower ->
  (Npos (XO (XO (XI (XI (XI (XO XH))))))) :: ((Npos (XI (XO (XI (XO (XI
    XH)))))) :: ((Npos (XI (XI (XO (XO (XO (XI XH))))))) :: []))
| DBslUpper ->
  (Npos (XO (XO (XI (XI (XI (XO XH))))))) :: ((Npos (XI (XO (XI (XO (XI
    XH)))))) :: ((Npos (XI (XI (XO (XO (XO (XO XH))))))) :: []))

(** val den : dch -> n **)

let den = function
| DPlain c -> c
| DQuote -> Npos (XI (XI (XI (XO (XO XH)))))
| _ -> Npos (XO (XO (XI (XI (XI (XO XH))))))

(** val qd_g : dch list -> n list **)

let qd_g ds =
  app ((Npos (XI (XI (XI (XO (XO XH)))))) :: [])
    (app (concat (map enc ds)) ((Npos (XI (XI (XI (XO (XO XH)))))) :: []))

(** val qsitem_g : (nat * dch list) -> n list **)

let qsitem_g x =
  app (sp (S (fst x))) (qd_g (snd x))

type qdstrings_cst =
| SBare of dch list
| SEmpty of nat
| SParen of nat * dch list * (nat * dch list) list * nat

(** val qdstrings_text : qdstrings_cst -> n list **)

let qdstrings_text = function
| SBare ds -> qd_g ds
| SEmpty w ->
  app ((Npos (XO (XO (XO (XI (XO XH)))))) :: [])
    (app (sp w) ((Npos (XI (XO (XO (XI (XO XH)))))) :: []))
| SParen (w0, ds, items, w1) ->
  app ((Npos (XO (XO (XO (XI (XO XH)))))) :: [])
    (app (sp w0)
      (app
        (app ((Npos (XI (XI (XI (XO (XO XH)))))) :: [])
          (app (concat (map enc ds)) ((Npos (XI (XI (XI (XO (XO
            XH)))))) :: (app (concat (map qsitem_g items)) (sp w1))))) ((Npos
        (XI (XO (XO (XI (XO XH)))))) :: [])))

(** val qdstrings_den : qdstrings_cst -> ustr list **)

let qdstrings_den = function
| SBare ds -> (map den ds) :: []
| SEmpty _ -> []
| SParen (_, ds, items, _) ->
  (map den ds) :: (map (fun x -> map den (snd x)) items)

(** val qdstrings_parts : qdstrings_cst -> dch list list **)

let qdstrings_parts = function
| SBare ds -> ds :: []
| SEmpty _ -> []
| SParen (_, ds, items, _) -> ds :: (map snd items)

type ext_cst = { e_a : nat; e_key : n list; e_b : nat; e_vals : qdstrings_cst }

(** val ext_text_g : ext_cst -> n list **)

let ext_text_g x =
  app (sp (S x.e_a))
    (app ((Npos (XO (XO (XO (XI (XI (XO XH))))))) :: ((Npos (XI (XO (XI (XI
      (XO XH)))))) :: x.e_key))
      (app (sp (S x.e_b)) (qdstrings_text x.e_vals)))

(** val exts_text : ext_cst list -> n list **)

let exts_text e =
  concat (map ext_text_g e)

(** val seg_kw_g : nat -> n list -> nat -> n list -> n list **)

let seg_kw_g a kw b payload =
  app (sp (S a)) (app kw (app (sp (S b)) payload))

(** val ext_upd :
    (ustr * ustr list) list -> ext_cst -> (ustr * ustr list) list **)

let ext_upd d x =
  dict_set x.e_key (qdstrings_den x.e_vals) d

(** val exts_den : ext_cst list -> (ustr * ustr list) list **)

let exts_den e =
  fold_left ext_upd e []

type 'a part = ((nat * nat) * 'a) option

(** val part_text : n list -> ('a1 -> n list) -> 'a1 part -> n list **)

let part_text kw f = function
| Some p0 -> let (p1, x) = p0 in let (a, b) = p1 in seg_kw_g a kw b (f x)
| None -> []

(** val flag_text : n list -> nat option -> n list **)

let flag_text kw = function
| Some a -> app (sp (S a)) kw
| None -> []

(** val end_text : ext_cst list -> nat -> n list **)

let end_text e w1 =
  app (exts_text e) (app (sp w1) ((Npos (XI (XO (XO (XI (XO XH)))))) :: []))

type head_cst = { h_w0 : nat; h_oid : n list; h_name : qdescrs_cst part;
                  h_desc : dch list part; h_obs : nat option }

(** val g3 : n list -> head_cst -> n list **)

let g3 txt4 h =
  app (flag_text s_OBSOLETE h.h_obs) txt4

(** val g2 : n list -> head_cst -> n list **)

let g2 txt4 h =
  app (part_text s_DESC qd_g h.h_desc) (g3 txt4 h)

(** val g1 : n list -> head_cst -> n list **)

let g1 txt4 h =
  app (part_text s_NAME qdescrs_text h.h_name) (g2 txt4 h)

(** val head_sentence : n list -> head_cst -> n list **)

let head_sentence txt4 h =
  app ((Npos (XO (XO (XO (XI (XO XH)))))) :: [])
    (app (sp h.h_w0) (app h.h_oid (g1 txt4 h)))

type oc_cst = { oc_h : head_cst; oc_csup : oids_cst part;
                oc_ckind : (nat * n) option; oc_cmust : oids_cst part;
                oc_cmay : oids_cst part; oc_cext : ext_cst list; oc_cw1 : 
                nat }

(** val kind_seg : (nat * n) option -> n list **)

let kind_seg = function
| Some p -> let (a, k0) = p in app (sp (S a)) (kind_text k0)
| None -> []

(** val o8 : oc_cst -> n list **)

let o8 c =
  end_text c.oc_cext c.oc_cw1

(** val o7 : oc_cst -> n list **)

let o7 c =
  app (part_text s_MAY oids_text c.oc_cmay) (o8 c)

(** val o6 : oc_cst -> n list **)

let o6 c =
  app (part_text s_MUST oids_text c.oc_cmust) (o7 c)

(** val o5 : oc_cst -> n list **)

let o5 c =
  app (kind_seg c.oc_ckind) (o6 c)

(** val o4 : oc_cst -> n list **)

let o4 c =
  app (part_text s_SUP oids_text c.oc_csup) (o5 c)

(** val oc_sentence : oc_cst -> n list **)

let oc_sentence c =
  head_sentence (o4 c) c.oc_h

(** val part_den : ('a1 -> 'a2 list) -> 'a1 part -> 'a2 list **)

let part_den f = function
| Some p0 -> let (_, x) = p0 in f x
| None -> []

(** val oc_denote : oc_cst -> objclass **)

let oc_denote c =
  { oc_oid = c.oc_h.h_oid; oc_names = (part_den qdescrs_den c.oc_h.h_name);
    oc_desc =
    (match c.oc_h.h_desc with
     | Some p -> let (_, ds) = p in Some (map den ds)
     | None -> None); oc_obsolete =
    (match c.oc_h.h_obs with
     | Some _ -> true
     | None -> false); oc_sup = (part_den oids_den c.oc_csup); oc_kind =
    (match c.oc_ckind with
     | Some p -> let (_, k) = p in k
     | None -> Npos XH); oc_must = (part_den oids_den c.oc_cmust); oc_may =
    (part_den oids_den c.oc_cmay); oc_ext = (exts_den c.oc_cext) }

type dcr_cst = { dc_h : head_cst; dc_caux : oids_cst part;
                 dc_cmust : oids_cst part; dc_cmay : oids_cst part;
                 dc_cnot : oids_cst part; dc_cext : ext_cst list; dc_cw1 : 
                 nat }

(** val r8 : dcr_cst -> n list **)

let r8 c =
  end_text c.dc_cext c.dc_cw1

(** val r7 : dcr_cst -> n list **)

let r7 c =
  app (part_text s_NOT oids_text c.dc_cnot) (r8 c)

(** val r6 : dcr_cst -> n list **)

let r6 c =
  app (part_text s_MAY oids_text c.dc_cmay) (r7 c)

(** val r5 : dcr_cst -> n list **)

let r5 c =
  app (part_text s_MUST oids_text c.dc_cmust) (r6 c)

(** val r4 : dcr_cst -> n list **)

let r4 c =
  app (part_text s_AUX oids_text c.dc_caux) (r5 c)

(** val dcr_sentence : dcr_cst -> n list **)

let dcr_sentence c =
  head_sentence (r4 c) c.dc_h

(** val dcr_denote : dcr_cst -> ditrule **)

let dcr_denote c =
  { dc_oid = c.dc_h.h_oid; dc_names = (part_den qdescrs_den c.dc_h.h_name);
    dc_desc =
    (match c.dc_h.h_desc with
     | Some p -> let (_, ds) = p in Some (map den ds)
     | None -> None); dc_obsolete =
    (match c.dc_h.h_obs with
     | Some _ -> true
     | None -> false); dc_aux = (part_den oids_den c.dc_caux); dc_must =
    (part_den oids_den c.dc_cmust); dc_may = (part_den oids_den c.dc_cmay);
    dc_not = (part_den oids_den c.dc_cnot); dc_ext = (exts_den c.dc_cext) }

type syn_cst =
| SynPlain of n list * z option
| SynQuoted of n list * z option

(** val syn_text_g : syn_cst -> n list **)

let syn_text_g = function
| SynPlain (s, l) -> syn_text s l
| SynQuoted (s, l) ->
  app ((Npos (XI (XI (XI (XO (XO XH)))))) :: [])
    (app (syn_text s l) ((Npos (XI (XI (XI (XO (XO XH)))))) :: []))

(** val syn_s : syn_cst -> n list **)

let syn_s = function
| SynPlain (s, _) -> s
| SynQuoted (s, _) -> s

(** val syn_l : syn_cst -> z option **)

let syn_l = function
| SynPlain (_, l) -> l
| SynQuoted (_, l) -> l

(** val usage_name : n -> n list **)

let usage_name = function
| N0 -> u_user
| Npos p ->
  (match p with
   | XI _ -> u_dsa
   | XO p0 -> (match p0 with
               | XH -> u_dist
               | _ -> u_dsa)
   | XH -> u_dir)

type at_cst = { at_h : head_cst; at_csup : n list part; at_ceq : n list part;
                at_cord : n list part; at_csub : n list part;
                at_csyn : syn_cst part; at_csingle : nat option;
                at_ccol : nat option; at_cnum : nat option;
                at_cusage : n part; at_cext : ext_cst list; at_cw1 : 
                nat }

(** val idf : n list -> n list **)

let idf o =
  o

(** val b13 : at_cst -> n list **)

let b13 c =
  end_text c.at_cext c.at_cw1

(** val b12 : at_cst -> n list **)

let b12 c =
  app (part_text s_USAGE usage_name c.at_cusage) (b13 c)

(** val b11 : at_cst -> n list **)

let b11 c =
  app (flag_text s_NOUSERMOD c.at_cnum) (b12 c)

(** val b10 : at_cst -> n list **)

let b10 c =
  app (flag_text s_COLLECTIVE c.at_ccol) (b11 c)

(** val b9 : at_cst -> n list **)

let b9 c =
  app (flag_text s_SINGLE c.at_csingle) (b10 c)

(** val b8 : at_cst -> n list **)

let b8 c =
  app (part_text s_SYNTAX syn_text_g c.at_csyn) (b9 c)

(** val b7 : at_cst -> n list **)

let b7 c =
  app (part_text s_SUBSTR idf c.at_csub) (b8 c)

(** val b6 : at_cst -> n list **)

let b6 c =
  app (part_text s_ORDERING idf c.at_cord) (b7 c)

(** val b5 : at_cst -> n list **)

let b5 c =
  app (part_text s_EQUALITY idf c.at_ceq) (b6 c)

(** val b4 : at_cst -> n list **)

let b4 c =
  app (part_text s_SUP idf c.at_csup) (b5 c)

(** val at_sentence : at_cst -> n list **)

let at_sentence c =
  head_sentence (b4 c) c.at_h

(** val part_opt : 'a1 part -> 'a1 option **)

let part_opt = function
| Some p0 -> let (_, x) = p0 in Some x
| None -> None

(** val flag_on : nat option -> bool **)

let flag_on = function
| Some _ -> true
| None -> false

(** val at_denote : at_cst -> attrtype **)

let at_denote c =
  { at_oid = c.at_h.h_oid; at_names = (part_den qdescrs_den c.at_h.h_name);
    at_desc =
    (match c.at_h.h_desc with
     | Some p -> let (_, ds) = p in Some (map den ds)
     | None -> None); at_obsolete = (flag_on c.at_h.h_obs); at_sup =
    (part_opt c.at_csup); at_equality = (part_opt c.at_ceq); at_ordering =
    (part_opt c.at_cord); at_substr = (part_opt c.at_csub); at_syntax =
    (match c.at_csyn with
     | Some p -> let (_, x) = p in Some (syn_s x)
     | None -> None); at_syntax_len =
    (match c.at_csyn with
     | Some p -> let (_, x) = p in syn_l x
     | None -> None); at_single = (flag_on c.at_csingle); at_collective =
    (flag_on c.at_ccol); at_no_user_mod = (flag_on c.at_cnum); at_usage =
    (match c.at_cusage with
     | Some p -> let (_, u) = p in u
     | None -> N0); at_ext = (exts_den c.at_cext) }

(** val part_b : ('a1 -> bool) -> 'a1 part -> bool **)

let part_b f = function
| Some p0 -> let (_, x) = p0 in f x
| None -> true

(** val qdescrs_b : qdescrs_cst -> bool **)

let qdescrs_b c =
  forallb descr_b (qdescrs_den c)

(** val oids_b : oids_cst -> bool **)

let oids_b c =
  forallb oid_b (oids_den c)

(** val dch_b : dch -> bool **)

let dch_b = function
| DPlain c ->
  (&&) (negb (N.eqb c (Npos (XI (XI (XI (XO (XO XH))))))))
    (negb (N.eqb c (Npos (XO (XO (XI (XI (XI (XO XH)))))))))
| _ -> true

(** val ds_b : dch list -> bool **)

let ds_b ds = match ds with
| [] -> false
| _ :: _ -> forallb dch_b ds

(** val qdstrings_b : qdstrings_cst -> bool **)

let qdstrings_b c =
  forallb ds_b (qdstrings_parts c)

(** val xkey_b : n list -> bool **)

let xkey_b a =
  (&&) (nonempty_b a) (forallb is_xc a)

(** val extc_b : ext_cst -> bool **)

let extc_b x =
  (&&) (xkey_b x.e_key) (qdstrings_b x.e_vals)

(** val exts_b : ext_cst list -> bool **)

let exts_b e =
  forallb extc_b e

(** val head_b : head_cst -> bool **)

let head_b h =
  (&&) ((&&) (numoid_b h.h_oid) (part_b qdescrs_b h.h_name))
    (part_b ds_b h.h_desc)

(** val oc_cst_b : oc_cst -> bool **)

let oc_cst_b c =
  (&&)
    ((&&)
      ((&&)
        ((&&) ((&&) (head_b c.oc_h) (part_b oids_b c.oc_csup))
          (match c.oc_ckind with
           | Some p -> let (_, k) = p in N.ltb k (Npos (XI XH))
           | None -> true)) (part_b oids_b c.oc_cmust))
      (part_b oids_b c.oc_cmay)) (exts_b c.oc_cext)

(** val dcr_cst_b : dcr_cst -> bool **)

let dcr_cst_b c =
  (&&)
    ((&&)
      ((&&)
        ((&&) ((&&) (head_b c.dc_h) (part_b oids_b c.dc_caux))
          (part_b oids_b c.dc_cmust)) (part_b oids_b c.dc_cmay))
      (part_b oids_b c.dc_cnot)) (exts_b c.dc_cext)

(** val syn_cst_b : syn_cst -> bool **)

let syn_cst_b x =
  (&&) (numoid_b (syn_s x))
    (match syn_l x with
     | Some z0 -> Z.leb Z0 z0
     | None -> true)

(** val usage_b : n -> bool **)

let usage_b u =
  N.ltb u (Npos (XO (XO XH)))

(** val at_cst_b : at_cst -> bool **)

let at_cst_b c =
  (&&)
    ((&&)
      ((&&)
        ((&&)
          ((&&)
            ((&&) ((&&) (head_b c.at_h) (part_b oid_b c.at_csup))
              (part_b oid_b c.at_ceq)) (part_b oid_b c.at_cord))
          (part_b oid_b c.at_csub)) (part_b syn_cst_b c.at_csyn))
      (part_b usage_b c.at_cusage)) (exts_b c.at_cext)

(** val g_nat : sexp -> nat option **)

let g_nat s =
  obind (g_n s) (fun n0 -> Some (N.to_nat n0))

(** val g_part : (sexp -> 'a1 option) -> sexp -> 'a1 part option **)

let g_part f = function
| SList l ->
  (match l with
   | [] -> Some None
   | a :: l0 ->
     (match l0 with
      | [] -> None
      | b :: l1 ->
        (match l1 with
         | [] -> None
         | x :: l2 ->
           (match l2 with
            | [] ->
              obind (g_nat a) (fun a0 ->
                obind (g_nat b) (fun b0 ->
                  obind (f x) (fun x0 -> Some (Some ((a0, b0), x0)))))
            | _ :: _ -> None))))
| _ -> None

(** val g_dch : sexp -> dch option **)

let g_dch = function
| SInt z0 ->
  if Z.eqb z0 (Zneg XH)
  then Some DQuote
  else if Z.eqb z0 (Zneg (XO XH))
       then Some DBslLower
       else if Z.eqb z0 (Zneg (XI XH))
            then Some DBslUpper
            else if Z.ltb z0 Z0 then None else Some (DPlain (Z.to_N z0))
| _ -> None

(** val g_ds : sexp -> dch list option **)

let g_ds =
  g_list g_dch

(** val g_qdescrs : sexp -> qdescrs_cst option **)

let g_qdescrs = function
| SList l ->
  (match l with
   | [] -> None
   | s0 :: l0 ->
     (match s0 with
      | SInt z0 ->
        (match z0 with
         | Z0 ->
           (match l0 with
            | [] -> None
            | n0 :: l1 ->
              (match l1 with
               | [] -> obind (g_ustr n0) (fun n1 -> Some (QBare n1))
               | _ :: _ -> None))
         | Zpos p ->
           (match p with
            | XI _ -> None
            | XO p0 ->
              (match p0 with
               | XH ->
                 (match l0 with
                  | [] -> None
                  | w0 :: l1 ->
                    (match l1 with
                     | [] -> None
                     | n0 :: l2 ->
                       (match l2 with
                        | [] -> None
                        | items :: l3 ->
                          (match l3 with
                           | [] -> None
                           | w1 :: l4 ->
                             (match l4 with
                              | [] ->
                                obind (g_nat w0) (fun w2 ->
                                  obind (g_ustr n0) (fun n1 ->
                                    obind
                                      (g_list (fun p1 ->
                                        match p1 with
                                        | SList l5 ->
                                          (match l5 with
                                           | [] -> None
                                           | a :: l6 ->
                                             (match l6 with
                                              | [] -> None
                                              | m :: l7 ->
                                                (match l7 with
                                                 | [] ->
                                                   obind (g_nat a) (fun a0 ->
                                                     obind (g_ustr m)
                                                       (fun m0 -> Some (a0,
                                                       m0)))
                                                 | _ :: _ -> None)))
                                        | _ -> None) items) (fun items0 ->
                                      obind (g_nat w1) (fun w3 -> Some
                                        (QParen (w2, n1, items0, w3))))))
                              | _ :: _ -> None)))))
               | _ -> None)
            | XH ->
              (match l0 with
               | [] -> None
               | w :: l1 ->
                 (match l1 with
                  | [] -> obind (g_nat w) (fun w0 -> Some (QEmpty w0))
                  | _ :: _ -> None)))
         | Zneg _ -> None)
      | _ -> None))
| _ -> None

(** val g_oidsc : sexp -> oids_cst option **)

let g_oidsc = function
| SList l ->
  (match l with
   | [] -> None
   | s0 :: l0 ->
     (match s0 with
      | SInt z0 ->
        (match z0 with
         | Z0 ->
           (match l0 with
            | [] -> None
            | o :: l1 ->
              (match l1 with
               | [] -> obind (g_ustr o) (fun o0 -> Some (OBare o0))
               | _ :: _ -> None))
         | Zpos p ->
           (match p with
            | XH ->
              (match l0 with
               | [] -> None
               | w0 :: l1 ->
                 (match l1 with
                  | [] -> None
                  | x :: l2 ->
                    (match l2 with
                     | [] -> None
                     | items :: l3 ->
                       (match l3 with
                        | [] -> None
                        | w1 :: l4 ->
                          (match l4 with
                           | [] ->
                             obind (g_nat w0) (fun w2 ->
                               obind (g_ustr x) (fun x0 ->
                                 obind
                                   (g_list (fun p0 ->
                                     match p0 with
                                     | SList l5 ->
                                       (match l5 with
                                        | [] -> None
                                        | a :: l6 ->
                                          (match l6 with
                                           | [] -> None
                                           | b :: l7 ->
                                             (match l7 with
                                              | [] -> None
                                              | o :: l8 ->
                                                (match l8 with
                                                 | [] ->
                                                   obind (g_nat a) (fun a0 ->
                                                     obind (g_nat b)
                                                       (fun b0 ->
                                                       obind (g_ustr o)
                                                         (fun o0 -> Some
                                                         ((a0, b0), o0))))
                                                 | _ :: _ -> None))))
                                     | _ -> None) items) (fun items0 ->
                                   obind (g_nat w1) (fun w3 -> Some (OParen
                                     (w2, x0, items0, w3))))))
                           | _ :: _ -> None)))))
            | _ -> None)
         | Zneg _ -> None)
      | _ -> None))
| _ -> None

(** val g_qdstrings : sexp -> qdstrings_cst option **)

let g_qdstrings = function
| SList l ->
  (match l with
   | [] -> None
   | s0 :: l0 ->
     (match s0 with
      | SInt z0 ->
        (match z0 with
         | Z0 ->
           (match l0 with
            | [] -> None
            | ds :: l1 ->
              (match l1 with
               | [] -> obind (g_ds ds) (fun ds0 -> Some (SBare ds0))
               | _ :: _ -> None))
         | Zpos p ->
           (match p with
            | XI _ -> None
            | XO p0 ->
              (match p0 with
               | XH ->
                 (match l0 with
                  | [] -> None
                  | w0 :: l1 ->
                    (match l1 with
                     | [] -> None
                     | ds :: l2 ->
                       (match l2 with
                        | [] -> None
                        | items :: l3 ->
                          (match l3 with
                           | [] -> None
                           | w1 :: l4 ->
                             (match l4 with
                              | [] ->
                                obind (g_nat w0) (fun w2 ->
                                  obind (g_ds ds) (fun ds0 ->
                                    obind
                                      (g_list (fun p1 ->
                                        match p1 with
                                        | SList l5 ->
                                          (match l5 with
                                           | [] -> None
                                           | a :: l6 ->
                                             (match l6 with
                                              | [] -> None
                                              | d :: l7 ->
                                                (match l7 with
                                                 | [] ->
                                                   obind (g_nat a) (fun a0 ->
                                                     obind (g_ds d)
                                                       (fun d0 -> Some (a0,
                                                       d0)))
                                                 | _ :: _ -> None)))
                                        | _ -> None) items) (fun items0 ->
                                      obind (g_nat w1) (fun w3 -> Some
                                        (SParen (w2, ds0, items0, w3))))))
                              | _ :: _ -> None)))))
               | _ -> None)
            | XH ->
              (match l0 with
               | [] -> None
               | w :: l1 ->
                 (match l1 with
                  | [] -> obind (g_nat w) (fun w0 -> Some (SEmpty w0))
                  | _ :: _ -> None)))
         | Zneg _ -> None)
      | _ -> None))
| _ -> None

(** val g_extc : sexp -> ext_cst option **)

let g_extc = function
| SList l ->
  (match l with
   | [] -> None
   | a :: l0 ->
     (match l0 with
      | [] -> None
      | k :: l1 ->
        (match l1 with
         | [] -> None
         | b :: l2 ->
           (match l2 with
            | [] -> None
            | v :: l3 ->
              (match l3 with
               | [] ->
                 obind (g_nat a) (fun a0 ->
                   obind (g_ustr k) (fun k0 ->
                     obind (g_nat b) (fun b0 ->
                       obind (g_qdstrings v) (fun v0 -> Some { e_a = a0;
                         e_key = k0; e_b = b0; e_vals = v0 }))))
               | _ :: _ -> None)))))
| _ -> None

(** val g_head : sexp -> head_cst option **)

let g_head = function
| SList l ->
  (match l with
   | [] -> None
   | w0 :: l0 ->
     (match l0 with
      | [] -> None
      | oid :: l1 ->
        (match l1 with
         | [] -> None
         | name :: l2 ->
           (match l2 with
            | [] -> None
            | desc :: l3 ->
              (match l3 with
               | [] -> None
               | obs :: l4 ->
                 (match l4 with
                  | [] ->
                    obind (g_nat w0) (fun w1 ->
                      obind (g_ustr oid) (fun oid0 ->
                        obind (g_part g_qdescrs name) (fun name0 ->
                          obind (g_part g_ds desc) (fun desc0 ->
                            obind (g_opt g_nat obs) (fun obs0 -> Some
                              { h_w0 = w1; h_oid = oid0; h_name = name0;
                              h_desc = desc0; h_obs = obs0 })))))
                  | _ :: _ -> None))))))
| _ -> None

(** val g_occ : sexp -> oc_cst option **)

let g_occ = function
| SList l ->
  (match l with
   | [] -> None
   | h :: l0 ->
     (match l0 with
      | [] -> None
      | sup :: l1 ->
        (match l1 with
         | [] -> None
         | kind0 :: l2 ->
           (match l2 with
            | [] -> None
            | must :: l3 ->
              (match l3 with
               | [] -> None
               | may :: l4 ->
                 (match l4 with
                  | [] -> None
                  | exts :: l5 ->
                    (match l5 with
                     | [] -> None
                     | w1 :: l6 ->
                       (match l6 with
                        | [] ->
                          obind (g_head h) (fun h0 ->
                            obind (g_part g_oidsc sup) (fun sup0 ->
                              obind
                                (g_opt (fun p ->
                                  match p with
                                  | SList l7 ->
                                    (match l7 with
                                     | [] -> None
                                     | a :: l8 ->
                                       (match l8 with
                                        | [] -> None
                                        | k :: l9 ->
                                          (match l9 with
                                           | [] ->
                                             obind (g_nat a) (fun a0 ->
                                               obind (g_n k) (fun k0 -> Some
                                                 (a0, k0)))
                                           | _ :: _ -> None)))
                                  | _ -> None) kind0) (fun kind1 ->
                                obind (g_part g_oidsc must) (fun must0 ->
                                  obind (g_part g_oidsc may) (fun may0 ->
                                    obind (g_list g_extc exts) (fun exts0 ->
                                      obind (g_nat w1) (fun w2 -> Some
                                        { oc_h = h0; oc_csup = sup0;
                                        oc_ckind = kind1; oc_cmust = must0;
                                        oc_cmay = may0; oc_cext = exts0;
                                        oc_cw1 = w2 })))))))
                        | _ :: _ -> None))))))))
| _ -> None

(** val g_dcrc : sexp -> dcr_cst option **)

let g_dcrc = function
| SList l ->
  (match l with
   | [] -> None
   | h :: l0 ->
     (match l0 with
      | [] -> None
      | aux :: l1 ->
        (match l1 with
         | [] -> None
         | must :: l2 ->
           (match l2 with
            | [] -> None
            | may :: l3 ->
              (match l3 with
               | [] -> None
               | nt :: l4 ->
                 (match l4 with
                  | [] -> None
                  | exts :: l5 ->
                    (match l5 with
                     | [] -> None
                     | w1 :: l6 ->
                       (match l6 with
                        | [] ->
                          obind (g_head h) (fun h0 ->
                            obind (g_part g_oidsc aux) (fun aux0 ->
                              obind (g_part g_oidsc must) (fun must0 ->
                                obind (g_part g_oidsc may) (fun may0 ->
                                  obind (g_part g_oidsc nt) (fun nt0 ->
                                    obind (g_list g_extc exts) (fun exts0 ->
                                      obind (g_nat w1) (fun w2 -> Some
                                        { dc_h = h0; dc_caux = aux0;
                                        dc_cmust = must0; dc_cmay = may0;
                                        dc_cnot = nt0; dc_cext = exts0;
                                        dc_cw1 = w2 })))))))
                        | _ :: _ -> None))))))))
| _ -> None

(** val g_syn : sexp -> syn_cst option **)

let g_syn = function
| SList l0 ->
  (match l0 with
   | [] -> None
   | s0 :: l1 ->
     (match s0 with
      | SInt z0 ->
        (match z0 with
         | Z0 ->
           (match l1 with
            | [] -> None
            | o :: l2 ->
              (match l2 with
               | [] -> None
               | l :: l3 ->
                 (match l3 with
                  | [] ->
                    obind (g_ustr o) (fun o0 ->
                      obind (g_opt g_z l) (fun l4 -> Some (SynPlain (o0, l4))))
                  | _ :: _ -> None)))
         | Zpos p ->
           (match p with
            | XH ->
              (match l1 with
               | [] -> None
               | o :: l2 ->
                 (match l2 with
                  | [] -> None
                  | l :: l3 ->
                    (match l3 with
                     | [] ->
                       obind (g_ustr o) (fun o0 ->
                         obind (g_opt g_z l) (fun l4 -> Some (SynQuoted (o0,
                           l4))))
                     | _ :: _ -> None)))
            | _ -> None)
         | Zneg _ -> None)
      | _ -> None))
| _ -> None

(** val g_atc : sexp -> at_cst option **)

let g_atc = function
| SList l ->
  (match l with
   | [] -> None
   | h :: l0 ->
     (match l0 with
      | [] -> None
      | sup :: l1 ->
        (match l1 with
         | [] -> None
         | eq :: l2 ->
           (match l2 with
            | [] -> None
            | ord :: l3 ->
              (match l3 with
               | [] -> None
               | sub0 :: l4 ->
                 (match l4 with
                  | [] -> None
                  | syn :: l5 ->
                    (match l5 with
                     | [] -> None
                     | single :: l6 ->
                       (match l6 with
                        | [] -> None
                        | col :: l7 ->
                          (match l7 with
                           | [] -> None
                           | num :: l8 ->
                             (match l8 with
                              | [] -> None
                              | usage :: l9 ->
                                (match l9 with
                                 | [] -> None
                                 | exts :: l10 ->
                                   (match l10 with
                                    | [] -> None
                                    | w1 :: l11 ->
                                      (match l11 with
                                       | [] ->
                                         obind (g_head h) (fun h0 ->
                                           obind (g_part g_ustr sup)
                                             (fun sup0 ->
                                             obind (g_part g_ustr eq)
                                               (fun eq0 ->
                                               obind (g_part g_ustr ord)
                                                 (fun ord0 ->
                                                 obind (g_part g_ustr sub0)
                                                   (fun sub1 ->
                                                   obind (g_part g_syn syn)
                                                     (fun syn0 ->
                                                     obind
                                                       (g_opt g_nat single)
                                                       (fun single0 ->
                                                       obind
                                                         (g_opt g_nat col)
                                                         (fun col0 ->
                                                         obind
                                                           (g_opt g_nat num)
                                                           (fun num0 ->
                                                           obind
                                                             (g_part g_n
                                                               usage)
                                                             (fun usage0 ->
                                                             obind
                                                               (g_list g_extc
                                                                 exts)
                                                               (fun exts0 ->
                                                               obind
                                                                 (g_nat w1)
                                                                 (fun w2 ->
                                                                 Some
                                                                 { at_h = h0;
                                                                 at_csup =
                                                                 sup0;
                                                                 at_ceq =
                                                                 eq0;
                                                                 at_cord =
                                                                 ord0;
                                                                 at_csub =
                                                                 sub1;
                                                                 at_csyn =
                                                                 syn0;
                                                                 at_csingle =
                                                                 single0;
                                                                 at_ccol =
                                                                 col0;
                                                                 at_cnum =
                                                                 num0;
                                                                 at_cusage =
                                                                 usage0;
                                                                 at_cext =
                                                                 exts0;
                                                                 at_cw1 =
                                                                 w2 }))))))))))))
                                       | _ :: _ -> None)))))))))))))
| _ -> None

(** val rx_by_id : z -> ((rx * end_anchor) * nat) option **)

let rx_by_id = function
| Z0 -> Some ((rx_object_class, rx_object_class_end), rx_object_class_ngroups)
| Zpos p ->
  (match p with
   | XI p0 ->
     (match p0 with
      | XH -> Some ((rx_noidlen, rx_noidlen_end), rx_noidlen_ngroups)
      | _ -> None)
   | XO p0 ->
     (match p0 with
      | XI _ -> None
      | XO p1 ->
        (match p1 with
         | XH -> Some ((rx_attribute, rx_attribute_end), rx_attribute_ngroups)
         | _ -> None)
      | XH ->
        Some ((rx_dit_content_rule, rx_dit_content_rule_end),
          rx_dit_content_rule_ngroups))
   | XH ->
     Some ((rx_attribute_type, rx_attribute_type_end),
       rx_attribute_type_ngroups))
| Zneg _ -> None

(** val s_match : rx -> end_anchor -> nat -> ustr -> sexp **)

let s_match r e n0 t =
  match re_match r e t with
  | BFuel -> SList ((SInt (Zpos (XO XH))) :: [])
  | BNo -> SList ((SInt (Zpos XH)) :: [])
  | BYes (p, cs) ->
    SList ((SInt Z0) :: ((SInt (Z.of_nat p)) :: ((SList
      (map (fun g ->
        match cap_lookup g cs with
        | Some p0 ->
          let (a, b) = p0 in
          SList ((SInt (Z.of_nat a)) :: ((SInt (Z.of_nat b)) :: []))
        | None -> SList []) (seq (S O) n0))) :: [])))

(** val cst_answer :
    ('a1 -> sexp) -> ustr -> bool -> 'a1 -> (ustr -> 'a1 res) -> sexp **)

let cst_answer sa text wf d parse =
  SList
    ((s_ustr text) :: ((s_bool wf) :: ((sa d) :: ((s_res sa (parse text)) :: []))))

(** val run_schema_ext : z -> sexp list -> sexp option **)

let run_schema_ext cmd args =
  match cmd with
  | Zpos p ->
    (match p with
     | XI p0 ->
       (match p0 with
        | XI p1 ->
          (match p1 with
           | XO p2 ->
             (match p2 with
              | XI p3 ->
                (match p3 with
                 | XO p4 ->
                   (match p4 with
                    | XO p5 ->
                      (match p5 with
                       | XI p6 ->
                         (match p6 with
                          | XO p7 ->
                            (match p7 with
                             | XH ->
                               (match args with
                                | [] -> None
                                | c :: l ->
                                  (match l with
                                   | [] ->
                                     obind (g_atc c) (fun c0 -> Some
                                       (cst_answer s_at (at_sentence c0)
                                         (at_cst_b c0) (at_denote c0)
                                         at_from_string))
                                   | _ :: _ -> None))
                             | _ -> None)
                          | _ -> None)
                       | _ -> None)
                    | _ -> None)
                 | _ -> None)
              | _ -> None)
           | _ -> None)
        | XO p1 ->
          (match p1 with
           | XO p2 ->
             (match p2 with
              | XO p3 ->
                (match p3 with
                 | XO p4 ->
                   (match p4 with
                    | XO p5 ->
                      (match p5 with
                       | XI p6 ->
                         (match p6 with
                          | XO p7 ->
                            (match p7 with
                             | XH ->
                               (match args with
                                | [] -> None
                                | o :: l ->
                                  (match l with
                                   | [] ->
                                     obind (g_at o) (fun o0 -> Some
                                       (s_bool (wf_at_b o0)))
                                   | _ :: _ -> None))
                             | _ -> None)
                          | _ -> None)
                       | _ -> None)
                    | _ -> None)
                 | _ -> None)
              | _ -> None)
           | _ -> None)
        | XH -> None)
     | XO p0 ->
       (match p0 with
        | XI p1 ->
          (match p1 with
           | XO p2 ->
             (match p2 with
              | XI p3 ->
                (match p3 with
                 | XO p4 ->
                   (match p4 with
                    | XO p5 ->
                      (match p5 with
                       | XI p6 ->
                         (match p6 with
                          | XO p7 ->
                            (match p7 with
                             | XH ->
                               (match args with
                                | [] -> None
                                | c :: l ->
                                  (match l with
                                   | [] ->
                                     obind (g_occ c) (fun c0 -> Some
                                       (cst_answer s_oc (oc_sentence c0)
                                         (oc_cst_b c0) (oc_denote c0)
                                         oc_from_string))
                                   | _ :: _ -> None))
                             | _ -> None)
                          | _ -> None)
                       | _ -> None)
                    | _ -> None)
                 | _ -> None)
              | XO p3 ->
                (match p3 with
                 | XO p4 ->
                   (match p4 with
                    | XO p5 ->
                      (match p5 with
                       | XI p6 ->
                         (match p6 with
                          | XO p7 ->
                            (match p7 with
                             | XH ->
                               (match args with
                                | [] -> None
                                | o :: l ->
                                  (match l with
                                   | [] ->
                                     obind (g_dcr o) (fun o0 -> Some
                                       (s_bool (wf_dcr_b o0)))
                                   | _ :: _ -> None))
                             | _ -> None)
                          | _ -> None)
                       | _ -> None)
                    | _ -> None)
                 | _ -> None)
              | XH -> None)
           | _ -> None)
        | XO p1 ->
          (match p1 with
           | XI p2 ->
             (match p2 with
              | XI p3 ->
                (match p3 with
                 | XO p4 ->
                   (match p4 with
                    | XO p5 ->
                      (match p5 with
                       | XI p6 ->
                         (match p6 with
                          | XO p7 ->
                            (match p7 with
                             | XH ->
                               (match args with
                                | [] -> None
                                | c :: l ->
                                  (match l with
                                   | [] ->
                                     obind (g_dcrc c) (fun c0 -> Some
                                       (cst_answer s_dcr (dcr_sentence c0)
                                         (dcr_cst_b c0) (dcr_denote c0)
                                         dcr_from_string))
                                   | _ :: _ -> None))
                             | _ -> None)
                          | _ -> None)
                       | _ -> None)
                    | _ -> None)
                 | _ -> None)
              | XO p3 ->
                (match p3 with
                 | XI p4 ->
                   (match p4 with
                    | XO p5 ->
                      (match p5 with
                       | XI p6 ->
                         (match p6 with
                          | XO p7 ->
                            (match p7 with
                             | XH ->
                               (match args with
                                | [] -> None
                                | s :: l ->
                                  (match s with
                                   | SInt i ->
                                     (match l with
                                      | [] -> None
                                      | t :: l0 ->
                                        (match l0 with
                                         | [] ->
                                           obind (g_ustr t) (fun t0 ->
                                             match rx_by_id i with
                                             | Some p8 ->
                                               let (p9, n0) = p8 in
                                               let (r, e) = p9 in
                                               Some (s_match r e n0 t0)
                                             | None -> None)
                                         | _ :: _ -> None))
                                   | _ -> None))
                             | _ -> None)
                          | _ -> None)
                       | _ -> None)
                    | _ -> None)
                 | _ -> None)
              | XH -> None)
           | XO p2 ->
             (match p2 with
              | XO p3 ->
                (match p3 with
                 | XO p4 ->
                   (match p4 with
                    | XO p5 ->
                      (match p5 with
                       | XI p6 ->
                         (match p6 with
                          | XO p7 ->
                            (match p7 with
                             | XH ->
                               (match args with
                                | [] -> None
                                | o :: l ->
                                  (match l with
                                   | [] ->
                                     obind (g_oc o) (fun o0 -> Some
                                       (s_bool (wf_oc_b o0)))
                                   | _ :: _ -> None))
                             | _ -> None)
                          | _ -> None)
                       | _ -> None)
                    | _ -> None)
                 | _ -> None)
              | _ -> None)
           | XH -> None)
        | XH -> None)
     | XH -> None)
  | _ -> None

(** val runx : sexp -> sexp **)

let runx req = match req with
| SList l ->
  (match l with
   | [] -> bad
   | s :: args ->
     (match s with
      | SInt cmd ->
        if Z.leb (Zpos (XO (XO (XO (XO (XO (XO (XI (XO XH))))))))) cmd
        then or_bad (run_schema_ext cmd args)
        else run req
      | _ -> bad))
| _ -> bad
