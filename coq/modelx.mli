
val xorb : bool -> bool -> bool

val negb : bool -> bool

type nat =
| O
| S of nat

val option_map : ('a1 -> 'a2) -> 'a1 option -> 'a2 option

type ('a, 'b) sum =
| Inl of 'a
| Inr of 'b

val fst : ('a1 * 'a2) -> 'a1

val snd : ('a1 * 'a2) -> 'a2

val length : 'a1 list -> nat

val app : 'a1 list -> 'a1 list -> 'a1 list

type comparison =
| Eq
| Lt
| Gt

val compOpp : comparison -> comparison

val add : nat -> nat -> nat

val mul : nat -> nat -> nat

val sub : nat -> nat -> nat

type byte =
| X00
| X01
| X02
| X03
| X04
| X05
| X06
| X07
| X08
| X09
| X0a
| X0b
| X0c
| X0d
| X0e
| X0f
| X10
| X11
| X12
| X13
| X14
| X15
| X16
| X17
| X18
| X19
| X1a
| X1b
| X1c
| X1d
| X1e
| X1f
| X20
| X21
| X22
| X23
| X24
| X25
| X26
| X27
| X28
| X29
| X2a
| X2b
| X2c
| X2d
| X2e
| X2f
| X30
| X31
| X32
| X33
| X34
| X35
| X36
| X37
| X38
| X39
| X3a
| X3b
| X3c
| X3d
| X3e
| X3f
| X40
| X41
| X42
| X43
| X44
| X45
| X46
| X47
| X48
| X49
| X4a
| X4b
| X4c
| X4d
| X4e
| X4f
| X50
| X51
| X52
| X53
| X54
| X55
| X56
| X57
| X58
| X59
| X5a
| X5b
| X5c
| X5d
| X5e
| X5f
| X60
| X61
| X62
| X63
| X64
| X65
| X66
| X67
| X68
| X69
| X6a
| X6b
| X6c
| X6d
| X6e
| X6f
| X70
| X71
| X72
| X73
| X74
| X75
| X76
| X77
| X78
| X79
| X7a
| X7b
| X7c
| X7d
| X7e
| X7f
| X80
| X81
| X82
| X83
| X84
| X85
| X86
| X87
| X88
| X89
| X8a
| X8b
| X8c
| X8d
| X8e
| X8f
| X90
| X91
| X92
| X93
| X94
| X95
| X96
| X97
| X98
| X99
| X9a
| X9b
| X9c
| X9d
| X9e
| X9f
| Xa0
| Xa1
| Xa2
| Xa3
| Xa4
| Xa5
| Xa6
| Xa7
| Xa8
| Xa9
| Xaa
| Xab
| Xac
| Xad
| Xae
| Xaf
| Xb0
| Xb1
| Xb2
| Xb3
| Xb4
| Xb5
| Xb6
| Xb7
| Xb8
| Xb9
| Xba
| Xbb
| Xbc
| Xbd
| Xbe
| Xbf
| Xc0
| Xc1
| Xc2
| Xc3
| Xc4
| Xc5
| Xc6
| Xc7
| Xc8
| Xc9
| Xca
| Xcb
| Xcc
| Xcd
| Xce
| Xcf
| Xd0
| Xd1
| Xd2
| Xd3
| Xd4
| Xd5
| Xd6
| Xd7
| Xd8
| Xd9
| Xda
| Xdb
| Xdc
| Xdd
| Xde
| Xdf
| Xe0
| Xe1
| Xe2
| Xe3
| Xe4
| Xe5
| Xe6
| Xe7
| Xe8
| Xe9
| Xea
| Xeb
| Xec
| Xed
| Xee
| Xef
| Xf0
| Xf1
| Xf2
| Xf3
| Xf4
| Xf5
| Xf6
| Xf7
| Xf8
| Xf9
| Xfa
| Xfb
| Xfc
| Xfd
| Xfe
| Xff

val to_bits :
  byte -> bool * (bool * (bool * (bool * (bool * (bool * (bool * bool))))))

type positive =
| XI of positive
| XO of positive
| XH

type n =
| N0
| Npos of positive

type z =
| Z0
| Zpos of positive
| Zneg of positive

val eqb : bool -> bool -> bool

module Nat :
 sig
  val eqb : nat -> nat -> bool
 end

module Pos :
 sig
  type mask =
  | IsNul
  | IsPos of positive
  | IsNeg
 end

module Coq_Pos :
 sig
  val succ : positive -> positive

  val add : positive -> positive -> positive

  val add_carry : positive -> positive -> positive

  val pred_double : positive -> positive

  type mask = Pos.mask =
  | IsNul
  | IsPos of positive
  | IsNeg

  val succ_double_mask : mask -> mask

  val double_mask : mask -> mask

  val double_pred_mask : positive -> mask

  val sub_mask : positive -> positive -> mask

  val sub_mask_carry : positive -> positive -> mask

  val mul : positive -> positive -> positive

  val iter : ('a1 -> 'a1) -> 'a1 -> positive -> 'a1

  val size : positive -> positive

  val compare_cont : comparison -> positive -> positive -> comparison

  val compare : positive -> positive -> comparison

  val eqb : positive -> positive -> bool

  val iter_op : ('a1 -> 'a1 -> 'a1) -> positive -> 'a1 -> 'a1

  val to_nat : positive -> nat

  val of_succ_nat : nat -> positive
 end

module N :
 sig
  val succ_double : n -> n

  val double : n -> n

  val add : n -> n -> n

  val sub : n -> n -> n

  val mul : n -> n -> n

  val compare : n -> n -> comparison

  val eqb : n -> n -> bool

  val leb : n -> n -> bool

  val ltb : n -> n -> bool

  val log2 : n -> n

  val pos_div_eucl : positive -> n -> n * n

  val div_eucl : n -> n -> n * n

  val div : n -> n -> n

  val modulo : n -> n -> n

  val to_nat : n -> nat

  val of_nat : nat -> n
 end

module Z :
 sig
  val double : z -> z

  val succ_double : z -> z

  val pred_double : z -> z

  val pos_sub : positive -> positive -> z

  val add : z -> z -> z

  val opp : z -> z

  val sub : z -> z -> z

  val mul : z -> z -> z

  val pow_pos : z -> positive -> z

  val pow : z -> z -> z

  val compare : z -> z -> comparison

  val leb : z -> z -> bool

  val ltb : z -> z -> bool

  val eqb : z -> z -> bool

  val max : z -> z -> z

  val min : z -> z -> z

  val to_nat : z -> nat

  val to_N : z -> n

  val of_nat : nat -> z

  val of_N : n -> z

  val pos_div_eucl : positive -> z -> z * z

  val div_eucl : z -> z -> z * z

  val div : z -> z -> z

  val modulo : z -> z -> z

  val log2 : z -> z
 end

val tl : 'a1 list -> 'a1 list

val nth : nat -> 'a1 list -> 'a1 -> 'a1

val last : 'a1 list -> 'a1 -> 'a1

val rev : 'a1 list -> 'a1 list

val concat : 'a1 list list -> 'a1 list

val map : ('a1 -> 'a2) -> 'a1 list -> 'a2 list

val flat_map : ('a1 -> 'a2 list) -> 'a1 list -> 'a2 list

val fold_left : ('a1 -> 'a2 -> 'a1) -> 'a2 list -> 'a1 -> 'a1

val fold_right : ('a2 -> 'a1 -> 'a1) -> 'a1 -> 'a2 list -> 'a1

val existsb : ('a1 -> bool) -> 'a1 list -> bool

val forallb : ('a1 -> bool) -> 'a1 list -> bool

val filter : ('a1 -> bool) -> 'a1 list -> 'a1 list

val find : ('a1 -> bool) -> 'a1 list -> 'a1 option

val firstn : nat -> 'a1 list -> 'a1 list

val skipn : nat -> 'a1 list -> 'a1 list

val seq : nat -> nat -> nat list

val repeat : 'a1 -> nat -> 'a1 list

val eqb0 : byte -> byte -> bool

val to_nat0 : byte -> nat

val to_N0 : byte -> n

val of_N0 : n -> byte option

val b2n : byte -> n

val b2z : byte -> z

val n2b : n -> byte

val z2b : z -> byte

val byte_eqb : byte -> byte -> bool

val bytes_eqb : byte list -> byte list -> bool

val nlen : 'a1 list -> n

val take : n -> 'a1 list -> 'a1 list

val drop : n -> 'a1 list -> 'a1 list

type crash =
| IndexErr
| KeyErr
| TypeErr
| RecursionErr
| UnicodeErr
| OutOfFuel

type err =
| ValueErr
| NotImpl
| NeedMore
| Crash of crash

type 'a res =
| Ok of 'a
| Raise of err

val bind : 'a1 res -> ('a1 -> 'a2 res) -> 'a2 res

type sexp =
| SInt of z
| SBytes of byte list
| SList of sexp list

val s_n : n -> sexp

val s_bool : bool -> sexp

val s_opt : ('a1 -> sexp) -> 'a1 option -> sexp

val s_list : ('a1 -> sexp) -> 'a1 list -> sexp

val s_pair : ('a1 -> sexp) -> ('a2 -> sexp) -> ('a1 * 'a2) -> sexp

val crash_code : crash -> z

val err_code : err -> z

val s_res : ('a1 -> sexp) -> 'a1 res -> sexp

val g_z : sexp -> z option

val g_n : sexp -> n option

val g_bool : sexp -> bool option

val g_bytes : sexp -> byte list option

val g_opt : (sexp -> 'a1 option) -> sexp -> 'a1 option option

val g_all : (sexp -> 'a1 option) -> sexp list -> 'a1 list option

val g_list : (sexp -> 'a1 option) -> sexp -> 'a1 list option

val obind : 'a1 option -> ('a1 -> 'a2 option) -> 'a2 option

type rx =
| Nul
| Eps
| Chr of bool * (n * n) list
| Cat of rx * rx
| Alt of rx * rx
| Star of rx
| Group of nat * rx

type end_anchor =
| NoEnd
| EndDollar
| EndZ

val in_ranges : n -> (n * n) list -> bool

val chr_ok : bool -> (n * n) list -> n -> bool

val nullable : rx -> bool

val cat : rx -> rx -> rx

val alt : rx -> rx -> rx

val deriv : n -> rx -> rx

val matches : rx -> n list -> bool

val prefix_matches : rx -> n list -> bool

val anchored_match : rx -> end_anchor -> n list -> bool

type caps = (nat * (nat * nat)) list

val rsize : rx -> nat

type bres =
| BFuel
| BNo
| BYes of nat * caps

val bt :
  nat -> rx -> n list -> nat -> caps -> (n list -> nat -> caps -> bres) ->
  bres

val bt_fuel : rx -> n list -> nat

val re_match : rx -> end_anchor -> n list -> bres

val cap_lookup : nat -> caps -> (nat * nat) option

val slice : 'a1 list -> nat -> nat -> 'a1 list

val group_text : n list -> caps -> nat -> n list option

val re_sub_loop :
  nat -> rx -> (n list -> n list option) -> n list -> n list option option

val re_sub : rx -> (n list -> n list option) -> n list -> n list option option

val type_tag_numbers : n list

val result_codes : n list

val search_scopes : n list

val deref_policies : n list

val tn_boolean : n

val tn_integer : n

val tn_octet_string : n

val tn_enumerated : n

val tn_sequence : n

val tn_set : n

val cls_universal : n

val cls_application : n

val cls_context : n

val rc_sasl_bind_in_progress : n

val result_code_open : bool

val op_bind_request : n

val op_bind_response : n

val op_unbind_request : n

val op_search_request : n

val op_search_result_entry : n

val op_search_result_done : n

val op_search_result_reference : n

val op_extended_request : n

val op_extended_response : n

val protocol_packer_keys : n list

val fid_and : n

val fid_or : n

val fid_not : n

val fid_equality : n

val fid_substrings : n

val fid_ge : n

val fid_le : n

val fid_present : n

val fid_approx : n

val fid_extensible : n

val default_filter_choices : n list

val aid_simple : n

val aid_sasl : n

val default_auth_choices : n list

val oid_paged : byte list

val oid_show_deleted : byte list

val oid_show_deactivated : byte list

val default_control_choices : n list

val oid_notice_of_disconnection : byte list

val session_ldap_version : z

val rx_attribute : rx

val rx_attribute_end : end_anchor

val rx_attribute_ngroups : nat

val rx_hex : rx

val rx_hex_end : end_anchor

val rx_ldap_escape : rx

val rx_string_escape : rx

val rx_object_class : rx

val rx_object_class_end : end_anchor

val rx_object_class_ngroups : nat

val rx_object_class_g_oid : nat

val rx_object_class_g_name : nat

val rx_object_class_g_desc : nat

val rx_object_class_g_obsolete : nat

val rx_object_class_g_extensions : nat

val rx_object_class_g_sup : nat

val rx_object_class_g_kind : nat

val rx_object_class_g_must : nat

val rx_object_class_g_may : nat

val rx_attribute_type : rx

val rx_attribute_type_end : end_anchor

val rx_attribute_type_ngroups : nat

val rx_attribute_type_g_oid : nat

val rx_attribute_type_g_name : nat

val rx_attribute_type_g_desc : nat

val rx_attribute_type_g_obsolete : nat

val rx_attribute_type_g_extensions : nat

val rx_attribute_type_g_sup : nat

val rx_attribute_type_g_equality : nat

val rx_attribute_type_g_ordering : nat

val rx_attribute_type_g_substr : nat

val rx_attribute_type_g_syntax : nat

val rx_attribute_type_g_single_value : nat

val rx_attribute_type_g_collective : nat

val rx_attribute_type_g_no_user_modification : nat

val rx_attribute_type_g_usage : nat

val rx_dit_content_rule : rx

val rx_dit_content_rule_end : end_anchor

val rx_dit_content_rule_ngroups : nat

val rx_dit_content_rule_g_oid : nat

val rx_dit_content_rule_g_name : nat

val rx_dit_content_rule_g_desc : nat

val rx_dit_content_rule_g_obsolete : nat

val rx_dit_content_rule_g_extensions : nat

val rx_dit_content_rule_g_aux : nat

val rx_dit_content_rule_g_must : nat

val rx_dit_content_rule_g_may : nat

val rx_dit_content_rule_g_not : nat

val rx_noidlen : rx

val rx_noidlen_end : end_anchor

val rx_noidlen_ngroups : nat

val rx_noidlen_g_value : nat

val rx_noidlen_g_len : nat

val rx_qd_escape : rx

val rx_qd_unescape : rx

val isspace_table : n list

type tag = { t_cls : n; t_num : n; t_cons : bool }

val tag_eqb : tag -> tag -> bool

type header = { h_tag : tag; h_hlen : n; h_len : n }

val universal : n -> bool -> tag

val pon_loop : nat -> n -> bool -> byte list

val pack_octet_number : n -> byte list

val len_loop : nat -> n -> byte list

val pack_length : n -> byte list

val pack_identifier : n -> bool -> n -> byte list

val pack_asn1 : n -> bool -> n -> byte list -> byte list res

val pack_tlv : tag -> byte list -> byte list res

val pack_boolean : tag option -> bool -> byte list res

val pack_octet_string : tag option -> byte list -> byte list res

val int_loop : nat -> bool -> z -> z -> byte list * z

val inc_le : byte list -> byte list

val int_content : z -> byte list

val pack_integer : tag option -> z -> byte list res

val pack_enumerated : tag option -> z -> byte list res

val unpack_octet_number : byte list -> n -> n -> (n * n) res

val read_len_octets : nat -> byte list -> n -> n res

val in_table : n -> n list -> bool

val read_header : byte list -> header res

val validate_tag : byte list -> tag -> header option -> (byte list * n) res

val pick_tag : tag option -> header option -> tag -> tag

val read_boolean_raw :
  byte list -> tag option -> header option -> (bool * n) res

val read_octet_string_raw :
  byte list -> tag option -> header option -> (byte list * n) res

val read_sequence_raw :
  byte list -> tag option -> header option -> (byte list * n) res

val read_set_raw :
  byte list -> tag option -> header option -> (byte list * n) res

val carry_le : byte list -> byte list

val be_valz : byte list -> z

val int_of_content : byte list -> z res

val read_integer_raw : byte list -> tag option -> header option -> (z * n) res

val read_enumerated_raw :
  byte list -> tag option -> header option -> (z * n) res

type reader = byte list

val rd :
  (byte list -> tag option -> header option -> ('a1 * n) res) -> reader ->
  tag option -> header option -> ('a1 * reader) res

val read_boolean :
  reader -> tag option -> header option -> (bool * reader) res

val read_integer : reader -> tag option -> header option -> (z * reader) res

val read_enumerated :
  reader -> tag option -> header option -> (z * reader) res

val read_octet_string :
  reader -> tag option -> header option -> (byte list * reader) res

val read_sequence :
  reader -> tag option -> header option -> (byte list * reader) res

val read_set :
  reader -> tag option -> header option -> (byte list * reader) res

val peek_header : reader -> header res

val skip_value : reader -> header -> reader

type tree =
| TInt of tag option * z
| TEnum of tag option * z
| TBool of tag option * bool
| TOct of tag option * byte list
| TSeq of tag option * tree list
| TSet of tag option * tree list

val seq_tag : tag option -> tag

val set_tag : tag option -> tag

val write_tree : tree -> byte list res

val read_tree : tree -> reader -> (tree * reader) res

type str = byte list

type octets = byte list

type control =
| CGeneric of str * bool * octets option
| CPaged of bool * z * octets * octets option
| CShowDeleted of bool * octets option
| CShowDeactivated of bool * octets option

type cred =
| CrSimple of str
| CrSasl of str * octets option

type filter0 =
| FAnd of filter0 list
| FOr of filter0 list
| FNot of filter0
| FEq of str * octets
| FSub of str * octets option * octets list * octets option
| FGe of str * octets
| FLe of str * octets
| FPresent of str
| FApprox of str * octets
| FExt of str option * str option * octets * bool

type ldap_result = { r_code : z; r_matched : str; r_diag : str;
                     r_referrals : str list option }

type partial_attr = { pa_name : str; pa_vals : octets list }

type op =
| BindRequest of z * str * cred
| BindResponse of ldap_result * octets option
| UnbindRequest
| SearchRequest of str * z * z * z * z * bool * filter0 * str list
| SearchResultEntry of str * partial_attr list
| SearchResultDone of ldap_result
| SearchResultReference of str list
| ExtendedRequest of str * octets option
| ExtendedResponse of ldap_result * str option * octets option

type msg = { m_id : z; m_op : op; m_controls : control list }

type kind =
| KBindReq
| KBindResp
| KUnbind
| KSearchReq
| KEntry
| KDone
| KRef
| KExtReq
| KExtResp

val kind_of : op -> kind

val is_request : kind -> bool

val is_response : kind -> bool

val utf8_valid : byte list -> bool

val tlv : tag -> byte list -> byte list

val ctx : n -> bool -> tag

val app_tag : n -> tag

val u_bool : tag

val u_int : tag

val u_enum : tag

val u_oct : tag

val u_seq : tag

val u_set : tag

val w_int : z -> byte list

val w_enum : z -> byte list

val w_bool : tag -> bool -> byte list

val w_oct : tag -> byte list -> byte list

val w_opt_oct : tag -> byte list option -> byte list

val cat0 : ('a1 -> byte list) -> 'a1 list -> byte list

val paged_value : z -> octets -> octets

val control_oid : control -> str

val control_crit : control -> bool

val control_value : control -> octets option

val enc_control : control -> byte list

val enc_cred : cred -> byte list

val enc_filter : filter0 -> byte list

val enc_result : ldap_result -> byte list

val enc_partial_attr : partial_attr -> byte list

val op_tag_number : op -> n

val enc_op_inner : op -> byte list

val enc_msg : msg -> byte list

val dec_str : byte list -> str res

val loop :
  nat -> ('a1 -> reader -> ('a1 * reader) res) -> 'a1 -> reader -> 'a1 res

val while_reader :
  ('a1 -> reader -> ('a1 * reader) res) -> 'a1 -> reader -> 'a1 res

val is_ctx : header -> n -> bool

val read_str : reader -> tag option -> header option -> (str * reader) res

val unpack_paged : bool -> octets option -> control res

val unpack_control : reader -> (control * reader) res

val unpack_cred : reader -> (cred * reader) res

val unpack_ava : n -> reader -> ((str * octets) * reader) res

val unpack_substrings : reader -> (filter0 * reader) res

val unpack_extensible : reader -> (filter0 * reader) res

val unpack_filter : nat -> reader -> (filter0 * reader) res

val unpack_result : reader -> (ldap_result * reader) res

val unpack_partial_attr : reader -> (partial_attr * reader) res

val enum_member : z -> n list -> unit res

val unpack_op : nat -> n -> reader -> op res

val unpack_message_value : nat -> reader -> msg res

val unpack_message : nat -> reader -> (msg * reader) res

type ber =
| Prim of n * n * byte list
| Constr of n * n * ber list

val ube : byte list -> z

val twos : byte list -> z

val s_ident : byte -> ((n * bool) * n) option

val s_length : byte list -> (n * byte list) option

val parse_one : nat -> byte list -> (ber * byte list) option

val parse_many : nat -> byte list -> ber list option

val d_list : (ber -> 'a1 option) -> ber list -> 'a1 list option

val is_prim : n -> n -> ber -> byte list option

val is_constr : n -> n -> ber -> ber list option

val d_octets : ber -> byte list option

val d_int_content : byte list -> z option

val d_integer : ber -> z option

val d_enumerated : ber -> z option

val d_bool_content : byte list -> bool option

val d_boolean : ber -> bool option

val take_opt : n -> n -> ber list -> byte list option * ber list

val take_true : n -> n -> ber list -> (bool * ber list) option

val d_control : ber -> control option

val d_cred : ber -> cred option

val span_any : ber list -> byte list list * ber list

val d_ava : (str -> octets -> filter0) -> ber list -> filter0 option

val d_substrings : ber list -> filter0 option

val d_extensible : ber list -> filter0 option

val d_filter : ber -> filter0 option

val d_result : ber list -> (ldap_result * ber list) option

val d_partial_attr : ber -> partial_attr option

val d_search : ber list -> op option

val d_op : ber -> op option

val d_msg : ber -> msg option

val strict_decode : byte list -> msg option

type role =
| Client
| Server

type state =
| BEFORE_OPEN
| BINDING
| OPENED
| CLOSED

val state_eqb : state -> state -> bool

val zmem : z -> z list -> bool

val zadd : z -> z list -> z list

val zdel : z -> z list -> z list

type sess = { s_role : role; s_state : state; s_out : byte list;
              s_outstanding : z list; s_searches : z list; s_counter : 
              z; s_in : byte list }

val init : role -> sess

val set_state : sess -> state -> sess

val set_out : sess -> byte list -> sess

val set_outstanding : sess -> z list -> sess

val set_searches : sess -> z list -> sess

val set_counter : sess -> z -> sess

val set_in : sess -> byte list -> sess

type presp =
| PNone
| PUnbind
| PNotice

type outcome =
| ORetId of z
| ORetNone
| ORetBytes of byte list
| ORetMsgs of msg list
| OLdapErr
| OProtoErr of presp
| OOther of err

type call =
| CBind of str * cred * control list
| CExtended of str * octets option * control list
| CSearch of str * z * z * z * z * bool * filter0 * str list * control list
| SBindResponse of z * octets option * z * str * str * control list
| SExtendedResponse of z * str option * octets option * z * str * str
   * control list
| SEntry of z * str * partial_attr list * control list
| SReference of z * str list * control list
| SDone of z * z * str * str * control list
| Unbind
| Receive of byte list
| Drain of z option

val is_notice_name : str option -> bool

val is_notice : op -> bool

val rc_sasl : z

val base_send : sess -> msg -> sess * z option

val client_send : sess -> op -> control list -> sess * z option

val server_send : sess -> msg -> sess * z option

val server_result : z -> str -> str -> ldap_result

val ret : (sess * z option) -> sess * outcome

val py_cut : z option -> byte list -> byte list * byte list

val parse_loop : nat -> nat -> reader -> msg list -> (msg list * reader) res

type pfail =
| PF of kind option * bool
| PCrash of crash

val process_client : sess -> msg -> sess * pfail option

val process_server : sess -> msg -> sess * pfail option

val process_all : sess -> msg list -> sess * pfail option

val attach : role -> kind option -> bool -> presp

val close : sess -> sess

val receive : nat -> sess -> byte list -> sess * outcome

val version3 : z

val step : nat -> sess -> call -> sess * outcome

type rkind =
| RControl
| RFilter
| RAuth

val rkind_eqb : rkind -> rkind -> bool

type rid = n list

val rid_eqb : rid -> rid -> bool

type rentry = { r_kind : rkind; r_id : rid; r_class : n list }

type registry = rentry list

val bytes_id : byte list -> rid

val control_oid0 : n -> rid

val reg_init : registry

val matches_entry : rkind -> rid -> rentry -> bool

val reg_find : rkind -> rid -> registry -> rentry option

val reg_add : rkind -> rid -> n list -> registry -> registry res

val reg_run :
  ((rkind * rid) * n list) list -> registry -> bool list * registry

val reg_decodes : rkind -> rid -> registry -> n list option

type ferr =
| FSyn of z * z
| FCrash of crash

type 'a fres =
| FOk of 'a
| FErr of ferr

val fbind : 'a1 fres -> ('a1 -> 'a2 fres) -> 'a2 fres

val bn : byte list -> n list

val zlen : 'a1 list -> z

val sl : byte list -> z -> z -> byte list

val at_ : byte list -> z -> byte

val c_sp : byte

val c_lp : byte

val c_rp : byte

val c_star : byte

val c_eq : byte

val c_colon : byte

val c_bang : byte

val c_amp : byte

val c_bar : byte

val c_gt : byte

val c_lt : byte

val c_tilde : byte

val is_b : byte -> byte -> bool

val attr_ok : byte list -> bool

val hexval : n -> n option

val unescape_repl : n list -> n list option

val unpack_value : byte list -> z -> z -> byte list fres

val split_on : byte -> byte list -> byte list -> byte list list

val bsplit : byte -> byte list -> byte list list

val mem_b : byte -> byte list -> bool

val sub_go :
  nat -> z -> z -> nat -> byte list list -> byte list option -> byte list
  list -> byte list option -> ((byte list option * byte list list) * byte
  list option) fres

val unpack_substrings0 :
  byte list -> z -> z -> ((byte list option * byte list list) * byte list
  option) fres

val dn_lit : byte list

val unpack_ext_header :
  byte list -> z -> z -> ((byte list option * bool) * byte list option) fres

val find_b : byte -> byte list -> z -> z

val unpack_simple : byte list -> z -> z -> (filter0 * z) fres

val finish_filter :
  z -> z -> z -> z option -> filter0 option -> (filter0 * z) fres

val filter_loop :
  (z -> z -> (filter0 * z) fres) -> byte list -> z -> z -> byte list -> z ->
  nat -> z -> z option -> filter0 option -> (filter0 * z) fres

val finish_complex : z -> z -> byte -> z -> filter0 list -> (filter0 * z) fres

val complex_loop :
  (z -> z -> (filter0 * z) fres) -> z -> z -> byte list -> z -> byte -> nat
  -> z -> filter0 list -> (filter0 * z) fres

val unpack_filter0 : nat -> byte list -> z -> z -> (filter0 * z) fres

val unpack_complex : nat -> byte list -> z -> z -> (filter0 * z) fres

val is_space : n -> bool

val lstrip : n list -> n list

val strip : n list -> n list

val is_surrogate : n -> bool

val is_escapable : n -> bool

val utf8_of_cp : n -> byte list

val surrogate_run : n list -> z

val encode_se : n list -> z -> (byte list, z * z) sum

val from_bytes : nat -> byte list -> filter0 fres

val from_string : nat -> n list -> filter0 fres

val hexdigit : n -> n

val escape_repl : n list -> n list option

val ser_value : byte list -> byte list

val join_b : byte list -> byte list list -> byte list

val opt_or_empty : byte list option -> byte list

val print_filter : filter0 -> byte list

type ustr = n list

val sQ : n

val sPC : n

val lP : n

val rP : n

val dOLLAR : n

val bSL : n

val lCURLY : n

val rCURLY : n

val ueqb : ustr -> ustr -> bool

val memc : n -> n list -> bool

val lstrip_chars : n list -> ustr -> ustr

val strip_chars : n list -> ustr -> ustr

val is_ws : n -> bool

val lstrip_ws : ustr -> ustr

val strip_ws : ustr -> ustr

val usplit_aux : n -> ustr -> ustr -> ustr list

val usplit : n -> ustr -> ustr list

val usplit1_aux : n -> ustr -> ustr -> (ustr * ustr) option

val usplit1 : n -> ustr -> (ustr * ustr) option

val starts_with : n -> ustr -> bool

val ujoin : ustr -> ustr list -> ustr

val encode_oids : ustr list -> ustr

val hexdigit0 : n -> n

val esc_repl : n list -> n list option

val encode_qdstring : ustr -> ustr res

val parse_oids : ustr option -> ustr list

val hexval0 : n -> n option

val unesc_repl : n list -> n list option

val parse_qdstring : ustr -> ustr res

val parse_qdstring_opt : ustr option -> ustr option res

val dict_set :
  ustr -> ustr list -> (ustr * ustr list) list -> (ustr * ustr list) list

val extract_qdstring : ustr -> (ustr * ustr) res

val ext_list_loop : nat -> ustr -> ustr list -> (ustr list * ustr) res

val ext_loop :
  nat -> ustr -> (ustr * ustr list) list -> (ustr * ustr list) list res

val parse_extensions : ustr option -> (ustr * ustr list) list res

val parse_names : ustr option -> ustr list

type objclass = { oc_oid : ustr; oc_names : ustr list; oc_desc : ustr option;
                  oc_obsolete : bool; oc_sup : ustr list; oc_kind : n;
                  oc_must : ustr list; oc_may : ustr list;
                  oc_ext : (ustr * ustr list) list }

type attrtype = { at_oid : ustr; at_names : ustr list; at_desc : ustr option;
                  at_obsolete : bool; at_sup : ustr option;
                  at_equality : ustr option; at_ordering : ustr option;
                  at_substr : ustr option; at_syntax : ustr option;
                  at_syntax_len : z option; at_single : bool;
                  at_collective : bool; at_no_user_mod : bool; at_usage : 
                  n; at_ext : (ustr * ustr list) list }

type ditrule = { dc_oid : ustr; dc_names : ustr list; dc_desc : ustr option;
                 dc_obsolete : bool; dc_aux : ustr list; dc_must : ustr list;
                 dc_may : ustr list; dc_not : ustr list;
                 dc_ext : (ustr * ustr list) list }

val s_ABSTRACT : ustr

val s_STRUCTURAL : ustr

val s_AUXILIARY : ustr

val s_directoryOperation : ustr

val s_distributedOperation : ustr

val s_dSAOperation : ustr

val grp : ustr -> caps -> nat -> ustr option

val truthy : ustr option -> bool

val do_match : rx -> end_anchor -> ustr -> caps res

val oc_from_string : ustr -> objclass res

val int_of_digits : ustr -> z

val split_syntax : ustr option -> (ustr option * z option) res

val restrip_syntax : ustr option -> ustr option

val at_from_string : ustr -> attrtype res

val dcr_from_string : ustr -> ditrule res

val k_NAME : ustr

val k_DESC : ustr

val k_OBSOLETE : ustr

val k_SUP : ustr

val k_MUST : ustr

val k_MAY : ustr

val k_AUX : ustr

val k_NOT : ustr

val k_EQUALITY : ustr

val k_ORDERING : ustr

val k_SUBSTR : ustr

val k_SYNTAX : ustr

val k_SINGLE : ustr

val k_COLLECTIVE : ustr

val k_NOUSERMOD : ustr

val k_USAGE : ustr

val k_X : ustr

val print_names : ustr list -> ustr

val map_res : ('a1 -> 'a2 res) -> 'a1 list -> 'a2 list res

val print_desc : ustr option -> ustr res

val print_oids : ustr -> ustr list -> ustr

val print_ext : (ustr * ustr list) list -> ustr res

val wrap : ustr -> ustr -> ustr

val oc_print : objclass -> ustr res

val opt_kw : ustr -> ustr option -> ustr

val digits_pos : nat -> n -> ustr -> ustr

val str_of_int : z -> ustr

val at_print : attrtype -> ustr res

val dcr_print : ditrule -> ustr res

val s_obytes : byte list option -> sexp

val g_obytes : sexp -> byte list option option

val s_control : control -> sexp

val g_control : sexp -> control option

val s_controls : control list -> sexp

val g_controls : sexp -> control list option

val s_cred : cred -> sexp

val g_cred : sexp -> cred option

val s_filter : filter0 -> sexp

val g_filter : nat -> sexp -> filter0 option

val filter_fuel : nat

val s_result : ldap_result -> sexp

val g_result : sexp -> ldap_result option

val s_pa : partial_attr -> sexp

val g_pa : sexp -> partial_attr option

val s_op : op -> sexp

val g_op : sexp -> op option

val s_msg : msg -> sexp

val g_msg : sexp -> msg option

val g_call : sexp -> call option

val s_outcome : outcome -> sexp

val zinsert : z -> z list -> z list

val zsort : z list -> z list

val s_state_code : state -> z

val s_snapshot : sess -> sexp

val budget : nat

val run_trace : sess -> call list -> sexp list

val g_rkind : sexp -> rkind option

val g_rid : sexp -> rid option

val g_regop : sexp -> ((rkind * rid) * n list) option

val g_regq : sexp -> (rkind * rid) option

val run_msg : z -> sexp list -> sexp option

val s_fres : ('a1 -> sexp) -> 'a1 fres -> sexp

val text_budget : nat

val run_text : z -> sexp list -> sexp option

val s_ustr : ustr -> sexp

val g_ustr : sexp -> ustr option

val s_ulist : ustr list -> sexp

val g_ulist : sexp -> ustr list option

val s_ext : (ustr * ustr list) list -> sexp

val g_ext : sexp -> (ustr * ustr list) list option

val s_oc : objclass -> sexp

val g_oc : sexp -> objclass option

val s_at : attrtype -> sexp

val g_at : sexp -> attrtype option

val s_dcr : ditrule -> sexp

val g_dcr : sexp -> ditrule option

val chain : ('a1 -> sexp) -> ustr res -> (ustr -> 'a1 res) -> sexp

val run_schema : z -> sexp list -> sexp option

val g_tag : sexp -> tag option

val s_tag : tag -> sexp

val s_hdr : header -> sexp

val g_tree : nat -> sexp -> tree option

val s_tree : tree -> sexp

val bad : sexp

val or_bad : sexp option -> sexp

val run_asn1 : z -> sexp list -> sexp option

val run : sexp -> sexp

val keys_of : (ustr * ustr list) list -> ustr list

val quote : ustr -> ustr

val s_NAME : n list

val s_DESC : n list

val s_OBSOLETE : n list

val s_SUP : n list

val s_MUST : n list

val s_MAY : n list

val s_AUX : n list

val s_NOT : n list

val s_EQUALITY : n list

val s_ORDERING : n list

val s_SUBSTR : n list

val s_SYNTAX : n list

val s_SINGLE : n list

val s_COLLECTIVE : n list

val s_NOUSERMOD : n list

val s_USAGE : n list

val u_user : n list

val u_dir : n list

val u_dist : n list

val u_dsa : n list

val is_dig : n -> bool

val is_ldig : n -> bool

val is_alpha : n -> bool

val is_keyc : n -> bool

val is_xc : n -> bool

val kind_text : n -> ustr

val len_text : z option -> n list

val syn_text : ustr -> z option -> n list

val arc_b : n list -> bool

val numoid_b : n list -> bool

val descr_b : n list -> bool

val oid_b : n list -> bool

val nonempty_b : n list -> bool

val ext_b : (ustr * ustr list) -> bool

val nodup_b : ustr list -> bool

val desc_b : ustr option -> bool

val wf_oc_b : objclass -> bool

val wf_dcr_b : ditrule -> bool

val oid_opt_b : ustr option -> bool

val syn_b : ustr option -> z option -> bool

val wf_at_b : attrtype -> bool

val sp : nat -> n list

val gitem : ((nat * nat) * n list) -> n list

val gitem_oid : ((nat * nat) * n list) -> n list

type oids_cst =
| OBare of n list
| OParen of nat * n list * ((nat * nat) * n list) list * nat

val oids_text : oids_cst -> n list

val oids_den : oids_cst -> ustr list

val qitem_g : (nat * n list) -> n list

type qdescrs_cst =
| QBare of n list
| QEmpty of nat
| QParen of nat * n list * (nat * n list) list * nat

val qdescrs_text : qdescrs_cst -> n list

val qdescrs_den : qdescrs_cst -> ustr list

type dch =
| DPlain of n
| DQuote
| DBslLower
| DBslUpper

val enc : dch -> n list

val den : dch -> n

val qd_g : dch list -> n list

val qsitem_g : (nat * dch list) -> n list

type qdstrings_cst =
| SBare of dch list
| SEmpty of nat
| SParen of nat * dch list * (nat * dch list) list * nat

val qdstrings_text : qdstrings_cst -> n list

val qdstrings_den : qdstrings_cst -> ustr list

val qdstrings_parts : qdstrings_cst -> dch list list

type ext_cst = { e_a : nat; e_key : n list; e_b : nat; e_vals : qdstrings_cst }

val ext_text_g : ext_cst -> n list

val exts_text : ext_cst list -> n list

val seg_kw_g : nat -> n list -> nat -> n list -> n list

val ext_upd : (ustr * ustr list) list -> ext_cst -> (ustr * ustr list) list

val exts_den : ext_cst list -> (ustr * ustr list) list

type 'a part = ((nat * nat) * 'a) option

val part_text : n list -> ('a1 -> n list) -> 'a1 part -> n list

val flag_text : n list -> nat option -> n list

val end_text : ext_cst list -> nat -> n list

type head_cst = { h_w0 : nat; h_oid : n list; h_name : qdescrs_cst part;
                  h_desc : dch list part; h_obs : nat option }

val g3 : n list -> head_cst -> n list

val g2 : n list -> head_cst -> n list

val g1 : n list -> head_cst -> n list

val head_sentence : n list -> head_cst -> n list

type oc_cst = { oc_h : head_cst; oc_csup : oids_cst part;
                oc_ckind : (nat * n) option; oc_cmust : oids_cst part;
                oc_cmay : oids_cst part; oc_cext : ext_cst list; oc_cw1 : 
                nat }

val kind_seg : (nat * n) option -> n list

val o8 : oc_cst -> n list

val o7 : oc_cst -> n list

val o6 : oc_cst -> n list

val o5 : oc_cst -> n list

val o4 : oc_cst -> n list

val oc_sentence : oc_cst -> n list

val part_den : ('a1 -> 'a2 list) -> 'a1 part -> 'a2 list

val oc_denote : oc_cst -> objclass

type dcr_cst = { dc_h : head_cst; dc_caux : oids_cst part;
                 dc_cmust : oids_cst part; dc_cmay : oids_cst part;
                 dc_cnot : oids_cst part; dc_cext : ext_cst list; dc_cw1 : 
                 nat }

val r8 : dcr_cst -> n list

val r7 : dcr_cst -> n list

val r6 : dcr_cst -> n list

val r5 : dcr_cst -> n list

val r4 : dcr_cst -> n list

val dcr_sentence : dcr_cst -> n list

val dcr_denote : dcr_cst -> ditrule

type syn_cst =
| SynPlain of n list * z option
| SynQuoted of n list * z option

val syn_text_g : syn_cst -> n list

val syn_s : syn_cst -> n list

val syn_l : syn_cst -> z option

val usage_name : n -> n list

type at_cst = { at_h : head_cst; at_csup : n list part; at_ceq : n list part;
                at_cord : n list part; at_csub : n list part;
                at_csyn : syn_cst part; at_csingle : nat option;
                at_ccol : nat option; at_cnum : nat option;
                at_cusage : n part; at_cext : ext_cst list; at_cw1 : 
                nat }

val idf : n list -> n list

val b13 : at_cst -> n list

val b12 : at_cst -> n list

val b11 : at_cst -> n list

val b10 : at_cst -> n list

val b9 : at_cst -> n list

val b8 : at_cst -> n list

val b7 : at_cst -> n list

val b6 : at_cst -> n list

val b5 : at_cst -> n list

val b4 : at_cst -> n list

val at_sentence : at_cst -> n list

val part_opt : 'a1 part -> 'a1 option

val flag_on : nat option -> bool

val at_denote : at_cst -> attrtype

val part_b : ('a1 -> bool) -> 'a1 part -> bool

val qdescrs_b : qdescrs_cst -> bool

val oids_b : oids_cst -> bool

val dch_b : dch -> bool

val ds_b : dch list -> bool

val qdstrings_b : qdstrings_cst -> bool

val xkey_b : n list -> bool

val extc_b : ext_cst -> bool

val exts_b : ext_cst list -> bool

val head_b : head_cst -> bool

val oc_cst_b : oc_cst -> bool

val dcr_cst_b : dcr_cst -> bool

val syn_cst_b : syn_cst -> bool

val usage_b : n -> bool

val at_cst_b : at_cst -> bool

val g_nat : sexp -> nat option

val g_part : (sexp -> 'a1 option) -> sexp -> 'a1 part option

val g_dch : sexp -> dch option

val g_ds : sexp -> dch list option

val g_qdescrs : sexp -> qdescrs_cst option

val g_oidsc : sexp -> oids_cst option

val g_qdstrings : sexp -> qdstrings_cst option

val g_extc : sexp -> ext_cst option

val g_head : sexp -> head_cst option

val g_occ : sexp -> oc_cst option

val g_dcrc : sexp -> dcr_cst option

val g_syn : sexp -> syn_cst option

val g_atc : sexp -> at_cst option

val rx_by_id : z -> ((rx * end_anchor) * nat) option

val s_match : rx -> end_anchor -> nat -> ustr -> sexp

val cst_answer :
  ('a1 -> sexp) -> ustr -> bool -> 'a1 -> (ustr -> 'a1 res) -> sexp

val run_schema_ext : z -> sexp list -> sexp option

val runx : sexp -> sexp
